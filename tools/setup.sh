#!/bin/bash
# Run once after a fresh restore: warms the Go build cache for the harness (plain and -race).
# Checks rebuild from /repo's working tree anyway.
export GOFLAGS=-mod=mod GOPROXY=off GOSUMDB=off GOTOOLCHAIN=local CGO_ENABLED=1
cd "$(dirname "$0")/../harness" || exit 1
go build -tags verif ./... || exit 1
go build -race -tags verif ./core/... ./wenc/... ./wasiproxy/... || exit 1
echo setup ok
