#!/usr/bin/env python3
"""Prepare a round of seeded-change worktrees: /tmp/seed<R>-<ID> (git worktree of /repo HEAD) and
/tmp/seed<R>-<ID>.prop.txt (property text only + one-line summaries of the seeds that already exist, so
that the new one differs). Nothing from /verif's checks is given to the seeding agents.
usage: seedprep.py <round> [ids...]"""
import json, os, subprocess, sys, glob
rnd = sys.argv[1]
ids = sys.argv[2:]
props = [json.loads(l) for l in open('/verif/properties.jsonl') if l.strip()]
for p in props:
    pid = p['id']
    if ids and pid not in ids:
        continue
    wt = f'/tmp/seed{rnd}-{pid}'
    if not os.path.exists(wt):
        subprocess.check_call(['git', '-C', '/repo', 'worktree', 'add', '--detach', wt], stdout=subprocess.DEVNULL, stderr=subprocess.DEVNULL)
    done = []
    for m in sorted(glob.glob(f'/verif/seeded/{pid}*/meta.json')):
        done.append(json.load(open(m)).get('breaks', ''))
    t = f"{pid} — {p['title']}\n\n{p['statement']}\n\n"
    q = p.get('quantifier')
    if isinstance(q, dict) and q.get('text'):
        t += f"Quantifier: {q['text']}\n\n"
    anc = p.get('anchors')
    if isinstance(anc, dict) and anc.get('files'):
        t += "Code the property is anchored in: " + ', '.join(anc['files']) + "\n\n"
    if done:
        t += "\nALREADY DONE by previous engineers (do something DIFFERENT from all of these: another mechanism and another code site):\n"
        for d in done:
            t += "- " + d + "\n"
    open(wt + '.prop.txt', 'w').write(t)
    print(wt)
