#!/bin/bash
# tools/seedrecheck.sh [name...]  — regression test of the monitors: re-apply every stored seeded change
# (/verif/seeded/<name>/patch.diff) to a fresh worktree of /repo HEAD and run the property's quick check against it.
# Records the outcome in seeded/<name>/meta.json ("recheck") and prints one line per seed. /repo is never touched.
export GOFLAGS=-mod=mod GOPROXY=off GOSUMDB=off GOTOOLCHAIN=local
cd /verif
NAMES="$@"; [ -z "$NAMES" ] && NAMES=$(ls seeded)
HEAD=$(git -C /repo rev-parse --short HEAD)
for NAME in $NAMES; do
  ID=$(python3 -c "import json;print(json.load(open('/verif/seeded/$NAME/meta.json'))['property'])")
  C=/tmp/recheck-wt-$NAME; D=/tmp/recheck-$NAME
  git -C /repo worktree remove --force $C 2>/dev/null; rm -rf $C $D; mkdir -p $D; cp KNOWN_FINDINGS.txt $D/
  git -C /repo worktree add --detach $C HEAD -q || { echo "$NAME: worktree failed"; continue; }
  if ! git -C $C apply /verif/seeded/$NAME/patch.diff 2>$D/apply.err; then
    RES=patch-does-not-apply; RC=-1
  else
    VERIF_DIR_OVERRIDE=$D VERIF_REPO=$C ./check $ID quick > $D/log 2>&1; RC=$?
    if [ $RC = 1 ]; then RES=caught; elif [ $RC = 0 ]; then RES=MISSED; else RES=check-broken-rc$RC; fi
  fi
  python3 - "$NAME" "$HEAD" "$RES" "$D/log" <<'PY'
import json,sys
name,head,res,log=sys.argv[1:]
p=f'/verif/seeded/{name}/meta.json'; m=json.load(open(p))
sigs=[]
try:
    for l in open(log):
        if l.strip().startswith('sig='): sigs.append(l.strip()[:200])
except Exception: pass
m['recheck']={'repo_head':head,'result':res,'signatures':sigs[:6]}
json.dump(m,open(p,'w'),indent=1)
PY
  echo "$NAME ($ID): $RES $(grep -m1 'sig=' $D/log 2>/dev/null | cut -c1-120)"
  git -C /repo worktree remove --force $C; rm -rf $D
done
