#!/bin/bash
# tools/seedtest.sh <id> <wazero checkout with the seeded change> [tier]
# Runs the check for <id> against another checkout without touching /repo or /verif/evidence.
ID=$1; REPO=$2; TIER=${3:-quick}
D=/tmp/seedrun-$ID; rm -rf $D; mkdir -p $D; cp /verif/KNOWN_FINDINGS.txt $D/
VERIF_DIR_OVERRIDE=$D VERIF_REPO=$REPO /verif/check $ID $TIER > $D/log 2>&1; rc=$?
echo "$ID on $REPO: rc=$rc"; grep "^VIOLATION\|sig=\|^C[0-9][0-9] \|BUILD\|BROKEN" $D/log | cut -c1-220 | head -${4:-12}
