#!/usr/bin/env python3
"""Prints the markdown table of seeded changes (from /verif/seeded/*/meta.json) for DESIGN.md §7.7."""
import json, glob, os, re
rows=[]
def key(n):
    m=re.match(r'C(\d+)(?:-(\d+))?$', n); return (int(m.group(1)), int(m.group(2) or 1))
names=sorted((os.path.basename(os.path.dirname(m)) for m in glob.glob('/verif/seeded/*/meta.json')), key=key)
caught=other=notclaimed=missed=beforefix=0
for name in names:
    j=json.load(open(f'/verif/seeded/{name}/meta.json'))
    c=j.get('confirmed_by_me',{}); r=j.get('check_result',{})
    sig=(r.get('signatures') or [''])[0].replace('sig=','').split(' ')[0][:80]
    rc=j.get('recheck',{})
    if rc.get('result')=='caught' and not sig:
        sig=(rc.get('signatures') or [''])[0].replace('sig=','').split(' ')[0][:80]
    # the latest recheck against /repo's HEAD decides when there is one; annotations explain a miss
    if rc.get('result')=='caught' or (not rc and r.get('caught_by_quick')): st='caught'; caught+=1
    elif r.get('caught_by_quick_before_fix'): st='caught (before a later fix removed the path; see meta)'; beforefix+=1
    elif r.get('caught_by_other_check'): st='caught by '+r['caught_by_other_check']+' (see meta)'; other+=1
    elif r.get('outside_property_as_stated'): st='not claimed (outside the property as stated; see meta)'; notclaimed+=1
    else: st='MISSED (see meta)'; missed+=1
    conf='yes' if (c.get('confirmed') or c.get('confirmed_before_fix')) else 'NO'
    rows.append((name, j['property'], (j.get('breaks') or '')[:200].replace('|','/').replace('\n',' '), conf, st, sig))
print('| seeded change | property | what it breaks (needs something specific to manifest) | confirmed | quick check of the property | first signature |')
print('|---|---|---|---|---|---|')
for r in rows: print('| '+' | '.join(r)+' |')
print()
print(f'{len(rows)} seeded changes: {caught} caught by the quick tier of the property\'s own check (latest run against the seed; meta.json "recheck.repo_head" names the tree), {beforefix} caught when they arrived but since neutralised by a fix: commit (the demo passes with the patch on HEAD), {other} caught by a sibling property\'s check, {notclaimed} not claimed (outside the property as stated), {missed} missed.')
