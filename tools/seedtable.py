#!/usr/bin/env python3
"""Prints the markdown table of seeded changes (from /verif/seeded/*/meta.json) for DESIGN.md §7.7."""
import json, glob, os
rows=[]
for m in sorted(glob.glob('/verif/seeded/*/meta.json')):
    j=json.load(open(m)); name=os.path.basename(os.path.dirname(m))
    c=j.get('confirmed_by_me',{}); r=j.get('check_result',{})
    sig=(r.get('signatures') or [''])[0].replace('sig=','').split(' ')[0][:90]
    rows.append((name, j['property'], (j.get('breaks') or '')[:230].replace('|','/').replace('\n',' '), 'yes' if c.get('confirmed') else 'NO', 'caught' if r.get('caught_by_quick') else 'MISSED', sig))
print('| seeded change | property | what it breaks (needs something specific to manifest) | confirmed | quick check | first signature |')
print('|---|---|---|---|---|---|')
for r in rows: print('| '+' | '.join(r)+' |')
print()
print(f'{sum(1 for r in rows if r[4]=="caught")} of {len(rows)} caught by the quick tier of the property\'s own check.')
