#!/usr/bin/env python3
"""Generates /verif/MANIFEST.json from the table below and validates it (and any evidence files) against the schemas."""
import json, os, sys, subprocess
HERE = os.path.dirname(os.path.dirname(os.path.abspath(__file__)))

# id -> (level, technique, text, note, design_ref)   -- only properties whose check exists
CHECKS = {
 "C19": ("exploration", "runtime monitoring: snapshot/replay monitors over PRNG derivation trees + Go race detector",
         "PRNG derivation trees over every With… method; each node is re-checked after every later derivation and instantiation against its creation-time deep snapshot, a fresh linear replay observed through a WASI guest, and a functional args/env model; concurrent derivations run under the race detector. Held on the trees explored only.",
         "trusts the Go race detector and reflection-based read-only snapshots; objects a config merely refers to are compared by identity", "§3 C19"),
}
NOT_YET = {}
CHECKS["C11"] = ("exploration", "runtime monitoring: lone-instance replay monitor (trace of each instance in a group vs the projected script on a fresh lone instance) + Go race detector on a concurrent variant",
  "PRNG groups of 2-5 unlinked instances (same or different compiled modules, one runtime or two sharing a compilation cache, both engines) run an interleaved script; a monitor compares each instance's canonical trace (results, traps, host log, memory/global/table digests incl. dropped-segment effects) with the trace of the projected script on a lone instance; one goroutine per instance under the race detector. Held on the groups explored only.",
  "the harness's host functions keep per-instance state; WASI descriptors/stdio isolation is covered only as far as generated programs reach it (not at all in this driver)", "§3 C11")
CHECKS["C12"] = ("exploration", "runtime monitoring: differential trace monitor over the configuration lattice (base point vs every point), separate processes for warm disk cache",
  "Full lattice of 768 configuration points (8 cache modes incl. warm directory from another process and shared-cache orders with closes, capacity-from-max, guard-page allocator, debug info, custom sections, close-on-context-done, 3 listener sets, 2 engines) for a few programs plus thousands of PRNG (program, point) pairs; the guest's canonical trace at the point must equal the base trace. Held on the pairs explored only.",
  "error text is not compared (only class); listener callbacks are C20's business; core features and memory limit are semantic and fixed", "§3 C12")
CHECKS["C08"] = ("exploration", "runtime monitoring: echo-protocol monitors at the host/guest boundary (host-side recorder + in-wasm judge + Go-side comparison), race detector/checkptr on a sample",
  "For thousands of host-function signatures (all up to arity 3x2 exhaustively over the numeric types, a covering set with every type at every position 0-13 crossing the amd64 register cliffs, PRNG ones) x 8 definition styles x Call/CallWithStack x re-entry, known values are sent through; the host function checks what it received, the guest judges results in wasm against baked constants (bit masks), Go checks what comes back; both engines. Held on the signatures and value vectors explored only.",
  "a non-zero upper half of a 32-bit result slot seen from Go is allowed (documented DecodeU32/DecodeI32 use); arm64 not executed", "§3 C08")
CHECKS["C10"] = ("exploration", "runtime monitoring: porcupine linearizability checking of recorded client-boundary histories + schedule-point hooks (-tags verif) + Go race detector + exactly-once close-notification counters",
  "Thousands of short concurrent histories (3-8 goroutines x 3-6 ops over two names and the anonymous name; instantiate/lookup/close/compile/host-module/runtime-close) are recorded with call/return stamps from one logical clock and checked by porcupine against the sequential registry model; hooks between critical sections widen windows; quiescence counters (close notification exactly once, every module closed, later requests fail with an error, no panic); a sequential phase with shrinking gives trigger-level signatures; the same scripts run under the race detector. Held on the histories and interleavings observed only.",
  "porcupine search (NP-complete, timeout => inconclusive); race detector happens-before; hooks sit between critical sections only", "§3 C10, App. C")
CHECKS["C15"] = ("exploration", "runtime monitoring: per-call monitors over hostile WASI argument tuples (outcome class, whole-memory diff against allowed write sets, shadow descriptor table, allocation delta) in supervised children",
  "All 46 WASI functions are called as a guest with boundary/overflowing argument tuples (full product for <=3 params, pairwise+PRNG beyond) in several descriptor-table states, mounts and stdio variants; per call: no Go runtime error / child death, guest memory changed only inside the regions of Appendix A, previously open descriptors still behave per the shadow table, host allocation <= 4x guest memory + 1 MiB. Held on the calls explored only.",
  "allowed write sets are supersets where the docs are vague; allocation measured by runtime.MemStats", "§3 C15, App. A")
CHECKS["C17"] = ("exploration", "runtime monitoring: before/after snapshot monitor of the mounted host tree (and MapFS) around every single WASI call, full path_open flag product",
  "The full product of path_open oflags x fdflags x rights x lookupflags x paths (30 720 combinations, counted in evidence) with follow-up writes on every returned fd, every other mutating call over all paths, and PRNG sequences, on read-only dir mounts and fs.FS mounts (os.DirFS, MapFS); a recursive snapshot (names, types, sizes, SHA-256, mtime/ctime, modes, inodes, link targets) must be identical before and after every call and a known file must still read back. Held on the calls explored only.",
  "atime excluded; power-loss effects not producible", "§3 C17")
CHECKS["C01"] = ("exploration", "runtime monitoring: differential trace monitor (interpreter vs compiler) over generated programs in supervised children",
  "By-construction-valid generated programs (all enabled features, NaN-canonicalised, fuel-terminated) with PRNG call scripts are run on both engines; a monitor compares canonical traces (result bits, trap kind, host-call log, memory/global/table digests after every step) event by event; crashes and internal errors are violations, stack exhaustion is inconclusive. Held on the programs explored only.",
  "trusts the generator's NaN canonicalisation and fuel; errors shared by both engines are invisible here (C05 covers numerics); arm64 back end not executed", "§3 C01")

def main():
    props = [json.loads(l) for l in open(os.path.join(HERE, "properties.jsonl"))]
    hooks_commits = []
    try:
        out = subprocess.run(["git", "-C", "/repo", "log", "--format=%h %s"], capture_output=True, text=True).stdout
        for l in out.splitlines():
            if l.split(" ", 1)[1].startswith("verif hook"):
                hooks_commits.append(l.split()[0])
    except Exception:
        pass
    m = {
        "version": 1,
        "setup_cmd": "cd /verif && ./tools/setup.sh",
        "hooks": {
            "guard": "verif",
            "enable": "go build -tags verif (the harness module under /verif/harness replaces github.com/tetratelabs/wazero with /repo)",
            "baseline_off_cmd": "cd /repo && export GOFLAGS=-mod=mod GOPROXY=off GOSUMDB=off GOTOOLCHAIN=local && go test -vet=off -count=1 -timeout 25m ./... && cd internal/integration_test/fuzz && go test -vet=off -count=1 -timeout 25m ./...",
            "source_commits": hooks_commits,
            "add_only": True,
        },
        "engines": [{"name": "vcheck", "path": "/verif/harness", "serves_properties": sorted(CHECKS),
                     "kind_free_text": "Go harness: per-property drivers (workload generators + monitors) running real wazero in supervised child processes; race detector, checkptr, guard-page allocator, porcupine"}],
        "checks": [], "not_applicable": [],
        "notes": "All checks: ./check <id> <quick|thorough>; VERIF_SEED selects the PRNG stream; KNOWN_FINDINGS.txt lists recorded defects (never written at run time).",
    }
    for p in props:
        i = p["id"]
        if i in CHECKS:
            lvl, tech, text, note, ref = CHECKS[i]
            m["checks"].append({
                "property_id": i,
                "quick_cmd": f"./check {i} quick",
                "thorough_cmd": f"./check {i} thorough",
                "evidence_file": f"/verif/evidence/{i}.json",
                "replay_cmd_template": f"./check {i} quick --replay {{path}}",
                "engine": "vcheck",
                "level_claimed": {"category": lvl, "text": text, "design_ref": ref},
                "level_note": note,
                "technique": tech,
            })
        else:
            m["not_applicable"].append({"property_id": i, "reason": NOT_YET.get(i, "check not built yet in this round (runtime monitoring applies; see DESIGN.md)")})
    json.dump(m, open(os.path.join(HERE, "MANIFEST.json"), "w"), indent=1)
    # validate
    try:
        import jsonschema
    except ImportError:
        print("jsonschema not importable; skipped validation"); return
    jsonschema.validate(m, json.load(open("/root/.vp/MANIFEST.schema.json")))
    es = json.load(open("/root/.vp/EVIDENCE.schema.json"))
    bad = 0
    for c in m["checks"]:
        f = c["evidence_file"]
        if os.path.exists(f):
            try:
                e = json.load(open(f)); jsonschema.validate(e, es)
                assert e["level"] == c["level_claimed"]["category"], "level mismatch"
            except Exception as ex:
                bad += 1; print("EVIDENCE INVALID", f, str(ex)[:300])
        else:
            print("evidence missing:", f)
    print("MANIFEST ok:", len(m["checks"]), "checks,", len(m["not_applicable"]), "not_applicable; bad evidence:", bad)

main()
