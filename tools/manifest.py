#!/usr/bin/env python3
"""Generates /verif/MANIFEST.json from the table below and validates it (and any evidence files) against the schemas."""
import json, os, sys, subprocess
HERE = os.path.dirname(os.path.dirname(os.path.abspath(__file__)))

# id -> (level, technique, text, note, design_ref)   -- only properties whose check exists
CHECKS = {
 "C19": ("exploration", "runtime monitoring: snapshot/replay monitors over PRNG derivation trees + Go race detector",
         "PRNG derivation trees over every With… method; each node is re-checked after every later derivation and instantiation against its creation-time deep snapshot, a fresh linear replay observed through a WASI guest, and a functional args/env model; concurrent derivations run under the race detector. Held on the trees explored only.",
         "trusts the Go race detector and reflection-based read-only snapshots; objects a config merely refers to are compared by identity", "§3 C19"),
}
NOT_YET = {}
CHECKS["C11"] = ("exploration", "runtime monitoring: lone-instance replay monitor (trace of each instance in a group vs the projected script on a fresh lone instance) + Go race detector on a concurrent variant",
  "PRNG groups of 2-5 unlinked instances (same or different compiled modules, one runtime or two sharing a compilation cache, both engines) run an interleaved script; a monitor compares each instance's canonical trace (results, traps, host log, memory/global/table digests incl. dropped-segment effects) with the trace of the projected script on a lone instance; one goroutine per instance under the race detector. Held on the groups explored only.",
  "the harness's host functions keep per-instance state; WASI descriptors/stdio isolation is covered only as far as generated programs reach it (not at all in this driver)", "§3 C11")
CHECKS["C12"] = ("exploration", "runtime monitoring: differential trace monitor over the configuration lattice (base point vs every point), separate processes for warm disk cache",
  "Full lattice of 768 configuration points (8 cache modes incl. warm directory from another process and shared-cache orders with closes, capacity-from-max, guard-page allocator, debug info, custom sections, close-on-context-done, 3 listener sets, 2 engines) for a few programs plus thousands of PRNG (program, point) pairs; the guest's canonical trace at the point must equal the base trace. Held on the pairs explored only.",
  "error text is not compared (only class); listener callbacks are C20's business; core features and memory limit are semantic and fixed", "§3 C12")
CHECKS["C01"] = ("exploration", "runtime monitoring: differential trace monitor (interpreter vs compiler) over generated programs in supervised children",
  "By-construction-valid generated programs (all enabled features, NaN-canonicalised, fuel-terminated) with PRNG call scripts are run on both engines; a monitor compares canonical traces (result bits, trap kind, host-call log, memory/global/table digests after every step) event by event; crashes and internal errors are violations, stack exhaustion is inconclusive. Held on the programs explored only.",
  "trusts the generator's NaN canonicalisation and fuel; errors shared by both engines are invisible here (C05 covers numerics); arm64 back end not executed", "§3 C01")

def main():
    props = [json.loads(l) for l in open(os.path.join(HERE, "properties.jsonl"))]
    hooks_commits = []
    try:
        out = subprocess.run(["git", "-C", "/repo", "log", "--format=%h %s"], capture_output=True, text=True).stdout
        for l in out.splitlines():
            if l.split(" ", 1)[1].startswith("verif hook"):
                hooks_commits.append(l.split()[0])
    except Exception:
        pass
    m = {
        "version": 1,
        "setup_cmd": "cd /verif && ./tools/setup.sh",
        "hooks": {
            "guard": "verif",
            "enable": "go build -tags verif (the harness module under /verif/harness replaces github.com/tetratelabs/wazero with /repo)",
            "baseline_off_cmd": "cd /repo && export GOFLAGS=-mod=mod GOPROXY=off GOSUMDB=off GOTOOLCHAIN=local && go test -vet=off -count=1 -timeout 25m ./... && cd internal/integration_test/fuzz && go test -vet=off -count=1 -timeout 25m ./...",
            "source_commits": hooks_commits,
            "add_only": True,
        },
        "engines": [{"name": "vcheck", "path": "/verif/harness", "serves_properties": sorted(CHECKS),
                     "kind_free_text": "Go harness: per-property drivers (workload generators + monitors) running real wazero in supervised child processes; race detector, checkptr, guard-page allocator, porcupine"}],
        "checks": [], "not_applicable": [],
        "notes": "All checks: ./check <id> <quick|thorough>; VERIF_SEED selects the PRNG stream; KNOWN_FINDINGS.txt lists recorded defects (never written at run time).",
    }
    for p in props:
        i = p["id"]
        if i in CHECKS:
            lvl, tech, text, note, ref = CHECKS[i]
            m["checks"].append({
                "property_id": i,
                "quick_cmd": f"./check {i} quick",
                "thorough_cmd": f"./check {i} thorough",
                "evidence_file": f"/verif/evidence/{i}.json",
                "replay_cmd_template": f"./check {i} quick --replay {{path}}",
                "engine": "vcheck",
                "level_claimed": {"category": lvl, "text": text, "design_ref": ref},
                "level_note": note,
                "technique": tech,
            })
        else:
            m["not_applicable"].append({"property_id": i, "reason": NOT_YET.get(i, "check not built yet in this round (runtime monitoring applies; see DESIGN.md)")})
    json.dump(m, open(os.path.join(HERE, "MANIFEST.json"), "w"), indent=1)
    # validate
    try:
        import jsonschema
    except ImportError:
        print("jsonschema not importable; skipped validation"); return
    jsonschema.validate(m, json.load(open("/root/.vp/MANIFEST.schema.json")))
    es = json.load(open("/root/.vp/EVIDENCE.schema.json"))
    bad = 0
    for c in m["checks"]:
        f = c["evidence_file"]
        if os.path.exists(f):
            try:
                e = json.load(open(f)); jsonschema.validate(e, es)
                assert e["level"] == c["level_claimed"]["category"], "level mismatch"
            except Exception as ex:
                bad += 1; print("EVIDENCE INVALID", f, str(ex)[:300])
        else:
            print("evidence missing:", f)
    print("MANIFEST ok:", len(m["checks"]), "checks,", len(m["not_applicable"]), "not_applicable; bad evidence:", bad)

main()
