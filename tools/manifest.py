#!/usr/bin/env python3
"""Generates /verif/MANIFEST.json from the table below and validates it (and any evidence files) against the schemas."""
import json, os, sys, subprocess
HERE = os.path.dirname(os.path.dirname(os.path.abspath(__file__)))

# id -> (level, technique, text, note, design_ref)   -- only properties whose check exists
CHECKS = {
 "C19": ("exploration", "runtime monitoring: snapshot/replay monitors over PRNG derivation trees + Go race detector",
         "PRNG derivation trees over every With… method; each node is re-checked after every later derivation and instantiation against its creation-time deep snapshot, a fresh linear replay observed through a WASI guest, and a functional args/env model; concurrent derivations run under the race detector. Held on the trees explored only.",
         "trusts the Go race detector and reflection-based read-only snapshots; objects a config merely refers to are compared by identity", "§3 C19"),
}
NOT_YET = {}
CHECKS["C11"] = ("exploration", "runtime monitoring: lone-instance replay monitor (trace of each instance in a group vs the projected script on a fresh lone instance) + Go race detector on a concurrent variant",
  "PRNG groups of 2-5 unlinked instances (same or different compiled modules, one runtime or two sharing a compilation cache, both engines) run an interleaved script; a monitor compares each instance's canonical trace (results, traps, host log, memory/global/table digests incl. dropped-segment effects) with the trace of the projected script on a lone instance; half of the groups with capacity-from-max memories and with dirtied, closed predecessor instances; a WASI part (own or default-config descriptors, stdio, random/clock sources, directory listings per instance, shared base ModuleConfig) and a providers part (one compiled guest linked to different providers under one name) use the same lone-replay oracle; one goroutine per instance under the race detector. Held on the groups explored only.",
  "the harness's host functions keep per-instance state; Emscripten host modules are not driven", "§3 C11")
CHECKS["C12"] = ("exploration", "runtime monitoring: differential trace monitor over the configuration lattice (base point vs every point), separate processes for warm disk cache",
  "Full lattice of 768 configuration points (8 cache modes incl. warm directory from another process and shared-cache orders with closes, capacity-from-max, guard-page allocator, debug info, custom sections, close-on-context-done, 3 listener sets, 2 engines) for a few programs plus thousands of PRNG (program, point) pairs; the guest's canonical trace at the point must equal the base trace; directed programs at every in-process point: deep proper-tail-call rings, register-pressure kernels, cross-module call chains with listener subsets, linked modules (link decisions around the exporter's current size and maximum). Held on the pairs explored only.",
  "error text is not compared (only class); listener callbacks are C20's business; core features and memory limit are semantic and fixed", "§3 C12")
CHECKS["C08"] = ("exploration", "runtime monitoring: echo-protocol monitors at the host/guest boundary (host-side recorder + in-wasm judge + Go-side comparison), race detector/checkptr on a sample",
  "For thousands of host-function signatures (all up to arity 3x2 exhaustively over the numeric types, a covering set with every type at every position 0-13 crossing the amd64 register cliffs, PRNG ones) x 8 definition styles x Call/CallWithStack x re-entry, known values are sent through; the host function checks what it received, the guest judges results in wasm against baked constants (bit masks), Go checks what comes back; both engines. Held on the signatures and value vectors explored only.",
  "a non-zero upper half of a 32-bit result slot seen from Go is allowed (documented DecodeU32/DecodeI32 use); arm64 not executed", "§3 C08")
CHECKS["C10"] = ("exploration", "runtime monitoring: porcupine linearizability checking of recorded client-boundary histories + schedule-point hooks (-tags verif) + Go race detector + exactly-once close-notification counters",
  "Thousands of short concurrent histories (3-8 goroutines x 3-6 ops over two names and the anonymous name; instantiate/lookup/close/compile/host-module/runtime-close) are recorded with call/return stamps from one logical clock and checked by porcupine against the sequential registry model; hooks between critical sections widen windows; quiescence counters (close notification exactly once, every module closed, later requests fail with an error, no panic); a sequential phase with shrinking gives trigger-level signatures; the same scripts run under the race detector. Held on the histories and interleavings observed only.",
  "porcupine search (NP-complete, timeout => inconclusive); race detector happens-before; hooks sit between critical sections only", "§3 C10, App. C")
CHECKS["C15"] = ("exploration", "runtime monitoring: per-call monitors over hostile WASI argument tuples (outcome class, whole-memory diff against allowed write sets, shadow descriptor table, allocation delta) in supervised children",
  "All 46 WASI functions are called as a guest with boundary/overflowing argument tuples (full product for <=3 params, pairwise+PRNG beyond) in several descriptor-table states, mounts and stdio variants; per call: no Go runtime error / child death, guest memory changed only inside the regions of Appendix A, previously open descriptors still behave per the shadow table, host allocation <= 4x guest memory + 1 MiB. Held on the calls explored only.",
  "allowed write sets are supersets where the docs are vague; allocation measured by runtime.MemStats", "§3 C15, App. A")
CHECKS["C17"] = ("exploration", "runtime monitoring: before/after snapshot monitor of the mounted host tree (and MapFS) around every single WASI call, full path_open flag product",
  "The full product of path_open oflags x fdflags x rights x lookupflags x paths (30 720 combinations, counted in evidence) with follow-up writes on every returned fd, every other mutating call over all paths, and PRNG sequences, on read-only dir mounts and fs.FS mounts (os.DirFS, MapFS); a recursive snapshot (names, types, sizes, SHA-256, mtime/ctime, modes, inodes, link targets) must be identical before and after every call and a known file must still read back. Held on the calls explored only.",
  "atime excluded; power-loss effects not producible", "§3 C17")
CHECKS["C02"] = ("exploration", "runtime monitoring + sanitizer: guard-page (red-zone) linear-memory allocator around real JIT/interpreter execution, sparse reference-memory monitor per access, supervised children",
  "Access-pattern templates (114 memory instructions; base as parameter/constant/constant-in-local/computed; calls, memory.grow and control-flow joins between accesses; the same base reused afterwards) on memories of 0..65536 pages, fixed and moving allocators, both engines. Every linear memory is [8GiB PROT_NONE | max | 8GiB PROT_NONE], so an out-of-bounds touch by generated code kills the child and is mapped back to the access; a Go reference memory decides trap/no-trap, trap kind and location, loaded values, memory contents and that trapping writes change nothing. Held on the templates and value tuples explored only.",
  "red zone reaches +-8GiB only; page-granular for in-bounds stray writes (value oracle covers bytes); arm64 not executed", "§3 C02, §2.4")
CHECKS["C03"] = ("exploration", "runtime monitoring: structured mutation fuzzing of CompileModule in supervised children (rlimit, CPU sentinel) with panic/allocation/hang monitors, execution of every accepted module on both engines, validity monitor for by-construction-valid programs",
  "Section-aware mutations (LEB forms, counts/sizes, section order, opcodes, indexes, modes, limits, custom/name garbage, body sizes, local counts) of ~4 100 corpus modules and generated programs plus raw bytes, compiled under five feature sets on the interpreter and (sampled) the compiler: a panic or child death, an allocation above a calibrated A*len+B bound, or a hang proven by a differential watchdog is a violation; every accepted module is instantiated with stubbed imports and its exports called on both engines (internal errors, BUG panics, faults are violations); every generated valid program must be accepted. Held on the inputs explored only.",
  "allocation bound calibrated on unmutated accepted inputs with 4x headroom; deadline expiry and rlimit exhaustion during execution are inconclusive; 'never hangs' only as 'no explored input exceeded the budget'", "§3 C03")
CHECKS["C04"] = ("exploration", "runtime monitoring: executable link model + shared-store model checked against every observation of generated module graphs on both engines; exhaustive import-matching matrix; race detector sample",
  "The import-matching matrix over a small domain (limits, kinds, value types x mutability, function types, grown exporters, re-export chains) is enumerated exhaustively: only 'accepted although incompatible' is a violation. PRNG graphs of 2-4 modules with interleaved calls: every read on any instance (guest and host API) must equal a shared-store model; values captured at instantiation must equal the current value; failed instantiations must leave earlier instances as the spec says. Held on the pairs and graphs explored only.",
  "spec matching rule as in DESIGN Appendix B; compatible-but-rejected imports are information only", "§3 C04, App. B")
CHECKS["C05"] = ("exploration", "runtime monitoring: independent reference semantics (refsem, validated against 47k spec-test vectors) as oracle for every numeric opcode in several operand forms on both engines; exhaustive 8/16-bit lane spaces",
  "All 349 numeric opcodes (scalar, saturating truncation, v128) x operand forms (parameters, baked constants, memory operands, partial constants, result consumed by if/br_if/select) x operand sets (exhaustive for 8-bit and 16-bit lanes and 8-bit pairs, boundary cross products and PRNG for wider) on interpreter and compiler; results must lie in the set the spec allows (NaN classes exact) and trap classes must match. The run is broken if any opcode/form/engine is not exercised. Held on the operand tuples explored only.",
  "refsem is hand-written from the spec and cross-checked against the repo's spec-test vectors, math/big and Go math; amd64 with this CPU's features only", "§3 C05, App. D")
CHECKS["C06"] = ("exploration", "runtime monitoring: model-based monitor over failure-injection histories (27 trap kinds, stack overflow, 10 host-panic kinds, exits, nesting depth 1-6) with post-failure state probes, supervised children, race detector sample",
  "Histories of 5-40 operations over 1-3 templated instances reuse the same api.Function objects; a Go model predicts each result/error class (trap kind, stack overflow, panic value, ExitError+closed) and after every failing call all instances are probed (counter, memory cells incl. page end, table slots, IsClosed, host view): effects before the failure persist, nothing after; engines must agree; a child death is a violation. Held on the histories explored only.",
  "documented error surface only (errors.Is/As, 'wasm error:' class, panic value); calls into instances after exit only as documented", "§3 C06")
CHECKS["C07"] = ("exploration", "runtime monitoring: tick-counting monitor (logical steps, no clock) over an enumeration of cycle shapes x causes x moments, differential watchdog for tick-less shapes",
  "Every way to form a cycle that the design lists (loop back-edge forms, nested loops, call/call_indirect/return_call/return_call_indirect rings incl. cross-module and through host functions, start functions, host callbacks) x {cancel, deadline, close from another goroutine, inline close} x moment of the cause, both engines. The host tick function observes IsClosed(); after it is observed at most ticks-per-iteration+1 further ticks may happen; the call must return the documented ExitError and the module be closed. Tick-less variants are judged against a control that is known to stop (CPU-time based, else inconclusive). Held on the shapes enumerated only.",
  "bounded-progress restatement of 'promptly'; a watchdog firing without a finished control is inconclusive", "§3 C07")
CHECKS["C09"] = ("exploration", "runtime monitoring + sanitizers: twin/invariance oracle over close/GC histories run under GODEBUG=clobberfree=1, default GC and efence=1 (Go heap sanitizers), /proc/self/maps census, race detector sample",
  "PRNG histories over small module graphs (instantiate, call, pass funcrefs through tables/globals/table.grow, close module/compiled module/runtime/cache, drop references, forced GC with finalizer drain, churn, closes while calls are outstanding, concurrent instantiations, disk/shared caches, private memories, a tracking experimental.MemoryAllocator that records every Free) run in four children: a twin where closes are no-ops and three real runs under different heap-sanitizer modes. Observations on live instances must equal the twin's or be an ordinary closed-module error and be identical across sanitizer modes; a child death is a violation. Held on the histories explored only.",
  "reads of freed Go memory are only visible when they change behaviour under clobberfree/efence or crash", "§3 C09")
CHECKS["C13"] = ("fault_enumeration", "runtime monitoring with fault injection: crash points (SIGKILL at every hook point of fileCache.Add and after k copied bytes, -tags verif hooks), truncation sweep, version skew with a second binary flavour, concurrent writers; directory monitor + next-process oracle",
  "For ~50 modules every one of the 5 named crash points plus death after k bytes of the copy is enumerated; after each crash a directory monitor requires every file under a final key name to be byte-identical to the complete reference entry, and a fresh process using that directory must error or behave exactly like a fresh compile (leftover temp files are poisoned so reading one would kill it). Every truncation length of an entry (exhaustive for small entries), emulated and real foreign-version entries, byte determinism across processes/orders and 8 concurrent writers with a polling reader. Single-byte corruptions are information only.",
  "process death only (no power loss); largest entries are swept with strides (stated in evidence); compiler engine (the interpreter does not use the file cache)", "§3 C13")
CHECKS["C14"] = ("exploration", "runtime monitoring: reference model of memory limits checked after every step of grow/access histories (guest memory.size/grow, host Grow/Size, all 15 host accessors at every boundary, contents), guard/moving allocators, both engines",
  "976 configurations (min x max x limit x capacity-from-max x allocator x local/imported/shared) with exhaustive length-3 grow sequences plus PRNG histories; after every step the model's size/bound/contents are compared with guest memory.size, grow results, host Grow(0)/Size() (mod 2^32 as documented), marker words, zeroed new pages, every host accessor at offsets around every edge incl. 2^32, and Definition min/max; engines compared with each other. Held on the histories explored only.",
  "default-allocator histories that would really touch multi-GiB are subsampled (counted in evidence)", "§3 C14")
CHECKS["C16"] = ("exploration", "runtime monitoring: descriptor model + in-memory file-system model + fd_readdir completeness oracle checked per WASI call, host tree comparison after each history",
  "Histories of 10-60 WASI file calls on a small real directory (both engines) are compared call by call with a POSIX-style model (lowest-free descriptors, renumber moves, offsets/append/truncate/positional I/O on one content, directory changes visible) where the outcome is defined, plus probes of affected fds and a final sweep; readdir scripts over directory sizes x buffer sizes x cookie strategies must yield '.', '..' and every entry exactly once with non-fitting entries truncated, never skipped. Held on the histories explored only.",
  "outcomes the docs leave open are marked unspecified (no-crash and later-consistency only); errno sets follow wazero's documented behaviour/POSIX", "§3 C16")
CHECKS["C18"] = ("exploration", "runtime monitoring: byte-exact trace comparison of WASI-only guests across separate processes with planted host canaries (env, argv, cwd, stdin, host name via UTS namespace, start times), across engines and instances; canary/time scan of all outputs",
  "PRNG scripts over all 46 WASI functions run under an untouched NewModuleConfig in >=6 processes with different environments (one under -race), 6 instances each (both engines, later instances created after earlier ones consumed clock/random values); traces (errno, every output region, changed bytes, memory digest) must be identical; every planted canary, host name, cwd, pid and current time encodings are searched in what calls wrote; direct assertions for args/environ/preopens/stdio; a differential watchdog shows no call really sleeps. Held on the scripts explored only.",
  "time scan restricted to clock/filestat/random outputs with a stated chance-hit rule", "§3 C18")
CHECKS["C20"] = ("exploration", "runtime monitoring: online bracket automaton + shadow stack inside a recording listener factory, iterator-vs-shadow-stack check, params/results vs harness-known values and host-call log, cross-engine stream comparison",
  "Call-heavy generated programs (direct, indirect, imported host functions, re-entrant host callbacks, start functions, traps unwinding many frames, tail calls) x listener sets {all, subset} x both engines: every Before needs exactly one later After/Abort properly nested (per api.Function.Call activation), the stack iterator must list the call chain from the callee outward, top-level params/results and host-function params/results must be the actual ones, event streams must be equal across engines (non-tail-call programs) and the guest trace equal with and without listeners; two runtimes sharing a cache must each get only their own events, and one binary compiled twice through one cache with listener subsets differing in one function must produce the stream of that subset compiled alone; a hand-built cross-module scenario (2-3 wasm modules + host module, one listener object per definition, exact event model) covers delivery to the right listener. Held on the programs explored only.",
  "tail-call depth is implementation-defined: streams of programs executing tail calls are not compared across engines; iterator compared up to 48 frames", "§3 C20")
CHECKS["C01"] = ("exploration", "runtime monitoring: differential trace monitor (interpreter vs compiler) over generated programs in supervised children",
  "By-construction-valid generated programs (all enabled features, NaN-canonicalised, fuel-terminated) with PRNG call scripts are run on both engines; a monitor compares canonical traces (result bits, trap kind, host-call log, memory/global/table digests after every step) event by event; crashes and internal errors are violations, stack exhaustion is inconclusive. Held on the programs explored only.",
  "trusts the generator's NaN canonicalisation and fuel; errors shared by both engines are invisible here (C05 covers numerics); arm64 back end not executed", "§3 C01")

def main():
    props = [json.loads(l) for l in open(os.path.join(HERE, "properties.jsonl"))]
    hooks_commits = []
    try:
        out = subprocess.run(["git", "-C", "/repo", "log", "--format=%h %s"], capture_output=True, text=True).stdout
        for l in out.splitlines():
            if l.split(" ", 1)[1].startswith("verif hook"):
                hooks_commits.append(l.split()[0])
    except Exception:
        pass
    m = {
        "version": 1,
        "setup_cmd": "cd /verif && ./tools/setup.sh",
        "hooks": {
            "guard": "verif",
            "enable": "go build -tags verif (the harness module under /verif/harness replaces github.com/tetratelabs/wazero with /repo)",
            "baseline_off_cmd": "cd /repo && export GOFLAGS=-mod=mod GOPROXY=off GOSUMDB=off GOTOOLCHAIN=local && go test -vet=off -count=1 -timeout 25m ./... && cd internal/integration_test/fuzz && go test -vet=off -count=1 -timeout 25m ./...",
            "source_commits": hooks_commits,
            "add_only": True,
        },
        "engines": [{"name": "vcheck", "path": "/verif/harness", "serves_properties": sorted(CHECKS),
                     "kind_free_text": "Go harness: per-property drivers (workload generators + monitors) running real wazero in supervised child processes; race detector, checkptr, guard-page allocator, porcupine"}],
        "checks": [], "not_applicable": [],
        "notes": "All checks: ./check <id> <quick|thorough>; VERIF_SEED selects the PRNG stream; KNOWN_FINDINGS.txt lists recorded defects (never written at run time).",
    }
    for p in props:
        i = p["id"]
        if i in CHECKS:
            lvl, tech, text, note, ref = CHECKS[i]
            m["checks"].append({
                "property_id": i,
                "quick_cmd": f"./check {i} quick",
                "thorough_cmd": f"./check {i} thorough",
                "evidence_file": f"/verif/evidence/{i}.json",
                "replay_cmd_template": f"./check {i} quick --replay {{path}}",
                "engine": "vcheck",
                "level_claimed": {"category": lvl, "text": text, "design_ref": ref},
                "level_note": note,
                "technique": tech,
            })
        else:
            m["not_applicable"].append({"property_id": i, "reason": NOT_YET.get(i, "check not built yet in this round (runtime monitoring applies; see DESIGN.md)")})
    json.dump(m, open(os.path.join(HERE, "MANIFEST.json"), "w"), indent=1)
    # validate
    try:
        import jsonschema
    except ImportError:
        print("jsonschema not importable; skipped validation"); return
    jsonschema.validate(m, json.load(open("/root/.vp/MANIFEST.schema.json")))
    es = json.load(open("/root/.vp/EVIDENCE.schema.json"))
    bad = 0
    for c in m["checks"]:
        f = c["evidence_file"]
        if os.path.exists(f):
            try:
                e = json.load(open(f)); jsonschema.validate(e, es)
                assert e["level"] == c["level_claimed"]["category"], "level mismatch"
            except Exception as ex:
                bad += 1; print("EVIDENCE INVALID", f, str(ex)[:300])
        else:
            print("evidence missing:", f)
    print("MANIFEST ok:", len(m["checks"]), "checks,", len(m["not_applicable"]), "not_applicable; bad evidence:", bad)

main()
