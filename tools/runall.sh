#!/bin/bash
# Runs every registered check at the given tier (default quick) and prints id, exit code, wall seconds.
TIER=${1:-quick}
cd "$(dirname "$0")/.."
mkdir -p out/runall
for id in $(python3 -c "import json;print(' '.join(c['property_id'] for c in json.load(open('MANIFEST.json'))['checks']))"); do
  s=$(date +%s)
  ./check $id $TIER > out/runall/$id.$TIER.log 2>&1
  rc=$?
  e=$(date +%s)
  echo "$id rc=$rc wall=$((e-s))s $(grep -c '^KNOWN-FINDING' out/runall/$id.$TIER.log) known $(grep -c '^VIOLATION' out/runall/$id.$TIER.log) violations"
done
