#!/bin/bash
# tools/soak.sh <tier> <seed...> — runs every check at the given seeds with evidence/out redirected to a scratch
# directory (so /verif/evidence is not overwritten); prints one line per run. Used to look for false alarms / flakes.
TIER=$1; shift
cd "$(dirname "$0")/.."
for seed in "$@"; do
  for id in $(python3 -c "import json;print(' '.join(c['property_id'] for c in json.load(open('MANIFEST.json'))['checks']))"); do
    D=/tmp/soak-$id-$seed; rm -rf $D; mkdir -p $D; cp KNOWN_FINDINGS.txt $D/
    s=$(date +%s)
    VERIF_SEED=$seed VERIF_DIR_OVERRIDE=$D ./check $id $TIER > $D/log 2>&1; rc=$?
    e=$(date +%s)
    echo "seed=$seed $id rc=$rc wall=$((e-s))s $(grep -c '^KNOWN-FINDING' $D/log) known $(grep -c '^VIOLATION' $D/log) violations $(grep -o 'inconclusive=\[[^]]*\]' $D/log | head -1)"
    if [ $rc = 0 ]; then rm -rf $D; else mkdir -p out/soak; cp $D/log out/soak/$id-$seed.log; cp -r $D/out out/soak/$id-$seed.out 2>/dev/null; rm -rf $D; fi
  done
done
