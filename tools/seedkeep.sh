#!/bin/bash
# tools/seedkeep.sh <id> <agent worktree> [name]
# Confirms a seeded change independently (fresh worktree: patch applies, builds, demo fails with / passes without),
# stores it under /verif/seeded/<name>/ and runs the property's check against it (quick).
set -u
ID=$1; WT=$2; NAME=${3:-$ID}
export GOFLAGS=-mod=mod GOPROXY=off GOSUMDB=off GOTOOLCHAIN=local
C=/tmp/confirm-$NAME
git -C /repo worktree remove --force $C 2>/dev/null; rm -rf $C
git -C /repo worktree add --detach $C HEAD -q || exit 2
cd $C
# demo files
DEMOS=$(cd $WT && git status --short | awk '$1=="??"{print $2}' | grep -v "^SEED_" )
for f in $DEMOS; do mkdir -p $(dirname $f); cp -r $WT/$f $f; done
TESTFILE=$(cd $WT && find . -name 'zz_seed_demo*_test.go' | head -1)
if [ -n "$TESTFILE" ]; then
  PKG=$(dirname $TESTFILE)
  NAMES=$(grep -ho '^func Test[A-Za-z0-9_]*' $WT/$TESTFILE | sed 's/func //' | paste -sd'|')
  DEMOCMD="go test -count=1 -vet=off -run ^($NAMES)\$ $PKG/"
else
  DEMOCMD="go run ./zz_seed_demo/"
fi
echo "demo: $DEMOCMD"
timeout 600 $DEMOCMD > /tmp/confirm-$NAME.without.log 2>&1; RC_WITHOUT=$?
git apply $WT/SEED_patch.diff || { echo "PATCH DOES NOT APPLY"; exit 2; }
go build ./... || { echo "BUILD FAILS"; exit 2; }
timeout 600 $DEMOCMD > /tmp/confirm-$NAME.with.log 2>&1; RC_WITH=$?
echo "demo rc without=$RC_WITHOUT with=$RC_WITH"
# tests of touched packages
PKGS=$(git diff --name-only | xargs -n1 dirname | sort -u | sed 's#^#./#' | paste -sd' ')
mv $TESTFILE /tmp/confirm-$NAME.demo.go 2>/dev/null
go test -count=1 -vet=off $PKGS > /tmp/confirm-$NAME.tests.log 2>&1; RC_T=$?
echo "touched-package tests ($PKGS): rc=$RC_T"
D=/verif/seeded/$NAME; mkdir -p $D
cp $WT/SEED_patch.diff $D/patch.diff
for f in $DEMOS; do cp -r $WT/$f $D/ ; done
cd /verif
OUT=$(./tools/seedtest.sh $ID $C quick 40); echo "$OUT" | head -8
CAUGHT=$(echo "$OUT" | head -1 | grep -c "rc=1")
python3 - "$ID" "$NAME" "$WT" "$RC_WITHOUT" "$RC_WITH" "$RC_T" "$CAUGHT" "$DEMOCMD" "$PKGS" <<'PY'
import json,sys,os
id_,name,wt,rcwo,rcw,rct,caught,democmd,pkgs=sys.argv[1:]
meta={}
try: meta=json.load(open(os.path.join(wt,'SEED_meta.json')))
except Exception as e: meta={'note':'agent meta unreadable: '+str(e)}
out={'property':id_,'breaks':meta.get('summary'),'needs':meta.get('needs'),'files_changed':meta.get('files_changed'),
 'agent_meta':meta,
 'confirmed_by_me':{'demo_cmd':democmd,'demo_exit_without_change':int(rcwo),'demo_exit_with_change':int(rcw),
   'touched_package_tests':pkgs,'touched_package_tests_exit':int(rct),
   'confirmed': int(rcwo)==0 and int(rcw)!=0 and int(rct)==0},
 'check_result':{'cmd':f'tools/seedtest.sh {id_} <worktree with patch> quick','caught_by_quick':caught=='1'}}
sigs=[]
try:
    for l in open(f'/tmp/seedrun-{id_}/log'):
        if l.strip().startswith('sig='): sigs.append(l.strip()[:200])
except Exception: pass
out['check_result']['signatures']=sigs[:8]
json.dump(out,open(f'/verif/seeded/{name}/meta.json','w'),indent=1)
print('confirmed:',out['confirmed_by_me']['confirmed'],'caught:',out['check_result']['caught_by_quick'])
PY
git -C /repo worktree remove --force $C
