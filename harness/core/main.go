package core

import (
	"encoding/json"
	"fmt"
	"os"
)

// Prop is one property driver: Run is the parent side (generates the
// workload, supervises children, decides, writes evidence through Ctx.Finish);
// Child handles one case inside a supervised child process.
type Prop struct {
	ID    string
	Run   func(c *Ctx) int
	Child func(mode string, in json.RawMessage) any
	// Replay re-runs one witness file (optional).
	Replay func(c *Ctx, path string) int
}

// Main is the entry point of every per-property binary:
//
//	<bin> run <quick|thorough>
//	<bin> replay <file>
//	<bin> child <prop> <mode> <in> <out> <journal>   (supervised child side)
func Main(p *Prop) {
	if len(os.Args) < 2 {
		fmt.Fprintln(os.Stderr, "usage: run <quick|thorough> | replay <file> | child ...")
		os.Exit(2)
	}
	switch os.Args[1] {
	case "run":
		tier := "quick"
		if len(os.Args) > 2 {
			tier = os.Args[2]
		}
		os.Exit(p.Run(NewCtx(p.ID, tier)))
	case "replay":
		if p.Replay == nil || len(os.Args) < 3 {
			fmt.Fprintln(os.Stderr, "no replay for", p.ID)
			os.Exit(2)
		}
		os.Exit(p.Replay(NewCtx(p.ID, "quick"), os.Args[2]))
	case "child":
		if p.Child == nil {
			os.Exit(3)
		}
		ChildMain(os.Args[2:], p.Child)
	}
	os.Exit(2)
}
