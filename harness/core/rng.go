package core

import "math"

// Rng is a small splittable PRNG (splitmix64). Workloads are fixed-size case
// lists derived from VERIF_SEED through it; no clock enters any choice.
type Rng struct{ s uint64 }

func NewRng(seed int64, stream uint64) *Rng {
	r := &Rng{s: uint64(seed)*0x9E3779B97F4A7C15 ^ (stream+1)*0xD1B54A32D192ED03}
	r.U64()
	return r
}

func (r *Rng) U64() uint64 {
	r.s += 0x9E3779B97F4A7C15
	z := r.s
	z = (z ^ (z >> 30)) * 0xBF58476D1CE4E5B9
	z = (z ^ (z >> 27)) * 0x94D049BB133111EB
	return z ^ (z >> 31)
}

func (r *Rng) Split() *Rng { return &Rng{s: r.U64() ^ 0xA5A5A5A55A5A5A5A} }

func (r *Rng) U32() uint32 { return uint32(r.U64() >> 32) }

// Intn returns a value in [0,n).
func (r *Rng) Intn(n int) int {
	if n <= 1 {
		return 0
	}
	return int(r.U64() % uint64(n))
}

func (r *Rng) Bool() bool { return r.U64()&1 == 1 }

// Chance returns true with probability num/den.
func (r *Rng) Chance(num, den int) bool { return r.Intn(den) < num }

func (r *Rng) Bytes(n int) []byte {
	b := make([]byte, n)
	for i := range b {
		b[i] = byte(r.U64())
	}
	return b
}

// Interesting 32-bit values.
var I32Edge = []uint32{0, 1, 2, 3, 7, 8, 15, 16, 31, 32, 33, 63, 64, 65, 127, 128, 255, 256, 0x7fff, 0x8000, 0xffff, 0x10000,
	0x7ffffffe, 0x7fffffff, 0x80000000, 0x80000001, 0xfffffffe, 0xffffffff, 0xffff0000, 0x55555555, 0xaaaaaaaa, 0x00ff00ff, 0x12345678}

var I64Edge = []uint64{0, 1, 2, 31, 32, 63, 64, 65, 0x7fffffff, 0x80000000, 0xffffffff, 0x100000000, 0x1ffffffff,
	0x7ffffffffffffffe, 0x7fffffffffffffff, 0x8000000000000000, 0x8000000000000001, 0xfffffffffffffffe, 0xffffffffffffffff,
	0xffffffff00000000, 0x5555555555555555, 0xaaaaaaaaaaaaaaaa, 0x0123456789abcdef, 0xffffffff80000000, 0xffffffff7fffffff}

var F32Edge = []uint32{0, 0x80000000, 0x3f800000, 0xbf800000, 0x7f800000, 0xff800000, 0x7fc00000, 0xffc00000, 0x7fa00000, 0x7f800001,
	0xffa00001, 0x7fffffff, 0x00000001, 0x80000001, 0x007fffff, 0x00800000, 0x7f7fffff, 0xff7fffff, 0x3f000000, 0xbf000000, 0x3fc00000,
	0x40200000, 0x4b000000, 0x4b000001, 0x4affffff, 0x4f000000, 0xcf000000, 0x4f800000, 0x5f000000, 0xdf000000, 0x5f800000, 0x4effffff,
	0xcf000001, 0x3effffff, 0x3f000001, 0xbf7fffff, 0x40490fdb}

var F64Edge = []uint64{0, 0x8000000000000000, 0x3ff0000000000000, 0xbff0000000000000, 0x7ff0000000000000, 0xfff0000000000000,
	0x7ff8000000000000, 0xfff8000000000000, 0x7ff4000000000000, 0x7ff0000000000001, 0xfff4000000000001, 0x7fffffffffffffff,
	1, 0x8000000000000001, 0x000fffffffffffff, 0x0010000000000000, 0x7fefffffffffffff, 0xffefffffffffffff, 0x3fe0000000000000,
	0xbfe0000000000000, 0x3ff8000000000000, 0x4004000000000000, 0x4330000000000000, 0x4330000000000001, 0x432fffffffffffff,
	0x41e0000000000000, 0xc1e0000000000000, 0x41dfffffffc00000, 0xc1e0000000200000, 0x41f0000000000000, 0x41efffffffe00000,
	0x43e0000000000000, 0xc3e0000000000000, 0x43f0000000000000, 0x43dfffffffffffff, 0xc3e0000000000001, 0x3fdfffffffffffff,
	0x3fe0000000000001, 0xbfefffffffffffff, 0x400921fb54442d18, 0x47efffffe0000000, 0x47effffff0000000, 0x36a0000000000000}

func (r *Rng) I32() uint32 {
	switch r.Intn(4) {
	case 0:
		return I32Edge[r.Intn(len(I32Edge))]
	case 1:
		return uint32(r.Intn(64))
	default:
		return r.U32()
	}
}

func (r *Rng) I64() uint64 {
	switch r.Intn(4) {
	case 0:
		return I64Edge[r.Intn(len(I64Edge))]
	case 1:
		return uint64(r.I32())
	default:
		return r.U64()
	}
}

func (r *Rng) F32() uint32 {
	switch r.Intn(4) {
	case 0, 1:
		return F32Edge[r.Intn(len(F32Edge))]
	case 2:
		return math.Float32bits(float32(int32(r.I32())) / float32(1+r.Intn(8)))
	default:
		return r.U32()
	}
}

func (r *Rng) F64() uint64 {
	switch r.Intn(4) {
	case 0, 1:
		return F64Edge[r.Intn(len(F64Edge))]
	case 2:
		return math.Float64bits(float64(int64(r.I64())) / float64(1+r.Intn(8)))
	default:
		return r.U64()
	}
}
