// Package core holds what every property driver shares: the run context
// (tier, seed, output dirs), the three-valued verdict bookkeeping, the
// KNOWN_FINDINGS matcher and the evidence writer.
package core

import (
	"bufio"
	"encoding/json"
	"fmt"
	"os"
	"path/filepath"
	"sort"
	"strconv"
	"strings"
	"sync"
	"time"
)

// VerifDir is where MANIFEST.json, evidence/ and KNOWN_FINDINGS.txt live.
func VerifDir() string {
	if d := os.Getenv("VERIF_DIR"); d != "" {
		return d
	}
	return "/verif"
}

// Ctx is one run of one property check.
type Ctx struct {
	Prop  string
	Tier  string // quick | thorough
	Seed  int64
	Level string // exploration | fault_enumeration | ...
	Start time.Time
	Out   string // /verif/out/<id>

	mu          sync.Mutex
	violations  []Violation
	knownHit    map[string]int
	known       []KnownFinding
	inconcl     map[string]int
	counters    map[string]int64
	distinct    map[string]map[string]struct{}
	samples     []any
	maxSamples  int
	assumptions []string
	extra       map[string]any
}

type Violation struct {
	Sig     string `json:"sig"`
	Detail  string `json:"detail"`
	Replay  string `json:"replay"`
	Witness any    `json:"witness,omitempty"`
}

type KnownFinding struct {
	Prop string
	Sig  string // exact signature or prefix ending with '*'
	Desc string
}

func NewCtx(prop, tier string) *Ctx {
	seed := int64(1)
	if s := os.Getenv("VERIF_SEED"); s != "" {
		if v, err := strconv.ParseInt(s, 10, 64); err == nil {
			seed = v
		}
	}
	c := &Ctx{Prop: prop, Tier: tier, Seed: seed, Level: "exploration", Start: time.Now(),
		Out:      filepath.Join(VerifDir(), "out", prop),
		knownHit: map[string]int{}, inconcl: map[string]int{}, counters: map[string]int64{},
		distinct: map[string]map[string]struct{}{}, maxSamples: 6, extra: map[string]any{}}
	os.MkdirAll(c.Out, 0o755)
	c.known = LoadKnown(filepath.Join(VerifDir(), "KNOWN_FINDINGS.txt"), prop)
	return c
}

func (c *Ctx) Quick() bool { return c.Tier != "thorough" }

// N picks the workload size by tier.
func (c *Ctx) N(quick, thorough int) int {
	if c.Quick() {
		return quick
	}
	return thorough
}

// LoadKnown parses KNOWN_FINDINGS.txt. Lines:
//
//	known: property=C09 sig=<signature> :: description
//	fixed: property=C08 <commit> <what failed>      (suppresses nothing)
func LoadKnown(path, prop string) []KnownFinding {
	f, err := os.Open(path)
	if err != nil {
		return nil
	}
	defer f.Close()
	var out []KnownFinding
	sc := bufio.NewScanner(f)
	for sc.Scan() {
		line := strings.TrimSpace(sc.Text())
		if !strings.HasPrefix(line, "known:") {
			continue
		}
		rest := strings.TrimSpace(strings.TrimPrefix(line, "known:"))
		desc := ""
		if i := strings.Index(rest, " :: "); i >= 0 {
			desc = rest[i+4:]
			rest = rest[:i]
		}
		var p, sig string
		for _, f := range strings.Fields(rest) {
			if strings.HasPrefix(f, "property=") {
				p = strings.TrimPrefix(f, "property=")
			} else if strings.HasPrefix(f, "sig=") {
				sig = strings.TrimPrefix(f, "sig=")
			}
		}
		if p == prop && sig != "" {
			out = append(out, KnownFinding{Prop: p, Sig: sig, Desc: desc})
		}
	}
	return out
}

func (c *Ctx) matchKnown(sig string) *KnownFinding {
	for i := range c.known {
		k := &c.known[i]
		if k.Sig == sig {
			return k
		}
		if strings.HasSuffix(k.Sig, "*") && strings.HasPrefix(sig, strings.TrimSuffix(k.Sig, "*")) {
			return k
		}
	}
	return nil
}

// Violate records a violation with a narrow signature. If the signature is a
// listed known finding it is only counted; otherwise a witness file is written
// and the run will exit 1.
func (c *Ctx) Violate(sig, detail string, witness any) {
	sig = strings.ReplaceAll(sig, " ", "_")
	c.mu.Lock()
	defer c.mu.Unlock()
	if k := c.matchKnown(sig); k != nil {
		c.knownHit[k.Sig]++
		return
	}
	// keep at most 20 distinct witnesses per run, dedupe by signature
	for _, v := range c.violations {
		if v.Sig == sig {
			return
		}
	}
	if len(c.violations) >= 20 {
		return
	}
	name := fmt.Sprintf("violation-%s-%d-%02d.json", c.Tier, c.Seed, len(c.violations))
	path := filepath.Join(c.Out, name)
	v := Violation{Sig: sig, Detail: detail, Replay: path, Witness: witness}
	b, _ := json.MarshalIndent(map[string]any{"property": c.Prop, "seed": c.Seed, "tier": c.Tier, "sig": sig, "detail": detail, "witness": witness}, "", " ")
	os.WriteFile(path, b, 0o644)
	c.violations = append(c.violations, v)
}

// Inconclusive counts a case that could not be decided (never folded into
// held or violated).
func (c *Ctx) Inconclusive(kind string) {
	c.mu.Lock()
	c.inconcl[kind]++
	c.mu.Unlock()
}

func (c *Ctx) Count(key string, n int64) {
	c.mu.Lock()
	c.counters[key] += n
	c.mu.Unlock()
}

func (c *Ctx) Counter(key string) int64 {
	c.mu.Lock()
	defer c.mu.Unlock()
	return c.counters[key]
}

// Distinct records a member of a named set whose cardinality is reported.
func (c *Ctx) Distinct(set, member string) {
	c.mu.Lock()
	m := c.distinct[set]
	if m == nil {
		m = map[string]struct{}{}
		c.distinct[set] = m
	}
	m[member] = struct{}{}
	c.mu.Unlock()
}

func (c *Ctx) DistinctN(set string) int {
	c.mu.Lock()
	defer c.mu.Unlock()
	return len(c.distinct[set])
}

func (c *Ctx) Sample(s any) {
	c.mu.Lock()
	if len(c.samples) < c.maxSamples {
		c.samples = append(c.samples, s)
	}
	c.mu.Unlock()
}

func (c *Ctx) Assume(s string) { c.assumptions = append(c.assumptions, s) }
func (c *Ctx) Extra(k string, v any) {
	c.mu.Lock()
	c.extra[k] = v
	c.mu.Unlock()
}

// Finish writes the evidence file, prints KNOWN-FINDING / VIOLATION lines and
// returns the process exit code. evaluations / distinctNontrivial are measured
// by the driver; rule says how.
func (c *Ctx) Finish(evaluations, distinctNontrivial int64, rule string) int {
	c.mu.Lock()
	defer c.mu.Unlock()
	cov := map[string]any{
		"evaluations":         evaluations,
		"distinct_nontrivial": distinctNontrivial,
		"rule":                rule,
		"samples":             c.samples,
		"counters":            c.counters,
		"inconclusive":        c.inconcl,
	}
	dn := map[string]int{}
	for k, m := range c.distinct {
		dn[k] = len(m)
		if len(m) <= 64 {
			var l []string
			for s := range m {
				l = append(l, s)
			}
			sort.Strings(l)
			cov["set_"+k] = l
		}
	}
	cov["distinct_sets"] = dn
	for k, v := range c.extra {
		cov[k] = v
	}
	kf := map[string]int{}
	for k, n := range c.knownHit {
		kf[k] = n
	}
	cov["known_findings_hit"] = kf
	if len(c.samples) == 0 {
		cov["samples"] = []any{"(none)"}
	}
	ev := map[string]any{
		"property_id": c.Prop, "tier": c.Tier, "seed": c.Seed, "level": c.Level,
		"coverage": cov, "assumptions": c.assumptions,
		"wall_s":     time.Since(c.Start).Seconds(),
		"violations": len(c.violations),
	}
	if c.assumptions == nil {
		ev["assumptions"] = []string{}
	}
	b, _ := json.MarshalIndent(ev, "", " ")
	os.MkdirAll(filepath.Join(VerifDir(), "evidence"), 0o755)
	evp := filepath.Join(VerifDir(), "evidence", c.Prop+".json")
	if err := os.WriteFile(evp, append(b, '\n'), 0o644); err != nil {
		fmt.Println("cannot write evidence:", err)
		return 2
	}
	for _, k := range c.known {
		if n := c.knownHit[k.Sig]; n > 0 {
			fmt.Printf("KNOWN-FINDING: property=%s %s (%d occurrences this run) %s\n", c.Prop, k.Sig, n, k.Desc)
		} else {
			// listed in KNOWN_FINDINGS.txt but this tier/seed did not drive an input that shows it
			fmt.Printf("KNOWN-FINDING: property=%s %s (listed; not re-observed in this run) %s\n", c.Prop, k.Sig, k.Desc)
		}
	}
	var ik []string
	for k, n := range c.inconcl {
		ik = append(ik, fmt.Sprintf("%s=%d", k, n))
	}
	sort.Strings(ik)
	fmt.Printf("%s %s seed=%d: evaluations=%d distinct_nontrivial=%d violations=%d inconclusive=[%s] wall=%.1fs\n",
		c.Prop, c.Tier, c.Seed, evaluations, distinctNontrivial, len(c.violations), strings.Join(ik, " "), time.Since(c.Start).Seconds())
	if len(c.violations) > 0 {
		for _, v := range c.violations {
			fmt.Printf("VIOLATION property=%s replay=%s\n", c.Prop, v.Replay)
			fmt.Printf("  sig=%s %s\n", v.Sig, trunc(v.Detail, 400))
		}
		return 1
	}
	if evaluations == 0 || distinctNontrivial < 2 {
		fmt.Printf("BROKEN: %s observed nothing (evaluations=%d distinct=%d)\n", c.Prop, evaluations, distinctNontrivial)
		return 2
	}
	return 0
}

func trunc(s string, n int) string {
	if len(s) > n {
		return s[:n] + "…"
	}
	return s
}

// Trunc is exported for drivers.
func Trunc(s string, n int) string { return trunc(s, n) }
