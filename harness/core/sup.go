package core

import (
	"bufio"
	"bytes"
	"encoding/json"
	"fmt"
	"os"
	"os/exec"
	"path/filepath"
	"regexp"
	"runtime"
	"strconv"
	"strings"
	"sync"
	"sync/atomic"
	"syscall"
	"time"
)

// ChildOpts configures supervised child processes.
type ChildOpts struct {
	Bin      string   // default: this executable
	Env      []string // extra environment (KEY=VAL)
	TimeoutS int      // wall-clock watchdog per batch (generous; firing = inconclusive unless driver decides otherwise)
	RlimitAS uint64   // RLIMIT_AS in bytes for the child, 0 = none
	Par      int      // parallel children (default NumCPU)
	Batch    int      // cases per child (default 64)
	Procs    int      // GOMAXPROCS of each child (default 2: 16 children x 16 Ps only burns sys time)
}

type Crash struct {
	Kind   string `json:"kind"` // panic | fatal | signal | timeout | race | exit | nooutput
	Detail string `json:"detail"`
	Log    string `json:"log"`
}

type CaseResult struct {
	Index int
	Out   json.RawMessage
	Crash *Crash
}

var childSeq int64

// RunCases runs cases in supervised children of this binary (mode is handed to
// the child handler). A crash is attributed to the journaled case; the rest of
// the batch continues in a fresh child.
func RunCases(c *Ctx, mode string, cases []json.RawMessage, o ChildOpts) []CaseResult {
	if o.Par <= 0 {
		o.Par = runtime.NumCPU()
	}
	if o.Batch <= 0 {
		o.Batch = 64
	}
	if o.TimeoutS <= 0 {
		o.TimeoutS = 300
	}
	res := make([]CaseResult, len(cases))
	for i := range res {
		res[i].Index = i
	}
	type job struct{ lo, hi int }
	jobs := make(chan job, len(cases)/o.Batch+2)
	for lo := 0; lo < len(cases); lo += o.Batch {
		hi := lo + o.Batch
		if hi > len(cases) {
			hi = len(cases)
		}
		jobs <- job{lo, hi}
	}
	close(jobs)
	var wg sync.WaitGroup
	for w := 0; w < o.Par; w++ {
		wg.Add(1)
		go func() {
			defer wg.Done()
			for j := range jobs {
				lo := j.lo
				for lo < j.hi {
					done, crash := runChild(c, mode, cases, lo, j.hi, o, res)
					if crash == nil {
						break
					}
					// attribute to the journaled case
					if done < lo {
						done = lo
					}
					if done >= j.hi {
						done = j.hi - 1
					}
					res[done].Crash = crash
					if crash.Kind != "race" {
						res[done].Out = nil
					}
					lo = done + 1
				}
			}
		}()
	}
	wg.Wait()
	return res
}

func runChild(c *Ctx, mode string, cases []json.RawMessage, lo, hi int, o ChildOpts, res []CaseResult) (journaled int, crash *Crash) {
	id := atomic.AddInt64(&childSeq, 1)
	dir := filepath.Join(c.Out, "children")
	os.MkdirAll(dir, 0o755)
	base := filepath.Join(dir, fmt.Sprintf("%s-%d-%d", mode, os.Getpid(), id))
	in, out, jr, lg := base+".in", base+".out", base+".journal", base+".log"
	var buf bytes.Buffer
	for i := lo; i < hi; i++ {
		fmt.Fprintf(&buf, "%d\t%s\n", i, cases[i])
	}
	os.WriteFile(in, buf.Bytes(), 0o644)
	os.WriteFile(jr, []byte("-1"), 0o644)
	os.Remove(out)
	bin := o.Bin
	if bin == "" {
		bin, _ = os.Executable()
	}
	cmd := exec.Command(bin, "child", c.Prop, mode, in, out, jr)
	cmd.Env = append(os.Environ(), o.Env...)
	procs := o.Procs
	if procs <= 0 {
		procs = 2
	}
	cmd.Env = append(cmd.Env, fmt.Sprintf("GOMAXPROCS=%d", procs), fmt.Sprintf("VCHECK_RLIMIT_AS=%d", o.RlimitAS), "VERIF_SEED="+strconv.FormatInt(c.Seed, 10), "VERIF_TIER="+c.Tier)
	// own temp directory per child, removed when the child is gone (also after a crash or a kill)
	tmp := base + ".tmp"
	if os.MkdirAll(tmp, 0o755) == nil {
		cmd.Env = append(cmd.Env, "TMPDIR="+tmp)
		defer os.RemoveAll(tmp)
	}
	lf, _ := os.Create(lg)
	cmd.Stdout = lf
	cmd.Stderr = lf
	cmd.SysProcAttr = &syscall.SysProcAttr{Setpgid: true}
	if err := cmd.Start(); err != nil {
		lf.Close()
		return lo, &Crash{Kind: "exit", Detail: "cannot start child: " + err.Error()}
	}
	doneCh := make(chan error, 1)
	go func() { doneCh <- cmd.Wait() }()
	var err error
	timedOut := false
	select {
	case err = <-doneCh:
	case <-time.After(time.Duration(o.TimeoutS) * time.Second):
		timedOut = true
		cmd.Process.Signal(syscall.SIGQUIT)
		select {
		case err = <-doneCh:
		case <-time.After(10 * time.Second):
			syscall.Kill(-cmd.Process.Pid, syscall.SIGKILL)
			err = <-doneCh
		}
	}
	lf.Close()
	// collect results
	if f, e := os.Open(out); e == nil {
		sc := bufio.NewScanner(f)
		sc.Buffer(make([]byte, 1<<20), 1<<28)
		for sc.Scan() {
			line := sc.Bytes()
			t := bytes.IndexByte(line, '\t')
			if t < 0 {
				continue
			}
			i, e2 := strconv.Atoi(string(line[:t]))
			if e2 != nil || i < lo || i >= hi {
				continue
			}
			res[i].Out = append(json.RawMessage(nil), line[t+1:]...)
		}
		f.Close()
	}
	jb, _ := os.ReadFile(jr)
	journaled, _ = strconv.Atoi(strings.TrimSpace(string(jb)))
	logb, _ := os.ReadFile(lg)
	races := bytes.Count(logb, []byte("WARNING: DATA RACE"))
	if races > 0 && !timedOut {
		// race reports do not end the child (GORACE=halt_on_error=0); results of
		// all cases are kept, the report is attributed to the batch as a whole.
		allOut := true
		for i := lo; i < hi; i++ {
			if res[i].Out == nil {
				allOut = false
			}
		}
		if allOut {
			return hi - 1, &Crash{Kind: "race", Detail: firstRace(logb), Log: lg}
		}
		return journaled, &Crash{Kind: "race", Detail: firstRace(logb), Log: lg}
	}
	if err == nil && !timedOut {
		// clean: all cases must have output
		for i := lo; i < hi; i++ {
			if res[i].Out == nil {
				return i, &Crash{Kind: "nooutput", Detail: "child exited 0 without a result for this case", Log: lg}
			}
		}
		os.Remove(in)
		os.Remove(out)
		os.Remove(jr)
		os.Remove(lg)
		return journaled, nil
	}
	cr := &Crash{Log: lg}
	switch {
	case timedOut:
		cr.Kind = "timeout"
		cr.Detail = fmt.Sprintf("watchdog %ds fired", o.TimeoutS)
	default:
		cr.Kind, cr.Detail = classifyCrash(logb, err)
	}
	return journaled, cr
}

var (
	reFault = regexp.MustCompile(`(?m)^unexpected fault address (0x[0-9a-f]+)`)
	reFatal = regexp.MustCompile(`(?m)^fatal error: (.*)$`)
	rePanic = regexp.MustCompile(`(?m)^panic: (.*)$`)
	reSig   = regexp.MustCompile(`(?m)^\[signal (\S+)`)
)

func classifyCrash(log []byte, err error) (kind, detail string) {
	if m := reFatal.FindSubmatch(log); m != nil {
		d := string(m[1])
		if f := reFault.FindSubmatch(log); f != nil {
			d += " addr=" + string(f[1])
		}
		if s := reSig.FindSubmatch(log); s != nil {
			d += " " + string(s[1])
		}
		return "fatal", d
	}
	if f := reFault.FindSubmatch(log); f != nil {
		return "fatal", "unexpected fault address " + string(f[1])
	}
	if m := rePanic.FindSubmatch(log); m != nil {
		return "panic", trunc(string(m[1]), 300)
	}
	if bytes.Contains(log, []byte("SIGSEGV")) {
		return "signal", "SIGSEGV"
	}
	return "exit", fmt.Sprintf("%v", err)
}

func firstRace(log []byte) string {
	i := bytes.Index(log, []byte("WARNING: DATA RACE"))
	if i < 0 {
		return ""
	}
	end := i + 1500
	if end > len(log) {
		end = len(log)
	}
	return string(log[i:end])
}

// RaceReports extracts deduplicated race reports from a log: key = the pair of
// top user frames' function names (line numbers stripped).
func RaceReports(log []byte) map[string]string {
	out := map[string]string{}
	parts := bytes.Split(log, []byte("WARNING: DATA RACE"))
	reFn := regexp.MustCompile(`(?m)^  ([A-Za-z0-9_./*()\[\]-]+)\(`)
	for _, p := range parts[1:] {
		end := bytes.Index(p, []byte("=================="))
		if end > 0 {
			p = p[:end]
		}
		// first function after each of the two access headers
		secs := regexp.MustCompile(`(?m)^(Read|Write|Previous read|Previous write|Previous atomic \w+|Atomic \w+) at .*$`).FindAllIndex(p, -1)
		var fns []string
		for _, s := range secs {
			m := reFn.FindSubmatch(p[s[1]:])
			if m != nil {
				fns = append(fns, string(m[1]))
			}
		}
		key := strings.Join(fns, " <-> ")
		if _, ok := out[key]; !ok {
			out[key] = trunc(string(p), 2500)
		}
	}
	return out
}

// ChildHandler handles one case in a child process.
type ChildHandler func(mode string, in json.RawMessage) any

// ChildMain is the child side of RunCases: args = prop mode in out journal.
func ChildMain(args []string, h ChildHandler) {
	if len(args) < 5 {
		fmt.Fprintln(os.Stderr, "child: bad args")
		os.Exit(3)
	}
	mode, in, out, jr := args[1], args[2], args[3], args[4]
	if s := os.Getenv("VCHECK_RLIMIT_AS"); s != "" && s != "0" {
		if v, err := strconv.ParseUint(s, 10, 64); err == nil {
			syscall.Setrlimit(syscall.RLIMIT_AS, &syscall.Rlimit{Cur: v, Max: v})
		}
	}
	data, err := os.ReadFile(in)
	if err != nil {
		fmt.Fprintln(os.Stderr, "child:", err)
		os.Exit(3)
	}
	of, err := os.OpenFile(out, os.O_CREATE|os.O_WRONLY|os.O_APPEND, 0o644)
	if err != nil {
		os.Exit(3)
	}
	jf, err := os.OpenFile(jr, os.O_CREATE|os.O_WRONLY, 0o644)
	if err != nil {
		os.Exit(3)
	}
	for _, line := range bytes.Split(data, []byte("\n")) {
		if len(line) == 0 {
			continue
		}
		t := bytes.IndexByte(line, '\t')
		idx := string(line[:t])
		// journal the case about to run (fixed width so a torn write cannot mislead)
		jf.WriteAt([]byte(fmt.Sprintf("%-12s", idx)), 0)
		r := h(mode, json.RawMessage(line[t+1:]))
		b, err := json.Marshal(r)
		if err != nil {
			b, _ = json.Marshal(map[string]string{"marshal_error": err.Error()})
		}
		of.Write(append(append([]byte(idx+"\t"), b...), '\n'))
	}
	of.Close()
	jf.Close()
	os.Exit(0)
}

// J marshals v (helper for building case lists).
func J(v any) json.RawMessage {
	b, err := json.Marshal(v)
	if err != nil {
		panic(err)
	}
	return b
}
