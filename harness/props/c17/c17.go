// Package c17 decides C17 (read-only mounts cannot be modified by the guest).
//
// Every WASI call is issued as a guest (wasiproxy) against one of three mounts
// of a small host tree: WithReadOnlyDirMount(dir,"/"), WithFSMount(os.DirFS(dir))
// and WithFSMount(fstest.MapFS). The oracle is applied after EVERY call: the
// recursive snapshot of the host tree (names, types, sizes, SHA-256, mtime,
// ctime, mode, owner, inode, nlink, symlink targets; atime excluded) — for the
// MapFS the map itself (keys, entry pointers, Data, Mode, ModTime, Sys) — must
// equal the snapshot taken before the call. At the end of each history a known
// file must still be readable with its content through the same mount.
package c17

import (
	"encoding/json"
	"fmt"
	"os"
	"sort"
	"strings"
	"time"

	"github.com/tetratelabs/wazero/verifharness/core"
)

var Prop = &core.Prop{ID: "C17", Run: run, Child: child, Replay: replay}

func run(c *core.Ctx) int {
	// The trees are tiny and rebuilt thousands of times: prefer a tmpfs so that
	// the check neither waits for nor loads the disk's journal.
	parent := os.Getenv("VERIF_C17_TMP")
	if parent == "" {
		if fi, e := os.Stat("/dev/shm"); e == nil && fi.IsDir() {
			parent = "/dev/shm"
		}
	}
	base, err := os.MkdirTemp(parent, "c17-")
	if err != nil && parent != "" {
		base, err = os.MkdirTemp("", "c17-")
	}
	if err != nil {
		fmt.Println("cannot create temp dir:", err)
		return 2
	}
	code := run1(c, base)
	os.RemoveAll(base)
	return code
}

func run1(c *core.Ctx, base string) int {
	rng := core.NewRng(c.Seed, 17)
	quick := c.Quick()

	// ---- case lists -------------------------------------------------------
	var prod []kase
	addProd := func(mount, engine string, paths []string, rights []uint64, lookups []uint32) {
		for _, p := range paths {
			for _, r := range rights {
				for _, l := range lookups {
					prod = append(prod, kase{Kind: "product", Mount: mount, Engine: engine, Base: base, Path: p, Rights: r, Lookup: l})
				}
			}
		}
	}
	both := []uint32{0, 1}
	for _, m := range allMounts {
		// the full product on the interpreter for every mount kind
		addProd(m, "interpreter", prodPaths, prodRights, both)
	}
	if quick {
		// compiler on a sample (the code under test is Go)
		addProd(mountRO, "compiler", prodPaths, prodRights, both)
		addProd(mountDirFS, "compiler", prodPaths, []uint64{rightFdRead, ^uint64(0)}, []uint32{1})
		addProd(mountMapFS, "compiler", prodPaths, []uint64{rightFdRead, ^uint64(0)}, []uint32{1})
	} else {
		// thorough: the product on the compiler too, and the product over 27 more
		// paths (trailing slashes, "..", symlinked directories, escapes, "")
		for _, m := range allMounts {
			addProd(m, "compiler", prodPaths, prodRights, both)
			addProd(m, "interpreter", extPaths(), prodRights, both)
		}
	}
	var muts []kase
	for _, m := range allMounts {
		for _, e := range []string{"interpreter", "compiler"} {
			for _, g := range []string{"dirops", "rename", "link", "fdops"} {
				muts = append(muts, kase{Kind: "mutators", Mount: m, Engine: e, Base: base, Group: g})
			}
		}
	}
	for _, e := range []string{"interpreter", "compiler"} {
		for _, g := range []string{"dirops", "rename", "link"} {
			muts = append(muts, kase{Kind: "mutators", Mount: mountRORW, Engine: e, Base: base, Group: g})
		}
	}
	var seqs []kase
	nSeq := c.N(5000, 60000)
	for _, m := range append(append([]string(nil), allMounts...), mountRORW) {
		n := nSeq
		if m == mountRORW {
			n = nSeq / 2
		}
		for i := 0; i < n+n/8; i++ {
			e := "interpreter"
			if i >= n {
				e = "compiler"
			}
			seqs = append(seqs, kase{Kind: "seq", Mount: m, Engine: e, Base: base, Seed: rng.U64(), Len: 20 + rng.Intn(61)})
		}
	}

	toRaw := func(ks []kase) []json.RawMessage {
		out := make([]json.RawMessage, len(ks))
		for i := range ks {
			ks[i].Setup = rng.U64()
		}
		for i, k := range ks {
			out[i] = core.J(k)
		}
		return out
	}
	agg := newAgg(c)
	t0 := time.Now()
	agg.handle(prod, core.RunCases(c, "product", toRaw(prod), core.ChildOpts{Batch: 2, TimeoutS: 900}))
	c.Extra("phase_product_s", time.Since(t0).Seconds())
	t0 = time.Now()
	agg.handle(muts, core.RunCases(c, "mutators", toRaw(muts), core.ChildOpts{Batch: 1, TimeoutS: 900}))
	c.Extra("phase_mutators_s", time.Since(t0).Seconds())
	t0 = time.Now()
	agg.handle(seqs, core.RunCases(c, "seq", toRaw(seqs), core.ChildOpts{Batch: c.N(50, 250), TimeoutS: 900}))
	c.Extra("phase_seq_s", time.Since(t0).Seconds())

	// ---- evidence and self-checks -------------------------------------------
	broken := agg.finish(quick)
	c.Assume("the config under test is built in PRNG-chosen ways (guest path / or /data; derived from a writable config; two read-only guest paths) and, before instantiation, sibling configs overriding the same guest path (several spellings) are derived from it, from its ancestor and from the ModuleConfig carrying it, and discarded; a start-of-session probe tags everything found in a session whose mount is no longer what was configured with after-sibling-override")
	c.Assume("atime is not compared (reads legitimately change it); directory st_size and st_nlink are not compared (names are)")
	c.Assume("every file and directory of the tree has its mtime set to 2020-01-02 before the baseline snapshot, so any kernel-side write shows as an mtime/ctime change even if size and content end up equal")
	c.Assume("the snapshot root also covers a sibling directory outside the mount that is reachable only through a symlink inside it")
	c.Assume("the checker runs as the user of ./check (root here): host file modes do not stop a write that wazero lets through")
	evals := c.Counter("snapshots_compared") + c.Counter("read_checks")
	distinct := int64(0)
	for _, k := range agg.distinctSets() {
		distinct += int64(c.DistinctN(k))
	}
	code := c.Finish(evals, distinct,
		"evaluation = one WASI call decided by comparing the host snapshot before/after it (+ one per read-back check); distinct = distinct executed path_open combinations (mount,engine,path,rights,lookupflags,oflags,fdflags) + distinct other-mutator calls (mount,engine,function,arguments) + distinct PRNG histories (digest of calls and results)")
	if code == 0 && len(broken) > 0 {
		fmt.Printf("BROKEN: C17 workload incomplete: %s\n", strings.Join(broken, "; "))
		return 2
	}
	return code
}

// ---------------------------------------------------------------------------

type agg struct {
	c          *core.Ctx
	perMountFn map[string]int64 // mount|fn -> calls
	perMount   map[string]map[string]int64
	sets       map[string]struct{}
	engSteps   map[string]int64
	fatal      int
}

func newAgg(c *core.Ctx) *agg {
	return &agg{c: c, perMountFn: map[string]int64{}, perMount: map[string]map[string]int64{}, sets: map[string]struct{}{}, engSteps: map[string]int64{}}
}

func (a *agg) distinctSets() []string {
	var out []string
	for k := range a.sets {
		out = append(out, k)
	}
	sort.Strings(out)
	return out
}

func (a *agg) set(name, member string) {
	a.sets[name] = struct{}{}
	a.c.Distinct(name, member)
}

func (a *agg) handle(cases []kase, rs []core.CaseResult) {
	c := a.c
	for _, r := range rs {
		k := cases[r.Index]
		if r.Crash != nil {
			if r.Crash.Kind == "timeout" {
				c.Inconclusive("watchdog")
				continue
			}
			c.Violate("crash:"+k.Kind+":"+r.Crash.Kind+":"+firstWords(r.Crash.Detail), r.Crash.Detail, map[string]any{"case": k, "mode": k.Kind, "crash": r.Crash})
			continue
		}
		var res result
		if err := json.Unmarshal(r.Out, &res); err != nil {
			c.Inconclusive("bad-child-output")
			continue
		}
		if res.Fatal != "" {
			a.fatal++
			c.Inconclusive("case-not-run")
			c.Extra("case_not_run_example", res.Fatal)
			continue
		}
		c.Count("cases_"+k.Kind, 1)
		pm := a.perMount[k.Mount]
		if pm == nil {
			pm = map[string]int64{}
			a.perMount[k.Mount] = pm
		}
		for key, n := range res.Counters {
			if strings.HasPrefix(key, "calls:") {
				fn := strings.TrimPrefix(key, "calls:")
				a.perMountFn[k.Mount+"|"+fn] += n
				c.Count("calls_total", n)
				a.engSteps[k.Engine] += n
				c.Distinct("wasi_functions_called", fn)
				continue
			}
			c.Count(key, n)
			pm[key] += n
		}
		for _, so := range res.SiblingOps {
			c.Distinct("sibling_derivations", so)
		}
		for _, fe := range res.FnErrno {
			c.Distinct("fn_errno_pairs", k.Mount+":"+fe)
		}
		if res.Counters["call_go_errors"] > 0 {
			c.Inconclusive("wasi-call-returned-go-error")
		}
		if len(res.CallErrs) > 0 {
			c.Extra("call_error_example", res.CallErrs[0])
		}
		switch k.Kind {
		case "product":
			set := "path_open_combos|" + k.Mount + "|" + k.Engine
			for _, cb := range res.Combos {
				a.set(set, fmt.Sprintf("%s|%#x|%d|%d|%d", k.Path, k.Rights, k.Lookup, cb>>5, cb&31))
			}
		case "mutators":
			for _, d := range res.Calls {
				a.set("mutator_calls", k.Mount+"|"+k.Engine+"|"+d)
			}
		case "seq":
			a.set("seq_histories", k.Mount+"|"+k.Engine+"|"+res.Shape)
		}
		if len(res.Sample) > 0 && (r.Index%37 == 0) {
			c.Sample(map[string]any{"kind": k.Kind, "mount": k.Mount, "engine": k.Engine, "config_setup": res.SetupSample, "calls": res.Sample})
		}
		for sig, n := range res.SigCounts {
			c.Count("violating_calls_total", n)
			_ = sig
		}
		for _, f := range res.Findings {
			c.Violate(f.Sig, f.Detail, map[string]any{"case": k, "mode": k.Kind, "finding": f, "occurrences_in_case": res.SigCounts[f.Sig]})
		}
	}
}

// finish writes the summary evidence and returns the reasons the run must be
// considered broken (a workload class or monitor was never reached).
func (a *agg) finish(quick bool) (broken []string) {
	c := a.c
	want := productSize(len(prodPaths))
	c.Extra("path_open_product_size", map[string]any{"oflags": nOflags, "fdflags": nFdflags, "rights": len(prodRights), "lookupflags": nLookup, "paths": len(prodPaths), "product": want})
	executed := map[string]int{}
	for _, s := range a.distinctSets() {
		if strings.HasPrefix(s, "path_open_combos|") {
			executed[strings.TrimPrefix(s, "path_open_combos|")] = c.DistinctN(s)
		}
	}
	c.Extra("path_open_combos_executed", executed)
	complete := map[string]bool{}
	for _, m := range allMounts {
		n := executed[m+"|interpreter"]
		min := want
		if !quick {
			min = productSize(len(prodPaths)) + productSize(len(extPaths()))
		}
		complete[m] = n == min
		if n != min {
			c.Inconclusive("path_open-product-incomplete")
			broken = append(broken, fmt.Sprintf("path_open product on %s/interpreter: executed %d distinct combinations, product size %d", m, n, min))
		}
	}
	c.Extra("path_open_product_complete", complete)
	perMountFn := map[string]map[string]int64{}
	for key, n := range a.perMountFn {
		p := strings.SplitN(key, "|", 2)
		if perMountFn[p[0]] == nil {
			perMountFn[p[0]] = map[string]int64{}
		}
		perMountFn[p[0]][p[1]] = n
	}
	c.Extra("calls_per_mount_and_function", perMountFn)
	c.Extra("counters_per_mount", a.perMount)
	c.Extra("calls_per_engine", a.engSteps)
	for _, m := range allMounts {
		for _, fn := range append([]string{"path_open"}, mutatingFns...) {
			if perMountFn[m][fn] == 0 {
				broken = append(broken, fmt.Sprintf("%s never called on %s", fn, m))
			}
		}
		for _, key := range []string{"fds_obtained", "followups_attempted", "dirfd_relative_attempted", "read_checks", "snapshots_compared",
			"sessions_with_hostile_siblings", "sessions_without_siblings", "sessions_ancestor_used_before_derivation",
			"sessions_config_used_between_derivation_and_test", "sessions_module_config_derived_from_instantiated_one", "setup:siblings", "setup:reverse", "setup:nested"} {
			if a.perMount[m][key] == 0 {
				broken = append(broken, fmt.Sprintf("%s is 0 on %s", key, m))
			}
		}
	}
	for _, e := range []string{"interpreter", "compiler"} {
		if a.engSteps[e] == 0 {
			broken = append(broken, "no calls on engine "+e)
		}
	}
	if a.fatal > 0 {
		broken = append(broken, fmt.Sprintf("%d cases could not run", a.fatal))
	}
	for _, b := range broken {
		c.Inconclusive("workload-class-not-reached")
		_ = b
	}
	if len(broken) > 0 {
		c.Extra("broken_reasons", broken)
	}
	return broken
}

func firstWords(s string) string {
	f := strings.Fields(s)
	if len(f) > 6 {
		f = f[:6]
	}
	return strings.Join(f, "_")
}

// replay re-runs the case of a witness file in-process and prints what it finds.
func replay(c *core.Ctx, path string) int {
	b, err := os.ReadFile(path)
	if err != nil {
		fmt.Println(err)
		return 2
	}
	var wf struct {
		Sig     string `json:"sig"`
		Witness struct {
			Case kase `json:"case"`
		} `json:"witness"`
	}
	if err := json.Unmarshal(b, &wf); err != nil {
		fmt.Println("bad witness:", err)
		return 2
	}
	base, _ := os.MkdirTemp("", "c17-replay-")
	defer os.RemoveAll(base)
	k := wf.Witness.Case
	k.Base = base
	res := &result{Counters: map[string]int64{}}
	runCase(k, res)
	if res.Fatal != "" {
		fmt.Println("case did not run:", res.Fatal)
		return 2
	}
	hit := false
	for _, f := range res.Findings {
		fmt.Printf("sig=%s\n  %s\n", f.Sig, f.Detail)
		for _, cl := range f.Calls {
			fmt.Printf("    %s(%s) = %s %s\n", cl.Fn, cl.Args, cl.Errno, cl.Ret)
		}
		if f.Sig == wf.Sig {
			hit = true
		}
	}
	if hit {
		fmt.Println("REPRODUCED", wf.Sig)
		return 1
	}
	fmt.Println("not reproduced:", wf.Sig)
	return 0
}
