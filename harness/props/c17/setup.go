package c17

import (
	"fmt"
	"os"
	"path/filepath"
	"testing/fstest"

	"github.com/tetratelabs/wazero"
	expsysfs "github.com/tetratelabs/wazero/experimental/sysfs"
	"github.com/tetratelabs/wazero/verifharness/core"
)

// The read-only guarantee must hold for the configuration value the embedder
// passes to InstantiateModule, whatever other configurations were derived from
// it (or it was derived from). buildConfig therefore builds the mount under
// test in PRNG-chosen ways and, before the module is instantiated, derives and
// discards "hostile sibling" configurations: overrides of the same guest path
// (in several spellings) with writable or foreign mounts, on the FSConfig and
// on a ModuleConfig that already carries it.

type setupInfo struct {
	Shape     string   `json:"shape"`      // plain | siblings | reverse | nested
	GuestPath string   `json:"guest_path"` // where the mount under test is (fd 3)
	Steps     []string `json:"steps"`      // every derivation, in order; the instantiated value is named
	Hostile   bool     `json:"hostile"`    // at least one discarded sibling / ancestor overrides a guest path of the instantiated config
	ExtraFd   int32    `json:"extra_fd"`   // second pre-open (fd 4) or -1
	ExtraRW   bool     `json:"extra_rw"`   // the second pre-open is legitimately writable (mountRORW)
	// configs instantiated with a throwaway guest (then closed) during the setup
	Used               int  `json:"used"`                 // total throwaway instantiations
	AncestorUsedBefore bool `json:"ancestor_used_before"` // an ancestor was used BEFORE the config under test was derived from it
	UsedBetween        bool `json:"used_between"`         // an ancestor / sibling / the config itself was used after the derivation, before the instantiation under test
	ModuleConfigReused bool `json:"module_config_reused"` // the ModuleConfig under test was derived from one that had been instantiated
}

var siblingMapFS = fstest.MapFS{"sibling.txt": &fstest.MapFile{Data: []byte("from a sibling config\n"), Mode: 0o644}}

// spellings of a guest path that normalise to the same mount point
func spellings(p string) []string {
	if p == "/" {
		return []string{"/", "", ".", "./", "//"}
	}
	b := p[1:]
	return []string{"/" + b, b, "/" + b + "/", "./" + b, "//" + b, b + "/"}
}

func (w *world) buildConfig(mount, engine string, seed uint64) (wazero.ModuleConfig, *setupInfo) {
	r := core.NewRng(int64(seed), 1717)
	mnt := filepath.Join(w.root, mntDir)
	outside := filepath.Join(w.root, "outside")
	si := &setupInfo{ExtraFd: -1}
	step := func(f string, a ...any) { si.Steps = append(si.Steps, fmt.Sprintf(f, a...)) }
	P := []string{"/", "/", "/data"}[r.Intn(3)]
	si.GuestPath = P
	spell := func(p string) string { s := spellings(p); return s[r.Intn(len(s))] }

	// use: instantiate a throwaway guest with the config and close it (the
	// guest issues no call)
	useMC := func(mc wazero.ModuleConfig, name string) {
		rt, cm := w.guest(engine)
		if mod, err := rt.InstantiateModule(w.ctx, cm, mc); err == nil {
			mod.Close(w.ctx)
			step("use(%s)   // instantiate a throwaway guest, close it", name)
		} else {
			step("use(%s) failed: %v", name, err)
		}
		si.Used++
	}
	use := func(cfg wazero.FSConfig, name string) {
		useMC(wazero.NewModuleConfig().WithName("").WithFSConfig(cfg), "NewModuleConfig().WithFSConfig("+name+")")
	}
	// the mount under test on top of cfg
	mountOn := func(cfg wazero.FSConfig, name, p string) wazero.FSConfig {
		switch mount {
		case mountRO, mountRORW:
			if r.Chance(1, 4) {
				step("%s.WithSysFSMount(&ReadFS{DirFS(mnt)}, %q)", name, p)
				return cfg.(expsysfs.FSConfig).WithSysFSMount(&expsysfs.ReadFS{FS: expsysfs.DirFS(mnt)}, p)
			}
			step("%s.WithReadOnlyDirMount(mnt, %q)", name, p)
			return cfg.WithReadOnlyDirMount(mnt, p)
		case mountDirFS:
			step("%s.WithFSMount(os.DirFS(mnt), %q)", name, p)
			return cfg.WithFSMount(os.DirFS(mnt), p)
		case mountMapFS:
			step("%s.WithFSMount(mapfs, %q)", name, p)
			return cfg.WithFSMount(w.mapfs, p)
		}
		panic("unknown mount " + mount)
	}
	// one hostile derivation from cfg, overriding guest path p; the result is discarded
	hostile := func(cfg wazero.FSConfig, name, p string, dirOfP string) {
		sp := spell(p)
		var sib wazero.FSConfig
		switch k := r.Intn(10); {
		case k < 4:
			step("sib = %s.WithDirMount(%s, %q)", name, filepath.Base(dirOfP), sp)
			sib = cfg.WithDirMount(dirOfP, sp)
		case k == 4:
			other := outside
			if dirOfP == outside {
				other = mnt
			}
			step("sib = %s.WithDirMount(%s, %q)", name, filepath.Base(other), sp)
			sib = cfg.WithDirMount(other, sp)
		case k == 5:
			step("sib = %s.WithFSMount(siblingMapFS, %q)", name, sp)
			sib = cfg.WithFSMount(siblingMapFS, sp)
		case k == 6:
			step("sib = %s.WithReadOnlyDirMount(outside, %q)", name, sp)
			sib = cfg.WithReadOnlyDirMount(outside, sp)
		case k == 7:
			step("sib = %s.WithSysFSMount(DirFS(%s), %q)", name, filepath.Base(dirOfP), sp)
			sib = cfg.(expsysfs.FSConfig).WithSysFSMount(expsysfs.DirFS(dirOfP), sp)
		case k == 8:
			step("sib = %s.WithDirMount(mnt, \"/elsewhere\").WithDirMount(%s, %q)", name, filepath.Base(dirOfP), sp)
			sib = cfg.WithDirMount(mnt, "/elsewhere").WithDirMount(dirOfP, sp)
		default:
			step("sib = %s.WithFSMount(os.DirFS(outside), %q)", name, sp)
			sib = cfg.WithFSMount(os.DirFS(outside), sp)
		}
		if r.Chance(1, 3) {
			use(sib, "sib")
			si.UsedBetween = true
		}
		si.Hostile = true
	}

	shape := r.Intn(8)
	if mount == mountRORW && shape >= 6 {
		shape = 1 + r.Intn(5)
	}
	var cfg wazero.FSConfig
	switch {
	case shape == 0:
		si.Shape = "plain"
		cfg = mountOn(wazero.NewFSConfig(), "NewFSConfig()", P)
	case shape <= 3:
		si.Shape = "siblings"
		if r.Chance(1, 3) {
			// a chain whose first link (writable, same guest path) is used before
			// the mount under test overrides it
			step("pre := NewFSConfig().WithDirMount(mnt, %q)", P)
			pre := wazero.NewFSConfig().WithDirMount(mnt, P)
			use(pre, "pre")
			si.AncestorUsedBefore, si.Hostile = true, true
			cfg = mountOn(pre, "pre", spell(P))
		} else {
			cfg = mountOn(wazero.NewFSConfig(), "NewFSConfig()", P)
		}
	case shape <= 5:
		// the read-only config is derived FROM a writable one mounted at the same path
		si.Shape = "reverse"
		step("rw := NewFSConfig().WithDirMount(mnt, %q)", P)
		rw := wazero.NewFSConfig().WithDirMount(mnt, P)
		if r.Chance(2, 3) {
			use(rw, "rw")
			si.AncestorUsedBefore = true
		}
		cfg = mountOn(rw, "rw", spell(P))
		si.Hostile = true
		if r.Chance(1, 3) {
			use(rw, "rw")
			si.UsedBetween = true
		}
		for i, n := 0, r.Intn(3); i < n; i++ { // the ancestor keeps being derived from
			hostile(rw, "rw", P, mnt)
		}
	default:
		// two read-only guest paths; siblings override only one of them
		si.Shape = "nested"
		cfg = mountOn(wazero.NewFSConfig(), "NewFSConfig()", P)
		if r.Chance(1, 2) {
			use(cfg, "cfg")
			si.AncestorUsedBefore = true
			si.Hostile = true
		}
		step("cfg = cfg.WithReadOnlyDirMount(outside, \"/second\")")
		cfg = cfg.WithReadOnlyDirMount(outside, "/second")
		si.ExtraFd = 4
	}
	if mount == mountRORW {
		if si.Shape != "plain" && r.Chance(1, 3) {
			use(cfg, "cfg")
			si.AncestorUsedBefore, si.Hostile = true, true
		}
		step("cfg = cfg.WithDirMount(rwdir, \"/rw\")")
		cfg = cfg.WithDirMount(w.rwdir, "/rw")
		si.ExtraFd, si.ExtraRW = 4, true
	}
	step("ro := cfg   // the value under test")
	if si.Shape != "plain" && r.Chance(1, 4) {
		use(cfg, "ro") // the value under test itself was used before its siblings are derived
		si.UsedBetween, si.Hostile = true, true
	}
	if si.Shape != "plain" {
		for i, n := 0, 1+r.Intn(3); i < n; i++ {
			if si.Shape == "nested" && r.Bool() {
				hostile(cfg, "ro", "/second", outside)
			} else {
				hostile(cfg, "ro", P, mnt)
			}
		}
	}
	var mc wazero.ModuleConfig
	if si.Shape != "plain" && r.Chance(1, 3) {
		// the ModuleConfig under test is derived from one that was already instantiated
		step("mc0 := NewModuleConfig().WithName(\"\").WithFSConfig(NewFSConfig().WithDirMount(mnt, %q))", P)
		mc0 := wazero.NewModuleConfig().WithName("").WithFSConfig(wazero.NewFSConfig().WithDirMount(mnt, P))
		useMC(mc0, "mc0")
		step("mc := mc0.WithFSConfig(ro)")
		mc = mc0.WithFSConfig(cfg)
		si.ModuleConfigReused, si.Hostile = true, true
	} else {
		step("mc := NewModuleConfig().WithName(\"\").WithFSConfig(ro)")
		mc = wazero.NewModuleConfig().WithName("").WithFSConfig(cfg)
	}
	if si.Shape != "plain" && r.Bool() {
		// derivations on the ModuleConfig that already carries the FSConfig
		for i, n := 0, 1+r.Intn(2); i < n; i++ {
			switch r.Intn(4) {
			case 0:
				sp := spell(P)
				step("mc2 := mc.WithFSConfig(ro.WithDirMount(mnt, %q))", sp)
				mc2 := mc.WithFSConfig(cfg.WithDirMount(mnt, sp))
				if r.Bool() {
					useMC(mc2, "mc2")
					si.UsedBetween = true
				}
			case 1:
				step("_ = mc.WithFSConfig(NewFSConfig().WithDirMount(mnt, %q))", P)
				_ = mc.WithFSConfig(wazero.NewFSConfig().WithDirMount(mnt, P))
			case 2:
				step("_ = mc.WithFS(siblingMapFS)")
				_ = mc.WithFS(siblingMapFS)
			default:
				step("_ = mc.WithName(\"other\").WithFSConfig(nil)")
				_ = mc.WithName("other").WithFSConfig(nil)
			}
		}
		si.Hostile = true
	}
	step("InstantiateModule(ctx, guest, mc)")
	return mc, si
}
