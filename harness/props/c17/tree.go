package c17

import (
	"bytes"
	"crypto/sha256"
	"encoding/hex"
	"fmt"
	"io/fs"
	"os"
	"path/filepath"
	"reflect"
	"sort"
	"strings"
	"syscall"
	"testing/fstest"
	"time"
	"unsafe"
)

// ---------------------------------------------------------------------------
// The host tree every child process owns. Layout below <root>:
//
//	mnt/            <- mounted read-only at "/" (or wrapped in os.DirFS)
//	  file.txt ro.txt dir/inner.txt dir/sub/deep.txt empty/
//	  link -> file.txt   dlink -> dir   dangling -> nowhere   escape -> ../outside
//	outside/secret.txt   <- not mounted; reachable only through the symlink
//
// All mtimes/atimes are set to a fixed date in the past, so that any write
// the kernel performs (mtime := now) is visible even when size and content
// end up the same.

type treeNode struct {
	Path   string // relative to root
	Kind   byte   // 'd' 'f' 'l'
	Data   string
	Mode   os.FileMode
	Target string
}

const mntDir = "mnt"

var treeSpec = []treeNode{
	{Path: "mnt", Kind: 'd', Mode: 0o755},
	{Path: "mnt/file.txt", Kind: 'f', Data: "hello from file.txt\n", Mode: 0o644},
	{Path: "mnt/ro.txt", Kind: 'f', Data: "mode 0444 file\n", Mode: 0o444},
	{Path: "mnt/dir", Kind: 'd', Mode: 0o755},
	{Path: "mnt/dir/inner.txt", Kind: 'f', Data: "inner\n", Mode: 0o644},
	{Path: "mnt/dir/sub", Kind: 'd', Mode: 0o755},
	{Path: "mnt/dir/sub/deep.txt", Kind: 'f', Data: "deep down\n", Mode: 0o644},
	{Path: "mnt/empty", Kind: 'd', Mode: 0o755},
	{Path: "mnt/link", Kind: 'l', Target: "file.txt"},
	{Path: "mnt/dlink", Kind: 'l', Target: "dir"},
	{Path: "mnt/dangling", Kind: 'l', Target: "nowhere"},
	{Path: "mnt/escape", Kind: 'l', Target: "../outside"},
	{Path: "outside", Kind: 'd', Mode: 0o755},
	{Path: "outside/secret.txt", Kind: 'f', Data: "outside the mount\n", Mode: 0o644},
}

// known file used by the "plain reads keep working" check
const (
	knownFile    = "file.txt"
	knownContent = "hello from file.txt\n"
)

var fixedTime = time.Date(2020, 1, 2, 3, 4, 5, 0, time.UTC)

// rootNames are the entries a readdir of the mount root must list.
func rootNames(mapfs bool) []string {
	var out []string
	if mapfs {
		for p := range mapSpec() {
			if !strings.Contains(p, "/") {
				out = append(out, p)
			}
		}
	} else {
		for _, n := range treeSpec {
			if strings.HasPrefix(n.Path, "mnt/") && !strings.Contains(n.Path[4:], "/") {
				out = append(out, n.Path[4:])
			}
		}
	}
	sort.Strings(out)
	return out
}

func lutimes(path string, t time.Time) error {
	ts := [2]syscall.Timespec{syscall.NsecToTimespec(t.UnixNano()), syscall.NsecToTimespec(t.UnixNano())}
	p, err := syscall.BytePtrFromString(path)
	if err != nil {
		return err
	}
	atFdcwd := -100
	const atSymlinkNofollow = 0x100
	_, _, e := syscall.Syscall6(syscall.SYS_UTIMENSAT, uintptr(atFdcwd), uintptr(unsafe.Pointer(p)), uintptr(unsafe.Pointer(&ts[0])), atSymlinkNofollow, 0, 0)
	if e != 0 {
		return e
	}
	return nil
}

// restoreTree (re)creates the tree in place: the inodes of <root> and
// <root>/mnt are kept when they still exist (the guest's pre-open refers to
// mnt), everything below is removed and rebuilt.
func restoreTree(root string) error {
	if err := os.MkdirAll(root, 0o755); err != nil {
		return err
	}
	keep := map[string]bool{"mnt": true, "outside": true}
	ents, err := os.ReadDir(root)
	if err != nil {
		return err
	}
	for _, e := range ents {
		p := filepath.Join(root, e.Name())
		if keep[e.Name()] && e.IsDir() {
			os.Chmod(p, 0o755)
			sub, err := os.ReadDir(p)
			if err != nil {
				return err
			}
			for _, s := range sub {
				chmodAll(filepath.Join(p, s.Name()))
				if err := os.RemoveAll(filepath.Join(p, s.Name())); err != nil {
					return err
				}
			}
			continue
		}
		chmodAll(p)
		if err := os.RemoveAll(p); err != nil {
			return err
		}
	}
	for _, n := range treeSpec {
		p := filepath.Join(root, n.Path)
		switch n.Kind {
		case 'd':
			if err := os.MkdirAll(p, 0o755); err != nil {
				return err
			}
			if err := os.Chmod(p, n.Mode); err != nil {
				return err
			}
		case 'f':
			if err := os.WriteFile(p, []byte(n.Data), 0o644); err != nil {
				return err
			}
			if err := os.Chmod(p, n.Mode); err != nil {
				return err
			}
		case 'l':
			if err := os.Symlink(n.Target, p); err != nil {
				return err
			}
		}
	}
	for i := len(treeSpec) - 1; i >= 0; i-- {
		if err := lutimes(filepath.Join(root, treeSpec[i].Path), fixedTime); err != nil {
			return err
		}
	}
	return lutimes(root, fixedTime)
}

// chmodAll makes a subtree removable even when a violation changed modes.
func chmodAll(p string) {
	filepath.WalkDir(p, func(q string, d fs.DirEntry, err error) error {
		if err == nil && d.IsDir() {
			os.Chmod(q, 0o755)
		}
		return nil
	})
}

// hostEntry is everything compared for one path. atime is deliberately not
// part of it (reads change it).
type hostEntry struct {
	Type   string `json:"type"` // dir | file | symlink | other
	Size   int64  `json:"size"`
	Sha    string `json:"sha256,omitempty"`
	Mtime  int64  `json:"mtime_ns"`
	Ctime  int64  `json:"ctime_ns"`
	Mode   uint32 `json:"mode"`
	Ino    uint64 `json:"ino"`
	Nlink  uint64 `json:"nlink"`
	Uid    uint32 `json:"uid"`
	Gid    uint32 `json:"gid"`
	Target string `json:"target,omitempty"`
	Err    string `json:"err,omitempty"`
}

type hostSnap map[string]hostEntry

func snapHost(root string) hostSnap {
	out := hostSnap{}
	var walk func(abs, rel string)
	walk = func(abs, rel string) {
		var e hostEntry
		fi, err := os.Lstat(abs)
		if err != nil {
			out[rel] = hostEntry{Type: "other", Err: err.Error()}
			return
		}
		st := fi.Sys().(*syscall.Stat_t)
		e.Size = fi.Size()
		e.Mtime = st.Mtim.Nano()
		e.Ctime = st.Ctim.Nano()
		e.Mode = uint32(st.Mode)
		e.Ino = st.Ino
		e.Nlink = uint64(st.Nlink)
		e.Uid, e.Gid = st.Uid, st.Gid
		switch {
		case fi.Mode().IsDir():
			e.Type = "dir"
			e.Size = 0  // directory sizes are a file-system detail
			e.Nlink = 0 // (sub-directory count; covered by the names themselves)
			names, err := readNames(abs)
			if err != nil {
				e.Err = err.Error()
			}
			out[rel] = e
			for _, n := range names {
				r := n
				if rel != "." {
					r = rel + "/" + n
				}
				walk(filepath.Join(abs, n), r)
			}
			return
		case fi.Mode()&os.ModeSymlink != 0:
			e.Type = "symlink"
			e.Target, _ = os.Readlink(abs)
		case fi.Mode().IsRegular():
			e.Type = "file"
			b, err := os.ReadFile(abs)
			if err != nil {
				e.Err = err.Error()
			}
			h := sha256.Sum256(b)
			e.Sha = hex.EncodeToString(h[:])
		default:
			e.Type = "other"
		}
		out[rel] = e
	}
	walk(root, ".")
	return out
}

func readNames(dir string) ([]string, error) {
	f, err := os.Open(dir)
	if err != nil {
		return nil, err
	}
	defer f.Close()
	names, err := f.Readdirnames(-1)
	sort.Strings(names)
	return names, err
}

// change is one difference between two snapshots.
type change struct {
	Path   string `json:"path"`
	Effect string `json:"effect"`
	Before any    `json:"before,omitempty"`
	After  any    `json:"after,omitempty"`
}

// effect priorities: lower index = more telling; the first one names the sig.
var effectOrder = []string{
	"creates-file", "creates-dir", "creates-symlink", "creates-other",
	"removes-file", "removes-dir", "removes-symlink", "removes-other",
	"replaces-entry", "type-changed",
	"truncates-file", "extends-file", "content-changed", "symlink-target-changed",
	"data-changed", "entry-added", "entry-removed", "entry-replaced",
	"mtime-changed", "mode-changed", "owner-changed", "nlink-changed", "ctime-changed", "sys-changed", "stat-error",
}

func effectRank(e string) int {
	for i, x := range effectOrder {
		if x == e {
			return i
		}
	}
	return len(effectOrder)
}

func diffHost(a, b hostSnap) []change {
	var out []change
	for p, ea := range a {
		eb, ok := b[p]
		if !ok {
			out = append(out, change{Path: p, Effect: "removes-" + ea.Type, Before: ea})
			continue
		}
		if ea == eb {
			continue
		}
		eff := ""
		switch {
		case ea.Err != eb.Err:
			eff = "stat-error"
		case ea.Type != eb.Type:
			eff = "type-changed"
		case ea.Ino != eb.Ino:
			eff = "replaces-entry"
		case ea.Type == "file" && eb.Size < ea.Size:
			eff = "truncates-file"
		case ea.Type == "file" && eb.Size > ea.Size:
			eff = "extends-file"
		case ea.Sha != eb.Sha:
			eff = "content-changed"
		case ea.Target != eb.Target:
			eff = "symlink-target-changed"
		case ea.Mtime != eb.Mtime:
			eff = "mtime-changed"
		case ea.Mode != eb.Mode:
			eff = "mode-changed"
		case ea.Uid != eb.Uid || ea.Gid != eb.Gid:
			eff = "owner-changed"
		case ea.Nlink != eb.Nlink:
			eff = "nlink-changed"
		default:
			eff = "ctime-changed"
		}
		out = append(out, change{Path: p, Effect: eff, Before: ea, After: eb})
	}
	for p, eb := range b {
		if _, ok := a[p]; !ok {
			out = append(out, change{Path: p, Effect: "creates-" + eb.Type, After: eb})
		}
	}
	sortChanges(out)
	return out
}

func sortChanges(cs []change) {
	sort.Slice(cs, func(i, j int) bool {
		ri, rj := effectRank(cs[i].Effect), effectRank(cs[j].Effect)
		if ri != rj {
			return ri < rj
		}
		return cs[i].Path < cs[j].Path
	})
}

func describeChanges(cs []change) string {
	var sb strings.Builder
	for i, c := range cs {
		if i == 6 {
			fmt.Fprintf(&sb, " …(+%d)", len(cs)-i)
			break
		}
		if i > 0 {
			sb.WriteString("; ")
		}
		fmt.Fprintf(&sb, "%s %s", c.Effect, c.Path)
		if a, ok := c.After.(hostEntry); ok {
			if b, ok := c.Before.(hostEntry); ok && a.Type == "file" {
				fmt.Fprintf(&sb, " (size %d->%d)", b.Size, a.Size)
			}
		}
	}
	return sb.String()
}

// ---------------------------------------------------------------------------
// fstest.MapFS mount: the map itself is the "host state".

func mapSpec() map[string]fstest.MapFile {
	return map[string]fstest.MapFile{
		"file.txt":         {Data: []byte(knownContent), Mode: 0o644, ModTime: fixedTime},
		"ro.txt":           {Data: []byte("mode 0444 file\n"), Mode: 0o444, ModTime: fixedTime},
		"dir":              {Mode: fs.ModeDir | 0o755, ModTime: fixedTime},
		"dir/inner.txt":    {Data: []byte("inner\n"), Mode: 0o644, ModTime: fixedTime},
		"dir/sub":          {Mode: fs.ModeDir | 0o755, ModTime: fixedTime},
		"dir/sub/deep.txt": {Data: []byte("deep down\n"), Mode: 0o644, ModTime: fixedTime},
		"empty":            {Mode: fs.ModeDir | 0o755, ModTime: fixedTime},
		"link":             {Data: []byte("file.txt"), Mode: fs.ModeSymlink | 0o777, ModTime: fixedTime},
	}
}

func newMapFS() fstest.MapFS {
	m := fstest.MapFS{}
	for p, f := range mapSpec() {
		f := f
		f.Data = append([]byte(nil), f.Data...)
		m[p] = &f
	}
	return m
}

type mapEntry struct {
	ptr     *fstest.MapFile
	dataPtr *byte
	Data    []byte
	Mode    fs.FileMode
	ModTime time.Time
	Sys     any
}

type mapSnap map[string]mapEntry

func snapMap(m fstest.MapFS) mapSnap {
	out := mapSnap{}
	for p, f := range m {
		e := mapEntry{ptr: f}
		if f != nil {
			e.Data = append([]byte(nil), f.Data...)
			if len(f.Data) > 0 {
				e.dataPtr = &f.Data[0]
			}
			e.Mode, e.ModTime, e.Sys = f.Mode, f.ModTime, f.Sys
		}
		out[p] = e
	}
	return out
}

func mapEntryJSON(e mapEntry) any {
	return map[string]any{"data": string(e.Data), "mode": e.Mode.String(), "modtime": e.ModTime.UTC().Format(time.RFC3339Nano)}
}

func diffMap(a, b mapSnap) []change {
	var out []change
	for p, ea := range a {
		eb, ok := b[p]
		if !ok {
			out = append(out, change{Path: p, Effect: "entry-removed", Before: mapEntryJSON(ea)})
			continue
		}
		eff := ""
		switch {
		case ea.ptr != eb.ptr:
			eff = "entry-replaced"
		case !bytes.Equal(ea.Data, eb.Data) || ea.dataPtr != eb.dataPtr:
			eff = "data-changed"
		case ea.Mode != eb.Mode:
			eff = "mode-changed"
		case !ea.ModTime.Equal(eb.ModTime):
			eff = "mtime-changed"
		case !reflect.DeepEqual(ea.Sys, eb.Sys):
			eff = "sys-changed"
		default:
			continue
		}
		out = append(out, change{Path: p, Effect: eff, Before: mapEntryJSON(ea), After: mapEntryJSON(eb)})
	}
	for p, eb := range b {
		if _, ok := a[p]; !ok {
			out = append(out, change{Path: p, Effect: "entry-added", After: mapEntryJSON(eb)})
		}
	}
	sortChanges(out)
	return out
}
