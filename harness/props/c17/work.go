package c17

import (
	"crypto/sha256"
	"encoding/hex"
	"encoding/json"
	"fmt"
	"sort"
	"strings"

	"github.com/tetratelabs/wazero/verifharness/core"
)

// ---------------------------------------------------------------------------
// workload dimensions

// The six paths of the path_open product (DESIGN.md C17): existing file,
// missing file, existing dir, nested missing, symlink to a file, ".".
var prodPaths = []string{"file.txt", "missing.txt", "dir", "dir/missing.txt", "link", "."}

var prodRights = []uint64{0, rightFdRead, rightFdWrite, rightFdRead | rightFdWrite, ^uint64(0)}

const (
	nOflags  = 16 // 4 bits
	nFdflags = 32 // 5 bits
	nLookup  = 2  // 1 bit
)

func productSize(paths int) int { return nOflags * nFdflags * len(prodRights) * nLookup * paths }

// allPaths is used by the other mutating calls, the PRNG sequences and (minus
// prodPaths) the extended path_open product of the thorough tier.
var allPaths = []string{
	"file.txt", "ro.txt", "missing.txt", "dir", "dir/inner.txt", "dir/missing.txt", "dir/sub", "dir/sub/deep.txt", "empty",
	"nodir/missing.txt", "link", "dlink", "dlink/inner.txt", "dlink/new.txt", "dangling", "escape", "escape/secret.txt", "escape/new.txt",
	".", "", "dir/", "file.txt/", "..", "../outside/secret.txt", "/file.txt", "./file.txt", "dir/../file.txt", "dir/..",
	"inner.txt", "sub", "new.txt", // meaningful relative to an opened "dir"
	"w.txt", "wdir", // exist only in the writable sibling mount (mountRORW)
}

func extPaths() []string {
	var out []string
	for _, p := range allPaths {
		in := false
		for _, q := range prodPaths {
			if p == q {
				in = true
			}
		}
		if !in {
			out = append(out, p)
		}
	}
	return out
}

var symlinkTargets = []string{"file.txt", "dir", "nonexistent", "../outside/secret.txt", "/nonexistent-c17/target"}

var fstFlagList = []uint32{0, fstAtim, fstMtim, fstAtim | fstMtim, fstAtimNow, fstMtimNow, fstAtimNow | fstMtimNow, fstAtim | fstMtimNow, fstAtim | fstAtimNow, 15}

// mutating calls other than path_open that every mount must have seen
var mutatingFns = []string{"path_create_directory", "path_remove_directory", "path_unlink_file", "path_rename", "path_link", "path_symlink",
	"path_filestat_set_times", "fd_write", "fd_pwrite", "fd_filestat_set_size", "fd_filestat_set_times", "fd_allocate", "fd_sync", "fd_datasync"}

// ---------------------------------------------------------------------------
// cases

type kase struct {
	Kind   string `json:"kind"` // product | mutators | seq
	Mount  string `json:"mount"`
	Engine string `json:"engine"`
	Base   string `json:"base,omitempty"`
	// product: all oflags x fdflags for this (path, rights, lookup)
	Path   string `json:"path,omitempty"`
	Rights uint64 `json:"rights,omitempty"`
	Lookup uint32 `json:"lookup,omitempty"`
	// mutators
	Group string `json:"group,omitempty"` // dirops | rename | link | fdops
	// seq
	Seed uint64 `json:"seed,omitempty"`
	Len  int    `json:"len,omitempty"`
	// PRNG stream for how the config is built and which sibling configs are
	// derived from it before instantiation
	Setup uint64 `json:"setup"`
}

func child(mode string, in json.RawMessage) any {
	var k kase
	res := &result{Counters: map[string]int64{}}
	if err := json.Unmarshal(in, &k); err != nil {
		res.Fatal = "bad case: " + err.Error()
		return res
	}
	runCase(k, res)
	return res
}

func runCase(k kase, res *result) {
	w := getWorld(k.Base)
	if msg := w.treeAtSpec(); msg != "" {
		res.Fatal = "harness: host tree not at specification before the case: " + msg
		return
	}
	if k.Mount == mountRORW {
		w.resetRW()
	}
	s, err := newSess(w, k.Mount, k.Engine, k.Setup, res)
	if err != nil {
		res.Fatal = "instantiate: " + err.Error()
		return
	}
	switch k.Kind {
	case "product":
		for o := 0; o < nOflags; o++ {
			for f := 0; f < nFdflags; f++ {
				if s.productStep(k.Path, k.Lookup, uint16(o), uint16(f), k.Rights) {
					res.Combos = append(res.Combos, uint16(o<<5|f))
				}
			}
		}
	case "mutators":
		s.mutators(k.Group)
	case "seq":
		s.sequence(core.NewRng(int64(k.Seed), 17), k.Len)
	default:
		res.Fatal = "unknown kind " + k.Kind
	}
	// plain reads through the mount keep working: in the instance that ran the
	// history (when the guest did not close its own pre-open) and in a fresh one.
	if s.preopenAlive() {
		s.readCheck("same-instance")
	} else {
		res.count("preopen_closed_by_guest", 1)
	}
	s.close()
	s2, err := newSess(w, k.Mount, k.Engine, k.Setup+1, res)
	if err != nil {
		res.Fatal = "instantiate (fresh): " + err.Error()
		return
	}
	s2.readCheck("fresh-instance")
	s2.close()
	res.FnErrno = dedup(res.FnErrno)
}

func dedup(in []string) []string {
	sort.Strings(in)
	var out []string
	for i, s := range in {
		if i == 0 || s != in[i-1] {
			out = append(out, s)
		}
	}
	return out
}

// treeAtSpec verifies the harness's own precondition: names, types, contents,
// link targets, modes and mtimes are what treeSpec says.
func (w *world) treeAtSpec() string {
	sn := snapHost(w.root)
	if len(sn) != len(treeSpec)+1 {
		return fmt.Sprintf("%d entries, want %d", len(sn), len(treeSpec)+1)
	}
	for _, n := range treeSpec {
		e, ok := sn[n.Path]
		if !ok {
			return "missing " + n.Path
		}
		switch n.Kind {
		case 'd':
			if e.Type != "dir" || e.Mode&0o7777 != uint32(n.Mode) {
				return "bad dir " + n.Path
			}
		case 'f':
			h := sha256.Sum256([]byte(n.Data))
			if e.Type != "file" || e.Sha != hex.EncodeToString(h[:]) || e.Mode&0o7777 != uint32(n.Mode) {
				return "bad file " + n.Path
			}
		case 'l':
			if e.Type != "symlink" || e.Target != n.Target {
				return "bad symlink " + n.Path
			}
		}
		if e.Mtime != fixedTime.UnixNano() {
			return "bad mtime " + n.Path
		}
	}
	if len(w.mapfs) != len(mapSpec()) {
		return "mapfs size"
	}
	for p, f := range mapSpec() {
		g := w.mapfs[p]
		if g == nil || string(g.Data) != string(f.Data) || g.Mode != f.Mode || !g.ModTime.Equal(f.ModTime) {
			return "mapfs entry " + p
		}
	}
	return ""
}

// ---------------------------------------------------------------------------
// path_open product

// productStep is one element of the product: path_open on the pre-open, then,
// when an fd came back, every mutating descriptor operation on it.
func (s *sess) productStep(path string, lookup uint32, oflags, fdflags uint16, rights uint64) bool {
	s.beginUnit()
	s.res.count("path_open_steps", 1)
	errno, fd, ok := s.pathOpen(3, lookup, path, oflags, fdflags, rights)
	if ok && errno == 0 {
		s.followUps(fd, true)
	}
	if s.res.Sample == nil && ok && errno == 0 && oflags != 0 && fdflags != 0 {
		s.res.Sample = append([]callRec(nil), s.calls...)
	}
	s.endUnit()
	return ok
}

func (s *sess) followUps(fd int32, dirRelative bool) {
	n := func() { s.res.count("followups_attempted", 1) }
	ft, _ := s.fdFiletype(fd)
	if fi := s.fdinfo[fd]; fi != nil {
		fi.IsDir = ft == filetypeDirectory
	}
	s.fdWrite(fd, "XYZ")
	n()
	s.fdPwrite(fd, "PQ", 1)
	n()
	s.fdSetSize(fd, 1)
	n()
	s.fdSetSize(fd, 4000)
	n()
	s.fdSetTimes(fd, 1_000_000_000, 2_000_000_000, fstAtim|fstMtim)
	n()
	s.fdSetTimes(fd, 0, 0, fstMtimNow)
	n()
	s.fdAllocate(fd, 0, 4096)
	n()
	s.fd1("fd_sync", fd)
	n()
	s.fd1("fd_datasync", fd)
	n()
	// switching append mode re-opens the host file
	s.fdSetFlags(fd, fdAppend)
	n()
	s.fdWrite(fd, "A")
	n()
	s.fdSetFlags(fd, 0)
	n()
	if ft == filetypeDirectory && dirRelative {
		s.res.count("dirfd_obtained", 1)
		s.dirRelative(fd)
	}
}

// dirRelative issues mutating path calls relative to an opened (non-preopen)
// directory fd; names exist under "." or under "dir".
func (s *sess) dirRelative(d int32) {
	n := func() { s.res.count("dirfd_relative_attempted", 1) }
	for _, c := range []struct {
		p string
		o uint16
		r uint64
	}{{"via-dirfd-new.txt", oCreat | oExcl, rightFdRead | rightFdWrite}, {"via-dirfd-new.txt", oCreat, rightFdRead},
		{"inner.txt", oTrunc, rightFdRead}, {"file.txt", oTrunc, rightFdRead}, {"inner.txt", 0, rightFdWrite}} {
		if errno, fd, ok := s.pathOpen(d, lookupFollow, c.p, c.o, 0, c.r); ok && errno == 0 {
			s.fdWrite(fd, "W")
			s.fdClose(fd)
		}
		n()
	}
	s.path1("path_create_directory", d, "via-dirfd-newdir")
	n()
	s.path1("path_unlink_file", d, "inner.txt")
	n()
	s.path1("path_unlink_file", d, "file.txt")
	n()
	s.path1("path_remove_directory", d, "sub")
	n()
	s.path1("path_remove_directory", d, "empty")
	n()
	s.pathRename(d, "inner.txt", d, "renamed.txt")
	n()
	s.pathRename(d, "file.txt", 3, "renamed.txt")
	n()
	s.pathSymlink("inner.txt", d, "via-dirfd-symlink")
	n()
	s.pathLink(d, 0, "inner.txt", d, "via-dirfd-hardlink")
	n()
	s.pathSetTimes(d, lookupFollow, "inner.txt", 0, 5_000_000_000, fstMtim)
	n()
	s.pathSetTimes(d, lookupFollow, ".", 0, 5_000_000_000, fstMtim)
	n()
}

// ---------------------------------------------------------------------------
// plain reads keep working

func (s *sess) preopenAlive() bool {
	r, err := s.fn("fd_prestat_get").Call(s.w.ctx, 3, offStat)
	return err == nil && len(r) == 1 && r[0] == 0
}

func (s *sess) readCheck(tag string) {
	s.beginUnit()
	s.res.count("read_checks", 1)
	bad := func(what, detail string) {
		s.res.count("read_check_failures", 1)
		m := s.mount
		if s.sigTag != "" {
			m += ":" + s.sigTag
		}
		s.report(fmt.Sprintf("%s:reads-stop-working:%s:%s", m, tag, what),
			fmt.Sprintf("after the history, reading %q through the %s mount (%s, %s): %s", knownFile, s.mount, s.engine, tag, detail), nil)
	}
	errno, fd, ok := s.pathOpen(3, lookupFollow, knownFile, 0, 0, rightFdRead)
	switch {
	case !ok:
		bad("path_open:go-error", "call failed")
	case errno != 0:
		bad("path_open:"+s.calls[len(s.calls)-1].Errno, "path_open failed")
	default:
		e2, b := s.fdRead(fd, 4096)
		if e2 != 0 {
			bad("fd_read:"+s.calls[len(s.calls)-1].Errno, "fd_read failed")
		} else if string(b) != knownContent {
			bad("fd_read:content-differs", fmt.Sprintf("got %q want %q", b, knownContent))
		}
		s.fdClose(fd)
	}
	if e3, sz, ft := s.pathFilestatGet(3, lookupFollow, knownFile); e3 != 0 {
		bad("path_filestat_get:"+s.calls[len(s.calls)-1].Errno, "path_filestat_get failed")
	} else if sz != uint64(len(knownContent)) || ft != filetypeRegular {
		bad("path_filestat_get:wrong-stat", fmt.Sprintf("size=%d filetype=%d", sz, ft))
	}
	if e4, dfd, ok := s.pathOpen(3, lookupFollow, ".", oDirectory, 0, rightFdRead); !ok || e4 != 0 {
		bad("path_open-dir:"+s.calls[len(s.calls)-1].Errno, "opening the mount root failed")
	} else {
		e5, names := s.fdReaddir(dfd)
		if e5 != 0 {
			bad("fd_readdir:"+s.calls[len(s.calls)-1].Errno, "fd_readdir failed")
		} else {
			have := map[string]bool{}
			for _, n := range names {
				have[n] = true
			}
			for _, n := range rootNames(s.mount == mountMapFS) {
				if !have[n] {
					bad("fd_readdir:entry-missing", fmt.Sprintf("%q not listed in %v", n, names))
					break
				}
			}
		}
		s.fdClose(dfd)
	}
	s.endUnit()
}

// ---------------------------------------------------------------------------
// every other mutating call over all paths

func (s *sess) mutators(group string) {
	var d int32 = -1
	openDir := func() {
		// a non-preopen directory fd for *at-style calls; not tracked in s.fds so
		// that it survives unit ends
		if errno, fd, ok := s.pathOpen(3, lookupFollow, "dir", oDirectory, 0, rightFdRead); ok && errno == 0 {
			d = fd
			s.fds = s.fds[:len(s.fds)-1]
			s.fdinfo[fd].IsDir = true
		} else {
			d = -1
			s.res.count("mutators_dirfd_unavailable", 1)
		}
	}
	openDir()
	unit := func(f func()) {
		s.beginUnit()
		f()
		if n := len(s.calls); n > 0 {
			c := s.calls[n-1]
			s.res.Calls = append(s.res.Calls, c.Fn+"("+c.Args+")")
		}
		s.res.count("mutator_calls", 1)
		if s.dirty {
			if d >= 0 {
				s.fdClose(d)
			}
			s.endUnit()
			openDir()
		} else {
			s.endUnit()
		}
	}
	dirfds := func() []int32 {
		out := []int32{3}
		if d >= 0 {
			out = append(out, d)
		}
		if s.rwFd >= 0 {
			out = append(out, s.rwFd)
		}
		return out
	}
	switch group {
	case "dirops":
		for _, p := range allPaths {
			for i := 0; i < len(dirfds()); i++ {
				p := p
				unit(func() { s.path1("path_create_directory", dirfds()[i], p) })
				unit(func() { s.path1("path_remove_directory", dirfds()[i], p) })
				unit(func() { s.path1("path_unlink_file", dirfds()[i], p) })
				for _, t := range symlinkTargets {
					t := t
					unit(func() { s.pathSymlink(t, dirfds()[i], p) })
				}
				for _, ff := range fstFlagList {
					for lk := uint32(0); lk < 2; lk++ {
						ff, lk := ff, lk
						unit(func() { s.pathSetTimes(dirfds()[i], lk, p, 1_500_000_000_000_000_000, 1_600_000_000_000_000_000, ff) })
					}
				}
			}
		}
	case "rename", "link":
		for _, p := range allPaths {
			for _, q := range allPaths {
				for a := 0; a < len(dirfds()); a++ {
					for b := 0; b < len(dirfds()); b++ {
						p, q := p, q
						if group == "rename" {
							unit(func() { s.pathRename(dirfds()[a], p, dirfds()[b], q) })
						} else {
							unit(func() { s.pathLink(dirfds()[a], 0, p, dirfds()[b], q) })
							unit(func() { s.pathLink(dirfds()[a], lookupFollow, p, dirfds()[b], q) })
						}
					}
				}
			}
		}
	case "fdops":
		// descriptor-level mutators on the pre-open itself, on the directory fd
		// and on file fds opened with every rights value (no open flags).
		targets := []int32{3}
		if d >= 0 {
			targets = append(targets, d)
		}
		for _, fd := range targets {
			fd := fd
			unit(func() { s.followUps(fd, false) })
		}
		for _, p := range []string{"file.txt", "ro.txt", "link", "dir/inner.txt", "escape/secret.txt", "dir", "."} {
			for _, r := range prodRights {
				p, r := p, r
				unit(func() {
					if errno, fd, ok := s.pathOpen(3, lookupFollow, p, 0, 0, r); ok && errno == 0 {
						s.followUps(fd, true)
					}
				})
			}
		}
	}
	if d >= 0 {
		s.beginUnit()
		s.fdClose(d)
		s.endUnit()
	}
}

// ---------------------------------------------------------------------------
// PRNG sequences mixing everything

func (s *sess) sequence(r *core.Rng, n int) {
	s.beginUnit()
	pick := func(l []string) string { return l[r.Intn(len(l))] }
	pickDir := func() int32 {
		if s.rwFd >= 0 && r.Chance(1, 4) {
			return s.rwFd
		}
		if len(s.fds) > 0 && r.Chance(2, 5) {
			// prefer directories
			var ds []int32
			for _, fd := range s.fds {
				if fi := s.fdinfo[fd]; fi != nil && fi.IsDir {
					ds = append(ds, fd)
				}
			}
			if len(ds) > 0 && r.Chance(3, 4) {
				return ds[r.Intn(len(ds))]
			}
			return s.fds[r.Intn(len(s.fds))]
		}
		return 3
	}
	pickFd := func() int32 {
		switch {
		case len(s.fds) > 0 && r.Chance(3, 4):
			return s.fds[r.Intn(len(s.fds))]
		case r.Chance(1, 2):
			return 3
		}
		return int32(r.Intn(16))
	}
	pickRights := func() uint64 {
		if r.Chance(1, 8) {
			return r.U64()
		}
		return prodRights[r.Intn(len(prodRights))]
	}
	for i := 0; i < n; i++ {
		switch k := r.Intn(100); {
		case k < 30:
			o := uint16(r.Intn(nOflags))
			if r.Chance(1, 16) {
				o = uint16(r.U32())
			}
			f := uint16(r.Intn(nFdflags))
			if r.Chance(1, 4) {
				f = 0
			}
			if r.Chance(1, 32) {
				f = uint16(r.U32())
			}
			if errno, fd, ok := s.pathOpen(pickDir(), uint32(r.Intn(2)), pick(allPaths), o, f, pickRights()); ok && errno == 0 {
				ft, _ := s.fdFiletype(fd)
				if fi := s.fdinfo[fd]; fi != nil {
					fi.IsDir = ft == filetypeDirectory
				}
			}
		case k < 55: // descriptor mutators
			fd := pickFd()
			switch r.Intn(9) {
			case 0, 1:
				s.fdWrite(fd, pick([]string{"", "x", "some longer payload"}))
			case 2:
				s.fdPwrite(fd, "pw", uint64(r.Intn(64)))
			case 3:
				s.fdSetSize(fd, uint64(r.Intn(3))*uint64(r.Intn(5000)))
			case 4:
				s.fdSetTimes(fd, r.U64()>>2, r.U64()>>2, fstFlagList[r.Intn(len(fstFlagList))])
			case 5:
				s.fdAllocate(fd, uint64(r.Intn(100)), uint64(r.Intn(10000)))
			case 6:
				s.fd1("fd_sync", fd)
			case 7:
				s.fd1("fd_datasync", fd)
			default:
				s.fdSetFlags(fd, uint16(r.Intn(nFdflags))&(fdAppend|fdNonblock|uint16(r.Intn(2))*fdDsync))
			}
			s.res.count("followups_attempted", 1)
		case k < 75: // path mutators
			d := pickDir()
			switch r.Intn(8) {
			case 0:
				s.path1("path_create_directory", d, pick(allPaths))
			case 1:
				s.path1("path_remove_directory", d, pick(allPaths))
			case 2:
				s.path1("path_unlink_file", d, pick(allPaths))
			case 3, 4:
				s.pathRename(d, pick(allPaths), pickDir(), pick(allPaths))
			case 5:
				s.pathLink(d, uint32(r.Intn(2)), pick(allPaths), pickDir(), pick(allPaths))
			case 6:
				s.pathSymlink(pick(symlinkTargets), d, pick(allPaths))
			default:
				s.pathSetTimes(d, uint32(r.Intn(2)), pick(allPaths), r.U64()>>2, r.U64()>>2, fstFlagList[r.Intn(len(fstFlagList))])
			}
		case k < 90: // reads and stats interleaved (they move offsets, fill dirent caches, re-open directories)
			fd := pickFd()
			switch r.Intn(9) {
			case 0, 1:
				s.fdRead(fd, uint32(r.Intn(64)))
			case 2:
				s.fdPread(fd, uint32(r.Intn(64)), uint64(r.Intn(32)))
			case 3:
				s.fdReaddir(fd)
			case 4:
				s.fdSeek(fd, int64(r.Intn(40))-8, uint32(r.Intn(4)))
			case 5:
				s.pathFilestatGet(pickDir(), uint32(r.Intn(2)), pick(allPaths))
			case 6:
				s.pathReadlink(pickDir(), pick(allPaths))
			case 7:
				s.fdFilestatGet(fd)
			default:
				s.fdAdvise(fd, uint64(r.Intn(10)), uint64(r.Intn(100)), uint32(r.Intn(7)))
			}
		case k < 96:
			if len(s.fds) > 0 {
				s.fdClose(s.fds[r.Intn(len(s.fds))])
			} else {
				s.fd1("fd_close", int32(4+r.Intn(6))) // never the pre-open here; see below
			}
		case k < 99:
			s.fdRenumber(pickFd(), int32(r.Intn(12)))
		default:
			// rarely: the guest closes its own pre-open (reads are then checked in a fresh instance only)
			if r.Chance(1, 12) {
				s.fd1("fd_close", 3)
			} else {
				s.fdFilestatGet(3)
			}
		}
	}
	// digest of the history (calls and results) = identity of the sequence
	h := sha256.New()
	var fns []string
	for _, c := range s.calls {
		fmt.Fprintf(h, "%s|%s|%s|%s\n", c.Fn, c.Args, c.Errno, c.Ret)
		fns = append(fns, c.Fn)
	}
	s.res.Shape = hex.EncodeToString(h.Sum(nil)[:10])
	if s.res.Sample == nil {
		k := len(s.calls)
		if k > 12 {
			k = 12
		}
		s.res.Sample = append([]callRec(nil), s.calls[:k]...)
	}
	s.res.count("seq_calls", int64(len(s.calls)))
	_ = strings.Join(fns, ",")
	s.endUnit()
}
