package c17

import (
	"context"
	"encoding/binary"
	"fmt"
	"os"
	"path/filepath"
	"sort"
	"strings"
	"sync"
	"testing/fstest"

	"github.com/tetratelabs/wazero"
	"github.com/tetratelabs/wazero/api"
	"github.com/tetratelabs/wazero/imports/wasi_snapshot_preview1"
	"github.com/tetratelabs/wazero/internal/wasip1"
	"github.com/tetratelabs/wazero/verifharness/core"
	"github.com/tetratelabs/wazero/verifharness/wasiproxy"
)

// WASI snapshot-01 constants (stated here independently of wazero's tables).
const (
	oCreat, oDirectory, oExcl, oTrunc               = 1, 2, 4, 8
	fdAppend, fdDsync, fdNonblock, fdRsync, fdSync  = 1, 2, 4, 8, 16
	rightFdRead, rightFdWrite                       = uint64(1) << 1, uint64(1) << 6
	fstAtim, fstAtimNow, fstMtim, fstMtimNow        = 1, 2, 4, 8
	lookupFollow                                    = 1
	filetypeDirectory, filetypeRegular, filetypeSym = 3, 4, 7
)

const (
	mountRO    = "readonly-dirmount" // NewFSConfig().WithReadOnlyDirMount(dir, "/")
	mountDirFS = "fsmount-dirfs"     // WithFSMount(os.DirFS(dir), "/")
	mountMapFS = "fsmount-mapfs"     // WithFSMount(fstest.MapFS, "/")
)

// mountRORW is the read-only dir mount at "/" (fd 3) plus a WRITABLE mount of
// a different host directory at "/rw" (fd 4): cross-mount rename/link must
// not become a way into (or out of) the read-only tree. Violations carry the
// sig prefix of mountRO (same wrapper), plus ":via-rw-sibling-mount" when the
// call named the writable pre-open.
const mountRORW = "readonly-dirmount+rw-sibling"

var allMounts = []string{mountRO, mountDirFS, mountMapFS}

func oflagsString(o uint16) string {
	var p []string
	for i, n := range []string{"O_CREAT", "O_DIRECTORY", "O_EXCL", "O_TRUNC"} {
		if o&(1<<i) != 0 {
			p = append(p, n)
		}
	}
	if o>>4 != 0 {
		p = append(p, fmt.Sprintf("%#x", o&^15))
	}
	if len(p) == 0 {
		return "0"
	}
	return strings.Join(p, "|")
}

func fdflagsString(f uint16) string {
	var p []string
	for i, n := range []string{"APPEND", "DSYNC", "NONBLOCK", "RSYNC", "SYNC"} {
		if f&(1<<i) != 0 {
			p = append(p, n)
		}
	}
	if f>>5 != 0 {
		p = append(p, fmt.Sprintf("%#x", f&^31))
	}
	if len(p) == 0 {
		return "0"
	}
	return strings.Join(p, "|")
}

// rightsClass is what wazero can possibly derive from the rights: only the
// fd_read / fd_write bits are interpreted.
func rightsClass(r uint64) string {
	switch {
	case r&rightFdRead != 0 && r&rightFdWrite != 0:
		return "rw"
	case r&rightFdWrite != 0:
		return "w"
	case r&rightFdRead != 0:
		return "r"
	}
	return "none"
}

func rightsString(r uint64) string {
	switch r {
	case 0:
		return "0"
	case rightFdRead:
		return "fd_read"
	case rightFdWrite:
		return "fd_write"
	case rightFdRead | rightFdWrite:
		return "fd_read|fd_write"
	case ^uint64(0):
		return "all-ones"
	}
	return fmt.Sprintf("%#x", r)
}

// ---------------------------------------------------------------------------
// per-process world

type world struct {
	ctx    context.Context
	root   string // host tree root (contains mnt/ and outside/)
	rwdir  string // host dir of the writable sibling mount (not part of any snapshot)
	mapfs  fstest.MapFS
	rts    map[string]wazero.Runtime
	guests map[string]wazero.CompiledModule
	bin    []byte
	hostOK bool
}

var (
	worldOnce sync.Once
	theWorld  *world
)

func getWorld(base string) *world {
	worldOnce.Do(func() {
		w := &world{ctx: context.Background(), rts: map[string]wazero.Runtime{}, guests: map[string]wazero.CompiledModule{}}
		if base == "" {
			base = os.TempDir()
		}
		os.MkdirAll(base, 0o755)
		w.root = filepath.Join(base, fmt.Sprintf("p%d", os.Getpid()))
		w.rwdir = w.root + "-rw"
		if err := restoreTree(w.root); err != nil {
			panic("c17: cannot build host tree: " + err.Error())
		}
		w.mapfs = newMapFS()
		w.bin = wasiproxy.Build(wasiproxy.Signatures(), 1, 1)
		theWorld = w
	})
	return theWorld
}

func (w *world) guest(engine string) (wazero.Runtime, wazero.CompiledModule) {
	if rt, ok := w.rts[engine]; ok {
		return rt, w.guests[engine]
	}
	cfg := wazero.NewRuntimeConfigInterpreter()
	if engine == "compiler" {
		cfg = wazero.NewRuntimeConfigCompiler()
	}
	rt := wazero.NewRuntimeWithConfig(w.ctx, cfg)
	wasi_snapshot_preview1.MustInstantiate(w.ctx, rt)
	cm, err := rt.CompileModule(w.ctx, w.bin)
	if err != nil {
		panic(err)
	}
	w.rts[engine], w.guests[engine] = rt, cm
	return rt, cm
}

// resetRW recreates the writable sibling directory (the guest may do anything to it).
func (w *world) resetRW() {
	chmodAll(w.rwdir)
	os.RemoveAll(w.rwdir)
	os.MkdirAll(filepath.Join(w.rwdir, "wdir"), 0o755)
	os.WriteFile(filepath.Join(w.rwdir, "w.txt"), []byte("writable\n"), 0o644)
	os.WriteFile(filepath.Join(w.rwdir, "wdir", "inner.txt"), []byte("writable inner\n"), 0o644)
}

// ---------------------------------------------------------------------------
// findings / results returned by a child

type callRec struct {
	Fn    string `json:"fn"`
	Args  string `json:"args"`
	Errno string `json:"errno"`
	Ret   string `json:"ret,omitempty"`
}

type finding struct {
	Sig     string     `json:"sig"`
	Detail  string     `json:"detail"`
	Mount   string     `json:"mount"`
	Engine  string     `json:"engine"`
	Setup   *setupInfo `json:"config_setup"`
	Calls   []callRec  `json:"calls"` // history of the unit up to and including the culprit (last)
	Changes []change   `json:"changes,omitempty"`
}

type result struct {
	Findings  []finding        `json:"findings,omitempty"`
	SigCounts map[string]int64 `json:"sig_counts,omitempty"`
	Counters  map[string]int64 `json:"counters"`
	Combos    []uint16         `json:"combos,omitempty"`   // product: executed (oflags<<5|fdflags)
	Calls     []string         `json:"calls,omitempty"`    // mutators: canonical descriptors of executed calls
	FnErrno   []string         `json:"fn_errno,omitempty"` // distinct fn:errno pairs seen
	Shape     string           `json:"shape,omitempty"`    // seq: digest of the history
	Sample    []callRec        `json:"sample,omitempty"`
	CallErrs  []string         `json:"call_errs,omitempty"`
	Fatal     string           `json:"fatal,omitempty"`
	// hostile sibling derivations applied before instantiation (distinct steps) and one full setup
	SiblingOps  []string   `json:"sibling_ops,omitempty"`
	SetupSample *setupInfo `json:"setup_sample,omitempty"`
}

func (r *result) count(k string, n int64) { r.Counters[k] += n }

// ---------------------------------------------------------------------------
// a guest session: one module instance on one mount

type fdInfo struct {
	Path    string
	Oflags  uint16
	Fdflags uint16
	Rights  uint64
	ViaDir  bool // opened relative to a non-preopen directory fd
	IsDir   bool
}

type sess struct {
	w      *world
	mount  string
	engine string
	mod    api.Module
	mem    api.Memory
	rwFd   int32 // second pre-open (fd 4): the writable sibling mount of mountRORW or the second read-only mount of a "nested" setup; -1 when absent
	setup  *setupInfo
	// sigTag is "after-sibling-override" once the start-of-session probe showed
	// that the instantiated config no longer gives the mount it was built with.
	sigTag string
	// alsoHost: on the MapFS mount, also snapshot the host tree (sibling configs
	// mention host directories; a leak would show there, not in the map).
	alsoHost bool
	fns      map[string]api.Function
	res      *result

	calls   []callRec // history of the current unit
	fds     []int32   // fds returned by path_open and not yet closed by us
	fdinfo  map[int32]*fdInfo
	base    hostSnap
	mbase   mapSnap
	dirty   bool
	fnErrno map[string]struct{}

	lastOpen   *fdInfo // arguments of the path_open being decided
	lastFdInfo *fdInfo // origin of the fd the current fd_* call works on (nil: pre-open or unknown)
}

func newSess(w *world, mount, engine string, setupSeed uint64, res *result) (*sess, error) {
	rt, cm := w.guest(engine)
	mc, si := w.buildConfig(mount, engine, setupSeed)
	mod, err := rt.InstantiateModule(w.ctx, cm, mc)
	if err != nil {
		return nil, fmt.Errorf("%v (setup %v)", err, si.Steps)
	}
	s := &sess{w: w, mount: mount, engine: engine, mod: mod, mem: mod.Memory(), fns: map[string]api.Function{}, res: res,
		fdinfo: map[int32]*fdInfo{}, fnErrno: map[string]struct{}{}, setup: si}
	s.rwFd = si.ExtraFd
	s.alsoHost = mount == mountMapFS && si.Hostile
	s.rebase()
	res.count("instantiations", 1)
	res.count("setup:"+si.Shape, 1)
	if si.Hostile {
		res.count("sessions_with_hostile_siblings", 1)
		res.count("throwaway_instantiations", int64(si.Used))
		if si.AncestorUsedBefore {
			res.count("sessions_ancestor_used_before_derivation", 1)
		}
		if si.UsedBetween {
			res.count("sessions_config_used_between_derivation_and_test", 1)
		}
		if si.ModuleConfigReused {
			res.count("sessions_module_config_derived_from_instantiated_one", 1)
		}
		for _, st := range si.Steps {
			if strings.HasPrefix(st, "_ = ") || strings.HasPrefix(st, "rw") || strings.HasPrefix(st, "sib") || strings.HasPrefix(st, "use(") || strings.HasPrefix(st, "pre") || strings.HasPrefix(st, "mc") {
				res.SiblingOps = append(res.SiblingOps, st)
			}
		}
		if res.SetupSample == nil {
			res.SetupSample = si
		}
		s.probe()
	} else {
		res.count("sessions_without_siblings", 1)
	}
	return s, nil
}

// probe runs at the start of every session whose config has hostile siblings:
// is fd 3 (and the second read-only pre-open) still the mount it was built as?
// Creating a directory must change nothing and the known file must be there.
// If not, everything this session finds is tagged "after-sibling-override".
func (s *sess) probe() {
	s.beginUnit()
	s.sigTag = "after-sibling-override"
	if s.setup.Used > 0 {
		// some ancestor / sibling / the config itself had been instantiated before
		s.sigTag = "after-config-reuse"
	}
	tag := s.sigTag
	before := len(s.res.Findings)
	var total int64
	for _, n := range s.res.SigCounts {
		total += n
	}
	s.path1("path_create_directory", 3, "c17-sibling-probe")
	if s.rwFd >= 0 {
		// the second configured pre-open must exist
		if r, err := s.fn("fd_prestat_get").Call(s.w.ctx, uint64(s.rwFd), offStat); err != nil || len(r) != 1 || r[0] != 0 {
			s.report(s.mount+":"+tag+":preopen-missing",
				fmt.Sprintf("the config instantiated on %s (%s) lacks its second pre-open (fd %d); derivations: %v", s.mount, s.engine, s.rwFd, s.setup.Steps), nil)
		} else if !s.setup.ExtraRW {
			s.path1("path_create_directory", s.rwFd, "c17-sibling-probe")
		}
	}
	if errno, sz, _ := s.pathFilestatGet(3, lookupFollow, knownFile); errno != 0 || sz != uint64(len(knownContent)) {
		s.report(s.mount+":"+tag+":mount-replaced",
			fmt.Sprintf("the config instantiated on %s (%s) does not show the tree it was built with: path_filestat_get(%q) = %s size=%d; derivations: %v",
				s.mount, s.engine, knownFile, s.calls[len(s.calls)-1].Errno, sz, s.setup.Steps), nil)
	}
	var after int64
	for _, n := range s.res.SigCounts {
		after += n
	}
	if after == total && len(s.res.Findings) == before {
		s.sigTag = "" // the mount is what it should be
	} else {
		s.res.count("sessions_compromised_by_siblings", 1)
	}
	s.endUnit()
}

func (s *sess) close() {
	s.mod.Close(s.w.ctx)
	for k := range s.fnErrno {
		s.res.FnErrno = append(s.res.FnErrno, k)
	}
	sort.Strings(s.res.FnErrno)
}

func (s *sess) rebase() {
	if s.mount == mountMapFS {
		s.mbase = snapMap(s.w.mapfs)
	}
	if s.mount != mountMapFS || s.alsoHost {
		s.base = snapHost(s.w.root)
	}
}

// restore puts the host state back to the specification (after a violation).
func (s *sess) restore() {
	if s.mount == mountMapFS {
		for k := range s.w.mapfs {
			delete(s.w.mapfs, k)
		}
		for k, v := range newMapFS() {
			s.w.mapfs[k] = v
		}
	}
	if s.mount != mountMapFS || s.alsoHost {
		if err := restoreTree(s.w.root); err != nil {
			panic("c17: cannot restore host tree: " + err.Error())
		}
	}
	s.res.count("tree_restores", 1)
	s.rebase()
	s.dirty = false
}

// beginUnit starts a new history (a product step, one mutator call, a PRNG sequence).
func (s *sess) beginUnit() { s.calls = s.calls[:0] }

// endUnit closes what the unit opened and repairs the tree when the unit
// modified it.
func (s *sess) endUnit() {
	for len(s.fds) > 0 {
		s.fdClose(s.fds[len(s.fds)-1])
	}
	if s.dirty {
		s.restore()
	}
}

func (s *sess) fn(name string) api.Function {
	f := s.fns[name]
	if f == nil {
		f = s.mod.ExportedFunction(name)
		if f == nil {
			panic("proxy guest lacks " + name)
		}
		s.fns[name] = f
	}
	return f
}

const (
	offRes    = 16   // u32/u64 result cells: 16, 24, 32
	offPath1  = 1024 // ≤ 1000 bytes
	offPath2  = 2048
	offIovW   = 3072 // iovec for writes
	offIovR   = 3080 // iovec for reads
	offData   = 3200 // write payload
	offStat   = 3400 // filestat / fdstat (64 bytes)
	offRead   = 4096 // 4096 bytes read buffer
	offDirent = 8192 // 8192 bytes readdir buffer
)

func (s *sess) putPath(off uint32, p string) (uint64, uint64) {
	s.mem.Write(off, []byte(p))
	return uint64(off), uint64(len(p))
}

func (s *sess) u32(off uint32) uint32 { v, _ := s.mem.ReadUint32Le(off); return v }

// call issues one WASI call as the guest, records it, and decides it: the
// host state after the call must equal the state before it.
func (s *sess) call(fn, desc string, args ...uint64) (errno uint32, ok bool) {
	r, err := s.fn(fn).Call(s.w.ctx, args...)
	rec := callRec{Fn: fn, Args: desc}
	if err != nil || len(r) != 1 {
		rec.Errno = "GO-ERROR"
		if err != nil {
			rec.Ret = err.Error()
		}
		s.calls = append(s.calls, rec)
		s.res.count("calls:"+fn, 1)
		if strings.Contains(rec.Ret, "recovered by wazero") {
			// a host-function panic contained by wazero: the module stays usable and
			// the call is still decided by the snapshot comparison below
			s.res.count("host_panics_recovered:"+fn, 1)
			rec.Ret = core.Trunc(rec.Ret, 160)
			s.calls[len(s.calls)-1].Ret = rec.Ret
		} else {
			s.res.count("call_go_errors", 1)
		}
		if len(s.res.CallErrs) < 2 {
			s.res.CallErrs = append(s.res.CallErrs, fn+"("+desc+"): "+core.Trunc(rec.Ret, 300))
		}
		s.check(&s.calls[len(s.calls)-1])
		return 0, false
	}
	errno = uint32(r[0])
	rec.Errno = wasip1.ErrnoName(errno)
	s.calls = append(s.calls, rec)
	s.res.count("calls:"+fn, 1)
	s.fnErrno[fn+":"+rec.Errno] = struct{}{}
	s.check(&s.calls[len(s.calls)-1])
	return errno, true
}

func (s *sess) setRet(ret string) {
	if n := len(s.calls); n > 0 {
		s.calls[n-1].Ret = ret
	}
}

func (s *sess) check(rec *callRec) {
	s.res.count("snapshots_compared", 1)
	var cs []change
	if s.mount == mountMapFS {
		now := snapMap(s.w.mapfs)
		if cs = diffMap(s.mbase, now); len(cs) > 0 {
			s.mbase = now
		}
	}
	if s.mount != mountMapFS || s.alsoHost {
		now := snapHost(s.w.root)
		if hc := diffHost(s.base, now); len(hc) > 0 {
			s.base = now
			cs = append(cs, hc...)
			sortChanges(cs)
		}
	}
	if len(cs) == 0 {
		return
	}
	// The call is judged against the state just before it; the new state
	// becomes the baseline for the rest of the unit and the tree is repaired
	// at the end of the unit.
	s.dirty = true
	eff := cs[0].Effect
	if rec.Fn == "path_open" && s.lastOpen != nil && s.lastOpen.Oflags&oTrunc != 0 && (eff == "mtime-changed" || eff == "ctime-changed") {
		// O_TRUNC on a file that is already empty (emptied earlier in the same
		// unit): the kernel still truncates, only the timestamps show it.
		if e, ok := cs[0].After.(hostEntry); ok && e.Type == "file" && e.Size == 0 {
			eff = "truncates-file"
		}
	}
	sig := s.sigFor(rec, eff)
	where := ""
	if strings.HasPrefix(cs[0].Path, "outside") {
		where = " [outside the mounted directory, reached through a symlink]"
	}
	s.report(sig, fmt.Sprintf("%s on %s (%s): %s(%s) = %s changed the host: %s%s", eff, s.mount, s.engine, rec.Fn, rec.Args, rec.Errno, describeChanges(cs), where), cs)
}

func (s *sess) report(sig, detail string, cs []change) {
	sig = strings.ReplaceAll(sig, " ", "_")
	if s.res.SigCounts == nil {
		s.res.SigCounts = map[string]int64{}
	}
	s.res.SigCounts[sig]++
	for _, f := range s.res.Findings {
		if f.Sig == sig {
			return
		}
	}
	calls := append([]callRec(nil), s.calls...)
	if len(calls) > 80 {
		calls = calls[len(calls)-80:]
	}
	if len(cs) > 12 {
		cs = cs[:12]
	}
	s.res.Findings = append(s.res.Findings, finding{Sig: sig, Detail: detail, Mount: s.mount, Engine: s.engine, Setup: s.setup, Calls: calls, Changes: cs})
}

// sigFor names the root cause narrowly: mount kind, function, the argument
// class that matters, effect on the host.
func (s *sess) sigFor(rec *callRec, eff string) (sig string) {
	mount := s.mount
	if s.mount == mountRORW {
		mount = mountRO
	}
	if s.sigTag != "" {
		mount += ":" + s.sigTag
	}
	if s.mount == mountRORW {
		if s.rwFd >= 0 && strings.Contains(rec.Args+" ", fmt.Sprintf("fd=%d ", s.rwFd)) {
			defer func() { sig = sig[:len(sig)-len(eff)] + "via-rw-sibling-mount:" + eff }()
		}
	}
	switch {
	case rec.Fn == "path_open":
		var o, f uint16
		var r uint64
		if n := s.lastOpen; n != nil {
			o, f, r = n.Oflags, n.Fdflags, n.Rights
		}
		_ = f
		flag := oflagsString(o)
		if strings.HasPrefix(eff, "creates-") && o&oCreat != 0 {
			flag = "O_CREAT"
		} else if eff == "truncates-file" && o&oTrunc != 0 {
			flag = "O_TRUNC"
		}
		return fmt.Sprintf("%s:path_open:%s:rights=%s:%s", mount, flag, rightsClass(r), eff)
	case strings.HasPrefix(rec.Fn, "fd_"):
		if fi := s.lastFdInfo; fi != nil {
			kind := "file"
			if fi.IsDir {
				kind = "dir"
			}
			return fmt.Sprintf("%s:%s:%s-fd-rights=%s:%s", mount, rec.Fn, kind, rightsClass(fi.Rights), eff)
		}
		return fmt.Sprintf("%s:%s:preopen-or-unknown-fd:%s", mount, rec.Fn, eff)
	}
	return fmt.Sprintf("%s:%s:%s", mount, rec.Fn, eff)
}

// ---------------------------------------------------------------------------
// typed wrappers

func (s *sess) noteFd(fd int32) {
	s.lastFdInfo = s.fdinfo[fd]
}

func (s *sess) pathOpen(dirfd int32, lookup uint32, path string, oflags, fdflags uint16, rights uint64) (uint32, int32, bool) {
	p, l := s.putPath(offPath1, path)
	s.mem.WriteUint32Le(offRes, 0xffffffff)
	info := &fdInfo{Path: path, Oflags: oflags, Fdflags: fdflags, Rights: rights, ViaDir: dirfd != 3}
	s.lastOpen = info
	errno, ok := s.call("path_open", fmt.Sprintf("fd=%d lookupflags=%d path=%q oflags=%s rights=%s fdflags=%s", dirfd, lookup, path, oflagsString(oflags), rightsString(rights), fdflagsString(fdflags)),
		uint64(uint32(dirfd)), uint64(lookup), p, l, uint64(oflags), rights, rights, uint64(fdflags), offRes)
	if !ok || errno != 0 {
		return errno, -1, ok
	}
	fd := int32(s.u32(offRes))
	s.setRet(fmt.Sprintf("fd=%d", fd))
	s.fds = append(s.fds, fd)
	s.fdinfo[fd] = info
	s.res.count("fds_obtained", 1)
	return 0, fd, true
}

func (s *sess) fdClose(fd int32) uint32 {
	s.noteFd(fd)
	errno, ok := s.call("fd_close", fmt.Sprintf("fd=%d", fd), uint64(uint32(fd)))
	if ok && errno == 0 && fd == s.rwFd {
		s.rwFd = -1
	}
	for i, x := range s.fds {
		if x == fd {
			s.fds = append(s.fds[:i], s.fds[i+1:]...)
			break
		}
	}
	delete(s.fdinfo, fd)
	return errno
}

func (s *sess) setIovW(data string) {
	s.mem.Write(offData, []byte(data))
	var iov [8]byte
	binary.LittleEndian.PutUint32(iov[:], offData)
	binary.LittleEndian.PutUint32(iov[4:], uint32(len(data)))
	s.mem.Write(offIovW, iov[:])
}

func (s *sess) fdWrite(fd int32, data string) uint32 {
	s.noteFd(fd)
	s.setIovW(data)
	errno, ok := s.call("fd_write", fmt.Sprintf("fd=%d data=%q", fd, data), uint64(uint32(fd)), offIovW, 1, offRes+8)
	if ok && errno == 0 {
		s.setRet(fmt.Sprintf("nwritten=%d", s.u32(offRes+8)))
	}
	return errno
}

func (s *sess) fdPwrite(fd int32, data string, off uint64) uint32 {
	s.noteFd(fd)
	s.setIovW(data)
	errno, ok := s.call("fd_pwrite", fmt.Sprintf("fd=%d data=%q offset=%d", fd, data, off), uint64(uint32(fd)), offIovW, 1, off, offRes+8)
	if ok && errno == 0 {
		s.setRet(fmt.Sprintf("nwritten=%d", s.u32(offRes+8)))
	}
	return errno
}

func (s *sess) fdSetSize(fd int32, size uint64) uint32 {
	s.noteFd(fd)
	errno, _ := s.call("fd_filestat_set_size", fmt.Sprintf("fd=%d size=%d", fd, size), uint64(uint32(fd)), size)
	return errno
}

func (s *sess) fdSetTimes(fd int32, atim, mtim uint64, flags uint32) uint32 {
	s.noteFd(fd)
	errno, _ := s.call("fd_filestat_set_times", fmt.Sprintf("fd=%d atim=%d mtim=%d fst_flags=%d", fd, atim, mtim, flags), uint64(uint32(fd)), atim, mtim, uint64(flags))
	return errno
}

func (s *sess) fdAllocate(fd int32, off, l uint64) uint32 {
	s.noteFd(fd)
	errno, _ := s.call("fd_allocate", fmt.Sprintf("fd=%d offset=%d len=%d", fd, off, l), uint64(uint32(fd)), off, l)
	return errno
}

func (s *sess) fd1(fn string, fd int32) uint32 {
	s.noteFd(fd)
	errno, ok := s.call(fn, fmt.Sprintf("fd=%d", fd), uint64(uint32(fd)))
	if fn == "fd_close" && ok && errno == 0 && fd == s.rwFd {
		s.rwFd = -1 // the guest closed the writable pre-open; the number may be reused
	}
	return errno
}

func (s *sess) fdSetFlags(fd int32, flags uint16) uint32 {
	s.noteFd(fd)
	errno, _ := s.call("fd_fdstat_set_flags", fmt.Sprintf("fd=%d flags=%s", fd, fdflagsString(flags)), uint64(uint32(fd)), uint64(flags))
	return errno
}

func (s *sess) fdRenumber(fd, to int32) uint32 {
	s.noteFd(fd)
	errno, ok := s.call("fd_renumber", fmt.Sprintf("fd=%d to=%d", fd, to), uint64(uint32(fd)), uint64(uint32(to)))
	if ok && errno == 0 && fd != to {
		if fi, ok := s.fdinfo[fd]; ok {
			delete(s.fdinfo, fd)
			s.fdinfo[to] = fi
		}
		for i, x := range s.fds {
			if x == to { // the target was closed by the renumber
				s.fds = append(s.fds[:i], s.fds[i+1:]...)
				break
			}
		}
		for i, x := range s.fds {
			if x == fd {
				s.fds[i] = to
			}
		}
	}
	return errno
}

// fdFiletype asks the guest-visible file type of an fd (fd_fdstat_get).
func (s *sess) fdFiletype(fd int32) (uint8, uint32) {
	s.noteFd(fd)
	errno, ok := s.call("fd_fdstat_get", fmt.Sprintf("fd=%d", fd), uint64(uint32(fd)), offStat)
	if !ok || errno != 0 {
		return 0, errno
	}
	b, _ := s.mem.ReadByte(offStat)
	s.setRet(fmt.Sprintf("filetype=%d", b))
	return b, 0
}

func (s *sess) fdRead(fd int32, n uint32) (uint32, []byte) {
	s.noteFd(fd)
	var iov [8]byte
	binary.LittleEndian.PutUint32(iov[:], offRead)
	binary.LittleEndian.PutUint32(iov[4:], n)
	s.mem.Write(offIovR, iov[:])
	errno, ok := s.call("fd_read", fmt.Sprintf("fd=%d len=%d", fd, n), uint64(uint32(fd)), offIovR, 1, offRes+8)
	if !ok || errno != 0 {
		return errno, nil
	}
	nr := s.u32(offRes + 8)
	b, _ := s.mem.Read(offRead, nr)
	s.setRet(fmt.Sprintf("nread=%d", nr))
	return 0, append([]byte(nil), b...)
}

func (s *sess) fdPread(fd int32, n uint32, off uint64) uint32 {
	s.noteFd(fd)
	var iov [8]byte
	binary.LittleEndian.PutUint32(iov[:], offRead)
	binary.LittleEndian.PutUint32(iov[4:], n)
	s.mem.Write(offIovR, iov[:])
	errno, _ := s.call("fd_pread", fmt.Sprintf("fd=%d len=%d offset=%d", fd, n, off), uint64(uint32(fd)), offIovR, 1, off, offRes+8)
	return errno
}

func (s *sess) fdSeek(fd int32, off int64, whence uint32) uint32 {
	s.noteFd(fd)
	errno, _ := s.call("fd_seek", fmt.Sprintf("fd=%d offset=%d whence=%d", fd, off, whence), uint64(uint32(fd)), uint64(off), uint64(whence), offRes+16)
	return errno
}

func (s *sess) fdAdvise(fd int32, off, l uint64, adv uint32) uint32 {
	s.noteFd(fd)
	errno, _ := s.call("fd_advise", fmt.Sprintf("fd=%d offset=%d len=%d advice=%d", fd, off, l, adv), uint64(uint32(fd)), off, l, uint64(adv))
	return errno
}

// fdReaddir returns the names listed from cookie 0 with one 8 KiB buffer.
func (s *sess) fdReaddir(fd int32) (uint32, []string) {
	s.noteFd(fd)
	errno, ok := s.call("fd_readdir", fmt.Sprintf("fd=%d buf_len=8192 cookie=0", fd), uint64(uint32(fd)), offDirent, 8192, 0, offRes+8)
	if !ok || errno != 0 {
		return errno, nil
	}
	used := s.u32(offRes + 8)
	buf, _ := s.mem.Read(offDirent, used)
	var names []string
	for len(buf) >= 24 {
		nl := binary.LittleEndian.Uint32(buf[16:])
		if uint32(len(buf)) < 24+nl {
			break
		}
		names = append(names, string(buf[24:24+nl]))
		buf = buf[24+nl:]
	}
	s.setRet(fmt.Sprintf("entries=%d", len(names)))
	return 0, names
}

func (s *sess) fdFilestatGet(fd int32) uint32 {
	s.noteFd(fd)
	errno, _ := s.call("fd_filestat_get", fmt.Sprintf("fd=%d", fd), uint64(uint32(fd)), offStat)
	return errno
}

func (s *sess) path1(fn string, dirfd int32, path string) uint32 {
	p, l := s.putPath(offPath1, path)
	errno, _ := s.call(fn, fmt.Sprintf("fd=%d path=%q", dirfd, path), uint64(uint32(dirfd)), p, l)
	return errno
}

func (s *sess) pathRename(dirfd int32, from string, dirfd2 int32, to string) uint32 {
	p, l := s.putPath(offPath1, from)
	p2, l2 := s.putPath(offPath2, to)
	errno, _ := s.call("path_rename", fmt.Sprintf("fd=%d old_path=%q new_fd=%d new_path=%q", dirfd, from, dirfd2, to), uint64(uint32(dirfd)), p, l, uint64(uint32(dirfd2)), p2, l2)
	return errno
}

func (s *sess) pathLink(dirfd int32, lookup uint32, from string, dirfd2 int32, to string) uint32 {
	p, l := s.putPath(offPath1, from)
	p2, l2 := s.putPath(offPath2, to)
	errno, _ := s.call("path_link", fmt.Sprintf("old_fd=%d old_flags=%d old_path=%q new_fd=%d new_path=%q", dirfd, lookup, from, dirfd2, to), uint64(uint32(dirfd)), uint64(lookup), p, l, uint64(uint32(dirfd2)), p2, l2)
	return errno
}

func (s *sess) pathSymlink(target string, dirfd int32, newPath string) uint32 {
	p, l := s.putPath(offPath1, target)
	p2, l2 := s.putPath(offPath2, newPath)
	errno, _ := s.call("path_symlink", fmt.Sprintf("old_path=%q fd=%d new_path=%q", target, dirfd, newPath), p, l, uint64(uint32(dirfd)), p2, l2)
	return errno
}

func (s *sess) pathSetTimes(dirfd int32, lookup uint32, path string, atim, mtim uint64, flags uint32) uint32 {
	p, l := s.putPath(offPath1, path)
	errno, _ := s.call("path_filestat_set_times", fmt.Sprintf("fd=%d flags=%d path=%q atim=%d mtim=%d fst_flags=%d", dirfd, lookup, path, atim, mtim, flags), uint64(uint32(dirfd)), uint64(lookup), p, l, atim, mtim, uint64(flags))
	return errno
}

func (s *sess) pathFilestatGet(dirfd int32, lookup uint32, path string) (uint32, uint64, uint8) {
	p, l := s.putPath(offPath1, path)
	errno, ok := s.call("path_filestat_get", fmt.Sprintf("fd=%d flags=%d path=%q", dirfd, lookup, path), uint64(uint32(dirfd)), uint64(lookup), p, l, offStat)
	if !ok || errno != 0 {
		return errno, 0, 0
	}
	sz, _ := s.mem.ReadUint64Le(offStat + 32)
	ft, _ := s.mem.ReadByte(offStat + 16)
	s.setRet(fmt.Sprintf("filetype=%d size=%d", ft, sz))
	return 0, sz, ft
}

func (s *sess) pathReadlink(dirfd int32, path string) uint32 {
	p, l := s.putPath(offPath1, path)
	errno, _ := s.call("path_readlink", fmt.Sprintf("fd=%d path=%q", dirfd, path), uint64(uint32(dirfd)), p, l, offRead, 256, offRes+8)
	return errno
}
