// Package c01 decides C01 (compiler and interpreter agree on every valid
// program): differential canonical traces of generated programs (wgen) and of
// the repository's spec/fuzz corpus modules under re-randomised arguments.
package c01

import (
	"context"
	"encoding/hex"
	"encoding/json"
	"fmt"
	"os"
	"strings"

	"github.com/tetratelabs/wazero/api"
	"github.com/tetratelabs/wazero/experimental"
	"github.com/tetratelabs/wazero/verifharness/core"
	"github.com/tetratelabs/wazero/verifharness/guardmem"
	"github.com/tetratelabs/wazero/verifharness/wdis"
	"github.com/tetratelabs/wazero/verifharness/wgen"
	"github.com/tetratelabs/wazero/verifharness/wreduce"
	"github.com/tetratelabs/wazero/verifharness/wrun"
)

var Prop = &core.Prop{ID: "C01", Run: run, Child: child}

type genCase struct {
	Seed  uint64 `json:"seed"`
	Guard bool   `json:"guard,omitempty"`
}

type genResult struct {
	Sig      string         `json:"sig,omitempty"`
	Detail   string         `json:"detail,omitempty"`
	Bin      string         `json:"bin,omitempty"`
	Script   []wrun.Step    `json:"script,omitempty"`
	Inconcl  string         `json:"inconcl,omitempty"`
	Calls    int            `json:"calls"`
	Events   int            `json:"events"`
	Ops      map[string]int `json:"ops"`
	Features string         `json:"features"`
	Traps    map[string]int `json:"traps"`
	Sample   []string       `json:"sample,omitempty"`
	Rejected string         `json:"rejected,omitempty"`
}

func run(c *core.Ctx) int {
	n := c.N(15000, 400000)
	rng := core.NewRng(c.Seed, 1)
	var cases []json.RawMessage
	for i := 0; i < n; i++ {
		cases = append(cases, core.J(genCase{Seed: rng.U64(), Guard: i%10 == 0}))
	}
	res := core.RunCases(c, "gen", cases, core.ChildOpts{Batch: 100, TimeoutS: 900})
	evals := int64(0)
	for _, r := range res {
		if r.Crash != nil {
			if r.Crash.Kind == "timeout" {
				c.Inconclusive("watchdog")
				continue
			}
			c.Violate("crash:"+r.Crash.Kind+":"+crashSig(r.Crash.Detail), r.Crash.Detail,
				map[string]any{"case": cases[r.Index], "crash": r.Crash, "replay": "child mode gen with this case"})
			continue
		}
		var gr genResult
		if json.Unmarshal(r.Out, &gr) != nil {
			c.Inconclusive("bad-child-output")
			continue
		}
		evals++
		c.Count("calls", int64(gr.Calls))
		c.Count("trace_events_compared", int64(gr.Events))
		for k, v := range gr.Ops {
			c.Distinct("opcodes", k)
			c.Count("static_ops", int64(v))
		}
		for k, v := range gr.Traps {
			c.Count("outcome_"+k, int64(v))
		}
		c.Count("features_"+gr.Features, 1)
		if gr.Inconcl != "" {
			c.Inconclusive(gr.Inconcl)
		}
		if gr.Rejected != "" {
			c.Violate("generated-module-rejected:"+crashSig(gr.Rejected), gr.Rejected, map[string]any{"case": cases[r.Index], "bin": gr.Bin})
		}
		if gr.Sig != "" {
			c.Violate(gr.Sig, gr.Detail, map[string]any{"case": cases[r.Index], "bin_hex": gr.Bin, "script": gr.Script})
		}
		if gr.Calls > 0 && gr.Sig == "" {
			c.Distinct("programs", fmt.Sprint(r.Index))
		}
		if len(gr.Sample) > 0 && r.Index%1500 == 0 {
			c.Sample(map[string]any{"case": cases[r.Index], "bin_hex_prefix": core.Trunc(gr.Bin, 160), "trace_head": gr.Sample})
		}
	}
	c.Assume("NaN bits canonicalised by the generator after every NaN-open instruction; termination by fuel identical on both engines")
	c.Assume("call-stack exhaustion on either engine makes the rest of that script inconclusive (permitted divergence)")
	return c.Finish(evals, int64(c.DistinctN("programs")),
		"wgen programs (1-10 functions, all enabled features by PRNG) x PRNG call scripts (3-10 steps incl. host-side memory/global writes and grows) run on interpreter and compiler; canonical traces (results, error class, host-call log, memory/global/table digest after every step) compared event by event; non-trivial = program executed >=1 call and traces were compared")
}

func crashSig(s string) string {
	s = strings.ReplaceAll(s, "\n", " ")
	f := strings.Fields(s)
	var out []string
	for _, w := range f {
		if strings.HasPrefix(w, "0x") || strings.HasPrefix(w, "addr=") {
			continue
		}
		out = append(out, w)
		if len(out) >= 6 {
			break
		}
	}
	return strings.Join(out, "_")
}

func featureString(cfg wgen.Config) string {
	s := "v2"
	if cfg.SIMD {
		s += "+simd"
	}
	if cfg.Threads {
		s += "+threads"
	}
	if cfg.TailCall {
		s += "+tail"
	}
	return s
}

func child(mode string, in json.RawMessage) any {
	var gc genCase
	json.Unmarshal(in, &gc)
	r := core.NewRng(int64(gc.Seed), 7)
	cfg := wgen.DefaultConfig(r)
	p := wgen.Generate(r, cfg)
	script := wrun.GenScript(r, p, 3+r.Intn(8))
	if os.Getenv("C01_DUMP") != "" {
		os.WriteFile(os.Getenv("C01_DUMP"), p.Bin, 0o644)
	}
	ctx := context.Background()
	var ga *guardmem.Allocator
	if gc.Guard {
		ga = guardmem.New()
		ctx = experimental.WithMemoryAllocator(ctx, ga)
	}
	ti := wrun.Run(p, script, wrun.Options{Compiler: false, Ctx: ctx})
	tc := wrun.Run(p, script, wrun.Options{Compiler: true, Ctx: ctx})
	if ga != nil {
		ga.FreeAll()
	}
	gr := genResult{Ops: p.OpsUsed, Features: featureString(cfg), Traps: map[string]int{}}
	if ti.CompileErr != "" || tc.CompileErr != "" {
		gr.Rejected = "interp: " + ti.CompileErr + " | compiler: " + tc.CompileErr
		gr.Bin = hex.EncodeToString(p.Bin)
		return gr
	}
	for _, e := range ti.Events {
		if strings.HasPrefix(e, "call ") {
			gr.Calls++
			if i := strings.Index(e, "-> "); i > 0 {
				out := e[i+3:]
				if strings.HasPrefix(out, "[") {
					gr.Traps["ok"]++
				} else {
					gr.Traps[strings.ReplaceAll(out, " ", "_")]++
				}
			}
		}
	}
	if ti.Internal != "" || tc.Internal != "" {
		gr.Sig = "internal-failure:" + crashSig(ti.Internal+tc.Internal)
		gr.Detail = "interp: " + ti.Internal + "\ncompiler: " + tc.Internal
	} else if ti.StackOverflow || tc.StackOverflow {
		gr.Inconcl = "stack-exhaustion"
	} else if idx, d := wrun.Diff(ti, tc); idx >= 0 {
		gr.Sig = "engines-differ:" + diffKind(ti, tc, idx)
		gr.Detail = d + "\ncontext:\n" + strings.Join(ctxLines(ti, idx), "\n")
	}
	gr.Events = len(ti.Events)
	if gr.Sig != "" {
		gr.Bin = hex.EncodeToString(p.Bin)
		gr.Script = script
	} else {
		gr.Bin = hex.EncodeToString(p.Bin[:min(len(p.Bin), 80)])
		gr.Sample = ti.Events[:min(len(ti.Events), 6)]
	}
	return gr
}

func ctxLines(t *wrun.Trace, idx int) []string {
	lo := idx - 4
	if lo < 0 {
		lo = 0
	}
	hi := idx + 1
	if hi > len(t.Events) {
		hi = len(t.Events)
	}
	return t.Events[lo:hi]
}

// diffKind classifies the first differing event for the signature.
func diffKind(a, b *wrun.Trace, idx int) string {
	get := func(t *wrun.Trace) string {
		if idx < len(t.Events) {
			return t.Events[idx]
		}
		return "<end>"
	}
	ea, eb := get(a), get(b)
	kind := func(e string) string {
		switch {
		case strings.HasPrefix(e, "  state:"):
			return "state"
		case strings.HasPrefix(e, "  hcb: nested"):
			if i := strings.Index(e, "-> "); i > 0 {
				o := e[i+3:]
				if strings.HasPrefix(o, "[") {
					return "result"
				}
				return strings.ReplaceAll(o, " ", "_")
			}
		case strings.HasPrefix(e, "  host"), strings.HasPrefix(e, "  hcb"):
			return "hostlog"
		case strings.HasPrefix(e, "call "):
			if i := strings.Index(e, "-> "); i > 0 {
				o := e[i+3:]
				if strings.HasPrefix(o, "[") {
					return "result"
				}
				return strings.ReplaceAll(o, " ", "_")
			}
		case strings.HasPrefix(e, "instantiate"):
			// a trap in the start function is the same kind of outcome as a trap in a called export
			if o := strings.TrimPrefix(e, "instantiate: "); strings.HasPrefix(o, "trap:") {
				return strings.ReplaceAll(o, " ", "_")
			}
			return strings.ReplaceAll(e, " ", "_")
		}
		return "other"
	}
	ka, kb := kind(ea), kind(eb)
	if ka == kb {
		if ka == "state" {
			// which part of the state?
			pa, pb := strings.Split(ea, " "), strings.Split(eb, " ")
			for i := range pa {
				if i < len(pb) && pa[i] != pb[i] {
					if j := strings.IndexByte(pa[i], '='); j > 0 {
						return "state:" + pa[i][:j]
					}
				}
			}
		}
		return ka
	}
	return "interp=" + ka + ",compiler=" + kb
}

func init() { Prop.Replay = replay }

// replay re-runs the case recorded in a witness file and prints both traces.
func replay(c *core.Ctx, path string) int {
	b, err := os.ReadFile(path)
	if err != nil {
		fmt.Println(err)
		return 2
	}
	var w struct {
		Witness struct {
			Case genCase `json:"case"`
		} `json:"witness"`
	}
	json.Unmarshal(b, &w)
	gc := w.Witness.Case
	r := core.NewRng(int64(gc.Seed), 7)
	cfg := wgen.DefaultConfig(r)
	p := wgen.Generate(r, cfg)
	script := wrun.GenScript(r, p, 3+r.Intn(8))
	os.WriteFile(path+".wasm", p.Bin, 0o644)
	var mi, mc [][]byte
	ti := wrun.Run(p, script, wrun.Options{Compiler: false, OnStep: func(i int, mod api.Module) {
		b, _ := mod.Memory().Read(0, mod.Memory().Size())
		mi = append(mi, append([]byte(nil), b...))
	}})
	tc := wrun.Run(p, script, wrun.Options{Compiler: true, OnStep: func(i int, mod api.Module) {
		b, _ := mod.Memory().Read(0, mod.Memory().Size())
		mc = append(mc, append([]byte(nil), b...))
	}})
	for i := range mi {
		if i < len(mc) && string(mi[i]) != string(mc[i]) {
			n := 0
			for j := range mi[i] {
				if j < len(mc[i]) && mi[i][j] != mc[i][j] {
					if n < 24 {
						fmt.Printf("step %d mem[%#x]: interp=%02x compiler=%02x\n", i, j, mi[i][j], mc[i][j])
					}
					n++
				}
			}
			fmt.Printf("step %d (%s): %d differing bytes\n", i, script[i], n)
			break
		}
	}
	fmt.Printf("cfg: %+v\nwasm written to %s.wasm\n", cfg, path)
	idx, d := wrun.Diff(ti, tc)
	for i, e := range ti.Events {
		mark := " "
		if i == idx {
			mark = ">"
		}
		fmt.Println(mark, e)
	}
	if idx >= 0 {
		fmt.Println("DIFF:", d)
		if os.Getenv("C01_REDUCE") != "" {
			kind := diffKind(ti, tc, idx)
			script = wreduce.Reduce(p, script, func(p *wgen.Program, sc []wrun.Step) bool {
				a := wrun.Run(p, sc, wrun.Options{Compiler: false})
				b := wrun.Run(p, sc, wrun.Options{Compiler: true})
				if a.CompileErr != "" || b.CompileErr != "" || a.StackOverflow || b.StackOverflow {
					return false
				}
				i, _ := wrun.Diff(a, b)
				return i >= 0 && diffKind(a, b, i) == kind
			}, 20000)
			os.WriteFile(path+".min.wasm", p.Bin, 0o644)
			fmt.Println("REDUCED (kind", kind, ") script:", script)
			fmt.Print(wdis.Module(p.Bin))
			a := wrun.Run(p, script, wrun.Options{Compiler: false})
			b := wrun.Run(p, script, wrun.Options{Compiler: true})
			_, d := wrun.Diff(a, b)
			fmt.Println("DIFF:", d)
		}
		return 1
	}
	return 0
}
