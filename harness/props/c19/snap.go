package c19

import (
	"fmt"
	"reflect"
	"sort"
	"strings"
	"unsafe"
)

// followTypes are the configuration value types whose content is compared
// field by field; every other pointer/interface/func is recorded by identity
// only (stdio buffers, fs.FS values, clocks, the compilation cache … are
// legitimately mutable objects the configuration merely refers to).
var followTypes = map[string]bool{
	"github.com/tetratelabs/wazero.moduleConfig":                         true,
	"github.com/tetratelabs/wazero.fsConfig":                             true,
	"github.com/tetratelabs/wazero.runtimeConfig":                        true,
	"github.com/tetratelabs/wazero/experimental/sock.internalSockConfig": true,
	"github.com/tetratelabs/wazero/internal/sock.Config":                 true,
	"github.com/tetratelabs/wazero/internal/sock.TCPAddress":             true,
}

func typeKey(t reflect.Type) string { return t.PkgPath() + "." + t.Name() }

// Snapshot returns a canonical deep dump of a configuration value (read-only;
// unexported fields are read through unsafe).
func Snapshot(v any) string {
	var sb strings.Builder
	rv := reflect.ValueOf(v)
	snap(rv, &sb, 0)
	return sb.String()
}

func rw(v reflect.Value) reflect.Value {
	if v.CanInterface() || !v.CanAddr() {
		return v
	}
	return reflect.NewAt(v.Type(), unsafe.Pointer(v.UnsafeAddr())).Elem()
}

func snap(v reflect.Value, sb *strings.Builder, depth int) {
	if depth > 12 {
		sb.WriteString("<deep>")
		return
	}
	if !v.IsValid() {
		sb.WriteString("<invalid>")
		return
	}
	v = rw(v)
	switch v.Kind() {
	case reflect.Interface:
		if v.IsNil() {
			sb.WriteString("nil")
			return
		}
		e := v.Elem()
		if e.Kind() == reflect.Ptr && !e.IsNil() && followTypes[typeKey(e.Type().Elem())] {
			snap(e, sb, depth+1)
			return
		}
		if e.Kind() == reflect.Ptr || e.Kind() == reflect.Func || e.Kind() == reflect.Map || e.Kind() == reflect.Chan {
			fmt.Fprintf(sb, "%s@%x", e.Type(), e.Pointer())
			return
		}
		if followTypes[typeKey(e.Type())] {
			// copy to an addressable location to read unexported fields
			nv := reflect.New(e.Type()).Elem()
			nv.Set(e)
			snap(nv, sb, depth+1)
			return
		}
		fmt.Fprintf(sb, "%s(%v)", e.Type(), e)
	case reflect.Ptr:
		if v.IsNil() {
			sb.WriteString("nil")
			return
		}
		if followTypes[typeKey(v.Type().Elem())] {
			sb.WriteString("&")
			snap(v.Elem(), sb, depth+1)
			return
		}
		fmt.Fprintf(sb, "%s@%x", v.Type(), v.Pointer())
	case reflect.Struct:
		sb.WriteString(v.Type().Name() + "{")
		for i := 0; i < v.NumField(); i++ {
			sb.WriteString(v.Type().Field(i).Name + ":")
			snap(v.Field(i), sb, depth+1)
			sb.WriteString(";")
		}
		sb.WriteString("}")
	case reflect.Slice:
		if v.IsNil() {
			sb.WriteString("nil[]")
			return
		}
		if v.Type().Elem().Kind() == reflect.Uint8 {
			fmt.Fprintf(sb, "%q", v.Bytes())
			return
		}
		fmt.Fprintf(sb, "[%d:", v.Len())
		for i := 0; i < v.Len(); i++ {
			snap(v.Index(i), sb, depth+1)
			sb.WriteString(",")
		}
		sb.WriteString("]")
	case reflect.Map:
		if v.IsNil() {
			sb.WriteString("nilmap")
			return
		}
		var items []string
		it := v.MapRange()
		for it.Next() {
			var kb, vb strings.Builder
			snapCopy(it.Key(), &kb, depth+1)
			snapCopy(it.Value(), &vb, depth+1)
			items = append(items, kb.String()+"=>"+vb.String())
		}
		sort.Strings(items)
		sb.WriteString("map{" + strings.Join(items, ",") + "}")
	case reflect.Func:
		if v.IsNil() {
			sb.WriteString("nilfunc")
			return
		}
		fmt.Fprintf(sb, "func@%x", v.Pointer())
	case reflect.String:
		fmt.Fprintf(sb, "%q", v.String())
	case reflect.Bool:
		fmt.Fprintf(sb, "%v", v.Bool())
	case reflect.Int, reflect.Int8, reflect.Int16, reflect.Int32, reflect.Int64:
		fmt.Fprintf(sb, "%d", v.Int())
	case reflect.Uint, reflect.Uint8, reflect.Uint16, reflect.Uint32, reflect.Uint64, reflect.Uintptr:
		fmt.Fprintf(sb, "%d", v.Uint())
	case reflect.Float32, reflect.Float64:
		fmt.Fprintf(sb, "%v", v.Float())
	case reflect.Chan, reflect.UnsafePointer:
		fmt.Fprintf(sb, "%s@%x", v.Type(), v.Pointer())
	default:
		fmt.Fprintf(sb, "<%s>", v.Kind())
	}
}

// snapCopy snapshots a non-addressable value (map keys/values).
func snapCopy(v reflect.Value, sb *strings.Builder, depth int) {
	nv := reflect.New(v.Type()).Elem()
	if v.CanInterface() {
		nv.Set(v)
		snap(nv, sb, depth)
		return
	}
	// values obtained through unexported fields: handle the simple kinds
	switch v.Kind() {
	case reflect.String:
		fmt.Fprintf(sb, "%q", v.String())
	case reflect.Int, reflect.Int8, reflect.Int16, reflect.Int32, reflect.Int64:
		fmt.Fprintf(sb, "%d", v.Int())
	case reflect.Uint, reflect.Uint8, reflect.Uint16, reflect.Uint32, reflect.Uint64:
		fmt.Fprintf(sb, "%d", v.Uint())
	case reflect.Bool:
		fmt.Fprintf(sb, "%v", v.Bool())
	default:
		fmt.Fprintf(sb, "<%s>", v.Kind())
	}
}
