// Package c19 decides C19 (configuration values are immutable) by running
// PRNG derivation trees of ModuleConfig / FSConfig / RuntimeConfig values and
// checking every node, after every later derivation and instantiation, against
// (1) its own deep snapshot taken at creation, (2) the observation of a fresh
// linear replay of its derivation path (no siblings), and (3) a functional
// model for args/env; plus a concurrent variant under the race detector.
package c19

import (
	"bytes"
	"context"
	"encoding/binary"
	"encoding/json"
	"fmt"
	"io"
	"os"
	"path/filepath"
	"strings"
	"sync"
	"testing/fstest"
	"time"

	"github.com/tetratelabs/wazero"
	"github.com/tetratelabs/wazero/api"
	"github.com/tetratelabs/wazero/experimental/sock"
	"github.com/tetratelabs/wazero/imports/wasi_snapshot_preview1"
	"github.com/tetratelabs/wazero/sys"
	"github.com/tetratelabs/wazero/verifharness/core"
	"github.com/tetratelabs/wazero/verifharness/wasiproxy"
	"github.com/tetratelabs/wazero/verifharness/wenc"
)

var Prop = &core.Prop{ID: "C19", Run: run, Child: child}

type treeCase struct {
	Seed  uint64 `json:"seed"`
	Nodes int    `json:"nodes"`
}

type finding struct {
	Sig    string   `json:"sig"`
	Detail string   `json:"detail"`
	Ops    []string `json:"ops"`
}

type treeResult struct {
	Findings   []finding      `json:"findings"`
	Nodes      int            `json:"nodes"`
	Rechecks   int            `json:"rechecks"`
	Insts      int            `json:"insts"`
	Ops        map[string]int `json:"ops"`
	Shape      string         `json:"shape"`
	SampleOps  []string       `json:"sample_ops"`
	Goroutines int            `json:"goroutines,omitempty"`
}

func run(c *core.Ctx) int {
	nTrees := c.N(6000, 120000)
	nRace := c.N(500, 10000)
	rng := core.NewRng(c.Seed, 19)
	var cases []json.RawMessage
	for i := 0; i < nTrees; i++ {
		cases = append(cases, core.J(treeCase{Seed: rng.U64(), Nodes: 5 + rng.Intn(36)}))
	}
	res := core.RunCases(c, "tree", cases, core.ChildOpts{Batch: 50, TimeoutS: 600})
	c.Extra("phase_tree_s", time.Since(c.Start).Seconds())
	var raceCases []json.RawMessage
	for i := 0; i < nRace; i++ {
		raceCases = append(raceCases, core.J(treeCase{Seed: rng.U64(), Nodes: 6 + rng.Intn(10)}))
	}
	raceBin := os.Getenv("VCHECK_RACE_BIN")
	var raceRes []core.CaseResult
	if raceBin != "" {
		raceRes = core.RunCases(c, "conc", raceCases, core.ChildOpts{Bin: raceBin, Batch: 25, TimeoutS: 900, Procs: 4,
			Env: []string{"GORACE=halt_on_error=0 exitcode=0"}})
	} else {
		c.Inconclusive("race-binary-missing")
	}
	evals := int64(0)
	handle := func(cases []json.RawMessage, rs []core.CaseResult, mode string) {
		for _, r := range rs {
			if r.Crash != nil {
				if r.Crash.Kind == "race" {
					logb, _ := os.ReadFile(r.Crash.Log)
					for key, rep := range core.RaceReports(logb) {
						c.Violate("race:"+raceSig(key), rep, map[string]any{"case": cases[r.Index], "mode": mode, "report": rep})
					}
					c.Count("race_reports", 1)
				}
				if r.Crash.Kind == "timeout" {
					c.Inconclusive("watchdog")
					continue
				}
				if r.Crash.Kind != "race" {
					c.Violate("crash:"+mode+":"+r.Crash.Kind+":"+firstWords(r.Crash.Detail), r.Crash.Detail, map[string]any{"case": cases[r.Index], "crash": r.Crash})
					continue
				}
			}
			var tr treeResult
			if err := json.Unmarshal(r.Out, &tr); err != nil {
				c.Inconclusive("bad-child-output")
				continue
			}
			evals++
			c.Count("nodes", int64(tr.Nodes))
			c.Count("rechecks", int64(tr.Rechecks))
			c.Count("instantiations", int64(tr.Insts))
			c.Count("trees_"+mode, 1)
			for k, n := range tr.Ops {
				c.Count("op_"+k, int64(n))
				c.Distinct("ops", k)
			}
			if tr.Nodes >= 5 {
				c.Distinct("tree_shapes", tr.Shape)
			}
			if len(tr.SampleOps) > 0 && r.Index%97 == 0 {
				c.Sample(map[string]any{"mode": mode, "seed_case": json.RawMessage(cases[r.Index]), "derivations": tr.SampleOps})
			}
			for _, f := range tr.Findings {
				c.Violate(f.Sig, f.Detail, map[string]any{"case": json.RawMessage(cases[r.Index]), "mode": mode, "finding": f})
			}
		}
	}
	handle(cases, res, "tree")
	handle(raceCases, raceRes, "conc")
	c.Assume("identity-only comparison for objects a configuration merely refers to (stdio, fs.FS, clocks, cache)")
	c.Assume("observation through a WASI pass-through guest: args, environ, preopens(+marker files), module name, start functions, stdio identity, clocks, random source")
	return c.Finish(evals, int64(c.DistinctN("tree_shapes")),
		"PRNG derivation trees (5-40 nodes) over every With… method of ModuleConfig/FSConfig/RuntimeConfig/sock.Config; every node re-checked (deep snapshot + guest observation vs fresh linear replay + functional model) after every derivation and after instantiations; a tree is non-trivial if it has >=5 nodes; distinct = distinct branching shapes+op sequences")
}

func raceSig(key string) string {
	// keep only function names of the two sides
	key = strings.ReplaceAll(key, "github.com/tetratelabs/wazero", "wazero")
	return key
}

func firstWords(s string) string {
	f := strings.Fields(s)
	if len(f) > 6 {
		f = f[:6]
	}
	return strings.Join(f, "_")
}

// ---------------------------------------------------------------------------
// child side

type env struct {
	ctx   context.Context
	rt    wazero.Runtime
	guest wazero.CompiledModule
	named wazero.CompiledModule // same guest with a name section (module name "fromsection")
	// partial exports only s1 and s3: instantiating it with a config whose start-function list names
	// functions it lacks makes the runtime skip entries of that list
	partial wazero.CompiledModule
	dirs  []string // host dirs with marker files
	mapfs []fstest.MapFS
	bufs  []*bytes.Buffer
	tmp   string
	insts int
}

var (
	envOnce sync.Once
	genv    *env
	sigs    []wasiproxy.Sig
)

const nDirs, nMapFS, nBufs = 4, 3, 4

func getEnv() *env {
	envOnce.Do(func() {
		ctx := context.Background()
		e := &env{ctx: ctx}
		e.rt = wazero.NewRuntimeWithConfig(ctx, wazero.NewRuntimeConfigInterpreter())
		wasi_snapshot_preview1.MustInstantiate(ctx, e.rt)
		sigs = wasiproxy.Signatures()
		m := wasiproxy.BuildModule(sigs, 1, 1)
		for i, n := range []string{"_start", "s0", "s1", "s2", "s3"} {
			cc := &wenc.Code{}
			cc.I32Const(int32(60000+i)).I32Const(1).Mem(0x3a, 0, 0).End() // i32.store8
			m.ExportFunc(n, m.AddFunc(nil, nil, nil, cc.B))
		}
		var err error
		e.guest, err = e.rt.CompileModule(ctx, m.Encode())
		if err != nil {
			panic(err)
		}
		// name section: subsection 0 (module name) = "fromsection"
		nm := []byte("fromsection")
		sub := append([]byte{0, byte(len(nm) + 1), byte(len(nm))}, nm...)
		m.Customs = append(m.Customs, wenc.Custom{Name: "name", Data: sub})
		e.named, err = e.rt.CompileModule(ctx, m.Encode())
		if err != nil {
			panic(err)
		}
		pm := &wenc.Module{}
		pm.Mems = []wenc.Limits{{Min: 1, Max: 1, HasMax: true}}
		for _, n := range []string{"s1", "s3"} {
			pm.ExportFunc(n, pm.AddFunc(nil, nil, nil, (&wenc.Code{}).End().B))
		}
		e.partial, err = e.rt.CompileModule(ctx, pm.Encode())
		if err != nil {
			panic(err)
		}
		e.tmp, _ = os.MkdirTemp("", "c19-")
		for i := 0; i < nDirs; i++ {
			d := filepath.Join(e.tmp, fmt.Sprintf("d%d", i))
			os.MkdirAll(d, 0o755)
			os.WriteFile(filepath.Join(d, fmt.Sprintf("marker-d%d", i)), []byte("x"), 0o644)
			e.dirs = append(e.dirs, d)
		}
		for i := 0; i < nMapFS; i++ {
			e.mapfs = append(e.mapfs, fstest.MapFS{fmt.Sprintf("marker-m%d", i): &fstest.MapFile{Data: []byte("y")}})
		}
		for i := 0; i < nBufs; i++ {
			e.bufs = append(e.bufs, &bytes.Buffer{})
		}
		genv = e
	})
	return genv
}

type constReader byte

func (r constReader) Read(p []byte) (int, error) {
	for i := range p {
		p[i] = byte(r)
	}
	return len(p), nil
}

// op is one derivation step, replayable on a fresh chain.
type op struct {
	Kind string // M | F | R | S
	Name string
	Desc string
	// apply on the parent value (args already bound); fsRef/sockRef are node
	// indexes resolved through get().
	apply func(parent any, get func(int) any) any
	ref   int // referenced node (FSConfig / sock), -1 none
}

type node struct {
	kind   string
	parent int
	op     *op
	val    any
	snap   string
	obs    string // observation at creation
}

var (
	walltimes  [3]sys.Walltime
	nanotimes  [3]sys.Nanotime
	nanosleeps [2]sys.Nanosleep
	osyields   [2]sys.Osyield
)

func init() {
	for i := range walltimes {
		i := i
		walltimes[i] = func() (int64, int32) { return int64(1000 + i), int32(i) }
		nanotimes[i] = func() int64 { return int64(5000 + i) }
	}
	for i := range nanosleeps {
		nanosleeps[i] = func(int64) {}
		osyields[i] = func() {}
	}
}

func genOp(r *core.Rng, kind string, nodes []*node, serial int) *op {
	e := getEnv()
	o := &op{Kind: kind, ref: -1}
	pickKind := func(k string) int {
		var idx []int
		for i, n := range nodes {
			if n.kind == k {
				idx = append(idx, i)
			}
		}
		if len(idx) == 0 {
			return -1
		}
		return idx[r.Intn(len(idx))]
	}
	switch kind {
	case "M":
		switch r.Intn(20) {
		case 0, 1:
			n := r.Intn(4)
			args := make([]string, n)
			for i := range args {
				args[i] = fmt.Sprintf("a%d_%d", serial, i)
			}
			o.Name, o.Desc = "WithArgs", fmt.Sprintf("WithArgs(%v)", args)
			o.apply = func(p any, _ func(int) any) any { return p.(wazero.ModuleConfig).WithArgs(args...) }
		case 2, 3, 4, 5, 6, 7:
			k := fmt.Sprintf("K%d", r.Intn(6))
			v := fmt.Sprintf("v%d", serial)
			o.Name, o.Desc = "WithEnv", fmt.Sprintf("WithEnv(%s,%s)", k, v)
			o.apply = func(p any, _ func(int) any) any { return p.(wazero.ModuleConfig).WithEnv(k, v) }
		case 8:
			nm := []string{"", "m1", "m2", "m3"}[r.Intn(4)]
			o.Name, o.Desc = "WithName", fmt.Sprintf("WithName(%q)", nm)
			o.apply = func(p any, _ func(int) any) any { return p.(wazero.ModuleConfig).WithName(nm) }
		case 9:
			var fs []string
			for i := 0; i < 4; i++ {
				if r.Bool() {
					fs = append(fs, fmt.Sprintf("s%d", i))
				}
			}
			if r.Chance(1, 4) {
				fs = append(fs, "_start")
			}
			o.Name, o.Desc = "WithStartFunctions", fmt.Sprintf("WithStartFunctions(%v)", fs)
			o.apply = func(p any, _ func(int) any) any { return p.(wazero.ModuleConfig).WithStartFunctions(fs...) }
		case 10, 11:
			ref := pickKind("F")
			o.ref = ref
			o.Name, o.Desc = "WithFSConfig", fmt.Sprintf("WithFSConfig(node%d)", ref)
			o.apply = func(p any, get func(int) any) any {
				if ref < 0 {
					return p.(wazero.ModuleConfig).WithFSConfig(nil)
				}
				return p.(wazero.ModuleConfig).WithFSConfig(get(ref).(wazero.FSConfig))
			}
		case 12:
			i := r.Intn(nMapFS + 1)
			o.Name, o.Desc = "WithFS", fmt.Sprintf("WithFS(mapfs%d)", i)
			o.apply = func(p any, _ func(int) any) any {
				if i == nMapFS {
					return p.(wazero.ModuleConfig).WithFS(nil)
				}
				return p.(wazero.ModuleConfig).WithFS(e.mapfs[i])
			}
		case 13:
			i := r.Intn(nBufs)
			which := r.Intn(2)
			if which == 0 {
				o.Name, o.Desc = "WithStdout", fmt.Sprintf("WithStdout(buf%d)", i)
				o.apply = func(p any, _ func(int) any) any { return p.(wazero.ModuleConfig).WithStdout(e.bufs[i]) }
			} else {
				o.Name, o.Desc = "WithStderr", fmt.Sprintf("WithStderr(buf%d)", i)
				o.apply = func(p any, _ func(int) any) any { return p.(wazero.ModuleConfig).WithStderr(e.bufs[i]) }
			}
		case 14:
			s := fmt.Sprintf("in%d", serial)
			o.Name, o.Desc = "WithStdin", fmt.Sprintf("WithStdin(%q)", s)
			o.apply = func(p any, _ func(int) any) any {
				return p.(wazero.ModuleConfig).WithStdin(strings.NewReader(s))
			}
		case 15:
			i := r.Intn(len(walltimes) + 1)
			if i == len(walltimes) {
				o.Name, o.Desc = "WithSysWalltime", "WithSysWalltime()"
				o.apply = func(p any, _ func(int) any) any { return p.(wazero.ModuleConfig).WithSysWalltime() }
			} else {
				o.Name, o.Desc = "WithWalltime", fmt.Sprintf("WithWalltime(w%d)", i)
				o.apply = func(p any, _ func(int) any) any {
					return p.(wazero.ModuleConfig).WithWalltime(walltimes[i], sys.ClockResolution(1+i))
				}
			}
		case 16:
			i := r.Intn(len(nanotimes) + 1)
			if i == len(nanotimes) {
				o.Name, o.Desc = "WithSysNanotime", "WithSysNanotime()"
				o.apply = func(p any, _ func(int) any) any { return p.(wazero.ModuleConfig).WithSysNanotime() }
			} else {
				o.Name, o.Desc = "WithNanotime", fmt.Sprintf("WithNanotime(n%d)", i)
				o.apply = func(p any, _ func(int) any) any {
					return p.(wazero.ModuleConfig).WithNanotime(nanotimes[i], sys.ClockResolution(1+i))
				}
			}
		case 17:
			i := r.Intn(3)
			switch i {
			case 2:
				o.Name, o.Desc = "WithSysNanosleep", "WithSysNanosleep()"
				o.apply = func(p any, _ func(int) any) any { return p.(wazero.ModuleConfig).WithSysNanosleep() }
			default:
				o.Name, o.Desc = "WithNanosleep", fmt.Sprintf("WithNanosleep(ns%d)", i)
				o.apply = func(p any, _ func(int) any) any { return p.(wazero.ModuleConfig).WithNanosleep(nanosleeps[i]) }
			}
		case 18:
			i := r.Intn(2)
			o.Name, o.Desc = "WithOsyield", fmt.Sprintf("WithOsyield(y%d)", i)
			o.apply = func(p any, _ func(int) any) any { return p.(wazero.ModuleConfig).WithOsyield(osyields[i]) }
		default:
			b := byte(0x41 + r.Intn(20))
			o.Name, o.Desc = "WithRandSource", fmt.Sprintf("WithRandSource(const %#x)", b)
			o.apply = func(p any, _ func(int) any) any { return p.(wazero.ModuleConfig).WithRandSource(constReader(b)) }
		}
	case "F":
		gp := []string{"/", "", "/a", "a", "/a/", "/b", "./b", "/c/d", "."}[r.Intn(9)]
		switch r.Intn(3) {
		case 0:
			d := r.Intn(nDirs)
			o.Name, o.Desc = "WithDirMount", fmt.Sprintf("WithDirMount(d%d,%q)", d, gp)
			o.apply = func(p any, _ func(int) any) any { return p.(wazero.FSConfig).WithDirMount(e.dirs[d], gp) }
		case 1:
			d := r.Intn(nDirs)
			o.Name, o.Desc = "WithReadOnlyDirMount", fmt.Sprintf("WithReadOnlyDirMount(d%d,%q)", d, gp)
			o.apply = func(p any, _ func(int) any) any { return p.(wazero.FSConfig).WithReadOnlyDirMount(e.dirs[d], gp) }
		default:
			i := r.Intn(nMapFS)
			o.Name, o.Desc = "WithFSMount", fmt.Sprintf("WithFSMount(mapfs%d,%q)", i, gp)
			o.apply = func(p any, _ func(int) any) any { return p.(wazero.FSConfig).WithFSMount(e.mapfs[i], gp) }
		}
	case "R":
		switch r.Intn(7) {
		case 0:
			fs := []api.CoreFeatures{api.CoreFeaturesV1, api.CoreFeaturesV2, api.CoreFeaturesV1 | api.CoreFeatureSignExtensionOps,
				api.CoreFeaturesV1 | api.CoreFeatureMultiValue, api.CoreFeaturesV1 | api.CoreFeatureBulkMemoryOperations | api.CoreFeatureReferenceTypes}
			i := r.Intn(len(fs))
			o.Name, o.Desc = "WithCoreFeatures", fmt.Sprintf("WithCoreFeatures(%s)", fs[i])
			o.apply = func(p any, _ func(int) any) any { return p.(wazero.RuntimeConfig).WithCoreFeatures(fs[i]) }
		case 1:
			b := r.Bool()
			o.Name, o.Desc = "WithCloseOnContextDone", fmt.Sprintf("WithCloseOnContextDone(%v)", b)
			o.apply = func(p any, _ func(int) any) any { return p.(wazero.RuntimeConfig).WithCloseOnContextDone(b) }
		case 2:
			n := uint32(1 + r.Intn(6))
			o.Name, o.Desc = "WithMemoryLimitPages", fmt.Sprintf("WithMemoryLimitPages(%d)", n)
			o.apply = func(p any, _ func(int) any) any { return p.(wazero.RuntimeConfig).WithMemoryLimitPages(n) }
		case 3:
			i := r.Intn(3)
			o.Name, o.Desc = "WithCompilationCache", fmt.Sprintf("WithCompilationCache(cache%d)", i)
			o.apply = func(p any, _ func(int) any) any {
				if i == 2 {
					return p.(wazero.RuntimeConfig).WithCompilationCache(nil)
				}
				return p.(wazero.RuntimeConfig).WithCompilationCache(caches[i])
			}
		case 4:
			b := r.Bool()
			o.Name, o.Desc = "WithMemoryCapacityFromMax", fmt.Sprintf("WithMemoryCapacityFromMax(%v)", b)
			o.apply = func(p any, _ func(int) any) any { return p.(wazero.RuntimeConfig).WithMemoryCapacityFromMax(b) }
		case 5:
			b := r.Bool()
			o.Name, o.Desc = "WithDebugInfoEnabled", fmt.Sprintf("WithDebugInfoEnabled(%v)", b)
			o.apply = func(p any, _ func(int) any) any { return p.(wazero.RuntimeConfig).WithDebugInfoEnabled(b) }
		default:
			b := r.Bool()
			o.Name, o.Desc = "WithCustomSections", fmt.Sprintf("WithCustomSections(%v)", b)
			o.apply = func(p any, _ func(int) any) any { return p.(wazero.RuntimeConfig).WithCustomSections(b) }
		}
	case "S":
		port := 0
		host := []string{"127.0.0.1", "localhost"}[r.Intn(2)]
		o.Name, o.Desc = "sock.WithTCPListener", fmt.Sprintf("WithTCPListener(%s,%d)", host, port)
		o.apply = func(p any, _ func(int) any) any { return p.(sock.Config).WithTCPListener(host, port) }
	}
	return o
}

var caches = [2]wazero.CompilationCache{wazero.NewCompilationCache(), wazero.NewCompilationCache()}

func rootOf(kind string, variant int) any {
	switch kind {
	case "M":
		return wazero.NewModuleConfig()
	case "F":
		return wazero.NewFSConfig()
	case "R":
		if variant%2 == 0 {
			return wazero.NewRuntimeConfigInterpreter()
		}
		return wazero.NewRuntimeConfigCompiler()
	default:
		return sock.NewConfig()
	}
}

// ---- observation through the guest ----

func u32(mem api.Memory, off uint32) uint32 { v, _ := mem.ReadUint32Le(off); return v }

func (e *env) call(mod api.Module, name string, args ...uint64) (uint64, error) {
	r, err := mod.ExportedFunction(name).Call(e.ctx, args...)
	if err != nil {
		return 0, err
	}
	if len(r) == 0 {
		return 0, nil
	}
	return r[0], nil
}

func readStrings(mem api.Memory, ptrs, n uint32) []string {
	var out []string
	for i := uint32(0); i < n; i++ {
		p := u32(mem, ptrs+4*i)
		var sb []byte
		for {
			b, ok := mem.ReadByte(p)
			if !ok || b == 0 {
				break
			}
			sb = append(sb, b)
			p++
		}
		out = append(out, string(sb))
	}
	return out
}

// observeModule instantiates the proxy guest with cfg and reports everything a
// guest can see of it.
func (e *env) observeModule(cfg wazero.ModuleConfig) string {
	for _, b := range e.bufs {
		b.Reset()
	}
	e.insts++
	mod, err := e.rt.InstantiateModule(e.ctx, e.guest, cfg)
	if err != nil {
		return "instantiate error: " + err.Error()
	}
	defer mod.Close(e.ctx)
	mem := mod.Memory()
	var sb strings.Builder
	fmt.Fprintf(&sb, "name=%q;", mod.Name())
	sb.WriteString("starts=")
	for i := 0; i < 5; i++ {
		b, _ := mem.ReadByte(uint32(60000 + i))
		fmt.Fprintf(&sb, "%d", b)
	}
	// args
	e.call(mod, "args_sizes_get", 0, 4)
	argc := u32(mem, 0)
	e.call(mod, "args_get", 1024, 4096)
	fmt.Fprintf(&sb, ";args=%q", readStrings(mem, 1024, argc))
	e.call(mod, "environ_sizes_get", 0, 4)
	envc := u32(mem, 0)
	e.call(mod, "environ_get", 1024, 4096)
	fmt.Fprintf(&sb, ";env=%q", readStrings(mem, 1024, envc))
	// preopens
	sb.WriteString(";preopens=[")
	for fd := uint64(3); fd < 16; fd++ {
		errno, _ := e.call(mod, "fd_prestat_get", fd, 0)
		if errno != 0 {
			break
		}
		l := u32(mem, 4)
		e.call(mod, "fd_prestat_dir_name", fd, 1024, uint64(l))
		nm, _ := mem.Read(1024, l)
		fmt.Fprintf(&sb, "%q{", nm)
		// which host tree is behind it? probe marker files; writable?
		for i := 0; i < nDirs; i++ {
			if e.statMarker(mod, fd, fmt.Sprintf("marker-d%d", i)) {
				fmt.Fprintf(&sb, "d%d", i)
			}
		}
		for i := 0; i < nMapFS; i++ {
			if e.statMarker(mod, fd, fmt.Sprintf("marker-m%d", i)) {
				fmt.Fprintf(&sb, "m%d", i)
			}
		}
		// read-only? try to create a directory and remove it again
		p := "probe-dir"
		mem.Write(2048, []byte(p))
		errno, _ = e.call(mod, "path_create_directory", fd, 2048, uint64(len(p)))
		if errno == 0 {
			e.call(mod, "path_remove_directory", fd, 2048, uint64(len(p)))
			sb.WriteString(",rw")
		} else {
			fmt.Fprintf(&sb, ",ro(%d)", errno)
		}
		sb.WriteString("},")
	}
	sb.WriteString("]")
	// clocks
	e.call(mod, "clock_time_get", 0, 0, 8)
	rt, _ := mem.ReadUint64Le(8)
	e.call(mod, "clock_time_get", 1, 0, 16)
	mt, _ := mem.ReadUint64Le(16)
	e.call(mod, "clock_res_get", 0, 24)
	rr, _ := mem.ReadUint64Le(24)
	e.call(mod, "clock_res_get", 1, 32)
	mr, _ := mem.ReadUint64Le(32)
	// system clocks are real time: report only whether they look like the fakes
	fmt.Fprintf(&sb, ";realtime=%s;monotonic=%s;res=%d/%d", clockClass(rt), clockClass(mt), rr, mr)
	// random
	e.call(mod, "random_get", 40, 4)
	rb, _ := mem.Read(40, 4)
	fmt.Fprintf(&sb, ";rand=%x", rb)
	// stdout / stderr identity
	msg := "hello"
	mem.Write(3000, []byte(msg))
	var iov [8]byte
	binary.LittleEndian.PutUint32(iov[:], 3000)
	binary.LittleEndian.PutUint32(iov[4:], uint32(len(msg)))
	mem.Write(3100, iov[:])
	e.call(mod, "fd_write", 1, 3100, 1, 3200)
	sb.WriteString(";stdout=")
	for i, b := range e.bufs {
		if b.Len() > 0 {
			fmt.Fprintf(&sb, "buf%d", i)
		}
		b.Reset()
	}
	e.call(mod, "fd_write", 2, 3100, 1, 3200)
	sb.WriteString(";stderr=")
	for i, b := range e.bufs {
		if b.Len() > 0 {
			fmt.Fprintf(&sb, "buf%d", i)
		}
		b.Reset()
	}
	return sb.String()
}

// clockClass: the harness's fake clocks and wazero's default fake clocks give
// small fixed values; anything else is a real clock whose value is not comparable.
func clockClass(v uint64) string {
	for i := 0; i < 3; i++ {
		if v == uint64(5000+i) || v == uint64(1000+i)*1000000000+uint64(i) {
			return fmt.Sprintf("%d", v)
		}
	}
	if v == defaultReal || v == defaultMono {
		return fmt.Sprintf("default(%d)", v)
	}
	return "sys"
}

// first readings of wazero's default fake clocks (documented constants:
// wall clock starts at 2022-01-01T00:00:00Z, monotonic at 0, +1ms per reading)
const (
	defaultReal = uint64(1640995200000000000)
	defaultMono = uint64(0)
)

func (e *env) statMarker(mod api.Module, fd uint64, name string) bool {
	mem := mod.Memory()
	mem.Write(2048, []byte(name))
	errno, _ := e.call(mod, "path_filestat_get", fd, 0, 2048, uint64(len(name)), 2200)
	return errno == 0
}

var (
	probeSignExt = func() []byte { // (func (result i32) i32.const 1 i32.extend8_s)
		m := &wenc.Module{}
		m.ExportFunc("f", m.AddFunc(nil, []wenc.ValType{wenc.I32}, nil, (&wenc.Code{}).I32Const(1).Op(0xc0).End().B))
		return m.Encode()
	}()
	probeMultiVal = func() []byte {
		m := &wenc.Module{}
		m.ExportFunc("f", m.AddFunc(nil, []wenc.ValType{wenc.I32, wenc.I32}, nil, (&wenc.Code{}).I32Const(1).I32Const(2).End().B))
		return m.Encode()
	}()
	probeBulk = func() []byte {
		m := &wenc.Module{}
		m.Mems = []wenc.Limits{{Min: 1}}
		m.ExportFunc("f", m.AddFunc(nil, nil, nil, (&wenc.Code{}).I32Const(0).I32Const(0).I32Const(0).Prefixed(0xfc, 11).Op(0).End().B))
		return m.Encode()
	}()
	probeMem = func() []byte {
		m := &wenc.Module{}
		m.Mems = []wenc.Limits{{Min: 1}}
		m.Exports = append(m.Exports, wenc.Export{Name: "memory", Kind: wenc.ExtMemory})
		m.Customs = []wenc.Custom{{Name: "meta", Data: []byte("hello")}}
		return m.Encode()
	}()
)

func observeRuntime(cfg wazero.RuntimeConfig) string {
	ctx := context.Background()
	rt := wazero.NewRuntimeWithConfig(ctx, cfg)
	defer rt.Close(ctx)
	var sb strings.Builder
	for i, p := range [][]byte{probeSignExt, probeMultiVal, probeBulk} {
		_, err := rt.CompileModule(ctx, p)
		fmt.Fprintf(&sb, "feat%d=%v;", i, err == nil)
	}
	cm, err := rt.CompileModule(ctx, probeMem)
	if err != nil {
		fmt.Fprintf(&sb, "mem-compile-err")
		return sb.String()
	}
	fmt.Fprintf(&sb, "custom=%d;", len(cm.CustomSections()))
	if md := cm.ExportedMemories()["memory"]; md != nil {
		mx, enc := md.Max()
		fmt.Fprintf(&sb, "memmax=%d/%v", mx, enc)
	}
	return sb.String()
}

func observe(e *env, kind string, v any, get func(int) any) string {
	switch kind {
	case "M":
		return e.observeModule(v.(wazero.ModuleConfig))
	case "F":
		return e.observeModule(wazero.NewModuleConfig().WithFSConfig(v.(wazero.FSConfig)))
	case "R":
		return observeRuntime(v.(wazero.RuntimeConfig))
	}
	return ""
}

// modelEnvArgs folds WithArgs/WithEnv along a path (second, independent oracle).
type maModel struct {
	args []string
	env  [][2]string
}

func (m maModel) apply(desc string) maModel {
	out := maModel{args: m.args, env: append([][2]string(nil), m.env...)}
	if strings.HasPrefix(desc, "WithArgs(") {
		inner := strings.TrimSuffix(strings.TrimPrefix(desc, "WithArgs(["), "])")
		if inner == "" {
			out.args = nil
		} else {
			out.args = strings.Fields(inner)
		}
	} else if strings.HasPrefix(desc, "WithEnv(") {
		inner := strings.TrimSuffix(strings.TrimPrefix(desc, "WithEnv("), ")")
		kv := strings.SplitN(inner, ",", 2)
		found := false
		for i := range out.env {
			if out.env[i][0] == kv[0] {
				out.env[i][1] = kv[1]
				found = true
			}
		}
		if !found {
			out.env = append(out.env, [2]string{kv[0], kv[1]})
		}
	}
	return out
}

func (m maModel) String() string {
	envs := make([]string, len(m.env))
	for i, kv := range m.env {
		envs[i] = kv[0] + "=" + kv[1]
	}
	args := m.args
	if args == nil {
		args = []string{}
	}
	return fmt.Sprintf(";args=%q;env=%q;", args, envs)
}

type tree struct {
	e     *env
	nodes []*node
	res   *treeResult
}

func (t *tree) path(i int) []int {
	var p []int
	for i >= 0 {
		p = append([]int{i}, p...)
		i = t.nodes[i].parent
	}
	return p
}

// replay rebuilds node i on a fresh linear chain (referenced nodes are rebuilt
// freshly too).
func (t *tree) replay(i int) any {
	p := t.path(i)
	root := t.nodes[p[0]]
	v := rootOf(root.kind, p[0])
	for _, ni := range p[1:] {
		n := t.nodes[ni]
		v = n.op.apply(v, func(ref int) any { return t.replay(ref) })
	}
	return v
}

func (t *tree) opsOf(i int) []string {
	var out []string
	for _, ni := range t.path(i) {
		n := t.nodes[ni]
		if n.op == nil {
			out = append(out, fmt.Sprintf("node%d=New%sConfig()", ni, n.kind))
		} else {
			out = append(out, fmt.Sprintf("node%d=node%d.%s", ni, n.parent, n.op.Desc))
		}
	}
	return out
}

func (t *tree) allOps() []string {
	var out []string
	for ni, n := range t.nodes {
		if n.op == nil {
			out = append(out, fmt.Sprintf("node%d=New%sConfig()", ni, n.kind))
		} else {
			out = append(out, fmt.Sprintf("node%d=node%d.%s", ni, n.parent, n.op.Desc))
		}
	}
	return out
}

func (t *tree) report(sig, detail string, i int) {
	for _, f := range t.res.Findings {
		if f.Sig == sig {
			return
		}
	}
	t.res.Findings = append(t.res.Findings, finding{Sig: sig, Detail: detail, Ops: t.allOps()})
}

// recheckSnapshots: every node's deep snapshot must equal the one taken at creation.
func (t *tree) recheckSnapshots(after string) {
	for i, n := range t.nodes {
		t.res.Rechecks++
		if s := Snapshot(n.val); s != n.snap {
			t.report(fmt.Sprintf("snapshot-changed:field=%s:after:%s", snapDiffField(n.snap, s), after),
				fmt.Sprintf("node%d (%v) changed after %s\nwas: %s\nnow: %s", i, t.opsOf(i), after, n.snap, s), i)
			n.snap = s // report once
		}
	}
}

// snapDiffField names the struct field in which two snapshots first differ.
func snapDiffField(a, b string) string {
	i := 0
	for i < len(a) && i < len(b) && a[i] == b[i] {
		i++
	}
	if i > len(a) {
		i = len(a)
	}
	j := strings.LastIndexAny(a[:i], ";{")
	rest := a[j+1:]
	if k := strings.IndexByte(rest, ':'); k > 0 {
		return rest[:k]
	}
	return "?"
}

func creator(n *node) string {
	if n.op == nil {
		return "root" + n.kind
	}
	return n.op.Name
}

func (t *tree) get(i int) any { return t.nodes[i].val }

func (t *tree) observeAll(when string) {
	for i, n := range t.nodes {
		if n.kind == "S" {
			continue
		}
		got := observe(t.e, n.kind, n.val, t.get)
		want := observe(t.e, n.kind, t.replay(i), nil)
		t.res.Rechecks++
		if got != want {
			t.report(fmt.Sprintf("observation-differs-from-fresh-replay:%s:%s", n.kind, diffField(got, want)),
				fmt.Sprintf("node%d at %s\n got: %s\nwant: %s\npath: %v", i, when, got, want, t.opsOf(i)), i)
		}
		if n.kind == "M" {
			m := maModel{}
			for _, ni := range t.path(i)[1:] {
				m = m.apply(t.nodes[ni].op.Desc)
			}
			if !strings.Contains(got, m.String()) && !strings.HasPrefix(got, "instantiate error") {
				t.report("args-env-differ-from-model",
					fmt.Sprintf("node%d at %s\n got: %s\nwant substring: %s\npath: %v", i, when, got, m.String(), t.opsOf(i)), i)
			}
		}
	}
}

func diffField(a, b string) string {
	fa, fb := strings.Split(a, ";"), strings.Split(b, ";")
	for i := range fa {
		if i >= len(fb) || fa[i] != fb[i] {
			if j := strings.IndexByte(fa[i], '='); j > 0 {
				return fa[i][:j]
			}
			return "field" + fmt.Sprint(i)
		}
	}
	return "len"
}

func buildTree(tc treeCase, conc bool) *treeResult {
	e := getEnv()
	r := core.NewRng(int64(tc.Seed), 1)
	t := &tree{e: e, res: &treeResult{Ops: map[string]int{}}}
	// roots
	for i, k := range []string{"M", "F", "R", "R", "S"} {
		v := rootOf(k, i)
		t.nodes = append(t.nodes, &node{kind: k, parent: -1, val: v, snap: Snapshot(v)})
	}
	var shape strings.Builder
	for len(t.nodes) < tc.Nodes+5 {
		// choose a parent: bias to M and to recent nodes and to re-branching from the same parent
		var pi int
		if r.Chance(1, 3) && len(t.nodes) > 6 {
			pi = t.nodes[len(t.nodes)-1].parent // sibling of the last node
			if pi < 0 {
				pi = r.Intn(len(t.nodes))
			}
		} else if r.Chance(1, 2) {
			pi = len(t.nodes) - 1 - r.Intn(min(3, len(t.nodes)))
		} else {
			pi = r.Intn(len(t.nodes))
		}
		p := t.nodes[pi]
		if p.kind != "M" && r.Chance(1, 2) {
			pi = 0
			p = t.nodes[0]
			// pick a random M node instead
			var ms []int
			for i, n := range t.nodes {
				if n.kind == "M" {
					ms = append(ms, i)
				}
			}
			pi = ms[r.Intn(len(ms))]
			p = t.nodes[pi]
		}
		o := genOp(r, p.kind, t.nodes, len(t.nodes))
		v := o.apply(p.val, t.get)
		n := &node{kind: p.kind, parent: pi, op: o, val: v, snap: Snapshot(v)}
		t.nodes = append(t.nodes, n)
		t.res.Ops[o.Name]++
		fmt.Fprintf(&shape, "%d>%s,", pi, o.Name)
		t.recheckSnapshots("derive:" + o.Name)
	}
	t.res.Nodes = len(t.nodes)
	t.res.Shape = shape.String()
	t.res.SampleOps = t.allOps()
	if len(t.res.SampleOps) > 14 {
		t.res.SampleOps = t.res.SampleOps[:14]
	}
	// observations (also instantiates every M/F node, default ctx)
	before := e.insts
	t.observeAll("after-derivations")
	t.recheckSnapshots("instantiate")
	// instantiate with a binary that carries a module name in its name section (a config without
	// WithName takes the name from there: that must not be written back into the config)
	for _, n := range t.nodes {
		if n.kind != "M" {
			continue
		}
		e.insts++
		if mod, err := e.rt.InstantiateModule(e.ctx, e.named, n.val.(wazero.ModuleConfig)); err == nil {
			mod.Close(e.ctx)
		}
	}
	t.res.Ops["InstantiateModule(named binary)"]++
	t.recheckSnapshots("instantiate-binary-with-name-section")
	// instantiate with a binary that exports only some of the configured start functions
	for _, n := range t.nodes {
		if n.kind != "M" {
			continue
		}
		e.insts++
		if mod, err := e.rt.InstantiateModule(e.ctx, e.partial, n.val.(wazero.ModuleConfig).WithName("")); err == nil {
			mod.Close(e.ctx)
		}
		if mod, err := e.rt.InstantiateModule(e.ctx, e.partial, n.val.(wazero.ModuleConfig)); err == nil {
			mod.Close(e.ctx)
		}
	}
	t.res.Ops["InstantiateModule(binary lacking start functions)"]++
	t.recheckSnapshots("instantiate-binary-lacking-start-functions")
	t.observeAll("after-partial-binary")
	// instantiate some M nodes with a sock config in the context
	for k := 0; k < 3; k++ {
		var ms, ss []int
		for i, n := range t.nodes {
			if n.kind == "M" {
				ms = append(ms, i)
			}
			if n.kind == "S" {
				ss = append(ss, i)
			}
		}
		mi, si := ms[r.Intn(len(ms))], ss[r.Intn(len(ss))]
		ctx := sock.WithConfig(e.ctx, t.nodes[si].val.(sock.Config))
		e.insts++
		if mod, err := e.rt.InstantiateModule(ctx, e.guest, t.nodes[mi].val.(wazero.ModuleConfig)); err == nil {
			mod.Close(ctx)
		}
		t.res.Ops["InstantiateModule(sock ctx)"]++
		t.recheckSnapshots("instantiate-with-sock-config")
	}
	t.observeAll("after-instantiations")
	t.res.Insts = e.insts - before
	return t.res
}

// concurrent variant: goroutines derive from and instantiate with the same
// parents (race detector is the oracle, plus the same snapshot re-checks at the end).
func concTree(tc treeCase) *treeResult {
	e := getEnv()
	r := core.NewRng(int64(tc.Seed), 2)
	t := &tree{e: e, res: &treeResult{Ops: map[string]int{}}}
	for i, k := range []string{"M", "F", "R", "R", "S"} {
		v := rootOf(k, i)
		t.nodes = append(t.nodes, &node{kind: k, parent: -1, val: v})
	}
	// sequential prefix: a few parents with some content
	pickBiased := func() int {
		pi := r.Intn(len(t.nodes))
		if t.nodes[pi].kind != "M" && r.Chance(2, 3) {
			var ms []int
			for i, n := range t.nodes {
				if n.kind == "M" {
					ms = append(ms, i)
				}
			}
			pi = ms[r.Intn(len(ms))]
		}
		return pi
	}
	for len(t.nodes) < 5+tc.Nodes {
		pi := pickBiased()
		p := t.nodes[pi]
		o := genOp(r, p.kind, t.nodes, len(t.nodes))
		t.nodes = append(t.nodes, &node{kind: p.kind, parent: pi, op: o, val: o.apply(p.val, t.get)})
		t.res.Ops[o.Name]++
	}
	for _, n := range t.nodes {
		n.snap = Snapshot(n.val)
	}
	const G = 8
	type step struct {
		pi int
		o  *op
	}
	plans := make([][]step, G)
	for g := 0; g < G; g++ {
		for k := 0; k < 6; k++ {
			pi := pickBiased()
			plans[g] = append(plans[g], step{pi, genOp(r, t.nodes[pi].kind, t.nodes, 1000+g*10+k)})
		}
	}
	var wg sync.WaitGroup
	var mu sync.Mutex
	for g := 0; g < G; g++ {
		wg.Add(1)
		go func(g int) {
			defer wg.Done()
			for _, s := range plans[g] {
				v := s.o.apply(t.nodes[s.pi].val, t.get)
				if mc, ok := v.(wazero.ModuleConfig); ok && g%2 == 0 {
					ctx := e.ctx
					if g%4 == 0 {
						ctx = sock.WithConfig(ctx, t.nodes[4].val.(sock.Config))
					}
					if mod, err := e.rt.InstantiateModule(ctx, e.guest, mc.WithName("")); err == nil {
						mod.Close(ctx)
					}
					// also instantiate with the shared parent itself
					if pm, ok := t.nodes[s.pi].val.(wazero.ModuleConfig); ok {
						if mod, err := e.rt.InstantiateModule(ctx, e.guest, pm.WithName("")); err == nil {
							mod.Close(ctx)
						}
					}
				}
				mu.Lock()
				t.res.Ops[s.o.Name]++
				mu.Unlock()
			}
		}(g)
	}
	wg.Wait()
	t.recheckSnapshots("concurrent-derivations")
	t.res.Nodes = len(t.nodes) + G*6
	t.res.Goroutines = G
	t.res.Shape = fmt.Sprintf("conc-%d", tc.Seed)
	return t.res
}

func child(mode string, in json.RawMessage) any {
	var tc treeCase
	json.Unmarshal(in, &tc)
	switch mode {
	case "conc":
		return concTree(tc)
	default:
		return buildTree(tc, false)
	}
}

var _ = io.EOF
var _ = time.Now
