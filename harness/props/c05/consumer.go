package c05

import (
	"strings"

	"github.com/tetratelabs/wazero/verifharness/refsem"
	"github.com/tetratelabs/wazero/verifharness/wenc"
	"github.com/tetratelabs/wazero/verifharness/wops"
)

// Consumer forms: the result of an instruction with a 32-bit result (i32, f32)
// lives in a wider slot/register; the bits the Go API or a 32-bit store shows
// may be right while the next instruction sees something else (e.g. a sign
// extension left in the upper half of the interpreter's 64-bit stack slot).
// So the result is fed, inside the guest, to instructions that are sensitive to
// that, together with the expected value from refsem, and only the verdict
// bytes are stored. f32 results go through i32.reinterpret_f32 first.
//
//	Kc: operands and expected value baked as constants
//	Mc: operands and expected value loaded from memory (guest loop)
//
// Results whose NaN bits the spec leaves open are skipped (no single expected value).
func consumerForm(op *wops.Op) bool { return op.Result == wops.I32 || op.Result == wops.F32 }

// one verdict byte per check, stored at slot+index
var consumerChecks = []struct {
	name string
	want byte
}{
	{"i32.ne(result, expected)", 0},
	{"i32.lt_u(result, expected)", 0},
	{"i32.ge_u(result, expected)", 1},
	{"i32.gt_u(result, expected)", 0},
	{"i32.le_u(result, expected)", 1},
	{"i64.eq(i64.extend_i32_u(result), zext(expected))", 1},
	{"i64.eq(i64.extend_i32_s(result), sext(expected))", 1},
	{"i32.ne(local.set/local.get(result), expected)", 0},
	{"i32.ne(global.set/global.get(result), expected)", 0},
	{"call $ne(result, expected)", 0},
	{"i32.eq(result, expected)", 1},
	{"i32.eqz(i32.xor(result, expected))", 1},
	{"i32.ne(expected, result)", 0},
	{"i32.lt_s(result, expected)", 0},
	{"i32.ne(select(result, result^1.., 1), expected)", 0},
}

func consumerWant() [16]byte {
	var w [16]byte
	for i, c := range consumerChecks {
		w[i] = c.want
	}
	return w
}

type consumerEnv struct {
	res      wops.Shape
	pushAddr func() // pushes the address of the 16-byte verdict slot
	evalOp   func() // pushes the operands and applies the instruction
	exp32    func() // pushes the expected bits as i32
	exp64u   func() // ... zero-extended as i64
	exp64s   func() // ... sign-extended as i64
	local    uint32 // a local of the result type
	global   uint32 // a mutable global of the result type
	cmpFn    uint32 // (param T i32) (result i32): i32.ne(bits(p0), p1)
}

// addConsumerSupport adds the global and the helper function.
func addConsumerSupport(m *wenc.Module, res wops.Shape) (global, cmpFn uint32) {
	m.Globals = append(m.Globals, wenc.Global{Type: wenc.GlobalType{Type: res.ValType(), Mutable: true}, Init: wenc.ZeroConst(res.ValType())})
	global = m.NumImportedGlobals() + uint32(len(m.Globals)-1)
	c := (&wenc.Code{}).LocalGet(0)
	if res == wops.F32 {
		c.Op(0xbc)
	}
	c.LocalGet(1).Op(0x47).End()
	cmpFn = m.AddFunc([]wenc.ValType{res.ValType(), wenc.I32}, []wenc.ValType{wenc.I32}, nil, c.B)
	return
}

// emitConsumers emits all checks for one instruction instance.
func emitConsumers(c *wenc.Code, e consumerEnv) {
	bits := func() { // result -> i32 bits
		if e.res == wops.F32 {
			c.Op(0xbc) // i32.reinterpret_f32
		}
	}
	store := func(i int) { c.Mem(0x3a, 0, uint32(i)) } // i32.store8
	cmp := func(i int, opc byte) {
		e.pushAddr()
		e.evalOp()
		bits()
		e.exp32()
		c.Op(opc)
		store(i)
	}
	cmp(0, 0x47) // ne
	cmp(1, 0x49) // lt_u
	cmp(2, 0x4f) // ge_u
	cmp(3, 0x4b) // gt_u
	cmp(4, 0x4d) // le_u
	e.pushAddr()
	e.evalOp()
	bits()
	c.Op(0xad) // i64.extend_i32_u
	e.exp64u()
	c.Op(0x51) // i64.eq
	store(5)
	e.pushAddr()
	e.evalOp()
	bits()
	c.Op(0xac) // i64.extend_i32_s
	e.exp64s()
	c.Op(0x51)
	store(6)
	e.pushAddr()
	e.evalOp()
	c.LocalSet(e.local).LocalGet(e.local)
	bits()
	e.exp32()
	c.Op(0x47)
	store(7)
	e.pushAddr()
	e.evalOp()
	c.GlobalSet(e.global).GlobalGet(e.global)
	bits()
	e.exp32()
	c.Op(0x47)
	store(8)
	e.pushAddr()
	e.evalOp()
	e.exp32()
	c.Call(e.cmpFn)
	store(9)
	cmp(10, 0x46) // eq
	e.pushAddr()
	e.evalOp()
	bits()
	e.exp32()
	c.Op(0x73, 0x45) // xor, eqz
	store(11)
	e.pushAddr()
	e.exp32()
	e.evalOp()
	bits()
	c.Op(0x47)
	store(12)
	cmp(13, 0x48) // lt_s
	// through select (typed by the operands): select(result, other, 1) must still be the result
	e.pushAddr()
	e.evalOp()
	e.evalOp()
	c.I32Const(1).Select()
	bits()
	e.exp32()
	c.Op(0x47)
	store(14)
}

func expectedBits(r refsem.Result) uint32 { return uint32(r.V.Lo) }

// describeConsumerMismatch lists the checks whose verdict byte is wrong.
func describeConsumerMismatch(got []byte) string {
	var bad []string
	for i, c := range consumerChecks {
		if got[i] != c.want {
			bad = append(bad, sprintf("%s = %d (must be %d)", c.name, got[i], c.want))
		}
	}
	return strings.Join(bad, "; ")
}
