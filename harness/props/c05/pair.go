package c05

import (
	"encoding/hex"
	"strings"

	"github.com/tetratelabs/wazero"
	"github.com/tetratelabs/wazero/verifharness/core"
	"github.com/tetratelabs/wazero/verifharness/refsem"
	"github.com/tetratelabs/wazero/verifharness/wenc"
	"github.com/tetratelabs/wazero/verifharness/wops"
)

// Pair forms: one function body applies TWO different table rows (A first, then
// B, each on its own operands); both results are compared with refsem.
// Lowerings of related instructions share per-function state in the compiler
// (constant-pool labels, mask tables, cached temporaries), which single-
// instruction functions can never exercise.
//
//	P2: (func (param A's.. B's..) (result RA RB)) called from a guest loop and through the Go API
//	M2: guest loop, operands of both loaded from memory right before each instruction
//
// Every row appears as first and as second instruction of some pair (run is
// broken otherwise). Partners: PRNG with a strong bias to related rows (same
// class and lane shape: the shifts of a shape pairwise, min/max, saturating
// add/sub, extend low/high, conversions of a family, compares), plus arbitrary ones.

type pairSpec struct {
	A    string `json:"a"`
	B    string `json:"b"`
	ImmA string `json:"ia,omitempty"`
	ImmB string `json:"ib,omitempty"`
}

const (
	pairIn  = 65536
	pairOut = 131072
)

func relatedKey(op *wops.Op) string { return op.Class + "/" + op.Params[0].String() }

// choosePairs returns ordered pairs (A first, B second); for every chosen
// unordered pair both orders are emitted.
func choosePairs(r *core.Rng, quick bool) []pairSpec {
	groups := map[string][]*wops.Op{}
	classes := map[string][]*wops.Op{}
	for _, op := range wops.Table {
		groups[relatedKey(op)] = append(groups[relatedKey(op)], op)
		classes[op.Class] = append(classes[op.Class], op)
	}
	seen := map[string]bool{}
	var out []pairSpec
	randImm := func(op *wops.Op) string {
		switch op.Imm {
		case wops.ImmLane:
			return hex.EncodeToString([]byte{byte(r.Intn(op.ImmLanes))})
		case wops.ImmShuffle:
			b := make([]byte, 16)
			for i := range b {
				b[i] = byte(r.Intn(32))
			}
			return hex.EncodeToString(b)
		}
		return ""
	}
	add := func(a, b *wops.Op) {
		if a == b {
			return
		}
		for _, p := range [][2]*wops.Op{{a, b}, {b, a}} {
			k := p[0].Name + "+" + p[1].Name
			if seen[k] {
				continue
			}
			seen[k] = true
			out = append(out, pairSpec{A: p[0].Name, B: p[1].Name, ImmA: randImm(p[0]), ImmB: randImm(p[1])})
		}
	}
	pick := func(l []*wops.Op) *wops.Op { return l[r.Intn(len(l))] }
	for _, op := range wops.Table {
		g := groups[relatedKey(op)]
		if !quick || len(g) <= 4 {
			for _, o := range g { // all same-class, same-shape partners
				add(op, o)
			}
		} else {
			for k := 0; k < 4; k++ {
				add(op, pick(g))
			}
		}
		// same class, any shape (e.g. i8x16.shl with i16x8.shr_u), and an arbitrary row
		nc, na := 2, 2
		if !quick {
			nc, na = 6, 6
		}
		for k := 0; k < nc; k++ {
			add(op, pick(classes[op.Class]))
		}
		for k := 0; k < na; k++ {
			add(op, pick(wops.Table))
		}
	}
	return out
}

// pairTuples draws n non-trapping operand tuples of op from its segments; shift
// and rotate counts run through all values modulo twice the lane width.
func pairTuples(op *wops.Op, imm []byte, n int, seed int64, r *core.Rng) []tuple {
	segs := plan(op, planCfg{seed: seed, quick: true})
	ar := len(op.Params)
	out := make([]tuple, 0, n)
	for i := 0; len(out) < n; i++ {
		var t tuple
		for try := 0; ; try++ {
			s := segs[r.Intn(len(segs))]
			t = s.gen(r.Intn(s.n))
			if op.Class == "vec.ishift" || op.Class == "int.shift" {
				if i%4 != 3 {
					w := uint64(op.Params[0].LaneBits())
					t[1].Lo = uint64(i) % (2 * w)
				}
			}
			if !op.MayTrap || refsem.Eval(op, imm, t[:ar]).Trap == refsem.NoTrap || try > 200 {
				break
			}
		}
		if op.MayTrap && refsem.Eval(op, imm, t[:ar]).Trap != refsem.NoTrap {
			continue
		}
		out = append(out, t)
	}
	return out
}

// buildPairModule: per pair i: p2_<i> (params), p2l_<i> (guest loop calling it), m2_<i> (guest loop, loads).
func buildPairModule(pairs []pairSpec) []byte {
	m := &wenc.Module{}
	m.Mems = []wenc.Limits{{Min: 4}}
	m.Exports = append(m.Exports, wenc.Export{Name: "memory", Kind: wenc.ExtMemory})
	loopSig := []wenc.ValType{wenc.I32, wenc.I32, wenc.I32}
	for i, ps := range pairs {
		a, b := wops.ByName(ps.A), wops.ByName(ps.B)
		ia, _ := hex.DecodeString(ps.ImmA)
		ib, _ := hex.DecodeString(ps.ImmB)
		arA, arB := len(a.Params), len(b.Params)
		pc := &wenc.Code{}
		for p := 0; p < arA; p++ {
			pc.LocalGet(uint32(p))
		}
		a.Emit(pc, ia)
		for p := 0; p < arB; p++ {
			pc.LocalGet(uint32(arA + p))
		}
		b.Emit(pc, ib).End()
		params := append(append([]wenc.ValType(nil), a.ParamTypes()...), b.ParamTypes()...)
		results := []wenc.ValType{a.Result.ValType(), b.Result.ValType()}
		pIdx := m.AddFunc(params, results, nil, pc.B)
		m.ExportFunc(sprintf("p2_%d", i), pIdx)
		stride := int32(16 * (arA + arB))
		tail := func(lc *wenc.Code) {
			lc.LocalGet(0).I32Const(stride).Op(0x6a).LocalSet(0)
			lc.LocalGet(1).I32Const(32).Op(0x6a).LocalSet(1)
			lc.LocalGet(2).I32Const(1).Op(0x6b).LocalTee(2)
			lc.BrIf(0).End().End()
		}
		// p2l
		lc := &wenc.Code{}
		lc.Loop(0x40)
		for p := 0; p < arA; p++ {
			lc.LocalGet(0)
			loadOp(lc, a.Params[p], uint32(16*p))
		}
		for p := 0; p < arB; p++ {
			lc.LocalGet(0)
			loadOp(lc, b.Params[p], uint32(16*(arA+p)))
		}
		lc.Call(pIdx).LocalSet(4).LocalSet(3)
		lc.LocalGet(1).LocalGet(3)
		storeOp(lc, a.Result, 0)
		lc.LocalGet(1).LocalGet(4)
		storeOp(lc, b.Result, 16)
		tail(lc)
		m.ExportFunc(sprintf("p2l_%d", i), m.AddFunc(loopSig, nil, results, lc.B))
		// m2
		lc = &wenc.Code{}
		lc.Loop(0x40)
		lc.LocalGet(1)
		for p := 0; p < arA; p++ {
			lc.LocalGet(0)
			loadOp(lc, a.Params[p], uint32(16*p))
		}
		a.Emit(lc, ia)
		storeOp(lc, a.Result, 0)
		lc.LocalGet(1)
		for p := 0; p < arB; p++ {
			lc.LocalGet(0)
			loadOp(lc, b.Params[p], uint32(16*(arA+p)))
		}
		b.Emit(lc, ib)
		storeOp(lc, b.Result, 16)
		tail(lc)
		m.ExportFunc(sprintf("m2_%d", i), m.AddFunc(loopSig, nil, nil, lc.B))
	}
	return m.Encode()
}

func (rn *runner) reportPair(engine, form, kind, which string, a, b *wops.Op, op *wops.Op, imm []byte, t tuple, want refsem.Result, got string, ps pairSpec) {
	sig := sprintf("%s:%s+%s:%s:%s", engine, a.Name, b.Name, form, kind)
	if which != "" {
		sig += ":" + which
	}
	if i, ok := rn.seen[sig]; ok {
		rn.res.Findings[i].Count++
		return
	}
	var args []string
	for p := range op.Params {
		args = append(args, fmtVal(op.Params[p], t[p]))
	}
	wantS := want.String()
	if want.Trap == refsem.NoTrap && want.Deterministic() {
		wantS = fmtVal(want.Shape, want.V)
	}
	det := sprintf("function applying %s then %s (form %s, %s): %s %s(%s) gave %s, specification: %s", a.Name, b.Name, form, engine, op.Name, immStr(imm), strings.Join(args, ", "), got, wantS)
	rn.seen[sig] = len(rn.res.Findings)
	rn.res.Findings = append(rn.res.Findings, finding{Sig: sig, Detail: det, Count: 1, Witness: map[string]any{
		"pair": ps, "form": form, "engine": engine, "wrong_op": op.Name, "immediate": hex.EncodeToString(imm), "operands": args, "expected": wantS, "got": got,
		"body": sprintf("(func (param <%s's> <%s's>) (result %s %s) <operands of %s> %s %s <operands of %s> %s %s)", a.Name, b.Name,
			wenc.TypeName(a.Result.ValType()), wenc.TypeName(b.Result.ValType()), a.Name, a.Name, ps.ImmA, b.Name, b.Name, ps.ImmB),
	}})
}

// runPairs is the child side of a pair case.
func (rn *runner) runPairs() {
	oc := rn.oc
	bin := buildPairModule(oc.Pairs)
	type inst struct {
		a, b   *wops.Op
		ia, ib []byte
		ta, tb []tuple
		ra, rb []refsem.Result
	}
	n := oc.Hi
	insts := make([]inst, len(oc.Pairs))
	for i, ps := range oc.Pairs {
		in := &insts[i]
		in.a, in.b = wops.ByName(ps.A), wops.ByName(ps.B)
		in.ia, _ = hex.DecodeString(ps.ImmA)
		in.ib, _ = hex.DecodeString(ps.ImmB)
		r := core.NewRng(oc.Seed, hashName(ps.A+"+"+ps.B))
		in.ta = pairTuples(in.a, in.ia, n, oc.Seed, r)
		in.tb = pairTuples(in.b, in.ib, n, oc.Seed, r)
		for j := 0; j < n; j++ {
			in.ra = append(in.ra, refsem.Eval(in.a, in.ia, in.ta[j][:len(in.a.Params)]))
			in.rb = append(in.rb, refsem.Eval(in.b, in.ib, in.tb[j][:len(in.b.Params)]))
		}
	}
	if rn.res.Pos == nil {
		rn.res.Pos = map[string]int64{}
	}
	for _, e := range getEnvs() {
		mod, err := e.rt.InstantiateWithConfig(ctx, bin, wazero.NewModuleConfig().WithName(""))
		if err != nil {
			rn.res.Err = sprintf("%s: instantiate pair module (%v ...): %v", e.name, oc.Pairs[0], err)
			return
		}
		mem := mod.Memory()
		for i, ps := range oc.Pairs {
			in := &insts[i]
			arA, arB := len(in.a.Params), len(in.b.Params)
			stride := 16 * (arA + arB)
			buf := make([]byte, n*stride)
			for j := 0; j < n; j++ {
				for p := 0; p < arA; p++ {
					putVal(buf[j*stride+16*p:], in.ta[j][p])
				}
				for p := 0; p < arB; p++ {
					putVal(buf[j*stride+16*(arA+p):], in.tb[j][p])
				}
			}
			checkBoth := func(form string, j int, ga, gb refsem.Val) {
				if !in.ra[j].Accepts(ga) {
					rn.reportPair(e.name, form, "wrong-result", "first:"+in.a.Name, in.a, in.b, in.a, in.ia, in.ta[j], in.ra[j], fmtVal(in.a.Result, ga), ps)
				}
				if !in.rb[j].Accepts(gb) {
					rn.reportPair(e.name, form, "wrong-result", "second:"+in.b.Name, in.a, in.b, in.b, in.ib, in.tb[j], in.rb[j], fmtVal(in.b.Result, gb), ps)
				}
			}
			for _, lf := range []struct{ fn, form string }{{"m2", "M2"}, {"p2l", "P2"}} {
				mem.Write(pairIn, buf)
				if _, err := mod.ExportedFunction(sprintf("%s_%d", lf.fn, i)).Call(ctx, pairIn, pairOut, uint64(n)); err != nil {
					rn.reportPair(e.name, lf.form, "wrong-trap", "", in.a, in.b, in.a, in.ia, in.ta[0], in.ra[0], "error in a batch (first tuple shown): "+core.Trunc(err.Error(), 200), ps)
					continue
				}
				out, _ := mem.Read(pairOut, uint32(32*n))
				for j := 0; j < n; j++ {
					checkBoth(lf.form, j, getVal(out[32*j:]), getVal(out[32*j+16:]))
				}
				rn.res.Evals[e.name+"/"+lf.form] += int64(2 * n)
			}
			// through the Go API (multi-value result)
			pf := mod.ExportedFunction(sprintf("p2_%d", i))
			var args []uint64
			for j := 0; j < n && j < 8; j++ {
				args = pushArgs(args, in.a, in.ta[j])
				args = append(args, pushArgs(nil, in.b, in.tb[j])...)
				out, err := pf.Call(ctx, args...)
				if err != nil {
					rn.reportPair(e.name, "P2", "wrong-trap", "", in.a, in.b, in.a, in.ia, in.ta[j], in.ra[j], "error: "+core.Trunc(err.Error(), 200), ps)
					continue
				}
				var ga, gb refsem.Val
				k := 0
				ga.Lo = out[k]
				k++
				if in.a.Result.IsVector() {
					ga.Hi = out[k]
					k++
				}
				gb.Lo = out[k]
				k++
				if in.b.Result.IsVector() {
					gb.Hi = out[k]
				}
				checkBoth("P2", j, ga, gb)
				rn.res.Evals[e.name+"/P2"] += 2
			}
			rn.res.Pos[e.name+"/first/"+in.a.Name]++
			rn.res.Pos[e.name+"/second/"+in.b.Name]++
		}
		mod.Close(ctx)
	}
}
