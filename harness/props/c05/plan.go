package c05

import (
	"hash/fnv"
	"math"
	"sort"
	"strings"

	"github.com/tetratelabs/wazero/verifharness/core"
	"github.com/tetratelabs/wazero/verifharness/refsem"
	"github.com/tetratelabs/wazero/verifharness/wops"
)

// A tuple is the operand list of one instruction instance.
type tuple [3]refsem.Val

// seg is one sub-space of an instruction's operand space. Tuple i of a segment
// is a pure function of (seed, op, segment, i), so parent and children agree on
// it without shipping operands around and chunking does not change the values.
type seg struct {
	kind       string // evidence label
	n          int
	exhaustive string // non-empty: which sub-space this segment enumerates completely
	kstride    int    // form K evaluates tuples with index%kstride==0
	gen        func(i int) tuple
}

func hashName(s string) uint64 {
	h := fnv.New64a()
	h.Write([]byte(s))
	return h.Sum64()
}

// ---- boundary sets ---------------------------------------------------------

func dedupe(in []uint64) []uint64 {
	seen := map[uint64]bool{}
	var out []uint64
	for _, v := range in {
		if !seen[v] {
			seen[v] = true
			out = append(out, v)
		}
	}
	return out
}

func intSet(w int, base []uint64) []uint64 {
	m := ^uint64(0)
	if w < 64 {
		m = 1<<uint(w) - 1
	}
	out := append([]uint64(nil), base...)
	for k := 0; k < w; k++ {
		p := uint64(1) << uint(k)
		for _, v := range []uint64{p, p - 1, p + 1} {
			out = append(out, v&m, (-v)&m)
		}
	}
	// shift/rotate counts at and beyond the width, byte patterns
	for _, v := range []uint64{uint64(w) - 1, uint64(w), uint64(w) + 1, 2*uint64(w) - 1, 2 * uint64(w), 127, 128, 129, 255, 256, 257,
		0x5555555555555555, 0xaaaaaaaaaaaaaaaa, 0x00ff00ff00ff00ff, 0x0123456789abcdef, 0xfedcba9876543210, 10, 100, 1000, 0xfffffffffffffff6} {
		out = append(out, v&m)
	}
	return dedupe(out)
}

var (
	setI32 = intSet(32, widen32(core.I32Edge))
	setI64 = intSet(64, core.I64Edge)
	setI16 = b16()
	setI8  = intSet(8, nil)
	setF32 = f32Set()
	setF64 = f64Set()
)

func widen32(in []uint32) []uint64 {
	out := make([]uint64, len(in))
	for i, v := range in {
		out[i] = uint64(v)
	}
	return out
}

// b16 is the ~96-value boundary set used against all 65536 values of the other operand.
func b16() []uint64 {
	var out []uint64
	for k := 0; k < 16; k++ {
		p := uint64(1) << uint(k)
		for _, v := range []uint64{p, p - 1, p + 1} {
			out = append(out, v&0xffff, (-v)&0xffff)
		}
	}
	out = append(out, 0x5555, 0xaaaa, 0x00ff, 0xff00, 0x7ffe, 0x8002, 0x1234, 0xfedc, 0x4000, 0xc000, 0x3fff, 0xbfff, 15, 16, 17, 100, 0xff9c, 0x7f00, 0x80ff, 0x0101, 0xfefe)
	out = dedupe(out)
	sort.Slice(out, func(i, j int) bool { return out[i] < out[j] })
	return out
}

func f32Set() []uint64 {
	out := widen32(core.F32Edge)
	add := func(f float32) {
		b := math.Float32bits(f)
		for _, d := range []uint32{0, 1, ^uint32(0)} { // value, +1ulp, -1ulp (in magnitude)
			out = append(out, uint64(b+d), uint64((b+d)^0x80000000))
		}
	}
	// conversion boundaries of every integer type, halfway cases for nearest, integer/fraction border
	for _, f := range []float32{1 << 7, 1 << 8, 1 << 15, 1 << 16, 1 << 31, 1 << 32, 1 << 63, 1 << 64, 0.5, 1.5, 2.5, 3.5, 4.5, 1 << 22, 1 << 23, 1 << 24,
		8388607.5, 4194303.5, 4194304.5, 0.75, 0.25, 1e-10, 1e10, 1e38, 3, 255, 65535, 32767, 127} {
		add(f)
	}
	// NaNs: signalling / quiet, with payloads, both signs
	out = append(out, 0x7f800002, 0xff800001, 0x7fbfffff, 0xffbfffff, 0x7fc00001, 0xffc00001, 0x7fe00000, 0xffffffff, 0x7fd55555, 0x7faaaaaa)
	return dedupe(out)
}

func f64Set() []uint64 {
	out := append([]uint64(nil), core.F64Edge...)
	add := func(f float64) {
		b := math.Float64bits(f)
		for _, d := range []uint64{0, 1, ^uint64(0)} {
			out = append(out, b+d, (b+d)^(1<<63))
		}
	}
	for _, f := range []float64{1 << 7, 1 << 8, 1 << 15, 1 << 16, 1 << 31, 1 << 32, 1 << 63, 1 << 64, 2147483647, 2147483649, 4294967295, 4294967297,
		2147483647.5, 2147483648.5, 4294967295.5, 0.5, 1.5, 2.5, 3.5, 4.5, 1 << 51, 1 << 52, 1 << 53, 4503599627370495.5, 2251799813685247.5, 2251799813685248.5,
		0.75, 0.25, 1e-300, 1e300, 1e-40, 3.4028234663852886e38, 3.4028235677973366e38, 1.401298464324817e-45, 7.006492321624085e-46, 3, 255, 65535, 32767, 127, 16777217, 8388608.5} {
		add(f)
	}
	out = append(out, 0x7ff0000000000002, 0xfff0000000000001, 0x7ff7ffffffffffff, 0xfff7ffffffffffff, 0x7ff8000000000001, 0xfff8000000000001,
		0x7ffc000000000000, 0xffffffffffffffff, 0x7ffd555555555555, 0x7ff2aaaaaaaaaaaa, 0x7ff8000020000000, 0x7ff0000020000000)
	return dedupe(out)
}

func shiftCounts(w int) []uint64 {
	var out []uint64
	for k := 0; k <= w+1; k++ {
		out = append(out, uint64(k))
	}
	uw := uint64(w)
	out = append(out, 2*uw-1, 2*uw, 2*uw+1, 31, 32, 33, 63, 64, 65, 127, 128, 129, 255, 256, 257, 0x7fffffff, 0x80000000, 0x80000001, 0xffffffff, 0xfffffff8, 0xffffff00|uw, 0x10000, 0x100|(uw-1))
	return dedupe(out)
}

func laneSet(s wops.Shape) []uint64 {
	switch s {
	case wops.I32, wops.I32x4:
		return setI32
	case wops.I64, wops.I64x2, wops.V128:
		return setI64
	case wops.F32, wops.F32x4:
		return setF32
	case wops.F64, wops.F64x2:
		return setF64
	case wops.I16x8:
		return setI16
	}
	return setI8
}

// effective lane geometry of a parameter (V128 is treated as 2 x 64).
func laneGeom(s wops.Shape) (w, lanes int) {
	if s == wops.V128 {
		return 64, 2
	}
	if !s.IsVector() {
		return s.LaneBits(), 1
	}
	return s.LaneBits(), s.Lanes()
}

// randLane draws one lane value of the shape from the edge-biased generator.
func randLane(r *core.Rng, s wops.Shape) uint64 {
	switch s {
	case wops.I32, wops.I32x4:
		return uint64(r.I32())
	case wops.I64, wops.I64x2, wops.V128:
		return r.I64()
	case wops.F32, wops.F32x4:
		if r.Chance(1, 6) {
			return setF32[r.Intn(len(setF32))]
		}
		return uint64(r.F32())
	case wops.F64, wops.F64x2:
		if r.Chance(1, 6) {
			return setF64[r.Intn(len(setF64))]
		}
		return r.F64()
	case wops.I16x8:
		if r.Chance(1, 3) {
			return setI16[r.Intn(len(setI16))]
		}
		return r.U64() & 0xffff
	}
	if r.Chance(1, 3) {
		return setI8[r.Intn(len(setI8))]
	}
	return r.U64() & 0xff
}

func randVal(r *core.Rng, s wops.Shape) refsem.Val {
	var v refsem.Val
	w, lanes := laneGeom(s)
	same := lanes > 1 && r.Chance(1, 8) // sometimes a splat
	first := randLane(r, s)
	for i := 0; i < lanes; i++ {
		x := first
		if !same && i > 0 {
			x = randLane(r, s)
		}
		v.SetLane(w, i, x)
	}
	return v
}

// ---- plan --------------------------------------------------------------------

type planCfg struct {
	seed  int64
	quick bool
}

func halfReading(name string) bool {
	return strings.Contains(name, "_low") || strings.Contains(name, "_high") || strings.Contains(name, "_zero") ||
		strings.Contains(name, "pairwise") || strings.Contains(name, "narrow") || strings.Contains(name, "dot")
}

// plan lists the operand segments of op for the tier.
func plan(op *wops.Op, cfg planCfg) []seg {
	var segs []seg
	h := hashName(op.Name)
	ar := len(op.Params)
	p0 := op.Params[0]
	rngFor := func(segID, i int) *core.Rng {
		return core.NewRng(cfg.seed, h^uint64(segID)<<48^uint64(i))
	}
	allSame := func(s wops.Shape) bool {
		for _, p := range op.Params {
			if p != s {
				return false
			}
		}
		return true
	}
	isLaneOp := op.Imm == wops.ImmLane
	// rotations: lane j of tuple i holds element (i*L + (j+rot) mod L) so that ops
	// reading only some lanes still see every value.
	rots := func(L int, heavy bool) []int {
		switch {
		case isLaneOp && !cfg.quick:
			r := make([]int, L)
			for i := range r {
				r[i] = i
			}
			return r
		case isLaneOp:
			a := int(uint64(cfg.seed) % uint64(L))
			return []int{a, (a + L/2) % L, (a + 1) % L}
		case halfReading(op.Name) || !heavy:
			// both halves of the vector see every element (lowerings that split a
			// vector into halves, instructions that read one half)
			return []int{0, L / 2}
		}
		return []int{0}
	}

	// --- exhaustive sub-spaces for 8- and 16-bit lanes
	switch {
	case ar == 1 && (p0 == wops.I8x16 || p0 == wops.I16x8):
		w, L := laneGeom(p0)
		per := (1 << uint(w)) / L
		rs := rots(L, false)
		segs = append(segs, seg{kind: "exhaustive-unary", n: per * len(rs), kstride: 1,
			exhaustive: sprintf("all 2^%d lane values (x%d lane rotations)", w, len(rs)),
			gen: func(i int) tuple {
				rot := rs[i/per]
				base := (i % per) * L
				var t tuple
				for j := 0; j < L; j++ {
					t[0].SetLane(w, j, uint64(base+(j+rot)%L))
				}
				return t
			}})
		if strings.Contains(op.Name, "pairwise_i8x16") {
			segs = append(segs, seg{kind: "exhaustive-pairs", n: 65536 / 8, kstride: 4, exhaustive: "all 256x256 adjacent lane pairs",
				gen: func(i int) tuple {
					var t tuple
					for k := 0; k < 8; k++ {
						p := uint64(i*8 + k)
						t[0].SetLane(8, 2*k, p>>8)
						t[0].SetLane(8, 2*k+1, p&0xff)
					}
					return t
				}})
		}
		if strings.Contains(op.Name, "pairwise_i16x8") {
			B := boundaryWindow(cfg)
			per := 65536 / 4
			segs = append(segs, seg{kind: "pairs-16xboundary", n: per * len(B) * 2, kstride: kstrideFor(cfg, per*len(B)*2),
				exhaustive: sprintf("all 65536 values x %d boundary values in adjacent lanes, both orders", len(B)),
				gen: func(i int) tuple {
					var t tuple
					k, o, vi := i/(2*per), i/per%2, i%per
					for q := 0; q < 4; q++ {
						a, b := uint64(vi*4+q), B[k]
						if o == 1 {
							a, b = b, a
						}
						t[0].SetLane(16, 2*q, a)
						t[0].SetLane(16, 2*q+1, b)
					}
					return t
				}})
		}
	case ar == 2 && allSame(wops.I8x16), ar == 2 && op.Class == "vec.bitwise", op.Name == "i8x16.shuffle":
		rs := rots(16, false)
		segs = append(segs, seg{kind: "exhaustive-binary-8", n: 4096 * len(rs), kstride: 1,
			exhaustive: sprintf("all 256x256 lane pairs (x%d lane rotations)", len(rs)),
			gen: func(i int) tuple {
				rot := rs[i/4096]
				var t tuple
				for j := 0; j < 16; j++ {
					p := uint64((i%4096)*16 + (j+rot)%16)
					t[0].SetLane(8, j, (p>>8)+uint64(j)*17) // lane-varying, still exhaustive per lane
					t[1].SetLane(8, j, p&0xff)
				}
				return t
			}})
	case ar == 2 && allSame(wops.I16x8):
		B := boundaryWindow(cfg)
		rs := rots(8, true)
		per := 8192
		n := per * len(B) * 2 * len(rs)
		segs = append(segs, seg{kind: "16-bit-all-x-boundary", n: n, kstride: kstrideFor(cfg, n),
			exhaustive: sprintf("all 65536 lane values x %d boundary values, both orders (x%d lane rotations)", len(B), len(rs)),
			gen: func(i int) tuple {
				var t tuple
				vi := i % per
				o := i / per % 2
				k := i / (2 * per) % len(B)
				rot := rs[i/(2*per*len(B))]
				for j := 0; j < 8; j++ {
					a, b := uint64(vi*8+(j+rot)%8), B[k]
					if o == 1 {
						a, b = b, a
					}
					t[0].SetLane(16, j, a)
					t[1].SetLane(16, j, b)
				}
				return t
			}})
	case ar == 2 && op.Class == "vec.ishift" && (p0 == wops.I8x16 || p0 == wops.I16x8):
		w, L := laneGeom(p0)
		per := (1 << uint(w)) / L
		counts := shiftCounts(w)
		if cfg.quick && w == 16 {
			counts = append(append([]uint64(nil), counts[:w+2]...), windowOf(counts[w+2:], 4, cfg.seed)...)
		}
		n := per * len(counts)
		segs = append(segs, seg{kind: "exhaustive-lanes-x-counts", n: n, kstride: kstrideFor(cfg, n),
			exhaustive: sprintf("all 2^%d lane values x %d shift counts (all of 0..%d and counts beyond the width)", w, len(counts), w+1),
			gen: func(i int) tuple {
				var t tuple
				base := (i % per) * L
				for j := 0; j < L; j++ {
					t[0].SetLane(w, j, uint64(base+j))
				}
				t[1].Lo = counts[i/per]
				return t
			}})
	}
	// scalars feeding narrow lanes: splat / replace_lane
	if op.Class == "vec.splat" || strings.HasSuffix(op.Name, "replace_lane") {
		rw := op.Result.LaneBits()
		if rw <= 16 {
			his := []uint64{0, 0xffffffff &^ (1<<uint(rw) - 1), 1 << uint(rw), 0x80000000}
			n := (1 << uint(rw)) * len(his)
			sid := len(segs)
			segs = append(segs, seg{kind: "exhaustive-scalar-lane", n: n, kstride: kstrideFor(cfg, n),
				exhaustive: sprintf("all 2^%d low scalar values x %d settings of the ignored high bits", rw, len(his)),
				gen: func(i int) tuple {
					var t tuple
					x := uint64(i)&(1<<uint(rw)-1) | his[i>>uint(rw)]
					if ar == 1 {
						t[0].Lo = x
					} else {
						t[0] = randVal(rngFor(sid, i), p0)
						t[1].Lo = x
					}
					return t
				}})
		}
	}

	// --- cross product of boundary sets (lanes packed)
	sets := make([][]uint64, ar)
	total := 1
	for i, p := range op.Params {
		sets[i] = laneSet(p)
		if op.Class == "vec.ishift" && i == 1 {
			_, _ = i, p
			sets[i] = shiftCounts(p0.LaneBits())
		}
		if ar == 3 {
			sets[i] = windowOf(sets[i], 40, cfg.seed+int64(i))
		}
		total *= len(sets[i])
	}
	{
		w0, L := laneGeom(p0)
		vecScalar := ar == 2 && p0.IsVector() && !op.Params[1].IsVector()
		combosPerTuple := L
		nComb := total
		if vecScalar {
			nComb = len(sets[0]) // vector lanes enumerate set 0 in blocks, scalar enumerates set 1
		}
		blocks := (nComb + combosPerTuple - 1) / combosPerTuple
		rs := []int{0}
		if L > 1 {
			rs = rots(L, false)
			if len(rs) > 2 {
				rs = rs[:2]
			}
		}
		n := blocks * len(rs)
		if vecScalar {
			n *= len(sets[1])
		}
		kind := "boundary-cross"
		sid := len(segs)
		segs = append(segs, seg{kind: kind, n: n, kstride: kstrideFor(cfg, n),
			gen: func(i int) tuple {
				var t tuple
				if vecScalar {
					si := i % len(sets[1])
					i /= len(sets[1])
					rot := rs[i/blocks]
					b := i % blocks
					for j := 0; j < L; j++ {
						t[0].SetLane(w0, j, sets[0][(b*L+(j+rot)%L)%len(sets[0])])
					}
					t[1].Lo = sets[1][si]
					return t
				}
				rot := rs[i/blocks]
				b := i % blocks
				for j := 0; j < L; j++ {
					c := (b*L + (j+rot)%L) % total
					for p := 0; p < ar; p++ {
						w, _ := laneGeom(op.Params[p])
						t[p].SetLane(w, j, sets[p][c%len(sets[p])])
						c /= len(sets[p])
					}
				}
				_ = sid
				return t
			}})
	}
	// --- reductions / boolean ops: sparse vectors
	if op.Class == "vec.reduce" || op.Class == "vec.bitwise" {
		w, L := laneGeom(p0)
		sid := len(segs)
		n := 128 + 128 + L*4 + 4
		segs = append(segs, seg{kind: "sparse-vectors", n: n, kstride: 1, exhaustive: "every single-bit and single-zero-bit vector, every single-zero-lane vector",
			gen: func(i int) tuple {
				t := tuple{}
				r := rngFor(sid, i)
				for p := 1; p < ar; p++ {
					t[p] = randVal(r, op.Params[p])
				}
				switch {
				case i < 128: // one bit set
					t[0].SetLane(64, i/64, 1<<uint(i%64))
				case i < 256: // one bit clear
					t[0] = refsem.Val{Lo: ^uint64(0), Hi: ^uint64(0)}
					t[0].SetLane(64, (i-128)/64, ^(uint64(1) << uint((i-128)%64)))
				case i < 256+L*4: // all lanes non-zero except one / sign bits only / low bits only
					k := i - 256
					lane, variant := k%L, k/L
					for j := 0; j < L; j++ {
						x := r.U64() | 1
						switch variant {
						case 1:
							x = 1 << uint(w-1)
						case 2:
							x = 1
						case 3:
							x = 1<<uint(w-1) - 1
						}
						if j == lane {
							x = 0
							if variant == 3 {
								x = 1 << uint(w-1)
							}
						}
						t[0].SetLane(w, j, x)
					}
				case i == 256+L*4:
				case i == 257+L*4:
					t[0] = refsem.Val{Lo: ^uint64(0), Hi: ^uint64(0)}
				default:
					t[0] = randVal(r, p0)
				}
				return t
			}})
	}
	if op.Name == "i32x4.dot_i16x8_s" {
		d := []uint64{0, 1, 2, 0x7fff, 0x8000, 0x8001, 0xffff, 0x4000, 0xc000, 0x00ff, 0x7ffe, 0xb505, 0x5555}
		nd := len(d)
		n := nd * nd * nd * nd / 4
		segs = append(segs, seg{kind: "dot-boundary-4", n: n, kstride: kstrideFor(cfg, n), exhaustive: sprintf("all %d^4 boundary combinations of the four inputs of an output lane", nd),
			gen: func(i int) tuple {
				var t tuple
				for q := 0; q < 4; q++ {
					c := (i*4 + q) % (nd * nd * nd * nd)
					t[0].SetLane(16, 2*q, d[c%nd])
					t[0].SetLane(16, 2*q+1, d[c/nd%nd])
					t[1].SetLane(16, 2*q, d[c/nd/nd%nd])
					t[1].SetLane(16, 2*q+1, d[c/nd/nd/nd])
				}
				return t
			}})
	}
	// --- PRNG
	{
		n := 16384
		if !cfg.quick {
			n = 262144
		}
		if ar == 1 {
			n *= 2
		}
		sid := len(segs)
		segs = append(segs, seg{kind: "prng", n: n, kstride: kstrideFor(cfg, n),
			gen: func(i int) tuple {
				var t tuple
				r := rngFor(sid, i)
				for p := 0; p < ar; p++ {
					t[p] = randVal(r, op.Params[p])
				}
				if op.Name == "i8x16.swizzle" && i%2 == 0 { // mostly in-range indexes
					for j := 0; j < 16; j++ {
						t[1].SetLane(8, j, t[1].Lane(8, j)&0x1f)
					}
				}
				if op.Class == "vec.ishift" && i%2 == 0 {
					t[1].Lo &= 0x7f
				}
				if ar == 2 && op.Params[1] == p0 && i%16 == 0 { // equal operands
					t[1] = t[0]
				}
				return t
			}})
	}
	return segs
}

// boundaryWindow: thorough uses the whole 16-bit boundary set, quick a seed-rotated window of 12.
func boundaryWindow(cfg planCfg) []uint64 {
	if !cfg.quick {
		return setI16
	}
	return windowOf(setI16, 24, cfg.seed)
}

func windowOf(s []uint64, n int, seed int64) []uint64 {
	if len(s) <= n {
		return s
	}
	// a strided pick that rotates with the seed, always containing the first and last elements
	out := []uint64{s[0], s[len(s)-1]}
	start := int(uint64(seed) * 7 % uint64(len(s)))
	step := len(s) / (n - 2)
	if step < 1 {
		step = 1
	}
	for k := 0; len(out) < n; k++ {
		out = append(out, s[(start+k*step)%len(s)])
	}
	return dedupe(out)
}

// kstrideFor bounds the number of tuples baked as constants per segment
// (compiling straight-line code is what costs time in form K).
func kstrideFor(cfg planCfg, n int) int {
	budget := 8192
	if !cfg.quick {
		budget = 65536
	}
	s := (n + budget - 1) / budget
	if s < 1 {
		s = 1
	}
	// avoid strides that are multiples of common block sizes: make it odd
	if s > 1 && s%2 == 0 {
		s++
	}
	return s
}
