// Package c05 decides C05 (numeric instructions compute the specified
// function): every row of the wops opcode table is executed on both engines in
// three operand forms (P: parameters, K: constants baked into the function,
// M: operands loaded from linear memory right before the instruction) over
// exhaustive / boundary / PRNG operand sets, and every result (value bits or
// trap class) is compared with refsem, an independent implementation of the
// specification's numerics. NaN results are accepted exactly within the set the
// specification allows.
package c05

import (
	"context"
	"encoding/hex"
	"encoding/json"
	"fmt"
	"os"
	"sort"
	"strings"

	"github.com/tetratelabs/wazero"
	"github.com/tetratelabs/wazero/api"
	"github.com/tetratelabs/wazero/verifharness/core"
	"github.com/tetratelabs/wazero/verifharness/refsem"
	"github.com/tetratelabs/wazero/verifharness/wenc"
	"github.com/tetratelabs/wazero/verifharness/wops"
)

var Prop = &core.Prop{ID: "C05", Run: run, Child: child}

var sprintf = fmt.Sprintf

const (
	chunkTuples = 4096 // tuples per case (and per guest loop call)
	inBase      = 65536
	outBase     = inBase + chunkTuples*48
	expOff      = chunkTuples * 16 // consumer forms: expected bits of tuple i at outBase+expOff+16*i
	rSlotP      = 64               // form R, P-style: result + up to 3 operand copies
	rSlotM      = 128              // form R, M-style: result + operand copies stored after the op + copies stored before it
	pmPages     = (outBase+chunkTuples*rSlotM)/65536 + 1
	cPerFunc    = 32  // tuples per straight-line consumer function (15 instruction instances each)
	cStride     = 8   // form Kc takes every cStride-th tuple of form K
	kPerFunc    = 256 // tuples per straight-line K function
	directCalls = 24  // tuples per case also called one by one through the Go API (form P)
)

var engines = []string{"interpreter", "compiler"}
var forms = []string{"P", "K", "M"}

// opCase is one supervised unit of work.
type opCase struct {
	Op    string   `json:"op"`
	Seg   int      `json:"seg"`
	Lo    int      `json:"lo"`
	Hi    int      `json:"hi"`
	Imms  []string `json:"imms,omitempty"` // hex immediates (shuffle masks); lane ops derive theirs
	Quick bool     `json:"quick"`
	Seed  int64    `json:"seed"`
	// Sweep: full 2^32 sweep of a binary 16-bit op: operand a in [Lo,Hi), b all 65536 values (form M, compiler)
	Sweep bool `json:"sweep,omitempty"`
	// Pairs: pair forms P2/M2 (two different rows in one function body), Hi tuples per pair
	Pairs []pairSpec `json:"pairs,omitempty"`
}

type finding struct {
	Sig     string `json:"sig"`
	Detail  string `json:"detail"`
	Witness any    `json:"witness"`
	Count   int    `json:"count"`
}

type caseResult struct {
	Evals    map[string]int64 `json:"evals"`         // "engine/form" -> tuples compared
	Imms     []string         `json:"imms"`          // immediates exercised (all forms, both engines)
	Traps    int64            `json:"traps"`         // evaluations whose reference outcome is a trap
	NaNs     int64            `json:"nans"`          // evaluations with a NaN-class (non-deterministic) reference
	Lanes    int64            `json:"lanes"`         // lane-level comparisons
	Checks   int64            `json:"checks"`        // consumer verdicts compared (forms Kc/Mc)
	Pos      map[string]int64 `json:"pos,omitempty"` // pair forms: "engine/first|second/op" -> pair functions
	Findings []finding        `json:"findings,omitempty"`
	Sample   any              `json:"sample,omitempty"`
	Err      string           `json:"err,omitempty"`
}

func immsOf(op *wops.Op, oc *opCase) [][]byte {
	switch op.Imm {
	case wops.ImmLane:
		out := make([][]byte, op.ImmLanes)
		for i := range out {
			out[i] = []byte{byte(i)}
		}
		return out
	case wops.ImmShuffle:
		var out [][]byte
		for _, h := range oc.Imms {
			b, _ := hex.DecodeString(h)
			out = append(out, b)
		}
		return out
	}
	return [][]byte{nil}
}

// ---------------------------------------------------------------------------
// parent

func run(c *core.Ctx) int {
	cfg := planCfg{seed: c.Seed, quick: c.Quick()}
	var cases []json.RawMessage
	type segInfo struct {
		op         *wops.Op
		kind, exh  string
		n, chunks  int
		firstCase  int
		chunksDone int
	}
	var infos []*segInfo
	caseSeg := []int{}
	rng := core.NewRng(c.Seed, 5)
	only := map[string]bool{} // debugging aid: C05_ONLY=name,name restricts the workload (such a run reports BROKEN by design)
	for _, n := range strings.Split(os.Getenv("C05_ONLY"), ",") {
		if n != "" {
			only[n] = true
		}
	}
	for _, op := range wops.Table {
		if len(only) > 0 && !only[op.Name] {
			continue
		}
		if !refsem.Has(op) {
			c.Inconclusive("row-without-reference:" + op.Name)
			continue
		}
		segs := plan(op, cfg)
		nMaskSets := 1
		if op.Imm == wops.ImmShuffle {
			nMaskSets = c.N(6, 48)
		}
		for si, s := range segs {
			info := &segInfo{op: op, kind: s.kind, exh: s.exhaustive, n: s.n, firstCase: len(cases)}
			infos = append(infos, info)
			for ms := 0; ms < nMaskSets; ms++ {
				for lo := 0; lo < s.n; lo += chunkTuples {
					hi := lo + chunkTuples
					if hi > s.n {
						hi = s.n
					}
					oc := opCase{Op: op.Name, Seg: si, Lo: lo, Hi: hi, Quick: cfg.quick, Seed: c.Seed}
					if op.Imm == wops.ImmShuffle {
						if s.kind != "prng" && ms > 0 && s.n > 4096 {
							continue // the big exhaustive segment once per mask set would be too much: first mask set only
						}
						oc.Imms = shuffleMasks(rng, ms == 0 && si == 0)
						if s.n > 512 && s.kind == "prng" {
							oc.Hi = lo + 512
							if oc.Hi > s.n {
								oc.Hi = s.n
							}
						}
					}
					cases = append(cases, core.J(oc))
					caseSeg = append(caseSeg, len(infos)-1)
					info.chunks++
				}
			}
		}
	}
	// thorough: full 2^32 sweep for a seed-chosen pair of binary 16-bit instructions
	var sweepOps []string
	if !c.Quick() {
		var cands []*wops.Op
		for _, op := range wops.Table {
			if len(op.Params) == 2 && op.Params[0] == wops.I16x8 && op.Params[1] == wops.I16x8 && !halfReading(op.Name) {
				cands = append(cands, op)
			}
		}
		for k := 0; k < 2 && len(cands) > 0; k++ {
			i := rng.Intn(len(cands))
			op := cands[i]
			cands = append(cands[:i], cands[i+1:]...)
			sweepOps = append(sweepOps, op.Name)
			for lo := 0; lo < 65536; lo += 512 {
				cases = append(cases, core.J(opCase{Op: op.Name, Lo: lo, Hi: lo + 512, Sweep: true, Seed: c.Seed}))
				caseSeg = append(caseSeg, -1)
			}
		}
	}
	// pair forms: two different rows in one function body
	pairs := choosePairs(core.NewRng(c.Seed, 6), c.Quick())
	if len(only) > 0 {
		var f []pairSpec
		for _, ps := range pairs {
			if only[ps.A] && only[ps.B] {
				f = append(f, ps)
			}
		}
		pairs = f
	}
	for lo := 0; lo < len(pairs); lo += 8 {
		hi := lo + 8
		if hi > len(pairs) {
			hi = len(pairs)
		}
		cases = append(cases, core.J(opCase{Pairs: pairs[lo:hi], Hi: c.N(128, 512), Seed: c.Seed}))
		caseSeg = append(caseSeg, -1)
	}
	c.Extra("pair_functions", len(pairs))
	c.Extra("cases", len(cases))
	c.Extra("table_rows", len(wops.Table))

	// Interleave so that the heavy segments of one instruction spread over children.
	res := core.RunCases(c, "op", cases, core.ChildOpts{Batch: 4, TimeoutS: 1200, RlimitAS: 6 << 30})

	type cov struct {
		evals map[string]int64
		imms  map[string]bool
	}
	covs := map[string]*cov{}
	var evals int64
	pairPos := map[string]int64{}
	sweepDone := map[string]int{}
	for i, r := range res {
		var oc opCase
		json.Unmarshal(cases[i], &oc)
		op := wops.ByName(oc.Op)
		if len(oc.Pairs) > 0 {
			oc.Op = oc.Pairs[0].A + "+" + oc.Pairs[0].B + "(+more)"
		}
		if r.Crash != nil {
			if r.Crash.Kind == "timeout" {
				c.Inconclusive("watchdog")
				continue
			}
			c.Violate("crash:"+oc.Op+":"+r.Crash.Kind+":"+firstWords(r.Crash.Detail), r.Crash.Detail,
				map[string]any{"case": json.RawMessage(cases[i]), "crash": r.Crash})
			continue
		}
		var cr caseResult
		if err := json.Unmarshal(r.Out, &cr); err != nil {
			c.Inconclusive("bad-child-output")
			continue
		}
		if cr.Err != "" {
			// the module did not compile / instantiate: either the table or wazero's decoder is wrong
			c.Violate("harness:"+oc.Op+":"+firstWords(cr.Err), cr.Err, map[string]any{"case": json.RawMessage(cases[i])})
			continue
		}
		if len(oc.Pairs) > 0 {
			for k, n := range cr.Evals {
				evals += n
				c.Count("evals_form_"+k[strings.IndexByte(k, '/')+1:], n)
				c.Count("evals_engine_"+k[:strings.IndexByte(k, '/')], n)
			}
			for k, n := range cr.Pos {
				pairPos[k] += n
			}
			for _, ps := range oc.Pairs {
				c.Distinct("pair_kinds", wops.ByName(ps.A).Class+"+"+wops.ByName(ps.B).Class)
			}
			for _, f := range cr.Findings {
				c.Violate(f.Sig, f.Detail, map[string]any{"finding": f.Witness, "occurrences_in_case": f.Count, "case": json.RawMessage(cases[i])})
			}
			continue
		}
		cv := covs[oc.Op]
		if cv == nil {
			cv = &cov{evals: map[string]int64{}, imms: map[string]bool{}}
			covs[oc.Op] = cv
		}
		for k, n := range cr.Evals {
			cv.evals[k] += n
			evals += n
			f := k[strings.IndexByte(k, '/')+1:]
			c.Count("evals_form_"+f, n)
			c.Count("evals_engine_"+k[:strings.IndexByte(k, '/')], n)
			c.Count("evals_class_"+op.Class+"_"+f, n)
		}
		for _, im := range cr.Imms {
			cv.imms[im] = true
		}
		c.Count("evals_expecting_trap", cr.Traps)
		c.Count("evals_with_nan_class_reference", cr.NaNs)
		c.Count("lane_comparisons", cr.Lanes)
		c.Count("consumer_verdicts", cr.Checks)
		if oc.Sweep {
			sweepDone[oc.Op]++
			c.Count("sweep_pairs_16bit", int64(oc.Hi-oc.Lo)*65536)
		} else if si := caseSeg[i]; si >= 0 {
			infos[si].chunksDone++
			c.Count("evals_segment_"+infos[si].kind, sum(cr.Evals))
		}
		if cr.Sample != nil && (i%(len(cases)/6+1) == 0 || len(cr.Findings) > 0) {
			c.Sample(cr.Sample)
		}
		for _, f := range cr.Findings {
			c.Violate(f.Sig, f.Detail, map[string]any{"finding": f.Witness, "occurrences_in_case": f.Count, "case": json.RawMessage(cases[i])})
		}
	}
	// exhaustive sub-spaces that were completely executed
	exh := map[string]int{}
	for _, in := range infos {
		if in.exh != "" && in.chunks > 0 && in.chunksDone == in.chunks {
			exh[in.kind+": "+in.exh]++
			c.Distinct("exhaustive_ops_"+in.kind, in.op.Name)
		}
	}
	c.Extra("exhaustive_subspaces_completed(ops)", exh)
	for op, n := range sweepDone {
		if n == 128 {
			c.Distinct("full_2^32_sweep", op)
		}
	}
	c.Extra("sweep_ops", sweepOps)

	// every row x every form x both engines (and every lane immediate) must have been exercised
	broken := 0
	var missing []string
	for _, op := range wops.Table {
		cv := covs[op.Name]
		ok := cv != nil
		for _, e := range engines {
			for _, f := range requiredForms(op) {
				if cv == nil || cv.evals[e+"/"+f] == 0 {
					ok = false
					missing = append(missing, op.Name+":"+e+"/"+f)
				}
			}
		}
		for _, e := range engines {
			for _, pos := range []string{"first", "second"} {
				if pairPos[e+"/"+pos+"/"+op.Name] == 0 {
					ok = false
					missing = append(missing, op.Name+":"+e+"/pair-"+pos)
				}
			}
		}
		if ok && op.Imm == wops.ImmLane && len(cv.imms) != op.ImmLanes {
			ok = false
			missing = append(missing, op.Name+":lane-immediates")
		}
		if ok {
			c.Distinct("opcodes_covered", op.Name)
			c.Distinct("classes_covered", op.Class)
		} else {
			broken++
		}
	}
	if broken > 0 {
		sort.Strings(missing)
		if len(missing) > 40 {
			missing = missing[:40]
		}
		c.Extra("rows_not_fully_exercised", missing)
		c.Inconclusive("row-not-exercised-in-every-form")
	}
	c.Extra("opcodes_covered_of_table", sprintf("%d of %d", c.DistinctN("opcodes_covered"), len(wops.Table)))
	c.Assume("refsem is the oracle: validated against 47209 spec-test vectors (go test ./refsem) and against math/big / Go math on random inputs")
	c.Assume("NaN results: canonical NaN (either sign) required when no operand is a non-canonical NaN, any arithmetic NaN otherwise; abs/neg/copysign/pmin/pmax/reinterpret/lane moves are bit-exact")
	c.Assume("extra forms: Kl/Kr (only the first / only the last operand constant) for instructions with >=2 operands; Mxx (one loaded value as both operands) for binary instructions with equal operand types; Mif/Mbr/Msel (0/1 result consumed by if / br_if / select) for tests, comparisons, any_true/all_true; they count as required for the rows they apply to")
	c.Assume("consumer forms Kc/Mc (required for every row with an i32 or f32 result): the result is consumed inside the guest by i32.ne/eq/lt_u/ge_u/gt_u/le_u/lt_s, i64.extend_i32_u/s+i64.eq, xor+eqz, and after passing through a local, a global, a call parameter and select, against the expected bits from refsem (f32 via i32.reinterpret_f32); results with spec-open NaN bits are skipped")
	c.Assume("pair forms P2/M2: one function body applies two different rows (both results checked); every row must occur as first and as second instruction on both engines; partners: all rows of the same class and operand shape (quick: all if the group has <=4 rows, else 4 by PRNG), plus rows of the same class with another shape and arbitrary rows by PRNG; trapping operand tuples are not used in pair forms")
	c.Assume("form R (operand preservation, required for every row): r = op(x, y, ..) on non-constant operands, then every operand is read again from the same param/local after the instruction: (a) multi-value function (result r x y ..) called from a guest loop and through the Go API, (b) guest loop with operands in locals, stored once before the instruction (value live in a register) and once after it; r must satisfy refsem and every operand copy must be bit-identical; every 4th tuple for segments above 65536 tuples, all tuples otherwise; trapping tuples excluded")
	c.Assume("form K bakes a strided subset of each segment as constants (all tuples for 8-bit and unary 16-bit exhaustive segments); forms P and M run every tuple")
	code := c.Finish(evals, int64(c.DistinctN("opcodes_covered")),
		"one evaluation = one executed instruction instance (engine, form, immediate, operand tuple) compared with refsem; distinct = table rows exercised in all three forms on both engines (all lane immediates for lane ops)")
	if code == 0 && broken > 0 {
		fmt.Printf("BROKEN: %d table rows were not exercised in every form on both engines: %v\n", broken, missing)
		return 2
	}
	return code
}

// requiredForms: P, K, M for every row, plus the variants that apply to the row.
func requiredForms(op *wops.Op) []string {
	out := append([]string(nil), forms...)
	if len(op.Params) >= 2 {
		out = append(out, "Kl", "Kr")
	}
	if sameOperandForm(op) {
		out = append(out, "Mxx")
	}
	if isBoolean(op) {
		out = append(out, "Mif", "Mbr", "Msel")
	}
	if consumerForm(op) {
		out = append(out, "Kc", "Mc")
	}
	out = append(out, "R")
	return out
}

func sum(m map[string]int64) int64 {
	var s int64
	for _, v := range m {
		s += v
	}
	return s
}

func firstWords(s string) string {
	f := strings.Fields(s)
	if len(f) > 6 {
		f = f[:6]
	}
	return strings.Join(f, "_")
}

func shuffleMasks(r *core.Rng, special bool) []string {
	var out []string
	add := func(b []byte) { out = append(out, hex.EncodeToString(b)) }
	if special {
		id, hi, rev, z, last, il := make([]byte, 16), make([]byte, 16), make([]byte, 16), make([]byte, 16), make([]byte, 16), make([]byte, 16)
		for i := 0; i < 16; i++ {
			id[i], hi[i], rev[i], z[i], last[i] = byte(i), byte(16+i), byte(31-i), 0, 31
			il[i] = byte(i/2 + 16*(i%2))
		}
		add(id)
		add(hi)
		add(rev)
		add(z)
		add(last)
		add(il)
	}
	for len(out) < 12 {
		b := make([]byte, 16)
		mode := r.Intn(4)
		for i := range b {
			switch mode {
			case 0:
				b[i] = byte(r.Intn(32))
			case 1:
				b[i] = byte(r.Intn(16)) // only first operand
			case 2:
				b[i] = byte(16 + r.Intn(16))
			}
		}
		if mode == 3 {
			k := r.Intn(32)
			for i := range b {
				b[i] = byte((i + k) & 31)
			}
		}
		add(b)
	}
	return out
}

// ---------------------------------------------------------------------------
// child

type engineEnv struct {
	name string
	rt   wazero.Runtime
}

var (
	ctx  = context.Background()
	envs []*engineEnv
	// P/M module instances of the last instruction used (consecutive cases mostly share it)
	pmKey  string
	pmMods []api.Module
)

func getEnvs() []*engineEnv {
	if envs == nil {
		envs = []*engineEnv{
			{"interpreter", wazero.NewRuntimeWithConfig(ctx, wazero.NewRuntimeConfigInterpreter())},
			{"compiler", wazero.NewRuntimeWithConfig(ctx, wazero.NewRuntimeConfigCompiler())},
		}
	}
	return envs
}

func loadOp(c *wenc.Code, s wops.Shape, off uint32) {
	switch s.ValType() {
	case wenc.I32:
		c.Mem(0x28, 0, off)
	case wenc.I64:
		c.Mem(0x29, 0, off)
	case wenc.F32:
		c.Mem(0x2a, 0, off)
	case wenc.F64:
		c.Mem(0x2b, 0, off)
	default:
		c.Prefixed(0xfd, 0).U32(0).U32(off)
	}
}

func storeOp(c *wenc.Code, s wops.Shape, off uint32) {
	switch s.ValType() {
	case wenc.I32:
		c.Mem(0x36, 0, off)
	case wenc.I64:
		c.Mem(0x37, 0, off)
	case wenc.F32:
		c.Mem(0x38, 0, off)
	case wenc.F64:
		c.Mem(0x39, 0, off)
	default:
		c.Prefixed(0xfd, 0x0b).U32(0).U32(off)
	}
}

func constOp(c *wenc.Code, s wops.Shape, v refsem.Val) {
	switch s.ValType() {
	case wenc.I32:
		c.I32Const(int32(uint32(v.Lo)))
	case wenc.I64:
		c.I64Const(int64(v.Lo))
	case wenc.F32:
		c.F32Const(uint32(v.Lo))
	case wenc.F64:
		c.F64Const(v.Lo)
	default:
		c.V128Const(v.Lo, v.Hi)
	}
}

// isBoolean: the instruction yields 0/1 and is typically consumed by control flow
// (compare+branch and compare+select fusion in the compiler).
func isBoolean(op *wops.Op) bool {
	switch op.Class {
	case "int.test", "int.cmp", "float.cmp":
		return true
	case "vec.reduce":
		return strings.HasSuffix(op.Name, "_true")
	}
	return false
}

// sameOperandForm: binary instructions whose operands have the same type also run
// with one SSA value as both operands (form "Mxx": register aliasing in lowerings).
func sameOperandForm(op *wops.Op) bool {
	return len(op.Params) == 2 && op.Params[0].ValType() == op.Params[1].ValType()
}

// loop variants of the P/M module: export prefix -> evidence form
var loopForms = []struct{ fn, form string }{{"m", "M"}, {"pl", "P"}}
var boolForms = []struct{ fn, form string }{{"bi", "Mif"}, {"bb", "Mbr"}, {"bs", "Msel"}}

// buildPM builds the module with, per immediate k: p<k> (the bare instruction on
// parameters), pl<k> (guest loop: load tuple from memory, call p<k>, store) and
// m<k> (guest loop with the instruction applied directly to the loaded values).
// For 0/1-valued instructions additionally bi<k>/bb<k>/bs<k>: the result is
// consumed by if / br_if / select instead of being stored (stored is 1/0, 1/0, 7/9).
func buildPM(op *wops.Op, imms [][]byte) []byte {
	m := &wenc.Module{}
	m.Mems = []wenc.Limits{{Min: pmPages}}
	m.Exports = append(m.Exports, wenc.Export{Name: "memory", Kind: wenc.ExtMemory})
	ar := len(op.Params)
	stride := int32(16 * ar)
	loopSig := []wenc.ValType{wenc.I32, wenc.I32, wenc.I32}
	variants := []string{"pl", "m"}
	if isBoolean(op) {
		variants = append(variants, "bi", "bb", "bs")
	}
	if sameOperandForm(op) {
		variants = append(variants, "mx")
	}
	var cGlobal, cFn uint32
	if consumerForm(op) {
		variants = append(variants, "mc")
		cGlobal, cFn = addConsumerSupport(m, op.Result)
	}
	for k, imm := range imms {
		pc := &wenc.Code{}
		for i := 0; i < ar; i++ {
			pc.LocalGet(uint32(i))
		}
		op.Emit(pc, imm).End()
		pIdx := m.AddFunc(op.ParamTypes(), op.ResultTypes(), nil, pc.B)
		m.ExportFunc(sprintf("p%d", k), pIdx)
		for _, v := range variants {
			lc := &wenc.Code{}
			lc.Loop(0x40)
			if v != "mc" {
				lc.LocalGet(1)
			}
			loads := func() {
				for i := 0; i < ar; i++ {
					lc.LocalGet(0)
					loadOp(lc, op.Params[i], uint32(16*i))
				}
			}
			res := op.Result
			switch v {
			case "pl":
				loads()
				lc.Call(pIdx)
			case "m":
				loads()
				op.Emit(lc, imm)
			case "mx": // one loaded value used as both operands
				lc.LocalGet(0)
				loadOp(lc, op.Params[0], 0)
				lc.LocalTee(3).LocalGet(3)
				op.Emit(lc, imm)
			case "mc":
				emitConsumers(lc, consumerEnv{res: op.Result, local: 3, global: cGlobal, cmpFn: cFn,
					pushAddr: func() { lc.LocalGet(1) },
					evalOp:   func() { loads(); op.Emit(lc, imm) },
					exp32:    func() { lc.LocalGet(1).Mem(0x28, 0, expOff) },
					exp64u:   func() { lc.LocalGet(1).Mem(0x35, 0, expOff) },
					exp64s:   func() { lc.LocalGet(1).Mem(0x34, 0, expOff) },
				})
			case "bi":
				loads()
				op.Emit(lc, imm)
				lc.If(wenc.I32).I32Const(1).Else().I32Const(0).End()
				res = wops.I32
			case "bb":
				lc.Block(wenc.I32).I32Const(1)
				loads()
				op.Emit(lc, imm)
				lc.BrIf(0).Drop().I32Const(0).End()
				res = wops.I32
			case "bs":
				lc.I32Const(7).I32Const(9)
				loads()
				op.Emit(lc, imm)
				lc.Select()
				res = wops.I32
			}
			if v != "mc" {
				storeOp(lc, res, 0)
			}
			lc.LocalGet(0).I32Const(stride).Op(0x6a).LocalSet(0)
			lc.LocalGet(1).I32Const(16).Op(0x6a).LocalSet(1)
			lc.LocalGet(2).I32Const(1).Op(0x6b).LocalTee(2)
			lc.BrIf(0).End().End()
			var locals []wenc.ValType
			if v == "mx" {
				locals = []wenc.ValType{op.Params[0].ValType()}
			}
			if v == "mc" {
				locals = []wenc.ValType{op.Result.ValType()}
			}
			m.ExportFunc(sprintf("%s%d", v, k), m.AddFunc(loopSig, nil, locals, lc.B))
		}
		// ---- form R (operand preservation): the operands are read again from the same
		// params/locals after the instruction and must be unchanged.
		rc := &wenc.Code{}
		for i := 0; i < ar; i++ {
			rc.LocalGet(uint32(i))
		}
		op.Emit(rc, imm)
		for i := 0; i < ar; i++ {
			rc.LocalGet(uint32(i))
		}
		rc.End()
		rResults := append(op.ResultTypes(), op.ParamTypes()...)
		rIdx := m.AddFunc(op.ParamTypes(), rResults, nil, rc.B)
		m.ExportFunc(sprintf("r%d", k), rIdx)
		loopTail := func(lc *wenc.Code, slot int32) {
			lc.LocalGet(0).I32Const(stride).Op(0x6a).LocalSet(0)
			lc.LocalGet(1).I32Const(slot).Op(0x6a).LocalSet(1)
			lc.LocalGet(2).I32Const(1).Op(0x6b).LocalTee(2)
			lc.BrIf(0).End().End()
		}
		// rl<k>: P-style through the multi-value function
		lc := &wenc.Code{}
		lc.Loop(0x40)
		for i := 0; i < ar; i++ {
			lc.LocalGet(0)
			loadOp(lc, op.Params[i], uint32(16*i))
		}
		lc.Call(rIdx)
		for i := ar - 1; i >= 0; i-- {
			lc.LocalSet(uint32(4 + i))
		}
		lc.LocalSet(3)
		lc.LocalGet(1).LocalGet(3)
		storeOp(lc, op.Result, 0)
		for i := 0; i < ar; i++ {
			lc.LocalGet(1).LocalGet(uint32(4 + i))
			storeOp(lc, op.Params[i], uint32(16*(1+i)))
		}
		loopTail(lc, rSlotP)
		m.ExportFunc(sprintf("rl%d", k), m.AddFunc(loopSig, nil, rResults, lc.B))
		// rm<k>: M-style: operands loaded into locals, stored once before the instruction
		// (so the value is live in a register) and again after it
		lc = &wenc.Code{}
		lc.Loop(0x40)
		for i := 0; i < ar; i++ {
			lc.LocalGet(0)
			loadOp(lc, op.Params[i], uint32(16*i))
			lc.LocalSet(uint32(3 + i))
		}
		for i := 0; i < ar; i++ {
			lc.LocalGet(1).LocalGet(uint32(3 + i))
			storeOp(lc, op.Params[i], uint32(16*(4+i)))
		}
		lc.LocalGet(1)
		for i := 0; i < ar; i++ {
			lc.LocalGet(uint32(3 + i))
		}
		op.Emit(lc, imm)
		storeOp(lc, op.Result, 0)
		for i := 0; i < ar; i++ {
			lc.LocalGet(1).LocalGet(uint32(3 + i))
			storeOp(lc, op.Params[i], uint32(16*(1+i)))
		}
		loopTail(lc, rSlotM)
		m.ExportFunc(sprintf("rm%d", k), m.AddFunc(loopSig, nil, op.ParamTypes(), lc.B))
	}
	return m.Encode()
}

// K-form variants: which operands are constants. "K": all (the required form);
// "Kl": only the first, "Kr": only the last (the others are loaded from memory),
// for instructions with two or more operands.
func kVariants(op *wops.Op) []string {
	if len(op.Params) >= 2 {
		return []string{"K", "Kl", "Kr"}
	}
	return []string{"K"}
}

func kIsConst(variant string, p, ar int) bool {
	switch variant {
	case "Kl":
		return p == 0
	case "Kr":
		return p == ar-1
	}
	return true
}

// buildK builds straight-line functions with operands baked in as constants.
// For variant v (index vi) and block j, function "<v><j>"() evaluates tuples
// idx[j*kPerFunc ...] and stores result i at 16*(vi*n+i); "<v>t<j>"() evaluates a
// single tuple that is expected to trap. Non-constant operands of the mixed
// variants come from a data segment.
// cSel lists positions q in idx whose tuples also get the consumer form Kc (verdict
// bytes of the j-th selected tuple at 16*(len(vars)*n+j)); exp gives their expected bits.
func buildK(op *wops.Op, imm []byte, tuples []tuple, idx []int, trapIdx []int, cSel []int, exp func(q int) uint32) ([]byte, int) {
	m := &wenc.Module{}
	ar := len(op.Params)
	vars := kVariants(op)
	n := len(idx)
	opBase := 16 * (n*len(vars) + len(cSel))
	all := append(append([]int(nil), idx...), trapIdx...)
	data := make([]byte, 16*ar*len(all))
	for i, ti := range all {
		for p := 0; p < ar; p++ {
			putVal(data[16*(i*ar+p):], tuples[ti][p])
		}
	}
	pages := uint32((opBase+len(data))/65536 + 1)
	m.Mems = []wenc.Limits{{Min: pages}}
	m.Exports = append(m.Exports, wenc.Export{Name: "memory", Kind: wenc.ExtMemory})
	if len(vars) > 1 {
		m.Datas = []wenc.Data{{Mode: 0, Offset: wenc.ConstI32(int32(opBase)), Bytes: data}}
	}
	operands := func(c *wenc.Code, v string, i int) {
		for p := 0; p < ar; p++ {
			if kIsConst(v, p, ar) {
				constOp(c, op.Params[p], tuples[all[i]][p])
			} else {
				c.I32Const(int32(opBase + 16*(i*ar+p)))
				loadOp(c, op.Params[p], 0)
			}
		}
	}
	if len(cSel) > 0 {
		g, fn := addConsumerSupport(m, op.Result)
		cbase := 16 * n * len(vars)
		for lo, j := 0, 0; lo < len(cSel); lo, j = lo+cPerFunc, j+1 {
			hi := lo + cPerFunc
			if hi > len(cSel) {
				hi = len(cSel)
			}
			c := &wenc.Code{}
			for k := lo; k < hi; k++ {
				k, q := k, cSel[k]
				e := exp(q)
				emitConsumers(c, consumerEnv{res: op.Result, local: 0, global: g, cmpFn: fn,
					pushAddr: func() { c.I32Const(int32(cbase + 16*k)) },
					evalOp:   func() { operands(c, "K", q); op.Emit(c, imm) },
					exp32:    func() { c.I32Const(int32(e)) },
					exp64u:   func() { c.I64Const(int64(uint64(e))) },
					exp64s:   func() { c.I64Const(int64(int32(e))) },
				})
			}
			c.End()
			m.ExportFunc(sprintf("Kc%d", j), m.AddFunc(nil, nil, []wenc.ValType{op.Result.ValType()}, c.B))
		}
	}
	nf := 0
	for vi, v := range vars {
		nf = 0
		for lo := 0; lo < n; lo += kPerFunc {
			hi := lo + kPerFunc
			if hi > n {
				hi = n
			}
			c := &wenc.Code{}
			for i := lo; i < hi; i++ {
				c.I32Const(int32(16 * (vi*n + i)))
				operands(c, v, i)
				op.Emit(c, imm)
				storeOp(c, op.Result, 0)
			}
			c.End()
			m.ExportFunc(sprintf("%s%d", v, nf), m.AddFunc(nil, nil, nil, c.B))
			nf++
		}
		for j := range trapIdx {
			c := &wenc.Code{}
			operands(c, v, n+j)
			op.Emit(c, imm).End()
			m.ExportFunc(sprintf("%st%d", v, j), m.AddFunc(nil, op.ResultTypes(), nil, c.B))
		}
	}
	return m.Encode(), nf
}

type runner struct {
	op   *wops.Op
	oc   *opCase
	res  *caseResult
	seen map[string]int
}

func (rn *runner) report(engine, form, kind string, imm []byte, t tuple, want refsem.Result, got string, extra string) {
	sig := sprintf("%s:%s:%s:%s", engine, rn.op.Name, form, kind)
	if i, ok := rn.seen[sig]; ok {
		rn.res.Findings[i].Count++
		return
	}
	ar := len(rn.op.Params)
	var args []string
	for p := 0; p < ar; p++ {
		args = append(args, fmtVal(rn.op.Params[p], t[p]))
	}
	wantS := want.String()
	if want.Trap == refsem.NoTrap && want.Deterministic() {
		wantS = fmtVal(want.Shape, want.V)
	}
	det := sprintf("%s %s(%s) form %s on %s: got %s, specification: %s %s", rn.op.Name, immStr(imm), strings.Join(args, ", "), form, engine, got, wantS, extra)
	rn.seen[sig] = len(rn.res.Findings)
	rn.res.Findings = append(rn.res.Findings, finding{Sig: sig, Detail: det, Count: 1, Witness: map[string]any{
		"op": rn.op.Name, "encoding": rn.op.EncodingString(), "immediate": hex.EncodeToString(imm), "operands": args, "form": form, "engine": engine,
		"expected": wantS, "got": got,
		"wat": watOf(rn.op, imm, t, form),
	}})
}

func immStr(imm []byte) string {
	if len(imm) == 0 {
		return ""
	}
	return sprintf("imm=%x ", imm)
}

func fmtVal(s wops.Shape, v refsem.Val) string {
	if s.IsVector() {
		w, L := laneGeom(s)
		var ls []string
		for i := 0; i < L; i++ {
			ls = append(ls, sprintf("0x%0*x", w/4, v.Lane(w, i)))
		}
		return sprintf("%s[%s]", s, strings.Join(ls, " "))
	}
	w := s.LaneBits()
	return sprintf("%s:0x%0*x", s, w/4, v.Lane(w, 0))
}

func watOf(op *wops.Op, imm []byte, t tuple, form string) string {
	var sb strings.Builder
	cst := func(p int) string {
		s := op.Params[p]
		switch s.ValType() {
		case wenc.V128:
			return sprintf("(v128.const i64x2 0x%016x 0x%016x)", t[p].Lo, t[p].Hi)
		case wenc.F32:
			return sprintf("(f32.reinterpret_i32 (i32.const 0x%08x)) ;; as f32.const bits", uint32(t[p].Lo))
		case wenc.F64:
			return sprintf("(f64.reinterpret_i64 (i64.const 0x%016x)) ;; as f64.const bits", t[p].Lo)
		case wenc.I64:
			return sprintf("(i64.const 0x%x)", t[p].Lo)
		}
		return sprintf("(i32.const 0x%x)", uint32(t[p].Lo))
	}
	sb.WriteString("(func (export \"f\")")
	if form == "P" {
		for _, p := range op.ParamTypes() {
			sb.WriteString(" (param " + wenc.TypeName(p) + ")")
		}
	}
	sb.WriteString(" (result " + wenc.TypeName(op.Result.ValType()) + ")")
	for p := range op.Params {
		switch form {
		case "P":
			sb.WriteString(sprintf(" (local.get %d)", p))
		case "K":
			sb.WriteString(" " + cst(p))
		default:
			sb.WriteString(sprintf(" (%s.load offset=%d (i32.const 0))", wenc.TypeName(op.Params[p].ValType()), 16*p))
		}
	}
	sb.WriteString(" " + op.Name)
	for _, b := range imm {
		sb.WriteString(sprintf(" %d", b))
	}
	sb.WriteString(")")
	if form != "K" {
		sb.WriteString(" ;; operands:")
		for p := range op.Params {
			sb.WriteString(" " + cst(p))
		}
	}
	return sb.String()
}

func putVal(b []byte, v refsem.Val) {
	for i := 0; i < 8; i++ {
		b[i] = byte(v.Lo >> (8 * uint(i)))
		b[8+i] = byte(v.Hi >> (8 * uint(i)))
	}
}

func getVal(b []byte) refsem.Val { return refsem.FromBytes(b[:16]) }

func pushArgs(dst []uint64, op *wops.Op, t tuple) []uint64 {
	dst = dst[:0]
	for p, s := range op.Params {
		dst = append(dst, t[p].Lo)
		if s.IsVector() {
			dst = append(dst, t[p].Hi)
		}
	}
	return dst
}

func child(mode string, in json.RawMessage) any {
	var oc opCase
	if err := json.Unmarshal(in, &oc); err != nil {
		return caseResult{Err: "bad case: " + err.Error()}
	}
	op := wops.ByName(oc.Op)
	if op == nil && len(oc.Pairs) == 0 {
		return caseResult{Err: "unknown op " + oc.Op}
	}
	res := &caseResult{Evals: map[string]int64{}}
	rn := &runner{op: op, oc: &oc, res: res, seen: map[string]int{}}
	if len(oc.Pairs) > 0 {
		rn.runPairs()
		return res
	}
	if oc.Sweep {
		rn.sweep()
		return res
	}
	segs := plan(op, planCfg{seed: oc.Seed, quick: oc.Quick})
	if oc.Seg >= len(segs) {
		return caseResult{Err: "bad segment"}
	}
	sg := segs[oc.Seg]
	tuples := make([]tuple, 0, oc.Hi-oc.Lo)
	for i := oc.Lo; i < oc.Hi; i++ {
		tuples = append(tuples, sg.gen(i))
	}
	imms := immsOf(op, &oc)
	if err := rn.loadPM(imms); err != nil {
		res.Err = err.Error()
		return res
	}
	for k, imm := range imms {
		rn.runImm(k, imm, tuples, sg, oc.Lo)
		res.Imms = append(res.Imms, hex.EncodeToString(imm))
	}
	return res
}

func (rn *runner) loadPM(imms [][]byte) error {
	key := rn.op.Name
	for _, im := range imms {
		key += ":" + hex.EncodeToString(im)
	}
	if key == pmKey {
		return nil
	}
	for _, m := range pmMods {
		m.Close(ctx)
	}
	pmMods, pmKey = nil, ""
	bin := buildPM(rn.op, imms)
	for _, e := range getEnvs() {
		mod, err := e.rt.InstantiateWithConfig(ctx, bin, wazero.NewModuleConfig().WithName(""))
		if err != nil {
			return fmt.Errorf("%s: instantiate P/M module of %s: %v", e.name, rn.op.Name, err)
		}
		pmMods = append(pmMods, mod)
	}
	pmKey = key
	return nil
}

// check compares one result and returns whether it was accepted.
func (rn *runner) check(engine, form string, imm []byte, t tuple, want refsem.Result, got refsem.Val) bool {
	if want.Accepts(got) {
		return true
	}
	extra := ""
	if rn.op.Result.IsVector() {
		w, L := laneGeom(rn.op.Result)
		for i := 0; i < L; i++ {
			one := want
			_ = one
			if got.Lane(w, i) != want.V.Lane(w, i) {
				extra = sprintf("(first differing lane %d: got 0x%x want 0x%x)", i, got.Lane(w, i), want.V.Lane(w, i))
				break
			}
		}
	}
	rn.report(engine, form, "wrong-result", imm, t, want, fmtVal(rn.op.Result, got), extra)
	return false
}

func (rn *runner) runImm(k int, imm []byte, tuples []tuple, sg seg, base int) {
	op := rn.op
	ar := len(op.Params)
	refs := make([]refsem.Result, len(tuples))
	var okIdx, trapIdx []int
	for i := range tuples {
		refs[i] = refsem.Eval(op, imm, tuples[i][:ar])
		if refs[i].Trap != refsem.NoTrap {
			trapIdx = append(trapIdx, i)
		} else {
			okIdx = append(okIdx, i)
			if !refs[i].Deterministic() {
				rn.res.NaNs++
			}
		}
	}
	lanesPer := int64(op.Result.Lanes())
	if rn.res.Sample == nil && len(okIdx) > 0 {
		i := okIdx[len(okIdx)/2]
		var args []string
		for p := 0; p < ar; p++ {
			args = append(args, fmtVal(op.Params[p], tuples[i][p]))
		}
		rn.res.Sample = map[string]any{"op": op.Name, "imm": hex.EncodeToString(imm), "segment": sg.kind, "operands": args, "reference": refs[i].String()}
	}
	// K-form selection
	var kIdx, kTrap []int
	for _, i := range okIdx {
		if (base+i)%sg.kstride == 0 {
			kIdx = append(kIdx, i)
		}
	}
	for _, i := range trapIdx {
		if len(kTrap) < 64 {
			kTrap = append(kTrap, i)
		}
	}
	var kbin []byte
	var nk int
	// consumer forms: tuples with one well-defined expected value
	var cSel []int // positions in kIdx (form Kc)
	var cIdx []int // tuple indexes (form Mc)
	if consumerForm(op) {
		for _, i := range okIdx {
			if refs[i].Deterministic() {
				cIdx = append(cIdx, i)
			}
		}
		nth := 0
		for q, i := range kIdx {
			if refs[i].Deterministic() {
				if nth%cStride == 0 {
					cSel = append(cSel, q)
				}
				nth++
			}
		}
	}
	cWant := consumerWant()
	if len(kIdx)+len(kTrap) > 0 {
		kbin, nk = buildK(op, imm, tuples, kIdx, kTrap, cSel, func(q int) uint32 { return expectedBits(refs[kIdx[q]]) })
	}
	stride := 16 * ar
	buf := make([]byte, len(okIdx)*stride)
	for j, i := range okIdx {
		for p := 0; p < ar; p++ {
			putVal(buf[j*stride+16*p:], tuples[i][p])
		}
	}
	one := make([]byte, stride)
	var argbuf []uint64

	for ei, e := range getEnvs() {
		mod := pmMods[ei]
		mem := mod.Memory()
		// ---- forms M and P through the guest loops
		lfs := loopForms
		if isBoolean(op) {
			lfs = append(append(lfs[:0:0], lfs...), boolForms...)
		}
		for _, lf := range lfs {
			f := mod.ExportedFunction(sprintf("%s%d", lf.fn, k))
			if len(okIdx) > 0 {
				mem.Write(inBase, buf)
				_, err := f.Call(ctx, inBase, outBase, uint64(len(okIdx)))
				if err != nil {
					// some tuple trapped (or worse) although the reference does not: find it one by one
					found := false
					for _, i := range okIdx {
						for p := 0; p < ar; p++ {
							putVal(one[16*p:], tuples[i][p])
						}
						mem.Write(inBase, one)
						if _, err1 := f.Call(ctx, inBase, outBase, 1); err1 != nil {
							rn.report(e.name, lf.form, "wrong-trap", imm, tuples[i], refs[i], "error: "+core.Trunc(err1.Error(), 200), "")
							found = true
							break
						}
					}
					if !found {
						rn.report(e.name, lf.form, "wrong-trap", imm, tuples[okIdx[0]], refs[okIdx[0]], "batch error not reproducible singly: "+core.Trunc(err.Error(), 200), "")
					}
				} else {
					out, _ := mem.Read(outBase, uint32(16*len(okIdx)))
					for j, i := range okIdx {
						rn.check(e.name, lf.form, imm, tuples[i], consumed(lf.form, refs[i]), getVal(out[16*j:]))
					}
					rn.res.Evals[e.name+"/"+lf.form] += int64(len(okIdx))
					rn.res.Lanes += int64(len(okIdx)) * lanesPer
				}
			}
			for _, i := range trapIdx {
				for p := 0; p < ar; p++ {
					putVal(one[16*p:], tuples[i][p])
				}
				mem.Write(inBase, one)
				_, err := f.Call(ctx, inBase, outBase, 1)
				rn.checkTrap(e.name, lf.form, imm, tuples[i], refs[i], err, mem)
				rn.res.Evals[e.name+"/"+lf.form]++
				rn.res.Traps++
			}
		}
		// ---- form R: operand preservation
		rstep := 1
		if sg.n > 65536 {
			rstep = 4
		}
		var rIdxs []int
		for _, i := range okIdx {
			if (base+i)%rstep == 0 {
				rIdxs = append(rIdxs, i)
			}
		}
		if len(rIdxs) > 0 {
			rbuf := make([]byte, len(rIdxs)*stride)
			for j, i := range rIdxs {
				for p := 0; p < ar; p++ {
					putVal(rbuf[j*stride+16*p:], tuples[i][p])
				}
			}
			sameOperand := func(p int, got []byte, want refsem.Val) bool {
				wb := want.Bytes()
				nb := op.Params[p].Bytes()
				return string(got[:nb]) == string(wb[:nb])
			}
			for _, rf := range []struct {
				fn   string
				slot int
			}{{"rl", rSlotP}, {"rm", rSlotM}} {
				mem.Write(inBase, rbuf)
				if _, err := mod.ExportedFunction(sprintf("%s%d", rf.fn, k)).Call(ctx, inBase, outBase, uint64(len(rIdxs))); err != nil {
					rn.report(e.name, "R", "wrong-trap", imm, tuples[rIdxs[0]], refs[rIdxs[0]], "error in a batch of tuples (first shown): "+core.Trunc(err.Error(), 200), "")
					continue
				}
				out, _ := mem.Read(outBase, uint32(rf.slot*len(rIdxs)))
				for j, i := range rIdxs {
					o := out[rf.slot*j:]
					rn.check(e.name, "R", imm, tuples[i], refs[i], getVal(o))
					for p := 0; p < ar; p++ {
						if !sameOperand(p, o[16*(1+p):], tuples[i][p]) {
							rn.report(e.name, "R", sprintf("operand-clobbered:%d", p), imm, tuples[i], refs[i],
								sprintf("result %s, but operand %d read again after the instruction (%s) is %x", fmtVal(op.Result, getVal(o)), p, rf.fn, o[16*(1+p):16*(1+p)+op.Params[p].Bytes()]), "")
						}
						if rf.fn == "rm" && !sameOperand(p, o[16*(4+p):], tuples[i][p]) {
							rn.report(e.name, "R", sprintf("operand-clobbered:%d", p), imm, tuples[i], refs[i],
								sprintf("operand %d stored BEFORE the instruction is already %x (harness or load problem)", p, o[16*(4+p):16*(4+p)+op.Params[p].Bytes()]), "")
						}
					}
				}
				rn.res.Evals[e.name+"/R"] += int64(len(rIdxs))
			}
			// through the Go API (multi-value results)
			rfn := mod.ExportedFunction(sprintf("r%d", k))
			rs := len(rIdxs) / 8
			if rs < 1 {
				rs = 1
			}
			for j := 0; j < len(rIdxs); j += rs {
				i := rIdxs[j]
				argbuf = pushArgs(argbuf, op, tuples[i])
				out, err := rfn.Call(ctx, argbuf...)
				if err != nil {
					rn.report(e.name, "R", "wrong-trap", imm, tuples[i], refs[i], "error: "+core.Trunc(err.Error(), 200), "")
					continue
				}
				q := 0
				next := func(s wops.Shape) refsem.Val {
					v := refsem.Val{Lo: out[q]}
					q++
					if s.IsVector() {
						v.Hi = out[q]
						q++
					}
					return v
				}
				rn.check(e.name, "R", imm, tuples[i], refs[i], next(op.Result))
				for p := 0; p < ar; p++ {
					g := next(op.Params[p])
					gb := g.Bytes()
					if !sameOperand(p, gb[:], tuples[i][p]) {
						rn.report(e.name, "R", sprintf("operand-clobbered:%d", p), imm, tuples[i], refs[i],
							sprintf("operand %d returned after the instruction through the Go API is %s", p, fmtVal(op.Params[p], g)), "")
					}
				}
				rn.res.Evals[e.name+"/R"]++
			}
		}
		// ---- form Mc: result consumed in the guest together with the expected bits
		if len(cIdx) > 0 {
			cbuf := make([]byte, len(cIdx)*stride)
			ebuf := make([]byte, len(cIdx)*16)
			for j, i := range cIdx {
				for p := 0; p < ar; p++ {
					putVal(cbuf[j*stride+16*p:], tuples[i][p])
				}
				putVal(ebuf[16*j:], refsem.Val{Lo: uint64(expectedBits(refs[i]))})
			}
			mem.Write(inBase, cbuf)
			mem.Write(outBase+expOff, ebuf)
			mem.Write(outBase, make([]byte, len(cIdx)*16))
			if _, err := mod.ExportedFunction(sprintf("mc%d", k)).Call(ctx, inBase, outBase, uint64(len(cIdx))); err != nil {
				rn.report(e.name, "Mc", "wrong-trap", imm, tuples[cIdx[0]], refs[cIdx[0]], "error in a batch of tuples (first shown): "+core.Trunc(err.Error(), 200), "")
			} else {
				out, _ := mem.Read(outBase, uint32(16*len(cIdx)))
				for j, i := range cIdx {
					if got := out[16*j : 16*j+16]; string(got) != string(cWant[:]) {
						rn.report(e.name, "Mc", "wrong-result", imm, tuples[i], refs[i], "consumers disagree: "+describeConsumerMismatch(got), "")
					}
				}
				rn.res.Evals[e.name+"/Mc"] += int64(len(cIdx))
				rn.res.Checks += int64(len(cIdx) * len(consumerChecks))
			}
		}
		// ---- form Mxx: operand 0 of every tuple as both operands
		if sameOperandForm(op) && len(tuples) > 0 {
			f := mod.ExportedFunction(sprintf("mx%d", k))
			xbuf := make([]byte, len(tuples)*stride)
			var xs []int
			xrefs := make([]refsem.Result, len(tuples))
			for i := range tuples {
				xrefs[i] = refsem.Eval(op, imm, []refsem.Val{tuples[i][0], tuples[i][0]})
				if xrefs[i].Trap == refsem.NoTrap {
					putVal(xbuf[len(xs)*stride:], tuples[i][0])
					xs = append(xs, i)
				}
			}
			if len(xs) > 0 {
				mem.Write(inBase, xbuf[:len(xs)*stride])
				if _, err := f.Call(ctx, inBase, outBase, uint64(len(xs))); err != nil {
					rn.report(e.name, "Mxx", "wrong-trap", imm, tuple{tuples[xs[0]][0], tuples[xs[0]][0]}, xrefs[xs[0]], "error in a batch of tuples (first shown): "+core.Trunc(err.Error(), 200), "")
				} else {
					out, _ := mem.Read(outBase, uint32(16*len(xs)))
					for j, i := range xs {
						rn.check(e.name, "Mxx", imm, tuple{tuples[i][0], tuples[i][0]}, xrefs[i], getVal(out[16*j:]))
					}
					rn.res.Evals[e.name+"/Mxx"] += int64(len(xs))
					rn.res.Lanes += int64(len(xs)) * lanesPer
				}
			}
			for i := range tuples { // x op x that must trap (0/0, 0%0)
				if xrefs[i].Trap != refsem.NoTrap {
					putVal(one, tuples[i][0])
					mem.Write(inBase, one)
					_, err := f.Call(ctx, inBase, outBase, 1)
					rn.checkTrap(e.name, "Mxx", imm, tuple{tuples[i][0], tuples[i][0]}, xrefs[i], err, mem)
					rn.res.Evals[e.name+"/Mxx"]++
					rn.res.Traps++
				}
			}
		}
		// ---- form P through the Go API, one call per tuple
		pf := mod.ExportedFunction(sprintf("p%d", k))
		nd := 0
		callOne := func(i int) {
			argbuf = pushArgs(argbuf, op, tuples[i])
			out, err := pf.Call(ctx, argbuf...)
			rn.res.Evals[e.name+"/P"]++
			if refs[i].Trap != refsem.NoTrap || err != nil {
				rn.checkTrap(e.name, "P", imm, tuples[i], refs[i], err, nil)
				if refs[i].Trap != refsem.NoTrap {
					rn.res.Traps++
				}
				return
			}
			var got refsem.Val
			if len(out) > 0 {
				got.Lo = out[0]
			}
			if len(out) > 1 {
				got.Hi = out[1]
			}
			rn.check(e.name, "P", imm, tuples[i], refs[i], got)
			rn.res.Lanes += lanesPer
		}
		step := 1
		if len(okIdx) > directCalls {
			step = len(okIdx) / directCalls
		}
		for j := 0; j < len(okIdx) && nd < directCalls; j += step {
			callOne(okIdx[j])
			nd++
		}
		for _, i := range trapIdx {
			callOne(i)
		}
		// ---- form K
		if kbin != nil {
			kmod, err := e.rt.InstantiateWithConfig(ctx, kbin, wazero.NewModuleConfig().WithName(""))
			if err != nil {
				rn.res.Err = sprintf("%s: instantiate K module of %s: %v", e.name, op.Name, err)
				return
			}
			kmem := kmod.Memory()
			for lo, j := 0, 0; lo < len(cSel); lo, j = lo+cPerFunc, j+1 {
				hi := lo + cPerFunc
				if hi > len(cSel) {
					hi = len(cSel)
				}
				first := kIdx[cSel[lo]]
				if _, err := kmod.ExportedFunction(sprintf("Kc%d", j)).Call(ctx); err != nil {
					rn.report(e.name, "Kc", "wrong-trap", imm, tuples[first], refs[first], "error in a straight-line consumer function (first tuple shown): "+core.Trunc(err.Error(), 200), "")
					continue
				}
				out, _ := kmem.Read(uint32(16*(len(kVariants(op))*len(kIdx)+lo)), uint32(16*(hi-lo)))
				for q := lo; q < hi; q++ {
					i := kIdx[cSel[q]]
					if got := out[16*(q-lo) : 16*(q-lo)+16]; string(got) != string(cWant[:]) {
						rn.report(e.name, "Kc", "wrong-result", imm, tuples[i], refs[i], "consumers disagree: "+describeConsumerMismatch(got), "")
					}
				}
				rn.res.Evals[e.name+"/Kc"] += int64(hi - lo)
				rn.res.Checks += int64((hi - lo) * len(consumerChecks))
			}
			for vi, v := range kVariants(op) {
				for j := 0; j < nk; j++ {
					lo, hi := j*kPerFunc, (j+1)*kPerFunc
					if hi > len(kIdx) {
						hi = len(kIdx)
					}
					_, err := kmod.ExportedFunction(sprintf("%s%d", v, j)).Call(ctx)
					if err != nil {
						rn.report(e.name, v, "wrong-trap", imm, tuples[kIdx[lo]], refs[kIdx[lo]],
							sprintf("error in a straight-line function of %d tuples (first one shown): %s", hi-lo, core.Trunc(err.Error(), 200)), "")
						continue
					}
					out, _ := kmem.Read(uint32(16*(vi*len(kIdx)+lo)), uint32(16*(hi-lo)))
					for q := lo; q < hi; q++ {
						i := kIdx[q]
						rn.check(e.name, v, imm, tuples[i], refs[i], getVal(out[16*(q-lo):]))
					}
					rn.res.Evals[e.name+"/"+v] += int64(hi - lo)
					rn.res.Lanes += int64(hi-lo) * lanesPer
				}
				for j, i := range kTrap {
					_, err := kmod.ExportedFunction(sprintf("%st%d", v, j)).Call(ctx)
					rn.checkTrap(e.name, v, imm, tuples[i], refs[i], err, nil)
					rn.res.Evals[e.name+"/"+v]++
					rn.res.Traps++
				}
			}
			kmod.Close(ctx)
		}
	}
}

// consumed maps the reference of a 0/1-valued instruction to what the
// if / br_if / select consumer forms store.
func consumed(form string, r refsem.Result) refsem.Result {
	switch form {
	case "Mif", "Mbr":
		return refsem.Result{V: refsem.Val{Lo: r.V.Lo & 1}, Shape: wops.I32}
	case "Msel":
		if r.V.Lo&1 == 1 {
			return refsem.Result{V: refsem.Val{Lo: 7}, Shape: wops.I32}
		}
		return refsem.Result{V: refsem.Val{Lo: 9}, Shape: wops.I32}
	}
	return r
}

func (rn *runner) checkTrap(engine, form string, imm []byte, t tuple, want refsem.Result, err error, mem api.Memory) {
	got := refsem.ClassifyErr(err)
	if got == want.Trap {
		return
	}
	g := "returned normally"
	if err != nil {
		g = "error: " + core.Trunc(err.Error(), 200)
	}
	rn.report(engine, form, "wrong-trap", imm, t, want, g, "")
}

// sweep: operand a takes every value in [Lo,Hi) (splat), operand b all 65536 values
// (8 per vector): the full 2^16 x 2^16 space of a binary 16-bit lane instruction
// is covered by 128 such cases. Form M on both engines.
func (rn *runner) sweep() {
	op := rn.op
	if err := rn.loadPM([][]byte{nil}); err != nil {
		rn.res.Err = err.Error()
		return
	}
	const n = 4096 // tuples per guest call; two calls cover the 65536 values of b
	buf := make([]byte, n*32)
	bvals := make([]refsem.Val, 2*n)
	for i := range bvals {
		for j := 0; j < 8; j++ {
			bvals[i].SetLane(16, j, uint64(i*8+j))
		}
	}
	refs := make([]refsem.Result, n)
	for a := rn.oc.Lo; a < rn.oc.Hi; a++ {
		var av refsem.Val
		for j := 0; j < 8; j++ {
			av.SetLane(16, j, uint64(a))
		}
		for half := 0; half < 2; half++ {
			bv := bvals[half*n : (half+1)*n]
			for i := 0; i < n; i++ {
				putVal(buf[i*32:], av)
				putVal(buf[i*32+16:], bv[i])
				refs[i] = refsem.Eval(op, nil, []refsem.Val{av, bv[i]})
			}
			for ei, e := range getEnvs() {
				mem := pmMods[ei].Memory()
				mem.Write(inBase, buf)
				if _, err := pmMods[ei].ExportedFunction("m0").Call(ctx, inBase, outBase, n); err != nil {
					rn.report(e.name, "M", "wrong-trap", nil, tuple{av, bv[0]}, refs[0], "error: "+core.Trunc(err.Error(), 200), "")
					continue
				}
				out, _ := mem.Read(outBase, 16*n)
				for i := 0; i < n; i++ {
					rn.check(e.name, "M", nil, tuple{av, bv[i]}, refs[i], getVal(out[16*i:]))
				}
				rn.res.Evals[e.name+"/M"] += n
				rn.res.Lanes += n * 8
			}
		}
	}
}
