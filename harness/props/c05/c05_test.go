package c05

import (
	"encoding/json"
	"os"
	"strings"
	"testing"
	"time"

	"github.com/tetratelabs/wazero/verifharness/core"
	"github.com/tetratelabs/wazero/verifharness/wops"
)

// In-process smoke run of a few instructions (debug aid): C05_OPS=name,name go test -run TestSmoke -v
func TestSmoke(t *testing.T) {
	names := []string{"i32.add", "i32.div_s", "f32.min", "i8x16.add", "i16x8.extract_lane_s", "i8x16.shuffle", "f64x2.nearest", "i64.trunc_f32_u"}
	if s := os.Getenv("C05_OPS"); s == "all" {
		names = nil
		for _, op := range wops.Table {
			names = append(names, op.Name)
		}
	} else if s != "" {
		names = strings.Split(s, ",")
	}
	cfg := planCfg{seed: 1, quick: os.Getenv("C05_THOROUGH") == ""}
	rng := core.NewRng(1, 5)
	for _, n := range names {
		op := wops.ByName(n)
		start := time.Now()
		tot := map[string]int64{}
		nf := 0
		for si, s := range plan(op, cfg) {
			for lo := 0; lo < s.n; lo += chunkTuples {
				hi := lo + chunkTuples
				if hi > s.n {
					hi = s.n
				}
				oc := opCase{Op: n, Seg: si, Lo: lo, Hi: hi, Quick: cfg.quick, Seed: 1}
				if op.Imm == wops.ImmShuffle {
					oc.Imms = shuffleMasks(rng, true)
				}
				r := child("op", core.J(oc)).(*caseResult)
				if r.Err != "" {
					t.Fatalf("%s: %s", n, r.Err)
				}
				for k, v := range r.Evals {
					tot[k] += v
				}
				for _, f := range r.Findings {
					nf++
					if nf < 6 {
						b, _ := json.Marshal(f)
						t.Errorf("%s", b)
					}
				}
			}
		}
		t.Logf("%-28s %6.2fs evals=%v findings=%d", n, time.Since(start).Seconds(), tot, nf)
	}
}
