package c05

import (
	"encoding/json"
	"os"
	"strings"
	"testing"
	"time"

	"github.com/tetratelabs/wazero/verifharness/core"
	"github.com/tetratelabs/wazero/verifharness/wops"
)

// In-process smoke run of a few instructions (debug aid): C05_OPS=name,name go test -run TestSmoke -v
func TestSmoke(t *testing.T) {
	names := []string{"i32.add", "i32.div_s", "f32.min", "i8x16.add", "i16x8.extract_lane_s", "i8x16.shuffle", "f64x2.nearest", "i64.trunc_f32_u"}
	if s := os.Getenv("C05_OPS"); s == "all" {
		names = nil
		for _, op := range wops.Table {
			names = append(names, op.Name)
		}
	} else if s != "" {
		names = strings.Split(s, ",")
	}
	cfg := planCfg{seed: 1, quick: os.Getenv("C05_THOROUGH") == ""}
	rng := core.NewRng(1, 5)
	for _, n := range names {
		op := wops.ByName(n)
		start := time.Now()
		tot := map[string]int64{}
		nf := 0
		for si, s := range plan(op, cfg) {
			for lo := 0; lo < s.n; lo += chunkTuples {
				hi := lo + chunkTuples
				if hi > s.n {
					hi = s.n
				}
				oc := opCase{Op: n, Seg: si, Lo: lo, Hi: hi, Quick: cfg.quick, Seed: 1}
				if op.Imm == wops.ImmShuffle {
					oc.Imms = shuffleMasks(rng, true)
				}
				r := child("op", core.J(oc)).(*caseResult)
				if r.Err != "" {
					t.Fatalf("%s: %s", n, r.Err)
				}
				for k, v := range r.Evals {
					tot[k] += v
				}
				for _, f := range r.Findings {
					nf++
					if nf < 6 {
						b, _ := json.Marshal(f)
						t.Errorf("%s", b)
					}
				}
			}
		}
		t.Logf("%-28s %6.2fs evals=%v findings=%d", n, time.Since(start).Seconds(), tot, nf)
	}
}

// The "exhaustive" labels in the evidence are claims about the generators: check them.
func TestExhaustiveClaims(t *testing.T) {
	find := func(name, kind string, quick bool) seg {
		for _, s := range plan(wops.ByName(name), planCfg{seed: 1, quick: quick}) {
			if s.kind == kind {
				return s
			}
		}
		t.Fatalf("%s has no %s segment", name, kind)
		return seg{}
	}
	// binary 8-bit: the 16 lanes together see all 65536 pairs (16 pairs packed per vector)
	s := find("i8x16.add_sat_s", "exhaustive-binary-8", true)
	{
		seen := map[uint64]bool{}
		for i := 0; i < s.n; i++ {
			tp := s.gen(i)
			for lane := 0; lane < 16; lane++ {
				seen[tp[0].Lane(8, lane)<<8|tp[1].Lane(8, lane)] = true
			}
		}
		if len(seen) != 65536 || s.n != 8192 {
			t.Errorf("binary-8: %d pairs in %d vectors", len(seen), s.n)
		}
	}
	// extmul_high reads lanes 8..15 only: union over those lanes of pairs must be complete
	s = find("i16x8.extmul_high_i8x16_u", "exhaustive-binary-8", true)
	seen := map[uint64]bool{}
	for i := 0; i < s.n; i++ {
		tp := s.gen(i)
		for lane := 8; lane < 16; lane++ {
			seen[tp[0].Lane(8, lane)<<8|tp[1].Lane(8, lane)] = true
		}
	}
	if len(seen) != 65536 {
		t.Errorf("extmul_high: %d pairs in the high lanes", len(seen))
	}
	// unary 16-bit, low half only
	s = find("i32x4.extend_low_i16x8_s", "exhaustive-unary", true)
	seen = map[uint64]bool{}
	for i := 0; i < s.n; i++ {
		tp := s.gen(i)
		for lane := 0; lane < 4; lane++ {
			seen[tp[0].Lane(16, lane)] = true
		}
	}
	if len(seen) != 65536 {
		t.Errorf("extend_low: %d values in the low lanes", len(seen))
	}
	// extract_lane thorough: every lane sees every value
	s = find("i16x8.extract_lane_u", "exhaustive-unary", false)
	for lane := 0; lane < 8; lane++ {
		seen = map[uint64]bool{}
		for i := 0; i < s.n; i++ {
			seen[s.gen(i)[0].Lane(16, lane)] = true
		}
		if len(seen) != 65536 {
			t.Errorf("extract_lane lane %d: %d values", lane, len(seen))
		}
	}
	// binary 16-bit thorough: all values x all boundary values in both orders (over the 8 lanes)
	s = find("i16x8.mul", "16-bit-all-x-boundary", false)
	cnt := map[uint64]int{}
	for i := 0; i < s.n; i++ {
		tp := s.gen(i)
		for lane := 0; lane < 8; lane++ {
			cnt[tp[0].Lane(16, lane)<<16|tp[1].Lane(16, lane)]++
		}
	}
	for _, b := range setI16 {
		for a := uint64(0); a < 65536; a++ {
			if cnt[a<<16|b] == 0 || cnt[b<<16|a] == 0 {
				t.Fatalf("16-bit all x boundary: pair (%x,%x) missing", a, b)
			}
		}
	}
	if len(setI16) < 90 {
		t.Errorf("boundary set has only %d values", len(setI16))
	}
	t.Logf("16-bit boundary set: %d values; distinct lane pairs in the thorough segment: %d", len(setI16), len(cnt))
	// adjacent pairs for extadd_pairwise_i8x16
	s = find("i16x8.extadd_pairwise_i8x16_s", "exhaustive-pairs", true)
	seen = map[uint64]bool{}
	for i := 0; i < s.n; i++ {
		tp := s.gen(i)
		for k := 0; k < 8; k++ {
			seen[tp[0].Lane(8, 2*k)<<8|tp[0].Lane(8, 2*k+1)] = true
		}
	}
	if len(seen) != 65536 {
		t.Errorf("adjacent pairs: %d", len(seen))
	}
	t.Logf("set sizes: i32 %d, i64 %d, f32 %d, f64 %d, i8 %d", len(setI32), len(setI64), len(setF32), len(setF64), len(setI8))
}

// In-process run of all quick pair cases (debug aid).
func TestPairsSmoke(t *testing.T) {
	pairs := choosePairs(core.NewRng(1, 6), true)
	first, second := map[string]bool{}, map[string]bool{}
	for _, p := range pairs {
		first[p.A], second[p.B] = true, true
	}
	if len(first) != len(wops.Table) || len(second) != len(wops.Table) {
		t.Fatalf("positions: %d first, %d second of %d", len(first), len(second), len(wops.Table))
	}
	start := time.Now()
	nf := 0
	var ev int64
	for lo := 0; lo < len(pairs); lo += 8 {
		hi := min(lo+8, len(pairs))
		r := child("op", core.J(opCase{Pairs: pairs[lo:hi], Hi: 128, Seed: 1})).(*caseResult)
		if r.Err != "" {
			t.Fatal(r.Err)
		}
		for _, v := range r.Evals {
			ev += v
		}
		for _, f := range r.Findings {
			if nf++; nf < 8 {
				t.Errorf("%s: %s", f.Sig, f.Detail)
			}
		}
	}
	t.Logf("%d pair functions, %d evaluations, %d findings, %.1fs", len(pairs), ev, nf, time.Since(start).Seconds())
}
