package c14

import (
	"bytes"
	"fmt"
)

// Config is one point of the configuration space.
type Config struct {
	Min    uint32 `json:"min"`
	HasMax bool   `json:"has_max"`
	Max    uint32 `json:"max,omitempty"`
	Limit  uint32 `json:"limit"`
	CapMax bool   `json:"cap_from_max"`
	Alloc  string `json:"alloc"` // default | guard | moving
	Kind   string `json:"kind"`  // local | imported | shared
}

func (c Config) String() string {
	mx := "none"
	if c.HasMax {
		mx = fmt.Sprint(c.Max)
	}
	return fmt.Sprintf("min=%d,max=%s,limit=%d,capmax=%v,%s,%s", c.Min, mx, c.Limit, c.CapMax, c.Alloc, c.Kind)
}

const specMaxPages = 65536

// expect is the reference decision for a module declaring this memory under
// this runtime configuration: "accept" (then sizes live in [Min, bound]),
// "reject" (compile or instantiate must fail) or "either".
func (c Config) expect() (verdict string, bound uint32, why string) {
	switch {
	case c.Min > specMaxPages:
		return "reject", 0, "min>65536"
	case c.HasMax && c.Max > specMaxPages:
		return "reject", 0, "max>65536"
	case c.HasMax && c.Min > c.Max:
		return "reject", 0, "min>max"
	case c.Kind == "shared" && !c.HasMax:
		return "reject", 0, "shared-without-max"
	case c.Min > c.Limit:
		return "reject", 0, "min>limit"
	}
	bound = c.Limit
	if c.HasMax && c.Max < bound {
		bound = c.Max
	}
	if c.CapMax && c.HasMax && c.Max > c.Limit {
		// "eagerly allocate max" cannot be honoured within the limit: the documentation
		// does not say whether the module is refused or max is clamped. Both are allowed.
		return "either", bound, "capacity-from-max with max>limit"
	}
	return "accept", bound, ""
}

// model is the reference memory: a size in pages within [min, bound] and sparse contents.
type model struct {
	size, bound uint32
	pages       map[uint32]*[65536]byte
}

var zeroPage [65536]byte

// pagePool recycles model pages between the cases of one child process.
var pagePool []*[65536]byte

func (m *model) release() {
	for k, pg := range m.pages {
		*pg = zeroPage
		if len(pagePool) < 256 {
			pagePool = append(pagePool, pg)
		}
		delete(m.pages, k)
	}
}

func newModel(min, bound uint32) *model {
	return &model{size: min, bound: bound, pages: map[uint32]*[65536]byte{}}
}

func (m *model) bytes() uint64 { return uint64(m.size) << 16 }

// grow is the specification of memory.grow / Memory.Grow.
func (m *model) grow(d uint32) (old uint32, ok bool) {
	if uint64(m.size)+uint64(d) <= uint64(m.bound) {
		old = m.size
		m.size += d
		return old, true
	}
	return 0, false
}

// inb: an access of n bytes at off lies within the current size (64-bit arithmetic).
func (m *model) inb(off uint64, n uint64) bool { return off+n <= m.bytes() }

func (m *model) write(off uint64, b []byte) {
	for len(b) > 0 {
		p, o := uint32(off>>16), int(off&0xffff)
		pg := m.pages[p]
		if pg == nil {
			if n := len(pagePool); n > 0 {
				pg, pagePool = pagePool[n-1], pagePool[:n-1]
			} else {
				pg = new([65536]byte)
			}
			m.pages[p] = pg
		}
		n := copy(pg[o:], b)
		b = b[n:]
		off += uint64(n)
	}
}

func (m *model) read(off uint64, n int) []byte {
	out := make([]byte, n)
	dst := out
	for len(dst) > 0 {
		p, o := uint32(off>>16), int(off&0xffff)
		k := 65536 - o
		if k > len(dst) {
			k = len(dst)
		}
		if pg := m.pages[p]; pg != nil {
			copy(dst[:k], pg[o:o+k])
		}
		dst = dst[k:]
		off += uint64(k)
	}
	return out
}

// diff returns the index of the first byte of got that differs from the model at off, or -1.
func (m *model) diff(off uint64, got []byte) int {
	base := 0
	for len(got) > 0 {
		p, o := uint32(off>>16), int(off&0xffff)
		k := 65536 - o
		if k > len(got) {
			k = len(got)
		}
		want := zeroPage[o : o+k]
		if pg := m.pages[p]; pg != nil {
			want = pg[o : o+k]
		}
		if !bytes.Equal(got[:k], want) {
			for i := 0; i < k; i++ {
				if got[i] != want[i] {
					return base + i
				}
			}
		}
		got = got[k:]
		off += uint64(k)
		base += k
	}
	return -1
}
