package c14

// Two experimental.MemoryAllocator implementations on raw mmap:
//
//   - guardAlloc ("guard"): reserves [8 GiB PROT_NONE | max bytes | 8 GiB PROT_NONE]
//     once and mprotects [0,size) read-write on every Reallocate. The base never
//     moves, the first byte after the current size always faults. A 4 GiB memory
//     costs address space only.
//   - moveAlloc ("moving"): every Reallocate returns a buffer at a *fresh*
//     address. The old pages are moved there with mremap(MREMAP_FIXED) (no copy, so
//     4 GiB memories stay virtual) and the old reservation is unmapped: whoever
//     keeps using a stale base pointer faults instead of silently reading a copy.
//
// Both record what wazero asked of them.

import (
	"fmt"
	"runtime"
	"sync"
	"syscall"
	"unsafe"

	"github.com/tetratelabs/wazero/experimental"
)

const (
	guardBytes     = uint64(8) << 30
	mapNoReserve   = 0x4000
	mremapMayMove  = 1
	mremapFixed    = 2
	madvNoHugepage = 15
)

type allocStats struct {
	mu         sync.Mutex
	Allocs     int      `json:"allocs"`
	Reallocs   int      `json:"reallocs"`
	Frees      int      `json:"frees"`
	BeyondMax  int      `json:"beyond_max"` // Reallocate(size) with size > max given to Allocate
	Shrinks    int      `json:"shrinks"`    // Reallocate with a smaller size than before
	Errors     []string `json:"errors,omitempty"`
	LastCap    uint64   `json:"last_cap"`
	LastMax    uint64   `json:"last_max"`
	MaxRequest uint64   `json:"max_request"`
}

func (s *allocStats) err(format string, a ...any) {
	s.mu.Lock()
	if len(s.Errors) < 4 {
		s.Errors = append(s.Errors, fmt.Sprintf(format, a...))
	}
	s.mu.Unlock()
}

func rawMmap(length uint64, prot uintptr) (uintptr, error) {
	r, _, e := syscall.Syscall6(syscall.SYS_MMAP, 0, uintptr(length), prot,
		syscall.MAP_PRIVATE|syscall.MAP_ANON|mapNoReserve, ^uintptr(0), 0)
	if e != 0 {
		return 0, e
	}
	syscall.Syscall(syscall.SYS_MADVISE, r, uintptr(length), madvNoHugepage)
	return r, nil
}

func rawMunmap(addr uintptr, length uint64) error {
	_, _, e := syscall.Syscall(syscall.SYS_MUNMAP, addr, uintptr(length), 0)
	if e != 0 {
		return e
	}
	return nil
}

func rawMprotect(addr uintptr, length uint64, prot uintptr) error {
	if length == 0 {
		return nil
	}
	_, _, e := syscall.Syscall(syscall.SYS_MPROTECT, addr, uintptr(length), prot)
	if e != 0 {
		return e
	}
	return nil
}

func rawMremapFixed(old uintptr, length uint64, dst uintptr) error {
	r, _, e := syscall.Syscall6(syscall.SYS_MREMAP, old, uintptr(length), uintptr(length), mremapMayMove|mremapFixed, dst, 0)
	if e != 0 {
		return e
	}
	if r != dst {
		return fmt.Errorf("mremap returned %#x, want %#x", r, dst)
	}
	return nil
}

func sliceAt(addr uintptr, length, capacity uint64) []byte {
	if capacity == 0 {
		// a zero-capacity view of a mapped (PROT_NONE) address
		return unsafe.Slice((*byte)(unsafe.Pointer(addr)), 1)[:0:0]
	}
	return unsafe.Slice((*byte)(unsafe.Pointer(addr)), capacity)[:length]
}

const protRW = syscall.PROT_READ | syscall.PROT_WRITE

// ---------------------------------------------------------------------------

type guardAlloc struct{ st *allocStats }

type guardMem struct {
	st    *allocStats
	resv  uintptr
	total uint64
	base  uintptr
	max   uint64
	size  uint64
	freed bool
}

func (a guardAlloc) Allocate(capBytes, maxBytes uint64) experimental.LinearMemory {
	a.st.mu.Lock()
	a.st.Allocs++
	a.st.LastCap, a.st.LastMax = capBytes, maxBytes
	a.st.mu.Unlock()
	total := guardBytes + maxBytes + guardBytes
	r, err := rawMmap(total, syscall.PROT_NONE)
	if err != nil {
		panic(fmt.Sprintf("c14 guard allocator: mmap %d: %v", total, err))
	}
	return &guardMem{st: a.st, resv: r, total: total, base: r + uintptr(guardBytes), max: maxBytes}
}

// reallocYields: scheduler yields inside guardMem.Reallocate (set by the concurrent
// shared-memory phase only): wazero calls Reallocate while holding the shared memory's
// lock, so yielding here lets the other goroutines run into the lock - a window that
// exists anyway is merely widened, by a fixed count.
var reallocYields int

func (m *guardMem) Reallocate(size uint64) []byte {
	for i := 0; i < reallocYields; i++ {
		runtime.Gosched()
	}
	m.st.mu.Lock()
	m.st.Reallocs++
	if size > m.st.MaxRequest {
		m.st.MaxRequest = size
	}
	if size > m.max {
		m.st.BeyondMax++
	}
	if size < m.size {
		m.st.Shrinks++
	}
	m.st.mu.Unlock()
	if size > m.max {
		return nil
	}
	if size > m.size {
		if err := rawMprotect(m.base+uintptr(m.size), size-m.size, protRW); err != nil {
			m.st.err("mprotect: %v", err)
			return nil
		}
		m.size = size
	}
	return sliceAt(m.base, size, m.max)
}

func (m *guardMem) Free() {
	m.st.mu.Lock()
	m.st.Frees++
	m.st.mu.Unlock()
	if !m.freed {
		m.freed = true
		rawMunmap(m.resv, m.total)
	}
}

// ---------------------------------------------------------------------------

type moveAlloc struct{ st *allocStats }

type chunk struct{ off, n uint64 }

type moveMem struct {
	st     *allocStats
	max    uint64
	total  uint64
	resv   uintptr // current reservation (0 = none yet)
	base   uintptr
	size   uint64
	chunks []chunk
	freed  bool
	Moves  int
}

func (a moveAlloc) Allocate(capBytes, maxBytes uint64) experimental.LinearMemory {
	a.st.mu.Lock()
	a.st.Allocs++
	a.st.LastCap, a.st.LastMax = capBytes, maxBytes
	a.st.mu.Unlock()
	return &moveMem{st: a.st, max: maxBytes, total: guardBytes + maxBytes + guardBytes}
}

func (m *moveMem) Reallocate(size uint64) []byte {
	m.st.mu.Lock()
	m.st.Reallocs++
	if size > m.st.MaxRequest {
		m.st.MaxRequest = size
	}
	if size > m.max {
		m.st.BeyondMax++
	}
	if size < m.size {
		m.st.Shrinks++
	}
	m.st.mu.Unlock()
	if size > m.max {
		return nil
	}
	if size < m.size {
		size = m.size
	}
	nr, err := rawMmap(m.total, syscall.PROT_NONE)
	if err != nil {
		m.st.err("mmap: %v", err)
		return nil
	}
	nb := nr + uintptr(guardBytes)
	if m.resv != 0 {
		for _, c := range m.chunks {
			if err := rawMremapFixed(m.base+uintptr(c.off), c.n, nb+uintptr(c.off)); err != nil {
				m.st.err("mremap chunk %+v: %v", c, err)
				return nil
			}
		}
		// mremap released [base, base+size) of the old reservation: that address range may already
		// belong to somebody else (the Go runtime maps memory concurrently), so only the two parts
		// that are still ours are unmapped - never the whole old reservation.
		rawMunmap(m.resv, guardBytes)
		rawMunmap(m.base+uintptr(m.size), m.total-guardBytes-m.size)
	}
	if size > m.size {
		if err := rawMprotect(nb+uintptr(m.size), size-m.size, protRW); err != nil {
			m.st.err("mprotect: %v", err)
			return nil
		}
		m.chunks = append(m.chunks, chunk{m.size, size - m.size})
	}
	m.resv, m.base, m.size = nr, nb, size
	m.Moves++
	// capacity == length: nothing beyond the current size may be assumed
	return sliceAt(nb, size, size)
}

func (m *moveMem) Free() {
	m.st.mu.Lock()
	m.st.Frees++
	m.st.mu.Unlock()
	if !m.freed && m.resv != 0 {
		m.freed = true
		rawMunmap(m.resv, m.total)
	}
}
