// Package c14 decides C14 (memory size, growth and the host memory API follow
// the limits exactly): generated grow histories (guest memory.grow, host
// Memory.Grow between calls and inside host functions) run on real wazero, both
// engines, over an enumerated configuration space (min, max, limit,
// capacity-from-max, allocator, local/imported/shared); after every step every
// observer (guest memory.size, grow results, host Grow(0)/Size(), every host
// accessor around every boundary, guest loads/stores at the end of memory,
// marker bytes in old pages, zeroes in new pages, definitions) is compared with
// a Go reference model of the specification, and the two engines with each other.
package c14

import (
	"encoding/json"
	"fmt"
	"hash/fnv"
	"os"
	"sort"
	"strings"
	"sync"
	"time"

	"github.com/tetratelabs/wazero/verifharness/core"
)

var Prop = &core.Prop{ID: "C14", Run: run, Child: child, Replay: replay}

func allConfigs() []Config {
	var out []Config
	seen := map[string]bool{}
	for _, min := range []uint32{0, 1, 2, 65535, 65536} {
		type mx struct {
			has bool
			v   uint32
		}
		for _, m := range []mx{{false, 0}, {true, min}, {true, min + 1}, {true, 65536}} {
			for _, limit := range []uint32{1, 2, min, 65536} {
				for _, capMax := range []bool{false, true} {
					for _, alloc := range []string{"default", "guard", "moving"} {
						for _, kind := range []string{"local", "imported", "shared"} {
							if alloc == "moving" && kind == "shared" {
								continue // a shared memory must not move (documented allocator contract)
							}
							c := Config{Min: min, HasMax: m.has, Max: m.v, Limit: limit, CapMax: capMax, Alloc: alloc, Kind: kind}
							if k := c.String(); !seen[k] {
								seen[k] = true
								out = append(out, c)
							}
						}
					}
				}
			}
		}
	}
	return out
}

var (
	prngOps    = []string{"G", "G", "G", "H", "H", "H", "S", "S", "C", "C", "L"}
	prngDeltas = []string{"0", "1", "1", "2", "fill", "fill", "fill+1", "fill+1", "fill-1", "65536", "2^31-1", "2^31", "2^32-1"}
	exhOps     = []string{"G", "H"}
	exhDeltas  = []string{"0", "1", "fill", "fill+1"}
)

func prngSteps(r *core.Rng, kind string) []Step {
	n := 1 + r.Intn(8)
	var out []Step
	for i := 0; i < n; i++ {
		s := Step{Op: prngOps[r.Intn(len(prngOps))]}
		if s.Op == "L" {
			s.D = fmt.Sprint(1 + r.Intn(3))
		} else {
			s.D = prngDeltas[r.Intn(len(prngDeltas))]
		}
		if kind == "imported" {
			s.Inst = r.Intn(2)
		}
		out = append(out, s)
	}
	return out
}

// exhaustiveSteps: all 8^3 sequences of length 3 over {G,H} x {0,1,fill,fill+1}
// (every shorter sequence is a prefix of one of them and is checked step by step).
func exhaustiveSteps(idx int, r *core.Rng, kind string) []Step {
	var out []Step
	for i := 0; i < 3; i++ {
		k := idx % 8
		idx /= 8
		s := Step{Op: exhOps[k/4], D: exhDeltas[k%4]}
		if kind == "imported" {
			s.Inst = r.Intn(2)
		}
		out = append(out, s)
	}
	return out
}

// heavy: with the default allocator this history makes the Go heap really
// allocate (and, on growth beyond capacity, copy) hundreds of MiB or more.
func heavy(c Config, steps []Step) bool {
	if c.Alloc != "default" {
		return false
	}
	v, bound, _ := c.expect()
	if v == "reject" {
		return false
	}
	const big = 4096 // pages = 256 MiB
	if c.Min >= big {
		return true
	}
	capPages := c.Min
	if c.CapMax || c.Kind == "shared" {
		capPages = bound
		if c.CapMax && c.HasMax {
			capPages = c.Max
		}
	}
	if capPages >= big {
		return true
	}
	// Worst case, not model outcome: a request that the model refuses but a broken wazero
	// might honour must not make 16 parallel children copy 4 GiB each. Requests beyond
	// 2^21 pages cannot be allocated at all (they fail fast) and are harmless.
	m := newModel(c.Min, bound)
	rr := &runner{m: m}
	for _, s := range steps {
		d := uint64(rr.resolveDelta(s.D))
		if req := uint64(m.size) + d; req >= big && req <= 1<<21 {
			return true
		}
		if s.Op == "L" {
			for i := uint64(0); i < d; i++ {
				m.grow(1)
			}
		} else {
			m.grow(uint32(d))
		}
	}
	return false
}

type pending struct {
	cases []json.RawMessage
	meta  []Case
}

func (p *pending) addPair(cs Case) {
	for _, e := range []string{"interpreter", "compiler"} {
		cs.Engine = e
		p.cases = append(p.cases, core.J(cs))
		p.meta = append(p.meta, cs)
	}
}

func run(c *core.Ctx) int {
	rng := core.NewRng(c.Seed, 14)
	cfgs := allConfigs()
	nPrng := c.N(3, 40)        // PRNG histories per configuration
	exhStride := c.N(13, 1)    // every n-th accepting configuration gets the exhaustive length-3 set (13 is co-prime to the 8 allocator x kind combinations; thorough: all)
	heavyBudget := c.N(10, 60) // pairs of really-allocating 4 GiB histories (default allocator)
	var normal, heavyP pending
	var heavyCand []Case
	nAcc := 0
	skippedHeavy := 0
	for ci, cfg := range cfgs {
		verdict, _, _ := cfg.expect()
		c.Count("configs_"+verdict, 1)
		if verdict == "reject" {
			normal.addPair(Case{Cfg: cfg, Seed: rng.U64(), Class: "reject"})
			continue
		}
		for k := 0; k < nPrng; k++ {
			cs := Case{Cfg: cfg, Steps: prngSteps(rng, cfg.Kind), Seed: rng.U64(), Class: "prng"}
			if heavy(cfg, cs.Steps) {
				cs.Class = "heavy"
				heavyCand = append(heavyCand, cs)
				continue
			}
			normal.addPair(cs)
		}
		if verdict != "accept" {
			continue
		}
		nAcc++
		if (nAcc+int(c.Seed))%exhStride == 0 {
			c.Count("configs_exhaustive", 1)
			for idx := 0; idx < 512; idx++ {
				cs := Case{Cfg: cfg, Steps: exhaustiveSteps(idx, rng, cfg.Kind), Seed: rng.U64(), Class: "exhaustive"}
				if heavy(cfg, cs.Steps) {
					skippedHeavy++
					continue
				}
				normal.addPair(cs)
			}
		}
		_ = ci
	}
	// "who executes the grow": several instances with their own memories
	nMulti := c.N(4000, 60000)
	mrng := core.NewRng(c.Seed, 1414)
	for k := 0; k < nMulti; k++ {
		normal.addPair(Case{Multi: genMulti(mrng), Seed: mrng.U64(), Class: "multi"})
	}
	// concurrent phase: G goroutines grow one shared memory
	var concP pending
	crng := core.NewRng(c.Seed, 1415)
	for k := 0; k < c.N(300, 4000); k++ {
		concP.addPair(Case{Conc: genConc(crng), Seed: crng.U64(), Class: "concurrent"})
	}
	// fixed heavy histories that must always be present, then a PRNG sample of the candidates
	for _, kind := range []string{"local", "imported", "shared"} {
		for _, h := range []struct {
			min   uint32
			cap   bool
			steps []Step
		}{
			{65535, false, []Step{{Op: "G", D: "1"}, {Op: "H", D: "1"}, {Op: "S", D: "0"}}},
			{65536, false, []Step{{Op: "H", D: "0"}, {Op: "G", D: "1"}, {Op: "C", D: "0"}}},
			{65535, true, []Step{{Op: "H", D: "fill"}, {Op: "G", D: "fill+1"}, {Op: "L", D: "2"}}},
		} {
			cfg := Config{Min: h.min, HasMax: true, Max: 65536, Limit: 65536, CapMax: h.cap, Alloc: "default", Kind: kind}
			heavyP.addPair(Case{Cfg: cfg, Steps: h.steps, Seed: rng.U64(), Class: "heavy"})
		}
	}
	for len(heavyP.cases)/2 < heavyBudget+9 && len(heavyCand) > 0 {
		i := rng.Intn(len(heavyCand))
		heavyP.addPair(heavyCand[i])
		heavyCand = append(heavyCand[:i], heavyCand[i+1:]...)
	}
	skippedHeavy += len(heavyCand)
	c.Count("heavy_histories_not_run", int64(skippedHeavy))

	st := &agg{c: c, digests: map[string]bool{}, maxHWM: map[bool]int{}, found: map[string]*best{}}
	var wg sync.WaitGroup
	wg.Add(1)
	go func() {
		defer wg.Done()
		// one history per child, few at a time: these really touch up to ~4 GiB each
		res := core.RunCases(c, "case", heavyP.cases, core.ChildOpts{Batch: 1, Par: 2, TimeoutS: 600})
		st.handle(&heavyP, res, 0, true)
		c.Extra("phase_heavy_done_s", time.Since(c.Start).Seconds())
		// concurrent grows of shared memories: children with 8 Ps
		res = core.RunCases(c, "case", concP.cases, core.ChildOpts{Batch: 10, Par: 6, Procs: 8, TimeoutS: 600})
		st.handle(&concP, res, 0, false)
		c.Extra("phase_concurrent_done_s", time.Since(c.Start).Seconds())
	}()
	const chunk = 40000
	for lo := 0; lo < len(normal.cases); lo += chunk {
		hi := lo + chunk
		if hi > len(normal.cases) {
			hi = len(normal.cases)
		}
		sub := pending{cases: normal.cases[lo:hi], meta: normal.meta[lo:hi]}
		res := core.RunCases(c, "case", sub.cases, core.ChildOpts{Batch: 40, TimeoutS: 900})
		st.handle(&sub, res, lo, false)
	}
	c.Extra("phase_normal_done_s", time.Since(c.Start).Seconds())
	wg.Wait()
	st.flush()

	c.Extra("max_child_hwm_kb_normal", st.maxHWM[false])
	c.Extra("max_child_hwm_kb_heavy", st.maxHWM[true])
	c.Extra("configs", len(cfgs))
	if st.maxHWM[false] > 1500*1024 {
		// guard/moving 4 GiB memories must stay virtual
		c.Inconclusive("harness:child-rss-above-1.5GiB")
	}
	// every workload class and observer must have been reached
	var missing []string
	for _, e := range []string{"interpreter", "compiler"} {
		for _, k := range []string{"grow_guest_ok", "grow_guest_fail", "grow_host_ok", "grow_host_fail", "grow_host-callback_ok", "grow_host-callback_fail",
			"grow_guest-in-function_ok", "grow_guest-loop_ok", "final_65536-pages", "final_below-65536", "modules_rejected", "modules_accepted",
			"markers_checked", "new_pages_checked", "windows_checked", "definition_checks", "obs_guest_size", "obs_host_grow0",
			"probe_size_inb", "probe_size_oob", "probe_2^32_inb", "probe_2^32_oob", "probe_bound_oob", "probe_page_inb", "probe_extreme_inb", "probe_extreme_oob",
			"guest_load8_inb", "guest_load8_oob", "guest_store64_inb", "guest_store64_oob",
			"alloc_default", "alloc_guard", "alloc_moving", "kind_local", "kind_imported", "kind_shared", "class_heavy", "class_exhaustive", "class_prng",
			"class_multi", "multi_route_direct", "multi_route_via", "multi_route_nested", "multi_route_indirect", "multi_route_hostself", "multi_route_hostother",
			"multi_op_grow", "multi_op_size", "multi_op_load8", "multi_op_store8", "multi_grow_ok", "multi_grow_fail", "multi_cross_instance_steps",
			"multi_entry_has_other_memory", "multi_entry_without_memory", "multi_obs_size", "multi_obs_bytes", "multi_instances_2", "multi_instances_3",
			"class_concurrent", "conc_histories", "conc_op_hostgrow", "conc_op_guestgrow", "conc_op_hostsize", "conc_op_guestsize", "conc_grow_ok", "conc_grow_fail",
			"conc_reached_max", "conc_size_observations", "conc_alloc_guard", "conc_alloc_default"} {
			if c.Counter(e+"/"+k) == 0 {
				missing = append(missing, e+"/"+k)
			}
		}
		for _, a := range append(append([]fixedAcc{}, readAccs...), writeAccs...) {
			if c.Counter(e+"/acc_"+a.name) == 0 {
				missing = append(missing, e+"/acc_"+a.name)
			}
		}
		for _, a := range []string{"Read", "Write", "WriteString"} {
			if c.Counter(e+"/acc_"+a) == 0 {
				missing = append(missing, e+"/acc_"+a)
			}
		}
	}
	c.Assume("Memory.Size() is only required to equal size*65536 mod 2^32 (documented wrap-around at 4 GiB); the host-side size is Memory.Grow(0)")
	c.Assume("a module whose declared max exceeds the limit under WithMemoryCapacityFromMax(true) may be rejected or clamped (documentation is silent)")
	c.Assume("MemoryDefinition.Max() may report the declared or the limit-clamped maximum; its value is unconstrained when no maximum is encoded")
	c.Assume("on a failed Grow the returned page count is unspecified; a failed read's value is unspecified")
	c.Assume("moving allocator is not combined with shared memories (allocator contract)")
	c.Assume("concurrent shared-memory histories are decided by facts that hold in every linearization; the allocator used there never refuses a request within max")
	c.Assume("multi-instance histories: limit pages and capacity-from-max are runtime-wide in wazero, so they are shared by the instances of one topology; min, max and allocator differ per instance")
	rule := "one evaluation = one history (configuration x grow-step sequence, <=8 steps; or multi-instance topology x 4-11 routed steps) run on one engine and decided step by step against the reference model; pairs (interpreter, compiler) also compared by observation digest; non-trivial = module accepted and >=1 grow step executed; distinct = distinct (configuration, resolved step sequence with results)"
	code := c.Finish(st.evals, int64(len(st.digests)), rule)
	if len(missing) > 0 {
		sort.Strings(missing)
		fmt.Printf("BROKEN: C14 workload classes / observers never reached: %s\n", strings.Join(missing, " "))
		if code == 0 {
			code = 2
		}
	}
	return code
}

type best struct {
	count, rank int
	detail      string
	witness     any
}

// flush reports every signature once with its smallest witness (and counts the other occurrences).
func (a *agg) flush() {
	var sigs []string
	for s := range a.found {
		sigs = append(sigs, s)
	}
	sort.Strings(sigs)
	for _, s := range sigs {
		b := a.found[s]
		for i := 0; i < b.count; i++ {
			a.c.Violate(s, b.detail, b.witness)
		}
	}
}

type agg struct {
	found   map[string]*best
	c       *core.Ctx
	mu      sync.Mutex
	evals   int64
	digests map[string]bool
	maxHWM  map[bool]int
}

func normDetail(s string) string { return strings.ReplaceAll(reHex.ReplaceAllString(s, "N"), " ", "_") }

func (a *agg) handle(p *pending, rs []core.CaseResult, base int, isHeavy bool) {
	a.mu.Lock()
	defer a.mu.Unlock()
	c := a.c
	outs := make([]*Result, len(rs))
	for i, r := range rs {
		cs := p.meta[i]
		if r.Crash != nil {
			if r.Crash.Kind == "timeout" {
				c.Inconclusive("watchdog")
				continue
			}
			d := core.Trunc(normDetail(r.Crash.Detail), 90)
			c.Violate(fmt.Sprintf("crash:%s:%s:%s", cs.Engine, r.Crash.Kind, d), r.Crash.Detail,
				map[string]any{"case": cs, "crash": r.Crash})
			continue
		}
		var out Result
		if err := json.Unmarshal(r.Out, &out); err != nil {
			c.Inconclusive("bad-child-output")
			continue
		}
		outs[i] = &out
		a.evals++
		e := cs.Engine + "/"
		for k, n := range out.Counters {
			if strings.HasPrefix(k, "harness_") {
				c.Inconclusive(k)
				continue
			}
			c.Count(e+k, int64(n))
		}
		if cs.Conc != nil {
			c.Count(e+"conc_alloc_"+cs.Conc.Alloc, 1)
		} else if cs.Multi == nil {
			c.Count(e+"alloc_"+cs.Cfg.Alloc, 1)
			c.Count(e+"kind_"+cs.Cfg.Kind, 1)
		} else {
			c.Count(fmt.Sprintf("%smulti_instances_%d", e, len(cs.Multi.Insts)), 1)
		}
		c.Count(e+"class_"+cs.Class, 1)
		c.Count(fmt.Sprintf("%shistory_len_%d", e, cs.nSteps()), 1)
		if out.HWMKB > a.maxHWM[isHeavy] {
			a.maxHWM[isHeavy] = out.HWMKB
		}
		if !out.Rejected && cs.nSteps() > 0 && out.Summary != "" {
			h := fnv.New64a()
			h.Write([]byte(cs.cfgKey() + "|" + out.Summary))
			a.digests[string(h.Sum(nil))] = true
			if cs.Conc != nil {
				c.Distinct("concurrent_shapes_run", cs.cfgKey())
			} else if cs.Multi == nil {
				c.Distinct("configs_run", cs.cfgKey())
			} else {
				c.Distinct("multi_topologies_run", cs.cfgKey())
			}
		}
		if (base+i)%1499 == 0 || (isHeavy && i%7 == 0) {
			c.Sample(map[string]any{"config": cs.cfgKey(), "engine": cs.Engine, "class": cs.Class, "steps": out.Summary,
				"final_pages": out.FinalPages, "rejected": out.Rejected, "child_hwm_kb": out.HWMKB})
		}
		for _, f := range out.Findings {
			// keep, per signature, the witness that needs the fewest steps (and is not a 4 GiB Go-heap case)
			rank := (f.Step+1)*1000 + cs.nSteps()*10
			if isHeavy {
				rank += 500
			}
			b := a.found[f.Sig]
			if b == nil {
				b = &best{rank: 1 << 30}
				a.found[f.Sig] = b
			}
			b.count++
			if rank < b.rank {
				wcs := cs.truncated(f.Step)
				b.rank, b.detail = rank, f.Detail
				b.witness = map[string]any{"case": wcs, "finding": f, "log": out.Log, "summary": out.Summary}
			}
		}
	}
	// engine pairs
	for i := 0; i+1 < len(outs); i += 2 {
		x, y := outs[i], outs[i+1]
		if x == nil || y == nil {
			continue
		}
		if len(x.Findings) > 0 || len(y.Findings) > 0 {
			c.Count("pairs_not_compared_model_finding", 1)
			continue
		}
		if p.meta[i].Conc != nil {
			continue // schedules differ: each history is decided on its own
		}
		c.Count("pairs_compared", 1)
		if x.Digest != y.Digest {
			step := -1
			for k := 0; k < len(x.StepDigests) && k < len(y.StepDigests); k++ {
				if x.StepDigests[k] != y.StepDigests[k] {
					step = k - 1
					break
				}
			}
			kind := p.meta[i].Cfg.Kind
			if p.meta[i].Multi != nil {
				kind = "multi-instance"
			}
			c.Violate("engines-disagree:observations:"+kind, fmt.Sprintf("interpreter and compiler observations differ from step %d on (config %s)", step, p.meta[i].cfgKey()),
				map[string]any{"case": p.meta[i], "first_differing_step": step, "interpreter": x, "compiler": y})
		}
	}
}

// replay re-runs the case of a witness file on its engine (and its twin) in
// this process and prints the step log.
func replay(c *core.Ctx, path string) int {
	b, err := os.ReadFile(path)
	if err != nil {
		fmt.Println(err)
		return 2
	}
	var w struct {
		Witness struct {
			Case Case `json:"case"`
		} `json:"witness"`
	}
	if err := json.Unmarshal(b, &w); err != nil {
		fmt.Println(err)
		return 2
	}
	code := 0
	for _, e := range []string{"interpreter", "compiler"} {
		cs := w.Witness.Case
		cs.Engine = e
		var res *Result
		if cs.Conc != nil {
			res = runConc(cs)
		} else if cs.Multi != nil {
			res = runMulti(cs, true)
		} else {
			res = runCase(cs, true)
		}
		fmt.Printf("== %s: digest %s, %d findings\n", e, res.Digest, len(res.Findings))
		for _, l := range res.Log {
			if !strings.HasPrefix(l, "    obs") {
				fmt.Println(l)
			}
		}
		for _, f := range res.Findings {
			fmt.Printf("VIOLATION sig=%s step=%d %s\n", f.Sig, f.Step, f.Detail)
			code = 1
		}
	}
	return code
}
