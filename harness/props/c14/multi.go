package c14

// "Who executes the grow": two or three instances m0, m1, m2 in one runtime,
// each with its OWN memory (different min / max / allocator), no memory at all,
// or the memory imported from a lower instance. A history's grow / size / load /
// store steps are executed in a chosen instance e, reached by one of the routes
//
//	direct    host -> m_e.op
//	via       host -> m_x.via<e>_op -> (imported function) m_e.op                x > e
//	nested    host -> m2.via1via0_op -> m1.via0_op -> m0.op
//	indirect  host -> m_x.ind_op(slot) -> call_indirect through the shared table -> m_e.op   any x
//	hostself  ... -> m_e.hself_grow -> host function -> mod.Memory().Grow of the CALLING module
//	hostother host -> m_x.hother_grow(t) -> host function -> Memory.Grow of instance t
//
// After every step EVERY instance's memory.size (executed in that instance), host
// Grow(0) / Size() and boundary bytes are compared with per-memory independent
// reference models, and the two engines with each other.

import (
	"context"
	"fmt"
	"hash/fnv"
	"reflect"
	"strings"

	"github.com/tetratelabs/wazero"
	"github.com/tetratelabs/wazero/api"
	"github.com/tetratelabs/wazero/experimental"
	"github.com/tetratelabs/wazero/verifharness/core"
	"github.com/tetratelabs/wazero/verifharness/wenc"
)

type MInst struct {
	Mem    string `json:"mem"` // own | none | import
	From   int    `json:"from,omitempty"`
	Min    uint32 `json:"min,omitempty"`
	HasMax bool   `json:"has_max,omitempty"`
	Max    uint32 `json:"max,omitempty"`
	Alloc  string `json:"alloc,omitempty"` // default | guard | moving
}

type MStep struct {
	Route string `json:"route"` // direct via nested indirect hostself hostother
	Op    string `json:"op"`    // grow size load8 store8
	Exec  int    `json:"exec"`  // instance whose code executes the memory instruction (hostother: target instance)
	Entry int    `json:"entry"` // instance entered from the host
	D     string `json:"d,omitempty"`
	Where string `json:"where,omitempty"` // load/store: first | last | oob
}

type MultiCase struct {
	Insts  []MInst `json:"insts"`
	Limit  uint32  `json:"limit"`
	CapMax bool    `json:"cap_from_max"`
	Steps  []MStep `json:"steps"`
}

func (m *MultiCase) key() string {
	var sb strings.Builder
	fmt.Fprintf(&sb, "multi limit=%d capmax=%v", m.Limit, m.CapMax)
	for i, in := range m.Insts {
		switch in.Mem {
		case "own":
			mx := "none"
			if in.HasMax {
				mx = fmt.Sprint(in.Max)
			}
			fmt.Fprintf(&sb, " m%d[%d..%s,%s]", i, in.Min, mx, in.Alloc)
		case "import":
			fmt.Fprintf(&sb, " m%d[mem of m%d]", i, in.From)
		default:
			fmt.Fprintf(&sb, " m%d[no memory]", i)
		}
	}
	return sb.String()
}

// memID: which memory instance i uses (-1 none): the index of the owning instance.
func (m *MultiCase) memID(i int) int {
	switch m.Insts[i].Mem {
	case "own":
		return i
	case "import":
		return m.memID(m.Insts[i].From)
	}
	return -1
}

var (
	tG  = []wenc.ValType{wenc.I32}
	tR  = []wenc.ValType{wenc.I32}
	tW  = []wenc.ValType{wenc.I32, wenc.I32}
	ops = []string{"grow", "size", "load8", "store8"}
)

func opSig(op string) (params, results []wenc.ValType) {
	switch op {
	case "size":
		return nil, tR
	case "store8":
		return tW, nil
	}
	return tG, tR // grow, load8, hself_grow
}

// buildMulti encodes instance i of the topology.
func buildMulti(mc *MultiCase, i int) []byte {
	n := len(mc.Insts)
	has := func(k int) bool { return mc.memID(k) >= 0 }
	m := &wenc.Module{}
	hself := m.ImportFunc("env", "hgrow_self", tG, tR)
	hof := m.ImportFunc("env", "hgrow_of", tW, tR)
	imp := map[string]uint32{}
	fwdOps := append(append([]string{}, ops...), "hself_grow")
	for t := 0; t < i; t++ {
		if !has(t) {
			continue
		}
		for _, op := range fwdOps {
			p, r := opSig(op)
			imp[fmt.Sprintf("%d.%s", t, op)] = m.ImportFunc(fmt.Sprintf("m%d", t), op, p, r)
		}
	}
	if i == 2 && has(0) {
		for _, op := range fwdOps {
			p, r := opSig(op)
			imp["1.via0_"+op] = m.ImportFunc("m1", "via0_"+op, p, r)
		}
	}
	tt := wenc.TableType{Elem: wenc.FuncRef, Lim: wenc.Limits{Min: uint32(4 * n)}}
	if i == 0 {
		m.Tables = []wenc.TableType{tt}
		m.Exports = append(m.Exports, wenc.Export{Name: "tab", Kind: wenc.ExtTable, Idx: 0})
	} else {
		m.Imports = append(m.Imports, wenc.Import{Module: "m0", Name: "tab", Kind: wenc.ExtTable, Table: tt})
	}
	in := mc.Insts[i]
	switch in.Mem {
	case "own":
		m.Mems = []wenc.Limits{{Min: in.Min, Max: in.Max, HasMax: in.HasMax}}
	case "import":
		o := mc.Insts[mc.memID(i)]
		m.Imports = append(m.Imports, wenc.Import{Module: fmt.Sprintf("m%d", in.From), Name: "mem", Kind: wenc.ExtMemory,
			Mem: wenc.Limits{Min: o.Min, Max: o.Max, HasMax: o.HasMax}})
	}
	c := func() *wenc.Code { return &wenc.Code{} }
	args := func(code *wenc.Code, np int, first uint32) *wenc.Code {
		for k := 0; k < np; k++ {
			code.LocalGet(first + uint32(k))
		}
		return code
	}
	if has(i) {
		m.Exports = append(m.Exports, wenc.Export{Name: "mem", Kind: wenc.ExtMemory, Idx: 0})
		fg := m.AddFunc(tG, tR, nil, c().LocalGet(0).MemoryGrow().End().B)
		fs := m.AddFunc(nil, tR, nil, c().MemorySize().End().B)
		fl := m.AddFunc(tG, tR, nil, c().LocalGet(0).Mem(opI32Load8U, 0, 0).End().B)
		fw := m.AddFunc(tW, nil, nil, c().LocalGet(0).LocalGet(1).Mem(opI32Store8, 0, 0).End().B)
		m.ExportFunc("grow", fg)
		m.ExportFunc("size", fs)
		m.ExportFunc("load8", fl)
		m.ExportFunc("store8", fw)
		m.ExportFunc("hself_grow", m.AddFunc(tG, tR, nil, c().LocalGet(0).Call(hself).End().B))
		m.Elems = append(m.Elems, wenc.Elem{Mode: 0, TableIdx: 0, Offset: wenc.ConstI32(int32(4 * i)), Type: wenc.FuncRef,
			FuncIdx: []uint32{fg, fs, fl, fw}})
	}
	m.ExportFunc("hother_grow", m.AddFunc(tW, tR, nil, c().LocalGet(0).LocalGet(1).Call(hof).End().B))
	// forwarders through imported functions
	for t := 0; t < i; t++ {
		if !has(t) {
			continue
		}
		for _, op := range fwdOps {
			p, r := opSig(op)
			m.ExportFunc(fmt.Sprintf("via%d_%s", t, op), m.AddFunc(p, r, nil, args(c(), len(p), 0).Call(imp[fmt.Sprintf("%d.%s", t, op)]).End().B))
		}
	}
	if i == 2 && has(0) {
		for _, op := range fwdOps {
			p, r := opSig(op)
			m.ExportFunc("via1via0_"+op, m.AddFunc(p, r, nil, args(c(), len(p), 0).Call(imp["1.via0_"+op]).End().B))
		}
	}
	// call_indirect through the shared table: first parameter = slot
	for _, op := range []string{"grow", "size", "store8"} { // ind_grow also serves load8 (same type)
		p, r := opSig(op)
		ti := m.AddType(p, r)
		pp := append([]wenc.ValType{wenc.I32}, p...)
		m.ExportFunc("ind_"+op, m.AddFunc(pp, r, nil, args(c(), len(p), 1).LocalGet(0).CallIndirect(ti, 0).End().B))
	}
	return m.Encode()
}

type mrunner struct {
	*runner
	mc     *MultiCase
	models map[int]*model
}

func (mr *mrunner) fn(inst int, name string, a ...uint64) ([]uint64, error) {
	return mr.call(inst, name, a...)
}

func runMulti(cs Case, verbose bool) *Result {
	mc := cs.Multi
	res := &Result{Counters: map[string]int{}}
	r := &runner{cs: cs, eng: cs.Engine, ctx: context.Background(), res: res, h: fnv.New64a(),
		rng: core.NewRng(int64(cs.Seed), 15), verbose: verbose}
	mr := &mrunner{runner: r, mc: mc, models: map[int]*model{}}
	defer func() {
		res.Digest = fmt.Sprintf("%016x", r.h.Sum64())
		res.HWMKB = readStatusKB("VmHWM")
		if len(res.Findings) > 0 || verbose {
			res.Log = r.log
		}
		res.Stopped = r.stop
		for _, m := range mr.models {
			m.release()
		}
	}()
	var rc wazero.RuntimeConfig
	if cs.Engine == "compiler" {
		rc = wazero.NewRuntimeConfigCompiler()
	} else {
		rc = wazero.NewRuntimeConfigInterpreter()
	}
	rc = rc.WithMemoryLimitPages(mc.Limit).WithMemoryCapacityFromMax(mc.CapMax)
	rt := wazero.NewRuntimeWithConfig(r.ctx, rc)
	defer rt.Close(r.ctx)
	hostGrow := func(mem api.Memory, d uint32) uint32 {
		if mem == nil || reflect.ValueOf(mem).IsNil() {
			return 0xfffffffe
		}
		old, ok := mem.Grow(d)
		if !ok {
			return 0xffffffff
		}
		return old
	}
	_, err := rt.NewHostModuleBuilder("env").
		NewFunctionBuilder().WithFunc(func(ctx context.Context, mod api.Module, d uint32) uint32 {
		r.hostLog = append(r.hostLog, "hgrow_self in "+mod.Name())
		return hostGrow(mod.Memory(), d)
	}).Export("hgrow_self").
		NewFunctionBuilder().WithFunc(func(ctx context.Context, mod api.Module, t, d uint32) uint32 {
		if int(t) >= len(r.mods) {
			return 0xfffffffd
		}
		return hostGrow(r.mods[t].Memory(), d)
	}).Export("hgrow_of").Instantiate(r.ctx)
	if err != nil {
		panic(err)
	}
	stats := make([]*allocStats, len(mc.Insts))
	for i, in := range mc.Insts {
		ictx := r.ctx
		stats[i] = &allocStats{}
		switch in.Alloc {
		case "guard":
			ictx = experimental.WithMemoryAllocator(r.ctx, guardAlloc{stats[i]})
		case "moving":
			ictx = experimental.WithMemoryAllocator(r.ctx, moveAlloc{stats[i]})
		}
		cm, err := rt.CompileModule(r.ctx, buildMulti(mc, i))
		if err == nil {
			var mod api.Module
			mod, err = rt.InstantiateModule(ictx, cm, wazero.NewModuleConfig().WithName(fmt.Sprintf("m%d", i)))
			if err == nil {
				r.mods = append(r.mods, mod)
			}
		}
		if err != nil {
			// the generator only produces valid topologies
			res.Rejected = true
			res.RejectErr = err.Error()
			r.fail(false, "cross-module:module-rejected", "instance m%d of %s: %v", i, mc.key(), firstLine(err))
			return res
		}
		if in.Mem == "own" {
			bound := mc.Limit
			if in.HasMax && in.Max < bound {
				bound = in.Max
			}
			mr.models[i] = newModel(in.Min, bound)
		}
	}
	r.logf("%s engine=%s", mc.key(), cs.Engine)
	r.step = -1
	mr.checkAll("initial", "initial", "")
	var sum []string
	for i, s := range mc.Steps {
		if r.stop || len(res.Findings) > 0 {
			break
		}
		r.step = i
		sum = append(sum, mr.doStep(s))
		res.StepDigests = append(res.StepDigests, fmt.Sprintf("%016x", r.h.Sum64()))
	}
	res.Summary = strings.Join(sum, " ")
	for _, mod := range r.mods {
		mod.Close(r.ctx)
	}
	for i, st := range stats {
		if st.BeyondMax > 0 {
			r.fail(false, "allocator:request-beyond-max", "m%d: Reallocate asked for %d bytes, Allocate was told max=%d", i, st.MaxRequest, st.LastMax)
		}
	}
	return res
}

// entry function name and arguments for a step.
func (mr *mrunner) target(s MStep) (entry int, name string, pre []uint64) {
	op := s.Op
	switch s.Route {
	case "direct":
		return s.Exec, op, nil
	case "via":
		return s.Entry, fmt.Sprintf("via%d_%s", s.Exec, op), nil
	case "nested":
		return 2, "via1via0_" + op, nil
	case "indirect":
		slot := uint64(4*s.Exec) + map[string]uint64{"grow": 0, "size": 1, "load8": 2, "store8": 3}[op]
		n := "ind_" + op
		if op == "load8" {
			n = "ind_grow"
		}
		return s.Entry, n, []uint64{slot}
	case "hostself":
		if s.Entry == s.Exec {
			return s.Exec, "hself_grow", nil
		}
		if s.Entry == 2 && s.Exec == 0 && len(mr.mc.Insts) == 3 && mr.rng.Bool() {
			return 2, "via1via0_hself_grow", nil
		}
		return s.Entry, fmt.Sprintf("via%d_hself_grow", s.Exec), nil
	case "hostother":
		return s.Entry, "hother_grow", []uint64{uint64(s.Exec)}
	}
	panic("route " + s.Route)
}

func (mr *mrunner) doStep(s MStep) string {
	r := mr.runner
	mid := mr.mc.memID(s.Exec)
	m := mr.models[mid]
	entry, name, args := mr.target(s)
	tag := s.Route + ":" + s.Op
	r.count("multi_route_"+s.Route, 1)
	r.count("multi_op_"+s.Op, 1)
	if entry != s.Exec {
		r.count("multi_cross_instance_steps", 1)
		if em := mr.mc.memID(entry); em >= 0 && em != mid {
			r.count("multi_entry_has_other_memory", 1)
		} else if em < 0 {
			r.count("multi_entry_without_memory", 1)
		}
	}
	var wantVal uint64
	wantTrap := false
	var addr uint64
	var val byte
	switch s.Op {
	case "grow":
		r.m = m
		d := r.resolveDelta(s.D)
		r.m = nil
		args = append(args, uint64(d))
		if old, ok := m.grow(d); ok {
			wantVal = uint64(old)
			r.count("multi_grow_ok", 1)
		} else {
			wantVal = 0xffffffff
			r.count("multi_grow_fail", 1)
		}
	case "size":
		wantVal = uint64(m.size)
	case "load8", "store8":
		switch s.Where {
		case "first":
			addr = 0
		case "last":
			addr = m.bytes() - 1
		default:
			addr = m.bytes()
		}
		if m.size == 0 && s.Where != "oob" {
			addr = 0
		}
		wantTrap = !m.inb(addr, 1)
		args = append(args, addr)
		if s.Op == "store8" {
			val = byte(r.rng.U64())
			args = append(args, uint64(val))
			if !wantTrap {
				m.write(addr, []byte{val})
			}
		} else if !wantTrap {
			wantVal = uint64(m.read(addr, 1)[0])
		}
	}
	out, err := mr.fn(entry, name, args...)
	desc := fmt.Sprintf("%s[m%d.%s%v exec=m%d]", s.Route, entry, name, args, s.Exec)
	switch {
	case err != nil && !isOOBTrap(err):
		r.obs("%s err", desc)
		desc += "=error"
		r.fail(true, "cross-module:"+tag+":error:"+errClass(err), "%s: %v (%s)", desc, firstLine(err), mr.mc.key())
	case err != nil && !wantTrap:
		r.obs("%s trap", desc)
		desc += "=trap"
		r.fail(true, "cross-module:"+tag+":traps-in-bounds", "%s trapped: %v; memory of m%d has %d pages (%s)", desc, firstLine(err), mid, m.size, mr.mc.key())
	case err == nil && wantTrap:
		r.obs("%s no trap", desc)
		r.fail(true, "cross-module:"+tag+":no-trap-out-of-bounds", "%s did not trap; memory of m%d has %d pages (%s)", desc, mid, m.size, mr.mc.key())
	case err != nil:
		r.obs("%s trap", desc)
		desc += "=trap"
	case s.Op == "store8":
		r.obs("%s ok", desc)
	default:
		got := uint64(uint32(out[0]))
		r.obs("%s=%d", desc, int32(got))
		desc += fmt.Sprintf("=%d", int32(got))
		if got != wantVal {
			r.fail(true, "cross-module:"+tag+":wrong-result", "%s returned %d, the model of m%d's memory says %d (%s)", desc, int32(got), mid, int32(wantVal), mr.mc.key())
		}
	}
	r.logf("step %d: %s", r.step, desc)
	mr.checkAll("after "+desc, tag, fmt.Sprint(mid))
	return desc
}

// checkAll compares every instance with its memory's model.
func (mr *mrunner) checkAll(when, tag, execMem string) {
	r := mr.runner
	for i, mod := range r.mods {
		mid := mr.mc.memID(i)
		mem := mod.Memory()
		if mid < 0 {
			// (Module.Memory() of an instance without memory is a typed-nil interface value on this
			// tree, not nil; that is outside this property and not judged here.)
			continue
		}
		m := mr.models[mid]
		role := "other-memory"
		if fmt.Sprint(mid) == execMem {
			role = "executing-instance-memory"
		}
		out, err := mr.fn(i, "size")
		r.count("multi_obs_size", 1)
		if err != nil {
			r.obs("m%d size err", i)
			r.fail(true, "cross-module:"+tag+":memory.size-error:"+errClass(err), "%s: m%d.size(): %v", when, i, firstLine(err))
		} else {
			got := uint32(out[0])
			r.obs("m%d size=%d", i, got)
			if got != m.size {
				r.fail(true, "cross-module:"+tag+":"+role+":wrong-size", "%s: memory.size executed in m%d = %d, model %d pages (%s)", when, i, got, m.size, mr.mc.key())
			}
		}
		if mem == nil || reflect.ValueOf(mem).IsNil() {
			r.fail(true, "cross-module:Module.Memory()-nil", "%s: m%d", when, i)
			continue
		}
		p, ok := mem.Grow(0)
		sz := mem.Size()
		r.obs("m%d grow0=%d,%v size=%d", i, p, ok, sz)
		if !ok || p != m.size || sz != uint32(m.bytes()) {
			r.fail(true, "cross-module:"+tag+":"+role+":wrong-size", "%s: m%d Memory().Grow(0)=%d,%v Size()=%d, model %d pages (%s)", when, i, p, ok, sz, m.size, mr.mc.key())
			continue
		}
		// boundary bytes: first, last, first out of bounds
		for _, a := range []uint64{0, m.bytes() - 1, m.bytes()} {
			if a > 0xffffffff {
				continue
			}
			b, bok := mem.ReadByte(uint32(a))
			want := m.inb(a, 1)
			r.count("multi_obs_bytes", 1)
			if bok != want {
				r.obs("m%d byte %d ok=%v", i, a, bok)
				r.fail(true, "cross-module:"+tag+":"+role+":ReadByte-bounds", "%s: m%d ReadByte(%d) ok=%v, model size %d pages", when, i, a, bok, m.size)
			} else if want && b != m.read(a, 1)[0] {
				r.obs("m%d byte %d = %d", i, a, b)
				r.fail(true, "cross-module:"+tag+":"+role+":wrong-contents", "%s: m%d byte %d = %#x, model %#x (%s)", when, i, a, b, m.read(a, 1)[0], mr.mc.key())
			}
		}
	}
}

// genMulti draws a topology and a history.
func genMulti(rng *core.Rng) *MultiCase {
	mc := &MultiCase{Limit: []uint32{65536, 65536, 6, 4}[rng.Intn(4)], CapMax: rng.Chance(1, 3)}
	n := 2 + rng.Intn(2)
	for {
		mc.Insts = mc.Insts[:0]
		owners := 0
		for i := 0; i < n; i++ {
			in := MInst{Mem: "own"}
			k := rng.Intn(20)
			switch {
			case k < 3:
				in.Mem = "none"
			case k < 6 && i > 0:
				var cands []int
				for j := 0; j < i; j++ {
					if mc.memID(j) >= 0 {
						cands = append(cands, j)
					}
				}
				if len(cands) > 0 {
					in.Mem, in.From = "import", cands[rng.Intn(len(cands))]
				}
			}
			if in.Mem == "own" {
				owners++
				// different instances get different sizes: min = i + 0..1 (+ occasionally 0)
				in.Min = uint32(i + rng.Intn(2))
				if rng.Chance(1, 6) {
					in.Min = 0
				}
				if in.Min > mc.Limit {
					in.Min = mc.Limit
				}
				// memories stay small: without a declared max the bound is the (then small) limit
				if mc.Limit > 16 || rng.Chance(3, 4) {
					in.HasMax = true
					in.Max = in.Min + uint32(rng.Intn(4))
					if in.Max > mc.Limit {
						in.Max = mc.Limit // keeps capacity-from-max configurations acceptable
					}
				}
				in.Alloc = []string{"default", "default", "guard", "moving"}[rng.Intn(4)]
			}
			mc.Insts = append(mc.Insts, in)
		}
		if owners >= 1 {
			break
		}
	}
	var withMem []int
	for i := range mc.Insts {
		if mc.memID(i) >= 0 {
			withMem = append(withMem, i)
		}
	}
	steps := 4 + rng.Intn(8)
	for k := 0; k < steps; k++ {
		s := MStep{Exec: withMem[rng.Intn(len(withMem))]}
		s.Entry = s.Exec
		switch x := rng.Intn(20); {
		case x < 10:
			s.Op = "grow"
		case x < 12:
			s.Op = "size"
		case x < 15:
			s.Op = "load8"
		case x < 18:
			s.Op = "store8"
		case x < 19:
			s.Op, s.Route = "grow", "hostself"
		default:
			s.Op, s.Route = "grow", "hostother"
		}
		if s.Op == "grow" {
			s.D = []string{"0", "1", "1", "2", "fill", "fill+1"}[rng.Intn(6)]
		} else if s.Op != "size" {
			s.Where = []string{"first", "last", "last", "oob"}[rng.Intn(4)]
		}
		higher := n - 1 - s.Exec // instances that import m_exec's functions
		switch {
		case s.Route == "hostother":
			s.Entry = rng.Intn(n)
		case s.Route == "hostself":
			if higher > 0 && rng.Chance(2, 3) {
				s.Entry = s.Exec + 1 + rng.Intn(higher)
			}
		default:
			switch x := rng.Intn(20); {
			case x < 3:
				s.Route = "direct"
			case x < 10 && higher > 0:
				s.Route, s.Entry = "via", s.Exec+1+rng.Intn(higher)
			case x < 14 && n == 3 && s.Exec == 0:
				s.Route, s.Entry = "nested", 2
			default:
				s.Route, s.Entry = "indirect", rng.Intn(n)
			}
		}
		mc.Steps = append(mc.Steps, s)
	}
	return mc
}
