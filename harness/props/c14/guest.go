package c14

import "github.com/tetratelabs/wazero/verifharness/wenc"

// Guest functions (identical in the exporting and the importing module):
//
//	size() i32                       memory.size
//	grow(d) i32                      memory.grow
//	load8(a) i32   load64(a) i64     i32.load8_u / i64.load
//	store8(a,v)    store64(a,v)
//	seq(d,a)  -> s0 r s1 b           memory.size; memory.grow d; memory.size; load8 a   (one function body)
//	seqp(d,a0,a) -> b0 s0 r s1 b     same with an access before the grow (memory base/len already cached)
//	cb(d,a) / cbp(d,a0,a)            same, the grow is done by the host function env.hgrow through api.Memory.Grow
//	growloop(k) i32                  k times: memory.grow 1 (stop on -1), store8 0xAB at the last byte of memory; memory.size
const (
	opI32Load8U = 0x2d
	opI64Load   = 0x29
	opI32Store8 = 0x3a
	opI64Store  = 0x37
)

func i32s(n int) []wenc.ValType {
	r := make([]wenc.ValType, n)
	for i := range r {
		r[i] = wenc.I32
	}
	return r
}

// buildGuest encodes the module. imported=false: defines and exports the memory
// "mem"; imported=true: imports "exp"."mem" with the same limits and re-exports it.
func buildGuest(lim wenc.Limits, imported bool) []byte {
	m := &wenc.Module{}
	hgrow := m.ImportFunc("env", "hgrow", i32s(1), i32s(1))
	if imported {
		m.Imports = append(m.Imports, wenc.Import{Module: "exp", Name: "mem", Kind: wenc.ExtMemory, Mem: lim})
	} else {
		m.Mems = []wenc.Limits{lim}
	}
	m.Exports = append(m.Exports, wenc.Export{Name: "mem", Kind: wenc.ExtMemory, Idx: 0})
	c := func() *wenc.Code { return &wenc.Code{} }
	m.ExportFunc("size", m.AddFunc(nil, i32s(1), nil, c().MemorySize().End().B))
	m.ExportFunc("grow", m.AddFunc(i32s(1), i32s(1), nil, c().LocalGet(0).MemoryGrow().End().B))
	m.ExportFunc("load8", m.AddFunc(i32s(1), i32s(1), nil, c().LocalGet(0).Mem(opI32Load8U, 0, 0).End().B))
	m.ExportFunc("load64", m.AddFunc(i32s(1), []wenc.ValType{wenc.I64}, nil, c().LocalGet(0).Mem(opI64Load, 0, 0).End().B))
	m.ExportFunc("store8", m.AddFunc(i32s(2), nil, nil, c().LocalGet(0).LocalGet(1).Mem(opI32Store8, 0, 0).End().B))
	m.ExportFunc("store64", m.AddFunc([]wenc.ValType{wenc.I32, wenc.I64}, nil, nil, c().LocalGet(0).LocalGet(1).Mem(opI64Store, 0, 0).End().B))
	m.ExportFunc("seq", m.AddFunc(i32s(2), i32s(4), nil,
		c().MemorySize().LocalGet(0).MemoryGrow().MemorySize().LocalGet(1).Mem(opI32Load8U, 0, 0).End().B))
	m.ExportFunc("seqp", m.AddFunc(i32s(3), i32s(5), nil,
		c().LocalGet(1).Mem(opI32Load8U, 0, 0).MemorySize().LocalGet(0).MemoryGrow().MemorySize().LocalGet(2).Mem(opI32Load8U, 0, 0).End().B))
	m.ExportFunc("cb", m.AddFunc(i32s(2), i32s(4), nil,
		c().MemorySize().LocalGet(0).Call(hgrow).MemorySize().LocalGet(1).Mem(opI32Load8U, 0, 0).End().B))
	m.ExportFunc("cbp", m.AddFunc(i32s(3), i32s(5), nil,
		c().LocalGet(1).Mem(opI32Load8U, 0, 0).MemorySize().LocalGet(0).Call(hgrow).MemorySize().LocalGet(2).Mem(opI32Load8U, 0, 0).End().B))
	// growloop(k): local 1 = scratch
	lp := c().
		Block(0x40).Loop(0x40).
		LocalGet(0).Op(0x45).BrIf(1).                            // i32.eqz
		I32Const(1).MemoryGrow().I32Const(-1).Op(0x46).BrIf(1).  // i32.eq
		MemorySize().I32Const(16).Op(0x74).I32Const(1).Op(0x6b). // shl, sub
		I32Const(0xAB).Mem(opI32Store8, 0, 0).
		LocalGet(0).I32Const(1).Op(0x6b).LocalSet(0).
		Br(0).End().End().
		MemorySize().End()
	m.ExportFunc("growloop", m.AddFunc(i32s(1), i32s(1), nil, lp.B))
	return m.Encode()
}
