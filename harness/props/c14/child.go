package c14

import (
	"bytes"
	"context"
	"encoding/binary"
	"encoding/json"
	"fmt"
	"hash"
	"hash/fnv"
	"math"
	"os"
	"regexp"
	"runtime/debug"
	"strconv"
	"strings"

	"github.com/tetratelabs/wazero"
	"github.com/tetratelabs/wazero/api"
	"github.com/tetratelabs/wazero/experimental"
	"github.com/tetratelabs/wazero/verifharness/core"
	"github.com/tetratelabs/wazero/verifharness/wenc"
)

// Step is one grow request of a history.
//
//	Op: G guest memory.grow (exported function), H host Memory.Grow between calls,
//	    S guest size/grow/size/load in ONE function body, C the same with the grow done by a
//	    host function (api.Memory.Grow inside a host call), L guest loop growing page by page.
//	D : symbolic delta resolved against the model state when the step runs:
//	    0 1 2 fill(=bound-size) fill+1 65536 2^31-1 2^31 2^32-1   (L: 1..3 iterations)
type Step struct {
	Op   string `json:"op"`
	D    string `json:"d"`
	Inst int    `json:"inst,omitempty"` // imported kind: 0 = exporting instance, 1 = importing instance
}

type Case struct {
	Cfg    Config `json:"cfg"`
	Steps  []Step `json:"steps"`
	Seed   uint64 `json:"seed"`
	Engine string `json:"engine"` // interpreter | compiler
	Class  string `json:"class"`  // prng | exhaustive | heavy | reject | multi
	// Multi: several instances with their own memories ("who executes the grow"), see multi.go
	Multi *MultiCase `json:"multi,omitempty"`
	// Conc: concurrent grows of one shared memory, see conc.go
	Conc *ConcCase `json:"conc,omitempty"`
}

func (cs Case) cfgKey() string {
	if cs.Conc != nil {
		return cs.Conc.key()
	}
	if cs.Multi != nil {
		return cs.Multi.key()
	}
	return cs.Cfg.String()
}

func (cs Case) nSteps() int {
	if cs.Conc != nil {
		return cs.Conc.G * cs.Conc.K
	}
	if cs.Multi != nil {
		return len(cs.Multi.Steps)
	}
	return len(cs.Steps)
}

// truncated returns the case cut after step k (the later steps are irrelevant for a finding at k).
func (cs Case) truncated(k int) Case {
	if cs.Multi != nil {
		mc := *cs.Multi
		if k+1 < len(mc.Steps) {
			mc.Steps = mc.Steps[:k+1]
		}
		cs.Multi = &mc
	} else if k+1 < len(cs.Steps) {
		cs.Steps = cs.Steps[:k+1]
	}
	return cs
}

type Finding struct {
	Sig    string `json:"sig"`
	Detail string `json:"detail"`
	Step   int    `json:"step"`
}

type Result struct {
	Findings    []Finding      `json:"findings,omitempty"`
	Rejected    bool           `json:"rejected,omitempty"`
	RejectErr   string         `json:"reject_err,omitempty"`
	Digest      string         `json:"digest"`
	StepDigests []string       `json:"step_digests,omitempty"`
	Counters    map[string]int `json:"counters"`
	Summary     string         `json:"summary"`
	Log         []string       `json:"log,omitempty"` // only when there are findings (or replay)
	RSSKB       int            `json:"rss_kb"`
	HWMKB       int            `json:"hwm_kb"`
	FinalPages  uint32         `json:"final_pages"`
	Alloc       *allocStats    `json:"alloc,omitempty"`
	Stopped     bool           `json:"stopped,omitempty"`
}

type runner struct {
	cs      Case
	eng     string
	ctx     context.Context
	mods    []api.Module
	mems    []api.Memory // host handles
	memInst []int        // instance of each handle
	m       *model
	rng     *core.Rng
	res     *Result
	h       hash.Hash64
	step    int
	log     []string
	stop    bool
	hostLog []string // what env.hgrow saw
	verbose bool
	scratch []byte
	fns     map[string]api.Function
}

func (r *runner) count(k string, n int) { r.res.Counters[k] += n }

func (r *runner) bucket() string {
	if r.m != nil && r.m.size == specMaxPages {
		return "65536-pages"
	}
	return "below-65536"
}

// obs folds one observation into the digest that is compared between engines.
func (r *runner) obs(format string, a ...any) {
	fmt.Fprintf(r.h, format, a...)
	r.h.Write([]byte{'\n'})
	if r.verbose {
		r.log = append(r.log, "    obs "+fmt.Sprintf(format, a...))
	}
}

func (r *runner) logf(format string, a ...any) {
	if len(r.log) < 400 {
		r.log = append(r.log, fmt.Sprintf(format, a...))
	}
}

// fail records a finding. state=true: the real memory may now differ from the model.
func (r *runner) fail(state bool, sig, format string, a ...any) {
	if !strings.HasPrefix(sig, "host:") && !strings.HasPrefix(sig, "shared-concurrent:") {
		// the host accessors are engine independent code (the witness still names the engine)
		sig = r.eng + ":" + sig
	}
	if state {
		r.stop = true
	}
	for _, f := range r.res.Findings {
		if f.Sig == sig {
			return
		}
	}
	if len(r.res.Findings) >= 16 {
		return
	}
	d := fmt.Sprintf(format, a...)
	r.logf("  !! %s: %s", sig, d)
	r.res.Findings = append(r.res.Findings, Finding{Sig: sig, Detail: d, Step: r.step})
}

func isOOBTrap(err error) bool {
	return err != nil && strings.Contains(err.Error(), "out of bounds memory access")
}

var reHex = regexp.MustCompile(`0x[0-9a-fA-F]+|\d{3,}`)

func errClass(err error) string {
	s := err.Error()
	if i := strings.IndexByte(s, '\n'); i > 0 {
		s = s[:i]
	}
	s = reHex.ReplaceAllString(s, "N")
	if len(s) > 80 {
		s = s[:80]
	}
	return strings.ReplaceAll(s, " ", "_")
}

func (r *runner) call(inst int, fn string, args ...uint64) ([]uint64, error) {
	key := fn + string(rune('0'+inst))
	f := r.fns[key]
	if f == nil {
		f = r.mods[inst].ExportedFunction(fn)
		if f == nil {
			return nil, fmt.Errorf("no export %s", fn)
		}
		if r.fns == nil {
			r.fns = map[string]api.Function{}
		}
		r.fns[key] = f
	}
	return f.Call(r.ctx, args...)
}

func readStatusKB(key string) int {
	b, err := os.ReadFile("/proc/self/status")
	if err != nil {
		return 0
	}
	for _, l := range strings.Split(string(b), "\n") {
		if strings.HasPrefix(l, key+":") {
			f := strings.Fields(l)
			if len(f) >= 2 {
				v, _ := strconv.Atoi(f[1])
				return v
			}
		}
	}
	return 0
}

func runCase(cs Case, verbose bool) *Result {
	res := &Result{Counters: map[string]int{}}
	r := &runner{cs: cs, eng: cs.Engine, ctx: context.Background(), res: res, h: fnv.New64a(),
		rng: core.NewRng(int64(cs.Seed), 14), verbose: verbose}
	var rt wazero.Runtime
	defer func() {
		res.Digest = fmt.Sprintf("%016x", r.h.Sum64())
		res.RSSKB = readStatusKB("VmRSS")
		res.HWMKB = readStatusKB("VmHWM")
		if len(res.Findings) > 0 || verbose {
			res.Log = r.log
		}
		res.Stopped = r.stop
		if res.Counters["harness_rss_safety_net"] > 0 {
			for _, mod := range r.mods {
				mod.Close(r.ctx)
			}
			if rt != nil {
				rt.Close(r.ctx)
			}
			debug.FreeOSMemory()
		}
		if r.m != nil {
			r.m.release()
		}
	}()
	cfg := cs.Cfg
	verdict, bound, why := cfg.expect()

	st := &allocStats{}
	ictx := r.ctx
	switch cfg.Alloc {
	case "guard":
		ictx = experimental.WithMemoryAllocator(r.ctx, guardAlloc{st})
		res.Alloc = st
	case "moving":
		ictx = experimental.WithMemoryAllocator(r.ctx, moveAlloc{st})
		res.Alloc = st
	}
	var rc wazero.RuntimeConfig
	if cs.Engine == "compiler" {
		rc = wazero.NewRuntimeConfigCompiler()
	} else {
		rc = wazero.NewRuntimeConfigInterpreter()
	}
	rc = rc.WithMemoryLimitPages(cfg.Limit).WithMemoryCapacityFromMax(cfg.CapMax)
	if cfg.Kind == "shared" {
		rc = rc.WithCoreFeatures(api.CoreFeaturesV2 | experimental.CoreFeaturesThreads)
	}
	rt = wazero.NewRuntimeWithConfig(r.ctx, rc)
	defer rt.Close(r.ctx)
	_, err := rt.NewHostModuleBuilder("env").NewFunctionBuilder().
		WithFunc(func(ctx context.Context, mod api.Module, d uint32) uint32 {
			old, ok := mod.Memory().Grow(d)
			r.hostLog = append(r.hostLog, fmt.Sprintf("hgrow(%d)=%d,%v", d, old, ok))
			if !ok {
				return 0xffffffff
			}
			return old
		}).Export("hgrow").Instantiate(r.ctx)
	if err != nil {
		panic(err)
	}

	lim := wenc.Limits{Min: cfg.Min, Max: cfg.Max, HasMax: cfg.HasMax, Shared: cfg.Kind == "shared"}
	bins := [][]byte{buildGuest(lim, false)}
	names := []string{"exp"}
	if cfg.Kind == "imported" {
		bins = append(bins, buildGuest(lim, true))
		names = append(names, "imp")
	}
	var cms []wazero.CompiledModule
	var rejectErr error
	for i, b := range bins {
		cm, err := rt.CompileModule(r.ctx, b)
		if err != nil {
			rejectErr = fmt.Errorf("compile %s: %w", names[i], err)
			break
		}
		cms = append(cms, cm)
		mod, err := rt.InstantiateModule(ictx, cm, wazero.NewModuleConfig().WithName(names[i]))
		if err != nil {
			rejectErr = fmt.Errorf("instantiate %s: %w", names[i], err)
			break
		}
		r.mods = append(r.mods, mod)
	}
	r.obs("rejected=%v", rejectErr != nil)
	if rejectErr != nil {
		res.Rejected = true
		res.RejectErr = rejectErr.Error()
		r.count("modules_rejected", 1)
		r.count("rejected_"+strings.ReplaceAll(why, " ", "_"), 1)
		res.Summary = "rejected: " + core.Trunc(rejectErr.Error(), 120)
		if verdict == "accept" {
			r.fail(false, "module:rejected-valid-memory", "config %s is valid (bound %d pages) but: %v", cfg, bound, rejectErr)
		}
		return res
	}
	r.count("modules_accepted", 1)
	if verdict == "reject" {
		r.fail(false, "module:accepted-invalid-memory:"+why, "config %s must be rejected (%s) but compiled and instantiated", cfg, why)
		return res
	}
	if verdict == "either" {
		r.count("either_accepted", 1)
	}
	r.m = newModel(cfg.Min, bound)

	// host handles
	for i, mod := range r.mods {
		if m := mod.Memory(); m != nil {
			r.mems = append(r.mems, m)
			r.memInst = append(r.memInst, i)
		} else {
			r.fail(true, "host:Module.Memory()-nil", "instance %d has no memory", i)
		}
		if m := mod.ExportedMemory("mem"); m != nil {
			r.mems = append(r.mems, m)
			r.memInst = append(r.memInst, i)
		} else {
			r.fail(true, "host:ExportedMemory-nil", "instance %d does not export mem", i)
		}
	}
	if r.stop {
		return res
	}
	r.logf("config %s engine=%s bound=%d", cfg, cs.Engine, bound)

	// definitions (run time and compile time)
	r.checkDefinitions(cms)
	// initial state
	r.step = -1
	r.checkSizes("initial")
	r.checkZeroPages(0, r.m.size, "initial")
	r.hostProbes()
	r.guestProbes()
	r.res.StepDigests = append(r.res.StepDigests, fmt.Sprintf("%016x", r.h.Sum64()))

	var sum []string
	for i, s := range cs.Steps {
		if r.stop {
			break
		}
		r.step = i
		sum = append(sum, r.doStep(s))
		r.res.StepDigests = append(r.res.StepDigests, fmt.Sprintf("%016x", r.h.Sum64()))
	}
	res.Summary = strings.Join(sum, " ")
	res.FinalPages = r.m.size
	r.count("final_"+r.bucket(), 1)

	for _, mod := range r.mods {
		mod.Close(r.ctx)
	}
	if res.Alloc != nil {
		if st.BeyondMax > 0 {
			r.fail(false, "allocator:request-beyond-max", "Reallocate asked for %d bytes, Allocate was told max=%d", st.MaxRequest, st.LastMax)
		}
		if len(st.Errors) > 0 {
			res.Counters["harness_allocator_errors"] += len(st.Errors)
		}
		r.count("alloc_reallocs", st.Reallocs)
		r.count("alloc_frees", st.Frees)
		r.count("alloc_allocs", st.Allocs)
	}
	return res
}

func (r *runner) checkDefinitions(cms []wazero.CompiledModule) {
	cfg := r.cs.Cfg
	chk := func(where string, d api.MemoryDefinition) {
		if d == nil {
			r.fail(false, "definition:missing", "%s: nil definition", where)
			return
		}
		mx, enc := d.Max()
		r.obs("def %s min=%d enc=%v", where, d.Min(), enc)
		if enc {
			r.obs("def %s max=%d", where, mx)
		}
		r.count("definition_checks", 1)
		if d.Min() != cfg.Min {
			r.fail(false, "definition:min", "%s: Min()=%d, declared %d", where, d.Min(), cfg.Min)
		}
		if enc != cfg.HasMax {
			r.fail(false, "definition:max-encoded", "%s: Max() encoded=%v, declared has-max=%v", where, enc, cfg.HasMax)
		} else if enc {
			clamped := cfg.Max
			if cfg.Limit < clamped {
				clamped = cfg.Limit
			}
			if mx != cfg.Max && mx != clamped {
				r.fail(false, "definition:max", "%s: Max()=%d, declared %d (limit %d)", where, mx, cfg.Max, cfg.Limit)
			}
		}
	}
	for i, m := range r.mems {
		chk(fmt.Sprintf("handle%d", i), m.Definition())
	}
	chk("compiled-exporter", cms[0].ExportedMemories()["mem"])
	if len(cms) > 1 {
		chk("compiled-importer-export", cms[1].ExportedMemories()["mem"])
		im := cms[1].ImportedMemories()
		if len(im) != 1 {
			r.fail(false, "definition:missing", "importer has %d imported memories", len(im))
		} else {
			chk("compiled-importer-import", im[0])
		}
	}
}

// checkSizes: guest memory.size in every instance, host Grow(0) and Size() on every handle.
func (r *runner) checkSizes(when string) {
	want := r.m.size
	for i := range r.mods {
		out, err := r.call(i, "size")
		r.count("obs_guest_size", 1)
		if err != nil {
			r.obs("size[%d] err", i)
			r.fail(false, "memory.size:"+r.bucket()+":error:"+errClass(err), "%s: instance %d size(): %v", when, i, firstLine(err))
			continue
		}
		got := uint32(out[0])
		r.obs("size[%d]=%d", i, got)
		if got != want {
			how := "wrong"
			if got == 0 {
				how = "reads-0"
			}
			r.fail(false, "memory.size:"+r.bucket()+":"+how, "%s: guest memory.size in instance %d = %d, model %d pages (config %s)", when, i, got, want, r.cs.Cfg)
		}
	}
	for i, m := range r.mems {
		p, ok := m.Grow(0)
		sz := m.Size()
		r.obs("grow0[%d]=%d,%v size=%d", i, p, ok, sz)
		r.count("obs_host_grow0", 1)
		if !ok {
			r.fail(false, "host.Grow(0):"+r.bucket()+":not-ok", "%s: handle %d Grow(0) = %d,false", when, i, p)
		} else if p != want {
			r.fail(false, "host.Grow(0):"+r.bucket()+":wrong-size", "%s: handle %d Grow(0) = %d, model %d pages", when, i, p, want)
		}
		if sz != uint32(uint64(want)<<16) {
			r.fail(false, "host.Size():"+r.bucket()+":not-bytes-mod-2^32", "%s: handle %d Size() = %d, model %d pages", when, i, sz, want)
		}
	}
}

// samplePages picks up to n distinct pages in [lo,hi): both ends, their neighbours and random ones.
func (r *runner) samplePages(lo, hi uint32, n int) []uint32 {
	if hi <= lo {
		return nil
	}
	var out []uint32
	add := func(p uint32) {
		if p < lo || p >= hi || len(out) >= n {
			return
		}
		for _, q := range out {
			if q == p {
				return
			}
		}
		out = append(out, p)
	}
	add(lo)
	add(hi - 1)
	add(lo + 1)
	if hi >= 2 {
		add(hi - 2)
	}
	if hi-lo <= uint32(n) {
		for p := lo; p < hi; p++ {
			add(p)
		}
	}
	for k := 0; k < 2*n && len(out) < n; k++ {
		add(lo + uint32(r.rng.Intn(int(hi-lo))))
	}
	return out
}

func (r *runner) handle() (api.Memory, int) {
	i := (r.step + 1) % len(r.mems)
	return r.mems[i], i
}

// checkZeroPages reads whole sampled pages of [lo,hi) and compares with the model
// (new pages: all zero).
func (r *runner) checkZeroPages(lo, hi uint32, when string) {
	mem, hi0 := r.handle()
	for _, p := range r.samplePages(lo, hi, 5) {
		off := uint64(p) << 16
		buf, ok, pv := safeRead(mem, "Read", uint32(off), 65536)
		r.count("new_pages_checked", 1)
		if pv != nil {
			r.panicked(false, "Read", off, 65536, true, pv)
			continue
		}
		if !ok || len(buf) != 65536 {
			r.obs("zero page %d unreadable", p)
			r.fail(false, "host:fails-in-bounds:"+r.bucket()+":Read", "%s: handle %d Read(%d,65536) = len %d,%v with size %d pages", when, hi0, off, len(buf), ok, r.m.size)
			continue
		}
		if d := r.m.diff(off, buf); d >= 0 {
			r.obs("page %d differs at %d", p, d)
			r.fail(false, "contents:new-page-not-zero", "%s: page %d byte %d = %#x, model %#x", when, p, d, buf[d], r.m.read(off+uint64(d), 1)[0])
		}
	}
}

type marker struct {
	off uint64
	val uint64
}

// writeMarkers writes 8-byte markers at the start and the end of sampled pages of the current memory.
func (r *runner) writeMarkers() []marker {
	mem, hi := r.handle()
	var ms []marker
	for _, p := range r.samplePages(0, r.m.size, 5) {
		for _, o := range []uint64{0, 65528} {
			off := uint64(p)<<16 + o
			v := r.rng.U64() | 1
			var b [8]byte
			binary.LittleEndian.PutUint64(b[:], v)
			ok, pv := safeWrite(mem, "WriteUint64Le", uint32(off), b[:])
			if pv != nil {
				r.panicked(true, "WriteUint64Le", off, 8, true, pv)
				continue
			}
			if !ok {
				r.obs("marker write failed")
				r.fail(true, "host:fails-in-bounds:"+r.bucket()+":WriteUint64Le", "marker: handle %d WriteUint64Le(%d) failed with size %d pages", hi, off, r.m.size)
				continue
			}
			r.m.write(off, b[:])
			ms = append(ms, marker{off, v})
		}
	}
	r.count("markers_written", len(ms))
	return ms
}

func (r *runner) checkMarkers(ms []marker, when string) {
	for hi, mem := range r.mems {
		if hi%2 == 1 {
			continue // Memory() and ExportedMemory() of one instance: check one of them
		}
		for _, m := range ms {
			raw, ok, pv := safeRead(mem, "ReadUint64Le", uint32(m.off), 0)
			r.count("markers_checked", 1)
			if pv != nil {
				r.panicked(false, "ReadUint64Le", m.off, 8, true, pv)
				continue
			}
			v := binary.LittleEndian.Uint64(raw)
			if !ok || v != m.val {
				r.obs("marker %d lost", m.off)
				r.fail(false, "contents:old-page-changed-by-grow", "%s: handle %d ReadUint64Le(%d) = %#x,%v want %#x (size %d pages)", when, hi, m.off, v, ok, m.val, r.m.size)
			}
		}
	}
}

func (r *runner) resolveDelta(d string) uint32 {
	fill := r.m.bound - r.m.size
	switch d {
	case "fill":
		return fill
	case "fill+1":
		return fill + 1
	case "fill-1":
		if fill == 0 {
			return 0
		}
		return fill - 1
	case "2^31":
		return 1 << 31
	case "2^31-1":
		return 1<<31 - 1
	case "2^32-1":
		return math.MaxUint32
	}
	v, err := strconv.ParseUint(d, 10, 32)
	if err != nil {
		panic("bad delta " + d)
	}
	return uint32(v)
}

// growVerdict compares one grow result with the model's. got: result and success.
func (r *runner) growVerdict(agent string, d uint32, old uint32, wantOK bool, got uint32, gotOK bool) {
	r.count("grow_"+agent+map[bool]string{true: "_ok", false: "_fail"}[wantOK], 1)
	switch {
	case gotOK && !wantOK:
		r.fail(true, "grow:"+agent+":succeeded-beyond-bound", "grow(%d) from %d pages returned %d; bound is %d pages (config %s)", d, r.m.size, got, r.m.bound, r.cs.Cfg)
	case !gotOK && wantOK:
		r.fail(true, "grow:"+agent+":failed-within-bound:"+r.bucket(), "grow(%d) from %d pages failed; bound is %d pages (config %s)", d, old, r.m.bound, r.cs.Cfg)
	case gotOK && got != old:
		r.fail(true, "grow:"+agent+":wrong-previous-size:"+r.bucket(), "grow(%d) returned %d, previous size was %d pages (config %s)", d, got, old, r.cs.Cfg)
	}
}

// resync after a state-affecting finding: adopt the host-visible size if all handles agree
// and it is one the model could explain; otherwise the case stops.
func (r *runner) resync() {
	if !r.stop {
		return
	}
	var p0 uint32
	for i, m := range r.mems {
		p, ok := m.Grow(0)
		if !ok || (i > 0 && p != p0) {
			return
		}
		p0 = p
	}
	if p0 >= r.cs.Cfg.Min && p0 <= r.m.bound {
		r.logf("  resync model size %d -> %d", r.m.size, p0)
		r.m.size = p0
		r.stop = false
		r.count("resyncs", 1)
	}
}

func (r *runner) doStep(s Step) string {
	if s.Inst >= len(r.mods) {
		s.Inst = 0
	}
	markers := r.writeMarkers()
	before := r.m.size
	var d uint32
	if s.Op != "L" {
		d = r.resolveDelta(s.D)
	}
	r.count("step_"+s.Op, 1)
	r.count("delta_"+s.D, 1)
	desc := ""
	switch s.Op {
	case "G":
		old, wantOK := r.m.grow(d)
		out, err := r.call(s.Inst, "grow", uint64(d))
		if err != nil {
			r.obs("G err")
			r.fail(true, "grow:guest:error:"+errClass(err), "grow(%d): %v", d, firstLine(err))
			break
		}
		got := uint32(out[0])
		r.obs("G[%d](%d)=%d", s.Inst, d, int32(got))
		r.growVerdict("guest", d, old, wantOK, got, got != 0xffffffff)
		desc = fmt.Sprintf("G%d(%s=%d)=%d", s.Inst, s.D, d, int32(got))
	case "H":
		old, wantOK := r.m.grow(d)
		// the handle of the chosen instance
		var mem api.Memory
		for i, m := range r.mems {
			if r.memInst[i] == s.Inst {
				mem = m
				if r.rng.Bool() {
					break
				}
			}
		}
		got, ok := mem.Grow(d)
		r.obs("H[%d](%d)=%v", s.Inst, d, ok)
		if ok {
			r.obs("H prev=%d", got)
		}
		r.growVerdict("host", d, old, wantOK, got, ok)
		desc = fmt.Sprintf("H%d(%s=%d)=%d,%v", s.Inst, s.D, d, got, ok)
	case "S", "C":
		desc = r.stepInFunction(s, d)
	case "L":
		desc = r.stepLoop(s)
	}
	r.logf("step %d: %s   model %d -> %d pages", r.step, desc, before, r.m.size)
	if r.cs.Class != "heavy" {
		// safety net: no history of the normal class may make this process big
		if rss := readStatusKB("VmRSS"); rss > 2<<20 {
			r.fail(true, "resource:rss-above-2GiB-in-small-history", "after %s the process RSS is %d KiB although the model memory is %d pages (config %s)", desc, rss, r.m.size, r.cs.Cfg)
			r.m.bound = 0 // no resync: stop
			r.res.Counters["harness_rss_safety_net"]++
		}
	}
	r.resync()
	if r.stop {
		return desc + " STOP"
	}
	after := r.m.size
	r.checkSizes("after " + desc)
	r.checkMarkers(markers, "after "+desc)
	if after > before {
		r.checkZeroPages(before, after, "after "+desc)
	}
	r.hostProbes()
	r.guestProbes()
	return desc
}

// stepInFunction: S = memory.size; memory.grow; memory.size; load   C = the same, grow done by a host function.
func (r *runner) stepInFunction(s Step, d uint32) string {
	agent := map[string]string{"S": "guest-in-function", "C": "host-callback"}[s.Op]
	fn := map[string]string{"S": "seq", "C": "cb"}[s.Op]
	s0 := r.m.size
	var a0 uint64
	pre := s0 > 0 && r.rng.Bool()
	if pre {
		a0 = []uint64{0, uint64(s0)<<16 - 1}[r.rng.Intn(2)]
	}
	var b0want byte
	if pre {
		b0want = r.m.read(a0, 1)[0]
	}
	old, wantOK := r.m.grow(d)
	s1 := r.m.size
	end := uint64(s1) << 16
	// address of the final load: in bounds (new page when grown) or the first byte out of bounds
	var a uint64
	trapWant := false
	switch {
	case s1 == 0:
		a, trapWant = 0, true
	case s1 < specMaxPages && r.rng.Chance(1, 3):
		a, trapWant = end, true
	case s1 > s0 && r.rng.Bool():
		a = uint64(s0) << 16 // first byte of the first new page
	default:
		a = end - 1
	}
	var out []uint64
	var err error
	r.hostLog = r.hostLog[:0]
	if pre {
		out, err = r.call(s.Inst, fn+"p", uint64(d), a0, a)
	} else {
		out, err = r.call(s.Inst, fn, uint64(d), a)
	}
	desc := fmt.Sprintf("%s%d(%s=%d,pre=%v@%d,a=%d)", s.Op, s.Inst, s.D, d, pre, a0, a)
	if err != nil {
		r.obs("%s trap=%v", s.Op, isOOBTrap(err))
		desc += "=trap"
		r.count("infunc_trap", 1)
		if !trapWant || !isOOBTrap(err) {
			sig := "guest-access:" + r.bucket() + ":traps-in-bounds"
			if !isOOBTrap(err) {
				sig = "guest-access:" + r.bucket() + ":error:" + errClass(err)
			}
			r.fail(true, sig, "%s: %v; model: size %d -> %d pages, loads at %d(pre=%v) and %d are in bounds (config %s)", desc, firstLine(err), s0, s1, a0, pre, a, r.cs.Cfg)
		}
		// the grow (if any) happened before the trap: sizes are checked by the caller
		r.growVerdictCount(agent, wantOK)
		return desc
	}
	if pre {
		r.obs("b0=%d", out[0])
		if byte(out[0]) != b0want || out[0] > 255 {
			r.fail(false, "guest-access:"+r.bucket()+":wrong-data", "%s: pre-load at %d = %d, model %d", desc, a0, out[0], b0want)
		}
		out = out[1:]
	}
	gs0, gr, gs1, b := uint32(out[0]), uint32(out[1]), uint32(out[2]), out[3]
	r.obs("%s s0=%d r=%d s1=%d b=%d", s.Op, gs0, int32(gr), gs1, b)
	desc += fmt.Sprintf("=[%d %d %d %d]", gs0, int32(gr), gs1, b)
	sizeChk := func(got, want uint32, which string) {
		if got != want {
			how := "wrong"
			if got == 0 {
				how = "reads-0"
			}
			bk := "below-65536"
			if want == specMaxPages {
				bk = "65536-pages"
			}
			r.fail(false, "memory.size:"+bk+":"+how, "%s: memory.size %s the grow in the same function = %d, model %d pages (config %s)", desc, which, got, want, r.cs.Cfg)
		}
	}
	sizeChk(gs0, s0, "before")
	r.growVerdict(agent, d, old, wantOK, gr, gr != 0xffffffff)
	sizeChk(gs1, s1, "after")
	if trapWant {
		r.fail(false, "guest-access:"+r.bucket()+":no-trap-out-of-bounds", "%s: load at %d returned %d; model size %d pages", desc, a, b, s1)
	} else if want := r.m.read(a, 1)[0]; byte(b) != want || b > 255 {
		r.fail(false, "guest-access:"+r.bucket()+":wrong-data", "%s: load at %d after the grow = %d, model %d", desc, a, b, want)
	}
	if s.Op == "C" && len(r.hostLog) != 1 {
		r.fail(false, "host-callback:not-called-once", "%s: host function calls %v", desc, r.hostLog)
	}
	return desc
}

func (r *runner) growVerdictCount(agent string, wantOK bool) {
	r.count("grow_"+agent+map[bool]string{true: "_ok", false: "_fail"}[wantOK], 1)
}

// stepLoop: growloop(k).
func (r *runner) stepLoop(s Step) string {
	k := r.resolveDelta(s.D)
	s0 := r.m.size
	for i := uint32(0); i < k; i++ {
		if _, ok := r.m.grow(1); !ok {
			break
		}
		r.m.write(r.m.bytes()-1, []byte{0xAB})
	}
	out, err := r.call(s.Inst, "growloop", uint64(k))
	desc := fmt.Sprintf("L%d(%d)", s.Inst, k)
	if err != nil {
		r.obs("L trap=%v", isOOBTrap(err))
		sig := "guest-access:" + r.bucket() + ":traps-in-bounds"
		if !isOOBTrap(err) {
			sig = "guest-access:" + r.bucket() + ":error:" + errClass(err)
		}
		r.fail(true, sig, "%s from %d pages: %v; model: ends at %d pages, every store hits the last byte of memory (config %s)", desc, s0, firstLine(err), r.m.size, r.cs.Cfg)
		// contents are uncertain now: stop (resync only repairs sizes); make resync fail by design
		r.m.bound = 0
		return desc + "=trap"
	}
	got := uint32(out[0])
	r.obs("L=%d", got)
	desc += fmt.Sprintf("=%d", got)
	r.growVerdictCount("guest-loop", r.m.size > s0)
	if got != r.m.size {
		how := "wrong"
		if got == 0 {
			how = "reads-0"
		}
		r.fail(false, "memory.size:"+r.bucket()+":"+how, "%s from %d pages returned memory.size %d, model %d (config %s)", desc, s0, got, r.m.size, r.cs.Cfg)
	}
	return desc
}

// ---------------------------------------------------------------------------
// probes

type edge struct {
	at    uint64
	label string
}

// edges: the byte addresses around which accesses are probed.
func (r *runner) edges() []edge {
	sz, bd := r.m.bytes(), uint64(r.m.bound)<<16
	var es []edge
	add := func(at uint64, label string) {
		if at > 1<<32 {
			return
		}
		for _, e := range es {
			if e.at == at {
				return
			}
		}
		es = append(es, edge{at, label})
	}
	add(1<<32, "2^32")
	add(sz, "size")
	add(0, "zero")
	add(bd, "bound")
	add(1<<31, "2^31")
	if r.m.size >= 1 {
		add(sz-65536, "size-1page")
	}
	add(sz+65536, "size+1page")
	if r.m.size <= 8 {
		for p := uint32(1); p <= r.m.size+1; p++ {
			add(uint64(p)<<16, "page")
		}
	} else {
		add(65536, "page")
		add(2*65536, "page")
		add(uint64(r.rng.Intn(specMaxPages+1))<<16, "page")
		if r.m.size > 2 {
			add(uint64(1+r.rng.Intn(int(r.m.size-1)))<<16, "page")
		}
	}
	return es
}

type fixedAcc struct {
	name string
	w    int
}

var readAccs = []fixedAcc{{"ReadByte", 1}, {"ReadUint16Le", 2}, {"ReadUint32Le", 4}, {"ReadFloat32Le", 4}, {"ReadUint64Le", 8}, {"ReadFloat64Le", 8}}
var writeAccs = []fixedAcc{{"WriteByte", 1}, {"WriteUint16Le", 2}, {"WriteUint32Le", 4}, {"WriteFloat32Le", 4}, {"WriteUint64Le", 8}, {"WriteFloat64Le", 8}}

// safeRead / safeWrite run one accessor and turn a Go panic into a value.
func safeRead(mem api.Memory, name string, off, n uint32) (got []byte, ok bool, pv any) {
	defer func() {
		if p := recover(); p != nil {
			pv = p
		}
	}()
	if name == "Read" {
		got, ok = mem.Read(off, n)
		return
	}
	got, ok = doRead(mem, name, off)
	return
}

func safeWrite(mem api.Memory, name string, off uint32, v []byte) (ok bool, pv any) {
	defer func() {
		if p := recover(); p != nil {
			pv = p
		}
	}()
	ok = doWrite(mem, name, off, v)
	return
}

func doRead(mem api.Memory, name string, off uint32) ([]byte, bool) {
	var b [8]byte
	switch name {
	case "ReadByte":
		v, ok := mem.ReadByte(off)
		return []byte{v}, ok
	case "ReadUint16Le":
		v, ok := mem.ReadUint16Le(off)
		binary.LittleEndian.PutUint16(b[:], v)
		return b[:2], ok
	case "ReadUint32Le":
		v, ok := mem.ReadUint32Le(off)
		binary.LittleEndian.PutUint32(b[:], v)
		return b[:4], ok
	case "ReadFloat32Le":
		v, ok := mem.ReadFloat32Le(off)
		binary.LittleEndian.PutUint32(b[:], math.Float32bits(v))
		return b[:4], ok
	case "ReadUint64Le":
		v, ok := mem.ReadUint64Le(off)
		binary.LittleEndian.PutUint64(b[:], v)
		return b[:8], ok
	case "ReadFloat64Le":
		v, ok := mem.ReadFloat64Le(off)
		binary.LittleEndian.PutUint64(b[:], math.Float64bits(v))
		return b[:8], ok
	}
	panic(name)
}

func doWrite(mem api.Memory, name string, off uint32, v []byte) bool {
	switch name {
	case "WriteByte":
		return mem.WriteByte(off, v[0])
	case "WriteUint16Le":
		return mem.WriteUint16Le(off, binary.LittleEndian.Uint16(v))
	case "WriteUint32Le":
		return mem.WriteUint32Le(off, binary.LittleEndian.Uint32(v))
	case "WriteFloat32Le":
		return mem.WriteFloat32Le(off, math.Float32frombits(binary.LittleEndian.Uint32(v)))
	case "WriteUint64Le":
		return mem.WriteUint64Le(off, binary.LittleEndian.Uint64(v))
	case "WriteFloat64Le":
		return mem.WriteFloat64Le(off, math.Float64frombits(binary.LittleEndian.Uint64(v)))
	case "Write":
		return mem.Write(off, v)
	case "WriteString":
		return mem.WriteString(off, string(v))
	}
	panic(name)
}

// randBytes avoids signalling-NaN patterns for the float accessors' sake only in
// so far as nothing needs avoiding: the API moves bits, and bits are compared.
func (r *runner) randBytes(n int) []byte {
	if cap(r.scratch) < n+8 {
		r.scratch = make([]byte, n+8, 65537+16)
	}
	b := r.scratch[:n+8]
	for i := 0; i < n; i += 8 {
		binary.LittleEndian.PutUint64(b[i:], r.rng.U64())
	}
	return b[:n]
}

func (r *runner) panicked(state bool, name string, off, n uint64, want bool, pv any) {
	r.obs("%s(%d,%d) panic", name, off, n)
	where := map[bool]string{true: "in-bounds", false: "out-of-bounds"}[want]
	r.fail(state, "host:panics-"+where+":"+r.bucket()+":"+name, "%s(offset=%d,len=%d) panicked: %v; size %d pages (%d bytes), the access is %s", name, off, n, pv, r.m.size, r.m.bytes(), where)
}

func (r *runner) readVerdict(name, label string, off uint64, n uint64, got []byte, ok bool, pv any) {
	want := r.m.inb(off, n)
	r.count("probe_"+label+map[bool]string{true: "_inb", false: "_oob"}[want], 1)
	r.count("acc_"+name, 1)
	switch {
	case pv != nil:
		r.panicked(false, name, off, n, want, pv)
	case ok && !want:
		r.obs("%s(%d,%d) ok", name, off, n)
		r.fail(false, "host:succeeds-out-of-bounds:"+r.bucket()+":"+name, "%s(offset=%d,len=%d) succeeded with size %d pages (%d bytes)", name, off, n, r.m.size, r.m.bytes())
	case !ok && want:
		r.obs("%s(%d,%d) fail", name, off, n)
		r.fail(false, "host:fails-in-bounds:"+r.bucket()+":"+name, "%s(offset=%d,len=%d) failed with size %d pages (%d bytes)", name, off, n, r.m.size, r.m.bytes())
	case ok:
		if uint64(len(got)) != n {
			r.obs("%s(%d,%d) len %d", name, off, n, len(got))
			r.fail(false, "host:wrong-length:"+r.bucket()+":"+name, "%s(offset=%d,len=%d) returned %d bytes", name, off, n, len(got))
		} else if n <= 1<<17 {
			if d := r.m.diff(off, got); d >= 0 {
				r.obs("%s(%d,%d) data differs at %d", name, off, n, d)
				r.fail(false, "host:wrong-data:"+r.bucket()+":"+name, "%s(offset=%d,len=%d) byte %d = %#x, model %#x (size %d pages)", name, off, n, d, got[d], r.m.read(off+uint64(d), 1)[0], r.m.size)
			}
		}
	}
}

func (r *runner) writeVerdict(name, label string, off uint64, v []byte, ok bool, pv any) {
	n := uint64(len(v))
	want := r.m.inb(off, n)
	r.count("probe_"+label+map[bool]string{true: "_inb", false: "_oob"}[want], 1)
	r.count("acc_"+name, 1)
	if want {
		r.m.write(off, v)
	}
	switch {
	case pv != nil:
		r.panicked(true, name, off, n, want, pv)
	case ok && !want:
		r.obs("%s(%d,%d) ok", name, off, n)
		r.fail(true, "host:succeeds-out-of-bounds:"+r.bucket()+":"+name, "%s(offset=%d,len=%d) succeeded with size %d pages (%d bytes)", name, off, n, r.m.size, r.m.bytes())
	case !ok && want:
		r.obs("%s(%d,%d) fail", name, off, n)
		r.fail(true, "host:fails-in-bounds:"+r.bucket()+":"+name, "%s(offset=%d,len=%d) failed with size %d pages (%d bytes)", name, off, n, r.m.size, r.m.bytes())
	}
}

func (r *runner) hostProbes() {
	mem, _ := r.handle()
	es := r.edges()
	for _, e := range es {
		// fixed-width accessors at every offset from e-w-1 to e+1
		for _, a := range readAccs {
			for off := int64(e.at) - int64(a.w) - 1; off <= int64(e.at)+1; off++ {
				if off < 0 || off > math.MaxUint32 {
					continue
				}
				got, ok, pv := safeRead(mem, a.name, uint32(off), 0)
				r.readVerdict(a.name, e.label, uint64(off), uint64(a.w), got, ok, pv)
			}
		}
		for _, a := range writeAccs {
			for off := int64(e.at) - int64(a.w) - 1; off <= int64(e.at)+1; off++ {
				if off < 0 || off > math.MaxUint32 {
					continue
				}
				v := r.randBytes(a.w)
				ok, pv := safeWrite(mem, a.name, uint32(off), v)
				r.writeVerdict(a.name, e.label, uint64(off), v, ok, pv)
			}
		}
		// Read / Write / WriteString with lengths
		for _, l := range []int64{0, 1, 3, 9} {
			for _, off := range []int64{int64(e.at) - l - 1, int64(e.at) - l, int64(e.at) - l + 1, int64(e.at)} {
				if off < 0 || off > math.MaxUint32 {
					continue
				}
				got, ok, pv := safeRead(mem, "Read", uint32(off), uint32(l))
				r.readVerdict("Read", e.label, uint64(off), uint64(l), got, ok, pv)
				v := r.randBytes(int(l))
				name := "Write"
				if (off+l)&1 == 1 {
					name = "WriteString"
				}
				ok, pv = safeWrite(mem, name, uint32(off), v)
				r.writeVerdict(name, e.label, uint64(off), v, ok, pv)
			}
		}
		// page-sized and page+1 accesses ending at / crossing the edge
		for _, c := range [][2]int64{{int64(e.at) - 65536, 65536}, {int64(e.at) - 65536, 65537}, {int64(e.at) - 65537, 65537}} {
			if c[0] < 0 || c[0] > math.MaxUint32 {
				continue
			}
			got, ok, pv := safeRead(mem, "Read", uint32(c[0]), uint32(c[1]))
			r.readVerdict("Read", e.label, uint64(c[0]), uint64(c[1]), got, ok, pv)
			if e.at == r.m.bytes() || e.label == "bound" {
				v := r.randBytes(int(c[1]))
				name := []string{"Write", "WriteString"}[c[1]&1]
				ok, pv = safeWrite(mem, name, uint32(c[0]), v)
				r.writeVerdict(name, e.label, uint64(c[0]), v, ok, pv)
			}
		}
	}
	// extreme lengths (only the length of a huge successful view is inspected)
	sz := r.m.bytes()
	type ol struct{ off, n uint64 }
	ext := []ol{{0, math.MaxUint32}, {1, math.MaxUint32}, {2, math.MaxUint32}, {math.MaxUint32, 1}, {math.MaxUint32, 2},
		{math.MaxUint32, math.MaxUint32}, {1 << 31, 1 << 31}, {1 << 31, 1<<31 + 1}, {65536, math.MaxUint32 - 65535}}
	if sz <= math.MaxUint32 {
		ext = append(ext, ol{0, sz})
		if sz < math.MaxUint32 {
			ext = append(ext, ol{0, sz + 1})
		}
		if sz > 0 {
			ext = append(ext, ol{1, sz - 1}, ol{1, sz})
		}
	}
	for _, x := range ext {
		got, ok, pv := safeRead(mem, "Read", uint32(x.off), uint32(x.n))
		r.readVerdict("Read", "extreme", x.off, x.n, got, ok, pv)
		if ok && x.n > 1<<17 && uint64(len(got)) == x.n && r.m.inb(x.off, x.n) {
			// look at both ends of the view only
			if d := r.m.diff(x.off, got[:8]); d >= 0 {
				r.fail(false, "host:wrong-data:"+r.bucket()+":Read", "Read(%d,%d) head differs from model", x.off, x.n)
			}
			if d := r.m.diff(x.off+x.n-8, got[x.n-8:]); d >= 0 {
				r.fail(false, "host:wrong-data:"+r.bucket()+":Read", "Read(%d,%d) tail differs from model", x.off, x.n)
			}
		}
	}
	// a view returned by Read is the memory: a write through the API is visible in it
	if sz >= 16 {
		view, ok, pv := safeRead(mem, "Read", uint32(sz-16), 16)
		if pv != nil {
			r.panicked(false, "Read", sz-16, 16, true, pv)
		} else if ok && len(view) == 16 {
			v := r.randBytes(1)
			if mem.WriteByte(uint32(sz-16+5), v[0]) {
				r.m.write(sz-16+5, v)
				r.count("view_checks", 1)
				if view[5] != v[0] {
					r.fail(false, "host:view-not-write-through:"+r.bucket()+":Read", "WriteByte(%d,%#x) not visible through the view returned by Read(%d,16)", sz-16+5, v[0], sz-16)
				}
			}
		}
	}
	r.windows(mem, es, "host probes")
}

// windows re-reads the neighbourhood of every edge and compares with the model:
// this is what detects a write that changed other bytes than [offset, offset+len).
func (r *runner) windows(mem api.Memory, es []edge, after string) {
	sz := r.m.bytes()
	for _, e := range es {
		lo := uint64(0)
		if e.at > 40 {
			lo = e.at - 40
		}
		hi := e.at + 16
		if hi > sz {
			hi = sz
		}
		if lo >= hi {
			continue
		}
		got, ok, pv := safeRead(mem, "Read", uint32(lo), uint32(hi-lo))
		r.count("windows_checked", 1)
		if pv != nil {
			r.panicked(false, "Read", lo, hi-lo, true, pv)
			// fall back to bytewise reads so that the contents are still checked
			got = got[:0]
			for o := lo; o < hi; o++ {
				b, bok := mem.ReadByte(uint32(o))
				if !bok {
					break
				}
				got = append(got, b)
			}
			ok = uint64(len(got)) == hi-lo
		}
		if !ok {
			r.obs("window %d unreadable", lo)
			r.fail(false, "host:fails-in-bounds:"+r.bucket()+":Read", "window Read(%d,%d) failed with size %d pages", lo, hi-lo, r.m.size)
			continue
		}
		if d := r.m.diff(lo, got); d >= 0 {
			r.obs("window %d differs at %d", lo, d)
			r.fail(true, "contents:differ-after-"+strings.ReplaceAll(after, " ", "-"), "byte %d = %#x, model %#x (window around %s=%d, size %d pages)", lo+uint64(d), got[d], r.m.read(lo+uint64(d), 1)[0], e.label, e.at, r.m.size)
		}
	}
}

// guestProbes: loads and stores of the guest at the end of memory.
func (r *runner) guestProbes() {
	inst := (r.step + 1) % len(r.mods)
	sz := r.m.bytes()
	type gp struct {
		fn   string
		addr uint64
		w    uint64
	}
	var ps []gp
	addp := func(fn string, addr int64, w uint64) {
		if addr < 0 || addr > math.MaxUint32 {
			return
		}
		ps = append(ps, gp{fn, uint64(addr), w})
	}
	for _, fw := range []struct {
		l, s string
		w    uint64
	}{{"load8", "store8", 1}, {"load64", "store64", 8}} {
		addp(fw.l, 0, fw.w)
		addp(fw.l, int64(sz)-int64(fw.w), fw.w)
		addp(fw.l, int64(sz)-int64(fw.w)+1, fw.w)
		addp(fw.l, int64(sz), fw.w)
		addp(fw.l, math.MaxUint32, fw.w)
		addp(fw.l, math.MaxUint32-7, fw.w)
		addp(fw.s, int64(sz)-int64(fw.w), fw.w)
		addp(fw.s, int64(sz)-int64(fw.w)+1, fw.w)
		addp(fw.s, int64(sz), fw.w)
		addp(fw.s, math.MaxUint32-7, fw.w)
		if r.m.size > 1 {
			addp(fw.l, int64(sz)-65536-4, fw.w)
			addp(fw.s, int64(sz)-65536-4, fw.w)
		}
	}
	for _, p := range ps {
		want := r.m.inb(p.addr, p.w)
		r.count("guest_"+p.fn+map[bool]string{true: "_inb", false: "_oob"}[want], 1)
		var out []uint64
		var err error
		var val []byte
		isStore := strings.HasPrefix(p.fn, "store")
		if isStore {
			val = r.randBytes(8)
			arg := binary.LittleEndian.Uint64(val)
			if p.w == 1 {
				arg &= 0xff
			}
			val = val[:p.w]
			out, err = r.call(inst, p.fn, p.addr, arg)
		} else {
			out, err = r.call(inst, p.fn, p.addr)
		}
		switch {
		case err != nil && !isOOBTrap(err):
			r.obs("%s(%d) err", p.fn, p.addr)
			r.fail(isStore, "guest-access:"+r.bucket()+":error:"+errClass(err), "instance %d %s(%d): %v; the access is %s, model size %d pages (config %s)", inst, p.fn, p.addr, firstLine(err), map[bool]string{true: "in bounds", false: "out of bounds"}[want], r.m.size, r.cs.Cfg)
		case err != nil && want:
			r.obs("%s(%d) trap", p.fn, p.addr)
			// a trapped store wrote nothing: the model is not updated
			r.fail(false, "guest-access:"+r.bucket()+":traps-in-bounds", "instance %d %s(%d) trapped: %v; model size %d pages = %d bytes (config %s)", inst, p.fn, p.addr, firstLine(err), r.m.size, sz, r.cs.Cfg)
		case err == nil && !want:
			r.obs("%s(%d) no trap", p.fn, p.addr)
			r.fail(isStore, "guest-access:"+r.bucket()+":no-trap-out-of-bounds", "instance %d %s(%d) did not trap; model size %d pages = %d bytes (config %s)", inst, p.fn, p.addr, r.m.size, sz, r.cs.Cfg)
		case err == nil && isStore:
			r.m.write(p.addr, val)
		case err == nil:
			var b [8]byte
			binary.LittleEndian.PutUint64(b[:], out[0])
			if d := r.m.diff(p.addr, b[:p.w]); d >= 0 || (p.w == 1 && out[0] > 255) {
				r.obs("%s(%d) data", p.fn, p.addr)
				r.fail(false, "guest-access:"+r.bucket()+":wrong-data", "instance %d %s(%d) = %#x, model %x (size %d pages)", inst, p.fn, p.addr, out[0], r.m.read(p.addr, int(p.w)), r.m.size)
			}
		}
	}
	// what the guest stored must be what the host reads (and nothing else changed)
	mem, _ := r.handle()
	r.windows(mem, []edge{{sz, "size"}, {0, "zero"}, {sz - 65536, "size-1page"}, {1 << 32, "2^32"}}, "guest probes")
}

func firstLine(err error) string {
	s := err.Error()
	if i := strings.IndexByte(s, '\n'); i > 0 {
		s = s[:i]
	}
	return s
}

func child(mode string, in json.RawMessage) any {
	var cs Case
	if err := json.Unmarshal(in, &cs); err != nil {
		return &Result{Findings: []Finding{{Sig: "harness:bad-case", Detail: err.Error()}}}
	}
	if cs.Conc != nil {
		return runConc(cs)
	}
	if cs.Multi != nil {
		return runMulti(cs, false)
	}
	return runCase(cs, false)
}

var _ = bytes.Equal
