package c14

// Concurrent phase for SHARED memories: G goroutines, each with its own
// importing instance of one shared memory (own api.Function handles, own
// api.Memory handle), perform K operations each - host Memory.Grow(d), guest
// memory.grow(d), and size reads in between - with PRNG deltas (mostly 1, some
// 0/2/3, some exceeding max). The recorded history must be explainable by SOME
// sequential order of a counter bounded by max. Only facts that hold in every
// linearization are demanded:
//
//   - successful grows with delta>0: the intervals [prev, prev+delta) are pairwise
//     disjoint and tile [initial, final) exactly, so final = initial + sum of deltas;
//   - final = guest memory.size = host Grow(0) = Size()/65536 after all goroutines joined;
//   - the sizes one goroutine observes (grow(0), memory.size, prev and prev+delta of its
//     own successful grows) never decrease, and never exceed final or max;
//   - a failed grow by d: the size at its linearization point is at most the next size
//     this goroutine observes (or final), so that size + d must exceed max.

import (
	"context"
	"fmt"
	"sort"
	"sync"

	"github.com/tetratelabs/wazero"
	"github.com/tetratelabs/wazero/api"
	"github.com/tetratelabs/wazero/experimental"
	"github.com/tetratelabs/wazero/verifharness/core"
	"github.com/tetratelabs/wazero/verifharness/wenc"
)

type ConcCase struct {
	Min   uint32 `json:"min"`
	Max   uint32 `json:"max"`
	G     int    `json:"goroutines"`
	K     int    `json:"ops_per_goroutine"`
	Alloc string `json:"alloc"` // default | guard
}

func (c *ConcCase) key() string {
	return fmt.Sprintf("shared min=%d max=%d goroutines=%d ops=%d %s", c.Min, c.Max, c.G, c.K, c.Alloc)
}

type concOp struct {
	kind string // hostgrow guestgrow hostsize guestsize
	d    uint32
}

type concEv struct {
	G, I  int
	Kind  string
	D     uint32
	Prev  uint32 // grow: previous size; size ops: the size read
	OK    bool
	Error string `json:",omitempty"`
}

func genConc(rng *core.Rng) *ConcCase {
	return &ConcCase{Min: uint32(rng.Intn(3)), Max: []uint32{48, 120, 260, 600}[rng.Intn(4)], G: 4 + rng.Intn(5), K: 40,
		Alloc: []string{"guard", "guard", "default"}[rng.Intn(3)]}
}

func runConc(cs Case) *Result {
	cc := cs.Conc
	res := &Result{Counters: map[string]int{}, Digest: "concurrent"}
	r := &runner{cs: cs, eng: cs.Engine, ctx: context.Background(), res: res, rng: core.NewRng(int64(cs.Seed), 16)}
	ctx := r.ctx
	var rc wazero.RuntimeConfig
	if cs.Engine == "compiler" {
		rc = wazero.NewRuntimeConfigCompiler()
	} else {
		rc = wazero.NewRuntimeConfigInterpreter()
	}
	rt := wazero.NewRuntimeWithConfig(ctx, rc.WithCoreFeatures(api.CoreFeaturesV2|experimental.CoreFeaturesThreads))
	defer rt.Close(ctx)
	if _, err := rt.NewHostModuleBuilder("env").NewFunctionBuilder().WithFunc(func(uint32) uint32 { return 0 }).Export("hgrow").Instantiate(ctx); err != nil {
		panic(err)
	}
	st := &allocStats{}
	ictx := ctx
	if cc.Alloc == "guard" {
		ictx = experimental.WithMemoryAllocator(ctx, guardAlloc{st})
		reallocYields = 3
		defer func() { reallocYields = 0 }()
	}
	lim := wenc.Limits{Min: cc.Min, Max: cc.Max, HasMax: true, Shared: true}
	exp, err := rt.InstantiateWithConfig(ictx, buildGuest(lim, false), wazero.NewModuleConfig().WithName("exp"))
	if err != nil {
		r.fail(false, "shared-concurrent:setup-rejected", "%s: %v", cc.key(), firstLine(err))
		return res
	}
	impCM, err := rt.CompileModule(ctx, buildGuest(lim, true))
	if err != nil {
		r.fail(false, "shared-concurrent:setup-rejected", "%s: %v", cc.key(), firstLine(err))
		return res
	}
	type worker struct {
		grow, size api.Function
		mem        api.Memory
		plan       []concOp
		evs        []concEv
	}
	ws := make([]*worker, cc.G)
	for g := range ws {
		mod, err := rt.InstantiateModule(ctx, impCM, wazero.NewModuleConfig().WithName(""))
		if err != nil {
			r.fail(false, "shared-concurrent:setup-rejected", "%s: importer %d: %v", cc.key(), g, firstLine(err))
			return res
		}
		w := &worker{grow: mod.ExportedFunction("grow"), size: mod.ExportedFunction("size"), mem: mod.Memory()}
		for k := 0; k < cc.K; k++ {
			var o concOp
			switch x := r.rng.Intn(20); {
			case x < 7:
				o.kind = "hostgrow"
			case x < 14:
				o.kind = "guestgrow"
			case x < 17:
				o.kind = "hostsize"
			default:
				o.kind = "guestsize"
			}
			if o.kind == "hostgrow" || o.kind == "guestgrow" {
				switch x := r.rng.Intn(20); {
				case x < 12:
					o.d = 1
				case x < 14:
					o.d = 0
				case x < 16:
					o.d = 2
				case x < 18:
					o.d = 3
				case x < 19:
					o.d = cc.Max + 1
				default:
					o.d = 65536
				}
			}
			w.plan = append(w.plan, o)
		}
		ws[g] = w
	}
	// run
	var wg sync.WaitGroup
	start := make(chan struct{})
	for g, w := range ws {
		wg.Add(1)
		go func(g int, w *worker) {
			defer wg.Done()
			<-start
			for i, o := range w.plan {
				ev := concEv{G: g, I: i, Kind: o.kind, D: o.d}
				switch o.kind {
				case "hostgrow":
					ev.Prev, ev.OK = w.mem.Grow(o.d)
				case "guestgrow":
					out, err := w.grow.Call(ctx, uint64(o.d))
					if err != nil {
						ev.Error = firstLine(err)
					} else if uint32(out[0]) != 0xffffffff {
						ev.Prev, ev.OK = uint32(out[0]), true
					}
				case "hostsize":
					ev.Prev, ev.OK = w.mem.Grow(0)
				case "guestsize":
					out, err := w.size.Call(ctx)
					if err != nil {
						ev.Error = firstLine(err)
					} else {
						ev.Prev, ev.OK = uint32(out[0]), true
					}
				}
				w.evs = append(w.evs, ev)
			}
		}(g, w)
	}
	close(start)
	wg.Wait()

	// final state, seen from the exporting instance
	em := exp.Memory()
	final, fok := em.Grow(0)
	gs, gerr := exp.ExportedFunction("size").Call(ctx)
	witness := func() string {
		var all []concEv
		for _, w := range ws {
			for _, e := range w.evs {
				if (e.Kind == "hostgrow" || e.Kind == "guestgrow") && e.D > 0 {
					all = append(all, e)
				}
			}
		}
		sort.Slice(all, func(i, j int) bool { return all[i].Prev < all[j].Prev })
		if len(all) > 60 {
			all = all[:60]
		}
		return fmt.Sprintf("%+v", all)
	}
	r.count("conc_histories", 1)
	r.count("conc_goroutines", cc.G)
	if !fok {
		r.fail(false, "shared-concurrent:final-Grow(0)-failed", "%s", cc.key())
		return res
	}
	if gerr != nil || uint32(gs[0]) != final || em.Size() != uint32(uint64(final)<<16) {
		r.fail(false, "shared-concurrent:final-sizes-disagree", "%s: host Grow(0)=%d guest memory.size=%v (%v) Size()=%d", cc.key(), final, gs, gerr, em.Size())
	}
	type iv struct {
		lo, hi uint64
		e      concEv
	}
	var ivs []iv
	sum := uint64(0)
	for _, w := range ws {
		last := uint64(0)
		seen := false
		obs := func(v uint64, e concEv) {
			r.count("conc_size_observations", 1)
			if seen && v < last {
				r.fail(false, "shared-concurrent:observed-size-decreases-within-goroutine", "%s: goroutine %d op %d (%s d=%d) observed %d pages after having observed %d", cc.key(), e.G, e.I, e.Kind, e.D, v, last)
			}
			if v > uint64(final) || v > uint64(cc.Max) {
				r.fail(false, "shared-concurrent:observed-size-beyond-final-or-max", "%s: goroutine %d op %d (%s d=%d) observed %d pages; final %d, max %d", cc.key(), e.G, e.I, e.Kind, e.D, v, final, cc.Max)
			}
			last, seen = v, true
		}
		for i, e := range w.evs {
			r.count("conc_op_"+e.Kind, 1)
			if e.Error != "" {
				r.fail(false, "shared-concurrent:error:"+e.Kind, "%s: goroutine %d op %d: %s", cc.key(), e.G, e.I, e.Error)
				continue
			}
			grow := e.Kind == "hostgrow" || e.Kind == "guestgrow"
			switch {
			case !grow || e.D == 0:
				if !e.OK {
					r.fail(false, "shared-concurrent:size-query-failed", "%s: goroutine %d op %d %s", cc.key(), e.G, e.I, e.Kind)
					continue
				}
				obs(uint64(e.Prev), e)
			case e.OK:
				r.count("conc_grow_ok", 1)
				obs(uint64(e.Prev), e)
				obs(uint64(e.Prev)+uint64(e.D), e)
				ivs = append(ivs, iv{uint64(e.Prev), uint64(e.Prev) + uint64(e.D), e})
				sum += uint64(e.D)
			default:
				r.count("conc_grow_fail", 1)
				// the size when it failed is at most the next size this goroutine observes (or final)
				upper := uint64(final)
				for _, n := range w.evs[i+1:] {
					if n.Error == "" && n.OK {
						upper = uint64(n.Prev)
						break
					}
				}
				if upper+uint64(e.D) <= uint64(cc.Max) {
					r.fail(false, "shared-concurrent:grow-failed-within-max", "%s: goroutine %d op %d %s(%d) failed although the size was at most %d then and max is %d", cc.key(), e.G, e.I, e.Kind, e.D, upper, cc.Max)
				}
			}
		}
	}
	sort.Slice(ivs, func(i, j int) bool { return ivs[i].lo < ivs[j].lo })
	at := uint64(cc.Min)
	for _, v := range ivs {
		if v.lo < at {
			r.fail(false, "shared-concurrent:grows-not-linearizable:overlapping-intervals", "%s: %s(%d) by goroutine %d returned previous size %d, but another successful grow already covers pages up to %d (two grows returned the same or overlapping ranges); initial %d, final %d, sum of successful deltas %d; grows sorted by previous size: %s",
				cc.key(), v.e.Kind, v.e.D, v.e.G, v.lo, at, cc.Min, final, sum, witness())
			break
		}
		if v.lo > at {
			r.fail(false, "shared-concurrent:grows-not-linearizable:gap-between-intervals", "%s: no successful grow starts at %d pages (next starts at %d); initial %d, final %d; %s", cc.key(), at, v.lo, cc.Min, final, witness())
			break
		}
		at = v.hi
	}
	if uint64(cc.Min)+sum != uint64(final) {
		r.fail(false, "shared-concurrent:final-size-differs-from-sum-of-successful-grows", "%s: initial %d + successful deltas %d = %d, final size %d pages (%d successful grows); %s", cc.key(), cc.Min, sum, uint64(cc.Min)+sum, final, len(ivs), witness())
	}
	if final > cc.Max {
		r.fail(false, "shared-concurrent:final-size-beyond-max", "%s: final %d", cc.key(), final)
	}
	if uint64(final) == uint64(cc.Max) {
		r.count("conc_reached_max", 1)
	}
	if st.Shrinks > 0 {
		r.fail(false, "shared-concurrent:allocator-asked-to-shrink", "%s: Reallocate was called %d times with a smaller size than already established", cc.key(), st.Shrinks)
	}
	res.Summary = fmt.Sprintf("%s seed=%d", cc.key(), cs.Seed) // schedule-independent (the final size is in FinalPages)
	res.FinalPages = final
	res.HWMKB = readStatusKB("VmHWM")
	return res
}
