package c07

import (
	"context"
	"encoding/hex"
	"encoding/json"
	"errors"
	"fmt"
	"runtime"
	"runtime/debug"
	"strings"
	"sync/atomic"
	"syscall"
	"time"

	"github.com/tetratelabs/wazero"
	"github.com/tetratelabs/wazero/api"
	"github.com/tetratelabs/wazero/experimental"
	"github.com/tetratelabs/wazero/sys"
)

// tcase is one point of the enumeration.
type tcase struct {
	caseSpec
	Engine string `json:"engine"` // interpreter | compiler
	Cause  string `json:"cause"`  // cancel | deadline | close | close-inline
	Moment int    `json:"moment"` // -1 = before the call starts, k>=0 = at tick k (tick-less: 0 = in flight)
	Code   uint32 `json:"code"`   // exit code handed to CloseWithExitCode
	// HostPanics: host functions that get an error from a nested guest call propagate it by panic (else they return normally).
	HostPanics bool `json:"host_panics,omitempty"`
	// Conc: concurrent in-flight calls on the same module instance (see conc.go).
	Conc *concSpec `json:"conc,omitempty"`
	// WithStack: the entry call is made with api.Function.CallWithStack instead of Call.
	WithStack bool `json:"with_stack,omitempty"`
}

func (tc tcase) wantCode() uint32 {
	switch causeKind(tc.Cause) {
	case "cancel":
		return sys.ExitCodeContextCanceled
	case "deadline":
		return sys.ExitCodeDeadlineExceeded
	}
	return tc.Code
}

// Wall-clock constants below never decide a verdict on their own: they bound
// waits (=> inconclusive) or are the differential watchdog's delay, which only
// counts when the control finished.
const (
	deadlineD      = 60 * time.Millisecond // timeout of the deadline cause (the tick function waits for it: no timing assumption)
	closedWatchdog = 10 * time.Second      // wait for the asynchronous close to become visible
	hangCPU        = 4 * time.Second       // differential watchdog: CPU time the process must have burnt after the control returned ...
	hangWallMin    = 4 * time.Second       // ... and minimum wall-clock time, with the subject still running => hang
	hangWallMax    = 300 * time.Second     // CPU budget not reached by then => inconclusive
	controlWait    = 60 * time.Second      // control never returned => inconclusive
	inflightDelay  = 30 * time.Millisecond // tick-less in-flight moment: let the calls start (not part of any verdict)
	tailCap        = 1000                  // extra ticks after which the harness stops a guest that does not stop
	interpFrames   = 2000                  // interpreter call-stack ceiling (frames) - a recursion must have ended by then
	compilerFrames = 7_000_000             // compiler: stack ceiling 50 MB, doubled once more at most = 100 MB / 16 bytes minimum frame = 6.25M frames
	hostRecCap     = 600                   // guest->host->guest recursion depth at which the harness stops
)

var errCap = errors.New("c07-harness-stopped-the-guest")

// tres is what the child reports for a ticked case.
type tres struct {
	Label       string   `json:"label"`
	Class       string   `json:"class"`
	Family      string   `json:"family"`
	TPI         int      `json:"tpi"`
	BuildErr    string   `json:"build_err,omitempty"`
	Ticks       int64    `json:"ticks"`
	Fired       bool     `json:"fired"`
	FiredAt     int64    `json:"fired_at"`
	ClosedSeen  bool     `json:"closed_seen"`
	ClosedAt    int64    `json:"closed_at"`
	After       int64    `json:"after"`  // ticks after the first tick that observed closed
	Capped      bool     `json:"capped"` // harness had to stop the guest
	Cap         int64    `json:"cap"`
	Reopened    bool     `json:"reopened,omitempty"`      // IsClosed went back to false
	CloseSyncNo bool     `json:"close_sync_no,omitempty"` // CloseWithExitCode returned but IsClosed() false
	NeverClosed bool     `json:"never_closed,omitempty"`  // closed never became visible within the watchdog
	CtrlDone    bool     `json:"ctrl_done,omitempty"`     // harness' own watcher goroutine saw ctx.Done (control of NeverClosed)
	ErrClass    string   `json:"err_class"`               // ok | exit | stack-overflow | harness-stop | other:…
	ErrCode     uint32   `json:"err_code"`
	ErrText     string   `json:"err_text,omitempty"`
	WantCode    uint32   `json:"want_code"`
	ClosedAfter bool     `json:"closed_after"` // IsClosed() after the call returned
	LaterClass  string   `json:"later_class"`  // class of a later call's error
	LaterCode   uint32   `json:"later_code"`
	HostCalls   int      `json:"host_calls,omitempty"`
	HostAfter   int64    `json:"host_after,omitempty"` // host functions ENTERED by the guest after the close was observed (unwinding returns do not count)
	HostBad     []string `json:"host_bad,omitempty"`   // nested guest calls that did not fail after close
	NestedErrs  []string `json:"nested_errs,omitempty"`
	Skipped     string   `json:"skipped,omitempty"`
	CtxErr      string   `json:"ctx_err,omitempty"`   // ctx.Err() when the call returned
	AResults    []string `json:"a_results,omitempty"` // concurrent-calls: outcome of the finite calls
	Wasm        []string `json:"wasm_hex,omitempty"`
}

func classify(err error) (string, uint32) {
	if err == nil {
		return "ok", 0
	}
	if strings.Contains(err.Error(), errCap.Error()) {
		return "harness-stop", 0
	}
	var ee *sys.ExitError
	if errors.As(err, &ee) {
		return "exit", ee.ExitCode()
	}
	if strings.Contains(err.Error(), "stack overflow") {
		return "stack-overflow", 0
	}
	f := strings.Fields(strings.ReplaceAll(err.Error(), "\n", " "))
	if len(f) > 8 {
		f = f[:8]
	}
	return "other:" + strings.Join(f, "_"), 0
}

func rtConfig(engine string) wazero.RuntimeConfig {
	var rc wazero.RuntimeConfig
	if engine == "compiler" {
		rc = wazero.NewRuntimeConfigCompiler()
	} else {
		rc = wazero.NewRuntimeConfigInterpreter()
	}
	return rc.WithCoreFeatures(api.CoreFeaturesV2 | experimental.CoreFeaturesTailCall).WithCloseOnContextDone(true)
}

type tstate struct {
	tc      tcase
	prog    *program
	res     *tres
	ctx     context.Context
	cancel  context.CancelFunc
	mod     api.Module // entry module once known
	cap     int64
	ctrl    atomic.Bool
	want    uint32
	seen    api.Module
	cleanup func()
	// concurrent-calls family (see conc.go)
	onTick0    func() // runs at the first tick of the non-terminating call
	beforeFire func() // runs at the chosen tick, before the cause is fired
	aStarted   chan struct{}
	aRelease   chan struct{}
}

func (st *tstate) module(caller api.Module) api.Module {
	if st.mod != nil {
		return st.mod
	}
	st.seen = caller // start shapes: the module under instantiation, as handed to the host function
	return caller
}

// fire triggers the cause and returns only when it has certainly happened.
func (st *tstate) fire(m api.Module) {
	switch st.tc.Cause {
	default:
		if causeKind(st.tc.Cause) == "cancel" {
			st.cancel()
		} else {
			<-st.ctx.Done()
		}
	case "close":
		done := make(chan struct{})
		go func() {
			m.CloseWithExitCode(context.Background(), st.tc.Code)
			close(done)
		}()
		<-done
		if !m.IsClosed() {
			st.res.CloseSyncNo = true
		}
	case "close-inline":
		m.CloseWithExitCode(st.ctx, st.tc.Code)
		if !m.IsClosed() {
			st.res.CloseSyncNo = true
		}
	}
}

// awaitClosed waits until the (asynchronous) close is visible.
func (st *tstate) awaitClosed(m api.Module) {
	limit := time.Now().Add(closedWatchdog)
	for i := 0; !m.IsClosed(); i++ {
		if i > 5000 && time.Now().After(limit) {
			st.res.NeverClosed = true
			st.res.CtrlDone = st.ctrl.Load()
			return
		}
		if i < 200 {
			runtime.Gosched()
		} else {
			time.Sleep(100 * time.Microsecond)
		}
	}
}

func (st *tstate) tick(_ context.Context, caller api.Module) {
	r := st.res
	n := r.Ticks
	r.Ticks++
	m := st.module(caller)
	if r.ClosedSeen {
		r.After++
		if !m.IsClosed() {
			r.Reopened = true
		}
		if r.After > st.cap {
			r.Capped = true
			panic(errCap)
		}
		return
	}
	if n == 0 && st.onTick0 != nil {
		st.onTick0()
	}
	if !r.Fired && st.tc.Moment >= 0 && n == int64(st.tc.Moment) {
		r.Fired, r.FiredAt = true, n
		if st.beforeFire != nil {
			st.beforeFire()
		}
		st.fire(m)
		st.awaitClosed(m)
		if r.NeverClosed {
			r.Capped = true
			panic(errCap)
		}
	}
	if m.IsClosed() {
		r.ClosedSeen, r.ClosedAt = true, n
		return
	}
	// not closed and the cause is not due yet; a guest that runs on although the cause never
	// comes (cannot happen by construction) is stopped as well
	if n > int64(st.tc.Moment)+100000 {
		r.Capped = true
		panic(errCap)
	}
}

// hostEntry is called on entry of every host function other than tick. A guest that keeps
// entering host functions after the close was observed has not stopped, even when no tick
// happens any more (nested calls failing at entry). Returns of nested calls while a deep
// guest->host->guest recursion unwinds are NOT entries and are not counted.
func (st *tstate) hostEntry(m api.Module) {
	r := st.res
	if r.Capped {
		panic(errCap)
	}
	if r.ClosedSeen || m.IsClosed() {
		r.HostAfter++
		if r.HostAfter > st.cap+3 {
			r.Capped = true
			panic(errCap)
		}
	}
}

// nestedOutcome checks a guest call made by a host function.
func (st *tstate) nestedOutcome(m api.Module, err error) {
	r := st.res
	r.HostCalls++
	cl, code := classify(err)
	if len(r.NestedErrs) < 4 {
		r.NestedErrs = append(r.NestedErrs, fmt.Sprintf("%s/%#x", cl, code))
	}
	if r.Capped {
		panic(errCap)
	}
	if r.ClosedSeen {
		// a tick had observed the module closed before this nested call returned: it must have failed
		overflowOK := cl == "stack-overflow" && (st.prog.Class == "recursion" || st.prog.Class == "hostrec")
		if (cl != "exit" || code != st.want) && !overflowOK {
			if len(r.HostBad) < 4 {
				r.HostBad = append(r.HostBad, fmt.Sprintf("%s/%#x", cl, code))
			}
		}
	} else if err != nil && !(cl == "exit" && m.IsClosed()) &&
		!(cl == "stack-overflow" && (st.prog.Class == "recursion" || st.prog.Class == "hostrec")) {
		if len(r.HostBad) < 4 {
			r.HostBad = append(r.HostBad, fmt.Sprintf("before-close:%s/%#x", cl, code))
		}
	}
}

func (st *tstate) hostloop(ctx context.Context, caller api.Module) {
	m := st.module(caller)
	st.hostEntry(m)
	step := m.ExportedFunction("step")
	failed := 0
	for i := 0; i < 5_000_000; i++ {
		_, err := step.Call(ctx)
		st.nestedOutcome(m, err)
		if err != nil {
			failed++
			if failed >= 3 { // the host keeps trying a little: every further call must fail too
				if st.tc.HostPanics {
					panic(err)
				}
				return
			}
		}
	}
}

func (st *tstate) hostcb(ctx context.Context, caller api.Module) {
	m := st.module(caller)
	st.hostEntry(m)
	_, err := m.ExportedFunction("inner").Call(ctx)
	st.nestedOutcome(m, err)
	if err != nil && st.tc.HostPanics {
		panic(err)
	}
}

func (st *tstate) bounce(ctx context.Context, caller api.Module) {
	m := st.module(caller)
	st.hostEntry(m)
	_, err := m.ExportedFunction("step").Call(ctx)
	st.nestedOutcome(m, err)
	if err != nil && st.tc.HostPanics {
		panic(err)
	}
}

func (st *tstate) hop(ctx context.Context, caller api.Module) {
	m := st.module(caller)
	st.hostEntry(m)
	_, err := m.ExportedFunction("run").Call(ctx)
	st.nestedOutcome(m, err)
	if err != nil && st.tc.HostPanics {
		panic(err)
	}
}

func (st *tstate) hostModule(ctx context.Context, rt wazero.Runtime) error {
	b := rt.NewHostModuleBuilder("env")
	for name, f := range map[string]func(context.Context, api.Module){
		"tick": st.tick, "hostloop": st.hostloop, "hostcb": st.hostcb, "bounce": st.bounce, "hop": st.hop, "await": st.await} {
		f := f
		// no reflection on the tick path: recursion shapes make millions of ticks
		b = b.NewFunctionBuilder().WithGoModuleFunction(api.GoModuleFunc(func(ctx context.Context, mod api.Module, _ []uint64) {
			f(ctx, mod)
		}), nil, nil).Export(name)
	}
	_, err := b.
		Instantiate(ctx)
	return err
}

func capFor(class, engine string, tpi int) int64 {
	switch class {
	case "recursion":
		// a cycle that grows the stack by at least one frame per iteration must have overflowed by then
		if engine == "compiler" {
			return compilerFrames * int64(tpi)
		}
		return (interpFrames + 500) * int64(tpi)
	case "hostrec":
		return hostRecCap
	}
	return tailCap
}

// runTicked executes one ticked case.
func runTicked(tc tcase, keepWasm bool) *tres {
	res := &tres{Label: tc.label(), WantCode: tc.wantCode()}
	prog, err := build(tc.caseSpec)
	if err != nil {
		res.BuildErr = err.Error()
		return res
	}
	res.Class, res.Family, res.TPI = prog.Class, prog.Family, prog.TPI
	if keepWasm {
		for _, mb := range prog.Mods {
			res.Wasm = append(res.Wasm, mb.Name+":"+hex.EncodeToString(mb.Bin))
		}
	}
	if prog.Start && tc.Moment < 0 && strings.HasPrefix(tc.Cause, "close") {
		res.Skipped = "cannot close a module before it is instantiated"
		return res
	}
	bg := context.Background()
	rt := wazero.NewRuntimeWithConfig(bg, rtConfig(tc.Engine))
	defer rt.Close(bg)
	st := &tstate{tc: tc, prog: prog, res: res, want: tc.wantCode(), cap: capFor(prog.Class, tc.Engine, prog.TPI)}
	res.Cap = st.cap
	if err := st.hostModule(bg, rt); err != nil {
		res.BuildErr = "host module: " + err.Error()
		return res
	}
	// the call's context is created right before the call starts (a deadline must not run out during set-up)
	mkctx := func() {
		// st.cancel fires a cancel-kind cause (no-op for deadline / close kinds)
		st.ctx, st.cancel, st.cleanup = newCallCtx(tc.Cause, tc.Moment < 0)
		if done := st.ctx.Done(); done != nil {
			go func() { // the harness' own watcher: control for "module never became closed"
				<-done
				st.ctrl.Store(true)
			}()
		}
	}
	st.cancel, st.cleanup = func() {}, func() {}
	defer func() { st.cleanup() }()
	// instantiate everything but the entry module
	var compiled []wazero.CompiledModule
	for _, mb := range prog.Mods {
		cm, err := rt.CompileModule(bg, mb.Bin)
		if err != nil {
			res.BuildErr = "compile " + mb.Name + ": " + err.Error()
			return res
		}
		compiled = append(compiled, cm)
	}
	last := len(prog.Mods) - 1
	for i := 0; i < last; i++ {
		if _, err := rt.InstantiateModule(bg, compiled[i], wazero.NewModuleConfig().WithName(prog.Mods[i].Name)); err != nil {
			res.BuildErr = "instantiate " + prog.Mods[i].Name + ": " + err.Error()
			return res
		}
	}
	cfg := wazero.NewModuleConfig().WithName(prog.Mods[last].Name)
	var callErr error
	if prog.Start {
		mkctx()
		if tc.Moment < 0 {
			st.cancel() // cancel: cancelled before; deadline: already past
		}
		var mod api.Module
		mod, callErr = rt.InstantiateModule(st.ctx, compiled[last], cfg)
		if mod != nil {
			st.mod = mod
		}
	} else {
		mod, err := rt.InstantiateModule(bg, compiled[last], cfg)
		if err != nil {
			res.BuildErr = "instantiate entry: " + err.Error()
			return res
		}
		st.mod = mod
		mkctx()
		if tc.Moment < 0 {
			res.Fired, res.FiredAt = true, -1
			switch causeKind(tc.Cause) {
			case "cancel":
				st.cancel()
			case "deadline": // already past
			default:
				st.fire(mod)
			}
		}
		if tc.WithStack {
			callErr = mod.ExportedFunction("run").CallWithStack(st.ctx, make([]uint64, 1))
		} else {
			_, callErr = mod.ExportedFunction("run").Call(st.ctx)
		}
	}
	// what the context itself reports once the call is over (the exit code must follow it)
	if err := st.ctx.Err(); err != nil {
		res.CtxErr = err.Error()
	}
	if prog.Start && tc.Moment < 0 {
		res.Fired, res.FiredAt = true, -1
	}
	res.ErrClass, res.ErrCode = classify(callErr)
	if callErr != nil {
		res.ErrText = trunc(callErr.Error(), 300)
	}
	if st.mod != nil {
		res.ClosedAfter = st.mod.IsClosed()
		if f := st.mod.ExportedFunction("nop"); f != nil {
			_, lerr := f.Call(bg)
			res.LaterClass, res.LaterCode = classify(lerr)
		} else {
			res.LaterClass = "no-function"
		}
	} else {
		// start shape: InstantiateModule returned no module; the one the host function saw (if any) must be closed
		res.ClosedAfter = st.seen == nil || st.seen.IsClosed()
		res.LaterClass = "no-module"
	}
	return res
}

// cpuTime is user+system CPU time of this process.
func cpuTime() time.Duration {
	var ru syscall.Rusage
	if syscall.Getrusage(syscall.RUSAGE_SELF, &ru) != nil {
		return 0
	}
	return time.Duration(ru.Utime.Nano() + ru.Stime.Nano())
}

func trunc(s string, n int) string {
	if len(s) > n {
		return s[:n] + "…"
	}
	return s
}

// ---------------------------------------------------------------------------
// tick-less cases under the differential watchdog

type wres struct {
	Label           string `json:"label"`
	Class           string `json:"class"`
	Family          string `json:"family"`
	BuildErr        string `json:"build_err,omitempty"`
	Skipped         string `json:"skipped,omitempty"`
	ControlReturned bool   `json:"control_returned"`
	SubjectReturned bool   `json:"subject_returned"`
	ControlClass    string `json:"control_class"`
	ControlCode     uint32 `json:"control_code"`
	SubjectClass    string `json:"subject_class"`
	SubjectCode     uint32 `json:"subject_code"`
	SubjectErr      string `json:"subject_err,omitempty"`
	WantCode        uint32 `json:"want_code"`
	SubjectClosed   bool   `json:"subject_closed"`
	WaitedS         int    `json:"waited_s"` // informational
	CPUms           int    `json:"cpu_ms"`   // informational
	// BudgetNotReached: the subject did not return but the process was not given hangCPU of CPU either
	BudgetNotReached bool     `json:"budget_not_reached,omitempty"`
	Wasm             []string `json:"wasm_hex,omitempty"`
}

func runWatchdog(tc tcase, keepWasm bool) *wres {
	// a guest stuck in machine code never reaches a safepoint: no stop-the-world may be needed from here on
	debug.SetGCPercent(-1)
	res := &wres{Label: tc.label(), WantCode: tc.wantCode()}
	prog, err := build(tc.caseSpec)
	if err != nil {
		res.BuildErr = err.Error()
		return res
	}
	res.Class, res.Family = prog.Class, prog.Family
	if keepWasm {
		for _, mb := range prog.Mods {
			res.Wasm = append(res.Wasm, mb.Name+":"+hex.EncodeToString(mb.Bin))
		}
	}
	if prog.Start && strings.HasPrefix(tc.Cause, "close") {
		res.Skipped = "cannot close a module that is still being instantiated"
		return res
	}
	bg := context.Background()
	rt := wazero.NewRuntimeWithConfig(bg, rtConfig(tc.Engine))
	st := &tstate{tc: tc, prog: prog, res: &tres{}, want: tc.wantCode(), cap: tailCap}
	if err := st.hostModule(bg, rt); err != nil {
		res.BuildErr = "host module: " + err.Error()
		return res
	}
	ctrl, err := rt.InstantiateWithConfig(bg, controlBin(), wazero.NewModuleConfig().WithName("control"))
	if err != nil {
		res.BuildErr = "control: " + err.Error()
		return res
	}
	var compiled []wazero.CompiledModule
	for _, mb := range prog.Mods {
		cm, err := rt.CompileModule(bg, mb.Bin)
		if err != nil {
			res.BuildErr = "compile " + mb.Name + ": " + err.Error()
			return res
		}
		compiled = append(compiled, cm)
	}
	last := len(prog.Mods) - 1
	for i := 0; i < last; i++ {
		if _, err := rt.InstantiateModule(bg, compiled[i], wazero.NewModuleConfig().WithName(prog.Mods[i].Name)); err != nil {
			res.BuildErr = "instantiate " + prog.Mods[i].Name + ": " + err.Error()
			return res
		}
	}
	cfg := wazero.NewModuleConfig().WithName(prog.Mods[last].Name)
	var subj api.Module
	if !prog.Start {
		subj, err = rt.InstantiateModule(bg, compiled[last], cfg)
		if err != nil {
			res.BuildErr = "instantiate entry: " + err.Error()
			return res
		}
		st.mod = subj
	}
	ctx, cancel, cleanup := newCallCtx(tc.Cause, tc.Moment < 0)
	_ = cleanup // the child exits after reporting
	st.ctx, st.cancel = ctx, cancel
	closeBoth := func() {
		ctrl.CloseWithExitCode(bg, tc.Code)
		if subj != nil {
			subj.CloseWithExitCode(bg, tc.Code)
		}
	}
	if tc.Moment < 0 {
		switch causeKind(tc.Cause) {
		case "cancel":
			cancel()
		case "deadline":
		default:
			closeBoth()
		}
	}
	cch, sch := make(chan error, 1), make(chan error, 1)
	go func() {
		_, err := ctrl.ExportedFunction("run").Call(ctx)
		cch <- err
	}()
	go func() {
		if prog.Start {
			m, err := rt.InstantiateModule(ctx, compiled[last], cfg)
			if m != nil {
				subj = m
			}
			sch <- err
			return
		}
		if tc.WithStack {
			sch <- subj.ExportedFunction("run").CallWithStack(ctx, make([]uint64, 1))
			return
		}
		_, err := subj.ExportedFunction("run").Call(ctx)
		sch <- err
	}()
	if tc.Moment >= 0 {
		time.Sleep(inflightDelay)
		switch causeKind(tc.Cause) {
		case "cancel":
			cancel()
		case "deadline": // elapses by itself
		default:
			closeBoth()
		}
	}
	t0 := time.Now()
	var cerr, serr error
	select {
	case cerr = <-cch:
		res.ControlReturned = true
	case <-time.After(controlWait):
	}
	res.ControlClass, res.ControlCode = classify(cerr)
	if res.ControlReturned {
		// The subject gets the same chance the control had: it is declared hung only after the
		// process has burnt hangCPU of CPU time since the control returned (a spinning guest burns
		// CPU at whatever rate the machine grants; machine load stretches the wait, not the verdict).
		cpu0 := cpuTime()
	wait:
		for {
			select {
			case serr = <-sch:
				res.SubjectReturned = true
				break wait
			case <-time.After(200 * time.Millisecond):
			}
			w := time.Since(t0)
			if w >= hangWallMin && cpuTime()-cpu0 >= hangCPU {
				break
			}
			if w >= hangWallMax {
				res.BudgetNotReached = true
				break
			}
		}
		res.CPUms = int((cpuTime() - cpu0) / time.Millisecond)
	} else {
		select {
		case serr = <-sch:
			res.SubjectReturned = true
		default:
		}
	}
	res.WaitedS = int(time.Since(t0).Seconds())
	if res.SubjectReturned {
		res.SubjectClass, res.SubjectCode = classify(serr)
		if serr != nil {
			res.SubjectErr = trunc(serr.Error(), 300)
		}
		if subj != nil {
			res.SubjectClosed = subj.IsClosed()
		} else {
			res.SubjectClosed = true
		}
	}
	// no rt.Close: a hung guest cannot be stopped; the child process exits after reporting
	return res
}

func child(mode string, in json.RawMessage) any {
	var tc tcase
	if err := json.Unmarshal(in, &tc); err != nil {
		return &tres{BuildErr: "bad case: " + err.Error()}
	}
	if mode == "wd" {
		return runWatchdog(tc, false)
	}
	if tc.Conc != nil {
		return runConc(tc)
	}
	return runTicked(tc, false)
}
