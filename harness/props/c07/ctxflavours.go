package c07

import (
	"context"
	"errors"
	"strings"
	"time"
)

// Context flavours of the cancel / deadline causes. All are built with the
// standard library constructors, so ctx.Err() is context.Canceled or
// context.DeadlineExceeded in every case; what differs is context.Cause(ctx)
// (a user-supplied error) and whether the context handed to Call is the one
// that is cancelled or a context derived from it. wazero must treat all of
// them like a plain cancel / deadline.
var errUserCause = errors.New("c07: user-supplied cancellation cause")

type ctxKey struct{}

var cancelFlavours = []string{"cancel-cause", "cancel-cause-nil", "cancel-parent-cause-via-value", "cancel-parent-cause-via-cancel", "cancel-child-of-cause-parent",
	// cancelled contexts that also carry a deadline far in the future: ctx.Err() is context.Canceled
	"cancel-of-timeout-ctx", "cancel-of-deadline-ctx", "cancel-parent-of-deadline-child", "cancel-cause-parent-of-deadline-child"}
var deadlineFlavours = []string{"deadline-timeoutcause", "deadline-deadlinecause", "deadline-parent-cause", "deadline-parent-cancellable-child"}

// ctxCauses: every cause that is delivered through the context.
func ctxCauses() []string {
	return append(append([]string{"cancel", "deadline"}, cancelFlavours...), deadlineFlavours...)
}

// causeKind maps a cause (flavour) to cancel | deadline | close.
func causeKind(cause string) string {
	switch {
	case strings.HasPrefix(cause, "cancel"):
		return "cancel"
	case strings.HasPrefix(cause, "deadline"):
		return "deadline"
	}
	return "close"
}

// newCallCtx builds the context of the call. fire makes a cancel-kind cause
// happen (deadline kinds elapse by themselves after deadlineD, or have already
// passed when before is set); cleanup releases everything.
func newCallCtx(cause string, before bool) (ctx context.Context, fire func(), cleanup func()) {
	bg := context.Background()
	d := deadlineD
	if before {
		d = -time.Hour
	}
	switch cause {
	case "cancel":
		c, cancel := context.WithCancel(bg)
		return c, cancel, cancel
	case "cancel-cause":
		c, cancel := context.WithCancelCause(bg)
		return c, func() { cancel(errUserCause) }, func() { cancel(nil) }
	case "cancel-cause-nil":
		c, cancel := context.WithCancelCause(bg)
		return c, func() { cancel(nil) }, func() { cancel(nil) }
	case "cancel-parent-cause-via-value":
		p, cancel := context.WithCancelCause(bg)
		return context.WithValue(p, ctxKey{}, 1), func() { cancel(errUserCause) }, func() { cancel(nil) }
	case "cancel-parent-cause-via-cancel":
		p, cancel := context.WithCancelCause(bg)
		c, c2 := context.WithCancel(p)
		return c, func() { cancel(errUserCause) }, func() { c2(); cancel(nil) }
	case "cancel-child-of-cause-parent":
		p, cancel := context.WithCancelCause(bg)
		c, c2 := context.WithCancel(p)
		return c, c2, func() { c2(); cancel(nil) }
	case "cancel-of-timeout-ctx":
		c, cancel := context.WithTimeout(bg, time.Hour)
		return c, cancel, cancel
	case "cancel-of-deadline-ctx":
		c, cancel := context.WithDeadline(bg, time.Now().Add(24*time.Hour))
		return c, cancel, cancel
	case "cancel-parent-of-deadline-child":
		p, cancel := context.WithCancel(bg)
		c, c2 := context.WithTimeout(p, time.Hour)
		return c, cancel, func() { c2(); cancel() }
	case "cancel-cause-parent-of-deadline-child":
		p, cancel := context.WithCancelCause(bg)
		c, c2 := context.WithTimeout(p, time.Hour)
		return c, func() { cancel(errUserCause) }, func() { c2(); cancel(nil) }
	case "deadline-parent-cancellable-child":
		p, cancel := context.WithTimeout(bg, d)
		c, c2 := context.WithCancel(p)
		return c, func() {}, func() { c2(); cancel() }
	case "deadline":
		c, cancel := context.WithTimeout(bg, d)
		return c, func() {}, cancel
	case "deadline-timeoutcause":
		c, cancel := context.WithTimeoutCause(bg, d, errUserCause)
		return c, func() {}, cancel
	case "deadline-deadlinecause":
		c, cancel := context.WithDeadlineCause(bg, time.Now().Add(d), errUserCause)
		return c, func() {}, cancel
	case "deadline-parent-cause":
		p, cancel := context.WithTimeoutCause(bg, d, errUserCause)
		c, c2 := context.WithCancel(context.WithValue(p, ctxKey{}, 1))
		return c, func() {}, func() { c2(); cancel() }
	}
	return bg, func() {}, func() {}
}
