package c07

import (
	"context"
	"fmt"
	"time"

	"github.com/tetratelabs/wazero"
	"github.com/tetratelabs/wazero/api"
)

// Concurrent in-flight calls: one module instance, the non-terminating call B
// (any ticked shape) on this goroutine and one or two finite calls A on their
// own goroutines, each through its own api.Function handle. A parks in the
// host function env.await until released and then returns (or traps). The
// order of events is fixed by the tick hook, not by timing:
//
//	a-first:  A starts (and is parked) -> B starts -> at B's tick k: A is released, A HAS RETURNED -> cause fires
//	b-first:  B starts -> at B's tick 0: A starts (and is parked)   -> at tick k: as above
//	two-a-first: like a-first with two finite calls
//
// The oracle for B is the one of every in-flight call.
type concSpec struct {
	Order string `json:"order"`  // a-first | b-first | two-a-first
	AKind string `json:"a_kind"` // ret | trap
	// Ctx: same (all calls get the same context) | value-children (each call its own WithValue child: same Done channel) |
	// cancel-children (each call its own WithCancel child) | a-background (A runs with context.Background())
	Ctx string `json:"ctx"`
}

var concOrders = []string{"a-first", "b-first", "two-a-first"}
var concCtxs = []string{"same", "value-children", "cancel-children", "a-background"}

func (cs concSpec) String() string { return cs.Order + "," + cs.AKind + "," + cs.Ctx }

func (st *tstate) await(_ context.Context, _ api.Module) {
	st.aStarted <- struct{}{}
	<-st.aRelease
}

type concKey struct{ who string }

func runConc(tc tcase) *tres {
	cs := *tc.Conc
	res := &tres{Label: "conc[" + cs.String() + "]+" + tc.label(), WantCode: tc.wantCode()}
	prog, err := build(tc.caseSpec)
	if err != nil {
		res.BuildErr = err.Error()
		return res
	}
	if len(prog.Mods) != 1 || prog.Start || tc.Moment < 0 {
		res.BuildErr = "concurrent-calls needs a single-module exported shape and an in-flight moment"
		return res
	}
	res.Class, res.Family, res.TPI = prog.Class, "concurrent-calls/"+prog.Family, prog.TPI
	bg := context.Background()
	rt := wazero.NewRuntimeWithConfig(bg, rtConfig(tc.Engine))
	defer rt.Close(bg)
	st := &tstate{tc: tc, prog: prog, res: res, want: tc.wantCode(), cap: capFor(prog.Class, tc.Engine, prog.TPI),
		aStarted: make(chan struct{}, 4), aRelease: make(chan struct{})}
	res.Cap = st.cap
	if err := st.hostModule(bg, rt); err != nil {
		res.BuildErr = "host module: " + err.Error()
		return res
	}
	mod, err := rt.InstantiateWithConfig(bg, prog.Mods[0].Bin, wazero.NewModuleConfig().WithName("guest"))
	if err != nil {
		res.BuildErr = "instantiate: " + err.Error()
		return res
	}
	st.mod = mod
	st.ctx, st.cancel, st.cleanup = newCallCtx(tc.Cause, false)
	defer func() { st.cleanup() }()
	if done := st.ctx.Done(); done != nil {
		go func() { // control for "module never became closed"
			<-done
			st.ctrl.Store(true)
		}()
	}
	var cleanups []func()
	defer func() {
		for _, f := range cleanups {
			f()
		}
	}()
	ctxFor := func(who string) context.Context {
		switch cs.Ctx {
		case "value-children":
			return context.WithValue(st.ctx, concKey{who}, 1)
		case "cancel-children":
			c, cancel := context.WithCancel(st.ctx)
			cleanups = append(cleanups, cancel)
			return c
		case "a-background":
			if who != "B" {
				return bg
			}
		}
		return st.ctx
	}
	nA := 1
	if cs.Order == "two-a-first" {
		nA = 2
	}
	aName := "a_ret"
	if cs.AKind == "trap" {
		aName = "a_trap"
	}
	aDone := make(chan error, nA)
	started, parked := false, 0
	startA := func() {
		started = true
		for i := 0; i < nA; i++ {
			ctx := ctxFor(fmt.Sprint("A", i))
			fn := mod.ExportedFunction(aName) // a handle of its own per call
			go func() {
				_, err := fn.Call(ctx)
				aDone <- err
			}()
		}
		for i := 0; i < nA; i++ {
			select {
			case <-st.aStarted: // this A is inside the guest, parked in env.await
				parked++
			case e := <-aDone: // it never got there (e.g. the deadline ran out before its call started)
				cl, code := classify(e)
				res.AResults = append(res.AResults, fmt.Sprintf("early:%s/%#x", cl, code))
			}
		}
	}
	if cs.Order == "b-first" {
		st.onTick0 = startA
	} else {
		startA()
	}
	st.beforeFire = func() {
		close(st.aRelease)
		for i := 0; i < parked; i++ {
			cl, code := classify(<-aDone) // A has returned before the cause is fired
			res.AResults = append(res.AResults, fmt.Sprintf("%s/%#x", cl, code))
		}
	}
	bctx := ctxFor("B")
	_, callErr := mod.ExportedFunction("run").Call(bctx)
	if err := bctx.Err(); err != nil {
		res.CtxErr = err.Error()
	}
	if !res.Fired && started {
		// B ended before the chosen tick (e.g. the deadline ran out first): let the finite calls go
		select {
		case <-st.aRelease:
		default:
			close(st.aRelease)
		}
		for i := 0; i < parked; i++ {
			select {
			case e := <-aDone:
				cl, code := classify(e)
				res.AResults = append(res.AResults, fmt.Sprintf("late:%s/%#x", cl, code))
			case <-time.After(controlWait):
			}
		}
	}
	res.ErrClass, res.ErrCode = classify(callErr)
	if callErr != nil {
		res.ErrText = trunc(callErr.Error(), 300)
	}
	res.ClosedAfter = mod.IsClosed()
	_, lerr := mod.ExportedFunction("nop").Call(bg)
	res.LaterClass, res.LaterCode = classify(lerr)
	return res
}
