// Package c07 decides C07 (close-on-context-done always stops a running
// guest) by enumerating cycle shapes of the control-flow / call graph, running
// each non-terminating guest on both engines with WithCloseOnContextDone(true)
// and firing one of the causes (context cancel, deadline, Module.Close from
// another goroutine / from the host function) at a chosen moment.
//
// Oracle in logical steps: every cycle iteration calls the imported host
// function tick(); tick fires the cause at tick k, waits until mod.IsClosed()
// is visible, and from then on counts ticks. Every cycle must contain an exit
// check, so at most ticks-per-iteration+1 further ticks may happen. The call
// must return *sys.ExitError with the code of the cause, the module must be
// closed and later calls must fail. Tick-less variants run under a
// differential watchdog (control = plain loop in the same child).
package c07

import (
	"encoding/hex"
	"encoding/json"
	"fmt"
	"os"
	"sort"
	"strings"

	"github.com/tetratelabs/wazero/verifharness/core"
	"github.com/tetratelabs/wazero/verifharness/wdis"
)

var Prop = &core.Prop{ID: "C07", Run: run, Child: child, Replay: replay}

var engines = []string{"interpreter", "compiler"}
var causes = []string{"cancel", "deadline", "close", "close-inline"}
var codePool = []uint32{0, 1, 2, 42, 255, 256, 0x7fffffff, 0x80000000, 0xeffffffe, 0xfffffffe}

func specsStatic(thorough bool) []caseSpec {
	var out []caseSpec
	for _, ls := range loopShapes {
		out = append(out, caseSpec{Shape: ls.Name, Entry: "export", Ticked: true})
	}
	for _, nr := range namedRings {
		out = append(out, caseSpec{Shape: nr.Name, Entry: "export", Ticked: true})
	}
	for _, s := range []string{"hostloop", "host-recursion", "xmod-loop-1", "xmod-loop-2", "xmod-return_call-cycle", "xmod-call_indirect-entry"} {
		out = append(out, caseSpec{Shape: s, Entry: "export", Ticked: true})
	}
	entryShapes := []string{"loop-br", "return_call-mutual-2"}
	if thorough {
		entryShapes = nil
		for _, ls := range loopShapes {
			entryShapes = append(entryShapes, ls.Name)
		}
		for _, nr := range namedRings {
			entryShapes = append(entryShapes, nr.Name)
		}
	}
	for _, s := range entryShapes {
		for _, e := range entryKinds[1:] {
			out = append(out, caseSpec{Shape: s, Entry: e, Ticked: true})
		}
	}
	return out
}

// generated rings (thorough): every ring of length 1..3 over the four guest
// edge kinds, wraps and entry by PRNG, plus rings with one host bounce.
func specsGenerated(rng *core.Rng) []caseSpec {
	var out []caseSpec
	kinds := edgeKinds[:4]
	var rec func(prefix []string, n int)
	rec = func(prefix []string, n int) {
		if len(prefix) == n {
			for v := 0; v < 2; v++ {
				r := ring{Edges: append([]string(nil), prefix...)}
				if v == 1 {
					for range prefix {
						r.Wraps = append(r.Wraps, wrapKinds[rng.Intn(len(wrapKinds))])
					}
				}
				e := "export"
				if rng.Chance(1, 3) {
					e = entryKinds[1+rng.Intn(len(entryKinds)-1)]
				}
				out = append(out, caseSpec{Shape: "ring", Ring: &r, Entry: e, Ticked: true})
			}
			return
		}
		for _, k := range kinds {
			rec(append(prefix, k), n)
		}
	}
	for n := 1; n <= 3; n++ {
		rec(nil, n)
	}
	for i := 0; i < 40; i++ { // rings through the host
		n := 1 + rng.Intn(3)
		r := ring{}
		b := rng.Intn(n)
		for j := 0; j < n; j++ {
			if j == b {
				r.Edges = append(r.Edges, "bounce")
			} else {
				r.Edges = append(r.Edges, kinds[rng.Intn(4)])
			}
			r.Wraps = append(r.Wraps, wrapKinds[rng.Intn(len(wrapKinds))])
		}
		out = append(out, caseSpec{Shape: "ring", Ring: &r, Entry: "export", Ticked: true})
	}
	return out
}

// specsFlavours: shapes on which the context flavours are run (all loop shapes and a few rings / entries).
func specsFlavours() []caseSpec {
	var out []caseSpec
	for _, ls := range loopShapes {
		out = append(out, caseSpec{Shape: ls.Name, Entry: "export", Ticked: true})
	}
	for _, s := range []string{"return_call-self", "return_call-mutual-2", "return_call_indirect-self", "self-recursion", "hostloop", "host-recursion", "xmod-loop-2"} {
		out = append(out, caseSpec{Shape: s, Entry: "export", Ticked: true})
	}
	out = append(out, caseSpec{Shape: "loop-br", Entry: "start", Ticked: true}, caseSpec{Shape: "loop-br", Entry: "hostcb", Ticked: true},
		// straight-line entry functions that reach the cycle through call_indirect only (and the direct-call control)
		caseSpec{Shape: "loop-br", Entry: "call_indirect-entry", Ticked: true},
		caseSpec{Shape: "loop-br_if", Entry: "call_indirect-chain-entry", Ticked: true},
		caseSpec{Shape: "return_call-self", Entry: "call_indirect-entry", Ticked: true},
		caseSpec{Shape: "loop-br", Entry: "call-entry", Ticked: true},
		caseSpec{Shape: "xmod-call_indirect-entry", Entry: "export", Ticked: true})
	return out
}

func isStart(cs caseSpec) bool { return cs.Entry == "start" || cs.Entry == "_start" }

func specsTickless() []caseSpec {
	var out []caseSpec
	for _, s := range []string{"loop-br_if", "loop-br_table", "nested-inner-backedge", "nested-outer-backedge",
		"loop-block-out-and-back", "loop-if-backedge", "loop-with-param",
		"self-recursion", "mutual-recursion-2", "call_indirect-self",
		"return_call-self", "return_call-mutual-2", "return_call-mutual-3",
		"return_call_indirect-self", "return_call_indirect-mutual-2", "return_call+return_call_indirect",
		"return_call-self-stack-args", "return_call-with-loop-header",
		"xmod-loop-1", "xmod-loop-2", "xmod-return_call-cycle"} {
		out = append(out, caseSpec{Shape: s, Entry: "export"})
	}
	out = append(out,
		caseSpec{Shape: "loop-br", Entry: "start"},
		caseSpec{Shape: "loop-br", Entry: "hostcb"},
		caseSpec{Shape: "return_call-self", Entry: "start"},
		caseSpec{Shape: "return_call-mutual-2", Entry: "return_call-entry"},
		caseSpec{Shape: "loop-br", Entry: "call_indirect-entry"},
		caseSpec{Shape: "loop-br_if", Entry: "call_indirect-chain-entry"},
		caseSpec{Shape: "xmod-call_indirect-entry", Entry: "export"},
	)
	return out
}

func run(c *core.Ctx) int {
	rng := core.NewRng(c.Seed, 7)
	thorough := !c.Quick()
	moments := []int{-1, 0, 1, 7, 100}
	if thorough {
		moments = []int{-1, 0, 1, 2, 3, 7, 8, 31, 100, 1000}
	}
	var tcases []tcase
	withStack := false
	add := func(cs caseSpec, eng, cause string, moment int) {
		code := codePool[rng.Intn(len(codePool))]
		if rng.Chance(1, 4) {
			code = rng.U32()
		}
		if cs.Entry == "_start" && code == 0 {
			code = 3 // exit code 0 from _start is reported as success by InstantiateModule (documented)
		}
		if code == 0xffffffff || code == 0xefffffff {
			code = 77 // keep the close codes distinguishable from the context codes
		}
		tcases = append(tcases, tcase{caseSpec: cs, Engine: eng, Cause: cause, Moment: moment, Code: code, HostPanics: rng.Bool(),
			WithStack: withStack || (moment >= 0 && !isStart(cs) && rng.Chance(1, 3))})
	}
	for _, cs := range specsStatic(thorough) {
		for _, eng := range engines {
			for _, cause := range causes {
				for _, k := range moments {
					add(cs, eng, cause, k)
				}
			}
		}
	}
	// "the context is already done when the call starts": every context-borne cause and flavour x every shape x
	// both engines x Call and CallWithStack (the plain cancel/deadline + Call points are in the block above)
	for _, cs := range specsStatic(thorough) {
		for _, eng := range engines {
			for _, cause := range ctxCauses() {
				for _, ws := range []bool{false, true} {
					if (ws && isStart(cs)) || (!ws && (cause == "cancel" || cause == "deadline")) {
						continue
					}
					withStack = ws
					add(cs, eng, cause, -1)
				}
			}
		}
	}
	withStack = false
	// context flavours of cancel / deadline (user-supplied cause, derived contexts): a representative subset of shapes
	flavours := append(append([]string(nil), cancelFlavours...), deadlineFlavours...)
	for _, cs := range specsFlavours() {
		for _, eng := range engines {
			for _, cause := range flavours {
				for _, k := range []int{0, 1, 7, 100} {
					add(cs, eng, cause, k)
				}
			}
		}
	}
	if thorough {
		for _, cs := range specsGenerated(rng) {
			for _, eng := range engines {
				for _, cause := range causes {
					// three PRNG moments per point, "from another goroutine at PRNG points"
					add(cs, eng, cause, -1+rng.Intn(3))
					add(cs, eng, cause, 2+rng.Intn(30))
					add(cs, eng, cause, 32+rng.Intn(400))
				}
			}
		}
	}
	// concurrent in-flight calls on one module instance (finite call A returns/traps before the cause fires)
	concShapes := []string{"loop-br", "loop-br_if", "nested-inner-backedge", "loop-calls-function", "loop-through-host", "return_call-self"}
	concCauses := []string{"cancel", "deadline", "close", "cancel-cause", "deadline-timeoutcause", "cancel-of-timeout-ctx"}
	if thorough {
		for _, ls := range loopShapes {
			concShapes = append(concShapes, ls.Name)
		}
		concCauses = append(ctxCauses(), "close", "close-inline")
	}
	for _, sh := range concShapes {
		for _, eng := range engines {
			for _, cause := range concCauses {
				for _, order := range concOrders {
					for _, cx := range concCtxs {
						akind := []string{"ret", "trap"}[rng.Intn(2)]
						add(caseSpec{Shape: sh, Entry: "export", Ticked: true}, eng, cause, []int{0, 1, 7, 100}[rng.Intn(4)])
						tc := &tcases[len(tcases)-1]
						tc.WithStack = false
						tc.Conc = &concSpec{Order: order, AKind: akind, Ctx: cx}
					}
				}
			}
		}
	}
	var wcases []tcase
	wcombos := [][2]any{{"cancel", 0}, {"deadline", 0}, {"close", 0}, {"cancel", -1}, {"deadline", -1}, {"close", -1}}
	for i, cs := range specsTickless() {
		for j, eng := range engines {
			for k, wc := range wcombos {
				if !thorough && k != (i+3*j)%6 && k != (i+3*j+4)%6 {
					continue // quick: two (cause, moment) combinations per shape x engine, rotating
				}
				wcases = append(wcases, tcase{caseSpec: cs, Engine: eng, Cause: wc[0].(string), Moment: wc[1].(int), Code: codePool[1+rng.Intn(len(codePool)-1)]})
			}
		}
	}

	for _, eng := range engines {
		for _, cause := range flavours {
			wcases = append(wcases, tcase{caseSpec: caseSpec{Shape: "loop-br_if", Entry: "export"}, Engine: eng, Cause: cause, Moment: 0, Code: 1})
		}
	}

	var tj, wj []json.RawMessage
	for _, tc := range tcases {
		tj = append(tj, core.J(tc))
	}
	for _, tc := range wcases {
		wj = append(wj, core.J(tc))
	}
	d := newDecider(c)
	// tick-less first (each in its own child, which exits by os.Exit after reporting: a hung guest cannot be killed)
	wres := core.RunCases(c, "wd", wj, core.ChildOpts{Batch: 1, TimeoutS: 240, Procs: 4})
	for _, r := range wres {
		d.watchdogResult(wcases[r.Index], r)
	}
	tres := core.RunCases(c, "tick", tj, core.ChildOpts{Batch: 12, TimeoutS: 900, Procs: 4})
	for _, r := range tres {
		d.tickedResult(tcases[r.Index], r)
	}
	d.emit()

	c.Assume("guest progress is measured in host-observed ticks (one imported call per cycle iteration); wall-clock only bounds waits (inconclusive); the differential watchdog declares a tick-less subject hung only if the control returned and the process has since burnt 4 s of CPU time with the subject still running")
	c.Assume(fmt.Sprintf("recursion through call/call_indirect may legitimately end in 'stack overflow'; a recursion that makes more than %d (interpreter) / %d (compiler) x ticks-per-iteration further ticks after the close was observed cannot be growing a stack (call-stack ceilings: 2000 frames / 100 MB at >=16 bytes per frame) and is counted as a cycle without exit check", interpFrames+500, compilerFrames))
	c.Assume("exit code 0 is not used for _start shapes (InstantiateModule documents ExitError(0) from _start as success)")
	// classes the run must have reached
	broken := false
	for _, eng := range engines {
		for _, cause := range append(append([]string(nil), causes...), flavours...) {
			if c.Counter("closed_observed_"+eng+"_"+cause) == 0 {
				fmt.Printf("BROKEN: no case observed the module closed for engine=%s cause=%s\n", eng, cause)
				broken = true
			}
		}
		if c.Counter("watchdog_control_returned_"+eng) == 0 {
			fmt.Printf("BROKEN: the watchdog control never returned for engine=%s\n", eng)
			broken = true
		}
	}
	code := c.Finish(d.evals, int64(c.DistinctN("decided_points")),
		"enumeration of cycle shapes (loop back edges, nested loops, block out-and-back, call/call_indirect recursion, return_call/return_call_indirect cycles, cycles through host functions, cross-module cycles, start functions; thorough adds all rings of length<=3 over the edge kinds) x engine x cause (cancel, deadline, close from another goroutine, close inline; plus context flavours with user-supplied causes / derived contexts on a subset of shapes) x moment; evaluation = one case whose call returned (or was stopped by the harness) and was judged; distinct = distinct (shape@entry, engine, cause, moment) points in which the monitor saw the cause take effect (module observed closed by tick, call stopped at entry, or watchdog control returned)")
	if code == 0 && broken {
		return 2
	}
	return code
}

// ---------------------------------------------------------------------------

type pending struct {
	base    string          // signature
	group   string          // family:engine
	points  map[string]bool // cause@moment points that violate
	detail  string
	witness any
}

type decider struct {
	c      *core.Ctx
	evals  int64
	pend   map[string]*pending
	order  []string
	tested map[string]map[string]bool // group -> cause@moment points judged
}

func newDecider(c *core.Ctx) *decider {
	return &decider{c: c, pend: map[string]*pending{}, tested: map[string]map[string]bool{}}
}

// violate records a violation; the signature names the root-cause family and the
// engine, the detail lists at which (cause, moment) points of that family it occurs.
func (d *decider) violate(base, group, point, detail string, witness any) {
	p := d.pend[base]
	if p == nil {
		p = &pending{base: base, group: group, points: map[string]bool{}, detail: detail, witness: witness}
		d.pend[base] = p
		d.order = append(d.order, base)
	}
	p.points[point] = true
	d.c.Count("violating_cases", 1)
}

func (d *decider) judged(group, point string) {
	m := d.tested[group]
	if m == nil {
		m = map[string]bool{}
		d.tested[group] = m
	}
	m[point] = true
}

func (d *decider) emit() {
	split := func(m map[string]bool) (shapes, points []string) {
		ss, ps := map[string]bool{}, map[string]bool{}
		for k := range m {
			i := strings.LastIndexByte(k, '|')
			ss[k[:i]] = true
			ps[k[i+1:]] = true
		}
		for k := range ss {
			shapes = append(shapes, k)
		}
		for k := range ps {
			points = append(points, k)
		}
		sort.Strings(shapes)
		sort.Strings(points)
		return
	}
	summary := map[string]any{}
	for _, b := range d.order {
		p := d.pend[b]
		good := map[string]bool{}
		for pt := range d.tested[p.group] {
			if !p.points[pt] {
				good[pt] = true
			}
		}
		bs, bp := split(p.points)
		gs, gp := split(good)
		detail := p.detail + fmt.Sprintf(" | %d violating cases: shapes %v at cause@moment %v; %d cases of the same family and engine do not violate: shapes %v at %v",
			len(p.points), bs, bp, len(good), gs, gp)
		sig := p.base
		if strings.Contains(sig, "module-not-closed-after-ctx-done") || strings.HasPrefix(sig, "guest-entered-with-done-context") {
			// the watcher / entry check is per entered function: name the entry kinds when only some are affected
			be, ge := entryTokens(bs), entryTokens(gs)
			only := false
			for _, e := range ge {
				if !contains(be, e) {
					only = true
				}
			}
			if only {
				sig += ":entry=" + strings.Join(be, ",")
			}
		}
		p.base = sig
		w := map[string]any{"first": p.witness, "violating_shapes": bs, "violating_points": bp, "passing_shapes": gs, "passing_points": gp}
		d.c.Violate(p.base, detail, w)
		summary[p.base] = map[string]any{"violating_cases": len(p.points), "violating_shapes": bs, "violating_cause@moment": bp,
			"passing_cases_same_family_and_engine": len(good)}
	}
	// also for signatures that are listed as known findings (which Violate only counts)
	d.c.Extra("violations_by_signature", summary)
}

// entryTokens: the entry kinds (how the host-called function reaches the cycle) of a list of shape labels.
func entryTokens(labels []string) []string {
	set := map[string]bool{}
	for _, l := range labels {
		if i := strings.LastIndexByte(l, '+'); strings.HasPrefix(l, "conc[") && i >= 0 {
			l = l[i+1:]
		}
		switch i := strings.LastIndexByte(l, '@'); {
		case i >= 0:
			set[l[i+1:]] = true
		case strings.HasSuffix(l, "-entry"):
			set[l] = true
		default:
			set["export"] = true
		}
	}
	var out []string
	for k := range set {
		out = append(out, k)
	}
	sort.Strings(out)
	return out
}

func contains(l []string, s string) bool {
	for _, x := range l {
		if x == s {
			return true
		}
	}
	return false
}

func witnessOf(tc tcase, res any) map[string]any {
	w := map[string]any{"case": tc, "result": res, "replay": "./check C07 quick --replay <this file>"}
	if prog, err := build(tc.caseSpec); err == nil {
		var mods []map[string]string
		for _, mb := range prog.Mods {
			mods = append(mods, map[string]string{"name": mb.Name, "hex": hex.EncodeToString(mb.Bin), "wat": wdis.Module(mb.Bin)})
		}
		w["modules"] = mods
	}
	return w
}

func momentBucket(k int) string {
	switch {
	case k < 0:
		return "before"
	case k <= 1:
		return fmt.Sprint(k)
	case k <= 7:
		return "2-7"
	case k <= 31:
		return "8-31"
	case k <= 100:
		return "32-100"
	}
	return "101-1000"
}

func afterBucket(n int64) string {
	switch {
	case n <= 3:
		return fmt.Sprint(n)
	case n <= 10:
		return "4-10"
	case n <= 1000:
		return "11-1000"
	case n <= 3000:
		return "1001-3000"
	}
	return ">3000"
}

func (d *decider) crash(tc tcase, mode string, cr *core.Crash) {
	c := d.c
	if cr.Kind == "timeout" {
		c.Inconclusive("child-watchdog:" + mode)
		return
	}
	fam := tc.Shape
	if prog, err := build(tc.caseSpec); err == nil {
		fam = prog.Family
	}
	c.Violate("crash:"+cr.Kind+":"+fam+":"+tc.Engine+":"+firstWords(cr.Detail, 5), cr.Detail,
		map[string]any{"case": tc, "mode": mode, "crash": cr})
}

func gotS(class string, code uint32) string {
	if class == "exit" {
		switch code {
		case 0xffffffff:
			return "exit(context-canceled)"
		case 0xefffffff:
			return "exit(deadline-exceeded)"
		}
		return "exit(other-code)"
	}
	return class
}

func firstWords(s string, n int) string {
	var out []string
	for _, w := range strings.Fields(strings.ReplaceAll(s, "\n", " ")) {
		if strings.HasPrefix(w, "0x") || strings.HasPrefix(w, "addr=") {
			continue
		}
		out = append(out, w)
		if len(out) >= n {
			break
		}
	}
	return strings.Join(out, "_")
}

func (d *decider) tickedResult(tc tcase, r core.CaseResult) {
	c := d.c
	if r.Crash != nil {
		d.crash(tc, "tick", r.Crash)
		return
	}
	var t tres
	if json.Unmarshal(r.Out, &t) != nil {
		c.Inconclusive("bad-child-output")
		return
	}
	if t.BuildErr != "" {
		c.Violate("guest-rejected:"+firstWords(t.BuildErr, 6), t.BuildErr, witnessOf(tc, t))
		return
	}
	if t.Skipped != "" {
		c.Count("skipped_inapplicable", 1)
		return
	}
	eng, cause := tc.Engine, tc.Cause
	group := t.Family + ":" + eng
	wit := func() any { return witnessOf(tc, t) }
	momentS := "before"
	if tc.Moment >= 0 {
		momentS = fmt.Sprint(tc.Moment)
	}
	callForm := "Call"
	if tc.WithStack {
		callForm = "CallWithStack"
		c.Count("entry_via_CallWithStack", 1)
	}
	point := fmt.Sprintf("%s|%s|%s|%s|%s", t.Label, eng, cause, momentS, callForm)
	pt := t.Label + "|" + cause + "@" + momentS

	if t.CloseSyncNo {
		d.violate("close-returned-but-IsClosed-false:"+eng, group, pt, "CloseWithExitCode returned but IsClosed() is false", wit())
	}
	if t.NeverClosed {
		if t.CtrlDone {
			sigp, grp := "", "ctx-close:"+eng
			if tc.Conc != nil {
				// only with other calls in flight on the same instance: its own root cause
				sigp, grp = "concurrent-calls:", "conc-ctx-close:"+eng
				group = grp
			}
			d.violate(sigp+"module-not-closed-after-ctx-done:"+cause+":"+eng, grp, pt,
				fmt.Sprintf("the harness' own watcher goroutine saw ctx.Done, but %v later the module of the in-flight call was still not closed (tick %d)", closedWatchdog, t.FiredAt), wit())
			d.judged(grp, pt)
			d.evals++
		} else {
			c.Inconclusive("closed-never-observed")
		}
		return
	}
	if tc.Conc != nil {
		c.Count("concurrent_cases_"+tc.Conc.Order+"_"+tc.Conc.Ctx, 1)
		for _, a := range t.AResults {
			c.Count("concurrent_finite_call_"+strings.SplitN(a, "/", 2)[0], 1)
		}
		if causeKind(cause) != "close" {
			d.judged("conc-ctx-close:"+eng, pt)
		}
	} else if causeKind(cause) != "close" {
		d.judged("ctx-close:"+eng, pt)
	}
	d.evals++
	d.judged(group, pt)
	c.Count("cases_"+eng, 1)
	c.Count("cases_cause_"+cause, 1)
	c.Count("cases_moment_"+momentBucket(tc.Moment), 1)
	c.Count("cases_class_"+t.Class, 1)
	c.Count("ticks_total", t.Ticks)
	c.Distinct("shapes", t.Label)
	c.Distinct("families", t.Family)
	if tc.HostPanics && t.HostCalls > 0 {
		c.Count("host_propagates_by_panic", 1)
	} else if t.HostCalls > 0 {
		c.Count("host_returns_normally", 1)
	}
	c.Count("nested_guest_calls", int64(t.HostCalls))
	if t.ClosedSeen {
		c.Count("closed_observed_"+eng+"_"+cause, 1)
		c.Count("after_closed_"+t.Class+"_"+afterBucket(t.After), 1)
		c.Distinct("decided_points", point)
		if t.Fired && t.FiredAt >= 0 && t.ClosedAt != t.FiredAt {
			c.Count("closed_seen_before_chosen_moment", 1)
		}
	} else if t.ErrClass == "exit" && t.Ticks <= int64(max(tc.Moment, 0)) {
		// stopped at call entry (before-moment) or closed between ticks by the deadline
		c.Count("stopped_without_a_closed_tick", 1)
		c.Count("closed_observed_"+eng+"_"+cause, 1)
		c.Distinct("decided_points", point)
	}
	if t.Reopened {
		d.violate("closed-flag-reverted:"+eng, group, pt, "IsClosed() was true and later false", wit())
	}

	// 0. a call that starts with an already-done context must not enter the guest at all
	if tc.Moment < 0 && causeKind(cause) != "close" {
		c.Count("done_context_at_call_entry_"+eng+"_"+callForm, 1)
		d.judged("done-ctx:"+eng, pt)
		if t.Ticks > 0 {
			d.violate("guest-entered-with-done-context:"+eng, "done-ctx:"+eng, pt,
				fmt.Sprintf("%s on %s via %s: the context (%s) was already done when the call started, yet the guest ran (%d ticks)", t.Label, eng, callForm, cause, t.Ticks), wit())
		}
	}
	// the harness' expectation follows ctx.Err(): Canceled -> ExitCodeContextCanceled, DeadlineExceeded -> ExitCodeDeadlineExceeded
	if t.CtxErr != "" {
		wantKind := map[string]string{"context canceled": "cancel", "context deadline exceeded": "deadline"}[t.CtxErr]
		if wantKind != causeKind(cause) {
			c.Inconclusive("ctx-err-does-not-match-flavour")
			return
		}
	}

	// 1. bounded progress after the close was observed
	switch t.Class {
	case "loop", "tail":
		if (t.Capped && (t.After > t.Cap || t.HostAfter > t.Cap)) || t.After > int64(t.TPI+1) || t.HostAfter > int64(t.TPI+1) {
			d.violate("no-exit-check:"+t.Family+":"+eng, group, pt,
				fmt.Sprintf("%s on %s: %d ticks (%d host-function rounds) after the tick that observed IsClosed()==true (ticks per iteration %d, bound %d); harness stopped the guest=%v; cause=%s moment=%s",
					t.Label, eng, t.After, t.HostAfter, t.TPI, t.TPI+1, t.Capped, cause, momentS), wit())
		}
	case "recursion":
		if t.Capped && (t.After > t.Cap || t.HostAfter > t.Cap) {
			d.violate("no-exit-check:"+t.Family+":"+eng, group, pt,
				fmt.Sprintf("%s on %s: %d further ticks after close without exit error or stack overflow (the cycle does not grow a stack and has no exit check); cause=%s moment=%s", t.Label, eng, t.After, cause, momentS), wit())
		}
	case "hostrec":
		// positive evidence only: the guest made more than Cap further ticks / host entries after closed was observed
		if t.Capped && (t.After > t.Cap || t.HostAfter > t.Cap) {
			d.violate("no-closed-check-at-nested-call-entry:"+t.Family+":"+eng, group, pt,
				fmt.Sprintf("%s on %s: guest->host->guest recursion continued %d levels after the module was observed closed: api.Function.Call on the closed module keeps entering the guest; cause=%s moment=%s", t.Label, eng, t.After, cause, momentS), wit())
		}
	}
	if len(t.HostBad) > 0 {
		d.violate("nested-guest-call-after-close:"+strings.SplitN(t.HostBad[0], "/", 2)[0]+":"+eng, group, pt,
			fmt.Sprintf("%s on %s: a guest call made by a host function after the module was observed closed returned %v (want exit error %#x)", t.Label, eng, t.HostBad, t.WantCode), wit())
	}
	if t.Capped {
		if t.After <= t.Cap && t.HostAfter <= t.Cap {
			// stopped by a safety net without evidence that the guest went on after the close: no verdict
			c.Inconclusive("harness-stopped-guest-without-evidence")
		}
		return // the guest was stopped by the harness: its error is the harness' own
	}
	// 2. the returned error
	okErr := t.ErrClass == "exit" && t.ErrCode == t.WantCode
	if !okErr && (t.Class == "recursion" || t.Class == "hostrec") && t.ErrClass == "stack-overflow" {
		okErr = true
		c.Count("recursion_ended_in_stack_overflow", 1)
	}
	if !t.ClosedSeen && !t.Fired && t.ErrClass == "stack-overflow" && (t.Class == "recursion" || t.Class == "hostrec") {
		c.Count("recursion_overflowed_before_the_moment", 1)
		return
	}
	if okErr && t.ErrClass == "exit" {
		c.Count("returned_exit_error_"+cause, 1)
	}
	if !okErr {
		got := gotS(t.ErrClass, t.ErrCode)
		d.violate("wrong-result:"+eng+":"+cause+":got="+got, group, pt,
			fmt.Sprintf("%s on %s cause=%s moment=%s: call returned %s %q, want *sys.ExitError code %#x", t.Label, eng, cause, momentS, got, t.ErrText, t.WantCode), wit())
		return
	}
	// 3. closed afterwards, later calls fail
	if !t.ClosedAfter {
		d.violate("module-not-closed-after-return:"+cause+":"+eng, group, pt, fmt.Sprintf("%s: IsClosed()==false after the call returned %s", t.Label, t.ErrClass), wit())
	}
	switch t.LaterClass {
	case "no-module":
	case "exit":
		if t.LaterCode != t.WantCode {
			d.violate(fmt.Sprintf("later-call-wrong-exit-code:%s", eng), group, pt,
				fmt.Sprintf("%s: a later call failed with exit code %#x, want %#x", t.Label, t.LaterCode, t.WantCode), wit())
		} else {
			c.Count("later_call_failed_with_exit_error", 1)
		}
	default:
		d.violate("later-call-not-exit-error:"+eng+":got="+t.LaterClass, group, pt,
			fmt.Sprintf("%s: a call after the module was closed returned %s", t.Label, t.LaterClass), wit())
	}
	if r.Index%211 == 0 {
		c.Sample(map[string]any{"case": tc, "ticks": t.Ticks, "closed_at_tick": t.ClosedAt, "ticks_after_closed": t.After, "err": t.ErrClass, "code": t.ErrCode})
	}
}

func (d *decider) watchdogResult(tc tcase, r core.CaseResult) {
	c := d.c
	if r.Crash != nil {
		d.crash(tc, "wd", r.Crash)
		return
	}
	var w wres
	if json.Unmarshal(r.Out, &w) != nil {
		c.Inconclusive("bad-child-output")
		return
	}
	if w.BuildErr != "" {
		c.Violate("guest-rejected:"+firstWords(w.BuildErr, 6), w.BuildErr, witnessOf(tc, w))
		return
	}
	if w.Skipped != "" {
		c.Count("skipped_inapplicable", 1)
		return
	}
	eng, cause := tc.Engine, tc.Cause
	group := "wd:" + w.Family + ":" + eng
	momentS := "in-flight"
	if tc.Moment < 0 {
		momentS = "before"
	}
	pt := w.Label + "|" + cause + "@" + momentS
	if !w.ControlReturned {
		c.Inconclusive("watchdog-control-did-not-return")
		return
	}
	c.Count("watchdog_control_returned_"+eng, 1)
	if w.ControlClass != "exit" || w.ControlCode != w.WantCode {
		d.violate(fmt.Sprintf("wrong-result:%s:%s:got=%s", eng, cause, gotS(w.ControlClass, w.ControlCode)), "wd:loop:"+eng, pt,
			fmt.Sprintf("watchdog control (plain loop) returned %s code %#x, want exit %#x", w.ControlClass, w.ControlCode, w.WantCode), witnessOf(tc, w))
	}
	d.evals++
	d.judged(group, pt)
	c.Count("watchdog_cases", 1)
	c.Distinct("shapes_tickless", w.Label)
	c.Distinct("decided_points", fmt.Sprintf("tickless:%s|%s|%s|%s", w.Label, eng, cause, momentS))
	if !w.SubjectReturned && w.BudgetNotReached {
		c.Inconclusive("watchdog-cpu-budget-not-reached")
		return
	}
	if !w.SubjectReturned {
		c.Count("watchdog_hangs", 1)
		d.violate("hang:"+w.Family+":"+eng, group, pt,
			fmt.Sprintf("tick-less %s on %s: the control (plain loop, same runtime, same %s) returned, the subject was still running after the process had burnt %v more CPU time (%d ms measured)", w.Label, eng, cause, hangCPU, w.CPUms), witnessOf(tc, w))
		return
	}
	c.Count("watchdog_subject_returned", 1)
	ok := w.SubjectClass == "exit" && w.SubjectCode == w.WantCode
	if !ok && w.Class == "recursion" && w.SubjectClass == "stack-overflow" {
		// a tick-less recursion ends by itself, possibly before the cause arrives: nothing more can be asked
		c.Count("recursion_ended_in_stack_overflow", 1)
		c.Count("watchdog_recursion_overflowed_(cause_may_not_have_arrived)", 1)
		return
	}
	if !ok {
		d.violate(fmt.Sprintf("wrong-result:%s:%s:got=%s", eng, cause, gotS(w.SubjectClass, w.SubjectCode)), group, pt,
			fmt.Sprintf("tick-less %s on %s cause=%s moment=%s: returned %s code %#x %q, want exit %#x", w.Label, eng, cause, momentS, w.SubjectClass, w.SubjectCode, w.SubjectErr, w.WantCode), witnessOf(tc, w))
		return
	}
	if !w.SubjectClosed {
		d.violate("module-not-closed-after-return:"+cause+":"+eng, group, pt, fmt.Sprintf("tick-less %s: IsClosed()==false after return", w.Label), witnessOf(tc, w))
	}
}

// replay re-runs the case of a witness file in this process and prints what the monitor saw.
func replay(c *core.Ctx, path string) int {
	b, err := os.ReadFile(path)
	if err != nil {
		fmt.Println(err)
		return 2
	}
	var w struct {
		Witness struct {
			Case  *tcase `json:"case"`
			First struct {
				Case *tcase `json:"case"`
			} `json:"first"`
		} `json:"witness"`
		Case *tcase `json:"case"`
	}
	if err := json.Unmarshal(b, &w); err != nil {
		fmt.Println(err)
		return 2
	}
	var tc tcase
	switch {
	case w.Case != nil:
		tc = *w.Case
	case w.Witness.Case != nil:
		tc = *w.Witness.Case
	case w.Witness.First.Case != nil:
		tc = *w.Witness.First.Case
	default:
		fmt.Println("no case in", path)
		return 2
	}
	prog, err := build(tc.caseSpec)
	if err != nil {
		fmt.Println(err)
		return 2
	}
	for _, mb := range prog.Mods {
		fmt.Printf(";; module %s\n%s\n", mb.Name, wdis.Module(mb.Bin))
	}
	var out any
	if tc.Conc != nil {
		out = runConc(tc)
	} else if tc.Ticked {
		out = runTicked(tc, false)
	} else {
		out = runWatchdog(tc, false)
	}
	jb, _ := json.MarshalIndent(map[string]any{"case": tc, "result": out}, "", " ")
	fmt.Println(string(jb))
	os.Exit(0) // a hung guest goroutine must not keep the process
	return 0
}
