package c07

import (
	"fmt"
	"sort"
	"strings"

	"github.com/tetratelabs/wazero/verifharness/wenc"
)

// A program is one non-terminating guest: one or more modules (instantiated in
// order; the LAST one is the entry module) whose entry point runs a cycle in
// the control-flow / call graph. In the ticked form every cycle iteration calls
// the imported env.tick exactly TPI times.
type program struct {
	Mods   []modBin
	TPI    int    // ticks per cycle iteration
	Class  string // loop | tail | recursion | hostloop | hostrec
	Family string // root-cause family used in signatures
	Start  bool   // the cycle runs inside InstantiateModule of the entry module
}

type modBin struct {
	Name string
	Bin  []byte
}

// Classes:
//   loop      every iteration passes a loop header                 -> bound ticks-after-closed <= TPI+1
//   tail      cycle of proper tail calls (no stack growth)         -> same bound
//   recursion cycle through call / call_indirect (stack grows)     -> must end with exit error or stack overflow
//   hostloop  the host loops over guest calls                      -> every guest call after close must fail
//   hostrec   guest -> host -> guest recursion (Go stack grows)    -> see driver

// ring is a cycle of n functions F0..Fn-1; Fi ticks once and transfers to
// F(i+1 mod n) with Edges[i], inside the structure Wraps[i].
type ring struct {
	Edges []string `json:"edges"` // call | call_indirect | return_call | return_call_indirect | bounce
	Wraps []string `json:"wraps"` // "" | block | if | loophdr
	// Params > 0: every function takes that many i64 parameters and passes them on
	// (the compiler falls back to a plain call when arguments go on the stack).
	Params int `json:"params,omitempty"`
}

var edgeKinds = []string{"call", "call_indirect", "return_call", "return_call_indirect", "bounce"}
var wrapKinds = []string{"", "block", "if", "loophdr"}

func (r ring) String() string {
	var sb strings.Builder
	for i, e := range r.Edges {
		if i > 0 {
			sb.WriteByte(',')
		}
		w := ""
		if i < len(r.Wraps) && r.Wraps[i] != "" {
			w = r.Wraps[i] + ":"
		}
		sb.WriteString(w + e)
	}
	if r.Params > 0 {
		fmt.Fprintf(&sb, "/p%d", r.Params)
	}
	return sb.String()
}

func (r ring) wrap(i int) string {
	if i < len(r.Wraps) {
		return r.Wraps[i]
	}
	return ""
}

func (r ring) classify() (class, family string) {
	allTail, hasHdr := true, false
	kinds := map[string]bool{}
	for i, e := range r.Edges {
		kinds[e] = true
		if e != "return_call" && e != "return_call_indirect" {
			allTail = false
		}
		if r.wrap(i) == "loophdr" {
			hasHdr = true
		}
	}
	var ks []string
	for k := range kinds {
		ks = append(ks, k)
	}
	sort.Strings(ks)
	fam := strings.Join(ks, "+") + "-cycle"
	if kinds["bounce"] {
		// the cycle re-enters the guest through a host function: every round nests a new
		// api.Function.Call (Go stack grows; the engines' own call-stack ceilings do not apply)
		return "hostrec", "guest-host-recursion"
	}
	if r.Params > 0 {
		// may legitimately be lowered to a plain call (stack arguments)
		return "recursion", fam
	}
	switch {
	case allTail && !hasHdr:
		return "tail", fam
	case allTail && hasHdr:
		return "loop", "loop-header+" + fam
	}
	return "recursion", fam
}

// gb builds one guest module.
type gb struct {
	m      *wenc.Module
	ticked bool
	tick   uint32
	// host imports (always present in single-module guests)
	hostloop, hostcb, bounce, hop, await uint32
	t0                                   uint32
}

func newGB(ticked, hostImports bool) *gb {
	g := &gb{m: &wenc.Module{}, ticked: ticked}
	if ticked {
		g.tick = g.m.ImportFunc("env", "tick", nil, nil)
	}
	if hostImports {
		g.hostloop = g.m.ImportFunc("env", "hostloop", nil, nil)
		g.hostcb = g.m.ImportFunc("env", "hostcb", nil, nil)
		g.bounce = g.m.ImportFunc("env", "bounce", nil, nil)
		g.hop = g.m.ImportFunc("env", "hop", nil, nil)
		g.await = g.m.ImportFunc("env", "await", nil, nil)
	}
	g.t0 = g.m.AddType(nil, nil)
	return g
}

func (g *gb) next() uint32 { return g.m.NumImportedFuncs() + uint32(len(g.m.Funcs)) }

// T emits the tick call (nothing in the tick-less form).
func (g *gb) T(c *wenc.Code) *wenc.Code {
	if g.ticked {
		c.Call(g.tick)
	}
	return c
}

func (g *gb) fn(c *wenc.Code) uint32 { return g.m.AddFunc(nil, nil, nil, c.End().B) }

func (g *gb) table(funcs ...uint32) {
	n := uint32(len(funcs))
	g.m.Tables = []wenc.TableType{{Elem: wenc.FuncRef, Lim: wenc.Limits{Min: n, Max: n, HasMax: true}}}
	g.m.Elems = []wenc.Elem{{Mode: 0, Offset: wenc.ConstI32(0), FuncIdx: funcs}}
}

// entryTable adds a further funcref table holding funcs and returns its index.
func (g *gb) entryTable(funcs ...uint32) uint32 {
	n := uint32(len(funcs))
	idx := uint32(len(g.m.Tables))
	g.m.Tables = append(g.m.Tables, wenc.TableType{Elem: wenc.FuncRef, Lim: wenc.Limits{Min: n, Max: n, HasMax: true}})
	g.m.Elems = append(g.m.Elems, wenc.Elem{Mode: 0, TableIdx: idx, Offset: wenc.ConstI32(0), FuncIdx: funcs})
	return idx
}

const bt = 0x40 // empty block type

// loopShapes: name -> builder returning the index of the function that runs the cycle, and ticks per iteration.
type loopShape struct {
	Name  string
	TPI   int
	Build func(g *gb) uint32
}

var loopShapes = []loopShape{
	{"loop-br", 1, func(g *gb) uint32 {
		c := &wenc.Code{}
		c.Loop(bt)
		g.T(c).Br(0).End()
		return g.fn(c)
	}},
	{"loop-br_if", 1, func(g *gb) uint32 {
		c := &wenc.Code{}
		c.Loop(bt)
		g.T(c).I32Const(1).BrIf(0).End()
		return g.fn(c)
	}},
	{"loop-br_table", 1, func(g *gb) uint32 {
		// block; loop; tick; br_table [exit, loop] exit  with index 1
		c := &wenc.Code{}
		c.Block(bt).Loop(bt)
		g.T(c).I32Const(1).BrTable([]uint32{1, 0}, 1).End().End()
		return g.fn(c)
	}},
	{"nested-inner-backedge", 1, func(g *gb) uint32 {
		// only the inner back edge is ever taken; the outer one exists but is never reached
		c := &wenc.Code{}
		c.Loop(bt).Loop(bt)
		g.T(c).I32Const(1).BrIf(0).End().Br(0).End()
		return g.fn(c)
	}},
	{"nested-outer-backedge", 1, func(g *gb) uint32 {
		// the inner back edge is never taken, the outer one always
		c := &wenc.Code{}
		c.Loop(bt).Loop(bt)
		g.T(c).I32Const(0).BrIf(0).End().Br(0).End()
		return g.fn(c)
	}},
	{"loop-block-out-and-back", 1, func(g *gb) uint32 {
		c := &wenc.Code{}
		c.Loop(bt).Block(bt)
		g.T(c).Br(0).End().Br(0).End()
		return g.fn(c)
	}},
	{"loop-if-backedge", 1, func(g *gb) uint32 {
		c := &wenc.Code{}
		c.Loop(bt)
		g.T(c).I32Const(1).If(bt).Br(1).End().End()
		return g.fn(c)
	}},
	{"loop-two-ticks", 2, func(g *gb) uint32 {
		c := &wenc.Code{}
		c.Loop(bt)
		g.T(c)
		g.T(c).Br(0).End()
		return g.fn(c)
	}},
	{"loop-calls-function", 1, func(g *gb) uint32 {
		callee := g.fn(g.T(&wenc.Code{}))
		c := &wenc.Code{}
		c.Loop(bt).Call(callee).Br(0).End()
		return g.fn(c)
	}},
	{"loop-with-param", 1, func(g *gb) uint32 {
		// i32.const 0; loop (param i32) (result i32); tick; i32.const 1; i32.add; br 0; end; drop
		ti := g.m.AddType([]wenc.ValType{wenc.I32}, []wenc.ValType{wenc.I32})
		c := &wenc.Code{}
		c.I32Const(0).BlockT(0x03, ti)
		g.T(c).I32Const(1).Op(0x6a).Br(0).End().Drop()
		return g.fn(c)
	}},
	{"loop-through-host", 1, func(g *gb) uint32 {
		// the guest loops; every iteration goes guest -> host bounce -> guest step (ticks) -> back
		step := g.fn(g.T(&wenc.Code{}))
		g.m.ExportFunc("step", step)
		c := &wenc.Code{}
		c.Loop(bt).Call(g.bounce).Br(0).End()
		return g.fn(c)
	}},
}

func findLoopShape(name string) *loopShape {
	for i := range loopShapes {
		if loopShapes[i].Name == name {
			return &loopShapes[i]
		}
	}
	return nil
}

// named rings (the static part of the enumeration)
var namedRings = []struct {
	Name string
	R    ring
}{
	{"self-recursion", ring{Edges: []string{"call"}}},
	{"mutual-recursion-2", ring{Edges: []string{"call", "call"}}},
	{"call_indirect-self", ring{Edges: []string{"call_indirect"}}},
	{"call_indirect-mutual-2", ring{Edges: []string{"call_indirect", "call_indirect"}}},
	{"return_call-self", ring{Edges: []string{"return_call"}}},
	{"return_call-mutual-2", ring{Edges: []string{"return_call", "return_call"}}},
	{"return_call-mutual-3", ring{Edges: []string{"return_call", "return_call", "return_call"}}},
	{"return_call_indirect-self", ring{Edges: []string{"return_call_indirect"}}},
	{"return_call_indirect-mutual-2", ring{Edges: []string{"return_call_indirect", "return_call_indirect"}}},
	{"return_call+return_call_indirect", ring{Edges: []string{"return_call", "return_call_indirect"}}},
	{"return_call-self-stack-args", ring{Edges: []string{"return_call"}, Params: 14}},
	{"return_call-with-loop-header", ring{Edges: []string{"return_call", "return_call"}, Wraps: []string{"", "loophdr"}}},
	{"call+return_call", ring{Edges: []string{"call", "return_call"}}},
}

func findRing(name string) *ring {
	for i := range namedRings {
		if namedRings[i].Name == name {
			return &namedRings[i].R
		}
	}
	return nil
}

// buildRing adds the ring's functions to g and returns F0.
func buildRing(g *gb, r ring) uint32 {
	n := len(r.Edges)
	base := g.next()
	var params []wenc.ValType
	for i := 0; i < r.Params; i++ {
		params = append(params, wenc.I64)
	}
	ti := g.m.AddType(params, nil)
	needTable := false
	for i := 0; i < n; i++ {
		nxt := base + uint32((i+1)%n)
		c := &wenc.Code{}
		switch r.wrap(i) {
		case "block":
			c.Block(bt)
		case "if":
			c.I32Const(1).If(bt)
		case "loophdr":
			c.Loop(bt)
		}
		g.T(c)
		for p := 0; p < r.Params; p++ {
			c.LocalGet(uint32(p))
		}
		switch r.Edges[i] {
		case "call":
			c.Call(nxt)
		case "return_call":
			c.ReturnCall(nxt)
		case "call_indirect":
			needTable = true
			c.I32Const(int32((i+1)%n)).CallIndirect(ti, 0)
		case "return_call_indirect":
			needTable = true
			c.I32Const(int32((i+1)%n)).ReturnCallIndirect(ti, 0)
		case "bounce":
			// host calls the export "step" (= the next function); only with Params == 0
			c.Call(g.bounce)
			g.m.ExportFunc("step", nxt)
		}
		if r.wrap(i) != "" {
			c.End()
		}
		g.m.AddFunc(params, nil, nil, c.End().B)
	}
	if needTable {
		fs := make([]uint32, n)
		for i := range fs {
			fs[i] = base + uint32(i)
		}
		g.table(fs...)
	}
	if r.Params > 0 {
		// wrapper () -> () that pushes the arguments
		c := &wenc.Code{}
		for p := 0; p < r.Params; p++ {
			c.I64Const(int64(p))
		}
		c.Call(base)
		return g.fn(c)
	}
	return base
}

// caseSpec is the part of a case that determines the guest.
type caseSpec struct {
	Shape  string `json:"shape"`          // loop shape name | named ring | "ring" | host/xmod shape
	Ring   *ring  `json:"ring,omitempty"` // for Shape == "ring"
	Entry  string `json:"entry"`          // export | start | _start | hostcb | return_call-entry | call-entry
	Ticked bool   `json:"ticked"`
}

var entryKinds = []string{"export", "start", "_start", "hostcb", "return_call-entry", "call-entry", "call_indirect-entry", "call_indirect-chain-entry"}

func (cs caseSpec) label() string {
	s := cs.Shape
	if cs.Shape == "ring" && cs.Ring != nil {
		s = "ring[" + cs.Ring.String() + "]"
	}
	if cs.Entry != "" && cs.Entry != "export" {
		s += "@" + cs.Entry
	}
	return s
}

// build constructs the guest for a case spec.
func build(cs caseSpec) (*program, error) {
	switch cs.Shape {
	case "hostloop":
		// run: call hostloop ; the HOST loops over step.Call ; step ticks once
		g := newGB(cs.Ticked, true)
		step := g.fn(g.T(&wenc.Code{}))
		g.m.ExportFunc("step", step)
		run := g.fn((&wenc.Code{}).Call(g.hostloop))
		g.m.ExportFunc("run", run)
		g.m.ExportFunc("nop", g.fn(&wenc.Code{}))
		return &program{Mods: []modBin{{"guest", g.m.Encode()}}, TPI: 1, Class: "hostloop", Family: "host-loop"}, nil
	case "host-recursion":
		// run: tick; call hop ; hop (host) calls run again
		g := newGB(cs.Ticked, true)
		c := &wenc.Code{}
		g.T(c).Call(g.hop)
		run := g.fn(c)
		g.m.ExportFunc("run", run)
		g.m.ExportFunc("nop", g.fn(&wenc.Code{}))
		return &program{Mods: []modBin{{"guest", g.m.Encode()}}, TPI: 1, Class: "hostrec", Family: "guest-host-recursion"}, nil
	case "xmod-loop-1", "xmod-loop-2":
		// lib exports spin (a ticking loop) [and mid, which calls spin]; guest.run calls the import
		lb := newGB(cs.Ticked, false)
		c := &wenc.Code{}
		c.Loop(bt)
		lb.T(c).Br(0).End()
		spin := lb.fn(c)
		lb.m.ExportFunc("spin", spin)
		mid := lb.fn((&wenc.Code{}).Call(spin))
		lb.m.ExportFunc("mid", mid)
		target := "spin"
		if cs.Shape == "xmod-loop-2" {
			target = "mid"
		}
		g := &wenc.Module{}
		imp := g.ImportFunc("lib", target, nil, nil)
		g.ExportFunc("run", g.AddFunc(nil, nil, nil, (&wenc.Code{}).Call(imp).End().B))
		g.ExportFunc("nop", g.AddFunc(nil, nil, nil, (&wenc.Code{}).End().B))
		fam := "imported-function-loop"
		if cs.Shape == "xmod-loop-2" {
			fam = "imported-module-inner-call-loop"
		}
		return &program{Mods: []modBin{{"lib", lb.m.Encode()}, {"guest", g.Encode()}}, TPI: 1, Class: "loop", Family: fam}, nil
	case "xmod-call_indirect-entry":
		// lib exports spin (a ticking loop); guest imports it, puts the IMPORTED function in its table and
		// its exported run is straight-line: i32.const 0; call_indirect
		lb := newGB(cs.Ticked, false)
		c := &wenc.Code{}
		c.Loop(bt)
		lb.T(c).Br(0).End()
		lb.m.ExportFunc("spin", lb.fn(c))
		g := &wenc.Module{}
		imp := g.ImportFunc("lib", "spin", nil, nil)
		t0 := g.AddType(nil, nil)
		g.Tables = []wenc.TableType{{Elem: wenc.FuncRef, Lim: wenc.Limits{Min: 1, Max: 1, HasMax: true}}}
		g.Elems = []wenc.Elem{{Mode: 0, Offset: wenc.ConstI32(0), FuncIdx: []uint32{imp}}}
		g.ExportFunc("run", g.AddFunc(nil, nil, nil, (&wenc.Code{}).I32Const(0).CallIndirect(t0, 0).End().B))
		g.ExportFunc("nop", g.AddFunc(nil, nil, nil, (&wenc.Code{}).End().B))
		return &program{Mods: []modBin{{"lib", lb.m.Encode()}, {"guest", g.Encode()}}, TPI: 1, Class: "loop", Family: "imported-function-loop-via-table"}, nil
	case "xmod-return_call-cycle":
		// lib: table t (1 slot), g: tick; return_call_indirect t[0]
		// guest: imports lib.t, lib.g; elem t[0] = f; f: tick; return_call lib.g ; run = f
		lb := newGB(cs.Ticked, false)
		lb.m.Tables = []wenc.TableType{{Elem: wenc.FuncRef, Lim: wenc.Limits{Min: 1, Max: 1, HasMax: true}}}
		lb.m.Exports = append(lb.m.Exports, wenc.Export{Name: "t", Kind: wenc.ExtTable, Idx: 0})
		c := &wenc.Code{}
		lb.T(c).I32Const(0).ReturnCallIndirect(lb.t0, 0)
		lb.m.ExportFunc("g", lb.fn(c))
		g := &wenc.Module{}
		var tick uint32
		if cs.Ticked {
			tick = g.ImportFunc("env", "tick", nil, nil)
		}
		libg := g.ImportFunc("lib", "g", nil, nil)
		g.Imports = append(g.Imports, wenc.Import{Module: "lib", Name: "t", Kind: wenc.ExtTable,
			Table: wenc.TableType{Elem: wenc.FuncRef, Lim: wenc.Limits{Min: 1, Max: 1, HasMax: true}}})
		fc := &wenc.Code{}
		if cs.Ticked {
			fc.Call(tick)
		}
		fc.ReturnCall(libg)
		f := g.AddFunc(nil, nil, nil, fc.End().B)
		g.Elems = []wenc.Elem{{Mode: 0, Offset: wenc.ConstI32(0), FuncIdx: []uint32{f}}}
		g.ExportFunc("run", f)
		g.ExportFunc("nop", g.AddFunc(nil, nil, nil, (&wenc.Code{}).End().B))
		// engines may lower a cross-module tail call as a plain call: recursion class
		return &program{Mods: []modBin{{"lib", lb.m.Encode()}, {"guest", g.Encode()}}, TPI: 2, Class: "recursion", Family: "cross-module-return_call-cycle"}, nil
	}

	g := newGB(cs.Ticked, true)
	p := &program{}
	var head uint32
	if ls := findLoopShape(cs.Shape); ls != nil {
		head = ls.Build(g)
		p.TPI, p.Class, p.Family = ls.TPI, "loop", "loop"
		if ls.Name == "loop-through-host" {
			p.Family = "loop-through-host"
		}
	} else {
		r := cs.Ring
		if cs.Shape != "ring" {
			r = findRing(cs.Shape)
		}
		if r == nil || len(r.Edges) == 0 {
			return nil, fmt.Errorf("unknown shape %q", cs.Shape)
		}
		head = buildRing(g, *r)
		p.TPI = len(r.Edges)
		p.Class, p.Family = r.classify()
	}
	switch cs.Entry {
	case "", "export":
		g.m.ExportFunc("run", head)
	case "start":
		h := head
		g.m.Start = &h
		p.Start = true
	case "_start":
		g.m.ExportFunc("_start", head)
		p.Start = true
	case "hostcb":
		g.m.ExportFunc("inner", head)
		g.m.ExportFunc("run", g.fn((&wenc.Code{}).Call(g.hostcb)))
	case "return_call-entry":
		g.m.ExportFunc("run", g.fn((&wenc.Code{}).ReturnCall(head)))
	case "call-entry":
		g.m.ExportFunc("run", g.fn((&wenc.Code{}).Call(head)))
	case "call_indirect-entry":
		// the exported function is straight-line: no loop, no tail call, no direct call; it reaches the
		// cycle only through call_indirect via a table of its own
		t := g.entryTable(head)
		g.m.ExportFunc("run", g.fn((&wenc.Code{}).I32Const(0).CallIndirect(g.t0, t)))
	case "call_indirect-chain-entry":
		// two such trampolines in a row: run -call_indirect-> tramp -call_indirect-> cycle
		tramp := g.next()
		t := g.entryTable(head, tramp)
		g.fn((&wenc.Code{}).I32Const(0).CallIndirect(g.t0, t))
		g.m.ExportFunc("run", g.fn((&wenc.Code{}).I32Const(1).CallIndirect(g.t0, t)))
	default:
		return nil, fmt.Errorf("unknown entry %q", cs.Entry)
	}
	g.m.ExportFunc("nop", g.fn(&wenc.Code{}))
	// finite calls for the concurrent-calls family: park in the host until released, then return / trap
	g.m.ExportFunc("a_ret", g.fn((&wenc.Code{}).Call(g.await)))
	g.m.ExportFunc("a_trap", g.fn((&wenc.Code{}).Call(g.await).Unreachable()))
	p.Mods = []modBin{{"guest", g.m.Encode()}}
	return p, nil
}

// controlBin is the control of the differential watchdog: a plain `loop` with
// a `br` back edge, the one shape wazero's own tests show to be interruptible.
func controlBin() []byte {
	m := &wenc.Module{}
	c := &wenc.Code{}
	c.Loop(bt).Br(0).End()
	m.ExportFunc("run", m.AddFunc(nil, nil, nil, c.End().B))
	return m.Encode()
}
