// Package c06 decides C06 (traps, exits and host panics are contained and leave
// the runtime usable): PRNG histories of succeeding and failing calls over 1-3
// templated guest instances, judged step by step against a Go-side model of the
// instances (counter global, memory cells, one table slot, closed?) on both
// engines, in supervised child processes.
package c06

import (
	"encoding/json"
	"fmt"
	"os"
	"regexp"
	"strings"

	"github.com/tetratelabs/wazero/verifharness/core"
)

var Prop = &core.Prop{ID: "C06", Run: run, Child: child, Replay: replay}

type histCase struct {
	Seed uint64 `json:"seed"`
	N    int    `json:"n"`                     // operations after the initial instantiations
	Inst int    `json:"inst"`                  // 1..3 instances
	SO   int    `json:"so"`                    // stack-overflow budget of this history
	ET   bool   `json:"close_on_context_done"` // runtimes built WithCloseOnContextDone(true)
}

type histResult struct {
	Findings []finding      `json:"findings,omitempty"`
	Ops      map[string]int `json:"ops"`
	Fails    map[string]int `json:"fails"`   // "kind|depth" -> injected
	Triples  []string       `json:"triples"` // kind|depth|position
	Outcomes map[string]int `json:"outcomes"`
	Ctx      map[string]int `json:"ctx"`
	ET       bool           `json:"et"`
	Forms    map[string]int `json:"forms"` // host function | call form -> calls monitored
	Probes   int            `json:"probes"`
	PFProbes int            `json:"pf_probes"`
	Calls    int            `json:"calls"`
	Engines  int            `json:"engines"`
	Inconcl  []string       `json:"inconcl,omitempty"`
	Sample   []string       `json:"sample,omitempty"`
	History  []*op          `json:"history,omitempty"`
}

func genCases(rng *core.Rng, n int, soNum int) []json.RawMessage {
	var cases []json.RawMessage
	for i := 0; i < n; i++ {
		hc := histCase{Seed: rng.U64(), N: 5 + rng.Intn(36), Inst: 1 + rng.Intn(3), ET: rng.Bool()}
		// stack overflows dominate the cost: bounded share of the histories
		switch w := rng.Intn(100); {
		case w < soNum/8:
			hc.SO = 2
		case w < soNum:
			hc.SO = 1
		}
		cases = append(cases, core.J(hc))
	}
	return cases
}

var reLastOp = regexp.MustCompile(`C06-OP (\S+) (\d+) (\S+)`)

func run(c *core.Ctx) int {
	n := c.N(3000, 80000)
	nRace := c.N(120, 2500)
	rng := core.NewRng(c.Seed, 6)
	cases := genCases(rng, n, 40)
	raceCases := genCases(rng, nRace, 16)
	env := []string{"GOMEMLIMIT=1GiB"}
	res := core.RunCases(c, "hist", cases, core.ChildOpts{Batch: 20, TimeoutS: 900, Env: env})
	var raceRes []core.CaseResult
	if bin := os.Getenv("VCHECK_RACE_BIN"); bin != "" {
		raceRes = core.RunCases(c, "hist", raceCases, core.ChildOpts{Bin: bin, Batch: 10, TimeoutS: 1200,
			Env: append(env, "GORACE=halt_on_error=0 exitcode=0")})
	} else {
		c.Inconclusive("race-binary-missing")
	}
	evals := int64(0)
	kindCounts := map[string]int64{}
	handle := func(cases []json.RawMessage, rs []core.CaseResult, flavour string) {
		for _, r := range rs {
			if r.Crash != nil {
				switch r.Crash.Kind {
				case "timeout":
					c.Inconclusive("watchdog")
					continue
				case "race":
					logb, _ := os.ReadFile(r.Crash.Log)
					for key, rep := range core.RaceReports(logb) {
						c.Violate("race:"+strings.ReplaceAll(key, "github.com/tetratelabs/wazero", "wazero"), rep,
							map[string]any{"case": cases[r.Index], "flavour": flavour})
					}
				default:
					// the process died: attribute to the journaled history and the last operation started
					last := "?"
					if logb, err := os.ReadFile(r.Crash.Log); err == nil {
						if ms := reLastOp.FindAllSubmatch(logb, -1); len(ms) > 0 {
							m := ms[len(ms)-1]
							last = string(m[1]) + ":" + string(m[3])
						}
					}
					var hc histCase
					json.Unmarshal(cases[r.Index], &hc)
					c.Violate("process-died:"+r.Crash.Kind+":"+last+":"+crashWords(r.Crash.Detail), r.Crash.Detail,
						map[string]any{"case": cases[r.Index], "flavour": flavour, "crash": r.Crash, "history": descs(genHistory(hc))})
					continue
				}
			}
			var hr histResult
			if r.Out == nil || json.Unmarshal(r.Out, &hr) != nil {
				c.Inconclusive("bad-child-output")
				continue
			}
			evals++
			for _, k := range hr.Inconcl {
				c.Inconclusive(k)
			}
			c.Count("histories_"+flavour, 1)
			c.Count("calls", int64(hr.Calls))
			c.Count("state_probes", int64(hr.Probes))
			c.Count("post_failure_probes", int64(hr.PFProbes))
			for k, v := range hr.Ops {
				c.Count("op_"+k, int64(v))
			}
			for k, v := range hr.Outcomes {
				c.Count("outcome_"+k, int64(v))
				c.Distinct("outcome_classes", k)
			}
			if hr.ET {
				c.Count("histories_with_close_on_context_done", 1)
			}
			for k, v := range hr.Ctx {
				c.Count("ops_under_context: "+k, int64(v))
			}
			for k, v := range hr.Forms {
				c.Count("host_module_checks", int64(v))
				c.Count("hostcall_"+k, int64(v))
			}
			for k, v := range hr.Fails {
				c.Count("failures_injected", int64(v))
				c.Distinct("failure_kind_x_depth", k)
				kd := strings.SplitN(k, "|", 2)
				c.Distinct("failure_kinds", kd[0])
				kindCounts[kd[0]] += int64(v)
				c.Count("failures_at_depth_"+kd[1], int64(v))
				fam := kd[0]
				if i := strings.IndexByte(fam, ':'); i > 0 {
					fam = fam[:i]
				}
				c.Count("failures_"+fam, int64(v))
			}
			for _, t := range hr.Triples {
				c.Distinct("kind_depth_position", t)
			}
			if len(hr.Sample) > 0 {
				c.Sample(map[string]any{"case": cases[r.Index], "flavour": flavour, "history": hr.Sample})
			}
			for _, f := range hr.Findings {
				c.Violate(f.Sig, f.Detail, map[string]any{"case": cases[r.Index], "flavour": flavour, "finding": f, "history": hr.History})
			}
		}
	}
	handle(cases, res, "plain")
	handle(raceCases, raceRes, "race")
	// every failure family must have been injected, at depth 0 and nested
	for _, fam := range []string{"trap", "stack-overflow", "guest-calls-host-panic", "host-panic", "exit", "host-exit", "host-panic-after-reentry", "shared-atomic-oob", "shared-atomic-unaligned", "table-lookup"} {
		if c.Counter("failures_"+fam) == 0 {
			c.Inconclusive("failure-family-never-injected:" + fam)
		}
	}
	for _, fn := range []string{"observe", "host_panic", "host_exit"} {
		for _, form := range []string{"call-in-own-function", "call_indirect-in-own-function", "call-in-imported-function", "call_indirect-in-imported-function"} {
			if c.Counter("hostcall_"+fn+"|"+form) == 0 {
				c.Inconclusive("host-call-form-never-run:" + fn + ":" + form)
			}
		}
	}
	if c.Counter("histories_with_close_on_context_done") == 0 {
		c.Inconclusive("no-history-with-close-on-context-done")
	}
	for _, n := range ctxNames {
		if c.Counter("ops_under_context: "+n) == 0 {
			c.Inconclusive("context-flavour-never-used")
		}
	}
	if c.Counter("op_start") == 0 {
		c.Inconclusive("start-function-failures-never-run")
	}
	c.Extra("failures_by_depth", kindDepthTable(c))
	c.Extra("failures_by_kind", kindCounts)
	for _, tk := range trapKinds {
		if kindCounts["trap:"+tk.Name] == 0 {
			c.Inconclusive("trap-kind-never-injected:" + tk.Name)
		}
	}
	for _, ak := range sharedAtomicKinds {
		if kindCounts["shared-"+ak.name()] == 0 {
			c.Inconclusive("shared-memory-atomic-kind-never-injected:" + ak.name())
		}
	}
	for _, hp := range hostPanics {
		if kindCounts["host-panic:"+hp.Name] == 0 || kindCounts["guest-calls-host-panic:"+hp.Name] == 0 {
			c.Inconclusive("host-panic-kind-never-injected:" + hp.Name)
		}
	}
	c.Assume("after an exit (proc_exit or CloseWithExitCode+panic) the instance is expected closed: only 'calls return *sys.ExitError with the same code' is demanded of it; a host panic(sys.NewExitError) without Close leaves it open")
	c.Assume("nothing is injected into frames of an instance after it exited, and no call is made into a closed instance through an import")
	c.Assume("WASI proc_exit cannot be instrumented: which module it acted on is judged by the closed-ness probes of every instance")
	c.Assume("a probe that does not return within 2x20s is a hang only if the same probe on a fresh runtime of the same engine returned within 20s (control); otherwise inconclusive; an operation that does not return within 100s is inconclusive")
	c.Assume("half of the histories run on runtimes built WithCloseOnContextDone(true); every operation's calls get a fresh context that becomes done (cancel / 30ms deadline) only after the top-level call returned, which must have no effect; if a deadline is found passed right after the call returned the rest of the history is inconclusive")
	c.Assume("an exit is a bare *sys.ExitError (type assertion); a host panic whose error only wraps one (fmt.Errorf %w, Unwrap type, errors.Join) or claims to be one (Is/As methods) is a host panic: the returned error must not be a bare ExitError and must reach the panic value through errors.As; a bare sys.NewExitError panicked by the host without Close is returned bare and leaves the module open (pinned behaviour)")
	c.Assume("stack overflow is recognised as errors.Is(err, ErrRuntimeStackOverflow) (the compiler returns it without the 'wasm error:' prefix)")
	return c.Finish(evals, int64(c.DistinctN("kind_depth_position")),
		"PRNG histories (5-40 operations over 1-3 instances, B<-A linked by a function import, C independent) run on interpreter and compiler against a Go model; every operation's outcome (result or error class), every error observed by re-entrant host functions at nesting depth 1-6, the api.Module handed to every host function (by name and memory marker, for direct and call_indirect calls from own and from imported functions), and the state of every instance after every failing operation (counter, memory, table, closed?, host view, and a value-neutral run of every atomic instruction on the instance's memory and on a shared memory from the same api.Function, a fresh one and the other instance sharing it) are compared with the model, and the two engines' transcripts with each other; evaluations = histories decided; distinct = distinct (failure kind, nesting depth, position in history) triples injected")
}

func kindDepthTable(c *core.Ctx) map[string]int64 {
	out := map[string]int64{}
	for d := 0; d <= maxDepth+1; d++ {
		k := fmt.Sprintf("failures_at_depth_%d", d)
		if v := c.Counter(k); v > 0 {
			out[fmt.Sprintf("depth_%d", d)] = v
		}
	}
	return out
}

func crashWords(s string) string {
	s = strings.ReplaceAll(s, "\n", " ")
	var out []string
	for _, w := range strings.Fields(s) {
		if strings.HasPrefix(w, "0x") || strings.HasPrefix(w, "addr=") {
			continue
		}
		out = append(out, w)
		if len(out) >= 6 {
			break
		}
	}
	return strings.Join(out, "_")
}

func descs(ops []*op) []string {
	out := make([]string, len(ops))
	for i, o := range ops {
		out[i] = fmt.Sprintf("%d %s => %s", i, o.desc(), o.WantClass)
	}
	return out
}

var histCount int

func child(mode string, in json.RawMessage) any {
	var hc histCase
	json.Unmarshal(in, &hc)
	return runCase(hc, false)
}

func runCase(hc histCase, verbose bool) *histResult {
	ops := genHistory(hc)
	hr := &histResult{Ops: map[string]int{}, Fails: map[string]int{}, Outcomes: map[string]int{}, Forms: map[string]int{}, Ctx: map[string]int{}, ET: hc.ET}
	for i, o := range ops {
		hr.Ops[o.Kind]++
		if oc := normClass(o.WantClass); strings.HasPrefix(oc, "panic:wrap") {
			hr.Outcomes["panic:error-wrapping-a-nested-failure-or-exit"]++
		} else {
			hr.Outcomes[oc]++
		}
		for _, f := range o.Fails {
			hr.Fails[fmt.Sprintf("%s|%d", f.Kind, f.Depth)]++
			hr.Triples = append(hr.Triples, fmt.Sprintf("%s|%d|%d", f.Kind, f.Depth, i))
		}
		hr.Calls += 1 + len(o.Steps)
		hr.Ctx[ctxNames[o.Ctx]]++
		for _, ev := range o.WantMods {
			hr.Forms[ev.Fn+"|"+ev.Form]++
		}
	}
	pr := core.NewRng(int64(hc.Seed), 66)
	sel := map[int]bool{}
	for i := range ops {
		if pr.Chance(1, 4) {
			sel[i] = true
		}
	}
	var runs []*runner
	for _, e := range getEngines(hc.ET) {
		r := runHistory(e, ops, func(i int) bool { return sel[i] }, !verbose)
		runs = append(runs, r)
		hr.Findings = append(hr.Findings, r.findings...)
		hr.Inconcl = append(hr.Inconcl, r.inconcl...)
		hr.Probes += r.probes
		hr.PFProbes += r.pfProbes
		hr.Engines++
		if verbose {
			fmt.Printf("---- %s\n", e.name)
			for i, l := range r.trans {
				fmt.Printf("  %-60s || %s\n", trunc(ops[i].desc(), 200)+" => "+ops[i].WantClass, l)
			}
		}
	}
	if len(runs) == 2 {
		a, b := runs[0], runs[1]
		// an operation at which one engine already deviates from the model is not compared again
		limit := len(ops)
		for _, r := range runs {
			for _, f := range r.findings {
				if f.OpIdx < limit {
					limit = f.OpIdx
				}
			}
		}
		for i := 0; i < len(a.trans) && i < len(b.trans) && i < limit; i++ {
			if a.trans[i] != b.trans[i] {
				o := ops[i]
				part := "state"
				if strings.SplitN(a.trans[i], " | ", 2)[0] != strings.SplitN(b.trans[i], " | ", 2)[0] {
					part = "outcome"
				}
				hr.Findings = append(hr.Findings, finding{
					Sig:    fmt.Sprintf("engines-differ:%s/%s:%s:%s", o.Kind, failLabel(o), where(o), part),
					Detail: fmt.Sprintf("op %d %s\ninterpreter: %s\ncompiler:    %s", i, o.desc(), a.trans[i], b.trans[i]),
					Engine: "both", OpIdx: i})
				break
			}
		}
	}
	if len(hr.Findings) > 0 {
		hr.History = ops
	}
	histCount++
	if histCount%500 == 1 {
		hr.Sample = descs(ops)
		if len(hr.Sample) > 16 {
			hr.Sample = hr.Sample[:16]
		}
	}
	return hr
}

// replay re-runs the history of a witness file verbosely on both engines.
func replay(c *core.Ctx, path string) int {
	b, err := os.ReadFile(path)
	if err != nil {
		fmt.Println(err)
		return 2
	}
	var w struct {
		Witness struct {
			Case histCase `json:"case"`
		} `json:"witness"`
	}
	if err := json.Unmarshal(b, &w); err != nil {
		fmt.Println(err)
		return 2
	}
	hr := runCase(w.Witness.Case, true)
	for _, f := range hr.Findings {
		fmt.Printf("FINDING %s\n  %s\n", f.Sig, f.Detail)
	}
	if len(hr.Findings) > 0 {
		return 1
	}
	return 0
}
