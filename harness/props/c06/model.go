package c06

import (
	"fmt"
	"strings"

	"github.com/tetratelabs/wazero/verifharness/core"
)

// ---------------------------------------------------------------------------
// Operations of a history

const (
	slotB = 0 // named "peer"; exports nest, imported by slot A
	slotA = 1 // imports peer.nest (linked to B), exports via_peer
	slotC = 2 // independent
	nSlot = 3

	maxDepth = 6 // guest->host transitions in one nest chain
	nLevels  = maxDepth + 2
)

var probeAddrs = []uint32{0, 8, 16, 24, 32, 40, 48, 56, lastCell}

type leafSpec struct {
	Kind   string `json:"kind"`             // ok | inc | trap | rec | ghp | gexit | obs | hp | hexit
	Which  int    `json:"which,omitempty"`  // strap: 0 = owner of the shared memory, 1 = its importer
	Ind    bool   `json:"ind,omitempty"`    // ghp/gexit/obs: the guest reaches the host function through call_indirect
	ViaImp bool   `json:"viaimp,omitempty"` // ghp/gexit/obs: target is A, which calls B's export through its wasm import
	Target int    `json:"target"`
	TrapK  int    `json:"trapk,omitempty"`
	RecK   int    `json:"reck,omitempty"`
	RecD   uint32 `json:"recd,omitempty"`
	RecA   uint64 `json:"reca,omitempty"`
	HK     int    `json:"hk,omitempty"`
	Code   uint32 `json:"code,omitempty"`
	How    int    `json:"how,omitempty"` // gexit: 0 wasi proc_exit, 1 host close+panic, 2 host raw panic(ExitError); hexit: 1 or 2
	Addr   uint32 `json:"addr,omitempty"`
	Val    uint64 `json:"val,omitempty"`
}

type step struct {
	Leaf   *leafSpec `json:"leaf,omitempty"` // last step only
	Target int       `json:"target"`         // instance re-entered by the host (non-leaf steps)
	Via    bool      `json:"via,omitempty"`  // re-enter A.via_peer (A -> B.nest by a wasm import) instead of nest
	Catch  bool      `json:"catch,omitempty"`
	Wrap   int       `json:"wrap,omitempty"` // how a propagated failure is made into the panic value (wrapNone..wrapJoin)
	ThenHP int       `json:"thenhp"`         // >=0: after the nested call (ok or caught) the host panics with this kind
	Dir    int       `json:"dir"`            // >=0: the host returns a directive making the calling guest frame trap with this kind
}

type op struct {
	Kind   string `json:"op"`              // inc store tset tcall trap rec ghp gexit nest start reinst close
	Which  int    `json:"which,omitempty"` // sinc/strap: 0 = owner of the shared memory, 1 = its importer
	Slot   int    `json:"slot"`
	K      int    `json:"k,omitempty"`
	D      uint32 `json:"d,omitempty"`
	A      uint64 `json:"a,omitempty"`
	Code   uint32 `json:"code,omitempty"`
	How    int    `json:"how,omitempty"`
	Addr   uint32 `json:"addr,omitempty"`
	Val    uint64 `json:"val,omitempty"`
	Via    bool   `json:"via,omitempty"`    // nest: top-level call is A.via_peer
	Ind    bool   `json:"ind,omitempty"`    // ghp/gexit/obs: host function reached through call_indirect
	ViaImp bool   `json:"viaimp,omitempty"` // ghp/gexit/obs on A: A calls B's export through its wasm import
	Small  bool   `json:"small,omitempty"`  // reinst: compile+instantiate in one step (code closed with the module)
	Cfg    bool   `json:"cfgstart,omitempty"`
	Stack  bool   `json:"callwithstack,omitempty"` // every guest call of this op goes through CallWithStack
	Ctx    int    `json:"ctx,omitempty"`           // context flavour of the calls (see ctxNames)
	Steps  []step `json:"steps,omitempty"`

	// filled by the model
	WantClass string      `json:"want"`
	WantRes   []uint64    `json:"want_res,omitempty"`
	WantHost  []string    `json:"want_host,omitempty"` // what the host function at each level must observe from its nested call
	After     [nSlot]snap `json:"-"`
	AfterShm  uint64      `json:"-"`                   // counter in the shared memory after the op
	Fails     []failRec   `json:"fails,omitempty"`     // failures injected by this op (kind, nesting depth)
	WantMods  []modEvt    `json:"want_mods,omitempty"` // which instance every instrumented host function must be handed, in call order
}

// modEvt: one call of a host function that takes an api.Module parameter.
type modEvt struct {
	Slot int    `json:"slot"` // instance whose function performs the call (-1: the module being instantiated)
	Fn   string `json:"fn"`
	Form string `json:"form"`
}

type failRec struct {
	Kind  string `json:"kind"`
	Depth int    `json:"depth"` // 0 = directly in the top-level call, n = below n guest->host transitions
}

type snap struct {
	Present bool
	Closed  bool
	Code    uint32
	G0      uint64
	Cells   [9]uint64
	TSlot   int
}

func (o *op) desc() string {
	var sb strings.Builder
	fmt.Fprintf(&sb, "%s[%d]", o.Kind, o.Slot)
	if o.Stack {
		sb.WriteString("(CallWithStack)")
	}
	if o.Ctx != ctxBackground {
		fmt.Fprintf(&sb, "(ctx%d)", o.Ctx)
	}
	switch o.Kind {
	case "store":
		fmt.Fprintf(&sb, "(%d,%#x)", o.Addr, o.Val)
	case "tset":
		fmt.Fprintf(&sb, "(%d)", o.K)
	case "trap":
		fmt.Fprintf(&sb, "(%s)", trapKinds[o.K].Name)
	case "rec":
		fmt.Fprintf(&sb, "(frame%d,depth=%d)", o.K, o.D)
	case "ghp":
		fmt.Fprintf(&sb, "(%s%s)", hostPanics[o.K].Name, formSuffix(o.Ind, o.ViaImp))
	case "gexit":
		fmt.Fprintf(&sb, "(code=%d,how=%d%s)", o.Code, o.How, formSuffix(o.Ind, o.ViaImp))
	case "obs":
		fmt.Fprintf(&sb, "(%d%s)", o.K, formSuffix(o.Ind, o.ViaImp))
	case "tlk":
		fmt.Fprintf(&sb, "(table[%d])", int32(tlkOffsets[o.K]))
	case "sinc":
		fmt.Fprintf(&sb, "(%s)", shmNames[o.Which])
	case "strap":
		fmt.Fprintf(&sb, "(%s,%s)", shmNames[o.Which], sharedAtomicKinds[o.K].name())
	case "nest", "start":
		if o.Via {
			sb.WriteString("via_peer")
		}
		if o.Kind == "start" && o.Cfg {
			sb.WriteString("cfg")
		}
		for i, s := range o.Steps {
			sb.WriteString(" >")
			if s.Leaf != nil {
				l := s.Leaf
				fmt.Fprintf(&sb, "%s", l.Kind)
				switch l.Kind {
				case "trap":
					fmt.Fprintf(&sb, ":%s@%d", trapKinds[l.TrapK].Name, l.Target)
				case "rec":
					fmt.Fprintf(&sb, ":frame%d,d=%d@%d", l.RecK, l.RecD, l.Target)
				case "ghp":
					fmt.Fprintf(&sb, ":%s%s@%d", hostPanics[l.HK].Name, formSuffix(l.Ind, l.ViaImp), l.Target)
				case "obs":
					fmt.Fprintf(&sb, ":%d%s@%d", l.HK, formSuffix(l.Ind, l.ViaImp), l.Target)
				case "tlk":
					fmt.Fprintf(&sb, ":table[%d]@%d", int32(tlkOffsets[l.TrapK]), l.Target)
				case "hp":
					fmt.Fprintf(&sb, ":%s", hostPanics[l.HK].Name)
				case "gexit":
					fmt.Fprintf(&sb, ":%d,how=%d%s@%d", l.Code, l.How, formSuffix(l.Ind, l.ViaImp), l.Target)
				case "hexit":
					fmt.Fprintf(&sb, ":%d,how=%d", l.Code, l.How)
				case "inc":
					fmt.Fprintf(&sb, "@%d", l.Target)
				case "strap":
					fmt.Fprintf(&sb, ":%s@%s", sharedAtomicKinds[l.TrapK].name(), shmNames[l.Which])
				}
			} else if s.Via {
				fmt.Fprintf(&sb, "via_peer@%d", s.Target)
			} else {
				fmt.Fprintf(&sb, "nest@%d", s.Target)
			}
			if s.Catch {
				sb.WriteString("/catch")
			} else if s.Wrap != wrapNone {
				fmt.Fprintf(&sb, "/wrap%d", s.Wrap)
			}
			if s.ThenHP >= 0 {
				fmt.Fprintf(&sb, "/thenpanic:%s", hostPanics[s.ThenHP].Name)
			}
			if s.Dir >= 0 {
				fmt.Fprintf(&sb, "/dirtrap:%s", trapKinds[s.Dir].Name)
			}
			_ = i
		}
	}
	return sb.String()
}

func formSuffix(ind, viaImp bool) string {
	s := ""
	if ind {
		s += ",call_indirect"
	}
	if viaImp {
		s += ",via-import"
	}
	return s
}

// ---------------------------------------------------------------------------
// Model

type minst struct {
	present bool
	closed  bool
	code    uint32
	g0      uint64
	cells   map[uint32]uint64
	tslot   int
	peerOK  bool // slot A: the B it was linked with is still open
	small   bool
	slot    int
}

func newMinst(slot int) *minst { return &minst{present: true, cells: map[uint32]uint64{}, slot: slot} }

func (in *minst) snap() snap {
	s := snap{Present: in.present, Closed: in.closed, Code: in.code, G0: in.g0, TSlot: in.tslot}
	for i, a := range probeAddrs {
		s.Cells[i] = in.cells[a]
	}
	return s
}

var (
	shmNames          = [2]string{"shm", "shs"}
	sharedAtomicKinds = atomicKinds(true)
)

type model struct {
	inst   [nSlot]*minst
	shm    uint64 // the counter at address 0 of the shared memory
	viaImp bool   // the code being simulated was entered through A's wasm import of B
}

// hostCall records that code of instance in calls an instrumented host function.
func (m *model) hostCall(o *op, in *minst, fn string, ind bool) {
	form := "call"
	if ind {
		form = "call_indirect"
	}
	if m.viaImp {
		form += "-in-imported-function"
	} else {
		form += "-in-own-function"
	}
	o.WantMods = append(o.WantMods, modEvt{Slot: in.slot, Fn: fn, Form: form})
}

// vp simulates one of A's wrappers that call an export of B through the wasm import.
func (m *model) vp(a *minst, body func(b *minst) *merr) *merr {
	a.g0++
	old := m.viaImp
	m.viaImp = true
	e := body(m.inst[slotB])
	m.viaImp = old
	if e != nil {
		return e
	}
	a.g0 += postVia
	return nil
}

type merr struct{ class string }

func exitClass(code uint32) string { return fmt.Sprintf("exit:%d", code) }

func (m *model) closeInst(in *minst, code uint32) {
	if !in.closed { // the first exit code wins
		in.closed, in.code = true, code
		if in == m.inst[slotB] && m.inst[slotA] != nil {
			m.inst[slotA].peerOK = false
		}
	}
}

// boundary is the rule at every api.Function.Call: a propagating failure is
// returned as is; otherwise a module closed by now yields its exit error.
func boundary(in *minst, e *merr) *merr {
	if e == nil && in.closed {
		return &merr{exitClass(in.code)}
	}
	return e
}

func (m *model) doTrap(o *op, depth int, in *minst, k int, addr uint32, val uint64) *merr {
	in.g0++
	in.cells[addr] = val
	o.Fails = append(o.Fails, failRec{"trap:" + trapKinds[k].Name, depth})
	return &merr{"trap:" + trapKinds[k].Class}
}

// doShTrap: atrap of the shared-memory pair: atomic counter+1, then the failing atomic access.
func (m *model) doShTrap(o *op, depth int, k int) *merr {
	m.shm++
	ak := sharedAtomicKinds[k]
	o.Fails = append(o.Fails, failRec{"shared-" + ak.name(), depth})
	return &merr{"trap:" + ak.class()}
}

func (m *model) doRec(o *op, depth int, in *minst, k int, d uint32, a uint64, addr uint32, val uint64) (uint64, *merr) {
	in.g0++
	in.cells[addr] = val
	if d == recInf {
		o.Fails = append(o.Fails, failRec{fmt.Sprintf("stack-overflow:frame%d", k), depth})
		return 0, &merr{"stack overflow"}
	}
	in.g0 += postRec
	return recModel(k, d, a, in.small), nil
}

// tlkOffsets: table offsets the host function looks up: the state slot, the
// always-null slot, the slot of another function type, offset == size, size+1, max.
var tlkOffsets = []uint32{0, 1, 2, tableSize, tableSize + 1, 0xffffffff}

// doTlk: guest -> host -> experimental/table.LookupFunction(table 0, off) -> guest.
func (m *model) doTlk(o *op, depth int, in *minst, k int, addr uint32, val uint64) (uint64, *merr) {
	in.g0++
	in.cells[addr] = val
	m.hostCall(o, in, "tlookup", false)
	off := tlkOffsets[k]
	class := ""
	switch {
	case off >= tableSize, off == 1, off == 0 && in.tslot == 0:
		class = "trap:invalid table access"
	case off == 2, off == 0 && in.tslot == 3:
		class = "trap:indirect call type mismatch"
	}
	if class != "" {
		o.Fails = append(o.Fails, failRec{fmt.Sprintf("table-lookup:offset-%d:%s", int32(off), class[5:]), depth + 1})
		return 0, &merr{class}
	}
	in.g0 += postTlk
	return uint64(11 * in.tslot), nil
}

func (m *model) doObs(o *op, in *minst, tag uint32, ind bool) uint64 {
	in.g0++
	m.hostCall(o, in, "observe", ind)
	return uint64(tag + obsAdd)
}

func (m *model) doGhp(o *op, depth int, in *minst, hk int, addr uint32, val uint64, ind bool) *merr {
	in.g0++
	in.cells[addr] = val
	m.hostCall(o, in, "host_panic", ind)
	o.Fails = append(o.Fails, failRec{"guest-calls-host-panic:" + hostPanics[hk].Name, depth + 1})
	return &merr{hostPanics[hk].Class}
}

var exitHow = []string{"wasi-proc_exit", "host-close+panic", "host-panic-only"}

func (m *model) doGexit(o *op, depth int, in *minst, code uint32, how int, addr uint32, val uint64, ind bool) *merr {
	in.g0++
	in.cells[addr] = val
	if how != 0 { // WASI's proc_exit is not instrumented; the closed-ness probes judge it
		m.hostCall(o, in, "host_exit", ind)
	}
	o.Fails = append(o.Fails, failRec{"exit:" + exitHow[how], depth + 1})
	if how != 2 {
		m.closeInst(in, code)
	}
	return &merr{exitClass(code)}
}

func (m *model) simNest(o *op, in *minst, level int) (uint64, *merr) {
	in.g0++
	in.cells[48] = in.g0
	r, e := m.simHop(o, in, level)
	if e != nil {
		return 0, e
	}
	in.cells[56] = r
	if r >= hopTrapDir {
		return 0, m.doTrap(o, level, in, int(r-hopTrapDir), 40, in.g0)
	}
	in.g0 += postNest
	return in.g0, nil
}

func (m *model) simVia(o *op, a *minst, level int) (uint64, *merr) {
	a.g0++
	old := m.viaImp
	m.viaImp = true
	r, e := m.simNest(o, m.inst[slotB], level)
	m.viaImp = old
	if e != nil {
		return 0, e
	}
	a.cells[32] = r
	a.g0 += postVia
	return a.g0, nil
}

func okClass(v uint64) string { return fmt.Sprintf("ok:%d", v) }

func (m *model) simHop(o *op, caller *minst, level int) (uint64, *merr) {
	m.hostCall(o, caller, "hop", false)
	// what the host function calls is entered through api.Function, not through an import
	defer func(old bool) { m.viaImp = old }(m.viaImp)
	m.viaImp = false
	s := &o.Steps[level]
	var e *merr
	var res uint64
	hasRes := false
	called := true
	if l := s.Leaf; l != nil {
		var t *minst
		if l.Kind != "ok" && l.Kind != "hp" && l.Kind != "hexit" && l.Kind != "strap" {
			t = m.inst[l.Target]
		}
		switch l.Kind {
		case "ok":
			called = false
		case "strap":
			e = m.doShTrap(o, level+1, l.TrapK)
		case "hp":
			o.Fails = append(o.Fails, failRec{"host-panic:" + hostPanics[l.HK].Name, level + 1})
			return 0, &merr{hostPanics[l.HK].Class}
		case "hexit":
			o.Fails = append(o.Fails, failRec{"host-exit:" + exitHow[l.How], level + 1})
			if l.How == 1 {
				m.closeInst(caller, l.Code)
			}
			return 0, &merr{exitClass(l.Code)}
		case "inc":
			t.g0++
			res, hasRes = t.g0, true
		case "trap":
			e = m.doTrap(o, level+1, t, l.TrapK, l.Addr, l.Val)
		case "rec":
			res, e = m.doRec(o, level+1, t, l.RecK, l.RecD, l.RecA, l.Addr, l.Val)
			hasRes = e == nil
		case "ghp":
			if l.ViaImp {
				e = m.vp(t, func(b *minst) *merr { return m.doGhp(o, level+1, b, l.HK, l.Addr, l.Val, l.Ind) })
			} else {
				e = m.doGhp(o, level+1, t, l.HK, l.Addr, l.Val, l.Ind)
			}
		case "gexit":
			if l.ViaImp {
				e = m.vp(t, func(b *minst) *merr { return m.doGexit(o, level+1, b, l.Code, l.How, l.Addr, l.Val, l.Ind) })
			} else {
				e = m.doGexit(o, level+1, t, l.Code, l.How, l.Addr, l.Val, l.Ind)
			}
		case "tlk":
			res, e = m.doTlk(o, level+1, t, l.TrapK, l.Addr, l.Val)
			hasRes = e == nil
		case "obs":
			if l.ViaImp {
				e = m.vp(t, func(b *minst) *merr { res = m.doObs(o, b, uint32(l.HK), l.Ind); return nil })
			} else {
				res = m.doObs(o, t, uint32(l.HK), l.Ind)
			}
			hasRes = true
		}
		if t != nil {
			e = boundary(t, e)
		}
	} else {
		t := m.inst[s.Target]
		if s.Via {
			res, e = m.simVia(o, t, level+1)
		} else {
			res, e = m.simNest(o, t, level+1)
		}
		hasRes = e == nil
		e = boundary(t, e)
	}
	if called {
		switch {
		case e != nil:
			o.WantHost[level] = e.class
		case hasRes:
			o.WantHost[level] = okClass(res)
		default:
			o.WantHost[level] = "ok"
		}
	}
	if e != nil && !s.Catch {
		if s.Wrap != wrapNone {
			o.Fails = append(o.Fails, failRec{fmt.Sprintf("host-panic-wrapping-nested-failure:wrap%d(%s)", s.Wrap, classFamily(e.class)), level + 1})
		}
		return 0, &merr{wrapClass(s.Wrap, e.class)}
	}
	if caller.closed {
		// What code of a closed instance does after its exit is not on the
		// documented surface: inject nothing more at this level.
		s.ThenHP, s.Dir = -1, -1
	}
	if s.ThenHP >= 0 {
		o.Fails = append(o.Fails, failRec{"host-panic-after-reentry:" + hostPanics[s.ThenHP].Name, level + 1})
		return 0, &merr{hostPanics[s.ThenHP].Class}
	}
	if s.Dir >= 0 {
		return uint64(hopTrapDir + s.Dir), nil
	}
	if e != nil {
		return uint64(hopCaught + level), nil
	}
	return uint64(hopOKBase + level), nil
}

const recInf = 0x7fffffff

// apply runs the model on o, filling the expectations.
func (m *model) apply(o *op) {
	in := m.inst[o.Slot]
	var e *merr
	o.WantRes = nil
	o.WantHost = nil
	o.Fails = nil
	o.WantMods = nil
	m.viaImp = false
	switch o.Kind {
	case "reinst":
		if in != nil && in.present && !in.closed {
			m.closeInst(in, 0)
		}
		n := newMinst(o.Slot)
		n.small = o.Small
		if o.Slot == slotA {
			n.peerOK = true
		}
		m.inst[o.Slot] = n
		o.WantClass = "ok"
	case "close":
		m.closeInst(in, o.Code)
		o.WantClass = "ok"
	case "sinc":
		m.shm++
		o.WantRes = []uint64{m.shm}
	case "strap":
		e = m.doShTrap(o, 0, o.K)
	case "start":
		o.WantHost = make([]string, len(o.Steps))
		n := newMinst(-1) // the module being instantiated; its state is never visible
		_, e = m.simNest(o, n, 0)
		e = boundary(n, e)
	default:
		if in.closed {
			// only inc/get are issued on closed instances
			o.WantClass = exitClass(in.code)
			break
		}
		switch o.Kind {
		case "inc":
			in.g0++
			o.WantRes = []uint64{in.g0}
		case "store":
			in.cells[o.Addr] = o.Val
		case "tset":
			in.tslot = o.K
		case "tcall":
			in.g0++
			switch in.tslot {
			case 0:
				e = &merr{"trap:invalid table access"}
				o.Fails = append(o.Fails, failRec{"trap:state-dependent-null-slot", 0})
			case 3:
				e = &merr{"trap:indirect call type mismatch"}
				o.Fails = append(o.Fails, failRec{"trap:state-dependent-type-mismatch", 0})
			default:
				in.g0 += 2
				o.WantRes = []uint64{uint64(11 * in.tslot)}
			}
		case "trap":
			e = m.doTrap(o, 0, in, o.K, o.Addr, o.Val)
		case "rec":
			var r uint64
			r, e = m.doRec(o, 0, in, o.K, o.D, o.A, o.Addr, o.Val)
			if e == nil {
				o.WantRes = []uint64{r}
			}
		case "ghp":
			if o.ViaImp {
				e = m.vp(in, func(b *minst) *merr { return m.doGhp(o, 0, b, o.K, o.Addr, o.Val, o.Ind) })
			} else {
				e = m.doGhp(o, 0, in, o.K, o.Addr, o.Val, o.Ind)
			}
		case "gexit":
			if o.ViaImp {
				e = m.vp(in, func(b *minst) *merr { return m.doGexit(o, 0, b, o.Code, o.How, o.Addr, o.Val, o.Ind) })
			} else {
				e = m.doGexit(o, 0, in, o.Code, o.How, o.Addr, o.Val, o.Ind)
			}
		case "tlk":
			var r uint64
			r, e = m.doTlk(o, 0, in, o.K, o.Addr, o.Val)
			if e == nil {
				o.WantRes = []uint64{r}
			}
		case "obs":
			var r uint64
			if o.ViaImp {
				e = m.vp(in, func(b *minst) *merr { r = m.doObs(o, b, uint32(o.K), o.Ind); return nil })
			} else {
				r = m.doObs(o, in, uint32(o.K), o.Ind)
			}
			o.WantRes = []uint64{r}
		case "nest":
			o.WantHost = make([]string, len(o.Steps))
			var r uint64
			if o.Via {
				r, e = m.simVia(o, in, 0)
			} else {
				r, e = m.simNest(o, in, 0)
			}
			if e == nil {
				o.WantRes = []uint64{r}
			}
		}
		e = boundary(in, e)
	}
	if o.WantClass == "" {
		if e != nil {
			o.WantClass = e.class
			o.WantRes = nil
		} else {
			o.WantClass = "ok"
		}
	}
	for i, in := range m.inst {
		if in != nil {
			o.After[i] = in.snap()
		}
	}
	o.AfterShm = m.shm
}

// ---------------------------------------------------------------------------
// Generator (model in the loop: operations are chosen for the modelled state)

var exitCodes = []uint32{0, 1, 2, 3, 42, 127, 255, 256, 65535, 0x7fffffff, 0x80000000, 0xfffffffe}

type gen struct {
	r      *core.Rng
	m      *model
	soLeft int
	nInst  int
}

func (g *gen) openSlots() []int {
	var out []int
	for i, in := range g.m.inst {
		if in != nil && in.present && !in.closed {
			out = append(out, i)
		}
	}
	return out
}

func (g *gen) pick(s []int) int { return s[g.r.Intn(len(s))] }

func (g *gen) code(nonzero bool) uint32 {
	for {
		c := exitCodes[g.r.Intn(len(exitCodes))]
		if g.r.Chance(1, 4) {
			c = g.r.U32() & 0x7fffffff
		}
		if !nonzero || c != 0 {
			return c
		}
	}
}

func (g *gen) addrVal() (uint32, uint64) {
	return uint32(8 * g.r.Intn(4)), g.r.I64()
}

// trapKind: half of the injected traps are the hand-written kinds, half the
// generated atomic out-of-bounds / unaligned kinds.
func (g *gen) trapKind() int {
	if g.r.Bool() {
		return g.r.Intn(nBaseTraps)
	}
	return nBaseTraps + g.r.Intn(len(trapKinds)-nBaseTraps)
}

func (g *gen) recDepth() uint32 {
	return []uint32{0, 1, 2, 3, 10, 64, 100, 400, 900, 1200}[g.r.Intn(10)]
}

func (g *gen) leaf(open []int, start bool) *leafSpec {
	r := g.r
	l := &leafSpec{}
	if len(open) == 0 {
		// only host-side leaves are possible
		switch r.Intn(4) {
		case 3:
			l.Kind, l.Which, l.TrapK = "strap", r.Intn(2), r.Intn(len(sharedAtomicKinds))
		case 0:
			l.Kind = "ok"
		case 1:
			l.Kind, l.HK = "hp", r.Intn(len(hostPanics))
		default:
			l.Kind, l.Code, l.How = "hexit", g.code(start), 1+r.Intn(2)
		}
		return l
	}
	l.Target = g.pick(open)
	l.Addr, l.Val = g.addrVal()
	switch w := r.Intn(100); {
	case w < 30:
		l.Kind, l.TrapK = "trap", g.trapKind()
	case w < 34:
		l.Kind, l.TrapK = "tlk", r.Intn(len(tlkOffsets))
	case w < 44:
		l.Kind, l.HK = "hp", r.Intn(len(hostPanics))
	case w < 54:
		l.Kind, l.HK = "ghp", r.Intn(len(hostPanics))
		g.form(l.Target, &l.Ind, &l.ViaImp)
	case w < 56:
		l.Kind, l.HK = "obs", r.Intn(1000)
		g.form(l.Target, &l.Ind, &l.ViaImp)
	case w < 64:
		l.Kind, l.RecK, l.RecD, l.RecA = "rec", r.Intn(4), g.recDepth(), r.I64()
	case w < 72:
		if g.soLeft > 0 {
			g.soLeft--
			l.Kind, l.RecK, l.RecD, l.RecA = "rec", r.Intn(4), recInf, r.I64()
		} else {
			l.Kind, l.TrapK = "trap", g.trapKind()
		}
	case w < 79:
		l.Kind, l.Code, l.How = "gexit", g.code(start), r.Intn(3)
		g.form(l.Target, &l.Ind, &l.ViaImp)
	case w < 83:
		l.Kind, l.Code, l.How = "hexit", g.code(start), 1+r.Intn(2)
	case w < 87:
		l.Kind, l.Which, l.TrapK = "strap", r.Intn(2), r.Intn(len(sharedAtomicKinds))
	case w < 93:
		l.Kind = "ok"
	default:
		l.Kind = "inc"
	}
	return l
}

func (g *gen) steps(open []int, start bool) []step {
	r := g.r
	d := 1 + r.Intn(maxDepth)
	if r.Chance(1, 3) {
		d = 1 + r.Intn(2)
	}
	if len(open) == 0 {
		d = 1
	}
	st := make([]step, d)
	for i := range st {
		s := &st[i]
		s.ThenHP, s.Dir = -1, -1
		s.Catch = r.Chance(2, 5)
		if !s.Catch && r.Chance(2, 5) {
			s.Wrap = 1 + r.Intn(3)
		}
		if r.Chance(1, 14) {
			s.ThenHP = r.Intn(len(hostPanics))
		} else if r.Chance(1, 9) {
			s.Dir = g.trapKind()
		}
		if i == d-1 {
			s.Leaf = g.leaf(open, start)
			continue
		}
		s.Target = g.pick(open)
		if s.Target == slotA && g.viaOK() && r.Bool() {
			s.Via = true
		}
	}
	// Exit code 0 inside a start function only where no bare exit error can reach
	// the instantiation (what InstantiateModule does with a bare exit 0 differs
	// between the two start mechanisms and is not documented for the start section).
	if l := st[d-1].Leaf; start && d >= 2 && (st[0].Catch || st[0].Wrap != wrapNone) && (l.Kind == "gexit" || l.Kind == "hexit") && r.Chance(1, 2) {
		l.Code = 0
	}
	return st
}

// form chooses how the guest reaches the host function: directly or through
// call_indirect, from the instance's own export or (A only) from inside B's
// export called through A's wasm import.
func (g *gen) form(target int, ind, viaImp *bool) {
	*ind = g.r.Bool()
	*viaImp = target == slotA && g.viaOK() && g.r.Chance(2, 3)
}

func (g *gen) viaOK() bool {
	a, b := g.m.inst[slotA], g.m.inst[slotB]
	return a != nil && a.present && !a.closed && a.peerOK && b != nil && !b.closed
}

func (g *gen) next() *op {
	r := g.r
	m := g.m
	open := g.openSlots()
	var closed []int
	for i, in := range m.inst {
		if in != nil && in.present && in.closed {
			closed = append(closed, i)
		}
	}
	o := &op{}
	if len(closed) > 0 && r.Chance(1, 3) {
		o.Slot = g.pick(closed)
		if r.Chance(1, 3) {
			o.Kind = "inc" // documented: fails with the exit error
			return o
		}
		return g.reinst(o)
	}
	if len(open) == 0 {
		if len(closed) > 0 && r.Chance(1, 2) {
			o.Slot = g.pick(closed)
			return g.reinst(o)
		}
		o.Kind, o.Cfg = "start", r.Bool()
		o.Steps = g.steps(open, true)
		return o
	}
	o.Slot = g.pick(open)
	o.Addr, o.Val = g.addrVal()
	switch w := r.Intn(100); {
	case w < 7:
		o.Kind = "inc"
	case w < 8:
		o.Kind, o.Which = "sinc", r.Intn(2)
	case w < 12:
		o.Kind, o.Which, o.K = "strap", r.Intn(2), r.Intn(len(sharedAtomicKinds))
	case w < 16:
		o.Kind = "store"
	case w < 21:
		o.Kind, o.K = "tset", r.Intn(4)
	case w < 26:
		o.Kind = "tcall"
	case w < 37:
		o.Kind, o.K = "trap", g.trapKind()
	case w < 40:
		o.Kind, o.K = "tlk", r.Intn(len(tlkOffsets))
	case w < 46:
		o.Kind, o.K, o.D, o.A = "rec", r.Intn(4), g.recDepth(), r.I64()
	case w < 50:
		if g.soLeft > 0 {
			g.soLeft--
			o.Kind, o.K, o.D, o.A = "rec", r.Intn(4), recInf, r.I64()
		} else {
			o.Kind, o.K = "trap", g.trapKind()
		}
	case w < 57:
		o.Kind, o.K = "ghp", r.Intn(len(hostPanics))
		g.form(o.Slot, &o.Ind, &o.ViaImp)
	case w < 58:
		o.Kind, o.K = "obs", r.Intn(1000)
		g.form(o.Slot, &o.Ind, &o.ViaImp)
	case w < 61:
		o.Kind, o.Code, o.How = "gexit", g.code(false), r.Intn(3)
		g.form(o.Slot, &o.Ind, &o.ViaImp)
	case w < 86:
		o.Kind = "nest"
		if o.Slot == slotA && g.viaOK() && r.Bool() {
			o.Via = true
		}
		o.Steps = g.steps(open, false)
	case w < 94:
		o.Kind, o.Cfg = "start", r.Bool()
		o.Steps = g.steps(open, true)
	case w < 96:
		return g.reinst(o)
	case w < 97:
		o.Kind, o.Code = "close", g.code(false)
	default:
		o.Kind, o.K = "obs", r.Intn(1000)
		g.form(o.Slot, &o.Ind, &o.ViaImp)
	}
	return o
}

func (g *gen) reinst(o *op) *op {
	o.Kind = "reinst"
	if o.Slot == slotC {
		o.Small = g.r.Chance(1, 3)
	}
	if o.Slot == slotA {
		// A links against the instance currently registered as "peer"
		if b := g.m.inst[slotB]; b == nil || b.closed {
			o.Slot = slotB
		}
	}
	return o
}

// pickCtx chooses the context flavour of an operation's calls. The short
// timeout is not used for operations that can legitimately take long.
func pickCtx(r *core.Rng, o *op) int {
	if o.Kind == "reinst" || o.Kind == "close" {
		return ctxBackground
	}
	slow := o.Kind == "rec" && o.D >= 400
	for _, s := range o.Steps {
		if s.Leaf != nil && s.Leaf.Kind == "rec" && s.Leaf.RecD >= 400 {
			slow = true
		}
	}
	switch w := r.Intn(100); {
	case w < 25:
		return ctxBackground
	case w < 55:
		return ctxCancelAfter
	case w < 63:
		if slow {
			return ctxLongTimeoutCancelAfter
		}
		return ctxShortTimeout
	case w < 80:
		return ctxLongTimeoutCancelAfter
	}
	return ctxValueWrappedCancelAfter
}

// history generates the whole history for a case and runs the model over it.
func genHistory(hc histCase) []*op {
	r := core.NewRng(int64(hc.Seed), 6)
	g := &gen{r: r, m: &model{}, soLeft: hc.SO}
	// initial instances: B always; then A and/or C
	var ops []*op
	slots := []int{slotB}
	switch hc.Inst {
	case 2:
		if r.Bool() {
			slots = append(slots, slotA)
		} else {
			slots = append(slots, slotC)
		}
	case 3:
		slots = append(slots, slotA, slotC)
	}
	for _, s := range slots {
		o := &op{Kind: "reinst", Slot: s}
		if s == slotC {
			o.Small = r.Chance(1, 6)
		}
		g.m.apply(o)
		ops = append(ops, o)
	}
	for i := 0; i < hc.N; i++ {
		o := g.next()
		o.Stack = r.Chance(1, 3)
		o.Ctx = pickCtx(r, o)
		g.m.apply(o)
		ops = append(ops, o)
	}
	return ops
}
