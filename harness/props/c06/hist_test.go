package c06

import (
	"fmt"
	"os"
	"testing"
	"time"

	"github.com/tetratelabs/wazero/verifharness/core"
)

func TestHist(t *testing.T) {
	rng := core.NewRng(1, 6)
	bad := 0
	tot := map[string]int{}
	so := 0
	if os.Getenv("SO") != "" {
		so = 2
	}
	t0 := time.Now()
	for i := 0; i < 200; i++ {
		hc := histCase{Seed: rng.U64(), N: 5 + rng.Intn(36), Inst: 1 + rng.Intn(3), SO: rng.Intn(so + 1)}
		hr := runCase(hc, i == 3 && os.Getenv("V") != "")
		for k, v := range hr.Outcomes {
			tot[k] += v
		}
		tot["probes"] += hr.Probes
		for _, f := range hr.Findings {
			fmt.Printf("case %+v\n  %s\n  %s\n", hc, f.Sig, f.Detail)
			bad++
		}
		if bad > 8 {
			break
		}
	}
	fmt.Println(time.Since(t0), tot)
}
