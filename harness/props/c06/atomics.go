package c06

import (
	"fmt"
	"regexp"
	"strconv"

	"github.com/tetratelabs/wazero/internal/wasm"
	"github.com/tetratelabs/wazero/verifharness/wenc"
)

// atomicOp is one memory-accessing instruction of the threads proposal. The
// table is not written by hand: it is derived from wazero's own opcode table
// (every 0xFE sub-opcode that has an instruction name), so that an instruction
// added there is covered here without an edit.
type atomicOp struct {
	Name   string
	Sub    byte
	Family string       // load | store | rmw | cmpxchg | notify | wait
	Op     string       // rmw: add sub and or xor xchg
	T      wenc.ValType // value type of the accessed cell (operands after the address)
	Width  int          // bytes accessed
	Args   []wenc.ValType
	Result bool
}

var (
	reAtomicMem = regexp.MustCompile(`^(i32|i64)\.atomic\.(load|store|rmw)(8|16|32)?(?:\.([a-z]+))?(?:_u)?$`)
	atomicOps   = buildAtomicOps()
)

func buildAtomicOps() []atomicOp {
	var out []atomicOp
	for sub := 0; sub < 256; sub++ {
		name := wasm.AtomicInstructionName(wasm.OpcodeAtomic(sub))
		if name == "" || name == wasm.OpcodeAtomicFenceName {
			continue // fence has no memory operand
		}
		op := atomicOp{Name: name, Sub: byte(sub)}
		switch name {
		case wasm.OpcodeAtomicMemoryNotifyName:
			op.Family, op.T, op.Width, op.Args, op.Result = "notify", wenc.I32, 4, []wenc.ValType{wenc.I32}, true
		case wasm.OpcodeAtomicMemoryWait32Name:
			op.Family, op.T, op.Width, op.Args, op.Result = "wait", wenc.I32, 4, []wenc.ValType{wenc.I32, wenc.I64}, true
		case wasm.OpcodeAtomicMemoryWait64Name:
			op.Family, op.T, op.Width, op.Args, op.Result = "wait", wenc.I64, 8, []wenc.ValType{wenc.I64, wenc.I64}, true
		default:
			m := reAtomicMem.FindStringSubmatch(name)
			if m == nil {
				panic("c06: cannot derive the shape of atomic instruction " + name)
			}
			op.T, op.Width = wenc.I32, 4
			if m[1] == "i64" {
				op.T, op.Width = wenc.I64, 8
			}
			if m[3] != "" {
				bits, _ := strconv.Atoi(m[3])
				op.Width = bits / 8
			}
			switch {
			case m[2] == "load":
				op.Family, op.Result = "load", true
			case m[2] == "store":
				op.Family, op.Args = "store", []wenc.ValType{op.T}
			case m[4] == "cmpxchg":
				op.Family, op.Args, op.Result = "cmpxchg", []wenc.ValType{op.T, op.T}, true
			default:
				op.Family, op.Op, op.Args, op.Result = "rmw", m[4], []wenc.ValType{op.T}, true
			}
		}
		out = append(out, op)
	}
	if len(out) < 60 {
		panic(fmt.Sprintf("c06: only %d atomic instructions found in wazero's opcode table", len(out)))
	}
	return out
}

func log2(w int) uint32 {
	n := uint32(0)
	for w > 1 {
		w >>= 1
		n++
	}
	return n
}

// emit appends the instruction with natural alignment and offset 0.
func (a atomicOp) emit(c *wenc.Code) *wenc.Code {
	return c.Prefixed(0xfe, uint32(a.Sub)).U32(log2(a.Width)).U32(0)
}

func zeroOf(c *wenc.Code, t wenc.ValType) *wenc.Code {
	if t == wenc.I64 {
		return c.I64Const(0)
	}
	return c.I32Const(0)
}

// atomic failure variants
const (
	atomicOOB       = 0 // naturally aligned address just past the end of the memory
	atomicUnaligned = 1 // in-bounds address 1 (mod width) - not for 1-byte accesses
)

type atomicKind struct {
	Op      int
	Variant int
}

func (k atomicKind) name() string {
	v := "atomic-oob:"
	if k.Variant == atomicUnaligned {
		v = "atomic-unaligned:"
	}
	return v + atomicOps[k.Op].Name
}

func (k atomicKind) class() string {
	if k.Variant == atomicUnaligned {
		return "unaligned atomic"
	}
	return "out of bounds memory access"
}

// atomicKinds lists the injectable atomic failures; shared says whether the
// memory is shared (wait traps with "expected shared memory" on an unshared
// memory whatever the address, so its variants are only used on shared ones).
func atomicKinds(shared bool) []atomicKind {
	var out []atomicKind
	for i, a := range atomicOps {
		if a.Family == "wait" && !shared {
			continue
		}
		out = append(out, atomicKind{i, atomicOOB})
		if a.Width > 1 {
			out = append(out, atomicKind{i, atomicUnaligned})
		}
	}
	return out
}

// emitAtomicFailure emits the failing access: address (plus the always-zero
// local zLocal to keep it dynamic), zero operands, the instruction, drop.
func emitAtomicFailure(c *wenc.Code, k atomicKind, memSize int32, zLocal uint32) {
	a := atomicOps[k.Op]
	addr := memSize // aligned for every width, first byte past the end
	if k.Variant == atomicUnaligned {
		addr = 1
	}
	c.I32Const(addr).LocalGet(zLocal).Op(0x6a)
	for _, t := range a.Args {
		zeroOf(c, t)
	}
	a.emit(c)
	if a.Result {
		c.Drop()
	}
}

func findAtomic(family string, t wenc.ValType, width int) atomicOp {
	for _, a := range atomicOps {
		if a.Family == family && a.T == t && a.Width == width {
			return a
		}
	}
	panic("c06: no atomic " + family)
}

// emitAtomicProbe emits a value-neutral use of EVERY atomic instruction on the
// 8-byte cell at local addrLocal, then leaves i64.atomic.load(addr) on the
// stack: loads; stores of the value just loaded; rmw with the identity operand
// (xchg with the value just loaded); cmpxchg(0 -> 0); notify of 0 waiters; on a
// shared memory also wait with a mismatching expectation and memory.grow(0).
func emitAtomicProbe(c *wenc.Code, addrLocal uint32, shared bool) {
	for _, a := range atomicOps {
		load := func() { c.LocalGet(addrLocal); findAtomic("load", a.T, a.Width).emit(c) }
		switch a.Family {
		case "load":
			c.LocalGet(addrLocal)
			a.emit(c).Drop()
		case "store":
			c.LocalGet(addrLocal)
			load()
			a.emit(c)
		case "rmw":
			c.LocalGet(addrLocal)
			switch a.Op {
			case "xchg":
				load()
			case "and":
				if a.T == wenc.I64 {
					c.I64Const(-1)
				} else {
					c.I32Const(-1)
				}
			case "add", "sub", "or", "xor":
				zeroOf(c, a.T)
			default:
				panic("c06: no identity operand known for " + a.Name)
			}
			a.emit(c).Drop()
		case "cmpxchg":
			c.LocalGet(addrLocal)
			zeroOf(c, a.T)
			zeroOf(c, a.T)
			a.emit(c).Drop()
		case "notify":
			c.LocalGet(addrLocal).I32Const(0)
			a.emit(c).Drop()
		case "wait":
			if !shared {
				continue
			}
			c.LocalGet(addrLocal)
			load()
			if a.T == wenc.I64 {
				c.I64Const(1).Op(0x7c)
			} else {
				c.I32Const(1).Op(0x6a)
			}
			c.I64Const(0)
			a.emit(c).Drop()
		}
	}
	if shared {
		c.I32Const(0).MemoryGrow().Drop()
	}
	c.LocalGet(addrLocal)
	findAtomic("load", wenc.I64, 8).emit(c)
}

// ---------------------------------------------------------------------------
// Shared-memory pair: "shm" defines and exports a shared memory, "shs" imports
// it. State: an i64 counter at address 0, only touched atomically.

const (
	shmPages   = 1
	shmMax     = 2
	postShTrap = uint64(1) << 32
)

func buildShm(importer bool) []byte {
	i32, i64 := wenc.I32, wenc.I64
	m := &wenc.Module{}
	lim := wenc.Limits{Min: shmPages, Max: shmMax, HasMax: true, Shared: true}
	if importer {
		m.Imports = append(m.Imports, wenc.Import{Module: "shm", Name: "mem", Kind: wenc.ExtMemory, Mem: lim})
	} else {
		m.Mems = []wenc.Limits{lim}
		m.Exports = append(m.Exports, wenc.Export{Name: "mem", Kind: wenc.ExtMemory, Idx: 0})
	}
	add := findAtomic("rmw", i64, 8) // first rmw family in opcode order is add
	if add.Name != wasm.OpcodeAtomicI64RmwAddName {
		panic("c06: expected i64.atomic.rmw.add, found " + add.Name)
	}
	bump := func(c *wenc.Code, k uint64) *wenc.Code {
		c.I32Const(0).I64Const(int64(k))
		return add.emit(c)
	}
	// ainc() -> i64
	c := bump(&wenc.Code{}, 1).I64Const(1).Op(0x7c).End()
	m.ExportFunc("ainc", m.AddFunc(nil, []byte{i64}, nil, c.B))
	// atrap(kind, z)
	c = bump(&wenc.Code{}, 1).Drop()
	for k, ak := range atomicKinds(true) {
		c.LocalGet(0).I32Const(int32(k)).Op(0x46).If(0x40)
		emitAtomicFailure(c, ak, shmPages*65536, 1)
		c.End()
	}
	bump(c, postShTrap).Drop().End()
	m.ExportFunc("atrap", m.AddFunc([]byte{i32, i32}, nil, nil, c.B))
	// aprobe(addr) -> i64
	c = &wenc.Code{}
	emitAtomicProbe(c, 0, true)
	c.End()
	m.ExportFunc("aprobe", m.AddFunc([]byte{i32}, []byte{i64}, nil, c.B))
	return m.Encode()
}
