package c06

import (
	"context"
	"errors"
	"fmt"
	"os"
	"regexp"
	"runtime"
	"strings"
	"time"

	"github.com/tetratelabs/wazero"
	"github.com/tetratelabs/wazero/api"
	"github.com/tetratelabs/wazero/experimental"
	"github.com/tetratelabs/wazero/experimental/table"
	"github.com/tetratelabs/wazero/imports/wasi_snapshot_preview1"
	"github.com/tetratelabs/wazero/internal/wasmruntime"
	"github.com/tetratelabs/wazero/sys"
)

// ---------------------------------------------------------------------------
// Host panics

type customErr struct{ Code int }

func (e *customErr) Error() string { return fmt.Sprintf("c06 custom error %d", e.Code) }

// tagErr marks an error made by wrapping another one (wrapWith); inner is the
// wrapped error, reachable through Unwrap except in the errors.Join form.
type tagErr struct {
	mode  int
	inner error
}

func (t *tagErr) Error() string { return fmt.Sprintf("c06 tag%d: %v", t.mode, t.inner) }
func (t *tagErr) Unwrap() error {
	if t.mode == wrapJoin {
		return nil
	}
	return t.inner
}

const (
	wrapNone   = 0 // panic(err) with the error as it is
	wrapErrorf = 1 // fmt.Errorf("...: %w", ...)
	wrapCustom = 2 // custom error type with Unwrap
	wrapJoin   = 3 // errors.Join(marker, err)
)

// wrapWith builds the panic value a host function makes from the error of its
// nested call (or from an exit error it made itself).
func wrapWith(mode int, err error) error {
	switch mode {
	case wrapErrorf:
		return fmt.Errorf("c06 plugin failed: %w", &tagErr{mode, err})
	case wrapCustom:
		return &tagErr{mode, err}
	case wrapJoin:
		return errors.Join(&tagErr{mode, err}, err)
	}
	return err
}

func wrapClass(mode int, inner string) string {
	if mode == wrapNone {
		return inner
	}
	return fmt.Sprintf("panic:wrap%d(%s)", mode, inner)
}

// chameleonErr claims to be everything: Is is always true and As fills in a *sys.ExitError.
type chameleonErr struct{}

func (*chameleonErr) Error() string { return "c06 chameleon error" }
func (*chameleonErr) Is(error) bool { return true }
func (*chameleonErr) As(t any) bool {
	if p, ok := t.(**sys.ExitError); ok {
		*p = sys.NewExitError(77)
		return true
	}
	return false
}

// nilableErr is panicked with as a typed nil.
type nilableErr struct{ x int }

func (e *nilableErr) Error() string {
	if e == nil {
		return "c06 typed nil error"
	}
	return fmt.Sprint("c06 nilable ", e.x)
}

type customStruct struct {
	A int
	B string
}

var (
	errSentinel = errors.New("c06 sentinel host error")
	errWrapped  = fmt.Errorf("c06 outer: %w", errSentinel)
	strPanic    = "c06 string panic value"
	structPanic = customStruct{7, "seven"}

	// dynamic operands so that the compiler cannot reject the failing code
	dynNilMap map[string]int
	dynSlice  = make([]int, 3)
	dynIdx    = 5
	dynPtr    *customStruct
	dynZero       = 0
	dynAny    any = "str"
	dynNil    any
	dynTyped  *nilableErr
)

var rePointerValue = regexp.MustCompile(`(^|: )0x[0-9a-f]+ \(recovered by wazero\)`)

type hostPanic struct {
	Name  string
	Class string
	Do    func()
}

var hostPanics = []hostPanic{
	{"error-value", "panic:error:sentinel", func() { panic(errSentinel) }},
	{"string", "panic:string", func() { panic(strPanic) }},
	{"struct", "panic:struct", func() { panic(structPanic) }},
	{"runtime-nil-map-write", "", func() { dynNilMap["k"] = 1 }},
	{"runtime-index-out-of-range", "", func() { dynSlice[dynIdx] = 1 }},
	{"runtime-nil-deref", "", func() { dynPtr.A = 1 }},
	{"custom-error-type", "panic:error:custom:42", func() { panic(&customErr{42}) }},
	{"wrapped-error", "panic:error:wrapped-sentinel", func() { panic(errWrapped) }},
	{"runtime-int-divide", "", func() { dynSlice[0] = 1 / dynZero }},
	{"runtime-type-assertion", "", func() { dynSlice[0] = dynAny.(int) }},
	{"nil", "", func() { panic(dynNil) }}, // *runtime.PanicNilError, a runtime.Error
	{"func-value", "panic:pointer-value", func() { panic(func() {}) }},
	{"chan-value", "panic:pointer-value", func() { panic(make(chan int)) }},
	{"typed-nil-error", "panic:error:typed-nil", func() { panic(error(dynTyped)) }},
	{"chameleon-error", "panic:error:chameleon", func() { panic(&chameleonErr{}) }},
	// exit errors made by the host (nothing is closed) and wrapped: host panics, not exits
	{"errorf-wrapped-exit-0", wrapClass(wrapErrorf, "exit:0"), func() { panic(wrapWith(wrapErrorf, sys.NewExitError(0))) }},
	{"unwrap-type-wrapped-exit-3", wrapClass(wrapCustom, "exit:3"), func() { panic(wrapWith(wrapCustom, sys.NewExitError(3))) }},
	{"joined-exit-9", wrapClass(wrapJoin, "exit:9"), func() { panic(wrapWith(wrapJoin, sys.NewExitError(9))) }},
}

func init() {
	// reference messages of the genuine runtime errors: what this Go runtime
	// says when the same statement fails outside wazero.
	for i := range hostPanics {
		h := &hostPanics[i]
		if h.Class != "" {
			continue
		}
		func() {
			defer func() {
				r := recover()
				re, ok := r.(runtime.Error)
				if !ok {
					panic(fmt.Sprintf("c06: %s is not a runtime.Error: %v", h.Name, r))
				}
				h.Class = "panic:runtime:" + re.Error()
			}()
			h.Do()
		}()
	}
}

// ---------------------------------------------------------------------------
// Error classification on the documented surface

var trapErrs = []*wasmruntime.Error{
	wasmruntime.ErrRuntimeInvalidConversionToInteger, wasmruntime.ErrRuntimeIntegerOverflow,
	wasmruntime.ErrRuntimeIntegerDivideByZero, wasmruntime.ErrRuntimeUnreachable,
	wasmruntime.ErrRuntimeOutOfBoundsMemoryAccess, wasmruntime.ErrRuntimeInvalidTableAccess,
	wasmruntime.ErrRuntimeIndirectCallTypeMismatch, wasmruntime.ErrRuntimeUnalignedAtomic,
	wasmruntime.ErrRuntimeExpectedSharedMemory, wasmruntime.ErrRuntimeTooManyWaiters,
}

func firstLine(s string) string {
	if i := strings.IndexByte(s, '\n'); i >= 0 {
		return s[:i]
	}
	return s
}

// classify maps an error returned by Call / InstantiateModule to the model's
// class string. Only documented observations are used: errors.As(*sys.ExitError)
// (and that it is not wrapped), errors.Is against the runtime trap errors plus
// the "wasm error: <kind>" text, errors.Is/As for error panic values, the
// printed value for non-error panic values.
func classify(err error) string {
	if err == nil {
		return "ok"
	}
	// an exit is a bare *sys.ExitError (the documented way to test for it is a type assertion)
	if ee, direct := err.(*sys.ExitError); direct {
		if ee == nil {
			return "exit-nil-pointer"
		}
		return exitClass(ee.ExitCode())
	}
	text := err.Error()
	fl := firstLine(text)
	// a host panic with an error made from another error: the panic value must be reachable
	var tag *tagErr
	if errors.As(err, &tag) {
		if !strings.Contains(fl, "c06 tag") {
			return fmt.Sprintf("panic:wrap%d-without-text", tag.mode)
		}
		return wrapClass(tag.mode, classify(tag.inner))
	}
	var cham *chameleonErr
	if errors.As(err, &cham) { // before every errors.Is / errors.As below, which it would satisfy
		if !strings.Contains(fl, cham.Error()) {
			return "panic:error:chameleon-without-text"
		}
		return "panic:error:chameleon"
	}
	var ee *sys.ExitError
	if errors.As(err, &ee) {
		return fmt.Sprintf("exit-wrapped:%d", ee.ExitCode())
	}
	var ne *nilableErr
	if errors.As(err, &ne) {
		if ne != nil || !strings.Contains(fl, ne.Error()) {
			return "panic:error:typed-nil-altered"
		}
		return "panic:error:typed-nil"
	}
	if errors.Is(err, wasmruntime.ErrRuntimeStackOverflow) {
		return "stack overflow"
	}
	for _, te := range trapErrs {
		if errors.Is(err, te) {
			if !strings.Contains(fl, "wasm error: "+te.Error()) {
				return "trap-without-text:" + te.Error()
			}
			return "trap:" + te.Error()
		}
	}
	if i := strings.Index(fl, "wasm error: "); i >= 0 {
		return "trap-text-only:" + fl[i+len("wasm error: "):]
	}
	var ce *customErr
	if errors.As(err, &ce) {
		if !strings.Contains(fl, ce.Error()) {
			return "panic:error:custom-without-text"
		}
		return fmt.Sprintf("panic:error:custom:%d", ce.Code)
	}
	if errors.Is(err, errWrapped) {
		if !strings.Contains(fl, errWrapped.Error()) {
			return "panic:error:wrapped-without-text"
		}
		return "panic:error:wrapped-sentinel"
	}
	if errors.Is(err, errSentinel) {
		if !strings.Contains(fl, errSentinel.Error()) {
			return "panic:error:sentinel-without-text"
		}
		return "panic:error:sentinel"
	}
	var re runtime.Error
	if errors.As(err, &re) {
		if !strings.Contains(fl, re.Error()) {
			return "panic:runtime-without-text:" + re.Error()
		}
		return "panic:runtime:" + re.Error()
	}
	if strings.Contains(fl, strPanic) {
		return "panic:string"
	}
	if strings.Contains(fl, fmt.Sprintf("%v", structPanic)) {
		return "panic:struct"
	}
	if rePointerValue.MatchString(fl) {
		return "panic:pointer-value"
	}
	if len(fl) > 120 {
		fl = fl[:120]
	}
	return "other:" + fl
}

var reExitCode = regexp.MustCompile(`(exit|ok):\d+`)

// normClass strips case-specific numbers from a class for signatures.
func normClass(c string) string {
	if strings.HasPrefix(c, "panic:wrap") {
		return reExitCode.ReplaceAllString(c, "exit:N")
	}
	switch {
	case strings.HasPrefix(c, "exit:"):
		return "exit"
	case strings.HasPrefix(c, "exit-wrapped:"):
		return "exit-wrapped"
	case strings.HasPrefix(c, "ok:"):
		return "ok"
	case strings.HasPrefix(c, "other:"):
		f := strings.Fields(c)
		if len(f) > 5 {
			f = f[:5]
		}
		return strings.Join(f, "_")
	}
	return c
}

// ---------------------------------------------------------------------------
// Engines (one runtime per engine per child process, reused by all histories
// of the batch: the runtime itself must stay usable after every failure)

type engine struct {
	name   string
	rt     wazero.Runtime
	cm     [4]wazero.CompiledModule // plain, peer, start-section, config-start
	cmShm  [2]wazero.CompiledModule // owner and importer of the shared memory
	small  []byte
	active *runner
	et     bool // RuntimeConfig.WithCloseOnContextDone(true)
}

func engineConfig(name string, et bool) wazero.RuntimeConfig {
	cfg := wazero.NewRuntimeConfigInterpreter()
	if name == "compiler" {
		cfg = wazero.NewRuntimeConfigCompiler()
	}
	return cfg.WithCoreFeatures(api.CoreFeaturesV2 | experimental.CoreFeaturesThreads).WithCloseOnContextDone(et)
}

var engines = map[bool][]*engine{}

// getEngines: the two runtimes (interpreter, compiler) of this child for the
// given WithCloseOnContextDone setting.
func getEngines(et bool) []*engine {
	if engines[et] == nil {
		for _, name := range []string{"interpreter", "compiler"} {
			engines[et] = append(engines[et], newEngine(name, et))
		}
	}
	return engines[et]
}

func newEngine(name string, et bool) *engine {
	ctx := context.Background()
	{
		e := &engine{name: name, et: et, rt: wazero.NewRuntimeWithConfig(ctx, engineConfig(name, et))}
		wasi_snapshot_preview1.MustInstantiate(ctx, e.rt)
		_, err := e.rt.NewHostModuleBuilder("env").
			NewFunctionBuilder().WithGoModuleFunction(api.GoModuleFunc(e.hop), []api.ValueType{api.ValueTypeI32}, []api.ValueType{api.ValueTypeI32}).Export("hop").
			NewFunctionBuilder().WithFunc(func(ctx context.Context, mod api.Module, k uint32) {
			e.sawModule(mod)
			hostPanics[k].Do()
		}).Export("host_panic").
			NewFunctionBuilder().WithFunc(func(ctx context.Context, mod api.Module, code, how uint32) {
			e.sawModule(mod)
			if how == 1 {
				mod.CloseWithExitCode(ctx, code)
			}
			panic(sys.NewExitError(code))
		}).Export("host_exit").
			NewFunctionBuilder().WithFunc(func(ctx context.Context, mod api.Module, tag uint32) uint32 {
			e.sawModule(mod)
			return tag + obsAdd
		}).Export("observe").
			NewFunctionBuilder().WithFunc(func(ctx context.Context, mod api.Module, off uint32) uint32 {
			e.sawModule(mod)
			// documented: panics with call_indirect's traps when the slot is out of range, null or of another type
			f := table.LookupFunction(mod, 0, off, nil, []api.ValueType{api.ValueTypeI32})
			res, err := f.Call(ctx)
			if err != nil {
				panic(err)
			}
			return uint32(res[0])
		}).Export("tlookup").Instantiate(ctx)
		if err != nil {
			panic(err)
		}
		for i, o := range []guestOpts{{}, {Peer: true}, {Start: true}, {Boot: true}} {
			cm, err := e.rt.CompileModule(ctx, buildGuest(o))
			if err != nil {
				panic(fmt.Sprintf("c06: template %d rejected by %s: %v", i, name, err))
			}
			e.cm[i] = cm
		}
		for i := range e.cmShm {
			cm, err := e.rt.CompileModule(ctx, buildShm(i == 1))
			if err != nil {
				panic(fmt.Sprintf("c06: shared-memory template %d rejected by %s: %v", i, name, err))
			}
			e.cmShm[i] = cm
		}
		e.small = buildGuest(guestOpts{Small: true})
		return e
	}
}

var nestedNames = []string{"nest", "via_peer", "inc", "trap", "rec", "ghp", "gexit", "obs", "ighp", "igexit", "iobs", "vp_ghp", "vp_gexit", "vp_obs", "tlk"}

var slotNames = [nSlot]string{"peer", "a", "c"}

// sawModule is the monitor of every host function that takes an api.Module:
// it records which module wazero handed over (its name and the identity marker
// the harness wrote into that module's memory).
func (e *engine) sawModule(mod api.Module) {
	r := e.active
	if r == nil {
		return
	}
	seen := "nil"
	if mod != nil {
		seen = mod.Name()
		if mem := mod.Memory(); mem == nil {
			seen += "/no-memory"
		} else if v, ok := mem.ReadUint64Le(markerAddr); !ok {
			seen += "/unreadable"
		} else {
			seen += fmt.Sprintf("/%#x", v)
		}
	}
	r.modSeen = append(r.modSeen, seen)
}

var topNames = []string{"get", "store", "load", "tset", "tcall", "tprobe", "tnull", "aprobe"}

type rinst struct {
	mod    api.Module
	marker uint64
	fns    map[string][]api.Function // name -> per nesting level
}

func newRinst(mod api.Module) *rinst {
	ri := &rinst{mod: mod, fns: map[string][]api.Function{}}
	defs := mod.ExportedFunctionDefinitions()
	for _, n := range nestedNames {
		if defs[n] == nil {
			continue
		}
		for l := 0; l < nLevels; l++ {
			ri.fns[n] = append(ri.fns[n], mod.ExportedFunction(n))
		}
	}
	for _, n := range topNames {
		ri.fns[n] = []api.Function{mod.ExportedFunction(n)}
	}
	return ri
}

func newShmRinst(mod api.Module) *rinst {
	ri := &rinst{mod: mod, fns: map[string][]api.Function{}}
	for _, n := range []string{"ainc", "atrap", "aprobe"} {
		for l := 0; l < nLevels; l++ {
			ri.fns[n] = append(ri.fns[n], mod.ExportedFunction(n))
		}
	}
	return ri
}

type finding struct {
	Sig    string `json:"sig"`
	Detail string `json:"detail"`
	Engine string `json:"engine"`
	OpIdx  int    `json:"op_index"`
}

type runner struct {
	eng      *engine
	ctx      context.Context
	opCtx    context.Context // context of the current operation's guest calls (top level and nested)
	inst     [nSlot]*rinst
	shm      [2]*rinst // owner and importer of the shared memory
	hung     bool      // a call did not return: this runner's runtime is abandoned
	inconcl  []string
	cur      *op
	hostSeen []string
	modSeen  []string // modules handed to the host functions during the current operation
	markers  uint64
	findings []finding
	trans    []string // canonical transcript for the engine differential
	probes   int
	pfProbes int // probes after failing operations
	ops      []*op
	log      bool
}

func (r *runner) report(i int, sig, detail string) {
	for _, f := range r.findings {
		if f.Sig == sig {
			return
		}
	}
	r.findings = append(r.findings, finding{Sig: sig, Detail: detail, Engine: r.eng.name, OpIdx: i})
}

// hop is the re-entrant host function: what it does at each nesting level is
// the current operation's plan.
func (e *engine) hop(ctx context.Context, mod api.Module, stack []uint64) {
	r := e.active
	e.sawModule(mod)
	level := int(int32(stack[0]))
	if r == nil || r.cur == nil || level < 0 || level >= len(r.cur.Steps) {
		panic(fmt.Sprintf("c06 harness: hop(%d) without a plan", level))
	}
	s := &r.cur.Steps[level]
	var err error
	var res []uint64
	called := true
	if l := s.Leaf; l != nil {
		var t *rinst
		if l.Kind != "ok" && l.Kind != "hp" && l.Kind != "hexit" && l.Kind != "strap" {
			t = r.inst[l.Target]
		}
		switch l.Kind {
		case "ok":
			called = false
		case "strap":
			_, err = r.call(r.shm[l.Which].fns["atrap"][level+1], uint64(l.TrapK), 0)
		case "hp":
			hostPanics[l.HK].Do()
		case "hexit":
			if l.How == 1 {
				mod.CloseWithExitCode(ctx, l.Code)
			}
			panic(sys.NewExitError(l.Code))
		case "inc":
			res, err = r.call(t.fns["inc"][level+1])
		case "trap":
			_, err = r.call(t.fns["trap"][level+1], uint64(l.TrapK), uint64(l.Addr), l.Val, 0)
		case "rec":
			res, err = r.call(t.fns["rec"][level+1], uint64(l.RecK), uint64(l.RecD), l.RecA, uint64(l.Addr), l.Val)
		case "ghp":
			_, err = r.call(t.fns[formFn("ghp", l.Ind, l.ViaImp)][level+1], formArgs(l.Ind, l.ViaImp, uint64(l.HK), uint64(l.Addr), l.Val)...)
		case "gexit":
			_, err = r.call(t.fns[formFn("gexit", l.Ind, l.ViaImp)][level+1], formArgs(l.Ind, l.ViaImp, uint64(l.Code), uint64(l.How), uint64(l.Addr), l.Val)...)
		case "tlk":
			res, err = r.call(t.fns["tlk"][level+1], uint64(tlkOffsets[l.TrapK]), uint64(l.Addr), l.Val)
		case "obs":
			res, err = r.call(t.fns[formFn("obs", l.Ind, l.ViaImp)][level+1], formArgs(l.Ind, l.ViaImp, uint64(l.HK))...)
		}
	} else {
		name := "nest"
		if s.Via {
			name = "via_peer"
		}
		res, err = r.call(r.inst[s.Target].fns[name][level+1], uint64(level+1))
	}
	if called {
		c := classify(err)
		if err == nil && len(res) > 0 {
			c = okClass(res[0])
		}
		r.hostSeen[level] = c
	}
	if err != nil && !s.Catch {
		// propagate the failure of the nested call as this host function's panic
		// value: as it is, or wrapped the way plugin hosts do
		panic(wrapWith(s.Wrap, err))
	}
	if s.ThenHP >= 0 {
		hostPanics[s.ThenHP].Do()
	}
	switch {
	case s.Dir >= 0:
		stack[0] = uint64(hopTrapDir + s.Dir)
	case err != nil:
		stack[0] = uint64(hopCaught + level)
	default:
		stack[0] = uint64(hopOKBase + level)
	}
}

// formFn / formArgs select the export and arguments for a call form of ghp/gexit/obs.
func formFn(base string, ind, viaImp bool) string {
	switch {
	case viaImp:
		return "vp_" + base
	case ind:
		return "i" + base
	}
	return base
}

func formArgs(ind, viaImp bool, args ...uint64) []uint64 {
	if viaImp {
		return append([]uint64{b2u(ind)}, args...)
	}
	return args
}

func (r *runner) instantiate(slot int, small bool) error {
	e := r.eng
	var mod api.Module
	var err error
	switch {
	case slot == slotB:
		mod, err = e.rt.InstantiateModule(r.ctx, e.cm[0], wazero.NewModuleConfig().WithName("peer").WithStartFunctions())
	case slot == slotA:
		mod, err = e.rt.InstantiateModule(r.ctx, e.cm[1], wazero.NewModuleConfig().WithName(slotNames[slotA]).WithStartFunctions())
	case small:
		mod, err = e.rt.InstantiateWithConfig(r.ctx, e.small, wazero.NewModuleConfig().WithName(slotNames[slotC]).WithStartFunctions())
	default:
		mod, err = e.rt.InstantiateModule(r.ctx, e.cm[0], wazero.NewModuleConfig().WithName(slotNames[slotC]).WithStartFunctions())
	}
	if err != nil {
		return err
	}
	r.inst[slot] = newRinst(mod)
	r.markers++
	r.inst[slot].marker = 0xc06<<32 | uint64(slot+1)<<16 | r.markers
	if !mod.Memory().WriteUint64Le(markerAddr, r.inst[slot].marker) {
		return errors.New("c06 harness: cannot write the identity marker")
	}
	return nil
}

// call invokes f through Call or, when the current operation says so, through
// CallWithStack.
func (r *runner) call(f api.Function, args ...uint64) ([]uint64, error) {
	ctx := r.ctx
	if r.opCtx != nil {
		ctx = r.opCtx
	}
	if r.cur == nil || !r.cur.Stack {
		return f.Call(ctx, args...)
	}
	nres := len(f.Definition().ResultTypes())
	n := len(args)
	if nres > n {
		n = nres
	}
	stack := make([]uint64, n, n+1)
	copy(stack, args)
	if err := f.CallWithStack(ctx, stack); err != nil {
		return nil, err
	}
	return stack[:nres], nil
}

// exec performs one operation and returns the error and results observed at the top level.
func (r *runner) exec(o *op) (res []uint64, err error) {
	ctx := r.ctx
	r.cur = o
	r.hostSeen = make([]string, len(o.Steps))
	r.modSeen = r.modSeen[:0]
	defer func() { r.cur = nil }()
	ri := r.inst[o.Slot]
	f := func(name string) api.Function { return ri.fns[name][0] }
	switch o.Kind {
	case "reinst":
		if ri != nil && !ri.mod.IsClosed() {
			if err := ri.mod.Close(ctx); err != nil {
				return nil, fmt.Errorf("close before re-instantiation: %w", err)
			}
		}
		return nil, r.instantiate(o.Slot, o.Small)
	case "close":
		return nil, ri.mod.CloseWithExitCode(ctx, o.Code)
	case "sinc":
		return r.call(r.shm[o.Which].fns["ainc"][0])
	case "strap":
		return r.call(r.shm[o.Which].fns["atrap"][0], uint64(o.K), 0)
	case "start":
		if r.opCtx != nil {
			ctx = r.opCtx
		}
		cm, cfg := r.eng.cm[2], wazero.NewModuleConfig().WithName("tmp").WithStartFunctions()
		if o.Cfg {
			cm, cfg = r.eng.cm[3], wazero.NewModuleConfig().WithName("tmp").WithStartFunctions("boot")
		}
		mod, err := r.eng.rt.InstantiateModule(ctx, cm, cfg)
		if err == nil {
			if mod == nil {
				return nil, errors.New("c06 harness: InstantiateModule returned nil, nil")
			}
			mod.Close(ctx)
		}
		return nil, err
	case "inc":
		return r.call(f("inc"))
	case "store":
		return r.call(f("store"), uint64(o.Addr), o.Val)
	case "tset":
		return r.call(f("tset"), uint64(o.K))
	case "tcall":
		return r.call(f("tcall"))
	case "trap":
		return r.call(f("trap"), uint64(o.K), uint64(o.Addr), o.Val, 0)
	case "rec":
		return r.call(f("rec"), uint64(o.K), uint64(o.D), o.A, uint64(o.Addr), o.Val)
	case "ghp":
		return r.call(f(formFn("ghp", o.Ind, o.ViaImp)), formArgs(o.Ind, o.ViaImp, uint64(o.K), uint64(o.Addr), o.Val)...)
	case "gexit":
		return r.call(f(formFn("gexit", o.Ind, o.ViaImp)), formArgs(o.Ind, o.ViaImp, uint64(o.Code), uint64(o.How), uint64(o.Addr), o.Val)...)
	case "tlk":
		return r.call(f("tlk"), uint64(tlkOffsets[o.K]), uint64(o.Addr), o.Val)
	case "obs":
		return r.call(f(formFn("obs", o.Ind, o.ViaImp)), formArgs(o.Ind, o.ViaImp, uint64(o.K))...)
	case "nest":
		if o.Via {
			return r.call(f("via_peer"), 0)
		}
		return r.call(f("nest"), 0)
	}
	return nil, fmt.Errorf("c06 harness: unknown op %q", o.Kind)
}

// primary failure label of an op for signatures
func failLabel(o *op) string {
	if len(o.Fails) == 0 {
		return "none"
	}
	k := o.Fails[0].Kind
	// keep the family and the concrete kind, not numbers
	return k
}

// allFailLabels: every distinct failure kind injected by the op, in injection order.
func allFailLabels(o *op) string {
	var out []string
	seen := map[string]bool{}
	for _, f := range o.Fails {
		if !seen[f.Kind] {
			seen[f.Kind] = true
			out = append(out, f.Kind)
		}
	}
	if len(out) == 0 {
		return "none"
	}
	return strings.Join(out, "+")
}

// classFamily: ok | trap | stack-overflow | panic | exit
func classFamily(c string) string {
	switch {
	case strings.HasPrefix(c, "ok"):
		return "ok"
	case strings.HasPrefix(c, "trap"):
		return "trap"
	case strings.HasPrefix(c, "stack"):
		return "stack-overflow"
	case strings.HasPrefix(c, "panic"):
		return "host-panic"
	case strings.HasPrefix(c, "exit"):
		return "exit"
	}
	return "other"
}

func where(o *op) string {
	switch {
	case o.Kind == "start":
		return "start-function"
	case len(o.Fails) > 0 && o.Fails[0].Depth > 0:
		return "nested"
	}
	return "top"
}

func (r *runner) probe(i int, o *op, failing bool) string {
	var sb strings.Builder
	ctx := r.ctx
	after := fmt.Sprintf("after=%s/%s:%s", o.Kind, failLabel(o), where(o))
	for s := 0; s < nSlot; s++ {
		ri, want := r.inst[s], o.After[s]
		if ri == nil || !want.Present {
			continue
		}
		rel := "other-instance"
		if s == o.Slot && o.Kind != "start" {
			rel = "same-instance"
		}
		bad := func(field, detail string) {
			r.report(i, fmt.Sprintf("state:%s:%s:%s:%s", r.eng.name, after, field, rel),
				fmt.Sprintf("op %d %s (outcome %s): slot %d %s", i, o.desc(), o.WantClass, s, detail))
		}
		r.probes++
		if failing {
			r.pfProbes++
		}
		if closed := ri.mod.IsClosed(); closed && !want.Closed {
			// closed although the model says open: by what?
			_, err := ri.fns["inc"][0].Call(ctx)
			var ee *sys.ExitError
			if errors.As(err, &ee) && (ee.ExitCode() == sys.ExitCodeContextCanceled || ee.ExitCode() == sys.ExitCodeDeadlineExceeded) {
				why := "canceled"
				if ee.ExitCode() == sys.ExitCodeDeadlineExceeded {
					why = "deadline-exceeded"
				}
				r.report(i, fmt.Sprintf("closed-by-context-done-after-call-returned:%s:%s:after-%s-call", r.eng.name, why, classFamily(o.WantClass)),
					fmt.Sprintf("op %d %s (outcome %s, context %s): slot %d is closed (%v) although its calls had returned before their context was done", i, o.desc(), o.WantClass, ctxNames[o.Ctx], s, err))
				fmt.Fprintf(&sb, "[%d closed by context]", s)
				continue
			}
		}
		if want.Present && !want.Closed {
			if reg := r.eng.rt.Module(slotNames[s]); reg != ri.mod {
				bad("registry", fmt.Sprintf("Runtime.Module(%q) no longer returns the instance", slotNames[s]))
			}
		}
		if closed := ri.mod.IsClosed(); closed != want.Closed {
			bad("closed", fmt.Sprintf("IsClosed()=%v, model says %v", closed, want.Closed))
			fmt.Fprintf(&sb, "[%d closed=%v]", s, closed)
			continue
		}
		if want.Closed {
			// documented: calls on a module closed by an exit return the exit error
			_, err := ri.fns["inc"][0].Call(ctx)
			c := classify(err)
			if c != exitClass(want.Code) {
				bad("call-after-exit", fmt.Sprintf("call on the closed instance returned %s, want %s (%v)", c, exitClass(want.Code), err))
			}
			fmt.Fprintf(&sb, "[%d closed %s]", s, c)
			continue
		}
		fmt.Fprintf(&sb, "[%d", s)
		g, err := ri.fns["get"][0].Call(ctx)
		if err != nil || len(g) != 1 {
			bad("counter", fmt.Sprintf("get failed: %v", err))
			continue
		}
		fmt.Fprintf(&sb, " g=%d", g[0])
		if g[0] != want.G0 {
			bad("counter", fmt.Sprintf("counter=%#x, model says %#x (diff %#x)", g[0], want.G0, g[0]-want.G0))
		}
		// the host's view of the same state (api.Global / api.Memory)
		if hg := ri.mod.ExportedGlobal("g0"); hg == nil || hg.Get() != g[0] {
			bad("host-view", fmt.Sprintf("api.Global g0 differs from the guest's view %#x", g[0]))
		}
		for ci, a := range probeAddrs {
			if hv, ok := ri.mod.Memory().ReadUint64Le(a); !ok || hv != want.Cells[ci] {
				bad("host-view", fmt.Sprintf("api.Memory.ReadUint64Le(%d)=%#x,%v, model says %#x", a, hv, ok, want.Cells[ci]))
			}
			v, err := ri.fns["load"][0].Call(ctx, uint64(a))
			if err != nil || len(v) != 1 {
				bad("memory", fmt.Sprintf("load(%d) failed: %v", a, err))
				break
			}
			fmt.Fprintf(&sb, " %x", v[0])
			if v[0] != want.Cells[ci] {
				bad("memory", fmt.Sprintf("mem[%d]=%#x, model says %#x", a, v[0], want.Cells[ci]))
			}
		}
		for pi, wantNull := range []uint64{b2u(want.TSlot == 0), 1, 0, 1} {
			idx := []int{0, 1, 2, tableSize - 1}[pi]
			v, err := ri.fns["tnull"][0].Call(ctx, uint64(idx))
			if err != nil || len(v) != 1 {
				bad("table", fmt.Sprintf("tnull(%d) failed: %v", idx, err))
				break
			}
			fmt.Fprintf(&sb, " t%d", v[0])
			if v[0] != wantNull {
				bad("table", fmt.Sprintf("table[%d] null=%d, model says %d", idx, v[0], wantNull))
			}
		}
		if want.TSlot == 1 || want.TSlot == 2 {
			v, err := ri.fns["tprobe"][0].Call(ctx)
			if err != nil || len(v) != 1 || v[0] != uint64(11*want.TSlot) {
				bad("table", fmt.Sprintf("call through table[0] = %v, %v; model says %d", v, err, 11*want.TSlot))
			}
			fmt.Fprintf(&sb, " c%v", v)
		}
		// atomic instructions on the same memory: through the api.Function used all
		// along and through a freshly fetched one
		var av [2][]uint64
		var aerr [2]error
		if !r.guarded(i, o, fmt.Sprintf("atomic probe of slot %d", s), func() {
			av[0], aerr[0] = ri.fns["aprobe"][0].Call(ctx, uint64(probeAddrs[0]))
			av[1], aerr[1] = ri.mod.ExportedFunction("aprobe").Call(ctx, uint64(probeAddrs[1]))
		}, func(ctl *runner) {
			ctl.inst[slotB].fns["aprobe"][0].Call(ctx, uint64(probeAddrs[0]))
		}) {
			return sb.String()
		}
		for k := range av {
			if aerr[k] != nil || len(av[k]) != 1 || av[k][0] != want.Cells[k] {
				bad("atomic-probe", fmt.Sprintf("aprobe(%d) = %v, %v; model says %#x", probeAddrs[k], av[k], aerr[k], want.Cells[k]))
			}
		}
		sb.WriteString(" a]")
	}
	// the shared memory: same api.Function, a fresh one, and the other instance sharing it
	var sv [3][]uint64
	var serr [3]error
	if !r.guarded(i, o, "atomic probe of the shared memory", func() {
		sv[0], serr[0] = r.shm[0].fns["aprobe"][0].Call(ctx, 0)
		sv[1], serr[1] = r.shm[0].mod.ExportedFunction("aprobe").Call(ctx, 0)
		sv[2], serr[2] = r.shm[1].fns["aprobe"][0].Call(ctx, 0)
	}, func(ctl *runner) {
		ctl.shm[0].fns["aprobe"][0].Call(ctx, 0)
		ctl.shm[1].fns["aprobe"][0].Call(ctx, 0)
	}) {
		return sb.String()
	}
	for k := range sv {
		var ee *sys.ExitError
		if errors.As(serr[k], &ee) && (ee.ExitCode() == sys.ExitCodeContextCanceled || ee.ExitCode() == sys.ExitCodeDeadlineExceeded) {
			why := "canceled"
			if ee.ExitCode() == sys.ExitCodeDeadlineExceeded {
				why = "deadline-exceeded"
			}
			r.report(i, fmt.Sprintf("closed-by-context-done-after-call-returned:%s:%s:after-%s-call", r.eng.name, why, classFamily(o.WantClass)),
				fmt.Sprintf("op %d %s (outcome %s, context %s): an instance of the shared-memory pair is closed (%v) although its calls had returned before their context was done", i, o.desc(), o.WantClass, ctxNames[o.Ctx], serr[k]))
			continue
		}
		if serr[k] != nil || len(sv[k]) != 1 || sv[k][0] != o.AfterShm {
			r.report(i, fmt.Sprintf("state:%s:%s:shared-memory", r.eng.name, after),
				fmt.Sprintf("op %d %s: atomic probe %d of the shared memory = %v, %v; model says %#x", i, o.desc(), k, sv[k], serr[k], o.AfterShm))
		}
	}
	fmt.Fprintf(&sb, "[shm %d]", o.AfterShm)
	return sb.String()
}

// hangBound is generous: every guarded call takes microseconds to (for stack
// overflows on a loaded machine) seconds.
const hangBound = 20 * time.Second

func waitDone(done chan struct{}, d time.Duration) bool {
	select {
	case <-done:
		return true
	case <-time.After(d):
		return false
	}
}

// guarded runs f and reports whether it returned. If it does not return within
// hangBound, the control (the same probe on a fresh runtime of the same
// engine, given the same bound) decides: control returns and f still has not
// after another hangBound -> violation post-failure-probe-hangs; control does
// not return either -> inconclusive. Either way this runner is abandoned.
func (r *runner) guarded(i int, o *op, what string, f func(), control func(ctl *runner)) bool {
	done := make(chan struct{})
	go func() {
		defer close(done)
		f()
	}()
	if waitDone(done, hangBound) {
		return true
	}
	ctlDone := make(chan struct{})
	go func() {
		defer close(ctlDone)
		ctx := context.Background()
		ce := newEngine(r.eng.name, r.eng.et)
		defer ce.rt.Close(ctx)
		ctl := &runner{eng: ce, ctx: ctx}
		ce.active = ctl
		if ctl.instantiate(slotB, false) != nil || ctl.instantiateShm() != nil {
			select {} // control unusable: never returns -> inconclusive
		}
		control(ctl)
	}()
	ctlOK := waitDone(ctlDone, hangBound)
	if waitDone(done, hangBound) {
		return true // merely slow
	}
	r.hung = true
	if ctlOK {
		r.report(i, fmt.Sprintf("post-failure-probe-hangs:%s:%s", r.eng.name, allFailLabels(o)),
			fmt.Sprintf("op %d %s (outcome %s): %s did not return within %v although the same probe on a fresh %s runtime returned", i, o.desc(), o.WantClass, what, 2*hangBound, r.eng.name))
	} else {
		r.inconcl = append(r.inconcl, "probe-timeout-without-control")
	}
	return false
}

func (r *runner) instantiateShm() error {
	for k := range r.shm {
		mod, err := r.eng.rt.InstantiateModule(r.ctx, r.eng.cmShm[k], wazero.NewModuleConfig().WithName(shmNames[k]).WithStartFunctions())
		if err != nil {
			return err
		}
		r.shm[k] = newShmRinst(mod)
	}
	return nil
}

func b2u(b bool) uint64 {
	if b {
		return 1
	}
	return 0
}

// runHistory executes the history on one engine, judging every step against
// the model's expectations.
func runHistory(e *engine, ops []*op, probeSel func(i int) bool, log bool) *runner {
	r := &runner{eng: e, ctx: context.Background(), ops: ops, log: log}
	e.active = r
	defer func() {
		if r.hung {
			// a goroutine is stuck inside this runtime: leave it alone, later histories get fresh runtimes
			engines = map[bool][]*engine{}
			return
		}
		e.active = nil
		for _, ri := range r.inst {
			if ri != nil {
				ri.mod.Close(r.ctx)
			}
		}
		for _, ri := range r.shm {
			if ri != nil {
				ri.mod.Close(r.ctx)
			}
		}
	}()
	if err := r.instantiateShm(); err != nil {
		r.report(0, "instantiate-failed:"+e.name+":shared-memory-pair", err.Error())
		return r
	}
	for i, o := range ops {
		if log {
			fmt.Fprintf(os.Stderr, "C06-OP %s %d %s/%s:%s\n", e.name, i, o.Kind, failLabel(o), where(o))
		}
		var res []uint64
		var err error
		opCtx, cancel := opContext(o.Ctx, e.et)
		r.opCtx = opCtx
		opDone := make(chan struct{})
		go func() {
			defer close(opDone)
			res, err = r.exec(o)
		}()
		if !waitDone(opDone, 5*hangBound) {
			// no control for a whole operation: not decidable here
			r.hung = true
			r.inconcl = append(r.inconcl, "operation-did-not-return")
			break
		}
		r.opCtx = nil
		got := classify(err)
		// The call has returned. Its context becomes done only now, which must have no effect.
		if cancel != nil {
			if opCtx.Err() != nil {
				// a deadline passed while the call was still running: closing the module is then legitimate
				cancel()
				r.inconcl = append(r.inconcl, "deadline-passed-during-call")
				break
			}
			if o.Ctx == ctxShortTimeout && e.et {
				<-opCtx.Done()
			}
			cancel()
			// let a goroutine that still watches the context act before the probes look
			runtime.Gosched()
			if got != "ok" {
				time.Sleep(300 * time.Microsecond)
			}
		}
		line := fmt.Sprintf("%d %s -> %s", i, o.Kind, got)
		label := fmt.Sprintf("%s/%s:%s", o.Kind, failLabel(o), where(o))
		if got != o.WantClass && strings.HasPrefix(o.WantClass, "panic:") && strings.HasPrefix(got, "exit:") {
			r.report(i, fmt.Sprintf("host-panic-reported-as-exit:%s:%s:%s", e.name, normClass(o.WantClass), where(o)),
				fmt.Sprintf("op %d %s: the host function panicked with a value that is not a bare *sys.ExitError (want %s) but the caller received the bare exit error %v", i, o.desc(), o.WantClass, err))
		} else if got != o.WantClass {
			r.report(i, fmt.Sprintf("outcome:%s:%s:want=%s:got=%s", e.name, label, normClass(o.WantClass), normClass(got)),
				fmt.Sprintf("op %d %s: want %s, got %s\nerror: %v", i, o.desc(), o.WantClass, got, trunc(fmt.Sprint(err), 600)))
		} else if err == nil && o.WantRes != nil {
			line += fmt.Sprint(res)
			if len(res) != len(o.WantRes) || (len(res) > 0 && res[0] != o.WantRes[0]) {
				r.report(i, fmt.Sprintf("result:%s:%s", e.name, label),
					fmt.Sprintf("op %d %s: result %v, model says %v", i, o.desc(), res, o.WantRes))
			}
		}
		for lvl := range o.WantHost {
			if w, g := o.WantHost[lvl], r.hostSeen[lvl]; w != g && strings.HasPrefix(w, "panic:") && strings.HasPrefix(g, "exit:") {
				r.report(i, fmt.Sprintf("host-panic-reported-as-exit:%s:%s:nested-call", e.name, normClass(w)),
					fmt.Sprintf("op %d %s: at nesting level %d the host function's nested call returned the bare exit error %s, model says %s", i, o.desc(), lvl, g, w))
			} else if r.hostSeen[lvl] != o.WantHost[lvl] {
				r.report(i, fmt.Sprintf("nested-outcome:%s:%s:want=%s:got=%s", e.name, label, normClass(o.WantHost[lvl]), normClass(r.hostSeen[lvl])),
					fmt.Sprintf("op %d %s: the host function at nesting level %d observed %q from its nested call, model says %q", i, o.desc(), lvl, r.hostSeen[lvl], o.WantHost[lvl]))
			}
		}
		if len(o.WantHost) > 0 {
			line += " host=" + strings.Join(r.hostSeen, ",")
		}
		r.checkModules(i, o, label)
		failing := o.WantClass != "ok" || got != "ok" || len(o.Fails) > 0
		if failing || probeSel(i) || i == len(ops)-1 {
			line += " | " + r.probe(i, o, failing)
		}
		if r.hung {
			break // the transcript line of this operation is incomplete: not compared
		}
		if i == len(ops)-1 && len(r.findings) == 0 {
			// second probe round at the end of the history, after stray goroutines had time to act
			time.Sleep(3 * time.Millisecond)
			line += " | final " + r.probe(i, o, false)
		}
		r.trans = append(r.trans, line)
		if len(r.findings) > 0 {
			// everything later in this history would be a consequence of the first deviation
			break
		}
		if (o.Kind == "reinst") && err != nil {
			// nothing sensible can follow
			r.report(i, "instantiate-failed:"+e.name+":"+normClass(got), fmt.Sprintf("op %d %s: %v", i, o.desc(), err))
			break
		}
	}
	return r
}

// checkModules compares the modules handed to the instrumented host functions
// during o with the instances whose code performed the calls.
func (r *runner) checkModules(i int, o *op, label string) {
	want := func(ev modEvt) string {
		if ev.Slot < 0 {
			return "tmp/0x0"
		}
		return fmt.Sprintf("%s/%#x", slotNames[ev.Slot], r.inst[ev.Slot].marker)
	}
	for k, ev := range o.WantMods {
		if k >= len(r.modSeen) {
			break
		}
		if got := r.modSeen[k]; got != want(ev) {
			r.report(i, fmt.Sprintf("host-function-handed-wrong-module:%s:%s", r.eng.name, ev.Form),
				fmt.Sprintf("op %d %s: host function %s called by code of instance %s (%s) received module %s (name/marker)", i, o.desc(), ev.Fn, want(ev), ev.Form, got))
			return
		}
	}
	if len(o.WantMods) != len(r.modSeen) && len(r.findings) == 0 {
		r.report(i, fmt.Sprintf("host-calls-differ:%s:%s", r.eng.name, label),
			fmt.Sprintf("op %d %s: %d host function calls observed, model says %d\nseen: %v\nwant: %v", i, o.desc(), len(r.modSeen), len(o.WantMods), r.modSeen, o.WantMods))
	}
}

// Context flavours of an operation's calls.
const (
	ctxBackground = iota
	ctxCancelAfter
	ctxShortTimeout
	ctxLongTimeoutCancelAfter
	ctxValueWrappedCancelAfter
)

var ctxNames = []string{"Background", "WithCancel(cancelled after return)", "WithTimeout(30ms, expires after return)", "WithTimeout(1h)+cancel after return", "WithValue(WithCancel), cancelled after return"}

type ctxKey struct{}

// opContext builds the context of one operation. The short timeout is only
// used on runtimes that watch contexts (elsewhere it would be plain waiting).
func opContext(flavour int, et bool) (context.Context, context.CancelFunc) {
	bg := context.Background()
	switch flavour {
	case ctxCancelAfter:
		return context.WithCancel(bg)
	case ctxShortTimeout:
		if !et {
			return context.WithCancel(bg)
		}
		return context.WithTimeout(bg, 30*time.Millisecond)
	case ctxLongTimeoutCancelAfter:
		return context.WithTimeout(bg, time.Hour)
	case ctxValueWrappedCancelAfter:
		c, cancel := context.WithCancel(bg)
		return context.WithValue(c, ctxKey{}, "c06"), cancel
	}
	return bg, nil
}

func trunc(s string, n int) string {
	if len(s) > n {
		return s[:n] + "…"
	}
	return s
}
