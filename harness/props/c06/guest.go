package c06

import (
	"math"

	"github.com/tetratelabs/wazero/verifharness/wenc"
)

// Guest template. One linear memory page, one mutable i64 global (the
// "counter"), a funcref table of 4 slots:
//
//	slot 0: the instance's table-slot state (null | fa | fb | fwrong), set by tset
//	slot 1: always null
//	slot 2: fwrong (type (i64)->i64), used for the type-mismatch trap
//	slot 3: env.observe, slot 4: WASI proc_exit, slot 5: env.host_exit, slot 6: env.host_panic
//	        (host functions reached through call_indirect)
//	slot 7: always null (table.init / table.copy out-of-range must not touch it)
//
// Every failing export first performs visible effects (counter+1 and an i64
// store), then fails, and has "post" effects after the failing instruction that
// must never become visible (distinct large increments so that a leak is
// recognisable).
const (
	memBytes                                               = 65536
	tableSize                                              = 8
	slotObserve, slotProcExit, slotHostExit, slotHostPanic = 3, 4, 5, 6
	markerAddr                                             = 128 // the harness writes an identity marker of the instance here
	obsAdd                                                 = 7   // env.observe(tag) returns tag+7
	lastCell                                               = memBytes - 8

	postTrap   = uint64(1) << 32
	postRec    = uint64(1) << 36
	postGhp    = uint64(1) << 40
	postGexit  = uint64(1) << 44
	postNest   = uint64(0x10000)
	postVia    = uint64(0x1000000)
	postTlk    = uint64(1) << 48
	hopOKBase  = 1000
	hopCaught  = 2000
	hopTrapDir = 3000 // hop result >= 3000: the guest traps with kind result-3000
)

// frame shapes of the recursive functions: i64 locals, v128 locals.
var recFrames = [4][2]int{{0, 0}, {24, 0}, {96, 16}, {600, 40}}

// trap kinds understood by the guest's trap(kind, addr, val, z) export.
type trapKind struct {
	Name  string // short name for counters
	Class string // wazero's error text after "wasm error: "
}

var trapKinds = []trapKind{
	0:  {"unreachable", "unreachable"},
	1:  {"i32.div_s/0", "integer divide by zero"},
	2:  {"i32.div_s-overflow", "integer overflow"},
	3:  {"i32.trunc_f32_s-nan", "invalid conversion to integer"},
	4:  {"i32.trunc_f64_s-big", "integer overflow"},
	5:  {"i64.load-oob", "out of bounds memory access"},
	6:  {"i64.store-oob-straddle", "out of bounds memory access"},
	7:  {"table.get-oob", "invalid table access"},
	8:  {"call_indirect-oob", "invalid table access"},
	9:  {"call_indirect-null", "invalid table access"},
	10: {"call_indirect-mismatch", "indirect call type mismatch"},
	11: {"atomic.load-unaligned", "unaligned atomic"},
	12: {"memory.init-oob", "out of bounds memory access"},
	13: {"table.init-oob", "invalid table access"},
	14: {"memory.copy-oob", "out of bounds memory access"},
	15: {"memory.fill-oob", "out of bounds memory access"},
	16: {"table.set-oob", "invalid table access"},
	17: {"i64.rem_u/0", "integer divide by zero"},
	18: {"i64.div_s-overflow", "integer overflow"},
	19: {"table.copy-oob", "invalid table access"},
	20: {"memory.init-src-oob", "out of bounds memory access"},
	21: {"i64.atomic.rmw.add-unaligned", "unaligned atomic"},
	22: {"table.fill-oob", "invalid table access"},
	23: {"i32.rem_s/0", "integer divide by zero"},
	24: {"i64.trunc_f64_u-neg", "integer overflow"},
	25: {"i64.trunc_f32_s-nan", "invalid conversion to integer"},
	26: {"atomic.wait32-unshared", "expected shared memory"},
}

// nBaseTraps: the hand-written kinds above; the kinds after them are generated
// from the atomic instruction table (out-of-bounds and unaligned variant of
// every atomic instruction, on the instance's own unshared memory).
var nBaseTraps = len(trapKinds)

var localAtomicKinds = atomicKinds(false)

func init() {
	for _, ak := range localAtomicKinds {
		trapKinds = append(trapKinds, trapKind{ak.name(), ak.class()})
	}
}

type guestOpts struct {
	Peer  bool // import peer.nest and export via_peer
	Start bool // start section = boot
	Boot  bool // export "boot" (for ModuleConfig.WithStartFunctions)
	Small bool // omit the largest recursive frame (cheap to compile per instantiation)
}

func buildGuest(o guestOpts) []byte {
	i32, i64, v128 := wenc.I32, wenc.I64, wenc.V128
	m := &wenc.Module{}
	hop := m.ImportFunc("env", "hop", []byte{i32}, []byte{i32})
	hostPanic := m.ImportFunc("env", "host_panic", []byte{i32}, nil)
	hostExit := m.ImportFunc("env", "host_exit", []byte{i32, i32}, nil)
	observe := m.ImportFunc("env", "observe", []byte{i32}, []byte{i32})
	tlookup := m.ImportFunc("env", "tlookup", []byte{i32}, []byte{i32})
	procExit := m.ImportFunc("wasi_snapshot_preview1", "proc_exit", []byte{i32}, nil)
	var peerNest uint32
	var peerGhp, peerGexit, peerObs [2]uint32 // [direct, indirect] forms of B's exports
	if o.Peer {
		peerNest = m.ImportFunc("peer", "nest", []byte{i32}, []byte{i64})
		for ind, pre := range []string{"", "i"} {
			peerGhp[ind] = m.ImportFunc("peer", pre+"ghp", []byte{i32, i32, i64}, nil)
			peerGexit[ind] = m.ImportFunc("peer", pre+"gexit", []byte{i32, i32, i32, i64}, nil)
			peerObs[ind] = m.ImportFunc("peer", pre+"obs", []byte{i32}, []byte{i32})
		}
	}
	m.Mems = []wenc.Limits{{Min: 1, Max: 1, HasMax: true}}
	m.Tables = []wenc.TableType{{Elem: wenc.FuncRef, Lim: wenc.Limits{Min: tableSize, Max: tableSize, HasMax: true}}}
	m.Globals = []wenc.Global{{Type: wenc.GlobalType{Type: i64, Mutable: true}, Init: wenc.ConstI64(0)}}
	tI32 := m.AddType(nil, []byte{i32})
	tObs := m.AddType([]byte{i32}, []byte{i32})
	tV1 := m.AddType([]byte{i32}, nil)
	tV2 := m.AddType([]byte{i32, i32}, nil)
	m.Exports = append(m.Exports, wenc.Export{Name: "mem", Kind: wenc.ExtMemory, Idx: 0}, wenc.Export{Name: "g0", Kind: wenc.ExtGlobal, Idx: 0})

	code := func() *wenc.Code { return &wenc.Code{} }
	// counter += k
	bump := func(c *wenc.Code, k uint64) *wenc.Code {
		return c.GlobalGet(0).I64Const(int64(k)).Op(0x7c).GlobalSet(0)
	}

	fa := m.AddFunc(nil, []byte{i32}, nil, code().I32Const(11).End().B)
	fb := m.AddFunc(nil, []byte{i32}, nil, code().I32Const(22).End().B)
	fwrong := m.AddFunc([]byte{i64}, []byte{i64}, nil, code().LocalGet(0).End().B)
	m.Elems = []wenc.Elem{
		{Mode: 0, Offset: wenc.ConstI32(2), FuncIdx: []uint32{fwrong, observe, procExit, hostExit, hostPanic}},
		{Mode: 1, FuncIdx: []uint32{fa, fb}}, // elem 1 passive: table.init source
		{Mode: 2, FuncIdx: []uint32{fa, fb, fwrong}},
	}
	m.Datas = []wenc.Data{{Mode: 1, Bytes: []byte{0xd1, 0xd2, 0xd3, 0xd4, 0xd5, 0xd6, 0xd7, 0xd8}}}
	m.DataCount = true

	// inc() -> i64
	c := bump(code(), 1).GlobalGet(0).End()
	m.ExportFunc("inc", m.AddFunc(nil, []byte{i64}, nil, c.B))
	// get() -> i64
	m.ExportFunc("get", m.AddFunc(nil, []byte{i64}, nil, code().GlobalGet(0).End().B))
	// store(addr, val)
	m.ExportFunc("store", m.AddFunc([]byte{i32, i64}, nil, nil, code().LocalGet(0).LocalGet(1).Mem(0x37, 3, 0).End().B))
	// load(addr) -> i64
	m.ExportFunc("load", m.AddFunc([]byte{i32}, []byte{i64}, nil, code().LocalGet(0).Mem(0x29, 3, 0).End().B))
	// tset(k)
	c = code()
	c.LocalGet(0).I32Const(1).Op(0x46).If(0x40).I32Const(0).RefFunc(fa).TableSet(0).Return().End()
	c.LocalGet(0).I32Const(2).Op(0x46).If(0x40).I32Const(0).RefFunc(fb).TableSet(0).Return().End()
	c.LocalGet(0).I32Const(3).Op(0x46).If(0x40).I32Const(0).RefFunc(fwrong).TableSet(0).Return().End()
	c.I32Const(0).RefNull(wenc.FuncRef).TableSet(0).End()
	m.ExportFunc("tset", m.AddFunc([]byte{i32}, nil, nil, c.B))
	// tcall() -> i32: counter+1, then call_indirect slot 0, then counter+2 (post)
	c = bump(code(), 1).I32Const(0).CallIndirect(tI32, 0)
	bump(c, 2).End()
	m.ExportFunc("tcall", m.AddFunc(nil, []byte{i32}, nil, c.B))
	// tprobe() -> i32: effect-free call of slot 0
	m.ExportFunc("tprobe", m.AddFunc(nil, []byte{i32}, nil, code().I32Const(0).CallIndirect(tI32, 0).End().B))
	// aprobe(addr) -> i64: value-neutral use of every atomic instruction on the cell, then its value
	c = code()
	emitAtomicProbe(c, 0, false)
	m.ExportFunc("aprobe", m.AddFunc([]byte{i32}, []byte{i64}, nil, c.End().B))
	// tlk(off, addr, val) -> i32: the host resolves table[off] through experimental/table.LookupFunction and calls it
	c = bump(code(), 1)
	c.LocalGet(1).LocalGet(2).Mem(0x37, 3, 0).LocalGet(0).Call(tlookup)
	bump(c, postTlk).End()
	m.ExportFunc("tlk", m.AddFunc([]byte{i32, i32, i64}, []byte{i32}, nil, c.B))
	// tnull(idx) -> i32
	m.ExportFunc("tnull", m.AddFunc([]byte{i32}, []byte{i32}, nil, code().LocalGet(0).TableGet(0).RefIsNull().End().B))

	// trap(kind, addr, val, z): z is always 0 at run time (keeps operands dynamic)
	c = bump(code(), 1)
	c.LocalGet(1).LocalGet(2).Mem(0x37, 3, 0)
	kase := func(k int, body func(c *wenc.Code)) {
		c.LocalGet(0).I32Const(int32(k)).Op(0x46).If(0x40)
		body(c)
		c.End()
	}
	z := func(c *wenc.Code, base int32) *wenc.Code { return c.I32Const(base).LocalGet(3).Op(0x6a) } // base + z
	kase(0, func(c *wenc.Code) { c.Unreachable() })
	kase(1, func(c *wenc.Code) { c.I32Const(1); z(c, 0).Op(0x6d).Drop() })
	kase(2, func(c *wenc.Code) { c.I32Const(math.MinInt32); z(c, -1).Op(0x6d).Drop() })
	kase(3, func(c *wenc.Code) { c.F32Const(0x7fc00000).Op(0xa8).Drop() })
	kase(4, func(c *wenc.Code) { c.F64(1e30).Op(0xaa).Drop() })
	kase(5, func(c *wenc.Code) { z(c, -8).Mem(0x29, 3, 0).Drop() })
	kase(6, func(c *wenc.Code) { z(c, memBytes-4).I64Const(-1).Mem(0x37, 3, 0) })
	kase(7, func(c *wenc.Code) { z(c, tableSize).TableGet(0).Drop() })
	kase(8, func(c *wenc.Code) { z(c, tableSize).CallIndirect(tI32, 0).Drop() })
	kase(9, func(c *wenc.Code) { z(c, 1).CallIndirect(tI32, 0).Drop() })
	kase(10, func(c *wenc.Code) { z(c, 2).CallIndirect(tI32, 0).Drop() })
	kase(11, func(c *wenc.Code) { z(c, 1).Prefixed(0xfe, 0x10).U32(2).U32(0).Drop() })
	kase(12, func(c *wenc.Code) { z(c, memBytes-2).I32Const(0).I32Const(4).Prefixed(0xfc, 8).U32(0).U32(0) })
	kase(13, func(c *wenc.Code) { z(c, tableSize-1).I32Const(0).I32Const(2).Prefixed(0xfc, 12).U32(1).U32(0) })
	kase(14, func(c *wenc.Code) { z(c, memBytes-4).I32Const(0).I32Const(8).Prefixed(0xfc, 10).U32(0).U32(0) })
	kase(15, func(c *wenc.Code) { z(c, memBytes-4).I32Const(0xee).I32Const(8).Prefixed(0xfc, 11).U32(0) })
	kase(16, func(c *wenc.Code) { z(c, tableSize).RefFunc(fa).TableSet(0) })
	kase(17, func(c *wenc.Code) { c.I64Const(7).LocalGet(3).Op(0xad).Op(0x82).Drop() })
	kase(18, func(c *wenc.Code) {
		c.I64Const(math.MinInt64).LocalGet(3).Op(0xad).I64Const(1).Op(0x7d).Op(0x7f).Drop() // MIN / (z-1)
	})
	kase(19, func(c *wenc.Code) { z(c, tableSize-1).I32Const(2).I32Const(2).Prefixed(0xfc, 14).U32(0).U32(0) })
	kase(20, func(c *wenc.Code) { z(c, 64).I32Const(6).I32Const(4).Prefixed(0xfc, 8).U32(0).U32(0) })
	kase(21, func(c *wenc.Code) { z(c, 12).I64Const(1).Prefixed(0xfe, 0x1f).U32(3).U32(0).Drop() })
	kase(22, func(c *wenc.Code) { z(c, tableSize-1).RefFunc(fb).I32Const(2).Prefixed(0xfc, 17).U32(0) })
	kase(23, func(c *wenc.Code) { c.I32Const(-5); z(c, 0).Op(0x6f).Drop() })
	kase(24, func(c *wenc.Code) { c.F64(-1.5).Op(0xb1).Drop() })
	kase(25, func(c *wenc.Code) { c.F32Const(0xffc00001).Op(0xae).Drop() })
	kase(26, func(c *wenc.Code) { z(c, 16).I32Const(0).I64Const(1000).Prefixed(0xfe, 0x01).U32(2).U32(0).Drop() })
	for k, ak := range localAtomicKinds {
		ak := ak
		kase(nBaseTraps+k, func(c *wenc.Code) { emitAtomicFailure(c, ak, memBytes, 3) })
	}
	// post effects (never reached for a valid kind)
	bump(c, postTrap)
	c.LocalGet(1).LocalGet(2).I64Const(-1).Op(0x85).Mem(0x37, 3, 0)
	c.End()
	trapFn := m.AddFunc([]byte{i32, i32, i64, i32}, nil, nil, c.B)
	m.ExportFunc("trap", trapFn)

	// rec_k(d, a) -> i64
	var recIdx [4]uint32
	for k, fr := range recFrames {
		if o.Small && k == 3 {
			fr = recFrames[1]
		}
		n, nv := fr[0], fr[1]
		var locals []byte
		for j := 0; j < n; j++ {
			locals = append(locals, i64)
		}
		for j := 0; j < nv; j++ {
			locals = append(locals, v128)
		}
		locals = append(locals, i64)
		rIdx := uint32(2 + n + nv)
		self := m.NumImportedFuncs() + uint32(len(m.Funcs))
		c := code()
		c.LocalGet(0).Op(0x45).If(0x40).LocalGet(1).Return().End()
		val := func(j int) { // a + d*(j+1)
			c.LocalGet(1).LocalGet(0).Op(0xad).I64Const(int64(j + 1)).Op(0x7e).Op(0x7c)
		}
		for j := 0; j < n; j++ {
			val(j)
			c.LocalSet(uint32(2 + j))
		}
		for j := 0; j < nv; j++ {
			val(n + j)
			c.Prefixed(0xfd, 0x12).LocalSet(uint32(2 + n + j))
		}
		c.LocalGet(0).I32Const(1).Op(0x6b).LocalGet(1).I64Const(3).Op(0x7c).Call(self).LocalSet(rIdx)
		for j := 0; j < n; j++ {
			c.LocalGet(rIdx).LocalGet(uint32(2 + j)).Op(0x7c).LocalSet(rIdx)
		}
		for j := 0; j < nv; j++ {
			c.LocalGet(rIdx).LocalGet(uint32(2+n+j)).Prefixed(0xfd, 0x1d).Op(1).Op(0x7c).LocalSet(rIdx)
		}
		c.LocalGet(rIdx).End()
		recIdx[k] = m.AddFunc([]byte{i32, i64}, []byte{i64}, locals, c.B)
		if recIdx[k] != self {
			panic("rec index")
		}
	}
	// rec(k, d, a, addr, val) -> i64
	c = bump(code(), 1)
	c.LocalGet(3).LocalGet(4).Mem(0x37, 3, 0)
	for k := 0; k < 4; k++ {
		c.LocalGet(0).I32Const(int32(k)).Op(0x46).If(0x40).LocalGet(1).LocalGet(2).Call(recIdx[k]).LocalSet(5).End()
	}
	bump(c, postRec)
	c.LocalGet(5).End()
	m.ExportFunc("rec", m.AddFunc([]byte{i32, i32, i64, i32, i64}, []byte{i64}, []byte{i64}, c.B))

	// ghp(hk, addr, val) / ighp: the host function is called directly / through call_indirect
	// gexit(code, how, addr, val) / igexit: how 0 = WASI proc_exit, else env.host_exit(code, how)
	// obs(tag) -> i32 / iobs: plain observer host function
	for ind, pre := range []string{"", "i"} {
		callHost := func(c *wenc.Code, fn uint32, slot int32, typ uint32) {
			if ind == 0 {
				c.Call(fn)
			} else {
				c.I32Const(slot).CallIndirect(typ, 0)
			}
		}
		c = bump(code(), 1)
		c.LocalGet(1).LocalGet(2).Mem(0x37, 3, 0).LocalGet(0)
		callHost(c, hostPanic, slotHostPanic, tV1)
		bump(c, postGhp).End()
		m.ExportFunc(pre+"ghp", m.AddFunc([]byte{i32, i32, i64}, nil, nil, c.B))

		c = bump(code(), 1)
		c.LocalGet(2).LocalGet(3).Mem(0x37, 3, 0)
		c.LocalGet(1).Op(0x45).If(0x40).LocalGet(0)
		callHost(c, procExit, slotProcExit, tV1)
		c.Else().LocalGet(0).LocalGet(1)
		callHost(c, hostExit, slotHostExit, tV2)
		c.End()
		bump(c, postGexit).End()
		m.ExportFunc(pre+"gexit", m.AddFunc([]byte{i32, i32, i32, i64}, nil, nil, c.B))

		c = bump(code(), 1).LocalGet(0)
		callHost(c, observe, slotObserve, tObs)
		c.End()
		m.ExportFunc(pre+"obs", m.AddFunc([]byte{i32}, []byte{i32}, nil, c.B))
	}

	// nest(level) -> i64
	c = bump(code(), 1)
	c.I32Const(48).GlobalGet(0).Mem(0x37, 3, 0)
	c.LocalGet(0).Call(hop).LocalSet(1)
	c.I32Const(56).LocalGet(1).Op(0xad).Mem(0x37, 3, 0)
	c.LocalGet(1).I32Const(hopTrapDir).Op(0x4e).If(0x40) // i32.ge_s
	c.LocalGet(1).I32Const(hopTrapDir).Op(0x6b).I32Const(40).GlobalGet(0).I32Const(0).Call(trapFn)
	c.End()
	bump(c, postNest).GlobalGet(0).End()
	nest := m.AddFunc([]byte{i32}, []byte{i64}, []byte{i32}, c.B)
	m.ExportFunc("nest", nest)

	if o.Peer {
		// via_peer(level) -> i64
		c = bump(code(), 1)
		c.I32Const(32).LocalGet(0).Call(peerNest).Mem(0x37, 3, 0)
		bump(c, postVia).GlobalGet(0).End()
		m.ExportFunc("via_peer", m.AddFunc([]byte{i32}, []byte{i64}, nil, c.B))
		// vp_ghp(ind, hk, addr, val), vp_gexit(ind, code, how, addr, val), vp_obs(ind, tag) -> i32:
		// A calls B's export through the wasm import; B then calls the host function directly
		// (ind=0) or through call_indirect (ind=1).
		pick := func(c *wenc.Code, fns [2]uint32, nargs int, bt byte) {
			c.LocalGet(0).If(bt)
			for i := 1; i <= nargs; i++ {
				c.LocalGet(uint32(i))
			}
			c.Call(fns[1]).Else()
			for i := 1; i <= nargs; i++ {
				c.LocalGet(uint32(i))
			}
			c.Call(fns[0]).End()
		}
		c = bump(code(), 1)
		pick(c, peerGhp, 3, 0x40)
		bump(c, postVia).End()
		m.ExportFunc("vp_ghp", m.AddFunc([]byte{i32, i32, i32, i64}, nil, nil, c.B))
		c = bump(code(), 1)
		pick(c, peerGexit, 4, 0x40)
		bump(c, postVia).End()
		m.ExportFunc("vp_gexit", m.AddFunc([]byte{i32, i32, i32, i32, i64}, nil, nil, c.B))
		c = bump(code(), 1)
		pick(c, peerObs, 1, i32)
		bump(c, postVia).End()
		m.ExportFunc("vp_obs", m.AddFunc([]byte{i32, i32}, []byte{i32}, nil, c.B))
	}
	if o.Start || o.Boot {
		boot := m.AddFunc(nil, nil, nil, code().I32Const(0).Call(nest).Drop().End().B)
		if o.Start {
			m.Start = &boot
		}
		if o.Boot {
			m.ExportFunc("boot", boot)
		}
	}
	return m.Encode()
}

// recModel computes rec_k(d, a) for a frame with N = n+nv value-carrying locals.
func recModel(k int, d uint32, a uint64, small bool) uint64 {
	fr := recFrames[k]
	if small && k == 3 {
		fr = recFrames[1]
	}
	N := uint64(fr[0] + fr[1])
	T := N * (N + 1) / 2
	r := a + 3*uint64(d)
	for lvl := uint64(1); lvl <= uint64(d); lvl++ {
		ap := a + 3*(uint64(d)-lvl)
		r += N*ap + lvl*T
	}
	return r
}
