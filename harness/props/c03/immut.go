package c03

import (
	"fmt"
	"sort"

	"github.com/tetratelabs/wazero/verifharness/core"
)

// Instruction-immediate-aware mutations: one immediate of one instruction in a
// function body of a valid module is re-encoded non-canonically (over-long
// LEB128 with 1-4 extra continuation bytes, also beyond the 5/10-byte limit;
// reserved bytes and lane/heap-type bytes spelled as an over-long LEB; lane
// indexes out of range). The validator and the two engines each decode the
// body with their own instruction decoder: an encoding that one of them skips
// with a different length than the others shifts the instruction boundaries
// for that one only.

// instrClass names the instruction an immediate belongs to.
func instrClass(op byte, sub uint32) string {
	switch {
	case op == 0x02 || op == 0x03 || op == 0x04:
		return "block"
	case op == 0x0c || op == 0x0d:
		return "br"
	case op == 0x0e:
		return "br_table"
	case op == 0x10:
		return "call"
	case op == 0x11:
		return "call_indirect"
	case op == 0x12:
		return "return_call"
	case op == 0x13:
		return "return_call_indirect"
	case op == 0x1c:
		return "select_t"
	case op >= 0x20 && op <= 0x22:
		return "local"
	case op == 0x23 || op == 0x24:
		return "global"
	case op == 0x25 || op == 0x26:
		return "table.get_set"
	case op >= 0x28 && op <= 0x3e:
		return "memop"
	case op == 0x3f:
		return "memory.size"
	case op == 0x40:
		return "memory.grow"
	case op == 0x41:
		return "i32.const"
	case op == 0x42:
		return "i64.const"
	case op == 0xd0:
		return "ref.null"
	case op == 0xd2:
		return "ref.func"
	case op == 0xfc:
		names := map[uint32]string{8: "memory.init", 9: "data.drop", 10: "memory.copy", 11: "memory.fill", 12: "table.init",
			13: "elem.drop", 14: "table.copy", 15: "table.grow", 16: "table.size", 17: "table.fill"}
		if n, ok := names[sub]; ok {
			return n
		}
		return "misc"
	case op == 0xfd:
		switch {
		case sub <= 11 || sub == 92 || sub == 93:
			return "v128.memop"
		case sub >= 84 && sub <= 91:
			return "v128.lane-memop"
		case sub >= 21 && sub <= 34:
			return "v128.lane"
		}
		return "v128"
	case op == 0xfe:
		return "atomic"
	}
	return fmt.Sprintf("op-%02x", op)
}

// immKind is "<instruction class>:<immediate kind>" ("" = not an immediate this
// family mutates).
func immKind(s *Site) string {
	if s.Fn < 0 || !s.InInstr {
		return ""
	}
	switch s.Kind {
	case kSubOpcode:
		return fmt.Sprintf("prefix-%02x:subopcode", s.Op)
	case kMemIndex, kTableIndex, kAlign, kOffset, kLocalIndex, kGlobalIndex, kFuncIndex, kTypeIndex, kLabel, kBrTableN,
		kLane, kBlockType, kSelectN, kElemIndex, kDataIndex:
		return instrClass(s.Op, s.Sub) + ":" + s.Kind
	case kConstImm:
		if s.LEB {
			return instrClass(s.Op, s.Sub) + ":" + s.Kind
		}
	case kRefType:
		if s.Op == 0xd0 {
			return "ref.null:heap-type"
		}
	}
	return ""
}

// ImmKinds lists the immediate kinds present in a module.
func ImmKinds(b []byte) []string {
	w := Walk(b)
	set := map[string]bool{}
	for i := range w.Sites {
		if k := immKind(&w.Sites[i]); k != "" {
			set[k] = true
		}
	}
	var l []string
	for k := range set {
		l = append(l, k)
	}
	sort.Strings(l)
	return l
}

// overlongByte spells the one-byte value v as an over-long LEB128 with extra
// continuation bytes.
func overlongByte(v byte, extra int, signed bool) []byte {
	if signed && v&0x40 != 0 {
		// sign-extended: v is the 7-bit encoding of a negative number
		b := []byte{v | 0x80}
		for i := 1; i < extra; i++ {
			b = append(b, 0xff)
		}
		return append(b, 0x7f)
	}
	b := []byte{v | 0x80}
	for i := 1; i < extra; i++ {
		b = append(b, 0x80)
	}
	return append(b, 0x00)
}

// ImmMutate re-encodes one immediate of kind want (or of a PRNG-chosen kind
// present in the module when want is absent). Returns ok=false if the module
// has no immediates.
func ImmMutate(r *core.Rng, b []byte, want string) (out []byte, rec string, kind string, ok bool) {
	w := Walk(b)
	byKind := map[string][]int{}
	var kinds []string
	for i := range w.Sites {
		if k := immKind(&w.Sites[i]); k != "" {
			if byKind[k] == nil {
				kinds = append(kinds, k)
			}
			byKind[k] = append(byKind[k], i)
		}
	}
	if len(kinds) == 0 {
		return b, "", "", false
	}
	sort.Strings(kinds)
	kind = want
	if byKind[kind] == nil {
		kind = kinds[r.Intn(len(kinds))]
	}
	l := byKind[kind]
	s := &w.Sites[l[r.Intn(len(l))]]
	extra := 1 + r.Intn(4)
	if r.Chance(1, 8) {
		extra = 5 + r.Intn(6) // far beyond the 5/10-byte limits
	}
	var nb []byte
	rec = fmt.Sprintf("imm-overlong:%s:+%d", kind, extra)
	switch {
	case s.Kind == kLane && r.Bool():
		nb = []byte{byte(16 + r.Intn(240))}
		rec = "imm-lane-out-of-range:" + kind
	case !s.LEB: // reserved bytes, lanes, heap types
		nb = overlongByte(b[s.Off], extra, s.Kind == kRefType)
	case s.Kind == kBlockType || s.Kind == kConstImm:
		nb = encS64Pad(int64(s.Val), s.Len+extra)
	default:
		nb = encU32Pad(uint32(s.Val), s.Len+extra)
	}
	return splice(b, w, s.Frames, s.Off, s.Len, nb, true), rec, kind, true
}
