package c03

import (
	"context"
	"encoding/binary"
	"encoding/hex"
	"encoding/json"
	"fmt"
	"hash/fnv"
	"os"
	"regexp"
	"runtime"
	"runtime/debug"
	"runtime/metrics"
	"sort"
	"strconv"
	"strings"
	"sync"
	"syscall"
	"time"

	"github.com/tetratelabs/wazero"
	"github.com/tetratelabs/wazero/api"
	"github.com/tetratelabs/wazero/experimental"
	"github.com/tetratelabs/wazero/verifharness/core"
	"github.com/tetratelabs/wazero/verifharness/wenc"
	"github.com/tetratelabs/wazero/verifharness/wgen"
	"github.com/tetratelabs/wazero/verifharness/wrun"
)

// ---- feature sets and engines -------------------------------------------------

var fsNames = []string{"v1", "v2", "v2+threads", "v2+tailcall", "all"}
var fsBits = []api.CoreFeatures{
	api.CoreFeaturesV1,
	api.CoreFeaturesV2,
	api.CoreFeaturesV2 | experimental.CoreFeaturesThreads,
	api.CoreFeaturesV2 | experimental.CoreFeaturesTailCall,
	api.CoreFeaturesV2 | experimental.CoreFeaturesThreads | experimental.CoreFeaturesTailCall,
}
var engNames = []string{"interpreter", "compiler"}

const nCombo = 10 // combo = fs*2 + engine

func comboName(i int) string { return fsNames[i/2] + "/" + engNames[i%2] }

// ---- cases and results ---------------------------------------------------------

// inCase describes one input; the child rebuilds the bytes deterministically.
type inCase struct {
	K   string `json:"k"`             // seed | mut | wgen | wmut | raw | lim | lit
	I   int    `json:"i,omitempty"`   // corpus index (seed, mut) / limit module number (lim)
	S   uint64 `json:"s,omitempty"`   // PRNG seed (mut, wmut, raw, wgen)
	Hex string `json:"hex,omitempty"` // literal input (lit)
	W   string `json:"w,omitempty"`   // wanted immediate kind (imut)
	// probe mode only
	Combo   int    `json:"combo,omitempty"`
	Control string `json:"control,omitempty"` // hex of the control input
}

type finding struct {
	Sig    string `json:"sig"`
	Detail string `json:"detail"`
	Combo  string `json:"combo"`
	Err    string `json:"err,omitempty"` // the error CompileModule returned (allocation findings)
}

type outCase struct {
	Hash      uint64         `json:"h"`
	Len       int            `json:"n"`
	Ops       []string       `json:"ops,omitempty"`
	Acc       [nCombo]int8   `json:"acc"`   // 1 accepted, 0 rejected, -1 not evaluated
	Alloc     [nCombo]uint64 `json:"alloc"` // TotalAlloc delta of the compile
	Errs      []string       `json:"errs,omitempty"`
	Inst      int            `json:"inst,omitempty"`     // instantiations that succeeded
	InstErr   map[string]int `json:"insterr,omitempty"`  // instantiation outcome classes
	Calls     int            `json:"calls,omitempty"`    // exported function calls made
	CallOut   map[string]int `json:"callout,omitempty"`  // call outcome classes
	Executed  bool           `json:"exec,omitempty"`     // instantiated and >=1 call on both engines under some fs
	Deadline  int            `json:"deadline,omitempty"` // exec deadline expiries
	SkipHuge  bool           `json:"skiphuge,omitempty"`
	SkipParse bool           `json:"skipparse,omitempty"`
	Findings  []finding      `json:"findings,omitempty"`
	Hex       string         `json:"hex,omitempty"`
	WgenFS    int            `json:"wgenfs,omitempty"` // index of wrun.Features(cfg) for wgen inputs
	ErrOf     map[int]string `json:"errof,omitempty"`  // wgen inputs: error class per rejecting combo
	AllocViol bool           `json:"allocviol,omitempty"`
	ImmKind   string         `json:"immkind,omitempty"` // immediate-mutation cases: the immediate kind that was re-encoded
	Agree     int            `json:"agree,omitempty"`   // immediate-mutation cases: call outcomes compared between the engines
	// probe
	ControlMs float64 `json:"control_ms,omitempty"`
	ProbeMs   float64 `json:"probe_ms,omitempty"`
	ProbeErr  string  `json:"probe_err,omitempty"`
}

// ---- corpus ---------------------------------------------------------------------

type seedFile struct {
	Name string
	Bin  []byte
}

var corpus []seedFile

func writeCorpus(path string, seeds []seedFile) error {
	var b []byte
	b = binary.LittleEndian.AppendUint32(b, uint32(len(seeds)))
	for _, s := range seeds {
		b = binary.LittleEndian.AppendUint32(b, uint32(len(s.Name)))
		b = append(b, s.Name...)
		b = binary.LittleEndian.AppendUint32(b, uint32(len(s.Bin)))
		b = append(b, s.Bin...)
	}
	return os.WriteFile(path, b, 0o644)
}

func readCorpus(path string) ([]seedFile, error) {
	b, err := os.ReadFile(path)
	if err != nil {
		return nil, err
	}
	n := binary.LittleEndian.Uint32(b)
	b = b[4:]
	out := make([]seedFile, 0, n)
	for i := uint32(0); i < n; i++ {
		l := binary.LittleEndian.Uint32(b)
		name := string(b[4 : 4+l])
		b = b[4+l:]
		l = binary.LittleEndian.Uint32(b)
		out = append(out, seedFile{Name: name, Bin: append([]byte(nil), b[4:4+l]...)})
		b = b[4+l:]
	}
	return out, nil
}

// limitModules are the hand-built "implementation limit" modules that take part
// in the calibration of the allocation bound: one function with 50 000 locals
// (the per-function limit other engines accept).
func limitModule(i int) []byte {
	t := []byte{0x7e, 0x7b, 0x7f}[i%3]
	b := append([]byte(nil), header...)
	b = append(b, 1, 4, 1, 0x60, 0, 0, 3, 2, 1, 0)
	body := encU32(1)
	body = append(body, encU32(50000)...)
	body = append(body, t, 0x0b)
	code := encU32(1)
	code = append(code, encU32(uint32(len(body)))...)
	code = append(code, body...)
	b = append(b, 10)
	b = append(b, encU32(uint32(len(code)))...)
	return append(b, code...)
}

const nLimitModules = 3

// buildInput rebuilds the bytes of a case. wcfg is set for wgen inputs.
func buildInput(ic *inCase, seeds []seedFile) (bin []byte, ops []string, wgenFS int) {
	wgenFS = -1
	switch ic.K {
	case "seed":
		return seeds[ic.I].Bin, nil, -1
	case "lim":
		return limitModule(ic.I), []string{"limit-module"}, -1
	case "lit":
		b, _ := hex.DecodeString(ic.Hex)
		return b, nil, -1
	case "raw":
		r := core.NewRng(int64(ic.S), 31)
		b, op := RawInput(r)
		return b, []string{op}, -1
	case "wgen", "wmut", "iwmut", "xwmut":
		r := core.NewRng(int64(ic.S), 7)
		cfg := wgen.DefaultConfig(r)
		if cfg.Funcs > 5 {
			cfg.Funcs = 5
		}
		p := wgen.Generate(r, cfg)
		if ic.K == "wgen" {
			f := wrun.Features(cfg)
			for i, fb := range fsBits {
				if fb == f {
					wgenFS = i
				}
			}
			return p.Bin, nil, wgenFS
		}
		if ic.K == "xwmut" {
			mr := core.NewRng(int64(ic.S), 37)
			b, rec, ok := IdxMutate(mr, p.Bin)
			if !ok {
				return p.Bin, []string{"idx-none"}, -1
			}
			return b, []string{rec}, -1
		}
		if ic.K == "iwmut" {
			mr := core.NewRng(int64(ic.S), 35)
			b, rec, _, ok := ImmMutate(mr, p.Bin, ic.W)
			if !ok {
				return p.Bin, []string{"imm-none"}, -1
			}
			return b, []string{rec}, -1
		}
		mr := core.NewRng(int64(ic.S), 33)
		b, ops := Mutate(mr, p.Bin, func() []byte { return seeds[mr.Intn(len(seeds))].Bin })
		return b, ops, -1
	case "xtpl":
		return IdxTemplate(core.NewRng(int64(ic.S), 37)), nil, -1
	case "xmut", "xcmut":
		mr := core.NewRng(int64(ic.S), 37)
		var base []byte
		if ic.K == "xmut" {
			base = IdxTemplate(mr)
		} else {
			base = seeds[ic.I].Bin
		}
		b, rec, ok := IdxMutate(mr, base)
		if !ok {
			return base, []string{"idx-none"}, -1
		}
		return b, []string{rec}, -1
	case "imut":
		mr := core.NewRng(int64(ic.S), 35)
		b, rec, _, ok := ImmMutate(mr, seeds[ic.I].Bin, ic.W)
		if !ok {
			return seeds[ic.I].Bin, []string{"imm-none"}, -1
		}
		return b, []string{rec}, -1
	case "mut":
		mr := core.NewRng(int64(ic.S), 33)
		b, ops := Mutate(mr, seeds[ic.I].Bin, func() []byte { return seeds[mr.Intn(len(seeds))].Bin })
		return b, ops, -1
	}
	return nil, nil, -1
}

// ---- sentinel: aborts the process when a compile exceeds its allocation bound
// or a step exceeds its wall-clock budget -------------------------------------------

// The sentinel state is guarded by sMu: the sentinel decides and exits inside
// the critical section and arm/disarm take the same lock, so the process can
// never be ended on behalf of a step that has already been disarmed (which
// would attribute the death to a later case).
var (
	sMu       sync.Mutex
	sArmed    bool
	sBase     uint64
	sLimit    uint64 // 0 = no allocation limit
	sDeadline int64  // process CPU time (ns) at which the step is out of budget, 0 = none
	sWallDl   int64  // unix nanos: wall-clock fallback (8x the budget) for a step that blocks without burning CPU
	sPhase    string
	sStarted  bool
)

// cpuNanos is the CPU time (user+system) this process has consumed: step
// budgets are counted in it so that a loaded machine does not turn a slow
// step into a timeout.
func cpuNanos() int64 {
	var ru syscall.Rusage
	if syscall.Getrusage(syscall.RUSAGE_SELF, &ru) != nil {
		return 0
	}
	return ru.Utime.Nano() + ru.Stime.Nano()
}

func heapAllocs(s []metrics.Sample) uint64 {
	metrics.Read(s)
	return s[0].Value.Uint64()
}

func startSentinel() {
	if sStarted {
		return
	}
	sStarted = true
	go func() {
		s := []metrics.Sample{{Name: "/gc/heap/allocs:bytes"}}
		for {
			time.Sleep(2 * time.Millisecond)
			sMu.Lock()
			if sArmed {
				if sLimit != 0 {
					if a := heapAllocs(s); a > sBase && a-sBase > sLimit {
						fmt.Fprintf(os.Stderr, "\nC03-ABORT kind=alloc phase=%s alloc=%d limit=%d\n", sPhase, a-sBase, sLimit)
						os.Exit(9)
					}
				}
				if sDeadline != 0 && (cpuNanos() > sDeadline || time.Now().UnixNano() > sWallDl) {
					fmt.Fprintf(os.Stderr, "\nC03-ABORT kind=timeout phase=%s\n", sPhase)
					os.Exit(8)
				}
			}
			sMu.Unlock()
		}
	}()
}

var armSample = []metrics.Sample{{Name: "/gc/heap/allocs:bytes"}}

func arm(phase string, allocLimit uint64, budget time.Duration) {
	sMu.Lock()
	sPhase = phase
	sBase = heapAllocs(armSample)
	sLimit = allocLimit
	sDeadline = 0
	if budget > 0 {
		sDeadline = cpuNanos() + int64(budget)
		sWallDl = time.Now().Add(8 * budget).UnixNano()
	}
	sArmed = true
	sMu.Unlock()
}

func disarm() {
	sMu.Lock()
	sArmed = false
	sMu.Unlock()
}

// ---- child state -----------------------------------------------------------------

type bounds struct {
	A, B [2]float64 // per engine
	Set  bool
}

func (b *bounds) limit(n, eng int) uint64 {
	if !b.Set {
		return 1 << 30 // calibration phase: only the process limit protects the child
	}
	return uint64(b.A[eng]*float64(n) + b.B[eng])
}

// engineRejected: the error comes from an engine's lowering, not from the decoder or
// the validator, so the engine did work on the module before rejecting it.
func engineRejected(errText string) bool {
	return strings.HasPrefix(errText, "handling instruction") || strings.Contains(errText, "failed to lower") || strings.Contains(errText, "failed to compile")
}

// rejectedLimit bounds the compile of an input that is rejected: it never reached an
// engine, so it may not cost more than an accepted input of that size is allowed to
// cost on the cheaper engine.
func (b *bounds) rejectedLimit(n int) uint64 {
	l0, l1 := b.limit(n, 0), b.limit(n, 1)
	if l1 < l0 {
		return l1
	}
	return l0
}

type childState struct {
	seeds    []seedFile
	rts      [nCombo]wazero.Runtime
	bnd      bounds
	caseBudg time.Duration // wall-clock budget of one compile before it becomes a watchdog candidate
	execBudg time.Duration // wall-clock budget of one instantiate+calls step (its context deadline is execDl)
	execDl   time.Duration
	tracing  bool     // immediate-mutation cases: record the outcome of every step for the engine comparison
	trace    []string // of the exec step in progress
}

var cs *childState

func childInit() *childState {
	if cs != nil {
		return cs
	}
	s := &childState{caseBudg: 10 * time.Second, execBudg: 4 * time.Second, execDl: 120 * time.Millisecond}
	if p := os.Getenv("C03_CORPUS"); p != "" {
		var err error
		if s.seeds, err = readCorpus(p); err != nil {
			fmt.Fprintln(os.Stderr, "C03 child: cannot read corpus:", err)
			os.Exit(3)
		}
	}
	if v := os.Getenv("C03_BOUNDS"); v != "" {
		f := strings.Split(v, ",")
		if len(f) == 4 {
			s.bnd.A[0], _ = strconv.ParseFloat(f[0], 64)
			s.bnd.B[0], _ = strconv.ParseFloat(f[1], 64)
			s.bnd.A[1], _ = strconv.ParseFloat(f[2], 64)
			s.bnd.B[1], _ = strconv.ParseFloat(f[3], 64)
			s.bnd.Set = true
		}
	}
	if v := os.Getenv("C03_CASE_BUDGET_S"); v != "" {
		if n, err := strconv.Atoi(v); err == nil {
			s.caseBudg = time.Duration(n) * time.Second
		}
	}
	startSentinel()
	cs = s
	return s
}

func (s *childState) rt(combo int) wazero.Runtime {
	if s.rts[combo] != nil {
		return s.rts[combo]
	}
	var rc wazero.RuntimeConfig
	if combo%2 == 1 {
		rc = wazero.NewRuntimeConfigCompiler()
	} else {
		rc = wazero.NewRuntimeConfigInterpreter()
	}
	rc = rc.WithCoreFeatures(fsBits[combo/2]).WithCloseOnContextDone(true).WithMemoryLimitPages(512)
	s.rts[combo] = wazero.NewRuntimeWithConfig(context.Background(), rc)
	return s.rts[combo]
}

func (s *childState) dropRuntime(combo int) {
	if s.rts[combo] != nil {
		func() {
			defer func() { recover() }()
			s.rts[combo].Close(context.Background())
		}()
		s.rts[combo] = nil
	}
}

var (
	reHex    = regexp.MustCompile(`0x[0-9a-fA-F]+`)
	reNum    = regexp.MustCompile(`[0-9]+`)
	reQuoted = regexp.MustCompile(`"(?:[^"\\]|\\.)*"`)
	reBrack  = regexp.MustCompile(`\[[^\]]{0,200}\]`)
)

// errClass strips numbers, hex and quoted strings from an error text: a proxy
// for the decoder/validator path that produced it.
func errClass(s string) string {
	if i := strings.IndexByte(s, '\n'); i >= 0 {
		s = s[:i]
	}
	s = reQuoted.ReplaceAllString(s, `"S"`)
	s = reBrack.ReplaceAllString(s, "[S]")
	s = reHex.ReplaceAllString(s, "H")
	s = reNum.ReplaceAllString(s, "N")
	var sb strings.Builder
	for _, c := range s {
		if c < 0x20 || c > 0x7e {
			sb.WriteByte('?')
		} else {
			sb.WriteRune(c)
		}
	}
	return core.Trunc(sb.String(), 140)
}

var procStart = time.Now()

func phaseLine(p string) {
	if os.Getenv("C03_TRACE") != "" {
		fmt.Fprintf(os.Stderr, "C03@ %s t=%v\n", p, time.Since(procStart))
		return
	}
	fmt.Fprintf(os.Stderr, "C03@ %s\n", p)
}

// compileOne runs CompileModule for one combo under the monitors.
func (s *childState) compileOne(bin []byte, combo int, allocLimit uint64, budget time.Duration) (cm wazero.CompiledModule, errText string, alloc uint64, panicText string) {
	rt := s.rt(combo)
	ph := "compile " + comboName(combo)
	phaseLine(ph)
	var ms0, ms1 runtime.MemStats
	runtime.ReadMemStats(&ms0)
	arm(ph, allocLimit, budget)
	func() {
		defer func() {
			if v := recover(); v != nil {
				panicText = fmt.Sprintf("%v\n%s", v, debug.Stack())
			}
		}()
		var err error
		cm, err = rt.CompileModule(context.Background(), bin)
		if err != nil {
			errText = err.Error()
			cm = nil
		}
	}()
	disarm()
	runtime.ReadMemStats(&ms1)
	alloc = ms1.TotalAlloc - ms0.TotalAlloc
	return
}

// panicSig = <innermost wazero function on the stack>:<panic value without numbers>.
func panicSig(p string) string {
	first := p
	if i := strings.IndexByte(first, '\n'); i >= 0 {
		first = first[:i]
	}
	fn := "?"
	for _, l := range strings.Split(p, "\n") {
		if strings.HasPrefix(l, "github.com/tetratelabs/wazero/") && !strings.Contains(l, "verifharness") {
			l = strings.TrimPrefix(l, "github.com/tetratelabs/wazero/")
			if i := strings.LastIndexByte(l, '('); i > 0 {
				l = l[:i]
			}
			if i := strings.LastIndexByte(l, '/'); i >= 0 {
				l = l[i+1:]
			}
			fn = l
			break
		}
	}
	return fn + ":" + strings.ReplaceAll(errClass(first), " ", "_")
}

// panicInputTag names what the independent walker finds wrong with an input that
// made CompileModule panic (so that different root causes behind the same Go
// panic text get different signatures).
func panicInputTag(bin []byte) string {
	w := Walk(bin)
	if !w.Hdr {
		return "no-header"
	}
	nTypes := uint64(len(w.Types))
	for i := range w.Sites {
		s := &w.Sites[i]
		if s.Kind == kTypeIndex && s.Fn < 0 && w.Secs[s.Sec].ID == 3 && s.Val >= nTypes {
			return "function-section-type-index-out-of-range"
		}
	}
	if !w.Complete {
		return "malformed-framing"
	}
	return "well-framed"
}

// ---- import stubs ------------------------------------------------------------------

func zeroBody(results []byte) []byte {
	c := &wenc.Code{}
	for _, t := range results {
		switch t {
		case wenc.I32:
			c.I32Const(0)
		case wenc.I64:
			c.I64Const(0)
		case wenc.F32:
			c.F32Const(0)
		case wenc.F64:
			c.F64Const(0)
		case wenc.V128:
			c.V128Const(0, 0)
		default:
			c.RefNull(t)
		}
	}
	return c.End().B
}

func toLimits(l Lim) wenc.Limits {
	return wenc.Limits{Min: l.Min, Max: l.Max, HasMax: l.HasMax, Shared: l.Shared}
}

// stubGlobalInit: imported globals get distinctive non-zero values (a raw global value that
// is mistaken for a reference or an index must not look like null / zero).
func stubGlobalInit(t byte) []byte {
	switch t {
	case wenc.I32:
		return wenc.ConstI32(0x12345)
	case wenc.I64:
		return wenc.ConstI64(0x123456789a)
	case wenc.F32:
		return wenc.ConstF32(0x3fc00000)
	case wenc.F64:
		return wenc.ConstF64(0x4004000000000000)
	}
	return wenc.ZeroConst(t)
}

// stubModules builds, per import module name, a wasm module that exports
// something of the right kind and type under every imported name.
func stubModules(w *Walked) (names []string, bins map[string][]byte) {
	mods := map[string]*wenc.Module{}
	seen := map[string]bool{}
	for _, im := range w.Imports {
		key := im.Module + "\x00" + im.Name
		if seen[key] {
			continue // first one wins; a second import of the same name with another type fails to link
		}
		m := mods[im.Module]
		if m == nil {
			m = &wenc.Module{}
			mods[im.Module] = m
			names = append(names, im.Module)
		}
		switch im.Kind {
		case 0:
			if int(im.TypeIdx) >= len(w.Types) {
				continue
			}
			ft := w.Types[im.TypeIdx]
			idx := m.AddFunc(ft.Params, ft.Results, nil, zeroBody(ft.Results))
			m.Exports = append(m.Exports, wenc.Export{Name: im.Name, Kind: wenc.ExtFunc, Idx: idx})
		case 1:
			if len(m.Tables) >= 8 {
				continue
			}
			m.Tables = append(m.Tables, wenc.TableType{Elem: im.RefType, Lim: toLimits(im.Lim)})
			m.Exports = append(m.Exports, wenc.Export{Name: im.Name, Kind: wenc.ExtTable, Idx: uint32(len(m.Tables) - 1)})
		case 2:
			if len(m.Mems) >= 1 {
				// one memory per module: export the same one again
				m.Exports = append(m.Exports, wenc.Export{Name: im.Name, Kind: wenc.ExtMemory, Idx: 0})
			} else {
				m.Mems = append(m.Mems, toLimits(im.Lim))
				m.Exports = append(m.Exports, wenc.Export{Name: im.Name, Kind: wenc.ExtMemory, Idx: 0})
			}
		case 3:
			m.Globals = append(m.Globals, wenc.Global{Type: wenc.GlobalType{Type: im.GlobalType, Mutable: im.Mutable}, Init: stubGlobalInit(im.GlobalType)})
			m.Exports = append(m.Exports, wenc.Export{Name: im.Name, Kind: wenc.ExtGlobal, Idx: uint32(len(m.Globals) - 1)})
		}
		seen[key] = true
	}
	bins = map[string][]byte{}
	for n, m := range mods {
		bins[n] = m.Encode()
	}
	sort.Strings(names)
	return
}

func hugeDeclared(w *Walked) bool {
	for _, m := range w.Mems {
		if m.Min > 256 {
			return true
		}
	}
	for _, t := range w.Tables {
		if t.Min > 1<<20 {
			return true
		}
	}
	for _, im := range w.Imports {
		if im.Kind == 2 && im.Lim.Min > 256 {
			return true
		}
		if im.Kind == 1 && im.Lim.Min > 1<<20 {
			return true
		}
	}
	return false
}

func zeroArgs(def api.FunctionDefinition) []uint64 {
	n := 0
	for _, t := range def.ParamTypes() {
		if t == 0x7b {
			n += 2
		} else {
			n++
		}
	}
	return make([]uint64, n)
}

func rndArgs(r *core.Rng, def api.FunctionDefinition) []uint64 {
	var a []uint64
	for _, t := range def.ParamTypes() {
		switch t {
		case 0x70, api.ValueTypeExternref:
			a = append(a, 0)
		default:
			a = append(a, wrun.ArgFor(r, t)...)
		}
	}
	return a
}

// internalFailure reports whether an error from Instantiate/Call is an
// internal failure of the runtime (Go runtime error or BUG panic).
func internalFailure(err error) (string, bool) {
	cl := wrun.ErrClass(err)
	if strings.HasPrefix(cl, "INTERNAL:") {
		return cl, true
	}
	s := err.Error()
	if strings.Contains(s, "BUG") && strings.Contains(s, "(recovered by wazero)") {
		return cl, true
	}
	return cl, false
}

func outcomeClass(cl string) string {
	switch {
	case cl == "ok":
		return "ok"
	case strings.HasPrefix(cl, "trap:"):
		return cl
	case strings.HasPrefix(cl, "exit("):
		return "exit"
	case strings.HasPrefix(cl, "INTERNAL:"):
		return "internal"
	case strings.HasPrefix(cl, "hostpanic:"):
		return "hostpanic"
	case strings.Contains(cl, "context deadline exceeded"), strings.Contains(cl, "context canceled"):
		return "deadline"
	}
	return "error:" + errClass(strings.TrimPrefix(cl, "error:"))
}

// execOne instantiates an accepted module on one combo and calls its exports.
// Returns whether the deadline expired.
func (s *childState) execOne(cm wazero.CompiledModule, w *Walked, combo int, r *core.Rng, out *outCase) (deadline bool, called bool) {
	rt := s.rt(combo)
	bg := context.Background()
	ph := "exec " + comboName(combo)
	phaseLine(ph)
	arm(ph, 0, s.execBudg)
	defer disarm()
	ctx, cancel := context.WithTimeout(bg, s.execDl)
	defer cancel()
	note := func(sig, detail string) {
		out.Findings = append(out.Findings, finding{Sig: sig, Detail: core.Trunc(detail, 3000), Combo: comboName(combo)})
	}
	var aux []api.Module
	defer func() {
		for _, m := range aux {
			func() {
				defer func() { recover() }()
				m.Close(bg)
			}()
		}
	}()
	names, bins := stubModules(w)
	for _, n := range names {
		if n == "" {
			continue
		}
		var m api.Module
		var err error
		func() {
			defer func() {
				if v := recover(); v != nil {
					err = fmt.Errorf("stub panic: %v", v)
				}
			}()
			m, err = rt.InstantiateWithConfig(ctx, bins[n], wazero.NewModuleConfig().WithName(n))
		}()
		if err != nil {
			out.InstErr["stub:"+errClass(err.Error())]++
			continue
		}
		aux = append(aux, m)
	}
	var mod api.Module
	var err error
	var pv string
	func() {
		defer func() {
			if v := recover(); v != nil {
				pv = fmt.Sprintf("%v\n%s", v, debug.Stack())
			}
		}()
		mod, err = rt.InstantiateModule(ctx, cm, wazero.NewModuleConfig().WithName(""))
	}()
	if pv != "" {
		note("exec:panic-escaped:instantiate:"+engNames[combo%2]+":"+panicSig(pv), pv)
		s.dropRuntime(combo)
		aux = nil
		return false, false
	}
	if err != nil {
		cl, internal := internalFailure(err)
		if internal {
			note("exec:internal:instantiate:"+engNames[combo%2]+":"+strings.ReplaceAll(errClass(strings.TrimPrefix(cl, "INTERNAL:")), " ", "_"), err.Error())
		}
		oc := outcomeClass(cl)
		out.InstErr[oc]++
		s.note("instantiate", oc)
		return oc == "deadline" || ctx.Err() != nil, false
	}
	aux = append(aux, mod)
	out.Inst++
	s.note("instantiate", "ok")
	defs := mod.ExportedFunctionDefinitions()
	fnames := make([]string, 0, len(defs))
	for n := range defs {
		fnames = append(fnames, n)
	}
	sort.Strings(fnames)
	if len(fnames) > 24 {
		// a deterministic sample of 24
		step := len(fnames) / 24
		var pick []string
		for i := 0; i < len(fnames) && len(pick) < 24; i += step {
			pick = append(pick, fnames[i])
		}
		fnames = pick
	}
	for _, fnm := range fnames {
		def := defs[fnm]
		for round := 0; round < 2; round++ {
			if ctx.Err() != nil {
				return true, called
			}
			var args []uint64
			if round == 0 {
				args = zeroArgs(def)
			} else {
				if len(def.ParamTypes()) == 0 {
					break
				}
				// the arguments depend on the input and the export only, so that every
				// engine and feature set sees the same calls
				nh := fnv.New64a()
				nh.Write([]byte(fnm))
				args = rndArgs(core.NewRng(int64(out.Hash^nh.Sum64()), 43), def)
			}
			var cerr error
			var cpv string
			func() {
				defer func() {
					if v := recover(); v != nil {
						cpv = fmt.Sprintf("%v\n%s", v, debug.Stack())
					}
				}()
				fn := mod.ExportedFunction(fnm)
				if fn == nil {
					cerr = fmt.Errorf("exported function disappeared")
					return
				}
				_, cerr = fn.Call(ctx, args...)
			}()
			out.Calls++
			called = true
			if cpv != "" {
				note("exec:panic-escaped:call:"+engNames[combo%2]+":"+panicSig(cpv), fmt.Sprintf("export %q args %x\n%s", fnm, args, cpv))
				s.dropRuntime(combo)
				aux = nil
				return false, called
			}
			if cerr == nil {
				out.CallOut["ok"]++
				s.note(fmt.Sprintf("%s#%d", fnm, round), "ok")
				continue
			}
			cl, internal := internalFailure(cerr)
			if internal {
				note("exec:internal:call:"+engNames[combo%2]+":"+strings.ReplaceAll(errClass(strings.TrimPrefix(cl, "INTERNAL:")), " ", "_"),
					fmt.Sprintf("export %q args %x\n%s", fnm, args, cerr.Error()))
			}
			oc := outcomeClass(cl)
			out.CallOut[oc]++
			s.note(fmt.Sprintf("%s#%d", fnm, round), oc)
			if oc == "deadline" || oc == "exit" || ctx.Err() != nil {
				// module is closed now
				return ctx.Err() != nil, called
			}
		}
	}
	return false, called
}

func sortedKeys(m map[string]bool) []string {
	var l []string
	for k := range m {
		l = append(l, k)
	}
	sort.Strings(l)
	return l
}

func (s *childState) note(step, outcome string) {
	if s.tracing {
		s.trace = append(s.trace, step+"="+outcome)
	}
}

// comparable reduces an outcome to what both engines must agree on. ok=false:
// the outcome (and everything after it) depends on engine-specific limits or on
// wall-clock time and is not compared.
func comparableOutcome(o string) (string, bool) {
	i := strings.IndexByte(o, '=')
	step, oc := o[:i], o[i+1:]
	switch {
	case strings.Contains(oc, "stack overflow"), oc == "deadline", oc == "exit", strings.HasPrefix(oc, "stub:"):
		return "", false
	case oc == "trap:unaligned atomic", oc == "trap:out of bounds memory access", oc == "trap:expected shared memory":
		// which one is reported for an access that has several of these faults differs between the engines
		// (order of the checks; C01 known finding), also for the unmutated modules
		return step + "=trap:memory access", true
	case strings.HasPrefix(oc, "error:"):
		return step + "=error", true
	}
	return step + "=" + oc, true
}

// compareTraces returns the first step on which two engines disagree.
func compareTraces(a, b []string) (n int, diff string) {
	for i := 0; i < len(a) && i < len(b); i++ {
		ca, oka := comparableOutcome(a[i])
		cb, okb := comparableOutcome(b[i])
		if !oka || !okb {
			return n, ""
		}
		if ca != cb {
			return n, fmt.Sprintf("step %d: interpreter %s, compiler %s", i, a[i], b[i])
		}
		n++
	}
	return n, ""
}

// ---- the child handler ------------------------------------------------------------

func child(mode string, in json.RawMessage) any {
	s := childInit()
	var ic inCase
	if err := json.Unmarshal(in, &ic); err != nil {
		return outCase{ProbeErr: "bad case: " + err.Error()}
	}
	if mode == "probe" {
		return s.probe(&ic)
	}
	bin, ops, wgenFS := buildInput(&ic, s.seeds)
	out := outCase{Len: len(bin), Ops: ops, WgenFS: wgenFS, InstErr: map[string]int{}, CallOut: map[string]int{}}
	h := fnv.New64a()
	h.Write(bin)
	out.Hash = h.Sum64()
	for i := range out.Acc {
		out.Acc[i] = -1
	}
	var w *Walked
	errSet := map[string]bool{}
	execRng := core.NewRng(int64(out.Hash), 41)
	skipExec := false
	execBoth := [5][2]bool{}
	var cms [nCombo]wazero.CompiledModule
	defer func() {
		for _, cm := range cms {
			if cm != nil {
				func() {
					defer func() { recover() }()
					cm.Close(context.Background())
				}()
			}
		}
	}()
	stop := false
	// compileCombo returns false when the input is decided (allocation violation).
	// immediate-mutation cases: both engines compile under every feature set, whatever the
	// other one said, and their verdicts and the outcomes of the calls are compared
	imm := (ic.K == "imut" || ic.K == "iwmut") && len(ops) == 1 && strings.HasPrefix(ops[0], "imm-") && ops[0] != "imm-none"
	if imm {
		k := ops[0][strings.IndexByte(ops[0], ':')+1:]
		if strings.HasPrefix(ops[0], "imm-overlong:") {
			k = k[:strings.LastIndexByte(k, ':')]
		}
		out.ImmKind = k
	}
	s.tracing = imm
	panicked := false
	compileCombo := func(combo int) {
		lim := s.bnd.limit(len(bin), combo%2)
		cm, errText, alloc, pv := s.compileOne(bin, combo, lim, s.caseBudg)
		out.Alloc[combo] = alloc
		switch {
		case pv != "":
			sig := "compile:panic:" + panicSig(pv) + ":" + panicInputTag(bin)
			if imm {
				sig = "overlong-immediate:" + out.ImmKind + ":compile-panic:" + panicSig(pv)
			}
			panicked = true
			out.Findings = append(out.Findings, finding{Sig: sig, Detail: core.Trunc(pv, 3000), Combo: comboName(combo)})
			s.dropRuntime(combo)
			out.Acc[combo] = 0
		case s.bnd.Set && (alloc > lim || (cm == nil && !engineRejected(errText) && alloc > s.bnd.rejectedLimit(len(bin)))):
			which := "bound of " + engNames[combo%2]
			if alloc <= lim {
				lim = s.bnd.rejectedLimit(len(bin))
				which = "bound for rejected inputs (smaller of both engines)"
			}
			// the same verdict the sentinel would have reached: the input is decided
			out.AllocViol = true
			out.Findings = append(out.Findings, finding{Sig: "ALLOC", Detail: fmt.Sprintf("TotalAlloc delta %d > %s %d (input %d bytes) err=%q", alloc, which, lim, len(bin), core.Trunc(errText, 200)), Combo: comboName(combo), Err: core.Trunc(errText, 200)})
			if cm != nil {
				cm.Close(context.Background())
			}
			stop = true
			debug.FreeOSMemory() // do not let the next case inherit a full address space
		case cm == nil:
			out.Acc[combo] = 0
			errSet[errClass(errText)] = true
			if ic.K == "wgen" {
				if out.ErrOf == nil {
					out.ErrOf = map[int]string{}
				}
				out.ErrOf[combo] = errClass(errText)
			}
		default:
			out.Acc[combo] = 1
			cms[combo] = cm
		}
	}
	// 1. interpreter engine (decoder + validator + interpreter lowering) under every feature set
	first, last := -1, -1
	for fs := 0; fs < 5 && !stop; fs++ {
		compileCombo(fs * 2)
		if out.Acc[fs*2] == 1 {
			if first < 0 {
				first = fs
			}
			last = fs
		}
	}
	// 2. compiler engine where the (shared) decoder and validator accepted: always under the
	// smallest and the largest accepting feature set; under every accepting one for
	// unmutated inputs and for a quarter of the mutants
	fullCompiler := ic.K == "seed" || ic.K == "wgen" || ic.K == "lim" || ic.K == "xtpl" || out.Hash%4 == 0
	for fs := 0; fs < 5 && !stop; fs++ {
		if imm || (out.Acc[fs*2] == 1 && (fullCompiler || fs == first || fs == last)) {
			compileCombo(fs*2 + 1)
		}
	}
	if imm && !stop && !panicked {
		for fs := 0; fs < 5; fs++ {
			if a, b := out.Acc[fs*2], out.Acc[fs*2+1]; a >= 0 && b >= 0 && a != b {
				who := engNames[0]
				if b == 1 {
					who = engNames[1]
				}
				out.Findings = append(out.Findings, finding{Sig: "overlong-immediate:" + out.ImmKind + ":accepted-by-" + who + "-only",
					Detail: "CompileModule verdicts differ under " + fsNames[fs] + ": " + strings.Join(sortedKeys(errSet), " | "), Combo: fsNames[fs]})
				break
			}
		}
	}
	var traces [nCombo][]string
	// 3. soundness of acceptance: instantiate and call exports under the smallest and the
	// largest accepting feature set, on both engines
	if first >= 0 && !stop {
		w = Walk(bin)
		switch {
		case !w.Hdr || !w.TypesOK || !w.ImpOK || !w.SizesOK:
			out.SkipParse = true
		case hugeDeclared(w):
			out.SkipHuge = true
		default:
			for fs := first; fs <= last && !skipExec; fs++ {
				if fs != first && fs != last {
					continue
				}
				for e := 0; e < 2 && !skipExec; e++ {
					combo := fs*2 + e
					if cms[combo] == nil {
						continue
					}
					s.trace = nil
					dl, called := s.execOne(cms[combo], w, combo, execRng, &out)
					traces[combo] = s.trace
					if dl {
						out.Deadline++
						skipExec = true // a guest that does not terminate: do not pay the deadline again
					}
					if called {
						execBoth[fs][e] = true
					}
				}
			}
		}
	}
	for _, e := range execBoth {
		if e[0] && e[1] {
			out.Executed = true
		}
	}
	if imm {
		for fs := 0; fs < 5; fs++ {
			if traces[fs*2] == nil || traces[fs*2+1] == nil {
				continue
			}
			n, diff := compareTraces(traces[fs*2], traces[fs*2+1])
			out.Agree += n
			if diff != "" {
				out.Findings = append(out.Findings, finding{Sig: "overlong-immediate:" + out.ImmKind + ":execution-differs",
					Detail: "the engines disagree about the same call sequence under " + fsNames[fs] + ": " + diff, Combo: fsNames[fs]})
				break
			}
		}
		for i := range out.Findings {
			if strings.HasPrefix(out.Findings[i].Sig, "exec:") {
				out.Findings[i].Sig = "overlong-immediate:" + out.ImmKind + ":" + out.Findings[i].Sig
			}
		}
	}
	phaseLine("done -")
	for e := range errSet {
		out.Errs = append(out.Errs, e)
	}
	sort.Strings(out.Errs)
	if len(out.Findings) > 0 || (out.Hash%997 == 0 && len(bin) <= 400) {
		out.Hex = hex.EncodeToString(bin)
	}
	return out
}

// probe: the differential watchdog. Compiles the control input, then the
// suspect input, on one combo, with no allocation abort and a long budget. If
// the suspect does not return the sentinel ends the process with a timeout
// marker after the control's completion has been logged.
func (s *childState) probe(ic *inCase) any {
	ctl, _ := hex.DecodeString(ic.Control)
	bin, _ := hex.DecodeString(ic.Hex)
	out := outCase{Len: len(bin)}
	st := time.Now()
	cm, _, _, _ := s.compileOne(ctl, ic.Combo, 0, s.caseBudg)
	out.ControlMs = float64(time.Since(st).Microseconds()) / 1000
	if cm != nil {
		cm.Close(context.Background())
	}
	fmt.Fprintf(os.Stderr, "C03-PROBE control-done ms=%.3f len=%d\n", out.ControlMs, len(ctl))
	st = time.Now()
	cm, errText, alloc, pv := s.compileOne(bin, ic.Combo, 0, s.caseBudg)
	out.ProbeMs = float64(time.Since(st).Microseconds()) / 1000
	out.Alloc[0] = alloc
	out.ProbeErr = errClass(errText)
	if pv != "" {
		out.ProbeErr = "panic: " + panicSig(pv)
	}
	if cm != nil {
		out.ProbeErr = "accepted"
		cm.Close(context.Background())
	}
	return out
}
