package c03

import (
	"fmt"
	"sort"

	"github.com/tetratelabs/wazero/verifharness/core"
	"github.com/tetratelabs/wazero/verifharness/wenc"
)

// Index-valued fields outside function bodies (element segment function
// indexes in both forms, export / start indexes, global.get in constant
// expressions, table / memory indexes of segments, type indexes of the function
// and import sections) replaced by limit and tag boundary values, on modules in
// which an accepted mutant is exercised: globals of several types (imported and
// local), a table filled by element segments of every form, and one exported
// function per table slot that does call_indirect through it.

// IdxTemplate builds such a module (by construction valid under V2; the variant
// without reference-typed globals and expression segments is valid under V1).
func IdxTemplate(r *core.Rng) []byte {
	m := &wenc.Module{}
	v2 := r.Chance(2, 3)
	tVoid := m.AddType(nil, nil)
	// imports first
	impGlobals := 0
	if r.Chance(3, 4) {
		m.Imports = append(m.Imports, wenc.Import{Module: "env", Name: "gi", Kind: wenc.ExtGlobal, Global: wenc.GlobalType{Type: wenc.I32}})
		m.Imports = append(m.Imports, wenc.Import{Module: "env", Name: "gl", Kind: wenc.ExtGlobal, Global: wenc.GlobalType{Type: wenc.I64}})
		impGlobals = 2
		if v2 && r.Bool() {
			m.Imports = append(m.Imports, wenc.Import{Module: "env", Name: "gf", Kind: wenc.ExtGlobal, Global: wenc.GlobalType{Type: wenc.FuncRef}})
			impGlobals++
		}
	}
	if r.Bool() {
		m.ImportFunc("env", "f", nil, nil)
	}
	fa := m.AddFunc(nil, nil, nil, (&wenc.Code{}).Op(0x01).End().B)
	fb := m.AddFunc(nil, []wenc.ValType{wenc.I32}, nil, (&wenc.Code{}).I32Const(7).End().B)
	fc := m.AddFunc([]wenc.ValType{wenc.I32}, []wenc.ValType{wenc.I32}, nil, (&wenc.Code{}).LocalGet(0).End().B)
	tI32 := m.AddType(nil, []wenc.ValType{wenc.I32})
	slots := 4 + r.Intn(3)
	lim := wenc.Limits{Min: uint32(slots)}
	if r.Bool() {
		lim.Max, lim.HasMax = uint32(slots+2), true
	}
	m.Tables = []wenc.TableType{{Elem: wenc.FuncRef, Lim: lim}}
	m.Mems = []wenc.Limits{{Min: 1}}
	// local globals: non-zero values, one initialised from an imported global
	m.Globals = append(m.Globals, wenc.Global{Type: wenc.GlobalType{Type: wenc.I32, Mutable: r.Bool()}, Init: wenc.ConstI32(0x12345)})
	m.Globals = append(m.Globals, wenc.Global{Type: wenc.GlobalType{Type: wenc.I64, Mutable: r.Bool()}, Init: wenc.ConstI64(0x123456789a)})
	if impGlobals > 0 && r.Bool() {
		m.Globals = append(m.Globals, wenc.Global{Type: wenc.GlobalType{Type: wenc.I64}, Init: wenc.ConstGlobal(1)})
	}
	if v2 {
		m.Globals = append(m.Globals, wenc.Global{Type: wenc.GlobalType{Type: wenc.FuncRef}, Init: wenc.ConstRefFunc(fa)})
	}
	// one exported caller per slot and signature
	for k := 0; k < slots; k++ {
		f := m.AddFunc(nil, nil, nil, (&wenc.Code{}).I32Const(int32(k)).CallIndirect(tVoid, 0).End().B)
		m.ExportFunc(fmt.Sprintf("slot%d", k), f)
		f = m.AddFunc(nil, nil, nil, (&wenc.Code{}).I32Const(int32(k)).CallIndirect(tI32, 0).Drop().End().B)
		m.ExportFunc(fmt.Sprintf("slotr%d", k), f)
	}
	m.ExportFunc("fc", fc)
	for i := range m.Globals {
		m.Exports = append(m.Exports, wenc.Export{Name: fmt.Sprintf("g%d", i), Kind: wenc.ExtGlobal, Idx: uint32(impGlobals + i)})
	}
	m.Exports = append(m.Exports, wenc.Export{Name: "tab", Kind: wenc.ExtTable, Idx: 0}, wenc.Export{Name: "mem", Kind: wenc.ExtMemory, Idx: 0})
	if r.Bool() {
		m.Start = &fa
	}
	// element segments: legacy vector form, explicit-table form, expression form, passive + table.init
	pick := func() uint32 { return []uint32{fa, fb, fa, fc}[r.Intn(4)] }
	m.Elems = append(m.Elems, wenc.Elem{Mode: 0, Offset: wenc.ConstI32(0), FuncIdx: []uint32{pick(), pick()}})
	if v2 {
		exprs := [][]byte{wenc.ConstRefFunc(pick()), wenc.ConstRefNull(wenc.FuncRef)}
		if impGlobals == 3 {
			exprs[1] = wenc.ConstGlobal(2) // the imported funcref global
		}
		m.Elems = append(m.Elems, wenc.Elem{Mode: 0, Offset: wenc.ConstI32(2), UseExprs: true, Type: wenc.FuncRef, Exprs: exprs})
		m.Elems = append(m.Elems, wenc.Elem{Mode: 1, FuncIdx: []uint32{pick(), pick()}})
		ini := m.AddFunc(nil, nil, nil, (&wenc.Code{}).I32Const(int32(slots-2)).I32Const(0).I32Const(2).Prefixed(0xfc, 12).U32(uint32(len(m.Elems)-1)).U32(0).End().B)
		m.ExportFunc("aaa_init", ini) // sorted first: runs before the slot callers
		if r.Bool() {
			m.Elems = append(m.Elems, wenc.Elem{Mode: 2, FuncIdx: []uint32{fb}})
		}
		if r.Bool() { // a second table filled through the explicit-table-index form
			m.Tables = append(m.Tables, wenc.TableType{Elem: wenc.FuncRef, Lim: wenc.Limits{Min: 2}})
			m.Elems = append(m.Elems, wenc.Elem{Mode: 0, TableIdx: 1, Offset: wenc.ConstI32(0), FuncIdx: []uint32{pick(), pick()}})
			f := m.AddFunc(nil, nil, nil, (&wenc.Code{}).I32Const(0).CallIndirect(tVoid, 1).I32Const(1).CallIndirect(tVoid, 1).End().B)
			m.ExportFunc("tab1", f)
		}
	} else {
		m.Elems = append(m.Elems, wenc.Elem{Mode: 0, Offset: wenc.ConstI32(2), FuncIdx: []uint32{pick(), pick()}})
	}
	m.Datas = append(m.Datas, wenc.Data{Mode: 0, Offset: wenc.ConstI32(8), Bytes: []byte("abcd")})
	return m.Encode()
}

type idxSpace struct{ types, funcs, tables, mems, globals uint32 }

func indexSpaces(w *Walked) idxSpace {
	var sp idxSpace
	sp.types = uint32(len(w.Types))
	for _, im := range w.Imports {
		switch im.Kind {
		case 0:
			sp.funcs++
		case 1:
			sp.tables++
		case 2:
			sp.mems++
		case 3:
			sp.globals++
		}
	}
	for i := range w.Sites {
		s := &w.Sites[i]
		switch s.Kind {
		case kFuncCount:
			sp.funcs += uint32(s.Val)
		case kGlobalCount:
			sp.globals += uint32(s.Val)
		}
	}
	sp.tables += uint32(len(w.Tables))
	sp.mems += uint32(len(w.Mems))
	return sp
}

// idxKind labels an index field outside function bodies ("" = not one) and
// returns the size of the index space it points into.
func idxKind(w *Walked, i int, sp idxSpace) (string, uint32) {
	s := &w.Sites[i]
	if s.Fn >= 0 || !s.LEB {
		return "", 0
	}
	sec := secName(w.Secs[s.Sec].ID)
	switch s.Kind {
	case kFuncIndex:
		if s.InInstr {
			return sec + ":ref.func-expr", sp.funcs
		}
		return sec + ":func-index", sp.funcs
	case kStartIndex:
		return "start:func-index", sp.funcs
	case kGlobalIndex:
		return sec + ":global.get-expr", sp.globals
	case kTableIndex:
		return sec + ":table-index", sp.tables
	case kMemIndex:
		return sec + ":mem-index", sp.mems
	case kTypeIndex:
		return sec + ":type-index", sp.types
	case kExportIndex:
		if i > 0 && w.Sites[i-1].Kind == kExportKind {
			switch w.Sites[i-1].Val {
			case 0:
				return "export:func-index", sp.funcs
			case 1:
				return "export:table-index", sp.tables
			case 2:
				return "export:mem-index", sp.mems
			case 3:
				return "export:global-index", sp.globals
			}
		}
	}
	return "", 0
}

// IdxKinds lists the index-field kinds present in a module.
func IdxKinds(b []byte) []string {
	w := Walk(b)
	sp := indexSpaces(w)
	set := map[string]bool{}
	for i := range w.Sites {
		if k, _ := idxKind(w, i, sp); k != "" {
			set[k] = true
		}
	}
	var l []string
	for k := range set {
		l = append(l, k)
	}
	sort.Strings(l)
	return l
}

// IdxMutate replaces one index field by a boundary value.
func IdxMutate(r *core.Rng, b []byte) (out []byte, rec string, ok bool) {
	w := Walk(b)
	sp := indexSpaces(w)
	byKind := map[string][]int{}
	cnt := map[string]uint32{}
	var kinds []string
	for i := range w.Sites {
		if k, n := idxKind(w, i, sp); k != "" {
			if byKind[k] == nil {
				kinds = append(kinds, k)
			}
			byKind[k] = append(byKind[k], i)
			cnt[k] = n
		}
	}
	if len(kinds) == 0 {
		return b, "", false
	}
	sort.Strings(kinds)
	kind := kinds[r.Intn(len(kinds))]
	l := byKind[kind]
	s := &w.Sites[l[r.Intn(len(l))]]
	n := cnt[kind]
	k := uint32(r.Intn(int(sp.globals) + 2))
	var v uint32
	var class string
	switch r.Intn(14) {
	case 0:
		v, class = n-1, "count-1"
	case 1:
		v, class = n, "count"
	case 2:
		v, class = n+1, "count+1"
	case 3:
		v, class = 1<<27-1, "2^27-1"
	case 4:
		v, class = 1<<27, "2^27"
	case 5:
		v, class = 1<<27+1, "2^27+1"
	case 6:
		v, class = 1<<30, "2^30"
	case 7, 8:
		v, class = 1<<30|k, "2^30|k"
	case 9:
		v, class = 1<<31-1, "2^31-1"
	case 10:
		v, class = 1<<31, "2^31"
	case 11, 12:
		v, class = 1<<31|k, "2^31|k"
	default:
		v, class = 0xffffffff, "2^32-1"
	}
	rec = "idx-boundary:" + kind + ":" + class
	return splice(b, w, s.Frames, s.Off, s.Len, encU32(v), true), rec, true
}
