package c03

// An independent, tolerant reader of the WebAssembly binary format. It does
// not share code with wazero's decoder. Two layers:
//
//   - Split: the section splitter (id, size field, payload range);
//   - Walk:  a deep walk that records every *site* (a field that a structured
//     mutation can aim at: counts, sizes, indexes, flags, opcodes, ...) and a
//     summary (types, imports, declared memory/table sizes) that the
//     instantiation stage uses to stub out imports.
//
// Both are tolerant: they stop at the first thing they cannot read and keep
// what they found so far, because they are also run on mutated inputs (to
// classify a violating input by the field that lies).

// Section is one (id, size, payload) triple of the binary.
type Section struct {
	ID      byte
	Off     int    // offset of the id byte
	SizeOff int    // offset of the size LEB
	SizeLen int    // length of the size LEB
	Size    uint32 // declared size
	PayOff  int    // start of the payload
	PayEnd  int    // end of the payload, clamped to the input
	Trunc   bool   // declared size runs past the end of the input
}

// readU32 reads an unsigned LEB128 of at most 5 bytes (tolerant of padded
// encodings; rejects >5 bytes). Returns value, length, ok.
func readU32(b []byte, off int) (uint32, int, bool) {
	var v uint64
	for i := 0; i < 5; i++ {
		if off+i >= len(b) {
			return 0, 0, false
		}
		c := b[off+i]
		v |= uint64(c&0x7f) << (7 * uint(i))
		if c&0x80 == 0 {
			return uint32(v), i + 1, true
		}
	}
	return 0, 0, false
}

// readSLEB reads a signed LEB128 of at most maxBytes bytes.
func readSLEB(b []byte, off, maxBytes int) (int64, int, bool) {
	var v int64
	var shift uint
	for i := 0; i < maxBytes; i++ {
		if off+i >= len(b) {
			return 0, 0, false
		}
		c := b[off+i]
		v |= int64(c&0x7f) << shift
		shift += 7
		if c&0x80 == 0 {
			if shift < 64 && c&0x40 != 0 {
				v |= -1 << shift
			}
			return v, i + 1, true
		}
	}
	return 0, 0, false
}

// Split cuts a binary into sections. hdr reports whether the 8-byte header is
// present and correct.
func Split(b []byte) (secs []Section, hdr bool) {
	if len(b) < 8 || string(b[:4]) != "\x00asm" || b[4] != 1 || b[5] != 0 || b[6] != 0 || b[7] != 0 {
		return nil, false
	}
	off := 8
	for off < len(b) {
		s := Section{ID: b[off], Off: off, SizeOff: off + 1}
		v, n, ok := readU32(b, off+1)
		if !ok {
			break
		}
		s.Size, s.SizeLen = v, n
		s.PayOff = off + 1 + n
		end := uint64(s.PayOff) + uint64(v)
		if end > uint64(len(b)) {
			s.Trunc = true
			end = uint64(len(b))
		}
		s.PayEnd = int(end)
		secs = append(secs, s)
		off = s.PayEnd
	}
	return secs, true
}

// Site kinds. The *count/size* kinds are the ones whose value can lie about
// how much input follows.
const (
	kSecSize      = "sec-size"
	kTypeCount    = "type-count"
	kTypeForm     = "type-form"
	kParamCount   = "param-count"
	kResultCount  = "result-count"
	kValType      = "valtype"
	kImportCount  = "import-count"
	kNameLen      = "name-len"
	kImportKind   = "import-kind"
	kTypeIndex    = "type-index"
	kFuncCount    = "func-count"
	kTableCount   = "table-count"
	kRefType      = "reftype"
	kLimitsFlag   = "limits-flag"
	kLimitsMin    = "limits-min"
	kLimitsMax    = "limits-max"
	kMemCount     = "mem-count"
	kGlobalCount  = "global-count"
	kMutFlag      = "mut-flag"
	kExportCount  = "export-count"
	kExportKind   = "export-kind"
	kExportIndex  = "export-index"
	kStartIndex   = "start-index"
	kElemCount    = "elem-count"
	kElemMode     = "elem-mode"
	kElemKind     = "elem-kind"
	kElemInitN    = "elem-init-count"
	kFuncIndex    = "func-index"
	kTableIndex   = "table-index"
	kCodeCount    = "code-count"
	kBodySize     = "body-size"
	kLocalDeclN   = "localdecl-count"
	kLocalN       = "local-n"
	kDataCount    = "data-count"
	kDataMode     = "data-mode"
	kMemIndex     = "mem-index"
	kDataSize     = "data-size"
	kDataCountSec = "datacount"
	kOpcode       = "opcode"
	kSubOpcode    = "subopcode"
	kBlockType    = "block-type"
	kLabel        = "label-index"
	kBrTableN     = "brtable-count"
	kLocalIndex   = "local-index"
	kGlobalIndex  = "global-index"
	kElemIndex    = "elem-index"
	kDataIndex    = "data-index"
	kAlign        = "memarg-align"
	kOffset       = "memarg-offset"
	kConstImm     = "const-imm"
	kLane         = "lane"
	kSelectN      = "select-count"
	kNameSubID    = "name-subsec-id"
	kNameSubSize  = "name-subsec-size"
	kNameCount    = "name-count"
	kNameIndex    = "name-index"
)

// isCountKind: the value promises that many elements (each >= 1 byte).
func isCountKind(k string) bool {
	switch k {
	case kTypeCount, kParamCount, kResultCount, kImportCount, kFuncCount, kTableCount, kMemCount, kGlobalCount,
		kExportCount, kElemCount, kElemInitN, kCodeCount, kLocalDeclN, kDataCount, kBrTableN, kSelectN, kNameCount:
		return true
	}
	return false
}

// isSizeKind: the value promises that many bytes.
func isSizeKind(k string) bool {
	switch k {
	case kSecSize, kNameLen, kBodySize, kDataSize, kNameSubSize:
		return true
	}
	return false
}

func isIndexKind(k string) bool {
	switch k {
	case kTypeIndex, kFuncIndex, kTableIndex, kMemIndex, kLocalIndex, kGlobalIndex, kLabel, kExportIndex, kStartIndex,
		kElemIndex, kDataIndex, kNameIndex:
		return true
	}
	return false
}

// Site is one mutable field of the binary.
type Site struct {
	Off, Len int
	Kind     string
	Val      uint64
	Rem      int    // input bytes left in the innermost enclosing container after this field
	Frames   []int  // indexes (into Walked.Sites) of the enclosing size fields, outermost first
	LEB      bool   // the field is an (unsigned or signed) LEB128
	Fn       int    // code body number for sites inside a body, else -1
	Sec      int    // index of the section the site belongs to
	Op       byte   // sites inside an instruction: its opcode (prefix byte for prefixed ones) ...
	Sub      uint32 // ... and its sub-opcode
	InInstr  bool
}

type ImportInfo struct {
	Module, Name string
	Kind         byte
	TypeIdx      uint32
	RefType      byte
	Lim          Lim
	GlobalType   byte
	Mutable      bool
}

type Lim struct {
	Flag     byte
	Min, Max uint32
	HasMax   bool
	Shared   bool
}

type FuncT struct{ Params, Results []byte }

// Walked is the result of the deep walk.
type Walked struct {
	Hdr      bool
	Secs     []Section
	Sites    []Site
	Types    []FuncT
	TypesOK  bool // type section absent or fully read
	Imports  []ImportInfo
	ImpOK    bool // import section absent or fully read
	Mems     []Lim
	Tables   []Lim
	SizesOK  bool     // memory and table sections absent or fully read
	LocalSum []uint64 // per code body: sum of the declared local counts
	LocalOff []int    // per code body: offset of its first local-n field (or of the body)
	Complete bool     // every section was walked to its end without a read error
	// FirstBadSec is the first section whose content could not be read or does not end
	// where its size field says (-1: none). A sequential decoder stops there.
	FirstBadSec int
	LocalSec    []int // per code body: its section index
}

type walker struct {
	inInstr bool
	curOp   byte
	curSub  uint32
	sec     int
	b       []byte
	w       *Walked
	pos     int
	end     int // end of the innermost container
	frames  []int
	fn      int
	bad     bool
}

func (k *walker) site(off, n int, kind string, val uint64, leb bool) int {
	rem := k.end - (off + n)
	if rem < 0 {
		rem = 0
	}
	k.w.Sites = append(k.w.Sites, Site{Off: off, Len: n, Kind: kind, Val: val, Rem: rem,
		Frames: append([]int(nil), k.frames...), LEB: leb, Fn: k.fn, Sec: k.sec, Op: k.curOp, Sub: k.curSub, InInstr: k.inInstr})
	return len(k.w.Sites) - 1
}

func (k *walker) u32(kind string) uint32 {
	if k.bad {
		return 0
	}
	if k.pos >= k.end {
		k.bad = true
		return 0
	}
	v, n, ok := readU32(k.b[:k.end], k.pos)
	if !ok {
		k.bad = true
		return 0
	}
	k.site(k.pos, n, kind, uint64(v), true)
	k.pos += n
	return v
}

func (k *walker) sleb(kind string, maxBytes int) int64 {
	if k.bad {
		return 0
	}
	v, n, ok := readSLEB(k.b[:k.end], k.pos, maxBytes)
	if !ok {
		k.bad = true
		return 0
	}
	k.site(k.pos, n, kind, uint64(v), true)
	k.pos += n
	return v
}

func (k *walker) byteSite(kind string) byte {
	if k.bad {
		return 0
	}
	if k.pos >= k.end {
		k.bad = true
		return 0
	}
	c := k.b[k.pos]
	k.site(k.pos, 1, kind, uint64(c), false)
	k.pos++
	return c
}

func (k *walker) skip(n int) {
	if k.bad {
		return
	}
	if n < 0 || k.pos+n > k.end {
		k.bad = true
		k.pos = k.end
		return
	}
	k.pos += n
}

func (k *walker) name() string {
	n := k.u32(kNameLen)
	if k.bad {
		return ""
	}
	if uint64(k.pos)+uint64(n) > uint64(k.end) {
		k.bad = true
		return ""
	}
	s := string(k.b[k.pos : k.pos+int(n)])
	k.pos += int(n)
	return s
}

func (k *walker) limits() Lim {
	var l Lim
	l.Flag = k.byteSite(kLimitsFlag)
	l.Min = k.u32(kLimitsMin)
	if l.Flag&1 != 0 {
		l.Max = k.u32(kLimitsMax)
		l.HasMax = true
	}
	l.Shared = l.Flag&2 != 0
	return l
}

// constExpr walks instructions up to and including the `end` that closes the
// expression.
func (k *walker) constExpr() {
	depth := 0
	for !k.bad && k.pos < k.end {
		op := k.instr()
		switch op {
		case 0x02, 0x03, 0x04:
			depth++
		case 0x0b:
			if depth == 0 {
				return
			}
			depth--
		}
	}
	k.bad = true
}

// instr walks one instruction, records its sites, returns the opcode.
func (k *walker) instr() byte {
	k.inInstr = false
	op := k.byteSite(kOpcode)
	if k.bad {
		return op
	}
	k.inInstr, k.curOp, k.curSub = true, op, 0
	defer func() { k.inInstr = false }()
	switch {
	case op == 0x02 || op == 0x03 || op == 0x04:
		k.sleb(kBlockType, 5)
	case op == 0x0c || op == 0x0d:
		k.u32(kLabel)
	case op == 0x0e:
		n := k.u32(kBrTableN)
		for i := uint32(0); i < n && !k.bad; i++ {
			k.u32(kLabel)
		}
		k.u32(kLabel)
	case op == 0x10 || op == 0x12 || op == 0xd2:
		k.u32(kFuncIndex)
	case op == 0x11 || op == 0x13:
		k.u32(kTypeIndex)
		k.u32(kTableIndex)
	case op == 0x1c:
		n := k.u32(kSelectN)
		for i := uint32(0); i < n && !k.bad; i++ {
			k.byteSite(kValType)
		}
	case op >= 0x20 && op <= 0x22:
		k.u32(kLocalIndex)
	case op == 0x23 || op == 0x24:
		k.u32(kGlobalIndex)
	case op == 0x25 || op == 0x26:
		k.u32(kTableIndex)
	case op >= 0x28 && op <= 0x3e:
		k.u32(kAlign)
		k.u32(kOffset)
	case op == 0x3f || op == 0x40:
		k.byteSite(kMemIndex)
	case op == 0x41:
		k.sleb(kConstImm, 5)
	case op == 0x42:
		k.sleb(kConstImm, 10)
	case op == 0x43:
		if k.pos+4 <= k.end {
			k.site(k.pos, 4, kConstImm, 0, false)
		}
		k.skip(4)
	case op == 0x44:
		if k.pos+8 <= k.end {
			k.site(k.pos, 8, kConstImm, 0, false)
		}
		k.skip(8)
	case op == 0xd0:
		k.byteSite(kRefType)
	case op == 0xfc:
		sub := k.u32(kSubOpcode)
		if !k.bad {
			k.curSub = sub
			k.w.Sites[len(k.w.Sites)-1].Sub = sub
		}
		switch sub {
		case 8:
			k.u32(kDataIndex)
			k.byteSite(kMemIndex)
		case 9:
			k.u32(kDataIndex)
		case 10:
			k.byteSite(kMemIndex)
			k.byteSite(kMemIndex)
		case 11:
			k.byteSite(kMemIndex)
		case 12:
			k.u32(kElemIndex)
			k.u32(kTableIndex)
		case 13:
			k.u32(kElemIndex)
		case 14:
			k.u32(kTableIndex)
			k.u32(kTableIndex)
		case 15, 16, 17:
			k.u32(kTableIndex)
		}
	case op == 0xfd:
		sub := k.u32(kSubOpcode)
		if !k.bad {
			k.curSub = sub
			k.w.Sites[len(k.w.Sites)-1].Sub = sub
		}
		switch {
		case sub <= 11 || sub == 92 || sub == 93:
			k.u32(kAlign)
			k.u32(kOffset)
		case sub == 12 || sub == 13:
			if k.pos+16 <= k.end {
				k.site(k.pos, 16, kConstImm, 0, false)
			}
			k.skip(16)
		case sub >= 21 && sub <= 34:
			k.byteSite(kLane)
		case sub >= 84 && sub <= 91:
			k.u32(kAlign)
			k.u32(kOffset)
			k.byteSite(kLane)
		}
	case op == 0xfe:
		sub := k.u32(kSubOpcode)
		if !k.bad {
			k.curSub = sub
			k.w.Sites[len(k.w.Sites)-1].Sub = sub
		}
		switch {
		case sub == 3:
			k.byteSite(kMemIndex)
		case sub <= 2 || (sub >= 0x10 && sub <= 0x4e):
			k.u32(kAlign)
			k.u32(kOffset)
		}
	}
	return op
}

// enter pushes a container [pos, pos+size) whose size field is site si.
func (k *walker) enter(si int, size uint64) (oldEnd int) {
	oldEnd = k.end
	e := uint64(k.pos) + size
	if e > uint64(k.end) {
		e = uint64(k.end)
	}
	k.end = int(e)
	k.frames = append(k.frames, si)
	return oldEnd
}

func (k *walker) leave(oldEnd int) {
	k.end = oldEnd
	k.frames = k.frames[:len(k.frames)-1]
}

// Walk does the deep walk.
func Walk(b []byte) *Walked {
	w := &Walked{TypesOK: true, ImpOK: true, SizesOK: true, FirstBadSec: -1}
	w.Secs, w.Hdr = Split(b)
	if !w.Hdr {
		return w
	}
	w.Complete = true
	consumed := 8
	for si := range w.Secs {
		s := &w.Secs[si]
		consumed = s.PayEnd
		k := &walker{b: b, w: w, pos: s.SizeOff, end: len(b), fn: -1, sec: si}
		szSite := k.site(s.SizeOff, s.SizeLen, kSecSize, uint64(s.Size), true)
		k.pos = s.PayOff
		// The content is read content-driven, not clamped to the declared section size
		// (a sequential decoder finds out that the size lied only after reading);
		// FirstBadSec records where content and framing first disagree.
		k.end = len(b)
		k.frames = []int{szSite}
		switch s.ID {
		case 0:
			k.custom()
		case 1:
			w.Types = nil // a repeated section replaces the earlier one in a decoder that does not reject it
			n := k.u32(kTypeCount)
			for i := uint32(0); i < n && !k.bad; i++ {
				k.byteSite(kTypeForm)
				var ft FuncT
				np := k.u32(kParamCount)
				for j := uint32(0); j < np && !k.bad; j++ {
					ft.Params = append(ft.Params, k.byteSite(kValType))
				}
				nr := k.u32(kResultCount)
				for j := uint32(0); j < nr && !k.bad; j++ {
					ft.Results = append(ft.Results, k.byteSite(kValType))
				}
				if !k.bad {
					w.Types = append(w.Types, ft)
				}
			}
			if k.bad {
				w.TypesOK = false
			}
		case 2:
			w.Imports = nil
			n := k.u32(kImportCount)
			for i := uint32(0); i < n && !k.bad; i++ {
				var im ImportInfo
				im.Module = k.name()
				im.Name = k.name()
				im.Kind = k.byteSite(kImportKind)
				switch im.Kind {
				case 0:
					im.TypeIdx = k.u32(kTypeIndex)
				case 1:
					im.RefType = k.byteSite(kRefType)
					im.Lim = k.limits()
				case 2:
					im.Lim = k.limits()
				case 3:
					im.GlobalType = k.byteSite(kValType)
					im.Mutable = k.byteSite(kMutFlag) == 1
				default:
					k.bad = true
				}
				if !k.bad {
					w.Imports = append(w.Imports, im)
				}
			}
			if k.bad {
				w.ImpOK = false
			}
		case 3:
			n := k.u32(kFuncCount)
			for i := uint32(0); i < n && !k.bad; i++ {
				k.u32(kTypeIndex)
			}
		case 4:
			w.Tables = nil
			n := k.u32(kTableCount)
			for i := uint32(0); i < n && !k.bad; i++ {
				k.byteSite(kRefType)
				l := k.limits()
				if !k.bad {
					w.Tables = append(w.Tables, l)
				}
			}
			if k.bad {
				w.SizesOK = false
			}
		case 5:
			w.Mems = nil
			n := k.u32(kMemCount)
			for i := uint32(0); i < n && !k.bad; i++ {
				l := k.limits()
				if !k.bad {
					w.Mems = append(w.Mems, l)
				}
			}
			if k.bad {
				w.SizesOK = false
			}
		case 6:
			n := k.u32(kGlobalCount)
			for i := uint32(0); i < n && !k.bad; i++ {
				k.byteSite(kValType)
				k.byteSite(kMutFlag)
				k.constExpr()
			}
		case 7:
			n := k.u32(kExportCount)
			for i := uint32(0); i < n && !k.bad; i++ {
				k.name()
				k.byteSite(kExportKind)
				k.u32(kExportIndex)
			}
		case 8:
			k.u32(kStartIndex)
		case 9:
			n := k.u32(kElemCount)
			for i := uint32(0); i < n && !k.bad; i++ {
				k.elem()
			}
		case 10:
			n := k.u32(kCodeCount)
			for i := uint32(0); i < n && !k.bad; i++ {
				k.body(int(i))
			}
		case 11:
			n := k.u32(kDataCount)
			for i := uint32(0); i < n && !k.bad; i++ {
				mode := k.u32(kDataMode)
				if mode == 2 {
					k.u32(kMemIndex)
				}
				if mode == 0 || mode == 2 {
					k.constExpr()
				}
				sz := k.u32(kDataSize)
				k.skip(int(sz))
			}
		case 12:
			k.u32(kDataCountSec)
		default:
			k.bad = true
		}
		if k.bad || k.pos != s.PayEnd || s.Trunc {
			w.Complete = false
			if w.FirstBadSec < 0 {
				w.FirstBadSec = si
			}
		}
	}
	if consumed != len(b) {
		w.Complete = false
	}
	return w
}

func (k *walker) elem() {
	mode := k.u32(kElemMode)
	if mode > 7 {
		k.bad = true
		return
	}
	if mode&1 == 0 { // active
		if mode&2 != 0 {
			k.u32(kTableIndex)
		}
		k.constExpr()
	}
	if mode&3 != 0 { // has elemkind / reftype
		if mode&4 != 0 {
			k.byteSite(kRefType)
		} else {
			k.byteSite(kElemKind)
		}
	}
	n := k.u32(kElemInitN)
	for i := uint32(0); i < n && !k.bad; i++ {
		if mode&4 != 0 {
			k.constExpr()
		} else {
			k.u32(kFuncIndex)
		}
	}
}

func (k *walker) body(fn int) {
	off := k.pos
	sz := k.u32(kBodySize)
	if k.bad {
		return
	}
	si := len(k.w.Sites) - 1
	// The local declarations are read content-driven (a sequential decoder sums the run
	// lengths before it compares anything with the body size); the instructions are
	// confined to what is left of the declared body.
	bodyEnd := uint64(k.pos) + uint64(sz)
	k.frames = append(k.frames, si)
	k.fn = fn
	nd := k.u32(kLocalDeclN)
	var sum uint64
	first := -1
	for i := uint32(0); i < nd && !k.bad; i++ {
		if first < 0 {
			first = k.pos
		}
		sum += uint64(k.u32(kLocalN))
		k.byteSite(kValType)
	}
	if first < 0 {
		first = off
	}
	k.w.LocalSec = append(k.w.LocalSec, k.sec)
	k.w.LocalSum = append(k.w.LocalSum, sum)
	k.w.LocalOff = append(k.w.LocalOff, first)
	trunc := k.bad || uint64(k.pos) > bodyEnd || bodyEnd > uint64(k.end)
	if !trunc {
		old := k.end
		k.end = int(bodyEnd)
		for !k.bad && k.pos < k.end {
			k.instr()
		}
		k.end = old
		// an instruction that cannot be read is the validator's business, not the
		// framing's: the body still ends where its size field says
		k.bad = false
		k.pos = int(bodyEnd)
	}
	k.fn = -1
	k.frames = k.frames[:len(k.frames)-1]
	if trunc {
		k.bad = true
	}
}

func (k *walker) custom() {
	// content-driven like the rest: the name and the name subsections are read
	// without regard to the declared section size (payEnd), which is only compared
	// afterwards
	payEnd := k.w.Secs[k.sec].PayEnd
	nm := k.name()
	if k.bad {
		return
	}
	if nm != "name" {
		if k.pos > payEnd {
			k.bad = true
			return
		}
		k.pos = payEnd
		return
	}
	// The budget of bytes is kept the way a sequential decoder keeps it: the declared
	// subsection size is subtracted after the content was read content-driven, in
	// unsigned arithmetic, so a subsection that overshoots makes the budget wrap and the
	// rest of the input is read as name subsections too.
	declEnd := uint64(k.w.Secs[k.sec].PayOff) + uint64(k.w.Secs[k.sec].Size) // declared, not clamped to the input
	if uint64(k.pos) > declEnd {
		k.bad = true
		return
	}
	limit := declEnd - uint64(k.pos)
	for !k.bad && limit > 0 {
		if k.pos >= k.end {
			return // end of input where a subsection id is expected: the section ends
		}
		id := k.byteSite(kNameSubID)
		szAt := k.pos
		sz := k.u32(kNameSubSize)
		if k.bad {
			return
		}
		limit -= 1 + uint64(k.pos-szAt) + uint64(sz)
		si := len(k.w.Sites) - 1
		subEnd := k.pos + int(sz)
		if uint64(k.pos)+uint64(sz) > uint64(k.end) {
			subEnd = k.end
		}
		old := k.end
		k.frames = append(k.frames, si)
		switch id {
		case 0:
			k.name()
		case 1:
			n := k.u32(kNameCount)
			for i := uint32(0); i < n && !k.bad; i++ {
				k.u32(kNameIndex)
				k.name()
			}
		case 2:
			n := k.u32(kNameCount)
			for i := uint32(0); i < n && !k.bad; i++ {
				k.u32(kNameIndex)
				m := k.u32(kNameCount)
				for j := uint32(0); j < m && !k.bad; j++ {
					k.u32(kNameIndex)
					k.name()
				}
			}
		}
		k.leave(old)
		if id > 2 {
			k.pos = subEnd // unknown subsections are skipped by size, known ones are read content-driven
		}
		if k.bad {
			return
		}
	}
}

// Liar describes the field of an input whose declared value is most out of
// proportion to the bytes that follow it.
type Liar struct {
	Class string
	Val   uint64
	Rem   int
	Off   int
}

func className(kind string) string {
	switch kind {
	case kLocalN:
		return "locals-count"
	}
	return kind
}

// FindLiar names the count/size field that explains an out-of-proportion
// allocation: a decoder reads the input front to back, so it is the first
// field (in offset order) that declares at least 2^20 elements/bytes and more
// than the input that is left; if there is none, the field with the largest
// excess over the remaining input (ok=false if no field exceeds
// max(remaining, 1024)). The sum of the local counts of one body is one field.
// Size fields that a decoder only compares afterwards (the size of a
// non-custom section, of a name subsection) are not candidates.
func FindLiar(b []byte) (Liar, bool) {
	w := Walk(b)
	var cands []Liar
	lastSec := len(w.Secs)
	if w.FirstBadSec >= 0 {
		lastSec = w.FirstBadSec // a sequential decoder does not get past this section
	}
	for i := range w.Sites {
		s := &w.Sites[i]
		switch {
		case s.Sec > lastSec:
			continue
		case s.Kind == kLocalN:
			continue // summed per body below
		case s.Kind == kNameSubSize:
			continue
		case s.Kind == kSecSize:
			if s.Off == 0 || b[s.Off-1] != 0 {
				continue
			}
		}
		if isCountKind(s.Kind) || isSizeKind(s.Kind) {
			cands = append(cands, Liar{Class: className(s.Kind), Val: s.Val, Rem: s.Rem, Off: s.Off})
		}
	}
	for i, sum := range w.LocalSum {
		if w.LocalSec[i] <= lastSec {
			cands = append(cands, Liar{Class: "locals-count", Val: sum, Rem: 0, Off: w.LocalOff[i]})
		}
	}
	var first, best *Liar
	var bestScore uint64
	for i := range cands {
		c := &cands[i]
		floor := uint64(c.Rem)
		if floor < 1024 {
			floor = 1024
		}
		if c.Val <= floor {
			continue
		}
		if c.Val >= 1<<20 && (first == nil || c.Off < first.Off) {
			first = c
		}
		if score := c.Val - uint64(c.Rem); score > bestScore {
			bestScore, best = score, c
		}
	}
	if first != nil {
		return *first, true
	}
	if best != nil {
		return *best, true
	}
	return Liar{}, false
}
