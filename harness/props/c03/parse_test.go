package c03

import (
	"context"
	"testing"

	"github.com/tetratelabs/wazero"
	"github.com/tetratelabs/wazero/verifharness/core"
)

// The walker must read every module that wazero accepts to the end.
func TestWalkerOnCorpus(t *testing.T) {
	seeds := loadCorpus()
	ctx := context.Background()
	rt := wazero.NewRuntimeWithConfig(ctx, wazero.NewRuntimeConfigInterpreter().WithCoreFeatures(fsBits[4]))
	acc, bad := 0, 0
	for _, s := range seeds {
		cm, err := rt.CompileModule(ctx, s.Bin)
		if err != nil {
			continue
		}
		cm.Close(ctx)
		acc++
		w := Walk(s.Bin)
		if !w.Complete || !w.TypesOK || !w.ImpOK || !w.SizesOK {
			bad++
			if bad < 10 {
				t.Errorf("%s: walker incomplete", s.Name)
			}
		}
	}
	t.Logf("accepted %d, walker incomplete %d", acc, bad)
}

func TestMutateRuns(t *testing.T) {
	seeds := loadCorpus()
	r := core.NewRng(1, 1)
	ops := map[string]int{}
	for i := 0; i < 20000; i++ {
		s := seeds[r.Intn(len(seeds))]
		_, rec := Mutate(r, s.Bin, func() []byte { return seeds[r.Intn(len(seeds))].Bin })
		for _, x := range rec {
			ops[x]++
		}
	}
	t.Logf("%d distinct op:kind", len(ops))
	l, ok := FindLiar(limitModule(0))
	t.Logf("liar of limit module: %+v %v", l, ok)
}
