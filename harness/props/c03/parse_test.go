package c03

import (
	"context"
	"encoding/hex"
	"strings"
	"testing"

	"github.com/tetratelabs/wazero"
	"github.com/tetratelabs/wazero/verifharness/core"
)

// The walker must read every module that wazero accepts to the end.
func TestWalkerOnCorpus(t *testing.T) {
	seeds := loadCorpus()
	ctx := context.Background()
	rt := wazero.NewRuntimeWithConfig(ctx, wazero.NewRuntimeConfigInterpreter().WithCoreFeatures(fsBits[4]))
	acc, bad := 0, 0
	for _, s := range seeds {
		cm, err := rt.CompileModule(ctx, s.Bin)
		if err != nil {
			continue
		}
		cm.Close(ctx)
		acc++
		w := Walk(s.Bin)
		if !w.Complete || !w.TypesOK || !w.ImpOK || !w.SizesOK {
			bad++
			if bad < 10 {
				t.Errorf("%s: walker incomplete", s.Name)
			}
		}
	}
	t.Logf("accepted %d, walker incomplete %d", acc, bad)
}

func TestMutateRuns(t *testing.T) {
	seeds := loadCorpus()
	r := core.NewRng(1, 1)
	ops := map[string]int{}
	for i := 0; i < 20000; i++ {
		s := seeds[r.Intn(len(seeds))]
		_, rec := Mutate(r, s.Bin, func() []byte { return seeds[r.Intn(len(seeds))].Bin })
		for _, x := range rec {
			ops[x]++
		}
	}
	t.Logf("%d distinct op:kind", len(ops))
	l, ok := FindLiar(limitModule(0))
	t.Logf("liar of limit module: %+v %v", l, ok)
}

func TestFindLiarWitnesses(t *testing.T) {
	for _, c := range []struct{ hex, want string }{
		{"0061736d010000000105016000017b03020100070501016600000a1b011900fd808080808000030080a6030080a6030080a6030080a60b000d046e616d650206010080808008", "name-count"},
		{"0061736d01000000021601094d7461626c655f657806742d66756e63016f0001000280808080016e616d65020100", "name-len"},
		{"0061736d01000000010401600000030201000a0e010c0044ffffffffffffefff1a0b000b046e616d650203010000000a80808080087a21574f9b", "name-len"},
		{"0061736d0100000007055ecc9b88ed0a1802ce9baa8eabebd25a8e939ad068e97a46291e6431d98168", "name-len"},
		{"0061736d01000000062b027b00fd0c000000000000000000000000000000000b7b01fd0c000000000000000000000000000000000b002b046e616d6503130200019983bb8f0f016c0201d5aad5aa05016c000101420205808080800803048080800807140206672d763132380300076d672d7631323803010008046e616d65020100", "name-count"},
	} {
		b, _ := hex.DecodeString(c.hex)
		l, ok := FindLiar(b)
		if !ok || l.Class != c.want {
			t.Errorf("%s...: got %+v %v want %s", c.hex[:40], l, ok, c.want)
		}
	}
}

func TestFindLiarNameBudgetWrap(t *testing.T) {
	b, _ := hex.DecodeString("0061736d010000000009046e616d65070e6fa2020b01024d6d036d656d0200010b11020041000b0361626300c48080140b01640008046e616d65020100")
	l, ok := FindLiar(b)
	t.Logf("%+v %v", l, ok)
	if !ok || l.Class != "name-len" {
		t.Errorf("got %+v", l)
	}
}
func TestFindLiarThorough(t *testing.T) {
	for _, c := range []struct{ hex, want string }{
		{"0061736d010000000105016000017d03020100070501016600000a0901070096010080580b0024046e616d6502030100000016046e616d6501088080808001030166000504795bc808", "name-count"},
		{"0061736d01000000010401600000030201000a1d010101ffffffff0f7efd0c393039303930393039303930393039301a0b000a046e616d650203010000", "locals-count"},
	} {
		b, _ := hex.DecodeString(c.hex)
		l, ok := FindLiar(b)
		if !ok || l.Class != c.want {
			t.Errorf("%s...: got %+v %v want %s", c.hex[:40], l, ok, c.want)
		}
	}
}
func TestAllocSite(t *testing.T) {
	log := []byte("runtime.makeslice(0x7c44e0?, 0xc00010a030?, 0xc00021c238?)\n\t/usr/lib/go/src/runtime/slice.go:116 +0x49\ngithub.com/tetratelabs/wazero/internal/wasm/binary.decodeTypeSection(0x1ff, 0xc00010a030)\n\t/repo/internal/wasm/binary/section.go:19 +0x9b\n")
	if s := allocSite(log); s != "binary.decodeTypeSection" {
		t.Errorf("got %q", s)
	}
	c, _, _ := classify([]byte{0, 'a', 's', 'm', 1, 0, 0, 0}, nil, "alloc-site:"+allocSite(log))
	if allocSigClass(c) != "declared-size:in-decoder-binary.decodeTypeSection" {
		t.Errorf("got %q", allocSigClass(c))
	}
}

func TestImmMutate(t *testing.T) {
	seeds := loadCorpus()
	r := core.NewRng(1, 1)
	kinds := map[string]int{}
	for i := 0; i < 20000; i++ {
		s := seeds[r.Intn(len(seeds))]
		b, _, k, ok := ImmMutate(r, s.Bin, "")
		if ok {
			kinds[k]++
			if w := Walk(b); w.Hdr && !w.Complete && Walk(s.Bin).Complete {
				// over-long encodings beyond the limit make the instruction walk fail, the framing must stay intact
				if w.FirstBadSec >= 0 {
					t.Fatalf("framing broken by %s", k)
				}
			}
		}
	}
	t.Logf("%d kinds: %v", len(kinds), kinds)
}

func TestIdxTemplate(t *testing.T) {
	ctx := context.Background()
	r := core.NewRng(3, 3)
	kinds := map[string]int{}
	for i := 0; i < 300; i++ {
		b := IdxTemplate(r)
		for e, rc := range []wazero.RuntimeConfig{wazero.NewRuntimeConfigInterpreter(), wazero.NewRuntimeConfigCompiler()} {
			rt := wazero.NewRuntimeWithConfig(ctx, rc.WithCoreFeatures(fsBits[4]))
			cm, err := rt.CompileModule(ctx, b)
			if err != nil {
				t.Fatalf("template %d rejected on engine %d: %v", i, e, err)
			}
			cm.Close(ctx)
			rt.Close(ctx)
		}
		if w := Walk(b); !w.Complete {
			t.Fatalf("walker incomplete on template")
		}
		for j := 0; j < 20; j++ {
			_, rec, ok := IdxMutate(r, b)
			if ok {
				kinds[rec[:strings.LastIndexByte(rec, ':')]]++
			}
		}
	}
	t.Logf("%d kinds: %v", len(kinds), kinds)
}

func TestElemGlobalGetTag(t *testing.T) {
	for _, c := range []struct {
		hex  string
		want bool
	}{
		{"0061736d0100000001040160000003020100040401700001060a017e0042f8acd191010b0707010372756e00000909010441000b0123000b0a0901070041001100000b", true},
		{"0061736d010000000105016000017f020e01076d6f64756c65340166037d000302010004040170000a0716011263616c6c5f696d706f727465645f656c656d00000909010441000b0123000b0a0c010a01da017b41001100000b", true},
		{"0061736d010000000105016000017f020e01076d6f64756c653401660370000302010004040170000a0909010441000b0123000b0a0901070041001100000b", false},
	} {
		b, _ := hex.DecodeString(c.hex)
		if got := elemGlobalGetOfNonReference(b); got != c.want {
			t.Errorf("%s...: got %v", c.hex[:30], got)
		}
	}
}
