package c03

import (
	"github.com/tetratelabs/wazero/verifharness/core"
)

// Structured, section-aware mutations. Every operator works on the sites found
// by Walk and records itself as "op:kind" (the mutation record that is part of
// the witness and of the coverage evidence).

func encU32(v uint32) []byte {
	var b []byte
	for {
		c := byte(v & 0x7f)
		v >>= 7
		if v != 0 {
			b = append(b, c|0x80)
		} else {
			return append(b, c)
		}
	}
}

// encU32Pad encodes v in exactly width bytes (width >= canonical length) by
// padding with continuation bytes. Widths above 5 are malformed for a u32.
func encU32Pad(v uint32, width int) []byte {
	b := encU32(v)
	if width <= len(b) {
		return b
	}
	b[len(b)-1] |= 0x80
	for len(b) < width-1 {
		b = append(b, 0x80)
	}
	return append(b, 0x00)
}

func encS64(v int64) []byte {
	var b []byte
	for {
		c := byte(v & 0x7f)
		v >>= 7
		if (v == 0 && c&0x40 == 0) || (v == -1 && c&0x40 != 0) {
			return append(b, c)
		}
		b = append(b, c|0x80)
	}
}

func encS64Pad(v int64, width int) []byte {
	b := encS64(v)
	if width <= len(b) {
		return b
	}
	pad, last := byte(0x80), byte(0x00)
	if v < 0 {
		pad, last = 0xff, 0x7f
	}
	b[len(b)-1] |= 0x80
	for len(b) < width-1 {
		b = append(b, pad)
	}
	return append(b, last)
}

// splice replaces b[off:off+n] by nb. With fix, the size fields that enclose
// the position (frames, outermost first) are adjusted by the change in length
// so that the surrounding framing stays consistent.
func splice(b []byte, w *Walked, frames []int, off, n int, nb []byte, fix bool) []byte {
	out := make([]byte, 0, len(b)+len(nb))
	out = append(out, b[:off]...)
	out = append(out, nb...)
	out = append(out, b[off+n:]...)
	delta := len(nb) - n
	if !fix || delta == 0 {
		return out
	}
	for i := len(frames) - 1; i >= 0; i-- {
		f := &w.Sites[frames[i]]
		nv := int64(f.Val) + int64(delta)
		if nv < 0 || nv > 0xffffffff {
			break
		}
		enc := encU32(uint32(nv))
		if len(enc) < f.Len && f.Len <= 5 {
			enc = encU32Pad(uint32(nv), f.Len) // keep a padded width
		}
		o2 := make([]byte, 0, len(out)+len(enc))
		o2 = append(o2, out[:f.Off]...)
		o2 = append(o2, enc...)
		o2 = append(o2, out[f.Off+f.Len:]...)
		out = o2
		delta += len(enc) - f.Len
		if delta == 0 {
			break
		}
	}
	return out
}

func (w *Walked) pick(r *core.Rng, pred func(*Site) bool) *Site {
	n := 0
	for i := range w.Sites {
		if pred(&w.Sites[i]) {
			n++
		}
	}
	if n == 0 {
		return nil
	}
	k := r.Intn(n)
	for i := range w.Sites {
		if pred(&w.Sites[i]) {
			if k == 0 {
				return &w.Sites[i]
			}
			k--
		}
	}
	return nil
}

var modCounts = []uint32{255, 256, 1000, 4096, 50000, 50001, 65535, 65536}
var hugeCounts = []uint32{1 << 28, 1 << 31, 0xffffffff, 1 << 27, 1 << 20, 1 << 16, 50001, 1 << 24, 0x7fffffff, 1 << 30}
var localCounts = []uint32{1 << 27, 1 << 28, 1 << 31, 0xffffffff, 1 << 20, 1 << 24, 50000, 50001, 1 << 16, 1000, 50000, 49999, 20000, 5000, 300, 1 << 16, 100, 7}
var limitVals = []uint32{0, 1, 2, 255, 256, 257, 511, 512, 513, 65535, 65536, 65537, 1 << 20, 1<<20 + 1, 1 << 28, 1 << 31, 0xffffffff}
var valTypes = []byte{0x7f, 0x7e, 0x7d, 0x7c, 0x7b, 0x70, 0x6f}

// definedOpcodes: single-byte opcodes that exist in some feature set.
var definedOpcodes = func() []byte {
	var o []byte
	for c := 0; c <= 0x26; c++ {
		switch c {
		case 0x06, 0x07, 0x08, 0x09, 0x0a, 0x14, 0x15, 0x16, 0x17, 0x18, 0x19, 0x1d, 0x1e, 0x1f, 0x27:
			continue
		}
		o = append(o, byte(c))
	}
	for c := 0x28; c <= 0xc4; c++ {
		o = append(o, byte(c))
	}
	return append(o, 0xd0, 0xd1, 0xd2, 0xfc, 0xfd, 0xfe)
}()

type mutator struct {
	r     *core.Rng
	donor func() []byte
}

// one applies one operator; returns the new bytes and the record ("" = operator
// not applicable to this input).
func (m *mutator) one(b []byte) ([]byte, string) {
	r := m.r
	w := Walk(b)
	if !w.Hdr || len(w.Sites) == 0 {
		return m.havoc(b)
	}
	switch op := r.Intn(100); {
	case op < 9: // LEB widening (valid padded form, or 6+ bytes)
		s := w.pick(r, func(s *Site) bool { return s.LEB })
		if s == nil {
			return b, ""
		}
		signed := s.Kind == kBlockType || s.Kind == kConstImm
		width := s.Len + 1 + r.Intn(3)
		name := "leb-widen"
		if r.Chance(1, 4) {
			width = 6 + r.Intn(5)
			name = "leb-overlong"
		}
		var nb []byte
		if signed {
			nb = encS64Pad(int64(s.Val), width)
		} else {
			nb = encU32Pad(uint32(s.Val), width)
		}
		return splice(b, w, s.Frames, s.Off, s.Len, nb, !r.Chance(1, 5)), name + ":" + s.Kind
	case op < 14: // LEB overflow / unterminated
		s := w.pick(r, func(s *Site) bool { return s.LEB })
		if s == nil {
			return b, ""
		}
		var nb []byte
		switch r.Intn(4) {
		case 0:
			nb = []byte{0xff, 0xff, 0xff, 0xff, 0x7f}
		case 1:
			nb = []byte{0x80, 0x80, 0x80, 0x80, 0x10 << uint(r.Intn(3))}
		case 2:
			nb = []byte{0x80, 0x80, 0x80, 0x80, 0x80, 0x00}
		default:
			nb = []byte{0xff, 0xff}
		}
		return splice(b, w, s.Frames, s.Off, s.Len, nb, true), "leb-overflow:" + s.Kind
	case op < 30: // count and size fields: +-1 and huge
		s := w.pick(r, func(s *Site) bool { return isCountKind(s.Kind) || isSizeKind(s.Kind) || s.Kind == kDataCountSec })
		if s == nil {
			return b, ""
		}
		v := uint32(s.Val)
		name := "count"
		switch r.Intn(8) {
		case 0, 1:
			v++
			name += "+1"
		case 2, 3:
			v--
			name += "-1"
		case 4, 5:
			v = uint32(r.Intn(int(s.Rem) + 3))
			name += "-rand"
		case 6:
			v = modCounts[r.Intn(len(modCounts))]
			name += "-large"
		default:
			v = hugeCounts[r.Intn(len(hugeCounts))]
			name += "-huge"
		}
		return splice(b, w, s.Frames, s.Off, s.Len, encU32(v), true), name + ":" + s.Kind
	case op < 38: // local declarations
		s := w.pick(r, func(s *Site) bool { return s.Kind == kLocalDeclN })
		if s == nil {
			return b, ""
		}
		switch r.Intn(4) {
		case 0: // an existing run length
			ln := w.pick(r, func(x *Site) bool { return x.Kind == kLocalN && x.Fn == s.Fn })
			if ln != nil {
				v := localCounts[r.Intn(len(localCounts))]
				return splice(b, w, ln.Frames, ln.Off, ln.Len, encU32(v), true), "locals-huge:" + kLocalN
			}
			fallthrough
		case 1, 2: // a new declaration in front
			v := localCounts[r.Intn(len(localCounts))]
			if r.Chance(1, 4) {
				v = uint32(r.Intn(300))
			}
			nb := encU32(uint32(s.Val) + 1)
			nb = append(nb, encU32(v)...)
			nb = append(nb, valTypes[r.Intn(len(valTypes))])
			return splice(b, w, s.Frames, s.Off, s.Len, nb, true), "locals-insert:" + kLocalN
		default:
			v := uint32(s.Val) + 1
			if r.Bool() {
				v = hugeCounts[r.Intn(len(hugeCounts))]
			}
			return splice(b, w, s.Frames, s.Off, s.Len, encU32(v), true), "locals-decls:" + kLocalDeclN
		}
	case op < 48: // sections: reorder, duplicate, truncate, delete
		return m.sections(b, w)
	case op < 58: // opcode replacement / insertion / deletion
		s := w.pick(r, func(s *Site) bool { return s.Kind == kOpcode || s.Kind == kSubOpcode })
		if s == nil {
			return b, ""
		}
		if s.Kind == kSubOpcode {
			v := uint32(r.Intn(280))
			if r.Chance(1, 8) {
				v = r.U32()
			}
			return splice(b, w, s.Frames, s.Off, s.Len, encU32(v), true), "subopcode-replace:" + s.Kind
		}
		switch r.Intn(6) {
		case 0: // delete the opcode byte
			return splice(b, w, s.Frames, s.Off, 1, nil, true), "opcode-delete:" + s.Kind
		case 1: // insert an opcode in front
			nb := []byte{definedOpcodes[r.Intn(len(definedOpcodes))]}
			return splice(b, w, s.Frames, s.Off, 0, nb, true), "opcode-insert:" + s.Kind
		case 2:
			return splice(b, w, s.Frames, s.Off, 1, []byte{byte(r.U32())}, true), "opcode-random:" + s.Kind
		default:
			return splice(b, w, s.Frames, s.Off, 1, []byte{definedOpcodes[r.Intn(len(definedOpcodes))]}, true), "opcode-replace:" + s.Kind
		}
	case op < 67: // index swaps
		s := w.pick(r, func(s *Site) bool { return isIndexKind(s.Kind) })
		if s == nil {
			return b, ""
		}
		v := uint32(s.Val)
		switch r.Intn(6) {
		case 0:
			v++
		case 1:
			v--
		case 2:
			if o := w.pick(r, func(x *Site) bool { return x.Kind == s.Kind }); o != nil {
				v = uint32(o.Val)
			}
		case 3:
			v = uint32(r.Intn(12))
		case 4:
			v = hugeCounts[r.Intn(len(hugeCounts))]
		default:
			v = uint32(r.Intn(70000))
		}
		if s.LEB {
			return splice(b, w, s.Frames, s.Off, s.Len, encU32(v), true), "index-swap:" + s.Kind
		}
		return splice(b, w, s.Frames, s.Off, 1, []byte{byte(v)}, true), "index-swap:" + s.Kind
	case op < 72: // block types
		s := w.pick(r, func(s *Site) bool { return s.Kind == kBlockType })
		if s == nil {
			return b, ""
		}
		var nb []byte
		switch r.Intn(5) {
		case 0:
			nb = []byte{0x40}
		case 1:
			nb = []byte{valTypes[r.Intn(len(valTypes))]}
		case 2:
			nb = encS64(int64(r.Intn(8)))
		case 3:
			nb = encS64(int64(r.U32()))
		default:
			nb = []byte{byte(0x40 + r.Intn(0x40))}
		}
		return splice(b, w, s.Frames, s.Off, s.Len, nb, true), "block-type:" + s.Kind
	case op < 79: // mode bytes and flags
		s := w.pick(r, func(s *Site) bool {
			switch s.Kind {
			case kElemMode, kDataMode, kElemKind, kExportKind, kImportKind, kMutFlag, kTypeForm, kLimitsFlag, kNameSubID:
				return true
			}
			return false
		})
		if s == nil {
			return b, ""
		}
		v := uint32(r.Intn(9))
		if r.Chance(1, 6) {
			v = r.U32()
		}
		if s.LEB {
			return splice(b, w, s.Frames, s.Off, s.Len, encU32(v), true), "mode-byte:" + s.Kind
		}
		return splice(b, w, s.Frames, s.Off, 1, []byte{byte(v)}, true), "mode-byte:" + s.Kind
	case op < 84: // limits
		s := w.pick(r, func(s *Site) bool { return s.Kind == kLimitsMin || s.Kind == kLimitsMax })
		if s == nil {
			return b, ""
		}
		v := limitVals[r.Intn(len(limitVals))]
		if r.Chance(1, 4) {
			v = uint32(s.Val) + uint32(r.Intn(3)) - 1
		}
		return splice(b, w, s.Frames, s.Off, s.Len, encU32(v), true), "limits:" + s.Kind
	case op < 88: // value types
		s := w.pick(r, func(s *Site) bool { return s.Kind == kValType || s.Kind == kRefType })
		if s == nil {
			return b, ""
		}
		v := valTypes[r.Intn(len(valTypes))]
		if r.Chance(1, 5) {
			v = byte(r.U32())
		}
		return splice(b, w, s.Frames, s.Off, 1, []byte{v}, true), "valtype:" + s.Kind
	case op < 92: // immediates
		s := w.pick(r, func(s *Site) bool {
			return s.Kind == kConstImm || s.Kind == kOffset || s.Kind == kAlign || s.Kind == kLane
		})
		if s == nil {
			return b, ""
		}
		switch {
		case !s.LEB:
			return splice(b, w, s.Frames, s.Off, s.Len, r.Bytes(s.Len), true), "immediate:" + s.Kind
		case s.Kind == kConstImm:
			return splice(b, w, s.Frames, s.Off, s.Len, encS64(int64(int32(r.I32()))), true), "immediate:" + s.Kind
		default:
			v := r.I32()
			if s.Kind == kAlign && r.Chance(3, 4) {
				v = uint32(r.Intn(70))
			}
			return splice(b, w, s.Frames, s.Off, s.Len, encU32(v), true), "immediate:" + s.Kind
		}
	case op < 97: // custom / name sections
		return m.custom(b, w)
	default:
		return m.havoc(b)
	}
}

func (m *mutator) sections(b []byte, w *Walked) ([]byte, string) {
	r := m.r
	if len(w.Secs) == 0 {
		return b, ""
	}
	raw := func(s *Section) []byte { return b[s.Off:s.PayEnd] }
	i := r.Intn(len(w.Secs))
	s := &w.Secs[i]
	switch r.Intn(7) {
	case 0: // swap two sections
		j := r.Intn(len(w.Secs))
		if i == j {
			return b, ""
		}
		if j < i {
			i, j = j, i
		}
		a, c := &w.Secs[i], &w.Secs[j]
		out := append([]byte(nil), b[:a.Off]...)
		out = append(out, raw(c)...)
		out = append(out, b[a.PayEnd:c.Off]...)
		out = append(out, raw(a)...)
		out = append(out, b[c.PayEnd:]...)
		return out, "sec-reorder:" + secName(a.ID) + "," + secName(c.ID)
	case 1: // duplicate
		j := r.Intn(len(w.Secs) + 1)
		at := len(b)
		if j < len(w.Secs) {
			at = w.Secs[j].Off
		}
		out := append([]byte(nil), b[:at]...)
		out = append(out, raw(s)...)
		out = append(out, b[at:]...)
		return out, "sec-dup:" + secName(s.ID)
	case 2: // delete
		out := append([]byte(nil), b[:s.Off]...)
		out = append(out, b[s.PayEnd:]...)
		return out, "sec-del:" + secName(s.ID)
	case 3: // truncate the payload, fix the size
		if s.PayEnd <= s.PayOff {
			return b, ""
		}
		keep := r.Intn(s.PayEnd - s.PayOff)
		out := append([]byte(nil), b[:s.SizeOff]...)
		out = append(out, encU32(uint32(keep))...)
		out = append(out, b[s.PayOff:s.PayOff+keep]...)
		out = append(out, b[s.PayEnd:]...)
		return out, "sec-trunc-fixed:" + secName(s.ID)
	case 4: // truncate the payload, keep the size
		if s.PayEnd <= s.PayOff {
			return b, ""
		}
		keep := r.Intn(s.PayEnd - s.PayOff)
		out := append([]byte(nil), b[:s.PayOff+keep]...)
		out = append(out, b[s.PayEnd:]...)
		return out, "sec-trunc:" + secName(s.ID)
	case 5: // truncate the file
		if len(b) <= 8 {
			return b, ""
		}
		return append([]byte(nil), b[:8+r.Intn(len(b)-8)]...), "file-trunc"
	default: // replace / insert a section from a donor
		d := m.donor()
		ds, ok := Split(d)
		if !ok || len(ds) == 0 {
			return b, ""
		}
		var cand []int
		for k := range ds {
			if ds[k].ID == s.ID {
				cand = append(cand, k)
			}
		}
		var src *Section
		replace := false
		if len(cand) > 0 && r.Chance(3, 4) {
			src = &ds[cand[r.Intn(len(cand))]]
			replace = true
		} else {
			src = &ds[r.Intn(len(ds))]
		}
		out := append([]byte(nil), b[:s.Off]...)
		out = append(out, d[src.Off:src.PayEnd]...)
		if replace {
			out = append(out, b[s.PayEnd:]...)
			return out, "sec-splice:" + secName(s.ID)
		}
		out = append(out, b[s.Off:]...)
		return out, "sec-insert:" + secName(src.ID)
	}
}

func secName(id byte) string {
	names := []string{"custom", "type", "import", "function", "table", "memory", "global", "export", "start", "element", "code", "data", "datacount"}
	if int(id) < len(names) {
		return names[id]
	}
	return "unknown"
}

func (m *mutator) custom(b []byte, w *Walked) ([]byte, string) {
	r := m.r
	var pay []byte
	nm := ""
	rec := ""
	putName := func(p []byte, s string) []byte { return append(append(p, encU32(uint32(len(s)))...), s...) }
	switch r.Intn(6) {
	case 0, 1: // structured name section with hostile subsections
		nm, rec = "name", "custom-name-structured"
		pay = putName(pay, nm)
		for n := r.Intn(4); n >= 0; n-- {
			id := byte(r.Intn(4))
			var sub []byte
			switch id {
			case 0:
				sub = putName(sub, string(r.Bytes(r.Intn(6))))
			case 1:
				cnt := r.Intn(4)
				c := uint32(cnt)
				if r.Chance(1, 8) {
					c = hugeCounts[r.Intn(len(hugeCounts))]
				}
				sub = append(sub, encU32(c)...)
				for i := 0; i < cnt; i++ {
					sub = append(sub, encU32(r.I32())...)
					sub = putName(sub, "f")
				}
			default:
				cnt := r.Intn(3)
				c := uint32(cnt)
				if r.Chance(1, 8) {
					c = hugeCounts[r.Intn(len(hugeCounts))]
				}
				sub = append(sub, encU32(c)...)
				for i := 0; i < cnt; i++ {
					sub = append(sub, encU32(uint32(r.Intn(4)))...)
					lc := uint32(1)
					if r.Chance(1, 8) {
						lc = hugeCounts[r.Intn(len(hugeCounts))]
					}
					sub = append(sub, encU32(lc)...)
					sub = append(sub, encU32(r.I32())...)
					sub = putName(sub, "l")
				}
			}
			sz := uint32(len(sub))
			if r.Chance(1, 10) {
				sz = hugeCounts[r.Intn(len(hugeCounts))]
			} else if r.Chance(1, 5) {
				sz += uint32(r.Intn(3)) - 1
			}
			pay = append(pay, id)
			pay = append(pay, encU32(sz)...)
			pay = append(pay, sub...)
		}
	case 2: // name section garbage
		nm, rec = "name", "custom-name-garbage"
		pay = putName(pay, nm)
		pay = append(pay, r.Bytes(r.Intn(40))...)
	case 3: // DWARF-looking sections with garbage
		dn := []string{".debug_info", ".debug_line", ".debug_abbrev", ".debug_str", ".debug_ranges"}
		rec = "custom-dwarf-garbage"
		for _, n := range dn {
			if r.Bool() {
				p := putName(nil, n)
				p = append(p, r.Bytes(r.Intn(64))...)
				pay = append(pay, 0)
				pay = append(pay, encU32(uint32(len(p)))...)
				pay = append(pay, p...)
			}
		}
		if len(pay) == 0 {
			return b, ""
		}
		// pay already holds whole sections
		at := len(b)
		if len(w.Secs) > 0 && r.Bool() {
			at = w.Secs[r.Intn(len(w.Secs))].Off
		}
		out := append([]byte(nil), b[:at]...)
		out = append(out, pay...)
		return append(out, b[at:]...), rec
	case 4: // random (maybe invalid UTF-8) name, garbage payload
		rec = "custom-random-name"
		pay = putName(pay, string(r.Bytes(r.Intn(8))))
		pay = append(pay, r.Bytes(r.Intn(24))...)
	default: // name length lie
		rec = "custom-name-len-lie"
		pay = append(pay, encU32(hugeCounts[r.Intn(len(hugeCounts))])...)
		pay = append(pay, r.Bytes(r.Intn(8))...)
	}
	sec := []byte{0}
	sz := uint32(len(pay))
	if r.Chance(1, 8) {
		sz += uint32(r.Intn(3)) - 1
		rec += "+size-lie"
	}
	sec = append(sec, encU32(sz)...)
	sec = append(sec, pay...)
	at := len(b)
	if len(w.Secs) > 0 && r.Bool() {
		at = w.Secs[r.Intn(len(w.Secs))].Off
	}
	out := append([]byte(nil), b[:at]...)
	out = append(out, sec...)
	return append(out, b[at:]...), rec
}

func (m *mutator) havoc(b []byte) ([]byte, string) {
	r := m.r
	if len(b) <= 8 {
		return append(append([]byte(nil), b...), r.Bytes(1+r.Intn(8))...), "havoc-append"
	}
	p := 8 + r.Intn(len(b)-8)
	out := append([]byte(nil), b...)
	switch r.Intn(4) {
	case 0:
		out[p] ^= 1 << uint(r.Intn(8))
		return out, "havoc-bitflip"
	case 1:
		out[p] = byte(r.U32())
		return out, "havoc-byte"
	case 2:
		out = append(out[:p], append(r.Bytes(1+r.Intn(4)), b[p:]...)...)
		return out, "havoc-insert"
	default:
		n := 1 + r.Intn(4)
		if p+n > len(b) {
			n = len(b) - p
		}
		return append(out[:p], b[p+n:]...), "havoc-delete"
	}
}

// Mutate applies 1..3 operators.
func Mutate(r *core.Rng, in []byte, donor func() []byte) ([]byte, []string) {
	m := &mutator{r: r, donor: donor}
	n := 1
	if x := r.Intn(100); x >= 88 {
		n = 3
	} else if x >= 60 {
		n = 2
	}
	b := in
	var recs []string
	for i := 0; i < n; i++ {
		for try := 0; try < 6; try++ {
			nb, rec := m.one(b)
			if rec != "" {
				b = nb
				recs = append(recs, rec)
				break
			}
		}
	}
	if len(recs) == 0 {
		nb, rec := m.havoc(b)
		b, recs = nb, append(recs, rec)
	}
	return b, recs
}

var header = []byte{0, 'a', 's', 'm', 1, 0, 0, 0}

// RawInput: PRNG bytes behind a valid header, either unframed or as a list of
// sections with correct sizes and random payloads.
func RawInput(r *core.Rng) ([]byte, string) {
	b := append([]byte(nil), header...)
	if r.Bool() {
		return append(b, r.Bytes(r.Intn(120))...), "raw-bytes"
	}
	for n := 1 + r.Intn(5); n > 0; n-- {
		id := byte(r.Intn(13))
		var pay []byte
		if r.Bool() {
			pay = append(pay, encU32(uint32(r.Intn(4)))...) // a plausible count
		}
		pay = append(pay, r.Bytes(r.Intn(24))...)
		b = append(b, id)
		b = append(b, encU32(uint32(len(pay)))...)
		b = append(b, pay...)
	}
	return b, "raw-framed"
}
