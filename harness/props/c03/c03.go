// Package c03 decides C03 (compilation is total and sound on arbitrary input
// bytes): structured, section-aware mutations of the repository's wasm corpus
// and of wgen programs, plus raw bytes behind a valid header, are compiled
// under five feature sets on both engines inside supervised children while
// five monitors watch: no panic / process fault, allocation proportional to
// the input (TotalAlloc delta <= A*len+B, calibrated on the unmutated corpus),
// no hang (differential watchdog), soundness of acceptance (every accepted
// module is instantiated with stubbed imports and its exports are called on
// both engines; internal failures of the runtime are violations) and validity
// (every wgen module is accepted).
package c03

import (
	"bytes"
	"encoding/hex"
	"encoding/json"
	"fmt"
	"os"
	"path/filepath"
	"regexp"
	"sort"
	"strconv"
	"strings"
	"time"

	"github.com/tetratelabs/wazero/verifharness/core"
)

var Prop = &core.Prop{ID: "C03", Run: run, Child: child}

const rlimitAS = 4 << 30

var corpusDirs = []string{"spectest/v1", "spectest/v2", "spectest/threads", "spectest/tail-call", "fuzzcases"}

func loadCorpus() []seedFile {
	var out []seedFile
	seen := map[string]bool{}
	for _, d := range corpusDirs {
		files, _ := filepath.Glob("/repo/internal/integration_test/" + d + "/testdata/*.wasm")
		sort.Strings(files)
		for _, f := range files {
			b, err := os.ReadFile(f)
			if err != nil || len(b) == 0 {
				continue
			}
			if seen[string(b)] {
				continue
			}
			seen[string(b)] = true
			out = append(out, seedFile{Name: d + "/" + filepath.Base(f), Bin: b})
		}
	}
	return out
}

type agg struct {
	c         *core.Ctx
	seeds     []seedFile
	bnd       bounds
	hashes    map[uint64]struct{}
	mutHash   map[uint64]struct{}
	evals     int64
	maxRatio  [2]float64
	maxRatIn  [2]string
	maxFrac   [2]float64 // largest alloc/bound among inputs that stayed within the bound (limit modules excluded)
	maxFracIn [2]string
	executed  int64
	// hang / allocation probe candidates: class -> best witness
	cand       map[string]*candidate
	samples    int
	seenSig    map[string]bool
	errClasses map[string]int
	recheck    []json.RawMessage
}

type candidate struct {
	Class string
	Val   uint64
	Bin   []byte
	Case  json.RawMessage
	Why   string
}

// addCandidate keeps, per class, the witness with the largest and the one with the
// smallest declared value for the differential watchdog.
func (a *agg) addCandidate(class string, val uint64, bin []byte, cs json.RawMessage, why string) {
	cur := a.cand[class+" (largest)"]
	if cur == nil || val > cur.Val || (val == cur.Val && len(bin) < len(cur.Bin)) {
		a.cand[class+" (largest)"] = &candidate{Class: class, Val: val, Bin: bin, Case: cs, Why: why}
	}
	cur = a.cand[class+" (smallest)"]
	if cur == nil || val < cur.Val || (val == cur.Val && len(bin) < len(cur.Bin)) {
		a.cand[class+" (smallest)"] = &candidate{Class: class, Val: val, Bin: bin, Case: cs, Why: why}
	}
}

// classify names the root-cause class of an input that made a compile
// allocate out of proportion / die / hang: the lying count or size field found
// by the independent walker, else the last mutation operator.
// allocSite extracts the innermost wazero function from the goroutine dump of a
// child that died of memory exhaustion ("" if there is none).
func allocSite(log []byte) string {
	m := reWazeroFrame.FindSubmatch(log)
	if m == nil {
		return ""
	}
	f := string(m[1])
	if i := strings.LastIndexByte(f, '/'); i >= 0 {
		f = f[i+1:]
	}
	return f
}

func classify(bin []byte, ops []string, errText string) (string, uint64, string) {
	if l, ok := FindLiar(bin); ok {
		return l.Class, l.Val, fmt.Sprintf("field %s at offset %d declares %d with %d input bytes left", l.Class, l.Off, l.Val, l.Rem)
	}
	// the decoder rejected the input with an error of section X after allocating out of
	// proportion: the allocation was made for something that section declares
	if strings.HasPrefix(errText, "alloc-site:binary.") {
		f := strings.TrimPrefix(errText, "alloc-site:")
		return "in-decoder-" + f, 0, "no lying count/size field found by the walker; the child died allocating in " + f
	}
	if strings.HasPrefix(errText, "section ") {
		if i := strings.IndexByte(errText, ':'); i > 8 {
			return "in-section-" + errText[8:i], 0, "no lying count/size field found by the walker; the decoder rejected the input in section " + errText[8:i]
		}
	}
	if len(ops) > 0 {
		return "after-" + ops[len(ops)-1], 0, "no lying count/size field found; last mutation " + ops[len(ops)-1]
	}
	return "unclassified", 0, "no lying count/size field found"
}

// allocSigClass: the locals run-length expansion is its own root cause; every
// other lying count/size field belongs to the family "the decoder allocates
// what a count or size field declares before looking at how much input is left".
func allocSigClass(class string) string {
	switch {
	case class == "locals-count":
		return class
	case strings.HasPrefix(class, "after-"), class == "unclassified":
		return "unclassified:" + class
	}
	return "declared-size:" + class
}

func witness(cs json.RawMessage, bin []byte, ops []string, extra map[string]any) map[string]any {
	w := map[string]any{"case": cs, "ops": ops, "len": len(bin)}
	if len(bin) <= 1<<16 {
		w["input_hex"] = hex.EncodeToString(bin)
	}
	// a section listing by the independent splitter (wazero's own decoder is not
	// run on hostile inputs in the parent)
	if secs, ok := Split(bin); ok {
		var l []string
		for _, sc := range secs {
			l = append(l, fmt.Sprintf("%s@%d size=%d", secName(sc.ID), sc.Off, sc.Size))
		}
		w["sections"] = l
	}
	w["replay"] = "vcheck replay <this file>  (compiles input_hex under the recorded combo in a supervised child)"
	for k, v := range extra {
		w[k] = v
	}
	return w
}

// violate reports a violation; the witness is only built for the first
// occurrence of a signature.
func (a *agg) violate(sig, detail string, w func() map[string]any) {
	if a.seenSig == nil {
		a.seenSig = map[string]bool{}
	}
	if a.seenSig[sig] {
		a.c.Violate(sig, detail, nil)
		return
	}
	a.seenSig[sig] = true
	a.c.Violate(sig, detail, w())
}

func hasLiar(bin []byte) bool {
	_, ok := FindLiar(bin)
	return ok
}

// rechecks decides the inputs whose child died of memory exhaustion during a compile
// although nothing in them declares a huge size: each one alone in a fresh child.
func (a *agg) rechecks(env []string) {
	if len(a.recheck) == 0 {
		return
	}
	res := core.RunCases(a.c, "recheck", a.recheck, core.ChildOpts{Batch: 1, TimeoutS: 600, RlimitAS: rlimitAS, Env: env})
	for i, r := range res {
		cs := a.recheck[i]
		var ic inCase
		json.Unmarshal(cs, &ic)
		bin, ops, _ := buildInput(&ic, a.seeds)
		if r.Crash != nil {
			log := readTail(r.Crash.Log, 1<<20)
			if bytes.Contains(log, []byte("out of memory")) || bytes.Contains(log, []byte("cannot allocate memory")) || reAbort.Match(log) {
				a.allocViolation(cs, bin, ops, "", "alone in a fresh child the compile again exhausts memory: "+r.Crash.Detail, "alloc-site:"+allocSite(log))
			} else {
				a.c.Inconclusive("compile-oom-recheck-undecided")
			}
			continue
		}
		var o outCase
		json.Unmarshal(r.Out, &o)
		confirmed := false
		for _, f := range o.Findings {
			if f.Sig == "ALLOC" {
				a.allocViolation(cs, bin, ops, f.Combo, f.Detail, f.Err)
				confirmed = true
			}
		}
		if !confirmed {
			a.c.Inconclusive("compile-oom-not-reproduced-in-isolation")
		}
	}
}

func (a *agg) allocViolation(cs json.RawMessage, bin []byte, ops []string, combo, detail, errText string) {
	class, val, why := classify(bin, ops, errText)
	a.c.Count("alloc_violations", 1)
	a.c.Count("alloc_violation_class_"+class, 1)
	a.addCandidate(class, val, bin, cs, "alloc")
	a.violate("compile:disproportionate-allocation:"+allocSigClass(class), detail+"; "+why+"; combo "+combo, func() map[string]any {
		return witness(cs, bin, ops, map[string]any{"combo": combo, "class": class, "why": why,
			"bound": map[string]any{"A": a.bnd.A, "B": a.bnd.B, "engines": engNames}})
	})
}

var (
	reWazeroFrame = regexp.MustCompile(`(?m)^github\.com/tetratelabs/wazero/(internal/[A-Za-z0-9_/]+\.[A-Za-z0-9_.()*]+)\(`)
	reOOMBlock    = regexp.MustCompile(`cannot allocate (\d+)-byte block`)
	reMallocgc    = regexp.MustCompile(`runtime\.mallocgc\(0x([0-9a-f]+)`)
	reCtl         = regexp.MustCompile(`C03-PROBE control-done ms=([0-9.]+)`)
	reAbort       = regexp.MustCompile(`C03-ABORT kind=(\w+) phase=(\w*) ?([^\n]*)`)
	rePhase       = regexp.MustCompile(`(?m)^C03@ (\w+) ([^\n]*)$`)
)

func readTail(path string, n int64) []byte {
	f, err := os.Open(path)
	if err != nil {
		return nil
	}
	defer f.Close()
	st, _ := f.Stat()
	off := int64(0)
	if st != nil && st.Size() > n {
		off = st.Size() - n
	}
	b := make([]byte, n)
	m, _ := f.ReadAt(b, off)
	return b[:m]
}

func crashSig(s string) string {
	s = strings.ReplaceAll(errClass(s), " ", "_")
	return core.Trunc(s, 80)
}

// crash decides a child death attributed to the journaled case.
func (a *agg) crash(cs json.RawMessage, cr *core.Crash) {
	c := a.c
	var ic inCase
	json.Unmarshal(cs, &ic)
	bin, ops, _ := buildInput(&ic, a.seeds)
	a.evals++
	c.Count("inputs", 1)
	c.Count("inputs_"+ic.K, 1)
	log := readTail(cr.Log, 1<<20)
	phase, combo := "", ""
	if m := rePhase.FindAllSubmatch(log, -1); len(m) > 0 {
		phase, combo = string(m[len(m)-1][1]), string(m[len(m)-1][2])
	}
	abort := reAbort.FindSubmatch(log)
	oom := bytes.Contains(log, []byte("out of memory")) || bytes.Contains(log, []byte("cannot allocate memory"))
	switch {
	case abort != nil && string(abort[1]) == "alloc":
		a.allocViolation(cs, bin, ops, combo, "compile aborted by the allocation sentinel: "+string(abort[3]), "")
	case abort != nil && string(abort[1]) == "timeout" && phase == "compile":
		class, val, _ := classify(bin, ops, "")
		a.addCandidate(class, val, bin, cs, "timeout")
		c.Count("compile_step_timeouts", 1)
		c.Inconclusive("compile-timeout")
	case abort != nil && string(abort[1]) == "timeout":
		// a guest that keeps running after its context is done is C07's subject
		c.Inconclusive("exec-no-return-after-deadline")
		c.Distinct("exec_no_return", combo)
		if ic.K == "seed" {
			c.Distinct("exec_no_return_unmutated_seeds", a.seeds[ic.I].Name)
		}
	case cr.Kind == "timeout":
		c.Inconclusive("batch-watchdog")
	case oom && phase == "compile" && !hasLiar(bin):
		// nothing in the input explains a huge allocation: the child may have run out of
		// address space because of what earlier cases of its batch left behind; decide the
		// input alone in a fresh child
		a.recheck = append(a.recheck, cs)
		c.Count("compile_oom_rechecked_in_isolation", 1)
	case oom && phase == "compile":
		a.allocViolation(cs, bin, ops, combo, fmt.Sprintf("child died during the compile with RLIMIT_AS=%d: %s", uint64(rlimitAS), cr.Detail), "alloc-site:"+allocSite(log))
	case oom && phase == "exec":
		// A guest can legitimately use a lot of memory (deep recursion of a function with
		// tens of thousands of locals, ...) and the 4 GiB address-space cap is ours: only a
		// single allocation request that could never fit (>= 2 GiB for one block) counts as
		// a fault of the runtime; cumulative exhaustion under the cap is inconclusive.
		what := "other"
		if w := Walk(bin); w.Hdr {
			for i := range w.Sites {
				if st := &w.Sites[i]; st.Kind == kSubOpcode && st.Val == 15 && st.Off > 0 && bin[st.Off-1] == 0xfc {
					what = "table.grow"
				}
			}
		}
		var block uint64
		if m := reOOMBlock.FindSubmatch(log); m != nil {
			block, _ = strconv.ParseUint(string(m[1]), 10, 64)
		} else if m := reMallocgc.FindSubmatch(log); m != nil {
			block, _ = strconv.ParseUint(string(m[1]), 16, 64)
		}
		if block < 2<<30 {
			c.Inconclusive("exec-memory-exhaustion-under-rlimit")
			c.Distinct("exec_memory_exhaustion", fmt.Sprintf("%s %s block=%d", what, combo, block))
			break
		}
		a.violate("exec:out-of-memory:single-allocation:"+what, fmt.Sprintf("child died while running an accepted module (%s): the runtime requested one block of %d bytes: %s", combo, block, cr.Detail),
			func() map[string]any {
				return witness(cs, bin, ops, map[string]any{"combo": combo, "crash": cr, "block_bytes": block})
			})
	case phase == "exec" && elemGlobalGetOfNonReference(bin):
		// input-derived root cause: an element segment takes a reference from a global that is not of a reference type
		a.violate("exec:process-fault:element-init-global.get-of-non-reference-global:"+cr.Kind, cr.Detail+" ("+combo+")", func() map[string]any {
			return witness(cs, bin, ops, map[string]any{"combo": combo, "crash": cr, "log_tail": core.Trunc(string(readTail(cr.Log, 6000)), 6000)})
		})
	case len(ops) == 1 && strings.HasPrefix(ops[0], "idx-boundary:") && phase != "":
		// an index field set to a boundary value was accepted and the process died using it
		sig := "index-boundary:" + strings.TrimPrefix(ops[0], "idx-boundary:") + ":" + phase + "-process-fault:" + cr.Kind
		a.violate(sig, cr.Detail+" ("+combo+")", func() map[string]any {
			return witness(cs, bin, ops, map[string]any{"combo": combo, "crash": cr, "log_tail": core.Trunc(string(readTail(cr.Log, 6000)), 6000)})
		})
	default:
		p := phase
		if p == "" {
			p = "unknown"
		}
		a.violate(p+":process-fault:"+cr.Kind+":"+crashSig(cr.Detail), cr.Detail+" ("+combo+")", func() map[string]any {
			return witness(cs, bin, ops, map[string]any{"combo": combo, "crash": cr, "log_tail": core.Trunc(string(readTail(cr.Log, 6000)), 6000)})
		})
	}
}

// elemGlobalGetOfNonReference: some element segment initialiser is `global.get g` where the
// global g (imported or local) has a numeric or vector type.
func elemGlobalGetOfNonReference(bin []byte) bool {
	w := Walk(bin)
	if !w.Hdr {
		return false
	}
	var gtypes []byte
	for _, im := range w.Imports {
		if im.Kind == 3 {
			gtypes = append(gtypes, im.GlobalType)
		}
	}
	for i := range w.Sites {
		s := &w.Sites[i]
		if s.Kind == kValType && s.Fn < 0 && !s.InInstr && w.Secs[s.Sec].ID == 6 {
			gtypes = append(gtypes, byte(s.Val))
		}
	}
	for i := range w.Sites {
		s := &w.Sites[i]
		if s.Kind == kGlobalIndex && s.Fn < 0 && s.InInstr && w.Secs[s.Sec].ID == 9 && !isElemOffsetExpr(w, i) {
			// (the global.get of an active segment's offset expression is not an initialiser)
			if s.Val >= uint64(len(gtypes)) {
				// an index the module does not have: if the module is accepted nevertheless, the
				// initialiser resolved to some other global; any non-reference global will do
				for _, t := range gtypes {
					if t != 0x70 && t != 0x6f {
						return true
					}
				}
			} else if t := gtypes[s.Val]; t != 0x70 && t != 0x6f {
				return true
			}
		}
	}
	return false
}

// isElemOffsetExpr: the site is inside the offset expression of an element segment, i.e.
// no element kind / reftype / init count field of that segment precedes it.
func isElemOffsetExpr(w *Walked, i int) bool {
	for j := i - 1; j >= 0; j-- {
		switch w.Sites[j].Kind {
		case kElemMode:
			return true
		case kElemInitN, kElemKind:
			return false
		case kRefType:
			if !w.Sites[j].InInstr {
				return false
			}
		}
	}
	return true
}

func unmutatedKind(k string) bool { return k == "seed" || k == "wgen" || k == "lim" || k == "xtpl" }

func opName(rec string) string {
	if i := strings.IndexByte(rec, ':'); i >= 0 {
		return rec[:i]
	}
	return rec
}

// add folds one child result in.
func (a *agg) add(cs json.RawMessage, ic *inCase, o *outCase, calibrating bool) {
	c := a.c
	c.Count("inputs", 1)
	c.Count("inputs_"+ic.K, 1)
	a.hashes[o.Hash] = struct{}{}
	if !unmutatedKind(ic.K) {
		a.mutHash[o.Hash] = struct{}{}
	}
	for _, op := range o.Ops {
		c.Count("op_"+opName(op), 1)
		c.Distinct("mutation_op_kinds", op)
	}
	anyAcc := false
	for i := 0; i < nCombo; i++ {
		switch o.Acc[i] {
		case 1:
			a.evals++
			anyAcc = true
			c.Count("accepted_"+comboName(i), 1)
		case 0:
			a.evals++
			c.Count("rejected_"+comboName(i), 1)
		}
		if o.Acc[i] >= 0 && a.bnd.Set && !o.AllocViol {
			lim := a.bnd.limit(o.Len, i%2)
			if o.Acc[i] == 0 {
				lim = a.bnd.rejectedLimit(o.Len)
			}
			if f := float64(o.Alloc[i]) / float64(lim); f > a.maxFrac[i%2] && ic.K != "lim" {
				a.maxFrac[i%2] = f
				a.maxFracIn[i%2] = fmt.Sprintf("%s ops=%v (%d bytes, %d allocated, bound %d, %s)", string(cs), o.Ops, o.Len, o.Alloc[i], lim, comboName(i))
			}
		}
		if o.Acc[i] >= 0 {
			r := float64(o.Alloc[i]) / float64(o.Len+1)
			if r > a.maxRatio[i%2] && !o.AllocViol {
				a.maxRatio[i%2] = r
				a.maxRatIn[i%2] = fmt.Sprintf("%s (%d bytes, %d allocated, %s)", string(cs), o.Len, o.Alloc[i], comboName(i))
			}
		}
		if i%2 == 1 && o.Acc[i] >= 0 && o.Acc[i-1] >= 0 && o.Acc[i] != o.Acc[i-1] {
			c.Count("engines_disagree_on_acceptance", 1)
			c.Distinct("engines_disagree_on_acceptance", fsNames[i/2]+":"+strings.Join(o.Errs, "|"))
		}
	}
	if anyAcc {
		c.Count("inputs_accepted_somewhere", 1)
		if !unmutatedKind(ic.K) {
			c.Count("mutants_accepted_somewhere", 1)
		}
	}
	for _, e := range o.Errs {
		c.Distinct("error_classes", e)
		a.errClasses[e]++
	}
	c.Count("instantiations_ok", int64(o.Inst))
	c.Count("export_calls", int64(o.Calls))
	for k, v := range o.InstErr {
		c.Count("instantiate_"+k, int64(v))
		c.Distinct("instantiate_outcomes", k)
	}
	for k, v := range o.CallOut {
		c.Count("call_"+k, int64(v))
		c.Distinct("call_outcomes", k)
	}
	if o.Executed {
		a.executed++
		c.Count("accepted_and_executed_on_both_engines", 1)
		if !unmutatedKind(ic.K) {
			c.Count("mutants_accepted_and_executed", 1)
		}
	}
	if o.ImmKind != "" {
		c.Count("imm_mutants", 1)
		c.Distinct("immediate_kinds_mutated", o.ImmKind)
		if anyAcc {
			c.Count("imm_mutants_accepted_somewhere", 1)
			c.Distinct("immediate_kinds_accepted_noncanonical", o.ImmKind)
		}
		c.Count("imm_call_outcomes_compared_between_engines", int64(o.Agree))
	}
	if o.Deadline > 0 {
		c.Inconclusive("exec-deadline")
	}
	if o.SkipHuge {
		c.Count("accepted_not_instantiated_huge_declared_size", 1)
	}
	if o.SkipParse {
		c.Count("accepted_not_instantiated_walker_incomplete", 1)
	}
	var bin []byte
	var ops []string
	for _, f := range o.Findings {
		if bin == nil {
			bin, ops, _ = buildInput(ic, a.seeds)
		}
		if f.Sig == "ALLOC" {
			a.allocViolation(cs, bin, ops, f.Combo, f.Detail, f.Err)
			continue
		}
		c.Count("findings_"+strings.SplitN(f.Sig, ":", 3)[0], 1)
		f := f
		a.violate(f.Sig, f.Detail, func() map[string]any { return witness(cs, bin, ops, map[string]any{"combo": f.Combo}) })
	}
	if len(o.Ops) == 1 && strings.HasPrefix(o.Ops[0], "idx-boundary:") {
		c.Count("idx_mutants", 1)
		c.Distinct("index_boundary_kinds", o.Ops[0])
		if anyAcc {
			c.Count("idx_mutants_accepted_somewhere", 1)
			c.Distinct("index_boundary_kinds_accepted", o.Ops[0])
		}
		if o.Executed {
			c.Count("idx_mutants_accepted_and_executed", 1)
		}
	}
	if ic.K == "xtpl" {
		c.Count("idx_templates_checked", 1)
		for _, k := range []int{8, 9} {
			if o.Acc[k] != 1 {
				b, _, _ := buildInput(ic, a.seeds)
				c.Violate("index-template-rejected:"+engNames[k%2], "by-construction-valid template module rejected under "+comboName(k)+": "+strings.Join(o.Errs, " | "),
					witness(cs, b, nil, map[string]any{"combo": comboName(k)}))
			}
		}
		if !o.Executed {
			c.Count("idx_templates_not_executed", 1)
		}
	}
	// validity of by-construction-valid modules
	if ic.K == "wgen" {
		c.Count("wgen_validity_checked", 1)
		if o.WgenFS < 1 {
			c.Inconclusive("wgen-featureset-unknown")
		} else {
			need := fsBits[o.WgenFS]
			for fi, fb := range fsBits {
				if fb&need != need {
					continue
				}
				for e := 0; e < 2; e++ {
					if o.Acc[fi*2+e] == 0 {
						b, _, _ := buildInput(ic, a.seeds)
						c.Violate("wgen-rejected:"+engNames[e]+":"+crashSig(o.ErrOf[fi*2+e]),
							"by-construction-valid module rejected under "+comboName(fi*2+e)+": "+o.ErrOf[fi*2+e],
							witness(cs, b, nil, map[string]any{"combo": comboName(fi*2 + e)}))
					}
				}
			}
		}
	}
	if !calibrating && a.bnd.Set && a.samples < 6 && o.Hex != "" && len(o.Findings) == 0 && len(o.Ops) > 0 {
		a.samples++
		c.Sample(map[string]any{"case": cs, "ops": o.Ops, "len": o.Len, "accepted": o.Acc, "alloc": o.Alloc, "error_classes": o.Errs,
			"instantiated": o.Inst, "calls": o.Calls, "input_hex": core.Trunc(o.Hex, 400)})
	}
}

func run(c *core.Ctx) int {
	seeds := loadCorpus()
	if len(seeds) < 1000 {
		fmt.Println("C03: corpus not found under /repo/internal/integration_test")
		return 2
	}
	corpusPath := filepath.Join(c.Out, fmt.Sprintf("corpus-%d.bin", os.Getpid()))
	if err := writeCorpus(corpusPath, seeds); err != nil {
		fmt.Println("C03:", err)
		return 2
	}
	defer os.Remove(corpusPath)
	env := []string{"C03_CORPUS=" + corpusPath}
	a := &agg{c: c, seeds: seeds, hashes: map[uint64]struct{}{}, mutHash: map[uint64]struct{}{}, cand: map[string]*candidate{}, errClasses: map[string]int{}}
	total := c.N(60000, 3000000)
	if v, err := strconv.Atoi(os.Getenv("C03_N")); err == nil && v > 0 {
		total = v // development / validation runs only
	}
	t0 := time.Now()
	lap := func(what string) { fmt.Printf("C03: %s done at %.1fs\n", what, time.Since(t0).Seconds()) }
	rng := core.NewRng(c.Seed, 3)

	// ---- phase A: unmutated seeds (corpus, wgen, limit modules): calibration + validity
	var casesA []json.RawMessage
	var icA []inCase
	addA := func(ic inCase) { icA = append(icA, ic); casesA = append(casesA, core.J(ic)) }
	for i := range seeds {
		addA(inCase{K: "seed", I: i})
	}
	for i := 0; i < c.N(1500, 30000); i++ {
		addA(inCase{K: "wgen", S: rng.U64()})
	}
	for i := 0; i < nLimitModules; i++ {
		addA(inCase{K: "lim", I: i})
	}
	for i := 0; i < c.N(150, 1500); i++ {
		addA(inCase{K: "xtpl", S: rng.U64()}) // unmutated index-boundary templates: must be accepted
	}
	resA := core.RunCases(c, "calib", casesA, core.ChildOpts{Batch: 150, TimeoutS: 1200, RlimitAS: rlimitAS, Env: env})
	outsA := make([]*outCase, len(resA))
	var accSeeds []int // corpus seeds accepted somewhere (mutation of valid modules reaches deeper)
	type pt struct {
		n     int
		alloc uint64
	}
	var pts [2][]pt
	for i, r := range resA {
		if r.Crash != nil {
			continue
		}
		var o outCase
		if json.Unmarshal(r.Out, &o) != nil {
			c.Inconclusive("bad-child-output")
			continue
		}
		outsA[i] = &o
		acc := false
		for k := 0; k < nCombo; k++ {
			if o.Acc[k] == 1 {
				acc = true
				pts[k%2] = append(pts[k%2], pt{o.Len, o.Alloc[k]})
			}
		}
		if acc && icA[i].K == "seed" {
			accSeeds = append(accSeeds, icA[i].I)
		}
	}
	if len(pts[0]) < 1000 || len(pts[1]) < 1000 || len(accSeeds) < 500 {
		fmt.Printf("C03: calibration impossible: %d/%d accepted compiles, %d accepted seeds\n", len(pts[0]), len(pts[1]), len(accSeeds))
		return 2
	}
	// bound: alloc <= A*len + B. B0 = largest allocation of an accepted input of at
	// most 64 bytes (fixed costs, includes the 50 000-locals limit modules);
	// A0 = largest (alloc-B0)/len over all accepted inputs; headroom 4x.
	calib := map[string]any{}
	for e := 0; e < 2; e++ {
		var b0 uint64
		for _, p := range pts[e] {
			if p.n <= 64 && p.alloc > b0 {
				b0 = p.alloc
			}
		}
		a0 := 0.0
		for _, p := range pts[e] {
			if p.alloc > b0 {
				if r := float64(p.alloc-b0) / float64(p.n); r > a0 {
					a0 = r
				}
			}
		}
		a.bnd.A[e], a.bnd.B[e] = 4*a0, 4*float64(b0)
		calib[engNames[e]] = map[string]any{"A_bytes_per_input_byte": a.bnd.A[e], "B_bytes": a.bnd.B[e], "A0": a0, "B0": b0, "accepted_compiles_used": len(pts[e])}
	}
	a.bnd.Set = true
	c.Extra("allocation_bound", calib)
	if a.bnd.limit(1<<16, 1) >= rlimitAS/2 || a.bnd.limit(1<<16, 0) >= rlimitAS/2 {
		c.Inconclusive("allocation-bound-not-below-process-limit")
	}
	// decide phase A inputs (now that the bound exists)
	for i, r := range resA {
		if r.Crash != nil {
			a.crash(casesA[i], r.Crash)
			continue
		}
		o := outsA[i]
		if o == nil {
			continue
		}
		for k := 0; k < nCombo; k++ {
			lim := a.bnd.limit(o.Len, k%2)
			if o.Acc[k] == 0 {
				lim = a.bnd.rejectedLimit(o.Len)
			}
			if o.Acc[k] >= 0 && o.Alloc[k] > lim {
				o.AllocViol = true
				o.Findings = append(o.Findings, finding{Sig: "ALLOC", Combo: comboName(k),
					Detail: fmt.Sprintf("TotalAlloc delta %d > bound %d (input %d bytes)", o.Alloc[k], lim, o.Len)})
				break
			}
		}
		a.add(casesA[i], &icA[i], o, true)
	}
	resA, outsA = nil, nil
	lap("phase A (seeds, calibration)")

	// immediate kinds present in the accepted corpus modules (the kind is drawn first, then a
	// module that has it, so that rare instructions are mutated as often as common ones)
	kindSeeds := map[string][]int{}
	var immKinds []string
	for _, i := range accSeeds {
		for _, k := range ImmKinds(seeds[i].Bin) {
			if kindSeeds[k] == nil {
				immKinds = append(immKinds, k)
			}
			kindSeeds[k] = append(kindSeeds[k], i)
		}
	}
	sort.Strings(immKinds)
	if len(immKinds) < 20 {
		fmt.Println("C03: instruction walker finds too few immediate kinds in the corpus:", immKinds)
		return 2
	}
	c.Extra("immediate_kinds_in_corpus", immKinds)

	// ---- phase B: mutants and raw inputs
	envB := append(append([]string(nil), env...), fmt.Sprintf("C03_BOUNDS=%g,%g,%g,%g", a.bnd.A[0], a.bnd.B[0], a.bnd.A[1], a.bnd.B[1]))
	nB := total - len(casesA)
	if nB < 1000 {
		nB = 1000
	}
	const chunk = 200000
	for done := 0; done < nB; done += chunk {
		n := nB - done
		if n > chunk {
			n = chunk
		}
		cases := make([]json.RawMessage, 0, n)
		ics := make([]inCase, 0, n)
		for i := 0; i < n; i++ {
			var ic inCase
			switch x := rng.Intn(100); {
			case x >= 90: // index fields outside bodies replaced by limit / tag boundary values
				switch y := rng.Intn(4); {
				case y < 2:
					ic = inCase{K: "xmut", S: rng.U64()}
				case y == 2:
					ic = inCase{K: "xcmut", I: accSeeds[rng.Intn(len(accSeeds))], S: rng.U64()}
				default:
					ic = inCase{K: "xwmut", S: rng.U64()}
				}
			case x >= 76: // instruction-immediate re-encodings of valid modules
				k := immKinds[rng.Intn(len(immKinds))]
				if rng.Chance(3, 5) {
					l := kindSeeds[k]
					ic = inCase{K: "imut", I: l[rng.Intn(len(l))], S: rng.U64(), W: k}
				} else {
					ic = inCase{K: "iwmut", S: rng.U64(), W: k}
				}
			case x < 44:
				idx := accSeeds[rng.Intn(len(accSeeds))]
				if rng.Chance(1, 3) {
					idx = rng.Intn(len(seeds))
				}
				ic = inCase{K: "mut", I: idx, S: rng.U64()}
			case x < 66:
				ic = inCase{K: "wmut", S: rng.U64()}
			default:
				ic = inCase{K: "raw", S: rng.U64()}
			}
			ics = append(ics, ic)
			cases = append(cases, core.J(ic))
		}
		res := core.RunCases(c, "mut", cases, core.ChildOpts{Batch: 250, TimeoutS: 1800, RlimitAS: rlimitAS, Env: envB})
		for i, r := range res {
			if r.Crash != nil {
				a.crash(cases[i], r.Crash)
				continue
			}
			var o outCase
			if json.Unmarshal(r.Out, &o) != nil {
				c.Inconclusive("bad-child-output")
				continue
			}
			a.add(cases[i], &ics[i], &o, false)
		}
	}

	a.rechecks(envB)
	lap("phase B (mutants)")
	// ---- differential watchdog: one probe per class and engine
	a.probes(envB, accSeeds)
	lap("watchdog probes")

	// ---- evidence
	{
		var l []string
		for e, n := range a.errClasses {
			l = append(l, fmt.Sprintf("%8d  %s", n, e))
		}
		sort.Strings(l)
		os.WriteFile(filepath.Join(c.Out, fmt.Sprintf("error-classes-%s-%d.txt", c.Tier, c.Seed)), []byte(strings.Join(l, "\n")+"\n"), 0o644)
	}
	c.Extra("max_alloc_per_input_byte", map[string]any{
		engNames[0]: map[string]any{"ratio": a.maxRatio[0], "input": a.maxRatIn[0]},
		engNames[1]: map[string]any{"ratio": a.maxRatio[1], "input": a.maxRatIn[1]},
	})
	c.Extra("closest_to_allocation_bound_without_violating", map[string]any{
		engNames[0]: map[string]any{"fraction_of_bound": a.maxFrac[0], "input": a.maxFracIn[0]},
		engNames[1]: map[string]any{"fraction_of_bound": a.maxFrac[1], "input": a.maxFracIn[1]},
	})
	c.Extra("corpus", map[string]any{"distinct_files": len(seeds), "accepted_under_some_feature_set": len(accSeeds), "dirs": corpusDirs})
	c.Extra("feature_sets", fsNames)
	c.Extra("distinct_inputs", len(a.hashes))
	if a.executed == 0 || c.Counter("mutants_accepted_and_executed") == 0 {
		c.Inconclusive("monitor-not-reached:acceptance-soundness")
	}
	if c.Counter("imm_call_outcomes_compared_between_engines") == 0 || c.DistinctN("immediate_kinds_mutated") < 20 {
		c.Inconclusive("monitor-not-reached:immediate-reencoding")
	}
	if c.Counter("idx_mutants_accepted_and_executed") == 0 || c.Counter("idx_templates_checked") == 0 || c.DistinctN("index_boundary_kinds") < 60 {
		c.Inconclusive("monitor-not-reached:index-boundary")
	}
	if c.Counter("wgen_validity_checked") == 0 {
		c.Inconclusive("monitor-not-reached:validity")
	}
	if c.DistinctN("mutation_op_kinds") < 40 {
		c.Inconclusive("mutation-operators-barely-applied")
	}
	c.Assume("allocation bound calibrated on accepted unmutated inputs (corpus, wgen, and three hand-built modules with one function of 50 000 locals = the per-function limit other engines accept) with 4x headroom; a rejected input is held to the smaller of the two engines' bounds (it never reached an engine); TotalAlloc is read around CompileModule only, in a child that runs nothing else")
	c.Assume("runtimes use WithMemoryLimitPages(512) and WithCloseOnContextDone(true); modules declaring memory min > 256 pages or table min > 2^20 are compiled but not instantiated")
	c.Assume("a compile that does not return within the step budget is inconclusive unless the differential watchdog (same input alone, long budget, after a control input of similar size that finishes) confirms it; a guest that does not return after its deadline is left to C07")
	c.Assume("immediate re-encodings: both engines compile under every feature set; equal CompileModule verdicts and equal call outcome classes (ok / trap kind / error; unaligned-atomic and out-of-bounds count as one; comparison stops at a stack overflow, exit or deadline) are demanded for these mutants only")
	c.Assume("not demanded: rejecting every invalid module; equal acceptance on both engines; equal results on both engines (C01)")
	removeChildFiles(c)
	return c.Finish(a.evals, int64(len(a.mutHash)),
		"evaluations = CompileModule calls decided (input x feature set x engine) plus inputs whose child died; distinct non-trivial = distinct byte strings (FNV-64) among mutated and raw inputs that were compiled")
}

// probes runs the differential watchdog for every class that produced an
// allocation violation or a compile timeout.
func (a *agg) probes(env []string, accSeeds []int) {
	c := a.c
	if len(a.cand) == 0 {
		return
	}
	budget := c.N(30, 120)
	var classes []string
	for k := range a.cand {
		classes = append(classes, k)
	}
	sort.Strings(classes)
	// control: the accepted corpus seed whose length is nearest above the suspect's
	control := func(n int) []byte {
		best := -1
		for _, i := range accSeeds {
			l := len(a.seeds[i].Bin)
			if l >= n && (best < 0 || l < len(a.seeds[best].Bin)) {
				best = i
			}
		}
		if best < 0 {
			best = accSeeds[0]
		}
		return a.seeds[best].Bin
	}
	var cases []json.RawMessage
	type pinfo struct {
		class string
		combo int
	}
	var info []pinfo
	probed := map[string]bool{}
	for _, k := range classes {
		cd := a.cand[k]
		if len(cd.Bin) > 1<<16 || probed[string(cd.Bin)] {
			continue
		}
		probed[string(cd.Bin)] = true
		for _, combo := range []int{8, 9} {
			cases = append(cases, core.J(inCase{K: "lit", Hex: hex.EncodeToString(cd.Bin), Combo: combo, Control: hex.EncodeToString(control(len(cd.Bin)))}))
			info = append(info, pinfo{k, combo})
		}
	}
	envP := append(append([]string(nil), env...), fmt.Sprintf("C03_CASE_BUDGET_S=%d", budget))
	res := core.RunCases(c, "probe", cases, core.ChildOpts{Batch: 1, TimeoutS: 8*budget + 90, RlimitAS: rlimitAS, Env: envP})
	table := []map[string]any{}
	for i, r := range res {
		row := map[string]any{"class": info[i].class, "declared": a.cand[info[i].class].Val, "combo": comboName(info[i].combo), "input_len": len(a.cand[info[i].class].Bin), "found_by": a.cand[info[i].class].Why}
		c.Count("watchdog_probes", 1)
		if r.Crash == nil {
			var o outCase
			json.Unmarshal(r.Out, &o)
			row["outcome"] = "returned"
			row["control_ms"] = o.ControlMs
			row["ms"] = o.ProbeMs
			row["alloc"] = o.Alloc[0]
			row["result"] = o.ProbeErr
			c.Count("watchdog_probe_returned", 1)
		} else {
			log := readTail(r.Crash.Log, 1<<20)
			ctlDone := false
			if m := reCtl.FindSubmatch(log); m != nil {
				ms, _ := strconv.ParseFloat(string(m[1]), 64)
				row["control_ms"] = ms
				// the control must have been at least 1000x faster than the budget
				ctlDone = ms*1000 <= float64(budget)*1000
			}
			ab := reAbort.FindSubmatch(log)
			switch {
			case ab != nil && string(ab[1]) == "timeout" && ctlDone:
				row["outcome"] = fmt.Sprintf("did not return within %ds; control returned", budget)
				cd := a.cand[info[i].class]
				c.Count("watchdog_probe_hang", 1)
				c.Violate("compile:hang:"+cd.Class,
					fmt.Sprintf("CompileModule of a %d-byte input did not return within %d s of CPU time on %s while a control input of %d bytes compiled first in the same child", len(cd.Bin), budget, comboName(info[i].combo), len(control(len(cd.Bin)))),
					witness(cd.Case, cd.Bin, nil, map[string]any{"combo": comboName(info[i].combo), "class": cd.Class}))
			case bytes.Contains(log, []byte("out of memory")) || bytes.Contains(log, []byte("cannot allocate memory")):
				row["outcome"] = "child out of memory under RLIMIT_AS"
				c.Count("watchdog_probe_oom", 1)
			default:
				row["outcome"] = "child died: " + r.Crash.Kind + " " + core.Trunc(r.Crash.Detail, 120)
				c.Inconclusive("watchdog-probe-undecided")
			}
		}
		table = append(table, row)
		if why := a.cand[info[i].class].Why; why == "timeout" && r.Crash == nil {
			c.Count("compile_timeouts_not_confirmed_by_watchdog", 1)
		}
	}
	c.Extra("differential_watchdog", table)
}

// removeChildFiles deletes what this run's children left behind (crash logs have
// been read into the witnesses by now); files of concurrent runs are left alone.
func removeChildFiles(c *core.Ctx) {
	if os.Getenv("C03_KEEP") != "" {
		return
	}
	files, _ := filepath.Glob(filepath.Join(c.Out, "children", fmt.Sprintf("*-%d-*", os.Getpid())))
	for _, f := range files {
		os.Remove(f)
	}
}

func init() { Prop.Replay = replay }

// replay compiles the witness input under every combo in supervised children
// (one child per combo) and prints what happens.
func replay(c *core.Ctx, path string) int {
	b, err := os.ReadFile(path)
	if err != nil {
		fmt.Println(err)
		return 2
	}
	var w struct {
		Sig     string `json:"sig"`
		Witness struct {
			Hex string   `json:"input_hex"`
			Ops []string `json:"ops"`
		} `json:"witness"`
	}
	json.Unmarshal(b, &w)
	bin, _ := hex.DecodeString(w.Witness.Hex)
	fmt.Printf("sig %s\ninput %d bytes, ops %v\n", w.Sig, len(bin), w.Witness.Ops)
	if l, ok := FindLiar(bin); ok {
		fmt.Printf("lying field: %+v\n", l)
	}
	var cases []json.RawMessage
	for combo := 0; combo < nCombo; combo++ {
		cases = append(cases, core.J(inCase{K: "lit", Hex: w.Witness.Hex, Combo: combo, Control: hex.EncodeToString(header)}))
	}
	res := core.RunCases(c, "probe", cases, core.ChildOpts{Batch: 1, TimeoutS: 200, RlimitAS: rlimitAS, Env: []string{"C03_CASE_BUDGET_S=120"}})
	rc := 0
	for i, r := range res {
		if r.Crash != nil {
			fmt.Printf("%-24s child died: %s %s\n", comboName(i), r.Crash.Kind, core.Trunc(r.Crash.Detail, 200))
			rc = 1
			continue
		}
		var o outCase
		json.Unmarshal(r.Out, &o)
		fmt.Printf("%-24s %s in %.1f ms, TotalAlloc delta %d\n", comboName(i), o.ProbeErr, o.ProbeMs, o.Alloc[0])
	}
	removeChildFiles(c)
	return rc
}
