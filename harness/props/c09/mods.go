package c09

import (
	"fmt"

	"github.com/tetratelabs/wazero/verifharness/wenc"
)

// ModSpec describes one guest module slot of a history's module graph. Slot i
// is instantiated under the name "m<i>" and may import from slots j < i of the
// same runtime.
type ModSpec struct {
	K           int  `json:"k"`            // constant baked into the module: f0 returns 100K, f1 returns 100K+1
	Implicit    bool `json:"implicit"`     // Runtime.InstantiateWithConfig (implicit compiled module) instead of CompileModule+InstantiateModule
	ImpFunc     int  `json:"imp_func"`     // slot whose f0 ("imp") and do_act ("jact") are imported, -1 none
	ExportTable bool `json:"export_table"` // defines and exports the shared table "st"
	ImpTable    int  `json:"imp_table"`    // slot whose "st" is imported, -1 none
	ImpGlobal   int  `json:"imp_global"`   // slot whose funcref global "xg" is imported, -1 none
	ImpMem      int  `json:"imp_mem"`      // slot whose memory "mem" is imported, -1 none (own memory)
	// PrivMem: the (own) memory is NOT exported: no other instance can name it, but the module's functions
	// (imported by others, sitting in tables, in flight) keep reading and writing it after the module is closed.
	PrivMem bool `json:"priv_mem,omitempty"`
	// Conc: a light importer of slot ImpTable's shared table and memory, instantiated K at a time from K goroutines
	// (concinst step); install(idx) puts its own function cf (returns 100K+60+idx) into slot idx of the shared table.
	Conc bool `json:"conc,omitempty"`
	// Fail > 0: a module whose instantiation FAILS after its active element
	// segment has written its own functions into the imported shared table
	// (slots FailIdx, FailIdx+1): 1 = start function traps, 2 = start function
	// exits the module with code 2 through host.exit. It exports nothing.
	Fail    int `json:"fail,omitempty"`
	FailIdx int `json:"fail_idx,omitempty"`
}

// stSum appends st_sum(base, n): sum of call_indirect through slots base..base+n-1 of table 0.
func stSum(m *wenc.Module, t0 uint32) {
	c := &wenc.Code{}
	c.Block(0x40).Loop(0x40)
	c.LocalGet(2).LocalGet(1).Op(0x4f).BrIf(1) // i32.ge_u
	c.LocalGet(3).LocalGet(0).LocalGet(2).Op(0x6a).CallIndirect(t0, 0).Op(0x6a).LocalSet(3)
	c.LocalGet(2).I32Const(1).Op(0x6a).LocalSet(2)
	c.Br(0).End().End()
	c.LocalGet(3).End()
	idx := m.AddFunc([]wenc.ValType{i32, i32}, []wenc.ValType{i32}, []wenc.ValType{i32, i32}, c.B)
	m.ExportFunc("st_sum", idx)
}

func buildConcModule(s ModSpec) []byte {
	m := &wenc.Module{}
	m.Imports = append(m.Imports, wenc.Import{Module: slotName(s.ImpTable), Name: "st", Kind: wenc.ExtTable,
		Table: wenc.TableType{Elem: funcref, Lim: wenc.Limits{Min: stMin, Max: stMax, HasMax: true}}})
	m.Imports = append(m.Imports, wenc.Import{Module: slotName(s.ImpTable), Name: "mem", Kind: wenc.ExtMemory,
		Mem: wenc.Limits{Min: 1, Max: 3, HasMax: true}})
	t0r := []wenc.ValType{i32}
	t0 := m.AddType(nil, t0r)
	m.Globals = []wenc.Global{{Type: wenc.GlobalType{Type: i32, Mutable: true}, Init: wenc.ConstI32(0)}}
	cf := m.AddFunc(nil, t0r, nil, (&wenc.Code{}).GlobalGet(0).I32Const(int32(s.K*100+60)).Op(0x6a).End().B)
	m.ExportFunc("cf", cf)
	m.ExportFunc("install", m.AddFunc([]wenc.ValType{i32}, nil, nil,
		(&wenc.Code{}).LocalGet(0).GlobalSet(0).LocalGet(0).RefFunc(cf).TableSet(0).End().B))
	m.ExportFunc("st_call", m.AddFunc([]wenc.ValType{i32}, t0r, nil, (&wenc.Code{}).LocalGet(0).CallIndirect(t0, 0).End().B))
	stSum(m, t0)
	m.Elems = append(m.Elems, wenc.Elem{Mode: 2, FuncIdx: []uint32{cf}})
	return m.Encode()
}

// buildFailModule: imports st from slot ImpTable, elem (i32.const FailIdx) = [ff0 ff1], start fails.
func buildFailModule(s ModSpec) []byte {
	m := &wenc.Module{}
	var exit uint32
	if s.Fail == 2 {
		exit = m.ImportFunc("host", "exit", []wenc.ValType{i32}, nil)
	}
	m.Imports = append(m.Imports, wenc.Import{Module: slotName(s.ImpTable), Name: "st", Kind: wenc.ExtTable,
		Table: wenc.TableType{Elem: funcref, Lim: wenc.Limits{Min: stMin, Max: stMax, HasMax: true}}})
	if s.ImpMem >= 0 {
		m.Imports = append(m.Imports, wenc.Import{Module: slotName(s.ImpMem), Name: "mem", Kind: wenc.ExtMemory,
			Mem: wenc.Limits{Min: 1, Max: 3, HasMax: true}})
	}
	k := int32(s.K * 100)
	ff0 := m.AddFunc(nil, []wenc.ValType{i32}, nil, (&wenc.Code{}).I32Const(k+5).End().B)
	ff1 := m.AddFunc(nil, []wenc.ValType{i32}, nil, (&wenc.Code{}).I32Const(k+6).End().B)
	st := &wenc.Code{}
	if s.Fail == 2 {
		st.I32Const(2).Call(exit)
	} else {
		st.Unreachable()
	}
	start := m.AddFunc(nil, nil, nil, st.End().B)
	m.Start = &start
	m.Elems = append(m.Elems, wenc.Elem{Mode: 0, TableIdx: 0, Offset: wenc.ConstI32(int32(s.FailIdx)), FuncIdx: []uint32{ff0, ff1}})
	return m.Encode()
}

func (s ModSpec) hasST() bool { return s.ExportTable || s.ImpTable >= 0 }

// table index of the private table
func (s ModSpec) ptIndex() uint32 {
	if s.hasST() {
		return 1
	}
	return 0
}

func slotName(i int) string { return fmt.Sprintf("m%d", i) }

const (
	ptMin, ptMax = 4, 12
	stMin, stMax = 24, 32 // shared table: slots 0-3 for the ordinary traffic, 4-23 for concurrently instantiated importers
)

var (
	i32     = wenc.I32
	funcref = wenc.FuncRef
)

// buildModule encodes the guest module of a slot.
//
// Exports (all slots): f0 f1 getref pt_set pt_call pt_call2 pt_isnull
// pt_copy_call pt_grow pt_size fg_set fg_call fg_isnull xg_call mem_rw mem_grow
// gi_set do_act; globals gi fg xg; memory mem (when own); table st (when
// ExportTable). Optional: call_imp chain (ImpFunc), ig_call (ImpGlobal),
// st_set st_call st_isnull (shared table).
func buildModule(s ModSpec) []byte {
	if s.Fail > 0 {
		return buildFailModule(s)
	}
	if s.Conc {
		return buildConcModule(s)
	}
	m := &wenc.Module{}
	t0p, t0r := []wenc.ValType(nil), []wenc.ValType{i32}
	t2p, t2r := []wenc.ValType{i32, i32}, []wenc.ValType{i32}
	// ---- imports (functions first in their index space) ----
	act := m.ImportFunc("host", "act", []wenc.ValType{i32}, nil)
	var imp, jact, impmk uint32
	hasImp := s.ImpFunc >= 0
	if hasImp {
		imp = m.ImportFunc(slotName(s.ImpFunc), "f0", t0p, t0r)
		jact = m.ImportFunc(slotName(s.ImpFunc), "do_act", t2p, t2r)
		impmk = m.ImportFunc(slotName(s.ImpFunc), "mk", t0p, t0r)
	}
	if s.ImpTable >= 0 {
		m.Imports = append(m.Imports, wenc.Import{Module: slotName(s.ImpTable), Name: "st", Kind: wenc.ExtTable,
			Table: wenc.TableType{Elem: funcref, Lim: wenc.Limits{Min: stMin, Max: stMax, HasMax: true}}})
	}
	if s.ImpMem >= 0 {
		m.Imports = append(m.Imports, wenc.Import{Module: slotName(s.ImpMem), Name: "mem", Kind: wenc.ExtMemory,
			Mem: wenc.Limits{Min: 1, Max: 3, HasMax: true}})
	}
	gIdx := uint32(0)
	var ig uint32
	if s.ImpGlobal >= 0 {
		m.Imports = append(m.Imports, wenc.Import{Module: slotName(s.ImpGlobal), Name: "xg", Kind: wenc.ExtGlobal,
			Global: wenc.GlobalType{Type: funcref}})
		ig = gIdx
		gIdx++
	}
	// ---- tables ----
	st, pt := uint32(0), s.ptIndex()
	if s.ExportTable {
		m.Tables = append(m.Tables, wenc.TableType{Elem: funcref, Lim: wenc.Limits{Min: stMin, Max: stMax, HasMax: true}})
		m.Exports = append(m.Exports, wenc.Export{Name: "st", Kind: wenc.ExtTable, Idx: 0})
	}
	m.Tables = append(m.Tables, wenc.TableType{Elem: funcref, Lim: wenc.Limits{Min: ptMin, Max: ptMax, HasMax: true}})
	// ---- memory ----
	if s.ImpMem < 0 {
		m.Mems = []wenc.Limits{{Min: 1, Max: 3, HasMax: true}}
	}
	if !s.PrivMem || s.ImpMem >= 0 {
		m.Exports = append(m.Exports, wenc.Export{Name: "mem", Kind: wenc.ExtMemory, Idx: 0}) // own or re-exported imported memory
	}
	// ---- types used by call_indirect ----
	t0 := m.AddType(t0p, t0r)
	t2 := m.AddType(t2p, t2r)
	// ---- functions ----
	k := int32(s.K * 100)
	f0 := m.AddFunc(nil, t0r, nil, (&wenc.Code{}).I32Const(k).End().B)
	f1 := m.AddFunc(nil, t0r, nil, (&wenc.Code{}).I32Const(k+1).End().B)
	// mk(): mem[72] = mem[64] (a write), return mem[72] + 100K + 40: reads and writes this module's memory through
	// whatever keeps the function reachable (import, table slot, funcref); mk_set(v) stores the marker at mem[64]
	mk := m.AddFunc(nil, t0r, nil, (&wenc.Code{}).I32Const(72).I32Const(64).Mem(0x28, 2, 0).Mem(0x36, 2, 0).
		I32Const(72).Mem(0x28, 2, 0).I32Const(k+40).Op(0x6a).End().B)
	// rec(n) = n == 0 ? 0 : rec(n-1)+1 : deep native recursion (grows the compiler's stack through the shared stack-grow trampoline)
	rec := m.NumImportedFuncs() + uint32(len(m.Funcs))
	m.AddFunc([]wenc.ValType{i32}, t0r, nil, (&wenc.Code{}).LocalGet(0).Op(0x45).If(i32).I32Const(0).Else().
		LocalGet(0).I32Const(1).Op(0x6b).Call(rec).I32Const(1).Op(0x6a).End().End().B)
	// globals: fg (mutable funcref), xg (const ref.func f1), gi (mutable i32)
	fg, xg, gi := gIdx, gIdx+1, gIdx+2
	m.Globals = []wenc.Global{
		{Type: wenc.GlobalType{Type: funcref, Mutable: true}, Init: wenc.ConstRefNull(funcref)},
		{Type: wenc.GlobalType{Type: funcref}, Init: wenc.ConstRefFunc(f1)},
		{Type: wenc.GlobalType{Type: i32, Mutable: true}, Init: wenc.ConstI32(7)},
	}
	m.Exports = append(m.Exports,
		wenc.Export{Name: "fg", Kind: wenc.ExtGlobal, Idx: fg},
		wenc.Export{Name: "xg", Kind: wenc.ExtGlobal, Idx: xg},
		wenc.Export{Name: "gi", Kind: wenc.ExtGlobal, Idx: gi})

	// do_act(n, idx): mem[0]=3n+K; host.act(n); r = mem[0] + f1() + gi + (pt[idx] non-null ? pt[idx]() : 0) + (imp? imp() : 0)
	da := &wenc.Code{}
	da.I32Const(0).LocalGet(0).I32Const(3).Op(0x6c).I32Const(int32(s.K)).Op(0x6a).Mem(0x36, 2, 0) // i32.store
	da.LocalGet(0).Call(act)
	// straight after host.act returns (before any function entry): the engine-wide shared trampolines
	da.I32Const(0).MemoryGrow().Drop()                                // memory.grow
	da.RefNull(funcref).I32Const(0).Prefixed(0xfc, 15).U32(pt).Drop() // table.grow
	da.RefFunc(f0).Drop()                                             // run-time ref.func
	da.I32Const(0).Mem(0x28, 2, 0)                                    // i32.load
	da.Call(f1).Op(0x6a)
	da.GlobalGet(gi).Op(0x6a)
	da.I32Const(400).Call(rec).Drop() // stack growth
	da.LocalGet(1).TableGet(pt).RefIsNull().If(i32).I32Const(0).Else().LocalGet(1).CallIndirect(t0, pt).End().Op(0x6a)
	if hasImp {
		da.Call(imp).Op(0x6a)
	}
	da.End()
	doAct := m.AddFunc(t2p, t2r, nil, da.B)

	exp := func(name string, params, results []wenc.ValType, c *wenc.Code) uint32 {
		idx := m.AddFunc(params, results, nil, c.End().B)
		m.ExportFunc(name, idx)
		return idx
	}
	m.ExportFunc("f0", f0)
	m.ExportFunc("f1", f1)
	m.ExportFunc("do_act", doAct)
	m.ExportFunc("mk", mk)
	// getref(which) -> funcref
	third := f0
	if hasImp {
		third = imp
	}
	gr := &wenc.Code{}
	gr.LocalGet(0).Op(0x45).If(funcref).RefFunc(f0).Else() // i32.eqz
	gr.LocalGet(0).I32Const(1).Op(0x46).If(funcref).RefFunc(f1).Else()
	gr.LocalGet(0).I32Const(2).Op(0x46).If(funcref).RefFunc(third).Else()
	gr.LocalGet(0).I32Const(3).Op(0x46).If(funcref).RefFunc(doAct).Else().RefFunc(mk).End().End().End().End()
	exp("getref", []wenc.ValType{i32}, []wenc.ValType{funcref}, gr)

	tblFuncs := func(prefix string, t uint32) {
		exp(prefix+"_set", []wenc.ValType{i32, funcref}, nil, (&wenc.Code{}).LocalGet(0).LocalGet(1).TableSet(t))
		exp(prefix+"_call", []wenc.ValType{i32}, t0r, (&wenc.Code{}).LocalGet(0).CallIndirect(t0, t))
		exp(prefix+"_isnull", []wenc.ValType{i32}, t0r, (&wenc.Code{}).LocalGet(0).TableGet(t).RefIsNull())
	}
	tblFuncs("pt", pt)
	exp("pt_call2", []wenc.ValType{i32, i32, i32}, t0r, (&wenc.Code{}).LocalGet(1).LocalGet(2).LocalGet(0).CallIndirect(t2, pt))
	exp("pt_copy_call", []wenc.ValType{i32, i32}, t0r,
		(&wenc.Code{}).LocalGet(1).LocalGet(0).TableGet(pt).TableSet(pt).LocalGet(1).CallIndirect(t0, pt))
	exp("pt_grow", []wenc.ValType{funcref, i32}, t0r, (&wenc.Code{}).LocalGet(0).LocalGet(1).Prefixed(0xfc, 15).U32(pt))
	exp("pt_size", nil, t0r, (&wenc.Code{}).Prefixed(0xfc, 16).U32(pt))
	exp("fg_set", []wenc.ValType{funcref}, nil, (&wenc.Code{}).LocalGet(0).GlobalSet(fg))
	exp("fg_call", nil, t0r, (&wenc.Code{}).I32Const(3).GlobalGet(fg).TableSet(pt).I32Const(3).CallIndirect(t0, pt))
	exp("fg_isnull", nil, t0r, (&wenc.Code{}).GlobalGet(fg).RefIsNull())
	exp("xg_call", nil, t0r, (&wenc.Code{}).I32Const(2).GlobalGet(xg).TableSet(pt).I32Const(2).CallIndirect(t0, pt))
	if s.ImpGlobal >= 0 {
		exp("ig_call", nil, t0r, (&wenc.Code{}).I32Const(2).GlobalGet(ig).TableSet(pt).I32Const(2).CallIndirect(t0, pt))
	}
	if s.hasST() {
		tblFuncs("st", st)
		stSum(m, t0)
	}
	if hasImp {
		exp("call_imp", nil, t0r, (&wenc.Code{}).Call(imp).I32Const(1).Op(0x6a))
		exp("call_impmk", nil, t0r, (&wenc.Code{}).Call(impmk).I32Const(2).Op(0x6a))
		exp("chain", t2p, t2r, (&wenc.Code{}).LocalGet(0).LocalGet(1).Call(jact).Call(f0).Op(0x6a))
	}
	// mem_rw(v): mem[16]=v; return mem[16] + memory.size
	exp("mem_rw", []wenc.ValType{i32}, t0r,
		(&wenc.Code{}).I32Const(16).LocalGet(0).Mem(0x36, 2, 0).I32Const(16).Mem(0x28, 2, 0).MemorySize().Op(0x6a))
	exp("mem_grow", []wenc.ValType{i32}, t0r, (&wenc.Code{}).LocalGet(0).MemoryGrow())
	exp("gi_set", []wenc.ValType{i32}, nil, (&wenc.Code{}).LocalGet(0).GlobalSet(gi))
	exp("mk_set", []wenc.ValType{i32}, nil, (&wenc.Code{}).I32Const(64).LocalGet(0).Mem(0x36, 2, 0))
	// tramp(n): memory.grow 0, table.grow 0, ref.func, deep recursion: every shared trampoline, no lasting state; returns n
	exp("tramp", []wenc.ValType{i32}, t0r, (&wenc.Code{}).I32Const(0).MemoryGrow().Drop().
		RefNull(funcref).I32Const(0).Prefixed(0xfc, 15).U32(pt).Drop().
		RefFunc(f1).RefIsNull().LocalGet(0).Call(rec).Op(0x6a))

	// ---- element segments ----
	ptInit := []uint32{f0}
	if hasImp {
		ptInit = append(ptInit, imp)
	}
	m.Elems = append(m.Elems, wenc.Elem{Mode: 0, TableIdx: pt, Offset: wenc.ConstI32(0), FuncIdx: ptInit})
	if s.ExportTable {
		m.Elems = append(m.Elems, wenc.Elem{Mode: 0, TableIdx: st, Offset: wenc.ConstI32(0), FuncIdx: []uint32{f1, mk}})
	}
	decl := []uint32{f0, f1, doAct, mk}
	if hasImp {
		decl = append(decl, imp)
	}
	m.Elems = append(m.Elems, wenc.Elem{Mode: 2, FuncIdx: decl})
	return m.Encode()
}
