package c09

import (
	"fmt"
	"sync"

	"github.com/tetratelabs/wazero/experimental"
)

// trackAlloc is the "custom allocator" dimension: an experimental.MemoryAllocator whose linear memories remember
// which instantiation allocated them (the DEFINING instance) and report every Free() that arrives while that
// instance is still open - e.g. because an instance that merely imports the memory was closed or failed to
// instantiate. Such a Free leaves the memory intact (so the run goes on and reports); a legitimate Free poisons it.
type trackAlloc struct {
	e   *executor
	mu  sync.Mutex
	lms []*trackedMem
}

type trackedMem struct {
	a     *trackAlloc
	id    int
	def   int // instance id whose instantiation allocated it
	buf   []byte
	size  uint64
	freed bool
}

type allocViolation struct {
	Step   int    `json:"step"`
	How    string `json:"how"`
	Kind   string `json:"kind"`
	Detail string `json:"detail"`
}

func (a *trackAlloc) Allocate(cap, max uint64) experimental.LinearMemory {
	a.mu.Lock()
	defer a.mu.Unlock()
	lm := &trackedMem{a: a, id: len(a.lms), def: a.e.instantiating, buf: make([]byte, max)}
	a.lms = append(a.lms, lm)
	a.e.out.Counters["allocator_memories_allocated"]++
	return lm
}

func (m *trackedMem) Reallocate(size uint64) []byte {
	if size > uint64(len(m.buf)) {
		return nil
	}
	m.size = size
	return m.buf[:size]
}

func (m *trackedMem) Free() {
	a := m.a
	a.mu.Lock()
	defer a.mu.Unlock()
	e := a.e
	if e.tearing || m.def < 0 || e.closing[m.def] || e.instantiating == m.def {
		// the defining instance is being closed (or never came to life)
		if !m.freed {
			m.freed = true
			e.out.Counters["allocator_frees_by_defining_instance"]++
			if !e.tearing && m.def >= 0 {
				// ... but is the memory still imported by an instance that stays open?
				for id, open := range e.live {
					if open && !e.closing[id] && id != m.def && e.importsMemoryOf(id, m.def) {
						how := e.curKind
						if e.inCall {
							how += "-in-host-function"
						}
						e.out.AllocViol = append(e.out.AllocViol, allocViolation{Step: e.step, How: how, Kind: "owner-closed-while-memory-imported-by-live-instance",
							Detail: fmt.Sprintf("step %d (%s): LinearMemory.Free() on memory #%d when its defining instance #%d is closed, while instance #%d, which imports that memory, is still open", e.step, how, m.id, m.def, id)})
						break
					}
				}
			}
		}
		return
	}
	how := e.curKind
	if how == "inst" || how == "concinst" {
		how = "instantiation-of-importer"
	}
	if e.inCall {
		how += "-in-host-function"
	}
	e.out.AllocViol = append(e.out.AllocViol, allocViolation{Step: e.step, How: how, Kind: "defining-instance-live",
		Detail: fmt.Sprintf("step %d (%s): LinearMemory.Free() called on memory #%d allocated by the instantiation of instance #%d, which is still open", e.step, how, m.id, m.def)})
}

// importsMemoryOf: does instance id import (possibly through re-exporters) the memory defined by instance def?
func (e *executor) importsMemoryOf(id, def int) bool {
	slot, ok := e.instSlot[id]
	if !ok || e.instRT[id] != e.instRT[def] {
		return false
	}
	ms := e.h.Mods[slot].ImpMem
	if ms < 0 {
		return false
	}
	for e.h.Mods[ms].ImpMem >= 0 {
		ms = e.h.Mods[ms].ImpMem
	}
	return e.namedInst[e.instRT[def]][ms] == def
}
