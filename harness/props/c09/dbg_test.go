package c09

import (
	"fmt"
	"strings"
	"testing"

	"github.com/tetratelabs/wazero/verifharness/core"
)

func TestDbg(t *testing.T) {
	rng := core.NewRng(1, 9)
	reasons := map[string]int{}
	for i := 0; i < 300; i++ {
		seed := rng.U64()
		h := GenHistory(seed, i%2 == 0, (i/2)%2 == 1)
		T := runHistory(h, true, nil)
		X := runHistory(h, false, nil)
		instObs := map[int]string{}
		for s, op := range h.Steps {
			if op.Kind == "inst" {
				instObs[op.Inst] = X.Obs[s]
			}
			if strings.HasPrefix(X.Obs[s], "skip") && !strings.HasPrefix(T.Obs[s], "skip") {
				id := op.Inst
				if op.Kind == "passref" && instObs[op.From] != "ok" {
					id = op.From
				}
				reasons[op.Kind+" <- "+instObs[id]]++
				if reasons[op.Kind+" <- "+instObs[id]] == 1 {
					fmt.Println(strings.Join(histLines(h, s), "\n"))
					fmt.Println(X.Obs)
				}
			}
		}
	}
	fmt.Println(reasons)
}
