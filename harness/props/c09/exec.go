package c09

import (
	"bytes"
	"context"
	"errors"
	"fmt"
	"os"
	"path/filepath"
	"runtime"
	"runtime/debug"
	"strings"
	"sync"
	"sync/atomic"
	"time"

	"github.com/tetratelabs/wazero"
	"github.com/tetratelabs/wazero/api"
	"github.com/tetratelabs/wazero/experimental"
	"github.com/tetratelabs/wazero/experimental/table"
	"github.com/tetratelabs/wazero/sys"
	"github.com/tetratelabs/wazero/verifharness/core"
)

// childOut is what one execution of one history reports.
type childOut struct {
	Skipped   bool             `json:"skipped,omitempty"`
	Obs       []string         `json:"obs"` // one entry per step; sub-observations separated by \x1f
	Counters  map[string]int   `json:"counters"`
	AllocViol []allocViolation `json:"alloc_viol,omitempty"` // custom allocator: Free() of a memory whose defining instance is open
	Unmapped  int              `json:"unmapped"`             // anonymous executable mappings that disappeared across forced GCs
	MapsPeak  int              `json:"maps_peak"`            // most anonymous executable mappings seen
}

const obsSep = "\x1f"

type executor struct {
	h      *History
	twin   bool
	ctx    context.Context
	cache  wazero.CompilationCache
	rts    [maxRT]wazero.Runtime
	hosts  [maxRT]api.Module
	comps  [maxRT][]wazero.CompiledModule
	comps2 [maxRT][]wazero.CompiledModule // the same runtime compiled the same binary a second time
	dir    string
	// custom allocator bookkeeping
	alloc         *trackAlloc
	instantiating int          // instance id whose instantiation is running (-1 none)
	closing       map[int]bool // instances the host has closed or is closing (incl. through their runtime)
	instRT        map[int]int
	instSlot      map[int]int
	live          map[int]bool // instantiated successfully
	namedInst     [maxRT]map[int]int
	tearing       bool
	curKind       string
	inCall        bool
	bins          [][]byte
	insts         []api.Module
	held          []api.Function
	hargs         [][]uint64

	subs   []Op     // pending in-call sub-ops of the current step
	subObs []string // their observations
	out    *childOut
	rng    *core.Rng // churn only
	ring   [64]any
	ringI  int
	step   int
}

var sink any

// wall-clock profile of the child per op kind (debugging aid, C09_PROF=1; never part of a verdict)
var (
	profOn = os.Getenv("C09_PROF") != ""
	profT  = map[string]time.Duration{}
	profN  = map[string]int{}
)

func (e *executor) count(k string) { e.out.Counters[k]++ }

func (e *executor) rtConfig() wazero.RuntimeConfig {
	var rc wazero.RuntimeConfig
	if e.h.Compiler {
		rc = wazero.NewRuntimeConfigCompiler()
	} else {
		rc = wazero.NewRuntimeConfigInterpreter()
	}
	if e.cache != nil {
		rc = rc.WithCompilationCache(e.cache)
	}
	if e.h.EnsureTerm {
		rc = rc.WithCloseOnContextDone(true)
	}
	return rc
}

func runHistory(h *History, twin bool, progress func(step int)) *childOut {
	e := &executor{h: h, twin: twin, ctx: context.Background(), out: &childOut{Counters: map[string]int{}}}
	if twin {
		// the twin is the "nothing is ever closed, dropped or collected" run: objects the host cannot pin
		// (e.g. the instance of a failed instantiation) must not be collected either
		defer debug.SetGCPercent(debug.SetGCPercent(-1))
	}
	e.rng = core.NewRng(int64(h.Seed), 33)
	e.out.Obs = make([]string, len(h.Steps))
	for _, s := range h.Mods {
		e.bins = append(e.bins, buildModule(s))
	}
	switch h.CacheKind {
	case "mem":
		e.cache = wazero.NewCompilationCache()
	case "dir-cold", "dir-warm":
		// under the check's out directory (removed by the parent at the end of the run, also after child deaths)
		base := filepath.Join(core.VerifDir(), "out", "C09", fmt.Sprintf("cache-%d", os.Getppid()))
		os.MkdirAll(base, 0o755)
		dir, err := os.MkdirTemp(base, "d")
		if err != nil {
			panic("cache dir: " + err.Error())
		}
		e.dir = dir
		if h.CacheKind == "dir-warm" {
			// another cache object (and runtime) fills the directory; the history then uses a NEW object on it:
			// in-memory miss, file hit
			if c0, err := wazero.NewCompilationCacheWithDir(dir); err == nil {
				cfg := wazero.NewRuntimeConfigInterpreter()
				if h.Compiler {
					cfg = wazero.NewRuntimeConfigCompiler()
				}
				if h.EnsureTerm {
					cfg = cfg.WithCloseOnContextDone(true)
				}
				rt0 := wazero.NewRuntimeWithConfig(e.ctx, cfg.WithCompilationCache(c0))
				for _, b := range e.bins {
					rt0.CompileModule(e.ctx, b)
				}
				rt0.Close(e.ctx)
				c0.Close(e.ctx)
			}
		}
		c, err := wazero.NewCompilationCacheWithDir(dir)
		if err != nil {
			panic("cache dir: " + err.Error())
		}
		e.cache = c
	}
	nrt := 1
	if h.NRT > 1 {
		nrt = h.NRT
	}
	for r := 0; r < nrt; r++ {
		e.rts[r] = wazero.NewRuntimeWithConfig(e.ctx, e.rtConfig())
		e.comps[r] = make([]wazero.CompiledModule, len(h.Mods))
		e.comps2[r] = make([]wazero.CompiledModule, len(h.Mods))
		hm, err := e.rts[r].NewHostModuleBuilder("host").NewFunctionBuilder().
			WithGoModuleFunction(api.GoModuleFunc(func(ctx context.Context, mod api.Module, stack []uint64) { e.act() }),
				[]api.ValueType{api.ValueTypeI32}, nil).Export("act").
			NewFunctionBuilder().
			WithGoModuleFunction(api.GoModuleFunc(func(ctx context.Context, mod api.Module, stack []uint64) {
				mod.CloseWithExitCode(ctx, uint32(stack[0])) // start function of a failing module: exit(code)
			}), []api.ValueType{api.ValueTypeI32}, nil).Export("exit").
			Instantiate(e.ctx)
		if err != nil {
			panic("host module: " + err.Error())
		}
		e.hosts[r] = hm
	}
	e.insts = make([]api.Module, h.NInst)
	e.instantiating, e.closing, e.instRT = -1, map[int]bool{}, map[int]int{}
	e.instSlot, e.live = map[int]int{}, map[int]bool{}
	for r := range e.namedInst {
		e.namedInst[r] = map[int]int{}
	}
	for _, st := range h.Steps {
		if st.Kind == "inst" {
			e.instRT[st.Inst], e.instSlot[st.Inst] = st.RT, st.Slot
		}
		if st.Kind == "concinst" {
			for i := 0; i < st.N; i++ {
				e.instRT[st.Inst+i], e.instSlot[st.Inst+i] = st.RT, int(st.Args[i])
			}
		}
	}
	if h.Alloc {
		e.alloc = &trackAlloc{e: e}
		e.ctx = experimental.WithMemoryAllocator(e.ctx, e.alloc)
	}
	for i := range h.Steps {
		e.step = i
		if progress != nil {
			progress(i)
		}
		op := &h.Steps[i]
		e.subs, e.subObs = op.Sub, nil
		e.curKind, e.inCall = op.Kind, false
		t0 := time.Now()
		main := e.exec(op, false)
		if profOn {
			profT[op.Kind] += time.Since(t0)
			profN[op.Kind]++
		}
		e.subs = nil
		if len(e.subObs) > 0 {
			main += obsSep + strings.Join(e.subObs, obsSep)
		}
		e.out.Obs[i] = main
	}
	if progress != nil {
		progress(len(h.Steps))
	}
	if profOn {
		fmt.Fprintf(os.Stderr, "C09PROF %v %v\n", profT, profN)
	}
	// tear down for real in every mode and collect (uncounted), so that a child
	// neither accumulates mappings nor carries this history's garbage into the
	// next one's mapping census
	rts, cache, dir := e.rts, e.cache, e.dir
	e.tearing = true
	defer func(alloc *trackAlloc) {
		if alloc != nil {
			alloc.e = &executor{out: &childOut{Counters: map[string]int{}}, tearing: true} // late finalizer-driven frees
		}
	}(e.alloc)
	for r := 0; r < nrt; r++ {
		if rts[r] != nil {
			rts[r].Close(context.Background())
		}
	}
	if cache != nil {
		cache.Close(context.Background())
	}
	if dir != "" {
		os.RemoveAll(dir)
	}
	rts, cache = [maxRT]wazero.Runtime{}, nil
	out := e.out
	*e = executor{out: out, tearing: true, closing: map[int]bool{}}
	gcAndDrain()
	return e.out
}

// act is host.act: it runs the sub-ops scheduled for the current step while
// the guest caller (and whatever called it) is still on the stack.
func (e *executor) act() {
	subs := e.subs
	e.subs = nil // once per step
	for i := range subs {
		e.count("incall_ops")
		e.curKind, e.inCall = subs[i].Kind, true
		o := e.exec(&subs[i], true)
		if subs[i].Kind == "call" {
			e.subObs = append(e.subObs, o)
		}
	}
}

func errClass(err error) string {
	var ee *sys.ExitError
	if errors.As(err, &ee) {
		return fmt.Sprintf("exit:%d", ee.ExitCode())
	}
	s := err.Error()
	if i := strings.IndexByte(s, '\n'); i >= 0 {
		s = s[:i]
	}
	if strings.HasPrefix(s, "wasm error: ") {
		return "trap:" + strings.TrimPrefix(s, "wasm error: ")
	}
	if len(s) > 120 {
		s = s[:120]
	}
	return "err:" + s
}

func fmtRes(res []uint64, err error) string {
	if err != nil {
		return errClass(err)
	}
	// every result in these modules is an i32 or a funcref that is not printed: the upper half of an i32 slot is unspecified
	m := make([]uint64, len(res))
	for i, v := range res {
		m[i] = uint64(uint32(v))
	}
	return fmt.Sprintf("ok:%v", m)
}

// guard turns a Go panic that escapes a wazero API call into an observation.
func guard(f func() string) (out string) {
	defer func() {
		if v := recover(); v != nil {
			s := fmt.Sprint(v)
			if i := strings.IndexByte(s, '\n'); i >= 0 {
				s = s[:i]
			}
			if len(s) > 120 {
				s = s[:120]
			}
			out = "panic:" + s
		}
	}()
	return f()
}

func (e *executor) callExport(mod api.Module, name string, args []uint64) string {
	return guard(func() string {
		f := mod.ExportedFunction(name)
		if f == nil {
			return "noexport"
		}
		res, err := f.Call(e.ctx, args...)
		return fmtRes(res, err)
	})
}

// concInst: K goroutines instantiate K importers of the same exporter's table and memory at once. An import
// resolver (called right before a module's imports are resolved) serves as the barrier, so that all of them enter
// the registration with the table together. The twin instantiates sequentially. Afterwards, sequentially and in
// index order, instance i installs its function into slot Idx+i.
func (e *executor) concInst(op *Op) string {
	rt := e.rts[op.RT]
	if rt == nil {
		return "skip:runtime-dropped"
	}
	k := op.N
	mods := make([]api.Module, k)
	errs := make([]string, k)
	one := func(i int, ctx context.Context) {
		errs[i] = guard(func() string {
			cm := e.comps[op.RT][int(op.Args[i])]
			if cm == nil {
				return "skip:no-compiled-module"
			}
			m, err := rt.InstantiateModule(ctx, cm, wazero.NewModuleConfig().WithName(""))
			if err != nil {
				return errClass(err)
			}
			mods[i] = m
			return "ok"
		})
	}
	if e.twin {
		for i := 0; i < k; i++ {
			one(i, e.ctx)
		}
	} else {
		e.count("concurrent_instantiation_steps")
		e.out.Counters["concurrent_instantiations"] += k
		procs := k
		if procs > 8 {
			procs = 8
		}
		old := runtime.GOMAXPROCS(procs)
		var arrived, released atomic.Int32
		ctx := experimental.WithImportResolver(e.ctx, func(string) api.Module {
			if arrived.Add(1) >= int32(k) {
				released.Store(1)
			}
			for spins := 0; released.Load() == 0 && spins < 2000000; spins++ {
				runtime.Gosched()
			}
			return nil // resolve through the store as usual
		})
		var wg sync.WaitGroup
		for i := 0; i < k; i++ {
			wg.Add(1)
			go func(i int) {
				defer wg.Done()
				one(i, ctx)
			}(i)
		}
		wg.Wait()
		runtime.GOMAXPROCS(old)
	}
	var sb strings.Builder
	for i := 0; i < k; i++ {
		sb.WriteString(errs[i])
		if mods[i] != nil {
			e.insts[op.Inst+i] = mods[i]
			e.live[op.Inst+i] = true
			sb.WriteString("/" + e.callExport(mods[i], "install", []uint64{uint64(op.Idx + i)}))
		}
		sb.WriteByte(' ')
	}
	return sb.String()
}

func (e *executor) handles(op *Op) []wazero.CompiledModule {
	if op.H > 0 {
		return e.comps2[op.RT]
	}
	return e.comps[op.RT]
}

func (e *executor) exec(op *Op, inCall bool) string {
	switch op.Kind {
	case "compile":
		return guard(func() string {
			if e.rts[op.RT] == nil {
				return "skip:runtime-dropped"
			}
			cm, err := e.rts[op.RT].CompileModule(e.ctx, e.bins[op.Slot])
			if err != nil {
				return errClass(err)
			}
			e.handles(op)[op.Slot] = cm
			e.count("compiles")
			if op.H > 0 {
				e.count("compiles_same_binary_twice_in_one_runtime")
			}
			return "ok"
		})
	case "inst":
		return guard(func() string {
			rt := e.rts[op.RT]
			if rt == nil {
				return "skip:runtime-dropped"
			}
			cfg := wazero.NewModuleConfig().WithName(op.Name)
			var mod api.Module
			var err error
			e.instantiating = op.Inst
			defer func() { e.instantiating = -1 }()
			if e.h.Mods[op.Slot].Implicit {
				mod, err = rt.InstantiateWithConfig(e.ctx, e.bins[op.Slot], cfg)
			} else {
				cm := e.handles(op)[op.Slot]
				if cm == nil {
					return "skip:no-compiled-module"
				}
				mod, err = rt.InstantiateModule(e.ctx, cm, cfg)
			}
			if err != nil {
				e.count("instantiate_errors")
				if e.h.Mods[op.Slot].Fail > 0 {
					e.count("failing_instantiations_with_element_segment_into_shared_table")
				}
				return errClass(err)
			}
			e.insts[op.Inst] = mod
			e.live[op.Inst] = true
			if op.Name != "" {
				e.namedInst[op.RT][op.Slot] = op.Inst
			}
			e.count("instantiations")
			return "ok"
		})
	case "concinst":
		return e.concInst(op)
	case "call":
		mod := e.insts[op.Inst]
		if mod == nil {
			return "skip:absent"
		}
		e.count("calls")
		if len(op.Sub) > 0 {
			e.count("calls_with_incall_ops")
		}
		return e.callExport(mod, op.Name, op.Args)
	case "passref":
		a, b := e.insts[op.From], e.insts[op.Inst]
		if a == nil || b == nil {
			return "skip:absent"
		}
		e.count("passrefs")
		return guard(func() string {
			res, err := a.ExportedFunction("getref").Call(e.ctx, uint64(op.Which))
			if err != nil {
				return "getref:" + errClass(err)
			}
			ref := res[0]
			if ref == 0 {
				return "getref:null"
			}
			var r2 []uint64
			switch op.Channel {
			case "pt_set":
				r2, err = b.ExportedFunction("pt_set").Call(e.ctx, uint64(op.Idx), ref)
			case "st_set":
				r2, err = b.ExportedFunction("st_set").Call(e.ctx, uint64(op.Idx), ref)
			case "fg_set":
				r2, err = b.ExportedFunction("fg_set").Call(e.ctx, ref)
			case "pt_grow":
				r2, err = b.ExportedFunction("pt_grow").Call(e.ctx, ref, uint64(op.N))
			}
			e.count("passref_" + op.Channel)
			return "ref;" + fmtRes(r2, err)
		})
	case "lookup":
		mod := e.insts[op.Inst]
		if mod == nil {
			return "skip:absent"
		}
		e.count("table_lookups")
		return guard(func() string {
			f := table.LookupFunction(mod, uint32(op.N), uint32(op.Idx), nil, []api.ValueType{api.ValueTypeI32})
			res, err := f.Call(e.ctx)
			return fmtRes(res, err)
		})
	case "memapi":
		mod := e.insts[op.Inst]
		if mod == nil {
			return "skip:absent"
		}
		e.count("api_memory_accesses")
		return guard(func() string {
			mem := mod.Memory()
			if mem == nil {
				return "nomem"
			}
			w := mem.WriteUint32Le(100, uint32(op.N))
			v, ok := mem.ReadUint32Le(100)
			v64, ok2 := mem.ReadUint32Le(64) // the guest's marker
			sz, ok3 := mem.Grow(0)
			return fmt.Sprintf("ok:w=%v r=%d/%v marker=%d/%v pages=%d/%v", w, v, ok, v64, ok2, sz, ok3)
		})
	case "gread":
		mod := e.insts[op.Inst]
		if mod == nil {
			return "skip:absent"
		}
		e.count("global_reads")
		return guard(func() string {
			g := mod.ExportedGlobal(op.Name)
			if g == nil {
				return "noglobal"
			}
			v := g.Get()
			if op.Name == "gi" {
				return fmt.Sprintf("ok:%d", v)
			}
			if v == 0 {
				return "ok:null"
			}
			return "ok:ref"
		})
	case "hold":
		mod := e.insts[op.Inst]
		var f api.Function
		if mod != nil {
			guard(func() string { f = mod.ExportedFunction(op.Name); return "" })
		}
		e.held = append(e.held, f)
		if op.Name == "pt_call" {
			e.hargs = append(e.hargs, []uint64{0})
		} else {
			e.hargs = append(e.hargs, nil)
		}
		return ""
	case "callheld":
		if op.N >= len(e.held) || e.held[op.N] == nil {
			return "skip:absent"
		}
		e.count("held_calls")
		return guard(func() string {
			res, err := e.held[op.N].Call(e.ctx, e.hargs[op.N]...)
			return fmtRes(res, err)
		})
	case "gc":
		if !e.twin { // the twin never collects during a history (see runHistory)
			e.gcStep()
		}
		return ""
	case "churn":
		e.churn(op.N)
		return ""
	}
	// lifecycle operations: no-ops in the twin
	if e.twin {
		return ""
	}
	switch op.Kind {
	case "closemany":
		for _, id := range op.Args {
			if mod := e.insts[id]; mod != nil {
				e.closing[int(id)] = true
				e.count("close_module")
				guard(func() string { mod.Close(e.ctx); return "" })
			}
		}
	case "dropmany":
		for _, id := range op.Args {
			if e.insts[id] != nil {
				e.count("drop_module")
			}
			e.insts[id] = nil
		}
	case "closemod":
		if mod := e.insts[op.Inst]; mod != nil {
			e.closing[op.Inst] = true
			e.count("close_module")
			if inCall {
				e.count("close_module_incall")
			}
			return guard(func() string { mod.Close(e.ctx); return "" })
		}
	case "closecomp":
		if cm := e.handles(op)[op.Slot]; cm != nil {
			e.count("close_compiled")
			if inCall {
				e.count("close_compiled_incall")
			}
			return guard(func() string { cm.Close(e.ctx); return "" })
		}
	case "closert":
		if rt := e.rts[op.RT]; rt != nil {
			for id, r := range e.instRT {
				if r == op.RT {
					e.closing[id] = true
				}
			}
			e.count("close_runtime")
			return guard(func() string { rt.Close(e.ctx); return "" })
		}
	case "closecache":
		if e.cache != nil {
			e.count("close_cache")
			return guard(func() string { e.cache.Close(e.ctx); return "" })
		}
	case "closehost":
		if hm := e.hosts[op.RT]; hm != nil {
			e.count("close_host_module")
			return guard(func() string { hm.Close(e.ctx); return "" })
		}
	case "drop":
		if e.insts[op.Inst] != nil {
			e.count("drop_module")
		}
		e.insts[op.Inst] = nil
	case "dropcomp":
		if e.handles(op)[op.Slot] != nil {
			e.count("drop_compiled")
		}
		e.handles(op)[op.Slot] = nil
	case "droprt":
		if e.rts[op.RT] != nil {
			e.count("drop_runtime")
		}
		e.rts[op.RT] = nil
		e.hosts[op.RT] = nil
	}
	return ""
}

// ---- GC, finalizer drain, mapping census ----

type sentinel struct {
	p *int
	x [3]uint64
}

// gcAndDrain: runtime.GC() x2, wait until the finalizer goroutine has worked
// through what those collections queued (a sentinel queued by the second GC
// runs after them), then a third GC that frees what the finalizers released.
// The bounded wait is scheduling slack only; it never enters a verdict.
func gcAndDrain() {
	runtime.GC()
	done := make(chan struct{})
	s := &sentinel{p: new(int)}
	runtime.SetFinalizer(s, func(*sentinel) { close(done) })
	s = nil
	runtime.GC()
	select {
	case <-done:
	case <-time.After(250 * time.Millisecond):
	}
	runtime.Gosched()
	time.Sleep(100 * time.Microsecond)
	runtime.GC()
}

func (e *executor) gcStep() {
	before := countExecMaps()
	gcAndDrain()
	after := countExecMaps()
	e.count("gc_forced")
	if before > e.out.MapsPeak {
		e.out.MapsPeak = before
	}
	if after < before {
		e.out.Unmapped += before - after
	}
}

// countExecMaps counts anonymous executable mappings (wazero's code segments).
func countExecMaps() int {
	b, err := os.ReadFile("/proc/self/maps")
	if err != nil {
		return -1
	}
	n := 0
	for _, line := range bytes.Split(b, []byte("\n")) {
		f := bytes.Fields(line)
		if len(f) == 5 && len(f[1]) == 4 && f[1][2] == 'x' { // no pathname column
			n++
		}
	}
	return n
}

type pnode struct {
	a, b *pnode
	v    [2]uint64
}

// churn allocates and drops many objects of assorted sizes (pointer-free and
// pointerful, filled with a recognisable pattern) so that freed slots of the
// size classes wazero's records live in are reused.
func (e *executor) churn(n int) {
	e.count("churn_steps")
	r := e.rng
	sizes := []int{8, 16, 24, 32, 48, 64, 80, 96, 112, 128, 192, 256, 512, 640, 768, 896, 1024, 1152, 2048, 4096}
	for i := 0; i < n; i++ {
		var o any
		switch r.Intn(5) {
		case 0:
			p := &pnode{v: [2]uint64{0x4141414141414141, 0x4242424242424242}}
			p.a = p
			o = p
		case 1:
			s := make([]uintptr, 1+r.Intn(12))
			for j := range s {
				s[j] = 0x4343434343434343
			}
			o = s
		case 2:
			s := make([]*pnode, 1+r.Intn(8))
			o = s
		default:
			b := make([]byte, sizes[r.Intn(len(sizes))])
			for j := range b {
				b[j] = 0x45
			}
			o = b
		}
		if r.Chance(1, 8) {
			e.ring[e.ringI%len(e.ring)] = o
			e.ringI++
		} else {
			sink = o
		}
	}
	sink = nil
	e.out.Counters["churn_objects"] += n
}
