package c09

import (
	"fmt"
	"strings"

	"github.com/tetratelabs/wazero/verifharness/core"
)

// Op is one step of a history (or a sub-step executed by the host function
// "host.act" while its guest caller is on the stack).
type Op struct {
	Kind string   `json:"kind"`
	RT   int      `json:"rt"`
	Slot int      `json:"slot,omitempty"`
	Inst int      `json:"inst"`           // instance id (index into the instance list, assigned by inst steps)
	Name string   `json:"name,omitempty"` // instance name (inst) / export (call) / global (gread)
	Args []uint64 `json:"args,omitempty"`
	// passref
	From    int    `json:"from,omitempty"`
	Which   int    `json:"which,omitempty"`
	Channel string `json:"channel,omitempty"` // pt_set | fg_set | pt_grow | st_set
	Idx     int    `json:"idx,omitempty"`
	N       int    `json:"n,omitempty"`
	H       int    `json:"h,omitempty"`    // compile/closecomp/dropcomp/inst: which CompiledModule handle of (rt, slot): 0 first, 1 = the same runtime compiled the same binary a second time
	Sub     []Op   `json:"sub,omitempty"`  // executed inside host.act during this call
	Deps    []int  `json:"deps,omitempty"` // model: producers of the funcrefs this step calls through (their state feeds the observation too)
	// model annotations (generator side, used for signatures and evidence only, never for the verdict)
	Observe      bool     `json:"observe,omitempty"`
	Mutates      bool     `json:"mutates,omitempty"`
	Stale        []string `json:"stale,omitempty"`         // channels of funcrefs dereferenced by this step whose producer is unreachable+collected per model
	Tainted      bool     `json:"tainted,omitempty"`       // an earlier step of this history performed a stale use
	UAC          []string `json:"uac,omitempty"`           // use-after-close categories this step performs
	EntryCl      bool     `json:"entry_closed,omitempty"`  // entry instance closed when (or while) this call runs
	CompOpen     bool     `json:"comp_open,omitempty"`     // inst: runtime, cache and the CompiledModule handle used are all open per model: instantiation must not fail for lack of compiled code
	ClosedBefore bool     `json:"closed_before,omitempty"` // entry instance was already closed when the step began: not a live instance, only survival and invariance are judged
	RelClose     bool     `json:"rel_close,omitempty"`     // something in the dependency closure of this step has been closed
}

type History struct {
	Seed       uint64    `json:"seed"`
	Compiler   bool      `json:"compiler"`
	TwoRT      bool      `json:"two_rt"`     // NRT > 1
	NRT        int       `json:"nrt"`        // 1-3 runtimes sharing the cache object
	CacheKind  string    `json:"cache_kind"` // none | mem | dir-cold | dir-warm (directory populated beforehand by another cache object; new object: in-memory miss, file hit)
	Cache      bool      `json:"cache"`
	EnsureTerm bool      `json:"ensure_term"`
	AvoidKnown bool      `json:"avoid_known"`
	Small      bool      `json:"small"`
	Alloc      bool      `json:"alloc"` // instantiate with a tracking experimental.MemoryAllocator
	Mods       []ModSpec `json:"mods"`
	Steps      []Op      `json:"steps"`
	NInst      int       `json:"n_inst"`
}

func (o Op) String() string {
	var sb strings.Builder
	switch o.Kind {
	case "concinst":
		fmt.Fprintf(&sb, "concinst rt%d: %d goroutines instantiate #%d..#%d (modules %v) at once, then #i.install(%d+i)", o.RT, o.N, o.Inst, o.Inst+o.N-1, o.Args, o.Idx)
	case "closemany", "dropmany":
		fmt.Fprintf(&sb, "%s %v", o.Kind, o.Args)
	case "compile", "closecomp", "dropcomp":
		fmt.Fprintf(&sb, "%s rt%d m%d", o.Kind, o.RT, o.Slot)
		if o.H > 0 {
			sb.WriteString(" (second CompiledModule of the same binary)")
		}
	case "inst":
		fmt.Fprintf(&sb, "inst #%d = rt%d m%d name=%q", o.Inst, o.RT, o.Slot, o.Name)
		if o.H > 0 {
			sb.WriteString(" (via the second CompiledModule)")
		}
	case "call":
		fmt.Fprintf(&sb, "call #%d.%s%v", o.Inst, o.Name, o.Args)
	case "passref":
		fmt.Fprintf(&sb, "passref #%d.getref(%d) -> #%d.%s(idx=%d,n=%d)", o.From, o.Which, o.Inst, o.Channel, o.Idx, o.N)
	case "lookup":
		fmt.Fprintf(&sb, "lookup #%d table=%d off=%d +call", o.Inst, o.N, o.Idx)
	case "memapi":
		fmt.Fprintf(&sb, "memapi #%d: api.Memory write/read/Grow(0)", o.Inst)
	case "gread":
		fmt.Fprintf(&sb, "gread #%d.%s", o.Inst, o.Name)
	case "closemod", "drop", "hold", "callheld":
		fmt.Fprintf(&sb, "%s #%d", o.Kind, o.Inst)
		if o.Name != "" {
			fmt.Fprintf(&sb, ".%s", o.Name)
		}
	case "closert", "droprt", "closehost":
		fmt.Fprintf(&sb, "%s rt%d", o.Kind, o.RT)
	case "churn":
		fmt.Fprintf(&sb, "churn %d", o.N)
	default:
		sb.WriteString(o.Kind)
	}
	if len(o.Sub) > 0 {
		sb.WriteString(" {in host.act:")
		for _, s := range o.Sub {
			sb.WriteString(" " + s.String() + ";")
		}
		sb.WriteString("}")
	}
	if len(o.Stale) > 0 {
		fmt.Fprintf(&sb, "  [model: stale funcref via %v]", o.Stale)
	}
	return sb.String()
}

// ---------------------------------------------------------------------------
// model of the real-closes world (reachability of instances from GC roots as
// the wazero data structures are documented/intended to keep them). It is used
// to (1) steer the generator, (2) label steps for signatures / evidence. The
// verdict never depends on it.

type refInfo struct {
	prod    int // producing instance (whose ref.func created the reference), -1 = null
	which   int
	channel string // private-table | global | table-grow | shared-table | imported-global | own
}

type mInst struct {
	id, rt, slot int
	named        bool
	closed       bool
	ref          bool // host holds the api.Module
	held         int  // api.Function handles the host holds
	collected    bool // unreachable at some forced GC
	conc         bool // concurrently instantiated light importer: addressed only by the conc agenda
	ghost        bool // instance of a module whose instantiation failed after its element segments were applied: never handed out, but its functions sit in the imported table
	absent       bool // instantiation certainly (or, over-approximated, possibly) fails in the real world: no root, no edges, no steps
	pt           []refInfo
	fg           refInfo
	st           []refInfo // only for the table owner
}

const maxRT = 3

type cstate struct{ exists, closed, dropped bool }

func (m *model) c(rt, slot, h int) *cstate {
	if h > 0 {
		return &m.comp2[rt][slot]
	}
	return &m.comp[rt][slot]
}

type model struct {
	h          *History
	rtClosed   [maxRT]bool
	rtDropped  [maxRT]bool
	hostClosed [maxRT]bool
	cacheCl    bool
	comp       [maxRT][]cstate // first CompiledModule handle of (rt, slot)
	comp2      [maxRT][]cstate // second handle (same runtime compiled the binary again)
	inst       []*mInst
	named      [maxRT][]int // rt, slot -> instance id or -1
	anyClose   bool
	tainted    bool
	heldList   []int // held handle k -> instance id
	heldNames  []string
	entry      []bool // two runtimes sharing a cache: is the slot's shared engine entry present?
}

func newModel(h *History) *model {
	m := &model{h: h, entry: make([]bool, len(h.Mods))}
	for r := 0; r < maxRT; r++ {
		m.comp[r] = make([]cstate, len(h.Mods))
		m.comp2[r] = make([]cstate, len(h.Mods))
		m.named[r] = make([]int, len(h.Mods))
		for i := range m.named[r] {
			m.named[r][i] = -1
		}
	}
	return m
}

func (m *model) clone() *model {
	c := *m
	for r := 0; r < maxRT; r++ {
		c.comp[r] = append([]cstate(nil), m.comp[r]...)
		c.comp2[r] = append([]cstate(nil), m.comp2[r]...)
		c.named[r] = append([]int(nil), m.named[r]...)
	}
	c.inst = make([]*mInst, len(m.inst))
	for i, in := range m.inst {
		ci := *in
		ci.pt = append([]refInfo(nil), in.pt...)
		ci.st = append([]refInfo(nil), in.st...)
		c.inst[i] = &ci
	}
	c.heldList = append([]int(nil), m.heldList...)
	c.heldNames = append([]string(nil), m.heldNames...)
	c.entry = append([]bool(nil), m.entry...)
	return &c
}

func (m *model) spec(id int) ModSpec { return m.h.Mods[m.inst[id].slot] }

// importSources returns the instances id keeps reachable through imports.
func (m *model) importSources(id int) []int {
	in := m.inst[id]
	s := m.spec(id)
	var out []int
	add := func(slot int) {
		if slot >= 0 {
			if j := m.named[in.rt][slot]; j >= 0 && !m.inst[j].absent {
				out = append(out, j)
			}
		}
	}
	add(s.ImpFunc)
	// an imported memory keeps its ORIGINAL owner alive (MemoryInstance.ownerModuleEngine), not a re-exporting intermediary
	if ms := s.ImpMem; ms >= 0 {
		for m.h.Mods[ms].ImpMem >= 0 {
			ms = m.h.Mods[ms].ImpMem
		}
		add(ms)
	}
	add(s.ImpTable) // table keeps all involved instances alive (both directions, see tableGroup)
	if m.h.Compiler {
		add(s.ImpGlobal) // GlobalInstance.Me (wazevo owns globals); the interpreter keeps only the GlobalInstance
	}
	return out
}

// tableOwner returns the instance owning the shared table visible in id, or -1.
func (m *model) tableOwner(id int) int {
	s := m.spec(id)
	if s.ExportTable {
		return id
	}
	if s.ImpTable >= 0 {
		return m.named[m.inst[id].rt][s.ImpTable]
	}
	return -1
}

func (m *model) reachable(extraRoots ...int) []bool {
	n := len(m.inst)
	reach := make([]bool, n)
	var stack []int
	push := func(i int) {
		if i >= 0 && !reach[i] {
			reach[i] = true
			stack = append(stack, i)
		}
	}
	for _, in := range m.inst {
		if in.absent {
			continue
		}
		if in.ref || in.held > 0 {
			push(in.id)
		}
		if !in.closed && !m.rtClosed[in.rt] { // still in its store's module list
			push(in.id)
		}
	}
	for _, r := range extraRoots {
		push(r)
	}
	for len(stack) > 0 {
		i := stack[len(stack)-1]
		stack = stack[:len(stack)-1]
		for _, j := range m.importSources(i) {
			push(j)
		}
		// shared table: every involved instance keeps every other alive
		if o := m.tableOwner(i); o >= 0 {
			push(o)
			for _, in := range m.inst {
				if in.id != i && !in.absent && m.tableOwner(in.id) == o {
					push(in.id)
				}
			}
		}
	}
	return reach
}

func (m *model) markCollected(extraRoots ...int) {
	reach := m.reachable(extraRoots...)
	for i, in := range m.inst {
		if !reach[i] && !in.absent {
			in.collected = true
		}
	}
}

func (m *model) isClosed(id int) bool { return m.inst[id].closed || m.rtClosed[m.inst[id].rt] }

// relatedClosed: has anything in the dependency closure of a call entering
// instance id (plus the producers of the funcrefs it dereferences) been closed?
func (m *model) relatedClosed(id int, refs []refInfo) bool {
	if m.cacheCl {
		return true
	}
	seen := map[int]bool{}
	var walk func(i int) bool
	walk = func(i int) bool {
		if i < 0 || seen[i] {
			return false
		}
		seen[i] = true
		in := m.inst[i]
		if m.isClosed(i) || m.hostClosed[in.rt] {
			return true
		}
		if c := m.comp[in.rt][in.slot]; c.closed {
			return true
		}
		s := m.spec(i)
		for _, slot := range []int{s.ImpFunc, s.ImpMem, s.ImpTable, s.ImpGlobal} {
			if slot >= 0 && walk(m.named[in.rt][slot]) {
				return true
			}
		}
		if o := m.tableOwner(i); o >= 0 {
			for _, other := range m.inst {
				if m.tableOwner(other.id) == o && walk(other.id) {
					return true
				}
			}
		}
		return false
	}
	if walk(id) {
		return true
	}
	for _, r := range refs {
		if r.prod >= 0 && walk(r.prod) {
			return true
		}
	}
	// the other runtime shares the engine through the cache
	if m.h.TwoRT && (m.rtClosed[0] || m.rtClosed[1] || m.rtClosed[2]) {
		return true
	}
	for r := 0; r < maxRT; r++ { // other users of a shared engine entry
		for s := range m.comp[r] {
			if m.comp[r][s].closed || m.comp2[r][s].closed {
				return true
			}
		}
	}
	return false
}

// ---------------------------------------------------------------------------
// generator

type gen struct {
	r         *core.Rng
	h         *History
	m         *model
	agenda    []Op // follow-ups that make close -> collect -> use sequences likely
	slotsDone [maxRT]int
	concSlots []int // Conc module slots of this history
	concOwner int   // slot of the table/memory exporter they import from
	concSteps int
	lastAnon  int // instance id of the latest anonymous instantiation (agenda ops with Inst == -1 refer to it)
	engScen   int // 0 none, 1 pending, 2 done: close every compiled module, then the engine (cache / runtime) under live instances
}

// GenHistory is a pure function of (seed, compiler, avoidKnown): parent and
// children regenerate the same history from the case record.
func GenHistory(seed uint64, compiler, avoidKnown bool) *History {
	r := core.NewRng(int64(seed), 9)
	h := &History{Seed: seed, Compiler: compiler, AvoidKnown: avoidKnown}
	switch w := r.Intn(20); {
	case w < 9:
		h.CacheKind = "none"
	case w < 13:
		h.CacheKind = "mem"
	case w < 15:
		h.CacheKind = "dir-cold"
	default:
		h.CacheKind = "dir-warm"
	}
	h.NRT = 1
	if h.CacheKind != "none" {
		switch w := r.Intn(10); {
		case w < 3:
		case w < 8:
			h.NRT = 2
		default:
			h.NRT = 3
		}
	}
	h.TwoRT = h.NRT > 1
	h.Cache = h.CacheKind != "none"
	h.EnsureTerm = r.Chance(1, 6)
	h.Alloc = r.Chance(1, 4)
	nMods := 2 + r.Intn(3)
	if h.NRT == 2 {
		nMods = 2 + r.Intn(2)
	} else if h.NRT == 3 {
		nMods = 1 + r.Intn(2)
	}
	for i := 0; i < nMods; i++ {
		s := ModSpec{K: 1 + i + 10*r.Intn(9), Implicit: r.Chance(1, 3), ImpFunc: -1, ImpTable: -1, ImpGlobal: -1, ImpMem: -1}
		if i > 0 {
			if r.Chance(2, 5) {
				s.ImpFunc = r.Intn(i)
			}
			if r.Chance(1, 4) {
				s.ImpGlobal = r.Intn(i)
			}
			if r.Chance(1, 5) {
				if j := r.Intn(i); !h.Mods[j].PrivMem {
					s.ImpMem = j
				}
			}
			var owners []int
			for j := 0; j < i; j++ {
				if h.Mods[j].ExportTable {
					owners = append(owners, j)
				}
			}
			if len(owners) > 0 && r.Chance(3, 5) {
				s.ImpTable = owners[r.Intn(len(owners))]
			}
		}
		if s.ImpTable < 0 && r.Chance(2, 5) {
			s.ExportTable = true
		}
		s.PrivMem = s.ImpMem < 0 && r.Chance(1, 2)
		h.Mods = append(h.Mods, s)
	}
	// modules whose instantiation fails AFTER they have written their functions into an imported shared table
	var owners []int
	for j, sp := range h.Mods {
		if sp.ExportTable {
			owners = append(owners, j)
		}
	}
	for k := 0; k < 2 && len(owners) > 0; k++ {
		if (k == 0 && r.Chance(1, 2)) || (k == 1 && r.Chance(1, 6)) {
			fs := ModSpec{K: 1 + len(h.Mods) + 10*r.Intn(9), Implicit: r.Chance(1, 3), ImpFunc: -1, ImpGlobal: -1, ImpMem: -1,
				ImpTable: owners[r.Intn(len(owners))], Fail: 1, FailIdx: 1 + r.Intn(2)}
			if o := h.Mods[fs.ImpTable]; !o.PrivMem && o.ImpMem < 0 && r.Bool() {
				fs.ImpMem = fs.ImpTable // the failing importer also imports the owner's memory
			}
			if r.Chance(1, 3) {
				fs.Fail = 2
			}
			h.Mods = append(h.Mods, fs)
		}
	}
	target := 8 + r.Intn(33)
	h.Small = target <= 20
	g := &gen{r: r, h: h, m: newModel(h), concOwner: -1}
	if r.Chance(1, 6) { // concurrent instantiation of importers of one shared table
		owner := 0
		for j, sp := range h.Mods {
			if sp.ExportTable {
				owner = j
				break
			}
		}
		if h.Mods[owner].ImpTable < 0 && h.Mods[owner].Fail == 0 {
			h.Mods[owner].ExportTable = true
			if h.Mods[owner].ImpMem < 0 {
				h.Mods[owner].PrivMem = false // its memory is imported by the concurrent importers
			}
			g.concOwner = owner
			for k, n := 0, 1+r.Intn(2); k < n; k++ {
				g.concSlots = append(g.concSlots, len(h.Mods))
				h.Mods = append(h.Mods, ModSpec{K: 1 + len(h.Mods) + 10*r.Intn(9), ImpFunc: -1, ImpGlobal: -1, ImpMem: owner, ImpTable: owner, Conc: true})
			}
			g.m = newModel(h)
			target += 24
			h.Small = false
		}
	}
	if r.Chance(1, 5) {
		g.engScen = 1
	}
	for tries := 0; len(h.Steps) < target; tries++ {
		op, ok := g.next(len(h.Steps), target)
		if !ok {
			if tries > 4000 {
				g.emit(Op{Kind: "gc"})
			}
			continue
		}
		g.emit(op)
	}
	h.NInst = len(g.m.inst)
	return h
}

func (g *gen) rts() int {
	if g.h.NRT > 1 {
		return g.h.NRT
	}
	return 1
}

// emit annotates op against the model, applies it and appends it.
func (g *gen) emit(op Op) {
	g.annotateAndApply(g.m, &op)
	g.h.Steps = append(g.h.Steps, op)
}

// liveInsts: instances the host can still address (module variable not dropped).
func (g *gen) addressable(pred func(*mInst) bool) []int {
	var out []int
	for _, in := range g.m.inst {
		if in.ref && !in.absent && !in.conc && (pred == nil || pred(in)) {
			out = append(out, in.id)
		}
	}
	return out
}

func pick(r *core.Rng, l []int) int { return l[r.Intn(len(l))] }

func (g *gen) next(i, target int) (Op, bool) {
	r, m := g.r, g.m
	// 1. set-up: instantiate remaining slots early
	pendingSlots := false
	for rt := 0; rt < g.rts(); rt++ {
		if g.slotsDone[rt] < len(g.h.Mods) {
			pendingSlots = true
		}
	}
	if m.cacheCl { // compiling/instantiating on an engine closed through the cache is API misuse with uncertain outcome: not generated
		pendingSlots = false
	}
	if pendingSlots && (len(m.inst) < 2 || r.Chance(1, 2)) {
		rt := r.Intn(g.rts())
		for g.slotsDone[rt] >= len(g.h.Mods) {
			rt = (rt + 1) % g.rts()
		}
		slot := g.slotsDone[rt]
		spec := g.h.Mods[slot]
		if !spec.Implicit && !m.comp[rt][slot].exists {
			g.shareAgenda(rt, slot, 0)
			return Op{Kind: "compile", RT: rt, Slot: slot}, true
		}
		g.slotsDone[rt]++
		if spec.Conc { // compiled only; instantiated by concinst steps
			return Op{}, false
		}
		if spec.Fail > 0 {
			g.failAgenda(rt, slot, spec)
		}
		if j := spec.ImpFunc; j >= 0 && g.h.Mods[j].PrivMem && m.named[rt][j] >= 0 && r.Chance(1, 2) {
			// the exporter has a private memory its functions work on: mark it, close it, collect, churn, keep calling
			a, b := m.named[rt][j], len(m.inst)
			ag := []Op{{Kind: "call", Inst: a, Name: "mk_set", Args: []uint64{uint64(1 + r.Intn(900))}}, {Kind: "closemod", Inst: a}}
			if r.Bool() {
				ag = append(ag, Op{Kind: "drop", Inst: a})
			}
			ag = append(ag, Op{Kind: "gc"}, Op{Kind: "churn", N: 200 + r.Intn(600)}, Op{Kind: "gc"},
				Op{Kind: "call", Inst: b, Name: "call_impmk"}, Op{Kind: "call", Inst: b, Name: "chain", Args: []uint64{uint64(r.Intn(50)), 0}})
			if spec.ImpTable == j {
				ag = append(ag, Op{Kind: "call", Inst: b, Name: "st_call", Args: []uint64{1}})
			}
			g.agenda = append(g.agenda, ag...)
		}
		if j := spec.ImpGlobal; j >= 0 && m.named[rt][j] >= 0 && r.Chance(1, 2) {
			// the exporter of an imported funcref global: close, drop, collect, then use the global
			a := m.named[rt][j]
			g.agenda = append(g.agenda, Op{Kind: "closemod", Inst: a}, Op{Kind: "drop", Inst: a}, Op{Kind: "gc"},
				Op{Kind: "call", Inst: len(m.inst), Name: "ig_call"})
		}
		return Op{Kind: "inst", RT: rt, Slot: slot, Inst: len(m.inst), Name: slotName(slot)}, true
	}
	if !pendingSlots && g.engScen == 1 && len(m.inst) > 0 && r.Chance(1, 3) {
		g.engScen = 2
		g.engineCloseAgenda()
	}
	if op, ok := g.genConcInst(pendingSlots); ok {
		return op, true
	}
	// 2. agenda follow-ups
	if len(g.agenda) > 0 && r.Chance(3, 5) {
		op := g.agenda[0]
		g.agenda = g.agenda[1:]
		if op.Kind == "inst" { // anonymous instantiation scheduled by an agenda
			op.Inst = len(m.inst)
			if len(m.inst) >= 10 {
				return Op{}, false
			}
			g.lastAnon = op.Inst
		} else if op.Inst == -1 {
			op.Inst = g.lastAnon
			if op.Kind == "passref" {
				op.From = g.lastAnon
			}
		}
		if g.valid(op) {
			return g.finish(op)
		}
		return Op{}, false
	}
	if len(m.inst) == 0 {
		return Op{}, false
	}
	// 3. weighted random op
	switch w := r.Intn(100); {
	case w < 20: // pass a function reference
		return g.genPassref()
	case w < 42: // plain observation call
		return g.genCall(false)
	case w < 54: // call with closes while outstanding
		return g.genCall(true)
	case w < 60:
		ids := g.addressable(nil)
		if len(ids) == 0 {
			return Op{}, false
		}
		id := pick(r, ids)
		op := Op{Kind: "lookup", Inst: id, N: r.Intn(int(m.spec(id).ptIndex()) + 1), Idx: r.Intn(4)}
		return g.finish(op)
	case w < 64:
		ids := g.addressable(nil)
		if len(ids) == 0 {
			return Op{}, false
		}
		if r.Chance(1, 3) {
			return Op{Kind: "memapi", Inst: pick(r, ids), N: r.Intn(1000)}, true
		}
		return Op{Kind: "gread", Inst: pick(r, ids), Name: []string{"gi", "fg", "xg"}[r.Intn(3)]}, true
	case w < 74: // close something
		return g.genClose(m)
	case w < 81: // drop host references
		return g.genDrop(m)
	case w < 91:
		return Op{Kind: "gc"}, true
	case w < 95:
		n := 200 + r.Intn(1800)
		if g.h.Small {
			n = 50 + r.Intn(150)
		}
		return Op{Kind: "churn", N: n}, true
	case w < 98: // anonymous extra instance of an explicit compiled module / second compilation of its binary
		rt := r.Intn(g.rts())
		var slots []int
		for s, sp := range g.h.Mods {
			again := m.named[rt][s] >= 0 || (sp.Fail > 0 && g.slotsDone[rt] > s) // failing instantiations can be repeated
			if !sp.Implicit && !m.cacheCl && m.comp[rt][s].exists && !m.comp[rt][s].dropped && again && len(m.inst) < 8 {
				slots = append(slots, s)
			}
		}
		if len(slots) == 0 {
			return Op{}, false
		}
		sl := pick(r, slots)
		if g.h.Mods[sl].Fail > 0 {
			g.failAgenda(rt, sl, g.h.Mods[sl])
		}
		// the same runtime compiles the binary a second time (a second user of the engine's entry)
		if c2 := m.comp2[rt][sl]; !c2.exists && g.h.Mods[sl].Fail == 0 && r.Chance(1, 2) {
			g.shareAgenda(rt, sl, 1)
			return Op{Kind: "compile", RT: rt, Slot: sl, H: 1}, true
		}
		hh := 0
		if c2 := m.comp2[rt][sl]; c2.exists && !c2.dropped && r.Bool() {
			hh = 1
		}
		g.lastAnon = len(m.inst)
		return Op{Kind: "inst", RT: rt, Slot: sl, Inst: len(m.inst), Name: "", H: hh}, true
	default: // hold / call a held api.Function
		if len(m.heldList) > 0 && r.Bool() {
			k := r.Intn(len(m.heldList))
			return g.finish(Op{Kind: "callheld", Inst: m.heldList[k], N: k})
		}
		ids := g.addressable(nil)
		if len(ids) == 0 || len(m.heldList) >= 4 {
			return Op{}, false
		}
		return Op{Kind: "hold", Inst: pick(r, ids), Name: []string{"f0", "pt_call"}[r.Intn(2)], N: len(m.heldList), Args: nil}, true
	}
}

// engineCloseAgenda: empty the engine's compiled-module map while instances of
// explicit compiled modules stay open (close every CompiledModule, every
// instance of an implicit one, the host modules), then close the engine - the
// cache when there is one, else the runtime from inside host.act with the
// caller on the stack - and keep using the survivors: memory.grow, table.grow,
// run-time ref.func, deep recursion, new api.Function objects.
func (g *gen) engineCloseAgenda() {
	r, m := g.r, g.m
	var closes []Op
	for rt := 0; rt < g.rts(); rt++ {
		for s, sp := range g.h.Mods {
			if !sp.Implicit && m.comp[rt][s].exists && !m.comp[rt][s].dropped {
				closes = append(closes, Op{Kind: "closecomp", RT: rt, Slot: s})
			}
			if m.comp2[rt][s].exists && !m.comp2[rt][s].dropped {
				closes = append(closes, Op{Kind: "closecomp", RT: rt, Slot: s, H: 1})
			}
		}
		closes = append(closes, Op{Kind: "closehost", RT: rt})
	}
	var live []int
	for _, in := range m.inst {
		if in.ghost || in.absent || !in.ref || in.conc {
			continue
		}
		if m.spec(in.id).Implicit {
			closes = append(closes, Op{Kind: "closemod", Inst: in.id})
		} else if !m.isClosed(in.id) {
			live = append(live, in.id)
		}
	}
	if len(live) == 0 {
		return
	}
	uses := func(id int) []Op {
		return []Op{
			{Kind: "call", Inst: id, Name: "tramp", Args: []uint64{uint64(800 + r.Intn(600))}},
			{Kind: "call", Inst: id, Name: "mem_grow", Args: []uint64{uint64(r.Intn(2))}},
			{Kind: "passref", From: id, Inst: id, Which: r.Intn(2), Channel: "pt_grow", N: 1},
			{Kind: "call", Inst: id, Name: "do_act", Args: []uint64{uint64(r.Intn(50)), 0}},
		}
	}
	var ag []Op
	if g.h.Cache {
		ag = append(ag, closes...)
		ag = append(ag, Op{Kind: "closecache"})
		if r.Bool() {
			ag = append(ag, Op{Kind: "gc"})
		}
		for k := 0; k < 2; k++ {
			ag = append(ag, uses(pick(r, live))...)
		}
	} else {
		id := pick(r, live)
		subs := append(append([]Op(nil), closes...), Op{Kind: "closert", RT: m.inst[id].rt})
		if r.Bool() {
			subs = append(subs, Op{Kind: "gc"})
		}
		ag = append(ag, Op{Kind: "call", Inst: id, Name: "do_act", Args: []uint64{uint64(r.Intn(50)), 0}, Sub: subs})
		ag = append(ag, uses(id)[:2]...)
	}
	g.agenda = append(ag, g.agenda...)
}

// genConcInst: K importers of the owner's shared table (and memory) instantiated at once from K goroutines, each
// installing its own function into a distinct slot; then a PRNG subset is closed, dropped and collected, and the
// survivors and the exporter call through every slot.
func (g *gen) genConcInst(pendingSlots bool) (Op, bool) {
	r, m := g.r, g.m
	if len(g.concSlots) == 0 || pendingSlots || g.concSteps >= 3 || m.cacheCl || !r.Chance(1, 2) {
		return Op{}, false
	}
	rt := 0
	owner := m.named[rt][g.concOwner]
	if owner < 0 || m.isClosed(owner) || m.inst[owner].absent || !m.inst[owner].ref {
		return Op{}, false
	}
	for _, cs := range g.concSlots {
		if c := m.comp[rt][cs]; !c.exists || c.closed || c.dropped {
			return Op{}, false
		}
	}
	g.concSteps++
	k := 4 + r.Intn(13)
	base := 4 + r.Intn(stMin-4-k+1)
	op := Op{Kind: "concinst", RT: rt, Slot: g.concSlots[0], N: k, Idx: base, Inst: len(m.inst)}
	for i := 0; i < k; i++ {
		op.Args = append(op.Args, uint64(g.concSlots[r.Intn(len(g.concSlots))]))
	}
	var victims, survivors []uint64
	for i := 0; i < k; i++ {
		if r.Chance(3, 5) {
			victims = append(victims, uint64(op.Inst+i))
		} else {
			survivors = append(survivors, uint64(op.Inst+i))
		}
	}
	sum := func(id int) Op {
		return Op{Kind: "call", Inst: id, Name: "st_sum", Args: []uint64{uint64(base), uint64(k)}}
	}
	ag := []Op{sum(owner)}
	if len(victims) > 0 {
		ag = append(ag, Op{Kind: "closemany", Args: victims}, Op{Kind: "dropmany", Args: victims})
	}
	if g.concSteps >= 2 && r.Chance(1, 2) { // no later concinst step needs the compiled modules only when this was the last one
		for _, cs := range g.concSlots {
			if r.Bool() {
				ag = append(ag, Op{Kind: "closecomp", RT: rt, Slot: cs}, Op{Kind: "dropcomp", RT: rt, Slot: cs})
			}
		}
	}
	ag = append(ag, Op{Kind: "gc"}, Op{Kind: "churn", N: 200 + r.Intn(600)}, Op{Kind: "gc"}, sum(owner))
	if len(survivors) > 0 {
		ag = append(ag, sum(int(survivors[r.Intn(len(survivors))])))
	}
	ag = append(ag, Op{Kind: "call", Inst: owner, Name: "st_call", Args: []uint64{uint64(base + r.Intn(k))}})
	g.agenda = append(g.agenda, ag...)
	return op, true
}

// shareAgenda: (rt, slot, h) is about to be compiled. If another still open
// CompiledModule of the same binary uses the same engine (same runtime, or a
// runtime sharing the cache), one of the users closes its handle (or its
// runtime) and the other goes on: a fresh instantiation through the still open
// handle, calls and a trap (stack trace) on it and on older instances.
func (g *gen) shareAgenda(rt, slot, h int) {
	r, m := g.r, g.m
	if g.h.Mods[slot].Fail > 0 || !r.Chance(3, 4) {
		return
	}
	type user struct{ rt, h int }
	var others []user
	for orr := 0; orr < g.rts(); orr++ {
		for hh := 0; hh < 2; hh++ {
			if orr == rt && hh == h {
				continue
			}
			if orr != rt && !g.h.Cache {
				continue
			}
			if c := m.c(orr, slot, hh); c.exists && !c.closed && !c.dropped && !m.rtClosed[orr] {
				others = append(others, user{orr, hh})
			}
		}
	}
	if len(others) == 0 {
		return
	}
	o := others[r.Intn(len(others))]
	closer, keeper := o, user{rt, h}
	if r.Bool() {
		closer, keeper = keeper, closer
	}
	var ag []Op
	ag = append(ag, Op{Kind: "closecomp", RT: closer.rt, Slot: slot, H: closer.h})
	if r.Chance(1, 3) {
		ag = append(ag, Op{Kind: "dropcomp", RT: closer.rt, Slot: slot, H: closer.h}, Op{Kind: "gc"})
	}
	ag = append(ag, Op{Kind: "inst", RT: keeper.rt, Slot: slot, H: keeper.h, Name: ""},
		Op{Kind: "call", Inst: -1, Name: "tramp", Args: []uint64{uint64(100 + r.Intn(400))}},
		Op{Kind: "call", Inst: -1, Name: "pt_call", Args: []uint64{3}}) // null slot: trap with a stack trace
	if r.Bool() {
		ag = append(ag, Op{Kind: "call", Inst: -1, Name: "do_act", Args: []uint64{uint64(r.Intn(50)), 0}})
	}
	g.agenda = append(g.agenda, ag...)
}

// failAgenda: after a failing instantiation wrote into the shared table:
// close/drop its compiled module, collect, churn, then a live member of the
// table's group calls through the written slots.
func (g *gen) failAgenda(rt, slot int, spec ModSpec) {
	r, m := g.r, g.m
	var ag []Op
	if !spec.Implicit {
		if r.Chance(2, 3) {
			ag = append(ag, Op{Kind: "closecomp", RT: rt, Slot: slot})
		}
		if r.Chance(2, 3) {
			ag = append(ag, Op{Kind: "dropcomp", RT: rt, Slot: slot})
		}
	}
	ag = append(ag, Op{Kind: "gc"})
	if r.Chance(1, 2) {
		ag = append(ag, Op{Kind: "churn", N: 100 + r.Intn(400)}, Op{Kind: "gc"})
	}
	owner := m.named[rt][spec.ImpTable]
	if owner < 0 {
		return
	}
	var users []int
	for _, in := range m.inst {
		if !in.ghost && !in.conc && !in.absent && in.ref && m.tableOwner(in.id) == owner {
			users = append(users, in.id)
		}
	}
	for k := 0; k < 2 && len(users) > 0; k++ {
		u := pick(r, users)
		idx := spec.FailIdx + r.Intn(2)
		if r.Chance(1, 4) {
			ag = append(ag, Op{Kind: "lookup", Inst: u, N: 0, Idx: idx})
		} else {
			ag = append(ag, Op{Kind: "call", Inst: u, Name: "st_call", Args: []uint64{uint64(idx)}})
		}
	}
	g.agenda = append(g.agenda, ag...)
}

// valid: can the (agenda) op still be executed by the host?
func (g *gen) valid(op Op) bool {
	m := g.m
	switch op.Kind {
	case "closemod", "drop", "call", "lookup":
		return op.Inst >= 0 && op.Inst < len(m.inst) && m.inst[op.Inst].ref && !m.inst[op.Inst].absent
	case "closecomp", "dropcomp":
		c := m.c(op.RT, op.Slot, op.H)
		return c.exists && !c.dropped
	case "inst":
		c := m.c(op.RT, op.Slot, op.H)
		return c.exists && !c.dropped && !m.cacheCl
	case "passref":
		return op.Inst < len(m.inst) && m.inst[op.Inst].ref && m.inst[op.From].ref && !m.isClosed(op.From)
	}
	return true
}

func (g *gen) genClose(m *model) (Op, bool) {
	r := g.r
	switch w := r.Intn(20); {
	case w < 10:
		ids := g.addressable(func(in *mInst) bool { return !in.closed })
		if len(ids) == 0 {
			ids = g.addressable(nil) // double close is allowed
		}
		if len(ids) == 0 {
			return Op{}, false
		}
		return Op{Kind: "closemod", Inst: pick(r, ids)}, true
	case w < 15:
		rt := r.Intn(g.rts())
		var slots []int // slot*2 + handle
		for s := range g.h.Mods {
			for hh := 0; hh < 2; hh++ {
				if c := m.c(rt, s, hh); c.exists && !c.dropped {
					slots = append(slots, s*2+hh)
				}
			}
		}
		if len(slots) == 0 {
			return Op{}, false
		}
		sh := pick(r, slots)
		return Op{Kind: "closecomp", RT: rt, Slot: sh / 2, H: sh % 2}, true
	case w < 17:
		rt := r.Intn(g.rts())
		if m.rtDropped[rt] || (!g.h.TwoRT && len(g.h.Steps) < 12) {
			return Op{}, false
		}
		return Op{Kind: "closert", RT: rt}, true
	case w < 18:
		if !g.h.Cache || (len(g.h.Steps) < 10) {
			return Op{}, false
		}
		return Op{Kind: "closecache"}, true
	default:
		return Op{Kind: "closehost", RT: r.Intn(g.rts())}, true
	}
}

func (g *gen) genDrop(m *model) (Op, bool) {
	r := g.r
	switch w := r.Intn(10); {
	case w < 6:
		// prefer dropping closed instances (that is what makes them collectable)
		ids := g.addressable(func(in *mInst) bool { return in.closed })
		if len(ids) == 0 || r.Chance(1, 4) {
			ids = g.addressable(nil)
		}
		if len(ids) == 0 {
			return Op{}, false
		}
		return Op{Kind: "drop", Inst: pick(r, ids)}, true
	case w < 9:
		rt := r.Intn(g.rts())
		var slots []int
		for s := range g.h.Mods {
			for hh := 0; hh < 2; hh++ {
				if c := m.c(rt, s, hh); c.exists && !c.dropped {
					slots = append(slots, s*2+hh)
				}
			}
		}
		if len(slots) == 0 {
			return Op{}, false
		}
		sh := pick(r, slots)
		return Op{Kind: "dropcomp", RT: rt, Slot: sh / 2, H: sh % 2}, true
	default:
		rt := r.Intn(g.rts())
		if !m.rtClosed[rt] || m.rtDropped[rt] {
			return Op{}, false
		}
		return Op{Kind: "droprt", RT: rt}, true
	}
}

func (g *gen) genPassref() (Op, bool) {
	r, m := g.r, g.m
	// source must be callable and not closed (getref on a closed module yields only the exit error)
	src := g.addressable(func(in *mInst) bool { return !m.isClosed(in.id) })
	if len(src) == 0 {
		return Op{}, false
	}
	a := pick(r, src)
	dst := g.addressable(func(in *mInst) bool { return in.rt == m.inst[a].rt })
	if len(dst) == 0 {
		return Op{}, false
	}
	b := pick(r, dst)
	if b == a && len(dst) > 1 && r.Chance(3, 4) {
		b = pick(r, dst)
	}
	op := Op{Kind: "passref", From: a, Inst: b, Which: r.Intn(5)}
	if op.Which == 3 && r.Chance(1, 2) {
		op.Which = r.Intn(3)
	}
	chans := []string{"pt_set", "pt_set", "fg_set", "pt_grow"}
	if m.spec(b).hasST() {
		chans = append(chans, "st_set", "st_set")
	}
	op.Channel = chans[r.Intn(len(chans))]
	op.Idx = r.Intn(4)
	op.N = 1 + r.Intn(2)
	// follow-ups: close the producer, drop it, collect, use the slot
	if r.Chance(3, 4) {
		var ag []Op
		ai := m.inst[a]
		if r.Chance(4, 5) {
			ag = append(ag, Op{Kind: "closemod", Inst: a})
		}
		if !g.h.Mods[ai.slot].Implicit && r.Chance(1, 2) {
			ag = append(ag, Op{Kind: "closecomp", RT: ai.rt, Slot: ai.slot})
		}
		if r.Chance(4, 5) {
			ag = append(ag, Op{Kind: "drop", Inst: a})
		}
		if !g.h.Mods[ai.slot].Implicit && r.Chance(1, 2) {
			ag = append(ag, Op{Kind: "dropcomp", RT: ai.rt, Slot: ai.slot})
		}
		if r.Chance(1, 3) {
			ag = append(ag, Op{Kind: "churn", N: 100 + r.Intn(400)})
		}
		ag = append(ag, Op{Kind: "gc"})
		if r.Chance(1, 3) {
			ag = append(ag, Op{Kind: "churn", N: 100 + r.Intn(400)})
		}
		use := Op{Kind: "call", Inst: b}
		switch op.Channel {
		case "pt_set":
			if op.Which == 3 {
				use.Name, use.Args = "pt_call2", []uint64{uint64(op.Idx), uint64(r.Intn(50)), uint64(r.Intn(4))}
			} else {
				use.Name, use.Args = "pt_call", []uint64{uint64(op.Idx)}
			}
		case "fg_set":
			use.Name = "fg_call"
		case "pt_grow":
			use.Name, use.Args = "pt_call", []uint64{uint64(ptMin)} // first grown slot if the table had its initial size
		case "st_set":
			use.Name, use.Args = "st_call", []uint64{uint64(op.Idx)}
		}
		ag = append(ag, use)
		g.agenda = append(g.agenda, ag...)
	}
	return op, true
}

// genCall generates an observation call; withAct selects the exports that run
// host.act (closes while the caller is on the stack).
func (g *gen) genCall(withAct bool) (Op, bool) {
	r, m := g.r, g.m
	ids := g.addressable(nil)
	if len(ids) == 0 {
		return Op{}, false
	}
	// mostly still-live instances, sometimes closed ones (use after close by the host itself)
	live := g.addressable(func(in *mInst) bool { return !m.isClosed(in.id) })
	id := pick(r, ids)
	if len(live) > 0 && r.Chance(5, 6) {
		id = pick(r, live)
	}
	s := m.spec(id)
	op := Op{Kind: "call", Inst: id}
	if withAct {
		names := []string{"do_act", "do_act", "pt_call2"}
		if s.ImpFunc >= 0 {
			names = append(names, "chain", "chain")
		}
		op.Name = names[r.Intn(len(names))]
		switch op.Name {
		case "pt_call2":
			op.Args = []uint64{uint64(r.Intn(4)), uint64(r.Intn(50)), uint64(r.Intn(4))}
		default:
			op.Args = []uint64{uint64(r.Intn(50)), uint64(r.Intn(4))}
		}
		op.Sub = g.genSubs(id)
		return g.finish(op)
	}
	names := []string{"f0", "f1", "pt_call", "pt_call", "pt_call", "pt_isnull", "pt_copy_call", "pt_size", "fg_call", "fg_call", "fg_isnull", "xg_call", "mem_rw", "mem_grow", "gi_set", "tramp", "tramp", "mk", "mk_set"}
	if s.ImpFunc >= 0 {
		names = append(names, "call_imp", "call_imp", "call_impmk", "call_impmk")
	}
	if s.ImpGlobal >= 0 {
		names = append(names, "ig_call", "ig_call", "ig_call")
	}
	if s.hasST() {
		names = append(names, "st_call", "st_call", "st_call", "st_isnull")
	}
	op.Name = names[r.Intn(len(names))]
	switch op.Name {
	case "pt_call", "pt_isnull":
		op.Args = []uint64{uint64(r.Intn(len(m.inst[id].pt) + 1))}
	case "st_call", "st_isnull":
		op.Args = []uint64{uint64(r.Intn(4))}
	case "pt_copy_call":
		op.Args = []uint64{uint64(r.Intn(4)), uint64(r.Intn(4))}
	case "mem_rw", "gi_set", "mk_set":
		op.Args = []uint64{uint64(r.Intn(1000))}
	case "tramp":
		op.Args = []uint64{uint64(200 + r.Intn(1200))}
	case "mem_grow":
		op.Args = []uint64{uint64(r.Intn(2))}
	}
	return g.finish(op)
}

// genSubs: what host.act does while the guest caller is on the stack.
func (g *gen) genSubs(entry int) []Op {
	r, m := g.r, g.m
	var subs []Op
	droppedHere := map[int]bool{}
	n := 1 + r.Intn(4)
	rt := m.inst[entry].rt
	for k := 0; k < n; k++ {
		switch w := r.Intn(20); {
		case w < 6: // close the caller's module or another instance
			id := entry
			if r.Bool() {
				var same []int
				for _, in := range m.inst {
					if in.rt == rt && in.ref && !in.absent && !in.conc && !droppedHere[in.id] {
						same = append(same, in.id)
					}
				}
				if len(same) > 0 {
					id = pick(r, same)
				}
			}
			if m.inst[id].ref && !droppedHere[id] {
				subs = append(subs, Op{Kind: "closemod", Inst: id})
				if r.Chance(1, 2) {
					subs = append(subs, Op{Kind: "drop", Inst: id})
					droppedHere[id] = true
				}
			}
		case w < 9:
			var slots []int
			for s := range g.h.Mods {
				if c := m.comp[rt][s]; c.exists && !c.dropped {
					slots = append(slots, s)
				}
			}
			if len(slots) > 0 {
				s := pick(r, slots)
				subs = append(subs, Op{Kind: "closecomp", RT: rt, Slot: s})
				if r.Chance(1, 2) {
					subs = append(subs, Op{Kind: "dropcomp", RT: rt, Slot: s})
				}
			}
		case w < 10:
			if len(g.h.Steps) > 10 && r.Chance(1, 2) {
				subs = append(subs, Op{Kind: "closert", RT: rt})
			}
		case w < 15:
			subs = append(subs, Op{Kind: "gc"})
		case w < 17:
			subs = append(subs, Op{Kind: "churn", N: 50 + r.Intn(300)})
		default: // re-entrant observation call
			var same []int
			for _, in := range m.inst {
				if in.rt == rt && in.ref && !in.absent && !in.conc && !droppedHere[in.id] {
					same = append(same, in.id)
				}
			}
			if len(same) > 0 {
				subs = append(subs, Op{Kind: "call", Inst: pick(r, same), Name: []string{"f0", "f1", "xg_call"}[r.Intn(3)]})
			}
		}
	}
	if len(subs) > 0 && r.Chance(2, 3) && subs[len(subs)-1].Kind != "gc" {
		subs = append(subs, Op{Kind: "gc"})
	}
	return subs
}

// finish: in AvoidKnown mode, reject steps that (per model) dereference a stale
// function reference - the known defect - so that other defects stay visible
// with a clean attribution; otherwise accept.
func (g *gen) finish(op Op) (Op, bool) {
	if !g.h.AvoidKnown {
		return op, true
	}
	for attempt := 0; attempt < 2; attempt++ {
		probe := op
		c := g.m.clone()
		g.annotateAndApply(c, &probe)
		if len(probe.Stale) == 0 {
			return op, true
		}
		if len(op.Sub) == 0 {
			return Op{}, false
		}
		op.Sub = nil // retry without in-call closes
	}
	return Op{}, false
}

// refsUsed returns the function references a call dereferences, given the
// model state (after the in-call sub-ops have been applied for the exports
// that dereference after host.act).
func (m *model) slotRef(id int, table string, idx int) (refInfo, bool) {
	in := m.inst[id]
	switch table {
	case "pt":
		if idx >= 0 && idx < len(in.pt) {
			return in.pt[idx], true
		}
	case "st":
		if o := m.tableOwner(id); o >= 0 && idx >= 0 && idx < len(m.inst[o].st) {
			return m.inst[o].st[idx], true
		}
	}
	return refInfo{prod: -1}, false
}

func (m *model) setSlot(id int, table string, idx int, ri refInfo) {
	in := m.inst[id]
	switch table {
	case "pt":
		if idx >= 0 && idx < len(in.pt) {
			in.pt[idx] = ri
		}
	case "st":
		if o := m.tableOwner(id); o >= 0 && idx >= 0 && idx < len(m.inst[o].st) {
			m.inst[o].st[idx] = ri
		}
	}
}

func (m *model) staleRef(ri refInfo, holder int) bool {
	if ri.prod < 0 || ri.prod == holder {
		return false
	}
	return m.inst[ri.prod].collected
}

// applyLifecycle applies close/drop/gc ops (top level or in-call) to the model.
func (m *model) applyLifecycle(op *Op, extraRoots ...int) {
	switch op.Kind {
	case "closemod":
		m.inst[op.Inst].closed = true
		m.anyClose = true
		if m.spec(op.Inst).Implicit { // CodeCloser closes the implicit compiled module
			m.comp[m.inst[op.Inst].rt][m.inst[op.Inst].slot].closed = true
		}
	case "closemany":
		for _, id := range op.Args {
			m.inst[id].closed = true
		}
		m.anyClose = true
	case "dropmany":
		for _, id := range op.Args {
			m.inst[id].ref = false
		}
	case "closecomp":
		m.c(op.RT, op.Slot, op.H).closed = true
		m.anyClose = true
	case "closert":
		m.rtClosed[op.RT] = true
		m.anyClose = true
		for _, in := range m.inst {
			if in.rt == op.RT {
				in.closed = true
			}
		}
		for s := range m.comp[op.RT] {
			if m.comp[op.RT][s].exists {
				m.comp[op.RT][s].closed = true
			}
			if m.comp2[op.RT][s].exists {
				m.comp2[op.RT][s].closed = true
			}
		}
	case "closecache":
		m.cacheCl = true
		m.anyClose = true
	case "closehost":
		m.hostClosed[op.RT] = true
		m.anyClose = true
	case "drop":
		m.inst[op.Inst].ref = false
	case "dropcomp":
		m.c(op.RT, op.Slot, op.H).dropped = true
	case "droprt":
		m.rtDropped[op.RT] = true
	case "gc":
		m.markCollected(extraRoots...)
	}
}

// annotateAndApply labels op with the model's view and advances the model.
func (g *gen) annotateAndApply(m *model, op *Op) {
	op.Tainted = m.tainted
	var used []refInfo
	stale := func(ri refInfo, holder int) {
		used = append(used, ri)
		if m.staleRef(ri, holder) {
			op.Stale = append(op.Stale, ri.channel)
		}
	}
	uac := func(cat string) { op.UAC = append(op.UAC, cat) }
	switch op.Kind {
	case "compile":
		c := m.c(op.RT, op.Slot, op.H)
		c.exists = true
		if m.rtClosed[op.RT] || m.cacheCl {
			c.closed = true // compile fails or is useless
		}
	case "inst":
		in := &mInst{id: op.Inst, rt: op.RT, slot: op.Slot, named: op.Name != "", ref: true}
		s := g.h.Mods[op.Slot]
		if s.Fail > 0 { // never handed out, never in the store's list; reachable only through the table it wrote into
			in.ghost, in.named, in.ref, in.closed = true, false, false, true
		}
		in.pt = make([]refInfo, ptMin)
		for i := range in.pt {
			in.pt[i] = refInfo{prod: -1}
		}
		in.pt[0] = refInfo{prod: op.Inst, channel: "own"}
		if s.ImpFunc >= 0 {
			in.pt[1] = refInfo{prod: op.Inst, which: 2, channel: "own"}
		}
		in.fg = refInfo{prod: -1}
		if s.ExportTable {
			in.st = make([]refInfo, stMin)
			for i := range in.st {
				in.st[i] = refInfo{prod: -1}
			}
			in.st[0] = refInfo{prod: op.Inst, which: 1, channel: "own"}
			in.st[1] = refInfo{prod: op.Inst, which: 4, channel: "own"}
		}
		// will the real-world instantiation fail? (over-approximated: "absent" is the conservative direction)
		if m.rtClosed[op.RT] || m.rtDropped[op.RT] || m.cacheCl || (m.hostClosed[op.RT] && s.Fail != 1) {
			in.absent = true
		}
		op.CompOpen = !m.rtClosed[op.RT] && !m.rtDropped[op.RT] && !m.cacheCl
		if !s.Implicit {
			// the engine counts the users of a compiled-module entry: only the state of the handle used matters
			cm := *m.c(op.RT, op.Slot, op.H)
			if !cm.exists || cm.closed || cm.dropped {
				in.absent = true
				op.CompOpen = false
			}
		}
		for _, slot := range []int{s.ImpFunc, s.ImpMem, s.ImpTable, s.ImpGlobal} {
			if slot >= 0 {
				j := m.named[op.RT][slot]
				if j < 0 || m.isClosed(j) || m.inst[j].absent {
					in.absent = true
				}
			}
		}
		m.inst = append(m.inst, in)
		if in.named {
			m.named[op.RT][op.Slot] = op.Inst
		}
		if in.ghost && !in.absent { // element segment applied before the start function failed: the writes persist
			if owner := m.named[op.RT][s.ImpTable]; owner >= 0 {
				for k := 0; k < 2; k++ {
					m.setSlot(owner, "st", s.FailIdx+k, refInfo{prod: op.Inst, which: 5 + k, channel: "failed-instantiation"})
				}
			}
			op.UAC = append(op.UAC, "failed-instantiation-wrote-shared-table")
		}
		op.Mutates = true
	case "concinst":
		op.Observe, op.Mutates = true, true
		owner := m.named[op.RT][g.h.Mods[op.Slot].ImpTable]
		for i := 0; i < op.N; i++ {
			slot := int(op.Args[i])
			in := &mInst{id: op.Inst + i, rt: op.RT, slot: slot, ref: true, conc: true, fg: refInfo{prod: -1}}
			cm := m.comp[op.RT][slot]
			if m.rtClosed[op.RT] || m.rtDropped[op.RT] || m.cacheCl || !cm.exists || cm.closed || cm.dropped ||
				owner < 0 || m.isClosed(owner) || m.inst[owner].absent {
				in.absent = true
			}
			m.inst = append(m.inst, in)
			if !in.absent {
				m.setSlot(owner, "st", op.Idx+i, refInfo{prod: in.id, which: 6, channel: "installed-by-importer"})
			}
		}
		op.RelClose = owner < 0 || m.relatedClosed(owner, nil)
	case "passref":
		op.Observe, op.Mutates = true, true
		a, b := op.From, op.Inst
		ch := map[string]string{"pt_set": "private-table", "fg_set": "global", "pt_grow": "table-grow", "st_set": "shared-table"}[op.Channel]
		prod := a
		ri := refInfo{prod: prod, which: op.Which, channel: ch}
		if prod == b {
			ri.channel = "own"
		}
		// With CloseOnContextDone the exit-code check at function entry rejects a call into an already closed
		// module before its first instruction: the store does not happen (without it the call runs to completion).
		if rejected := g.h.EnsureTerm && m.isClosed(b); !rejected {
			switch op.Channel {
			case "pt_set":
				m.setSlot(b, "pt", op.Idx, ri)
			case "st_set":
				m.setSlot(b, "st", op.Idx, ri)
			case "fg_set":
				m.inst[b].fg = ri
			case "pt_grow":
				if len(m.inst[b].pt)+op.N <= ptMax {
					for k := 0; k < op.N; k++ {
						m.inst[b].pt = append(m.inst[b].pt, ri)
					}
				}
			}
		}
		if m.isClosed(b) {
			uac("host-call-on-closed-instance")
			op.EntryCl, op.ClosedBefore = true, true
		}
		op.RelClose = m.relatedClosed(b, nil) || m.relatedClosed(a, nil)
	case "call", "callheld":
		op.Observe = true
		id := op.Inst
		s := m.spec(id)
		name := op.Name
		if op.Kind == "callheld" {
			name = "" // only pt_call(0) dereferences anything
			if op.N < len(m.heldNames) && m.heldNames[op.N] == "pt_call" {
				name = "pt_call" // Args are empty: index 0
			}
			uacHeld := m.isClosed(id) || !m.inst[id].ref
			if uacHeld {
				uac("held-function-of-closed-or-dropped-instance")
			}
		}
		if m.isClosed(id) {
			uac("host-call-on-closed-instance")
			op.EntryCl, op.ClosedBefore = true, true
			if g.h.EnsureTerm {
				// rejected at function entry (see passref): nothing is dereferenced, stored or passed to host.act
				name = "(rejected at entry)"
				op.Mutates = true // whatever the twin's call stored is missing here: the parent stops comparing this instance with the twin
			}
		}
		arg := func(i int) int {
			if i < len(op.Args) {
				return int(op.Args[i])
			}
			return 0
		}
		imported := func(cat string, slot int) int {
			j := m.named[m.inst[id].rt][slot]
			if j >= 0 && m.isClosed(j) {
				uac(cat)
			}
			return j
		}
		// sub-ops run inside host.act: apply them with the entry instance as an extra root
		applySubs := func(roots ...int) {
			for i := range op.Sub {
				sub := &op.Sub[i]
				if sub.Kind == "call" {
					sub.Observe = true
					sub.Mutates = sub.Name == "xg_call"
					if m.isClosed(sub.Inst) {
						uac("host-call-on-closed-instance")
						sub.EntryCl, sub.ClosedBefore = true, true
					}
					continue
				}
				m.applyLifecycle(sub, roots...)
			}
			if m.isClosed(id) {
				op.EntryCl = true
			}
		}
		funcrefUse := func(ri refInfo, holder int) {
			stale(ri, holder)
			if ri.prod >= 0 && ri.prod != holder && m.isClosed(ri.prod) {
				uac("funcref-of-closed-instance:" + ri.channel)
			}
		}
		switch name {
		case "pt_call":
			if ri, ok := m.slotRef(id, "pt", arg(0)); ok {
				funcrefUse(ri, id)
			}
		case "pt_copy_call":
			if ri, ok := m.slotRef(id, "pt", arg(0)); ok {
				funcrefUse(ri, id)
				m.setSlot(id, "pt", arg(1), ri)
				op.Mutates = true
			}
		case "fg_call":
			funcrefUse(m.inst[id].fg, id)
			m.setSlot(id, "pt", 3, m.inst[id].fg)
			op.Mutates = true
		case "xg_call":
			m.setSlot(id, "pt", 2, refInfo{prod: id, which: 1, channel: "own"})
			op.Mutates = true
		case "ig_call":
			j := m.named[m.inst[id].rt][s.ImpGlobal]
			ri := refInfo{prod: j, which: 1, channel: "imported-global"}
			funcrefUse(ri, id)
			m.setSlot(id, "pt", 2, ri)
			op.Mutates = true
		case "st_call":
			if ri, ok := m.slotRef(id, "st", arg(0)); ok {
				funcrefUse(ri, id)
			}
		case "st_sum":
			for i := 0; i < arg(1); i++ {
				if ri, ok := m.slotRef(id, "st", arg(0)+i); ok {
					funcrefUse(ri, id)
				}
			}
		case "call_imp", "call_impmk":
			imported("imported-function-of-closed-instance", s.ImpFunc)
		case "mk_set":
			op.Mutates = true
		case "mem_rw", "mem_grow":
			if s.ImpMem >= 0 {
				imported("imported-memory-of-closed-instance", s.ImpMem)
			}
			op.Mutates = name == "mem_grow" // mem_rw reads back what it wrote itself
		case "gi_set":
			op.Mutates = true
		case "do_act": // mem[0] is written before host.act and only read back in the same call: no lasting state
			applySubs(id)
			if len(op.Sub) > 0 && op.EntryCl {
				uac("in-flight:entry-module-closed")
			}
			if ri, ok := m.slotRef(id, "pt", arg(1)); ok {
				funcrefUse(ri, id)
			}
			if s.ImpFunc >= 0 {
				imported("imported-function-of-closed-instance", s.ImpFunc)
			}
		case "chain":
			j := m.named[m.inst[id].rt][s.ImpFunc]
			applySubs(id)
			if len(op.Sub) > 0 && op.EntryCl {
				uac("in-flight:entry-module-closed")
			}
			if j >= 0 {
				if m.isClosed(j) {
					uac("in-flight-or-later:imported-callee-closed")
				}
				if ri, ok := m.slotRef(j, "pt", arg(1)); ok {
					funcrefUse(ri, j)
				}
				if js := m.spec(j); js.ImpFunc >= 0 {
					if jj := m.named[m.inst[j].rt][js.ImpFunc]; jj >= 0 && m.isClosed(jj) {
						uac("imported-function-of-closed-instance")
					}
				}
			}
		case "pt_call2":
			ri, ok := m.slotRef(id, "pt", arg(0))
			if ok && ri.which == 3 && ri.prod >= 0 {
				p := ri.prod
				funcrefUse(ri, id)
				applySubs(id) // the callee's instance is NOT a root: nothing but the raw reference points at it
				if p != id {
					if m.staleRef(ri, id) && len(op.Stale) == 0 {
						op.Stale = append(op.Stale, ri.channel)
					}
					if m.isClosed(p) {
						uac("in-flight:funcref-callee-closed:" + ri.channel)
					}
				}
				if ri2, ok2 := m.slotRef(p, "pt", arg(2)); ok2 {
					funcrefUse(ri2, p)
				}
			} else if ok {
				funcrefUse(ri, id) // type mismatch or null: record is still read
			}
		}
		op.RelClose = m.relatedClosed(id, used)
	case "lookup":
		op.Observe = true
		id := op.Inst
		s := m.spec(id)
		table := "pt"
		if s.hasST() && op.N == 0 {
			table = "st"
		}
		if ri, ok := m.slotRef(id, table, op.Idx); ok {
			stale(ri, id)
			if ri.prod >= 0 && ri.prod != id && m.isClosed(ri.prod) {
				uac("funcref-of-closed-instance:" + ri.channel)
			}
		}
		if m.isClosed(id) {
			uac("host-call-on-closed-instance")
			op.EntryCl, op.ClosedBefore = true, true
		}
		op.RelClose = m.relatedClosed(id, used)
	case "memapi":
		op.Observe = true
		if m.isClosed(op.Inst) {
			uac("host-read-on-closed-instance")
			op.EntryCl, op.ClosedBefore = true, true
		}
		op.RelClose = m.relatedClosed(op.Inst, nil)
	case "gread":
		op.Observe = true
		if m.isClosed(op.Inst) {
			uac("host-read-on-closed-instance")
			op.EntryCl, op.ClosedBefore = true, true
		}
		op.RelClose = m.relatedClosed(op.Inst, nil)
	case "hold":
		m.inst[op.Inst].held++
		m.heldList = append(m.heldList, op.Inst)
		m.heldNames = append(m.heldNames, op.Name)
	default:
		m.applyLifecycle(op)
	}
	if len(op.Stale) > 0 {
		m.tainted = true
	}
	for _, ri := range used {
		if ri.prod >= 0 && ri.prod != op.Inst {
			op.Deps = append(op.Deps, ri.prod)
		}
	}
}

// ManualHistory builds the minimal hand-written history for one funcref
// channel (reproducers of the known defect; also used by replay).
func ManualHistory(channel string, compiler bool) *History {
	h := &History{Seed: 1, Compiler: compiler, Small: true, NRT: 1, CacheKind: "none"}
	a := ModSpec{K: 1, ImpFunc: -1, ImpTable: -1, ImpGlobal: -1, ImpMem: -1}
	b := ModSpec{K: 2, ImpFunc: -1, ImpTable: -1, ImpGlobal: -1, ImpMem: -1}
	var pass, use Op
	switch channel {
	case "private-table":
		pass = Op{Kind: "passref", From: 0, Inst: 1, Which: 0, Channel: "pt_set", Idx: 2}
		use = Op{Kind: "call", Inst: 1, Name: "pt_call", Args: []uint64{2}}
	case "global":
		pass = Op{Kind: "passref", From: 0, Inst: 1, Which: 0, Channel: "fg_set"}
		use = Op{Kind: "call", Inst: 1, Name: "fg_call"}
	case "table-grow":
		pass = Op{Kind: "passref", From: 0, Inst: 1, Which: 0, Channel: "pt_grow", N: 1}
		use = Op{Kind: "call", Inst: 1, Name: "pt_call", Args: []uint64{ptMin}}
	case "shared-table": // B owns and exports the table, A is not involved in it
		b.ExportTable = true
		pass = Op{Kind: "passref", From: 0, Inst: 1, Which: 0, Channel: "st_set", Idx: 2}
		use = Op{Kind: "call", Inst: 1, Name: "st_call", Args: []uint64{2}}
	case "imported-global":
		b.ImpGlobal = 0
		use = Op{Kind: "call", Inst: 1, Name: "ig_call"}
	case "lookup":
		pass = Op{Kind: "passref", From: 0, Inst: 1, Which: 0, Channel: "pt_set", Idx: 2}
		use = Op{Kind: "lookup", Inst: 1, N: 0, Idx: 2}
	case "in-flight":
		pass = Op{Kind: "passref", From: 0, Inst: 1, Which: 3, Channel: "pt_set", Idx: 2}
		use = Op{Kind: "call", Inst: 1, Name: "pt_call2", Args: []uint64{2, 5, 0},
			Sub: []Op{{Kind: "closemod", Inst: 0}, {Kind: "closecomp", RT: 0, Slot: 0}, {Kind: "drop", Inst: 0}, {Kind: "dropcomp", RT: 0, Slot: 0}, {Kind: "gc"}}}
	case "private-memory":
		// A's memory is private (not exported); B imports A's functions and A's table: after A is closed, dropped
		// and collected around, A's functions must still see the marker and accept writes
		a.PrivMem, a.ExportTable = true, true
		b.ImpFunc, b.ImpTable = 0, 0
		h.Mods = []ModSpec{a, b}
		g := &gen{h: h, m: newModel(h)}
		uses := []Op{{Kind: "call", Inst: 1, Name: "call_impmk"}, {Kind: "call", Inst: 1, Name: "st_call", Args: []uint64{1}},
			{Kind: "call", Inst: 1, Name: "chain", Args: []uint64{5, 0}}}
		steps := []Op{{Kind: "compile", Slot: 0}, {Kind: "inst", Slot: 0, Inst: 0, Name: "m0"}, {Kind: "compile", Slot: 1}, {Kind: "inst", Slot: 1, Inst: 1, Name: "m1"},
			{Kind: "call", Inst: 0, Name: "mk_set", Args: []uint64{77}}}
		steps = append(steps, uses...)
		steps = append(steps, Op{Kind: "call", Inst: 1, Name: "chain", Args: []uint64{6, 0}, Sub: []Op{{Kind: "closemod", Inst: 0}, {Kind: "gc"}}}, // closed in flight
			Op{Kind: "drop", Inst: 0}, Op{Kind: "gc"}, Op{Kind: "churn", N: 600}, Op{Kind: "gc"})
		steps = append(steps, uses...)
		for _, op := range steps {
			g.emit(op)
		}
		h.NInst = len(g.m.inst)
		return h
	case "allocator-importer-close", "allocator-importer-fails":
		// custom MemoryAllocator: B only imports A's memory; closing B (or B failing to instantiate) must not free it
		h.Alloc = true
		a.ExportTable = true
		if channel == "allocator-importer-close" {
			b.ImpMem = 0
		} else {
			b = ModSpec{K: 2, ImpFunc: -1, ImpGlobal: -1, ImpMem: 0, ImpTable: 0, Fail: 1, FailIdx: 2}
		}
		h.Mods = []ModSpec{a, b}
		g := &gen{h: h, m: newModel(h)}
		steps := []Op{{Kind: "compile", Slot: 0}, {Kind: "inst", Slot: 0, Inst: 0, Name: "m0"}, {Kind: "call", Inst: 0, Name: "mk_set", Args: []uint64{77}},
			{Kind: "compile", Slot: 1}, {Kind: "inst", Slot: 1, Inst: 1, Name: "m1"}}
		if channel == "allocator-importer-close" {
			steps = append(steps, Op{Kind: "call", Inst: 1, Name: "mem_rw", Args: []uint64{5}}, Op{Kind: "closemod", Inst: 1}, Op{Kind: "drop", Inst: 1})
		}
		steps = append(steps, Op{Kind: "gc"}, Op{Kind: "churn", N: 300}, Op{Kind: "call", Inst: 0, Name: "mk"}, Op{Kind: "call", Inst: 0, Name: "mem_grow", Args: []uint64{1}},
			Op{Kind: "memapi", Inst: 0, N: 9}, Op{Kind: "call", Inst: 0, Name: "mem_rw", Args: []uint64{7}})
		for _, op := range steps {
			g.emit(op)
		}
		h.NInst = len(g.m.inst)
		return h
	case "concurrent-importers":
		a.ExportTable = true
		h.Mods = []ModSpec{a, {K: 2, ImpFunc: -1, ImpGlobal: -1, ImpMem: 0, ImpTable: 0, Conc: true}}
		g := &gen{h: h, m: newModel(h)}
		sum := Op{Kind: "call", Inst: 0, Name: "st_sum", Args: []uint64{4, 12}}
		ci := Op{Kind: "concinst", Slot: 1, N: 12, Idx: 4, Inst: 1}
		var victims []uint64
		for i := 0; i < 12; i++ {
			ci.Args = append(ci.Args, 1)
			if i != 5 {
				victims = append(victims, uint64(1+i))
			}
		}
		for _, op := range []Op{{Kind: "compile", Slot: 0}, {Kind: "inst", Slot: 0, Inst: 0, Name: "m0"}, {Kind: "compile", Slot: 1}, ci, sum,
			{Kind: "closemany", Args: victims}, {Kind: "dropmany", Args: victims}, {Kind: "closecomp", Slot: 1}, {Kind: "dropcomp", Slot: 1},
			{Kind: "gc"}, {Kind: "churn", N: 600}, {Kind: "gc"}, sum, {Kind: "call", Inst: 6, Name: "st_sum", Args: []uint64{4, 12}}} {
			g.emit(op)
		}
		h.NInst = len(g.m.inst)
		return h
	case "shared-compiled", "shared-compiled-twice":
		// two users of one binary's engine entry restored from a WARM directory cache (two runtimes sharing the cache
		// object / one runtime compiling twice); the first user closes its CompiledModule, the other must keep working
		h.Mods = []ModSpec{a}
		h.CacheKind, h.Cache = "dir-warm", true
		g := &gen{h: h, m: newModel(h)}
		var steps []Op
		trap := Op{Kind: "call", Inst: 1, Name: "pt_call", Args: []uint64{3}}
		if channel == "shared-compiled" {
			h.NRT, h.TwoRT = 2, true
			steps = []Op{{Kind: "compile", RT: 0, Slot: 0}, {Kind: "compile", RT: 1, Slot: 0}, {Kind: "inst", RT: 0, Slot: 0, Inst: 0, Name: "m0"},
				{Kind: "inst", RT: 1, Slot: 0, Inst: 1, Name: "m0"}, {Kind: "closecomp", RT: 0, Slot: 0}, {Kind: "gc"},
				{Kind: "inst", RT: 1, Slot: 0, Inst: 2, Name: ""}, {Kind: "call", Inst: 2, Name: "tramp", Args: []uint64{300}}, trap,
				{Kind: "closemod", Inst: 0}, {Kind: "drop", Inst: 0}, {Kind: "closert", RT: 0}, {Kind: "gc"},
				{Kind: "inst", RT: 1, Slot: 0, Inst: 3, Name: ""}, {Kind: "call", Inst: 3, Name: "do_act", Args: []uint64{5, 0}}, trap}
		} else {
			h.NRT = 1
			steps = []Op{{Kind: "compile", Slot: 0}, {Kind: "compile", Slot: 0, H: 1}, {Kind: "inst", Slot: 0, Inst: 0, Name: "m0"},
				{Kind: "inst", Slot: 0, H: 1, Inst: 1, Name: ""}, {Kind: "closecomp", Slot: 0}, {Kind: "gc"},
				{Kind: "inst", Slot: 0, H: 1, Inst: 2, Name: ""}, {Kind: "call", Inst: 2, Name: "tramp", Args: []uint64{300}}, trap,
				{Kind: "call", Inst: 0, Name: "do_act", Args: []uint64{5, 0}}}
		}
		for _, op := range steps {
			g.emit(op)
		}
		h.NInst = len(g.m.inst)
		return h
	case "engine-close", "engine-close-inflight":
		// every CompiledModule (and the host module) is closed while instance #0 stays open, then the engine is
		// closed - through the cache, or through Runtime.Close inside host.act with #0's caller on the stack -
		// and #0 goes on using the engine-wide shared trampolines and new api.Function objects
		h.Mods = []ModSpec{a}
		g := &gen{h: h, m: newModel(h)}
		steps := []Op{{Kind: "compile", Slot: 0}, {Kind: "inst", Slot: 0, Inst: 0, Name: "m0"}, {Kind: "call", Inst: 0, Name: "tramp", Args: []uint64{900}}}
		closes := []Op{{Kind: "closecomp", Slot: 0}, {Kind: "closehost"}}
		after := []Op{{Kind: "call", Inst: 0, Name: "tramp", Args: []uint64{900}}, {Kind: "call", Inst: 0, Name: "mem_grow", Args: []uint64{1}},
			{Kind: "passref", From: 0, Inst: 0, Which: 1, Channel: "pt_grow", N: 1}, {Kind: "call", Inst: 0, Name: "do_act", Args: []uint64{5, 0}},
			{Kind: "call", Inst: 0, Name: "pt_call", Args: []uint64{4}}}
		if channel == "engine-close" {
			h.Cache, h.CacheKind = true, "mem"
			steps = append(append(append(steps, closes...), Op{Kind: "closecache"}, Op{Kind: "gc"}), after...)
		} else {
			steps = append(steps, Op{Kind: "call", Inst: 0, Name: "do_act", Args: []uint64{5, 0},
				Sub: append(append([]Op(nil), closes...), Op{Kind: "closert"}, Op{Kind: "gc"})})
			steps = append(steps, after[:2]...)
		}
		for _, op := range steps {
			g.emit(op)
		}
		h.NInst = len(g.m.inst)
		return h
	case "failed-instantiation", "failed-instantiation-exit":
		// A owns and exports the table; F imports it, writes [ff0 ff1] at 2 through its active element segment, then its start function fails
		a.ExportTable = true
		f := ModSpec{K: 2, ImpFunc: -1, ImpTable: 0, ImpGlobal: -1, ImpMem: -1, Fail: 1, FailIdx: 2}
		if channel == "failed-instantiation-exit" {
			f.Fail = 2
		}
		h.Mods = []ModSpec{a, f}
		use := Op{Kind: "call", Inst: 0, Name: "st_call", Args: []uint64{2}}
		use2 := Op{Kind: "lookup", Inst: 0, N: 0, Idx: 3}
		g := &gen{h: h, m: newModel(h)}
		for _, op := range []Op{{Kind: "compile", Slot: 0}, {Kind: "inst", Slot: 0, Inst: 0, Name: "m0"}, {Kind: "compile", Slot: 1},
			{Kind: "inst", Slot: 1, Inst: 1, Name: "m1"}, use, use2, {Kind: "closecomp", Slot: 1}, {Kind: "dropcomp", Slot: 1},
			{Kind: "gc"}, {Kind: "churn", N: 300}, {Kind: "gc"}, use, use2} {
			g.emit(op)
		}
		h.NInst = len(g.m.inst)
		return h
	default:
		return nil
	}
	h.Mods = []ModSpec{a, b}
	steps := []Op{{Kind: "compile", Slot: 0}, {Kind: "inst", Slot: 0, Inst: 0, Name: "m0"}, {Kind: "compile", Slot: 1}, {Kind: "inst", Slot: 1, Inst: 1, Name: "m1"}}
	if pass.Kind != "" {
		steps = append(steps, pass)
	}
	steps = append(steps, use) // while A is alive
	if channel != "in-flight" {
		steps = append(steps, Op{Kind: "closemod", Inst: 0}, Op{Kind: "closecomp", Slot: 0}, Op{Kind: "drop", Inst: 0}, Op{Kind: "dropcomp", Slot: 0},
			Op{Kind: "gc"}, Op{Kind: "churn", N: 300}, use)
	}
	g := &gen{h: h, m: newModel(h)}
	for _, op := range steps {
		if op.Kind == "call" && len(op.Sub) > 0 {
			op.Sub = append([]Op(nil), op.Sub...)
		}
		g.emit(op)
	}
	h.NInst = len(g.m.inst)
	return h
}
