package c09

import (
	"context"
	"fmt"
	"runtime"
	"sync"
	"sync/atomic"

	"github.com/tetratelabs/wazero"
	"github.com/tetratelabs/wazero/api"
	"github.com/tetratelabs/wazero/verifharness/core"
)

// concurrent sample (race-detector flavour of the binary): one goroutine keeps
// calling a live instance B that imports a function, the shared table, a
// funcref global and the memory of A, while other goroutines close A and its
// compiled module, create and close sibling instances and compiled modules of
// the same binaries, and force collections. B holds only references wazero is
// designed to keep alive, so every result has a fixed expected value.

type concCase struct {
	Seed     uint64 `json:"seed"`
	Compiler bool   `json:"compiler"`
}

type concOut struct {
	Calls    int      `json:"calls"`
	Closes   int      `json:"closes"`
	Insts    int      `json:"insts"`
	GCs      int      `json:"gcs"`
	Wrong    []string `json:"wrong,omitempty"` // "<export>: got <x> want <y>"
	SetupErr string   `json:"setup_err,omitempty"`
}

func runConc(cc concCase) *concOut {
	out := &concOut{}
	r := core.NewRng(int64(cc.Seed), 77)
	ctx := context.Background()
	var rc wazero.RuntimeConfig
	if cc.Compiler {
		rc = wazero.NewRuntimeConfigCompiler()
	} else {
		rc = wazero.NewRuntimeConfigInterpreter()
	}
	var cache wazero.CompilationCache
	if r.Chance(1, 3) {
		cache = wazero.NewCompilationCache()
		rc = rc.WithCompilationCache(cache)
	}
	rt := wazero.NewRuntimeWithConfig(ctx, rc)
	defer func() {
		rt.Close(ctx)
		if cache != nil {
			cache.Close(ctx)
		}
	}()
	if _, err := rt.NewHostModuleBuilder("host").NewFunctionBuilder().
		WithGoModuleFunction(api.GoModuleFunc(func(context.Context, api.Module, []uint64) {}), []api.ValueType{api.ValueTypeI32}, nil).
		Export("act").Instantiate(ctx); err != nil {
		out.SetupErr = err.Error()
		return out
	}
	ka, kb, kd := 1+r.Intn(80), 1+r.Intn(80), 1+r.Intn(80)
	specA := ModSpec{K: ka, ImpFunc: -1, ImpTable: -1, ImpGlobal: -1, ImpMem: -1, ExportTable: true}
	specB := ModSpec{K: kb, ImpFunc: 0, ImpTable: 0, ImpGlobal: 0, ImpMem: 0}
	specD := ModSpec{K: kd, ImpFunc: 0, ImpTable: -1, ImpGlobal: -1, ImpMem: -1}
	binA, binB, binD := buildModule(specA), buildModule(specB), buildModule(specD)
	cmA, err := rt.CompileModule(ctx, binA)
	if err != nil {
		out.SetupErr = err.Error()
		return out
	}
	modA, err := rt.InstantiateModule(ctx, cmA, wazero.NewModuleConfig().WithName("m0"))
	if err != nil {
		out.SetupErr = err.Error()
		return out
	}
	cmB, err := rt.CompileModule(ctx, binB)
	if err != nil {
		out.SetupErr = err.Error()
		return out
	}
	modB, err := rt.InstantiateModule(ctx, cmB, wazero.NewModuleConfig().WithName("mB"))
	if err != nil {
		out.SetupErr = err.Error()
		return out
	}
	cmD, err := rt.CompileModule(ctx, binD)
	if err != nil {
		out.SetupErr = err.Error()
		return out
	}
	nCalls := 150 + r.Intn(150)
	closeAt := int32(r.Intn(nCalls))
	closeCompAt := int32(r.Intn(nCalls))
	var progress atomic.Int32
	var mu sync.Mutex
	var wg sync.WaitGroup
	var stop, sibDone atomic.Bool
	var closes, insts, gcs atomic.Int32
	// --- the caller of the live instance ---
	wg.Add(1)
	go func() {
		defer wg.Done()
		defer stop.Store(true)
		a100 := uint64(100 * ka)
		type call struct {
			name string
			args []uint64
			want uint64
		}
		n5 := uint64(5)
		calls := []call{
			{"call_imp", nil, a100 + 1},
			{"st_call", []uint64{0}, a100 + 1},
			{"ig_call", nil, a100 + 1},
			{"xg_call", nil, uint64(100*kb) + 1},
			{"mem_rw", []uint64{9}, 9 + 1},
			{"pt_call", []uint64{1}, a100}, // B's own element: ref.func of the imported function
			// chain(5,0) = A.do_act(5,0) + B.f0 = (15+ka) + A.f1 + gi(7) + A.pt[0]() + B.f0
			{"chain", []uint64{n5, 0}, (3*n5 + uint64(ka)) + (a100 + 1) + 7 + a100 + uint64(100*kb)},
		}
		for i := 0; (i < nCalls || !sibDone.Load()) && i < 30000; i++ {
			progress.Store(int32(i))
			c := calls[i%len(calls)]
			res, err := modB.ExportedFunction(c.name).Call(ctx, c.args...)
			out.Calls++
			if err != nil {
				mu.Lock()
				out.Wrong = append(out.Wrong, fmt.Sprintf("%s: %s", c.name, errClass(err)))
				mu.Unlock()
				return
			}
			if uint32(res[0]) != uint32(c.want) {
				mu.Lock()
				out.Wrong = append(out.Wrong, fmt.Sprintf("%s: got %d want %d", c.name, uint32(res[0]), uint32(c.want)))
				mu.Unlock()
				return
			}
			if i%4 == 0 {
				runtime.Gosched()
			}
		}
	}()
	// --- closer of the exporter and of compiled modules ---
	wg.Add(1)
	go func() {
		defer wg.Done()
		doneA, doneC := false, false
		for !stop.Load() && !(doneA && doneC) {
			p := progress.Load()
			if !doneA && p >= closeAt {
				modA.Close(ctx)
				closes.Add(1)
				doneA = true
			}
			if !doneC && p >= closeCompAt {
				cmA.Close(ctx)
				cmB.Close(ctx) // B stays instantiated and live
				closes.Add(2)
				doneC = true
			}
			runtime.Gosched()
		}
	}()
	// --- sibling instances and compiled modules of the same binaries come and go ---
	wg.Add(1)
	go func() {
		defer wg.Done()
		defer sibDone.Store(true)
		for i := 0; !stop.Load() && i < 40; i++ {
			if m, err := rt.InstantiateModule(ctx, cmD, wazero.NewModuleConfig().WithName("")); err == nil {
				insts.Add(1)
				m.ExportedFunction("call_imp").Call(ctx)
				m.Close(ctx)
				closes.Add(1)
			}
			if i%4 == 0 {
				if cm, err := rt.CompileModule(ctx, binB); err == nil { // same binary as the live B
					cm.Close(ctx)
					closes.Add(1)
				}
			}
			runtime.Gosched()
		}
	}()
	// --- collector ---
	wg.Add(1)
	go func() {
		defer wg.Done()
		for !stop.Load() {
			runtime.GC()
			gcs.Add(1)
			runtime.Gosched()
		}
	}()
	wg.Wait()
	out.Closes, out.Insts, out.GCs = int(closes.Load()), int(insts.Load()), int(gcs.Load())
	return out
}
