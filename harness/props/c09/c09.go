// Package c09 decides C09 (closing and collecting modules never endangers live
// ones) with a TWIN + INVARIANCE oracle under the Go runtime's heap sanitizers:
// every PRNG history over a small module graph is executed in four supervised
// child processes - real closes with GODEBUG=clobberfree=1 (R1), real closes
// with the default collector (R2), real closes with GODEBUG=efence=1 (R3, small
// histories) and the twin in which close/drop operations are no-ops (T).
// Observations on instances must equal the twin's or be an ordinary
// closed-module error (*sys.ExitError) where something related was closed, and
// must be identical across R1/R2/R3; a child death is a violation attributed to
// the journaled history and step.
package c09

import (
	"encoding/json"
	"fmt"
	"os"
	"path/filepath"
	"regexp"
	"strconv"
	"strings"
	"time"

	"github.com/tetratelabs/wazero/verifharness/core"
)

var Prop = &core.Prop{ID: "C09", Run: run, Child: child}

type caseRec struct {
	Seed     uint64 `json:"seed"`
	Compiler bool   `json:"compiler"`
	Manual   string `json:"manual,omitempty"` // hand-written minimal history for this funcref channel instead of a generated one
	Avoid    bool   `json:"avoid"`            // generator avoids dereferencing model-stale funcrefs (known defect) so that other defects keep a clean attribution
}

var runModes = []struct {
	name string
	env  []string
}{
	{"T", []string{"C09_RUN=T"}},
	{"R1", []string{"C09_RUN=R1", "GODEBUG=clobberfree=1"}},
	{"R2", []string{"C09_RUN=R2"}},
	{"R3", []string{"C09_RUN=R3", "GODEBUG=efence=1"}},
}

func run(c *core.Ctx) int {
	n := c.N(1500, 40000)
	if v, err := strconv.Atoi(os.Getenv("C09_N")); err == nil && v > 0 { // debugging aid only; ./check never sets it
		n = v
	}
	rng := core.NewRng(c.Seed, 9)
	// two lists: "hazard" histories may dereference stale function references
	// (undefined behaviour from then on): one process per history so that a
	// poisoned heap cannot be blamed on a neighbour; "clean" histories avoid
	// that one known hazard and share processes (richer heaps).
	var lists [2][]json.RawMessage
	var recs [2][]caseRec
	for i := 0; i < n; i++ {
		cr := caseRec{Seed: rng.U64(), Compiler: i%2 == 0, Avoid: (i/2)%2 == 1}
		k := 0
		if cr.Avoid {
			k = 1
		}
		lists[k] = append(lists[k], core.J(cr))
		recs[k] = append(recs[k], cr)
	}
	// fixed minimal histories of the known hazard (one per funcref channel and engine): a sensitivity control in every run
	for _, ch := range []string{"private-table", "global", "table-grow", "shared-table", "imported-global", "lookup", "in-flight", "failed-instantiation", "failed-instantiation-exit", "engine-close", "engine-close-inflight", "shared-compiled", "shared-compiled-twice", "private-memory", "concurrent-importers", "allocator-importer-close", "allocator-importer-fails"} {
		for _, comp := range []bool{false, true} {
			cr := caseRec{Seed: 1, Manual: ch, Compiler: comp}
			lists[0] = append(lists[0], core.J(cr))
			recs[0] = append(recs[0], cr)
		}
	}
	var results [2][4][]core.CaseResult
	for k := 0; k < 2; k++ {
		batch := 1
		if k == 1 {
			batch = 20
		}
		for mi, rm := range runModes {
			opts := core.ChildOpts{Batch: batch, TimeoutS: 240, Env: rm.env, Procs: 1}
			if rm.name == "R3" {
				opts.TimeoutS = 600
			}
			results[k][mi] = core.RunCases(c, "hist", lists[k], opts)
			c.Extra(fmt.Sprintf("phase_%s_%s_s", []string{"hazard", "clean"}[k], rm.name), time.Since(c.Start).Seconds())
		}
	}
	d := &decider{c: c}
	for k := 0; k < 2; k++ {
		for i, cr := range recs[k] {
			var rs [4]*core.CaseResult
			for mi := range runModes {
				rs[mi] = &results[k][mi][i]
			}
			d.decide(cr, lists[k][i], rs)
		}
	}
	evalsConc := runConcSample(c, rng)
	d.evals += evalsConc
	if c.Counter("mappings_unmapped_R2")+c.Counter("mappings_unmapped_R1") == 0 {
		c.Inconclusive("no-code-segment-was-ever-unmapped")
	}
	c.Assume("the twin (same history, closes and drops are no-ops) defines 'as before'; an ordinary error = *sys.ExitError, accepted only where the model says something in the call's dependency closure was closed")
	c.Assume("the reachability model is used for signatures, evidence labels and to keep half of the histories free of the known stale-funcref hazard; verdicts come from twin equality, R1/R2/R3 invariance and process survival only")
	c.Assume("instantiation/compilation failures after closes are outcomes of the closing host, not of a live instance: counted, never a violation; later steps on the missing instance are skipped and instances whose state thereby differs from the twin's are compared across R1/R2/R3 only")
	code := c.Finish(d.evals, int64(c.DistinctN("nontrivial_histories")),
		"PRNG histories (8-40 steps) over 2-4 guest modules (+host module, optional 2nd runtime sharing a CompilationCache) on interpreter/compiler alternately; each history run in 4 child processes (twin, clobberfree=1, default GC, efence=1 for <=14 steps); evaluation = one history decided; non-trivial = performed >=1 real close, >=1 forced GC and >=1 later observation on an instance, distinct by op-kind sequence; plus a -race sample of concurrent closers against a live importing instance (conc_* counters)")
	os.RemoveAll(filepath.Join(c.Out, fmt.Sprintf("cache-%d", os.Getpid()))) // directory-backed compilation caches of this run's children
	if code == 0 {                                                           // only logs of child deaths attributed to known findings are left: no witness refers to them
		// (only this run's files: another run of the check may be using the same directory)
		mine, _ := filepath.Glob(filepath.Join(c.Out, "children", fmt.Sprintf("*-%d-*", os.Getpid())))
		for _, f := range mine {
			os.Remove(f)
		}
	}
	return code
}

// runConcSample: -race flavour, concurrent closers against a live instance.
func runConcSample(c *core.Ctx, rng *core.Rng) int64 {
	raceBin := os.Getenv("VCHECK_RACE_BIN")
	if raceBin == "" {
		c.Inconclusive("race-binary-missing")
		return 0
	}
	n := c.N(200, 4000)
	var cases []json.RawMessage
	for i := 0; i < n; i++ {
		cases = append(cases, core.J(concCase{Seed: rng.U64(), Compiler: i%2 == 0}))
	}
	res := core.RunCases(c, "conc", cases, core.ChildOpts{Bin: raceBin, Batch: 10, TimeoutS: 600, Procs: 4,
		Env: []string{"GORACE=halt_on_error=0 exitcode=0"}})
	c.Extra("phase_conc_s", time.Since(c.Start).Seconds())
	evals := int64(0)
	for _, r := range res {
		if r.Crash != nil {
			switch r.Crash.Kind {
			case "race":
				logb, _ := os.ReadFile(r.Crash.Log)
				for key, rep := range core.RaceReports(logb) {
					key = strings.ReplaceAll(key, "github.com/tetratelabs/wazero", "wazero")
					c.Violate("race:"+key, rep, map[string]any{"case": cases[r.Index], "mode": "conc", "report": rep})
				}
				c.Count("conc_race_reports", 1)
			case "timeout":
				c.Inconclusive("watchdog-conc")
				continue
			default:
				c.Violate("crash:conc:"+r.Crash.Kind+":"+crashWords(r.Crash.Detail), r.Crash.Detail, map[string]any{"case": cases[r.Index], "crash": r.Crash})
				continue
			}
		}
		var o concOut
		if r.Out == nil || json.Unmarshal(r.Out, &o) != nil {
			c.Inconclusive("bad-child-output-conc")
			continue
		}
		if o.SetupErr != "" {
			c.Inconclusive("conc-setup-failed")
			continue
		}
		evals++
		c.Count("conc_histories", 1)
		c.Count("conc_live_calls", int64(o.Calls))
		c.Count("conc_closes", int64(o.Closes))
		c.Count("conc_sibling_instantiations", int64(o.Insts))
		c.Count("conc_gcs", int64(o.GCs))
		for _, w := range o.Wrong {
			name := w
			if i := strings.IndexByte(w, ':'); i > 0 {
				name = w[:i]
			}
			c.Violate("conc:live-instance-call-fails-or-differs:"+name, w, map[string]any{"case": cases[r.Index], "wrong": o.Wrong})
		}
	}
	return evals
}

type decider struct {
	c     *core.Ctx
	evals int64
}

var debugOn = os.Getenv("C09_DEBUG") != ""

var reDigits = regexp.MustCompile(`[0-9]+`)

var reStep = regexp.MustCompile(`C09STEP (\d+) (\d+)`)

// lastStep finds the last step the child journaled for this history.
func lastStep(logPath string, seed uint64) int {
	b, err := os.ReadFile(logPath)
	if err != nil {
		return -1
	}
	last := -1
	for _, m := range reStep.FindAllSubmatch(b, -1) {
		if s, _ := strconv.ParseUint(string(m[1]), 10, 64); s == seed {
			last, _ = strconv.Atoi(string(m[2]))
		}
	}
	return last
}

func engineName(compiler bool) string {
	if compiler {
		return "compiler"
	}
	return "interpreter"
}

func obsClass(o string) string {
	switch {
	case strings.HasPrefix(o, "ok"):
		return "ok"
	case strings.HasPrefix(o, "ref;"):
		return "ref;" + obsClass(o[4:])
	case strings.HasPrefix(o, "getref:"):
		return "getref:" + obsClass(o[7:])
	case strings.HasPrefix(o, "exit:"):
		return "exit"
	case strings.HasPrefix(o, "trap:"), strings.HasPrefix(o, "panic:"), strings.HasPrefix(o, "err:"):
		return reDigits.ReplaceAllString(strings.ReplaceAll(o, " ", "_"), "N")
	case strings.HasPrefix(o, "skip"):
		return "skipped"
	case o == "":
		return "none"
	}
	return strings.ReplaceAll(o, " ", "_")
}

func isExit(o string) bool {
	return strings.HasPrefix(o, "exit:") || strings.HasPrefix(o, "getref:exit:") || strings.HasPrefix(o, "ref;exit:")
}

func opName(o *Op) string {
	switch o.Kind {
	case "call":
		return "call." + o.Name
	case "passref":
		return "passref." + o.Channel
	case "gread":
		return "gread." + o.Name
	case "memapi":
		return "memapi"
	}
	return o.Kind
}

func firstStale(h *History, upto int) string {
	for i := 0; i <= upto && i < len(h.Steps); i++ {
		if len(h.Steps[i].Stale) > 0 {
			return h.Steps[i].Stale[0]
		}
	}
	return ""
}

// sigFor: narrow root-cause signature for a failure observed at step s.
func (d *decider) sigFor(h *History, s int, generic string) string {
	if s >= 0 && s < len(h.Steps) {
		st := &h.Steps[s]
		if len(st.Stale) > 0 {
			return "funcref-outlives-defining-instance:" + st.Stale[0]
		}
		if st.Tainted {
			d.c.Count("failures_attributed_to_earlier_stale_funcref_use", 1)
			return "funcref-outlives-defining-instance:" + firstStale(h, s)
		}
	} else if ch := firstStale(h, len(h.Steps)); ch != "" { // failure during teardown of a tainted history
		d.c.Count("failures_attributed_to_earlier_stale_funcref_use", 1)
		return "funcref-outlives-defining-instance:" + ch
	}
	return generic
}

func crashWords(s string) string {
	s = strings.ReplaceAll(s, "\n", " ")
	var out []string
	for _, w := range strings.Fields(s) {
		if strings.HasPrefix(w, "0x") || strings.HasPrefix(w, "addr=") || strings.HasPrefix(w, "pc=") {
			continue
		}
		out = append(out, w)
		if len(out) >= 6 {
			break
		}
	}
	return strings.Join(out, "_")
}

func histLines(h *History, mark int) []string {
	out := []string{fmt.Sprintf("engine=%s runtimes=%d cache=%s close_on_context_done=%v avoid_known=%v", engineName(h.Compiler), max(h.NRT, 1), h.CacheKind, h.EnsureTerm, h.AvoidKnown)}
	for i, s := range h.Mods {
		out = append(out, fmt.Sprintf("module m%d: %+v", i, s))
	}
	for i := range h.Steps {
		m := "  "
		if i == mark {
			m = "=>"
		}
		out = append(out, fmt.Sprintf("%s %2d %s", m, i, h.Steps[i].String()))
	}
	return out
}

// instance dependency closure by specs (import edges and shared tables).
type graph struct {
	h     *History
	meta  []struct{ rt, slot int }
	named [maxRT]map[int]int
}

func newGraph(h *History) *graph {
	g := &graph{h: h, meta: make([]struct{ rt, slot int }, h.NInst)}
	for r := range g.named {
		g.named[r] = map[int]int{}
	}
	for _, s := range h.Steps {
		if s.Kind == "concinst" {
			for i := 0; i < s.N; i++ {
				g.meta[s.Inst+i] = struct{ rt, slot int }{s.RT, int(s.Args[i])}
			}
		}
		if s.Kind == "inst" {
			g.meta[s.Inst] = struct{ rt, slot int }{s.RT, s.Slot}
			if s.Name != "" {
				g.named[s.RT][s.Slot] = s.Inst
			}
		}
	}
	return g
}

func (g *graph) tableOwner(id int) int {
	sp := g.h.Mods[g.meta[id].slot]
	if sp.ExportTable {
		return id
	}
	if sp.ImpTable >= 0 {
		if o, ok := g.named[g.meta[id].rt][sp.ImpTable]; ok {
			return o
		}
	}
	return -1
}

func (g *graph) deps(id int) map[int]bool {
	seen := map[int]bool{}
	var walk func(i int)
	walk = func(i int) {
		if seen[i] {
			return
		}
		seen[i] = true
		sp := g.h.Mods[g.meta[i].slot]
		for _, slot := range []int{sp.ImpFunc, sp.ImpMem, sp.ImpTable, sp.ImpGlobal} {
			if slot >= 0 {
				if j, ok := g.named[g.meta[i].rt][slot]; ok {
					walk(j)
				}
			}
		}
		if o := g.tableOwner(i); o >= 0 {
			for j := range g.meta {
				if g.tableOwner(j) == o {
					walk(j)
				}
			}
		}
	}
	walk(id)
	return seen
}

func (cr caseRec) history() *History {
	if cr.Manual != "" {
		return ManualHistory(cr.Manual, cr.Compiler)
	}
	return GenHistory(cr.Seed, cr.Compiler, cr.Avoid)
}

func (d *decider) decide(cr caseRec, raw json.RawMessage, rs [4]*core.CaseResult) {
	c := d.c
	h := cr.history()
	eng := engineName(h.Compiler)
	var outs [4]*childOut
	crashed := false
	for mi, r := range rs {
		mode := runModes[mi].name
		if r.Crash != nil {
			if r.Crash.Kind == "timeout" {
				c.Inconclusive("watchdog-" + mode)
				continue
			}
			step := lastStep(r.Crash.Log, cr.Seed)
			opn := "teardown"
			if step >= 0 && step < len(h.Steps) {
				opn = opName(&h.Steps[step])
			} else if step < 0 {
				opn = "setup"
			}
			generic := fmt.Sprintf("crash:%s:%s:%s:%s:%s", modeClass(mode), eng, opn, r.Crash.Kind, crashWords(r.Crash.Detail))
			sig := generic
			if mode != "T" {
				sig = d.sigFor(h, step, generic)
			}
			c.Count("child_deaths_"+mode, 1)
			c.Count("divergences", 1)
			c.Violate(sig, fmt.Sprintf("child died in run %s (%s) at step %d (%s): %s", mode, strings.Join(runModes[mi].env, " "), step, opn, r.Crash.Detail),
				map[string]any{"case": raw, "run": mode, "env": runModes[mi].env, "crash": r.Crash, "died_at_step": step, "history": histLines(h, step),
					"replay": "vcheck replay <this file> re-runs the history in all four modes"})
			crashed = true
			continue
		}
		var o childOut
		if json.Unmarshal(r.Out, &o) != nil {
			c.Inconclusive("bad-child-output-" + mode)
			continue
		}
		if o.Skipped {
			continue
		}
		if len(o.AllocViol) > 0 {
			v := o.AllocViol[0]
			c.Count("allocator_frees_while_defining_instance_open", int64(len(o.AllocViol)))
			c.Count("divergences", 1)
			sigp := "allocator:memory-freed-while-defining-instance-live:"
			if v.Kind != "defining-instance-live" {
				sigp = "allocator:memory-freed-on-owner-close-while-imported-by-live-instance:"
			}
			c.Violate(sigp+v.How, fmt.Sprintf("run %s: %s", mode, v.Detail),
				map[string]any{"case": raw, "run": mode, "env": runModes[mi].env, "violations": o.AllocViol, "history": histLines(h, v.Step)})
			crashed = true // decided: do not also compare this run
			continue
		}
		if len(o.Obs) != len(h.Steps) {
			c.Inconclusive("obs-length-mismatch-" + mode)
			continue
		}
		outs[mi] = &o
	}
	d.evals++
	c.Count("histories", 1)
	c.Count("histories_"+eng, 1)
	if h.AvoidKnown {
		c.Count("histories_avoiding_known_hazard", 1)
	}
	c.Count("histories_cache_"+h.CacheKind, 1)
	c.Count(fmt.Sprintf("histories_%d_runtimes", max(h.NRT, 1)), 1)
	if h.EnsureTerm {
		c.Count("histories_close_on_context_done", 1)
	}
	if h.Alloc {
		c.Count("histories_custom_memory_allocator", 1)
	}
	T := outs[0]
	if T == nil {
		if !crashed {
			c.Inconclusive("no-twin")
		}
		return
	}
	for mi := 1; mi < 4; mi++ {
		if o := outs[mi]; o != nil {
			mode := runModes[mi].name
			c.Count("runs_"+mode, 1)
			c.Count("mappings_unmapped_"+mode, int64(o.Unmapped))
			if mode == "R2" {
				for k, v := range o.Counters {
					c.Count(k, int64(v))
				}
			}
		}
	}
	c.Count("mappings_unmapped_T", int64(T.Unmapped))
	g := newGraph(h)
	// ---- twin comparison per real run ----
	violated := false
	for mi := 1; mi < 4 && !violated; mi++ {
		X := outs[mi]
		if X == nil {
			continue
		}
		mode := runModes[mi].name
		desync := map[int]bool{}
		markDesync := func(op *Op) {
			if debugOn {
				c.Count("dbg_markdesync_"+opName(op), 1)
			}
			ids := []int{op.Inst}
			if op.Kind == "passref" && op.Channel == "st_set" {
				if o := g.tableOwner(op.Inst); o >= 0 {
					for j := range g.meta {
						if g.tableOwner(j) == o {
							ids = append(ids, j)
						}
					}
				}
			}
			if op.Name == "mem_grow" {
				for j := range g.meta { // shared memories: be conservative
					ids = append(ids, j)
				}
			}
			for _, j := range ids {
				desync[j] = true
			}
		}
		for s := range h.Steps {
			op := &h.Steps[s]
			if !op.Observe && op.Kind != "inst" {
				continue
			}
			tp, xp := strings.Split(T.Obs[s], obsSep), strings.Split(X.Obs[s], obsSep)
			if op.Kind == "inst" {
				if tp[0] != xp[0] && h.Mods[op.Slot].Fail > 0 {
					// the twin's failing instantiation wrote the shared table, the real one failed earlier (or vice versa)
					if o := g.tableOwner(op.Inst); o >= 0 {
						for j := range g.meta {
							if g.tableOwner(j) == o {
								desync[j] = true
							}
						}
					}
				}
				if op.CompOpen {
					c.Count("instantiations_through_open_compiled_module_judged", 1)
				}
				if op.CompOpen && strings.HasPrefix(tp[0], "ok") && strings.Contains(xp[0], "must be compiled before instantiation") {
					// runtime, cache and the CompiledModule used are open: closes by OTHER users of the same binary must not make it unusable
					sig := fmt.Sprintf("open-compiled-module-not-instantiable-after-other-users-closed:%s", eng)
					c.Count("divergences", 1)
					c.Violate(sig, fmt.Sprintf("run %s step %d (%s): twin instantiated, real-closes run failed with %q although this runtime, its cache and this CompiledModule are open", mode, s, op.String(), xp[0]),
						map[string]any{"case": raw, "run": mode, "env": runModes[mi].env, "step": s, "twin": tp[0], "real": xp[0], "history": histLines(h, s),
							"obs_twin": T.Obs, "obs_real": X.Obs})
					violated = true
					break
				}
				if tp[0] != xp[0] {
					c.Count("instantiate_outcome_differs_from_twin_after_closes", 1)
					c.Distinct("instantiate_failures_after_close", obsClass(xp[0]))
				}
				continue
			}
			// main observation, then re-entrant sub-observations
			subOps := []*Op{op}
			for i := range op.Sub {
				if op.Sub[i].Kind == "call" {
					subOps = append(subOps, &op.Sub[i])
				}
			}
			// a mutating re-entrant call runs BEFORE the enclosing call reads the state it changes: if its outcome
			// differs from the twin's (e.g. rejected on a closed module), the enclosing result is not comparable either
			for k := 1; k < len(subOps); k++ {
				t, x := "", "skip:not-reached"
				if k < len(tp) {
					t = tp[k]
				}
				if k < len(xp) {
					x = xp[k]
				}
				if subOps[k].Mutates && x != t && (k < len(tp) || k < len(xp)) {
					markDesync(subOps[k])
				}
			}
			for k, so := range subOps {
				t, x := "", "skip:not-reached"
				if k < len(tp) {
					t = tp[k]
				}
				if k < len(xp) {
					x = xp[k]
				}
				if k >= len(tp) && k >= len(xp) { // sub-op list not reached in either run (host.act was not called)
					continue
				}
				c.Count("observations_compared", 1)
				if x == t {
					if !strings.HasPrefix(x, "skip") {
						c.Count("observations_equal_to_twin", 1)
						if k == 0 && len(op.UAC) > 0 && mode == "R2" {
							for _, u := range op.UAC {
								c.Count("uses_after_close", 1)
								c.Count("uac_"+u, 1)
							}
						}
					}
					continue
				}
				if strings.HasPrefix(x, "skip") {
					c.Count("observations_skipped_instance_missing", 1)
					if debugOn {
						c.Count("dbg_skip_"+opName(so)+"_"+x+"_avoid="+fmt.Sprint(h.AvoidKnown), 1)
					}
					if so.Mutates {
						markDesync(so)
					}
					continue
				}
				if so.ClosedBefore { // not a live instance: only survival and invariance are demanded
					c.Count("observations_on_already_closed_instances_not_judged", 1)
					if so.Mutates {
						markDesync(so)
					}
					continue
				}
				inDesync := false
				for j := range g.deps(so.Inst) {
					if desync[j] {
						inDesync = true
					}
				}
				if so.Kind == "passref" && desync[so.From] {
					inDesync = true
				}
				for _, p := range so.Deps { // callee reached through a funcref (e.g. pt_call2 -> producer's do_act reads the producer's table)
					for j := range g.deps(p) {
						if desync[j] {
							inDesync = true
						}
					}
				}
				if inDesync {
					c.Count("observations_not_comparable_with_twin", 1)
					if debugOn {
						c.Count("dbg_desync_"+opName(so)+"_avoid="+fmt.Sprint(h.AvoidKnown), 1)
					}
					if so.Mutates {
						markDesync(so)
					}
					continue
				}
				entryClosed, rel := so.EntryCl, so.RelClose
				if k > 0 { // sub-call: judged with the enclosing step's labels (closes happen around it)
					entryClosed, rel = true, op.RelClose || len(op.Sub) > 0
				}
				if isExit(x) && (entryClosed || rel) {
					c.Count("ordinary_closed_module_errors", 1)
					if mode == "R2" && k == 0 {
						for _, u := range op.UAC {
							c.Count("uses_after_close", 1)
							c.Count("uac_"+u, 1)
						}
					}
					if so.Mutates {
						markDesync(so)
					}
					continue
				}
				// ---- violation ----
				generic := fmt.Sprintf("live-observation-differs-from-twin:%s:%s:twin=%s:real=%s", eng, opName(so), obsClass(t), obsClass(x))
				if isExit(x) {
					generic = fmt.Sprintf("exit-error-without-related-close:%s:%s", eng, opName(so))
				}
				sig := d.sigFor(h, s, generic)
				c.Count("divergences", 1)
				c.Violate(sig, fmt.Sprintf("run %s step %d (%s): twin observed %q, real-closes run observed %q", mode, s, so.String(), t, x),
					map[string]any{"case": raw, "run": mode, "env": runModes[mi].env, "step": s, "twin": t, "real": x, "history": histLines(h, s),
						"obs_twin": T.Obs, "obs_real": X.Obs})
				violated = true
				break
			}
			if violated {
				break
			}
		}
	}
	// ---- invariance across sanitizer modes ----
	if !violated {
		base := -1
		for mi := 1; mi < 4; mi++ {
			if outs[mi] == nil {
				continue
			}
			if base < 0 {
				base = mi
				continue
			}
			c.Count("invariance_pairs_compared", 1)
			A, B := outs[base], outs[mi]
			for s := range h.Steps {
				op := &h.Steps[s]
				if op.Kind == "inst" || op.Kind == "compile" { // error texts name whichever missing import a map iteration met first
					if strings.HasPrefix(A.Obs[s], "ok") == strings.HasPrefix(B.Obs[s], "ok") {
						continue
					}
				}
				if A.Obs[s] != B.Obs[s] {
					generic := fmt.Sprintf("outcome-depends-on-gc-or-sanitizer-mode:%s:%s", eng, opName(op))
					sig := d.sigFor(h, s, generic)
					c.Count("divergences", 1)
					c.Violate(sig, fmt.Sprintf("step %d (%s): run %s observed %q, run %s observed %q (twin %q)", s, op.String(),
						runModes[base].name, A.Obs[s], runModes[mi].name, B.Obs[s], T.Obs[s]),
						map[string]any{"case": raw, "step": s, "runs": []string{runModes[base].name, runModes[mi].name}, "history": histLines(h, s),
							"obs_a": A.Obs, "obs_b": B.Obs, "obs_twin": T.Obs})
					violated = true
					break
				}
			}
			if violated {
				break
			}
		}
	}
	// ---- coverage bookkeeping ----
	R2 := outs[2]
	if R2 != nil {
		cl := R2.Counters["close_module"] + R2.Counters["close_compiled"] + R2.Counters["close_runtime"] + R2.Counters["close_cache"] + R2.Counters["close_host_module"]
		sawClose, sawGC, obsAfter := false, false, false
		var shape strings.Builder
		for s := range h.Steps {
			op := &h.Steps[s]
			shape.WriteString(opName(op))
			shape.WriteByte(',')
			for _, sub := range op.Sub {
				shape.WriteString("(" + sub.Kind + ")")
				if strings.HasPrefix(sub.Kind, "close") {
					sawClose = true
				}
				if sub.Kind == "gc" && sawClose {
					sawGC = true
				}
			}
			if strings.HasPrefix(op.Kind, "close") {
				sawClose = true
			}
			if op.Kind == "gc" && sawClose {
				sawGC = true
			}
			if op.Observe && sawClose && sawGC && !strings.HasPrefix(R2.Obs[s], "skip") {
				obsAfter = true
			}
			if len(op.Stale) > 0 {
				c.Count("model_stale_funcref_uses_generated", 1)
				c.Distinct("stale_channels_generated", op.Stale[0])
			}
		}
		if cl > 0 && sawGC && obsAfter {
			c.Distinct("nontrivial_histories", eng+shape.String())
		}
		if R2.Unmapped > 0 {
			c.Count("histories_with_unmapped_code", 1)
		}
	}
	if R2 != nil && d.evals%251 == 1 {
		c.Sample(map[string]any{"case": raw, "history": histLines(h, -1), "obs_twin": T.Obs, "obs_real_default_gc": R2.Obs, "unmapped": R2.Unmapped})
	}
}

func modeClass(mode string) string {
	if mode == "T" {
		return "twin"
	}
	return "real"
}

// ---------------------------------------------------------------------------
// child side

func child(mode string, in json.RawMessage) any {
	if mode == "conc" {
		var cc concCase
		json.Unmarshal(in, &cc)
		return runConc(cc)
	}
	var cr caseRec
	json.Unmarshal(in, &cr)
	h := cr.history()
	run := os.Getenv("C09_RUN")
	if run == "R3" && !h.Small {
		return &childOut{Skipped: true}
	}
	return runHistory(h, run == "T", func(step int) {
		fmt.Fprintf(os.Stderr, "C09STEP %d %d\n", cr.Seed, step)
	})
}

func init() { Prop.Replay = replay }

// replay re-runs the history recorded in a witness file in all four modes
// (supervised children) and prints the observations side by side.
func replay(c *core.Ctx, path string) int {
	var b []byte
	var err error
	if strings.HasPrefix(filepath.Base(path), "manual:") { // manual:<channel>:<interpreter|compiler>
		f := strings.Split(filepath.Base(path), ":")
		b = core.J(map[string]any{"witness": map[string]any{"case": caseRec{Seed: 1, Manual: f[1], Compiler: len(f) > 2 && f[2] == "compiler"}}})
	} else if b, err = os.ReadFile(path); err != nil {
		fmt.Println(err)
		return 2
	}
	var w struct {
		Witness struct {
			Case caseRec `json:"case"`
		} `json:"witness"`
	}
	if json.Unmarshal(b, &w) != nil || w.Witness.Case.Seed == 0 {
		fmt.Println("no case in witness")
		return 2
	}
	cr := w.Witness.Case
	h := cr.history()
	var obs [4][]string
	var died [4]string
	for mi, rm := range runModes {
		res := core.RunCases(c, "hist", []json.RawMessage{core.J(cr)}, core.ChildOpts{Batch: 1, TimeoutS: 300, Env: rm.env, Procs: 1})
		if res[0].Crash != nil {
			died[mi] = fmt.Sprintf("DIED at step %d: %s %s", lastStep(res[0].Crash.Log, cr.Seed), res[0].Crash.Kind, res[0].Crash.Detail)
			continue
		}
		var o childOut
		json.Unmarshal(res[0].Out, &o)
		obs[mi] = o.Obs
		for _, v := range o.AllocViol {
			died[mi] += "ALLOCATOR: " + v.Detail + "; "
		}
	}
	os.RemoveAll(filepath.Join(c.Out, fmt.Sprintf("cache-%d", os.Getpid())))
	for _, l := range histLines(h, -1)[:1+len(h.Mods)] {
		fmt.Println(l)
	}
	rc := 0
	for s := range h.Steps {
		fmt.Printf("%2d %s\n", s, h.Steps[s].String())
		var parts []string
		for mi, rm := range runModes {
			if obs[mi] != nil && s < len(obs[mi]) && obs[mi][s] != "" {
				parts = append(parts, fmt.Sprintf("%s=%s", rm.name, strings.ReplaceAll(obs[mi][s], obsSep, " | ")))
			}
		}
		if len(parts) > 0 {
			fmt.Println("      " + strings.Join(parts, "   "))
		}
	}
	for mi, rm := range runModes {
		if died[mi] != "" {
			fmt.Printf("run %s (%v): %s\n", rm.name, rm.env, died[mi])
			rc = 1
		}
	}
	return rc
}
