// Package c20 decides C20 (function listeners see every call, correctly
// bracketed): generated call-heavy programs run with a recording listener
// factory; an online bracket automaton with a shadow stack checks every event,
// the stack iterator is compared with the shadow stack, parameters/results are
// compared with what the harness and its host functions actually saw, event
// streams are compared across engines and guest results with/without listeners.
package c20

import (
	"context"
	"encoding/hex"
	"encoding/json"
	"fmt"
	"os"
	"regexp"
	"strings"

	"github.com/tetratelabs/wazero"
	"github.com/tetratelabs/wazero/api"
	"github.com/tetratelabs/wazero/experimental"
	"github.com/tetratelabs/wazero/verifharness/core"
	"github.com/tetratelabs/wazero/verifharness/wdis"
	"github.com/tetratelabs/wazero/verifharness/wgen"
	"github.com/tetratelabs/wazero/verifharness/wreduce"
	"github.com/tetratelabs/wazero/verifharness/wrun"
)

var Prop = &core.Prop{ID: "C20", Run: run, Child: child}

type lcase struct {
	Seed   uint64 `json:"seed"`
	Shared bool   `json:"shared,omitempty"`
}

type finding struct {
	Sig    string `json:"sig"`
	Detail string `json:"detail"`
}

type lresult struct {
	Findings []finding      `json:"findings,omitempty"`
	Bin      string         `json:"bin,omitempty"`
	Events   map[string]int `json:"events"`
	MaxDepth int            `json:"max_depth"`
	Unwinds  int            `json:"max_unwind"`
	IterChk  int            `json:"iterator_checks"`
	HostChk  int            `json:"host_param_checks"`
	TopChk   int            `json:"toplevel_param_checks"`
	EngCmp   int            `json:"engine_comparisons"`
	Inconcl  string         `json:"inconcl,omitempty"`
	Sample   []string       `json:"sample,omitempty"`
	Calls    int            `json:"calls"`
}

func run(c *core.Ctx) int {
	if os.Getenv("C20_ONLY") == "cross" { // development knob: only the cross-module scenario (cross.go)
		xe, xn := crossRun(c)
		return c.Finish(xe, xn, "development knob C20_ONLY=cross: cross-module listener scenario only; non-trivial = case observed an After event of a function outside the entry module")
	}
	n := c.N(1200, 60000)
	rng := core.NewRng(c.Seed, 20)
	var cases []json.RawMessage
	for i := 0; i < n; i++ {
		cases = append(cases, core.J(lcase{Seed: rng.U64(), Shared: i%8 == 7}))
	}
	res := core.RunCases(c, "prog", cases, core.ChildOpts{Batch: 60, TimeoutS: 900})
	evals := int64(0)
	for _, r := range res {
		if r.Crash != nil {
			if r.Crash.Kind == "timeout" {
				c.Inconclusive("watchdog")
				continue
			}
			c.Violate("crash:"+r.Crash.Kind+":"+core.Trunc(strings.Join(strings.Fields(r.Crash.Detail), "_"), 80), r.Crash.Detail, map[string]any{"case": cases[r.Index], "crash": r.Crash})
			continue
		}
		var lr lresult
		if json.Unmarshal(r.Out, &lr) != nil {
			c.Inconclusive("bad-child-output")
			continue
		}
		evals++
		tot := 0
		for k, v := range lr.Events {
			c.Count("events_"+k, int64(v))
			tot += v
		}
		c.Count("calls", int64(lr.Calls))
		c.Count("iterator_checks", int64(lr.IterChk))
		c.Count("host_param_checks", int64(lr.HostChk))
		c.Count("toplevel_param_checks", int64(lr.TopChk))
		c.Count("engine_stream_comparisons", int64(lr.EngCmp))
		c.Distinct("nesting_depths", fmt.Sprint(lr.MaxDepth))
		c.Distinct("unwind_depths", fmt.Sprint(lr.Unwinds))
		if lr.Inconcl != "" {
			c.Inconclusive(lr.Inconcl)
		}
		for _, f := range lr.Findings {
			c.Violate(f.Sig, f.Detail, map[string]any{"case": cases[r.Index], "bin_hex": lr.Bin})
		}
		if tot > 0 {
			c.Distinct("programs_with_events", fmt.Sprint(r.Index))
		}
		if len(lr.Sample) > 0 && r.Index%700 == 0 {
			c.Sample(map[string]any{"case": cases[r.Index], "event_stream_head": lr.Sample})
		}
	}
	// cross-module scenario (cross.go): distinct listener object per definition, 2-3 wasm modules + host module
	crossRun(c)
	c.Assume("tail calls: call depth is implementation-defined; event streams of programs that execute tail calls are not compared across engines, but every Before still needs its own After/Abort")
	c.Assume("the stack iterator is only required to list the frames of the current api.Function.Call activation")
	return c.Finish(evals, int64(c.DistinctN("programs_with_events")),
		"call-heavy wgen programs x PRNG call scripts x listener sets {all functions, PRNG subset} x both engines; online bracket automaton + shadow stack, iterator vs shadow stack, params/results vs harness-known values and host-call log, cross-engine stream equality (non-tail-call programs), guest trace with vs without listeners; every 8th case: two runtimes sharing a CompilationCache each with its own recorder, and one binary compiled twice through one cache with listener subsets that differ in one function (stream must equal that subset compiled alone); non-trivial = program produced listener events; plus (counters cross_*) hand-built cross-module scenario: 2-3 wasm modules + host module in one runtime, one listener object per definition, listener subsets, exact model of every event")
}

// ---------------------------------------------------------------------------

// fid identifies a function: index in its module; functions of host modules
// (module name != "") have bit 20 set. Generated guests have no name section.
type fid int32

const hostBit = 1 << 20

func (f fid) host() bool  { return f&hostBit != 0 }
func (f fid) idx() uint32 { return uint32(f &^ hostBit) }
func (f fid) String() string {
	if f.host() {
		return fmt.Sprintf("env.%d", f.idx())
	}
	return fmt.Sprintf("guest.%d", f.idx())
}

func guestFid(idx uint32) fid { return fid(idx) }

type ev struct {
	K     byte // B A X
	Key   fid
	Vals  []uint64
	Stack []fid
	Step  int
}

func (e ev) String() string {
	switch e.K {
	case 'B':
		return fmt.Sprintf("Before %s(%s) stack=%v", e.Key, hexs(e.Vals), e.Stack)
	case 'A':
		return fmt.Sprintf("After  %s -> [%s]", e.Key, hexs(e.Vals))
	}
	return fmt.Sprintf("Abort  %s", e.Key)
}

func hexs(v []uint64) string {
	s := make([]string, len(v))
	for i, x := range v {
		s[i] = fmt.Sprintf("%#x", x)
	}
	return strings.Join(s, ",")
}

type viol struct {
	rule   string
	detail string
	tc     bool // a tail-calling function is involved
	tail   string
	at     int // index into the event stream
}

// addViol records a violation with the event-stream tail at that moment.
func (r *recorder) addViol(rule, detail string, tc bool) {
	if len(r.viols) >= 40 {
		return
	}
	for _, v := range r.viols {
		if v.rule == rule && v.tc == tc {
			return
		}
	}
	r.viols = append(r.viols, viol{rule, detail, tc, tail(r.events, 14), len(r.events)})
}

type recorder struct {
	engine   string
	all      bool
	listened func(f fid) bool
	tcFuncs  map[fid]bool // functions whose body contains return_call*
	fids     map[api.FunctionDefinition]fid
	events   []ev
	stack    []fid
	depths   []int // real call depth (iterator length) at the Before of each open frame
	actBase  []int
	viols    []viol
	step     int
	maxDepth int
	iterChk  int
	counts   map[string]int
	overflow bool // more than maxEvents events: stream-based checks are skipped
	abortRun int  // consecutive Abort events most recently delivered
	tcSeen   bool // a tail-calling function was entered in the current step
}

func rawFid(d api.FunctionDefinition) fid {
	f := fid(d.Index())
	if d.ModuleName() != "" {
		f |= hostBit
	}
	return f
}

func (r *recorder) key(d api.FunctionDefinition) fid {
	if f, ok := r.fids[d]; ok {
		return f
	}
	f := rawFid(d)
	if r.fids == nil {
		r.fids = map[api.FunctionDefinition]fid{}
	}
	r.fids[d] = f
	return f
}

func (r *recorder) NewFunctionListener(d api.FunctionDefinition) experimental.FunctionListener {
	if !r.listened(rawFid(d)) {
		return nil
	}
	return r
}

func canon(ts []api.ValueType, vals []uint64) []uint64 {
	out := append([]uint64(nil), vals...)
	j := 0
	for _, t := range ts {
		if j >= len(out) {
			break
		}
		switch t {
		case api.ValueTypeI32, api.ValueTypeF32:
			out[j] &= 0xffffffff
			j++
		case 0x7b:
			j += 2
		default:
			j++
		}
	}
	// keep exactly the slots the signature declares: a longer slice handed to
	// the listener is not meant to be read beyond that
	if j < len(out) {
		out = out[:j]
	}
	return out
}

// tcInvolved: a function that performs a tail call has been entered during
// the current top-level call (sticky until the step ends): the engines'
// handling of tail calls under listeners is a known finding and desynchronises
// every later event of that call.
func (r *recorder) tcInvolved(k fid) bool {
	if r.tcSeen || r.tcFuncs[k] {
		return true
	}
	for _, f := range r.stack {
		if r.tcFuncs[f] {
			return true
		}
	}
	return false
}

func (r *recorder) Before(ctx context.Context, mod api.Module, d api.FunctionDefinition, params []uint64, it experimental.StackIterator) {
	k := r.key(d)
	r.stack = append(r.stack, k)
	if len(r.stack) > r.maxDepth {
		r.maxDepth = len(r.stack)
	}
	r.counts["before"]++
	r.abortRun = 0
	if r.tcFuncs[k] {
		r.tcSeen = true
	}
	// deep recursions: the iterator is walked and compared only up to maxIter
	// frames (cost is quadratic in depth otherwise)
	const maxIter = 48
	var st []fid
	truncated := false
	depth := 0
	for it.Next() {
		depth++
		if len(st) >= maxIter {
			truncated = true
			if depth > 4000 {
				break
			}
			continue
		}
		st = append(st, r.key(it.Function().Definition()))
	}
	r.depths = append(r.depths, depth)
	r.record(ev{K: 'B', Key: k, Vals: canon(d.ParamTypes(), params), Stack: st, Step: r.step})
	// iterator checks (bounded depth: the shadow stack of very deep recursions is not compared frame by frame)
	if len(st) == 0 {
		r.addViol("iterator-empty", "Before "+k.String()+": iterator has no entry", r.tcInvolved(k))
		return
	}
	if st[0] != k {
		r.addViol("iterator-first-not-callee", fmt.Sprintf("Before %s: iterator starts with %s (iterator %v)", k, st[0], trunc(st)), r.tcInvolved(k))
		return
	}
	base := 0
	if len(r.actBase) > 0 {
		base = r.actBase[len(r.actBase)-1]
	}
	want := make([]fid, 0, maxIter)
	for i := len(r.stack) - 1; i >= base && len(want) < maxIter; i-- {
		want = append(want, r.stack[i])
	}
	got := st
	if !r.all {
		got = got[:0:0]
		for _, s := range st {
			if r.listenedKey(s) {
				got = append(got, s)
			}
		}
	}
	if truncated || len(st) == maxIter {
		// compare the common prefix only
		n := min(len(got), len(want))
		got, want = got[:n], want[:n]
	}
	r.iterChk++
	if r.engine == "compiler" && (depth == 30 || depth == 29) && len(want) > len(got) && eqFids(got, want[:len(got)]) {
		r.addViol("iterator-truncated-at-30-frames", fmt.Sprintf("Before %s: the iterator lists only the innermost 30 frames of a deeper call chain (shadow stack depth in this activation: %d)", k, len(r.stack)-base), false)
	} else if !eqFids(got, want) {
		di := 0
		for di < len(got) && di < len(want) && got[di] == want[di] {
			di++
		}
		lo := di - 2
		if lo < 0 {
			lo = 0
		}
		r.addViol("iterator-differs-from-call-chain", fmt.Sprintf("Before %s: iterator has %d entries, shadow stack of this activation %d (both capped at 48); first difference at index %d: iterator[%d:]=%v shadow[%d:]=%v", k, len(got), len(want), di, lo, trunc(got[min(lo, len(got)):]), lo, trunc(want[min(lo, len(want)):])), r.tcInvolved(k))
	}
}

// record keeps at most maxEvents events (the automaton and counters keep running).
const maxEvents = 30000

func (r *recorder) record(e ev) {
	if len(r.events) < maxEvents {
		r.events = append(r.events, e)
	} else {
		r.overflow = true
	}
}

func (r *recorder) listenedKey(k fid) bool { return r.listened(k) }

func eqFids(a, b []fid) bool {
	if len(a) != len(b) {
		return false
	}
	for i := range a {
		if a[i] != b[i] {
			return false
		}
	}
	return true
}

func trunc(s []fid) []string {
	var out []string
	for i, f := range s {
		if i >= 12 {
			out = append(out, "…")
			break
		}
		out = append(out, f.String())
	}
	return out
}

func (r *recorder) close(kind byte, d api.FunctionDefinition, vals []uint64) {
	k := r.key(d)
	name := map[byte]string{'A': "after", 'X': "abort"}[kind]
	r.counts[name]++
	if kind == 'X' {
		r.abortRun++
	} else {
		r.abortRun = 0
	}
	r.record(ev{K: kind, Key: k, Vals: vals, Step: r.step})
	if len(r.stack) == 0 {
		r.addViol(name+"-without-open-before", fmt.Sprintf("%s %s with an empty shadow stack", name, k), r.tcInvolved(k))
		return
	}
	top := r.stack[len(r.stack)-1]
	if top != k {
		// is it open deeper in the stack? (improper nesting) or not at all?
		open := false
		for _, f := range r.stack {
			if f == k {
				open = true
			}
		}
		tc := r.tcInvolved(k)
		if open {
			r.addViol(name+"-not-for-innermost-open-call", fmt.Sprintf("%s %s while innermost open call is %s (stack top-first %v)", name, k, top, trunc(rev(r.stack))), tc)
			// pop down to it to resynchronise
			for len(r.stack) > 0 && r.stack[len(r.stack)-1] != k {
				r.stack = r.stack[:len(r.stack)-1]
			}
			r.stack = r.stack[:len(r.stack)-1]
			r.depths = r.depths[:len(r.stack)]
		} else {
			r.addViol(name+"-without-open-before", fmt.Sprintf("%s %s but no Before of it is open (stack top-first %v)", name, k, trunc(rev(r.stack))), tc)
		}
		return
	}
	r.stack = r.stack[:len(r.stack)-1]
	r.depths = r.depths[:len(r.stack)]
}

func rev(s []fid) []fid {
	o := make([]fid, len(s))
	for i := range s {
		o[len(s)-1-i] = s[i]
	}
	return o
}

func (r *recorder) After(ctx context.Context, mod api.Module, d api.FunctionDefinition, results []uint64) {
	r.close('A', d, canon(d.ResultTypes(), results))
}

func (r *recorder) Abort(ctx context.Context, mod api.Module, d api.FunctionDefinition, err error) {
	r.close('X', d, nil)
}

// closeActivation: when an api.Function.Call returned (top-level step or the
// harness's re-entering host function), no Before of that activation may still
// be open. Both engines cap the unwinding at wasmdebug.MaxFrames (30) frames,
// so a failure deeper than that is classified separately.
func (r *recorder) closeActivation(base int) {
	if len(r.stack) <= base {
		return
	}
	open := r.stack[base:]
	tc := r.tcSeen
	for _, f := range open {
		if r.tcFuncs[f] {
			tc = true
		}
	}
	// Both engines stop notifying after wasmdebug.MaxFrames (30) frames: with
	// listeners on all functions the unwinding then delivered 29-30 Aborts in a
	// row and left the outer frames open.
	rule := "before-never-closed"
	if r.all && r.abortRun >= 29 {
		rule = "before-never-closed:unwinding-stopped-after-30-frames"
	}
	r.addViol(rule, fmt.Sprintf("%d Before events without After/Abort when the call that started this activation returned (Abort events delivered by the unwinding: %d); open (top first): %v",
		len(open), r.abortRun, trunc(rev(open))), tc)
	r.stack = r.stack[:base]
	r.depths = r.depths[:base]
}

func (r *recorder) endStep() {
	r.closeActivation(0)
	r.tcSeen = false
	r.actBase = r.actBase[:0]
}

var reHost = regexp.MustCompile(`^  host (h\d+)\(([^)]*)\) -> \[([^\]]*)\]`)

type runOut struct {
	t       *wrun.Trace
	rec     *recorder
	stepOut []string // outcome class per step ("" for non-call steps)
}

func tailCallFuncs(p *wgen.Program) map[fid]bool {
	out := map[fid]bool{}
	nImp := uint32(len(p.Host))
	for i, f := range p.Mod.Funcs {
		for _, in := range wdis.Instrs(f.Body) {
			if strings.HasPrefix(in.Name, "return_call") {
				out[guestFid(nImp+uint32(i))] = true
			}
		}
	}
	return out
}

// hostCloseCase: the run uses WithCloseOnContextDone(true) and lets the guest's hclose import close
// the module in the middle of a call (set per case by child).
var hostCloseCase bool

// closeCompiledCase: CompiledModule.Close() right after instantiation.
var closeCompiledCase bool

// multiCase: listeners are combined through experimental.MultiFunctionListenerFactory.
var multiCase bool

// quietFactory listens to the same functions as the recorder; its listeners only walk the stack iterator.
type quietFactory struct{ r *recorder }

func (q quietFactory) NewFunctionListener(d api.FunctionDefinition) experimental.FunctionListener {
	if !q.r.listened(rawFid(d)) {
		return nil
	}
	return quietListener{}
}

type quietListener struct{}

func (quietListener) Before(_ context.Context, _ api.Module, _ api.FunctionDefinition, _ []uint64, it experimental.StackIterator) {
	for n := 0; n < 64 && it.Next(); n++ {
		_ = it.Function().Definition()
	}
}
func (quietListener) After(context.Context, api.Module, api.FunctionDefinition, []uint64) {}
func (quietListener) Abort(context.Context, api.Module, api.FunctionDefinition, error)    {}

func runWith(p *wgen.Program, script []wrun.Step, compiler bool, mode int, subsetSeed uint64, cache wazero.CompilationCache) *runOut {
	rec := &recorder{engine: map[bool]string{false: "interp", true: "compiler"}[compiler], all: mode == 1, tcFuncs: tailCallFuncs(p), counts: map[string]int{}}
	rec.listened = func(f fid) bool {
		if mode == 1 {
			return true
		}
		h := subsetSeed ^ uint64(f.idx())*0x9E3779B97F4A7C15
		if f.host() {
			h ^= 0xabcdef
		}
		h ^= h >> 29
		h *= 0xBF58476D1CE4E5B9
		return (h>>17)&3 != 0 // ~75% of the functions
	}
	ctx := context.Background()
	opt := wrun.Options{Compiler: compiler, NoDigest: true}
	if mode != 0 {
		var factory experimental.FunctionListenerFactory = rec
		if multiCase {
			// the recorder shares every function with a second listener through the multi-listener wrapper
			// (own stack-iterator wrapper that caches and rewinds the engine's iterator)
			factory = experimental.MultiFunctionListenerFactory(rec, quietFactory{rec})
		}
		ctx = experimental.WithFunctionListenerFactory(ctx, factory)
		opt.OnReenter = func(enter bool) {
			if enter {
				rec.actBase = append(rec.actBase, len(rec.stack))
			} else if len(rec.actBase) > 0 {
				rec.closeActivation(rec.actBase[len(rec.actBase)-1])
				rec.actBase = rec.actBase[:len(rec.actBase)-1]
			}
		}
	}
	opt.Ctx = ctx
	opt.HostClose = hostCloseCase
	hc := hostCloseCase
	opt.RuntimeConfig = func(rc wazero.RuntimeConfig) wazero.RuntimeConfig {
		if cache != nil {
			rc = rc.WithCompilationCache(cache)
		}
		if hc {
			rc = rc.WithCloseOnContextDone(true)
		}
		return rc
	}
	s := wrun.NewSession(opt, wrun.Features(p.Cfg))
	defer s.Close()
	in := s.Instantiate(p, "guest")
	if closeCompiledCase {
		s.CloseCompiled(p)
	}
	rec.endStep() // start function activity must be closed too
	out := &runOut{t: in.T, rec: rec}
	for si, st := range script {
		rec.step = si + 1
		n0 := len(in.T.Events)
		in.Step(si, st)
		rec.endStep()
		oc := ""
		if st.Kind == "call" {
			for _, e := range in.T.Events[n0:] {
				if strings.HasPrefix(e, "call ") {
					if i := strings.Index(e, "-> "); i > 0 {
						oc = e[i+3:]
					}
				}
			}
		}
		out.stepOut = append(out.stepOut, oc)
	}
	return out
}

func child(mode string, in json.RawMessage) any {
	if mode == "cross" {
		return crossChild(in)
	}
	var lc lcase
	json.Unmarshal(in, &lc)
	r := core.NewRng(int64(lc.Seed), 9)
	cfg := wgen.DefaultConfig(r)
	cfg.CallHeavy = r.Chance(3, 4)
	cfg.TrapHeavy = r.Chance(1, 4)
	if cfg.HostFuncs == 0 {
		cfg.HostFuncs = 2
	}
	p := wgen.Generate(r, cfg)
	script := wrun.GenScript(r, p, 3+r.Intn(6))
	subsetSeed := r.U64()
	hostCloseCase = lc.Seed%3 == 0 // a third of the cases: module closed mid-call under close-on-context-done
	// a fifth of the cases: the embedder closes the CompiledModule right after instantiation (the instance stays
	// usable); traps must still unwind through listeners although the engine no longer lists the compiled code
	closeCompiledCase = lc.Seed%5 == 1
	multiCase = lc.Seed%4 == 2
	lr := lresult{Events: map[string]int{}}
	if closeCompiledCase {
		lr.Events["cases_with_compiled_module_closed_after_instantiation"] = 1
	}
	if multiCase {
		lr.Events["cases_with_multi_listener_factory"] = 1
	}
	if hostCloseCase {
		lr.Events["cases_with_host_close_enabled"] = 1
	}
	add := func(sig, detail string) {
		for _, f := range lr.Findings {
			if f.Sig == sig {
				return
			}
		}
		lr.Findings = append(lr.Findings, finding{sig, detail})
	}
	has := func(sig string) bool {
		for _, f := range lr.Findings {
			if f.Sig == sig {
				return true
			}
		}
		return false
	}
	usesTC := p.OpsUsed["return_call"]+p.OpsUsed["return_call_indirect"] > 0

	if lc.Shared {
		sharedCase(p, script, &lr, add)
		subsetPairCase(lc.Seed, &lr, add)
	}

	var streams [2][]ev
	var unclosedAll [2]bool
	var soverflow, streamOverflow, capHit bool
	for e := 0; e < 2; e++ {
		compiler := e == 1
		eng := map[bool]string{false: "interp", true: "compiler"}[compiler]
		none := runWith(p, script, compiler, 0, 0, nil)
		for _, lmode := range []int{1, 2} {
			o := runWith(p, script, compiler, lmode, subsetSeed, nil)
			rec := o.rec
			set := map[int]string{1: "all", 2: "subset"}[lmode]
			for k, v := range rec.counts {
				lr.Events[k] += v
			}
			if rec.maxDepth > lr.MaxDepth {
				lr.MaxDepth = rec.maxDepth
			}
			lr.IterChk += rec.iterChk
			if o.t.Internal != "" {
				add("internal-failure:"+eng, o.t.Internal)
			}
			// qualify and report automaton violations
			for _, v := range rec.viols {
				q, pre := "", ""
				// with a listener subset a tail-calling function may itself be unlistened and
				// desynchronise the stream invisibly: attribute by program then
				if v.tc || (lmode == 2 && usesTC) {
					pre = "tailcall-function-involved:"
				}
				if strings.HasPrefix(v.rule, "before-never-closed:unwinding-stopped-after-30-frames") {
					capHit = true
				}
				if strings.HasPrefix(v.rule, "before-never-closed") {
					if o.t.StackOverflow {
						q += ":run-hit-stack-overflow"
					}
					if lmode == 1 {
						unclosedAll[e] = true
					} else if unclosedAll[e] {
						continue // same cause as reported for the all-functions set
					}
				}
				sig := fmt.Sprintf("%s%s:%s%s", pre, v.rule, eng, q)
				if has(sig) {
					continue
				}
				add(sig, fmt.Sprintf("listeners=%s engine=%s\n%s\nstream tail at that moment:\n%s", set, eng, v.detail, v.tail))
			}
			// stack overflow qualification: re-tag before-never-closed when the step overflowed
			for i, oc := range o.stepOut {
				if strings.Contains(oc, "stack overflow") {
					soverflow = true
					_ = i
				}
			}
			// guest results with vs without listeners
			if idx, d := wrun.Diff(none.t, o.t); idx >= 0 && !none.t.StackOverflow && !o.t.StackOverflow {
				add("guest-trace-differs-with-listeners:"+eng, fmt.Sprintf("listeners=%s (A = without, B = with)\n%s", set, d))
			}
			// top-level params/results and unwind depths
			if rec.overflow {
				streamOverflow = true
			} else {
				checkTopLevel(p, script, o, &lr, eng, add)
			}
			if lmode == 1 {
				if !rec.overflow {
					checkHostLog(o, &lr, eng, add)
				}
				streams[e] = rec.events
			}
		}
	}
	// cross-engine stream equality (all-functions set), except tail-call programs and stack exhaustion
	if !usesTC && !soverflow && !streamOverflow {
		lr.EngCmp++
		a, b := streams[0], streams[1]
		diff := -1
		capDiffs := 0
		i, j := 0, 0
		for i < len(a) && j < len(b) {
			if a[i].K == b[j].K && a[i].Key == b[j].Key && hexs(a[i].Vals) == hexs(b[j].Vals) {
				i++
				j++
				continue
			}
			// A trap more than 30 frames deep (recorded finding: Abort is delivered for the innermost
			// wasmdebug.MaxFrames frames only): which and how many of the frames get their Abort differs by engine
			// (29 or 30 on the compiler). Inside such an unwinding the runs of Abort events are not comparable;
			// everything around them still is.
			if capHit && (a[i].K == 'X' || b[j].K == 'X') {
				for i < len(a) && a[i].K == 'X' {
					i++
				}
				for j < len(b) && b[j].K == 'X' {
					j++
				}
				capDiffs++
				continue
			}
			diff = i
			break
		}
		if diff < 0 && capHit && (i < len(a) || j < len(b)) {
			// one stream ends inside such an unwinding: the surplus Aborts of the other are the same difference
			i0, j0 := i, j
			for i < len(a) && a[i].K == 'X' {
				i++
			}
			for j < len(b) && b[j].K == 'X' {
				j++
			}
			if i != i0 || j != j0 {
				capDiffs++
			}
		}
		if diff < 0 && (len(a)-i) != (len(b)-j) {
			diff = i
		}
		if capDiffs > 0 && diff < 0 {
			add("before-never-closed:unwinding-stopped-after-30-frames:abort-runs-differ-between-engines", fmt.Sprintf("%d unwindings of traps deeper than 30 frames delivered different Abort runs on the two engines; the streams agree otherwise", capDiffs))
		}
		if diff >= 0 {
			ga, gb := "<end>", "<end>"
			ka, kb := "end", "end"
			if i < len(a) {
				ga, ka = a[i].String(), string(a[i].K)
			}
			if j < len(b) {
				gb, kb = b[j].String(), string(b[j].K)
			}
			kind := "interp=" + ka + ",compiler=" + kb
			if ka == kb && i < len(a) && j < len(b) {
				if a[i].Key != b[j].Key {
					kind = ka + ":different-function"
				} else {
					kind = ka + ":different-values"
				}
			}
			add("event-streams-differ-between-engines:"+kind, fmt.Sprintf("event %d (interp) / %d (compiler):\n interp:   %s\n compiler: %s\ninterp stream before it:\n%s", i, j, ga, gb, tail(a[:min(i, len(a))], 8)))
		}
	} else if soverflow {
		lr.Inconcl = "stack-exhaustion(engine comparison skipped)"
	}
	for _, st := range script {
		if st.Kind == "call" {
			lr.Calls++
		}
	}
	if len(lr.Findings) > 0 {
		lr.Bin = hex.EncodeToString(p.Bin)
	} else if len(streams[0]) > 0 {
		for _, e := range streams[0][:min(len(streams[0]), 8)] {
			lr.Sample = append(lr.Sample, e.String())
		}
	}
	return lr
}

func streamDiffKind(a, b []ev, i int) string {
	k := func(s []ev) string {
		if i >= len(s) {
			return "end"
		}
		return string(s[i].K)
	}
	ka, kb := k(a), k(b)
	if ka == kb && i < len(a) && i < len(b) {
		if a[i].Key != b[i].Key {
			return ka + ":different-function"
		}
		return ka + ":different-values"
	}
	return "interp=" + ka + ",compiler=" + kb
}

func tail(evs []ev, n int) string {
	lo := len(evs) - n
	if lo < 0 {
		lo = 0
	}
	var sb strings.Builder
	for _, e := range evs[lo:] {
		fmt.Fprintf(&sb, "  [step %d] %s\n", e.Step, e.String())
	}
	return sb.String()
}

// checkTopLevel: the first Before of a step that belongs to the called export
// must carry the call's arguments and its matching After the call's results.
func checkTopLevel(p *wgen.Program, script []wrun.Step, o *runOut, lr *lresult, eng string, add func(string, string)) {
	rec := o.rec
	for si, st := range script {
		if st.Kind != "call" {
			continue
		}
		k := guestFid(p.FuncIndex[st.Fn])
		// events of this step
		var evs []ev
		for _, e := range rec.events {
			if e.Step == si+1 {
				evs = append(evs, e)
			}
		}
		// skip the __setfuel bracket (first B/A pair) if listened
		for len(evs) > 0 && !evs[0].Key.host() && evs[0].Key != k && isHelper(p, evs[0].Key) {
			evs = evs[1:]
		}
		if len(evs) == 0 || evs[0].K != 'B' || evs[0].Key != k {
			continue // function not listened (subset) — nothing to compare
		}
		lr.TopChk++
		want := canonArgs(p, st)
		if hexs(evs[0].Vals) != hexs(want) {
			add("toplevel-params-differ:"+eng, fmt.Sprintf("call %s(%s): Before carried (%s)", st.Fn, hexs(want), hexs(evs[0].Vals)))
		}
		// unwinding depth on failure: number of consecutive aborts at the end
		oc := o.stepOut[si]
		if !strings.HasPrefix(oc, "[") {
			n := 0
			for i := len(evs) - 1; i >= 0 && evs[i].K == 'X'; i-- {
				n++
			}
			if n > lr.Unwinds {
				lr.Unwinds = n
			}
			continue
		}
		// results: the last event of the step must be After of k with the call's results
		last := evs[len(evs)-1]
		if last.K == 'A' && last.Key == k {
			got := "[" + hexs(last.Vals) + "]"
			if got != oc {
				add("toplevel-results-differ:"+eng, fmt.Sprintf("call %s returned %s but After carried %s", st.Fn, oc, got))
			}
		}
	}
}

func isHelper(p *wgen.Program, k fid) bool {
	return !k.host() && k.idx() >= uint32(len(p.Host)+len(p.Funcs))
}

func canonArgs(p *wgen.Program, st wrun.Step) []uint64 {
	var fi int
	fmt.Sscanf(st.Fn, "f%d", &fi)
	ts := p.Funcs[fi].Params
	out := append([]uint64(nil), st.Args...)
	j := 0
	for _, t := range ts {
		if j >= len(out) {
			break
		}
		switch t {
		case 0x7f, 0x7d:
			out[j] &= 0xffffffff
			j++
		case 0x7b:
			j += 2
		default:
			j++
		}
	}
	return out
}

// checkHostLog: with listeners on all functions, the brackets of the logging
// host functions must carry exactly what the host function saw and returned.
func checkHostLog(o *runOut, lr *lresult, eng string, add func(string, string)) {
	type hostCall struct{ name, args, res string }
	var logged []hostCall
	for _, e := range o.t.Events {
		if m := reHost.FindStringSubmatch(e); m != nil {
			logged = append(logged, hostCall{m[1], m[2], m[3]})
		}
	}
	// listener view: Before/After pairs of env.* functions that are "log" hosts, in order of Before
	type br struct {
		key       fid
		args, res string
		closed    bool
	}
	var seen []*br
	var open []*br
	for _, e := range o.rec.events {
		if !e.Key.host() {
			continue
		}
		switch e.K {
		case 'B':
			b := &br{key: e.Key, args: hexs(e.Vals)}
			seen = append(seen, b)
			open = append(open, b)
		case 'A', 'X':
			for i := len(open) - 1; i >= 0; i-- {
				if open[i].key == e.Key {
					if e.K == 'A' {
						open[i].res = hexs(e.Vals)
						open[i].closed = true
					}
					open = append(open[:i], open[i+1:]...)
					break
				}
			}
		}
	}
	// map env index -> host name via order: logging hosts are h0..hk at indexes 0..k
	li := 0
	for _, b := range seen {
		name := fmt.Sprintf("h%d", b.key.idx())
		// only logging hosts appear in `logged`
		if li < len(logged) && logged[li].name == name {
			lr.HostChk++
			if logged[li].args != b.args {
				add("host-function-params-differ:"+eng, fmt.Sprintf("host %s saw (%s) but Before carried (%s)", name, logged[li].args, b.args))
			}
			if b.closed && logged[li].res != b.res {
				add("host-function-results-differ:"+eng, fmt.Sprintf("host %s returned [%s] but After carried [%s]", name, logged[li].res, b.res))
			}
			li++
		}
	}
}

// sharedCase: two runtimes share a CompilationCache, each compiles the same
// binary with its own recorder; only B's instance is called: A's recorder must
// stay silent and B's must see B's calls.
func sharedCase(p *wgen.Program, script []wrun.Step, lr *lresult, add func(string, string)) {
	for _, compiler := range []bool{false, true} {
		eng := map[bool]string{false: "interp", true: "compiler"}[compiler]
		cache := wazero.NewCompilationCache()
		mk := func() (*recorder, *wrun.Session) {
			rec := &recorder{engine: eng, all: true, tcFuncs: map[fid]bool{}, counts: map[string]int{}, listened: func(fid) bool { return true }}
			ctx := experimental.WithFunctionListenerFactory(context.Background(), rec)
			s := wrun.NewSession(wrun.Options{Compiler: compiler, Ctx: ctx, RuntimeConfig: func(rc wazero.RuntimeConfig) wazero.RuntimeConfig {
				return rc.WithCompilationCache(cache)
			}}, wrun.Features(p.Cfg))
			return rec, s
		}
		recA, sA := mk()
		recB, sB := mk()
		inA := sA.Instantiate(p, "guest")
		nA := len(recA.events)
		inB := sB.Instantiate(p, "guest")
		for si, st := range script {
			inB.Step(si, st)
		}
		_ = inA
		ranCalls := 0
		for _, e := range inB.T.Events {
			if strings.HasPrefix(e, "call ") {
				ranCalls++
			}
		}
		if len(recA.events) > nA {
			add("shared-cache:events-of-runtime-B-delivered-to-runtime-A-listeners:"+eng,
				fmt.Sprintf("runtime A's recorder received %d events for calls made only on runtime B's instance; B's recorder received %d", len(recA.events)-nA, len(recB.events)))
		} else if ranCalls > 0 && len(recB.events) == 0 && inB.Mod != nil {
			add("shared-cache:no-events-for-runtime-B:"+eng, "runtime B's recorder received nothing")
		}
		sA.Close()
		sB.Close()
		cache.Close(context.Background())
	}
}

// subsetPairCase: one binary is compiled twice in one cache domain (two runtimes sharing a CompilationCache), each
// time with a factory that selects a DIFFERENT subset of its functions (the subsets differ in exactly one function,
// preferably one with a high index). Only the second instance is called: its recorder must receive exactly the stream
// that the same subset receives in a runtime of its own, and the first recorder must stay silent.
func subsetPairCase(seed uint64, lr *lresult, add func(string, string)) {
	r := core.NewRng(int64(seed), 31)
	cfg := wgen.DefaultConfig(r)
	cfg.Funcs = 9 + r.Intn(10)
	cfg.CallHeavy = true
	cfg.TailCall = false
	if cfg.HostFuncs > 8 {
		cfg.HostFuncs = 2
	}
	p := wgen.Generate(r, cfg)
	script := wrun.GenScript(r, p, 3+r.Intn(4))
	nImp, nLoc := len(p.Host), len(p.Funcs)
	flip := uint32(nImp + nLoc - 1 - r.Intn(nLoc-8)) // a local function whose position in the function section is >= 8
	variant := r.Intn(3)
	subSeed := r.U64()
	base := func(f fid) bool {
		if f.host() || variant == 0 {
			return true // variant 0: all functions
		}
		h := subSeed ^ uint64(f.idx())*0x9E3779B97F4A7C15
		h ^= h >> 29
		h *= 0xBF58476D1CE4E5B9
		if variant == 1 {
			return (h>>17)&3 != 0 // ~75%
		}
		return (h>>17)&7 == 0 || f.idx() == uint32(nImp) // sparse, first local function always
	}
	s1 := func(f fid) bool { return base(f) }
	s2 := func(f fid) bool {
		if !f.host() && f.idx() == flip {
			return !base(f)
		}
		return base(f)
	}
	if r.Bool() {
		s1, s2 = s2, s1
	}
	lr.Events["subset_pair_cases"]++
	for _, compiler := range []bool{false, true} {
		eng := map[bool]string{false: "interp", true: "compiler"}[compiler]
		run := func(cache wazero.CompilationCache, sets ...func(fid) bool) (recs []*recorder, last *wrun.Inst, close func()) {
			var ss []*wrun.Session
			for _, set := range sets {
				rec := &recorder{engine: eng, tcFuncs: map[fid]bool{}, counts: map[string]int{}, listened: set}
				ctx := experimental.WithFunctionListenerFactory(context.Background(), rec)
				s := wrun.NewSession(wrun.Options{Compiler: compiler, Ctx: ctx, NoDigest: true, RuntimeConfig: func(rc wazero.RuntimeConfig) wazero.RuntimeConfig {
					if cache != nil {
						rc = rc.WithCompilationCache(cache)
					}
					return rc
				}}, wrun.Features(p.Cfg))
				ss = append(ss, s)
				recs = append(recs, rec)
				last = s.Instantiate(p, "guest")
			}
			return recs, last, func() {
				for _, s := range ss {
					s.Close()
				}
			}
		}
		refRecs, refIn, refClose := run(nil, s2)
		for si, st := range script {
			refIn.Step(si, st)
		}
		ref := append([]ev(nil), refRecs[0].events...)
		refOverflow := refRecs[0].overflow || refIn.T.StackOverflow
		refClose()

		cache := wazero.NewCompilationCache()
		recs, inB, closeAll := run(cache, s1, s2)
		nA := len(recs[0].events)
		for si, st := range script {
			inB.Step(si, st)
		}
		got := recs[1].events
		switch {
		case len(recs[0].events) > nA:
			add("subset-pair:events-delivered-to-the-other-compilation's-listeners:"+eng,
				fmt.Sprintf("two compilations of one binary through one cache with listener subsets that differ in function %d: the first factory's listeners received %d events for calls made on the second instance only (second received %d, alone it receives %d)", flip, len(recs[0].events)-nA, len(got), len(ref)))
		case refOverflow || recs[1].overflow || inB.T.StackOverflow:
			lr.Events["subset_pair_inconclusive_overflow"]++
		default:
			diff := -1
			for i := 0; i < len(ref) && i < len(got); i++ {
				if ref[i].K != got[i].K || ref[i].Key != got[i].Key || hexs(ref[i].Vals) != hexs(got[i].Vals) {
					diff = i
					break
				}
			}
			if diff < 0 && len(ref) != len(got) {
				diff = min(len(ref), len(got))
			}
			if diff >= 0 {
				add("subset-pair:stream-differs-from-the-same-subset-compiled-alone:"+eng,
					fmt.Sprintf("listener subsets differ in function %d (variant %d); alone the second subset receives %d events, after the first compilation through the same cache %d; first difference at event %d", flip, variant, len(ref), len(got), diff))
			} else {
				lr.Events["subset_pair_streams_equal"]++
				if len(ref) > 0 {
					lr.Events["subset_pair_streams_equal_nonempty"]++
				}
			}
		}
		closeAll()
		cache.Close(context.Background())
	}
}

func init() { Prop.Replay = replay }

// replay prints the complete event stream (all-functions listener set) of the
// case in a witness file for both engines, with the automaton's verdicts.
func replay(c *core.Ctx, path string) int {
	b, err := os.ReadFile(path)
	if err != nil {
		fmt.Println(err)
		return 2
	}
	var w struct {
		Witness struct {
			Case lcase `json:"case"`
		} `json:"witness"`
	}
	json.Unmarshal(b, &w)
	lc := w.Witness.Case
	r := core.NewRng(int64(lc.Seed), 9)
	cfg := wgen.DefaultConfig(r)
	cfg.CallHeavy = r.Chance(3, 4)
	cfg.TrapHeavy = r.Chance(1, 4)
	if cfg.HostFuncs == 0 {
		cfg.HostFuncs = 2
	}
	p := wgen.Generate(r, cfg)
	script := wrun.GenScript(r, p, 3+r.Intn(6))
	os.WriteFile(path+".wasm", p.Bin, 0o644)
	fmt.Printf("cfg %+v\nwasm: %s.wasm\n", cfg, path)
	if rule := os.Getenv("C20_REDUCE"); rule != "" {
		compiler := os.Getenv("C20_REDUCE_ENGINE") == "compiler"
		still := func(p *wgen.Program, sc []wrun.Step) bool {
			o := runWith(p, sc, compiler, 1, 0, nil)
			for _, v := range o.rec.viols {
				if v.rule == rule {
					return true
				}
			}
			return false
		}
		if !still(p, script) {
			fmt.Println("rule does not fire on the unreduced case")
			return 2
		}
		script = wreduce.Reduce(p, script, still, 30000)
		os.WriteFile(path+".min.wasm", p.Bin, 0o644)
		fmt.Println("REDUCED script:", script)
		fmt.Print(wdis.Module(p.Bin))
	}
	for _, compiler := range []bool{false, true} {
		o := runWith(p, script, compiler, 1, 0, nil)
		fmt.Printf("=== compiler=%v: %d events, %d violations\n", compiler, len(o.rec.events), len(o.rec.viols))
		limit := 400
		if s := os.Getenv("C20_EVENTS"); s != "" {
			fmt.Sscanf(s, "%d", &limit)
		}
		first := 0
		if len(o.rec.viols) > 0 {
			first = o.rec.viols[0].at
		}
		for i, e := range o.rec.events {
			if i < first-limit/2 {
				continue
			}
			if i >= first+limit/2 {
				fmt.Println("  …")
				break
			}
			st := e.Stack
			e.Stack = nil
			fmt.Printf("  %5d [step %d] %s depth=%d\n", i, e.Step, e.String(), len(st))
		}
		for _, v := range o.rec.viols {
			fmt.Printf("  VIOL %s: %s\n", v.rule, core.Trunc(v.detail, 300))
		}
		for i, oc := range o.stepOut {
			fmt.Printf("  step %d %s -> %s\n", i+1, script[i].String(), oc)
		}
	}
	return 0
}
