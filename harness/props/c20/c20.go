// Package c20 decides C20 (function listeners see every call, correctly
// bracketed): generated call-heavy programs run with a recording listener
// factory; an online bracket automaton with a shadow stack checks every event,
// the stack iterator is compared with the shadow stack, parameters/results are
// compared with what the harness and its host functions actually saw, event
// streams are compared across engines and guest results with/without listeners.
package c20

import (
	"context"
	"encoding/hex"
	"encoding/json"
	"fmt"
	"regexp"
	"strings"

	"github.com/tetratelabs/wazero"
	"github.com/tetratelabs/wazero/api"
	"github.com/tetratelabs/wazero/experimental"
	"github.com/tetratelabs/wazero/verifharness/core"
	"github.com/tetratelabs/wazero/verifharness/wdis"
	"github.com/tetratelabs/wazero/verifharness/wgen"
	"github.com/tetratelabs/wazero/verifharness/wrun"
)

var Prop = &core.Prop{ID: "C20", Run: run, Child: child}

type lcase struct {
	Seed   uint64 `json:"seed"`
	Shared bool   `json:"shared,omitempty"`
}

type finding struct {
	Sig    string `json:"sig"`
	Detail string `json:"detail"`
}

type lresult struct {
	Findings []finding      `json:"findings,omitempty"`
	Bin      string         `json:"bin,omitempty"`
	Events   map[string]int `json:"events"`
	MaxDepth int            `json:"max_depth"`
	Unwinds  int            `json:"max_unwind"`
	IterChk  int            `json:"iterator_checks"`
	HostChk  int            `json:"host_param_checks"`
	TopChk   int            `json:"toplevel_param_checks"`
	EngCmp   int            `json:"engine_comparisons"`
	Inconcl  string         `json:"inconcl,omitempty"`
	Sample   []string       `json:"sample,omitempty"`
	Calls    int            `json:"calls"`
}

func run(c *core.Ctx) int {
	n := c.N(4000, 90000)
	rng := core.NewRng(c.Seed, 20)
	var cases []json.RawMessage
	for i := 0; i < n; i++ {
		cases = append(cases, core.J(lcase{Seed: rng.U64(), Shared: i%8 == 7}))
	}
	res := core.RunCases(c, "prog", cases, core.ChildOpts{Batch: 60, TimeoutS: 900})
	evals := int64(0)
	for _, r := range res {
		if r.Crash != nil {
			if r.Crash.Kind == "timeout" {
				c.Inconclusive("watchdog")
				continue
			}
			c.Violate("crash:"+r.Crash.Kind+":"+core.Trunc(strings.Join(strings.Fields(r.Crash.Detail), "_"), 80), r.Crash.Detail, map[string]any{"case": cases[r.Index], "crash": r.Crash})
			continue
		}
		var lr lresult
		if json.Unmarshal(r.Out, &lr) != nil {
			c.Inconclusive("bad-child-output")
			continue
		}
		evals++
		tot := 0
		for k, v := range lr.Events {
			c.Count("events_"+k, int64(v))
			tot += v
		}
		c.Count("calls", int64(lr.Calls))
		c.Count("iterator_checks", int64(lr.IterChk))
		c.Count("host_param_checks", int64(lr.HostChk))
		c.Count("toplevel_param_checks", int64(lr.TopChk))
		c.Count("engine_stream_comparisons", int64(lr.EngCmp))
		c.Distinct("nesting_depths", fmt.Sprint(lr.MaxDepth))
		c.Distinct("unwind_depths", fmt.Sprint(lr.Unwinds))
		if lr.Inconcl != "" {
			c.Inconclusive(lr.Inconcl)
		}
		for _, f := range lr.Findings {
			c.Violate(f.Sig, f.Detail, map[string]any{"case": cases[r.Index], "bin_hex": lr.Bin})
		}
		if tot > 0 {
			c.Distinct("programs_with_events", fmt.Sprint(r.Index))
		}
		if len(lr.Sample) > 0 && r.Index%700 == 0 {
			c.Sample(map[string]any{"case": cases[r.Index], "event_stream_head": lr.Sample})
		}
	}
	c.Assume("tail calls: call depth is implementation-defined; event streams of programs that execute tail calls are not compared across engines, but every Before still needs its own After/Abort")
	c.Assume("the stack iterator is only required to list the frames of the current api.Function.Call activation")
	return c.Finish(evals, int64(c.DistinctN("programs_with_events")),
		"call-heavy wgen programs x PRNG call scripts x listener sets {all functions, PRNG subset} x both engines; online bracket automaton + shadow stack, iterator vs shadow stack, params/results vs harness-known values and host-call log, cross-engine stream equality (non-tail-call programs), guest trace with vs without listeners; every 8th case: two runtimes sharing a CompilationCache each with its own recorder; non-trivial = program produced listener events")
}

// ---------------------------------------------------------------------------

type ev struct {
	K     byte // B A X
	Key   string
	Vals  []uint64
	Stack []string
	Step  int
}

func (e ev) String() string {
	switch e.K {
	case 'B':
		return fmt.Sprintf("Before %s(%s) stack=%v", e.Key, hexs(e.Vals), e.Stack)
	case 'A':
		return fmt.Sprintf("After  %s -> [%s]", e.Key, hexs(e.Vals))
	}
	return fmt.Sprintf("Abort  %s", e.Key)
}

func hexs(v []uint64) string {
	s := make([]string, len(v))
	for i, x := range v {
		s[i] = fmt.Sprintf("%#x", x)
	}
	return strings.Join(s, ",")
}

type viol struct {
	rule   string
	detail string
	tc     bool // a tail-calling function is involved
}

type recorder struct {
	engine   string
	all      bool
	listened func(mod string, idx uint32) bool
	tcFuncs  map[string]bool // keys of functions whose body contains return_call*
	events   []ev
	stack    []string
	actBase  []int
	viols    []viol
	step     int
	maxDepth int
	iterChk  int
	counts   map[string]int
}

func key(d api.FunctionDefinition) string { return fmt.Sprintf("%s.%d", d.ModuleName(), d.Index()) }

func (r *recorder) NewFunctionListener(d api.FunctionDefinition) experimental.FunctionListener {
	if !r.listened(d.ModuleName(), d.Index()) {
		return nil
	}
	return r
}

func canon(ts []api.ValueType, vals []uint64) []uint64 {
	out := append([]uint64(nil), vals...)
	j := 0
	for _, t := range ts {
		if j >= len(out) {
			break
		}
		switch t {
		case api.ValueTypeI32, api.ValueTypeF32:
			out[j] &= 0xffffffff
			j++
		case 0x7b:
			j += 2
		default:
			j++
		}
	}
	return out
}

func (r *recorder) tcInvolved(k string) bool {
	if r.tcFuncs[k] {
		return true
	}
	for _, f := range r.stack {
		if r.tcFuncs[f] {
			return true
		}
	}
	return false
}

func (r *recorder) Before(ctx context.Context, mod api.Module, d api.FunctionDefinition, params []uint64, it experimental.StackIterator) {
	k := key(d)
	var st []string
	for it.Next() {
		st = append(st, key(it.Function().Definition()))
		if len(st) > 4000 {
			break
		}
	}
	r.stack = append(r.stack, k)
	if len(r.stack) > r.maxDepth {
		r.maxDepth = len(r.stack)
	}
	r.counts["before"]++
	r.events = append(r.events, ev{K: 'B', Key: k, Vals: canon(d.ParamTypes(), params), Stack: st, Step: r.step})
	// iterator checks (bounded depth: the shadow stack of very deep recursions is not compared frame by frame)
	if len(st) == 0 {
		r.viols = append(r.viols, viol{"iterator-empty", "Before " + k + ": iterator has no entry", r.tcInvolved(k)})
		return
	}
	if st[0] != k {
		r.viols = append(r.viols, viol{"iterator-first-not-callee", fmt.Sprintf("Before %s: iterator starts with %s (iterator %v)", k, st[0], trunc(st)), r.tcInvolved(k)})
		return
	}
	base := 0
	if len(r.actBase) > 0 {
		base = r.actBase[len(r.actBase)-1]
	}
	want := make([]string, 0, len(r.stack)-base)
	for i := len(r.stack) - 1; i >= base; i-- {
		want = append(want, r.stack[i])
	}
	got := st
	if !r.all {
		got = got[:0:0]
		for _, s := range st {
			if r.listenedKey(s) {
				got = append(got, s)
			}
		}
	}
	r.iterChk++
	if len(want) <= 600 && strings.Join(got, ",") != strings.Join(want, ",") {
		r.viols = append(r.viols, viol{"iterator-differs-from-call-chain", fmt.Sprintf("Before %s: iterator %v, shadow stack of this activation (top first) %v", k, trunc(got), trunc(want)), r.tcInvolved(k)})
	}
}

func (r *recorder) listenedKey(k string) bool {
	i := strings.LastIndexByte(k, '.')
	var idx uint32
	fmt.Sscanf(k[i+1:], "%d", &idx)
	return r.listened(k[:i], idx)
}

func trunc(s []string) []string {
	if len(s) > 12 {
		return append(append([]string(nil), s[:12]...), "…")
	}
	return s
}

func (r *recorder) close(kind byte, d api.FunctionDefinition, vals []uint64) {
	k := key(d)
	name := map[byte]string{'A': "after", 'X': "abort"}[kind]
	r.counts[name]++
	r.events = append(r.events, ev{K: kind, Key: k, Vals: vals, Step: r.step})
	if len(r.stack) == 0 {
		r.viols = append(r.viols, viol{name + "-without-open-before", fmt.Sprintf("%s %s with an empty shadow stack", name, k), r.tcFuncs[k]})
		return
	}
	top := r.stack[len(r.stack)-1]
	if top != k {
		// is it open deeper in the stack? (improper nesting) or not at all?
		open := false
		for _, f := range r.stack {
			if f == k {
				open = true
			}
		}
		tc := r.tcInvolved(k)
		if open {
			r.viols = append(r.viols, viol{name + "-not-for-innermost-open-call", fmt.Sprintf("%s %s while innermost open call is %s (stack top-first %v)", name, k, top, trunc(rev(r.stack))), tc})
			// pop down to it to resynchronise
			for len(r.stack) > 0 && r.stack[len(r.stack)-1] != k {
				r.stack = r.stack[:len(r.stack)-1]
			}
			r.stack = r.stack[:len(r.stack)-1]
		} else {
			r.viols = append(r.viols, viol{name + "-without-open-before", fmt.Sprintf("%s %s but no Before of it is open (stack top-first %v)", name, k, trunc(rev(r.stack))), tc})
		}
		return
	}
	r.stack = r.stack[:len(r.stack)-1]
}

func rev(s []string) []string {
	o := make([]string, len(s))
	for i := range s {
		o[len(s)-1-i] = s[i]
	}
	return o
}

func (r *recorder) After(ctx context.Context, mod api.Module, d api.FunctionDefinition, results []uint64) {
	r.close('A', d, canon(d.ResultTypes(), results))
}

func (r *recorder) Abort(ctx context.Context, mod api.Module, d api.FunctionDefinition, err error) {
	r.close('X', d, nil)
}

// endStep: after a top-level call returned, nothing may remain open.
func (r *recorder) endStep() {
	if len(r.stack) > 0 {
		tc := false
		for _, f := range r.stack {
			if r.tcFuncs[f] {
				tc = true
			}
		}
		r.viols = append(r.viols, viol{"before-never-closed", fmt.Sprintf("%d Before events without After/Abort when the top-level call returned; open (top first): %v", len(r.stack), trunc(rev(r.stack))), tc})
		r.stack = r.stack[:0]
	}
	r.actBase = r.actBase[:0]
}

var reHost = regexp.MustCompile(`^  host (h\d+)\(([^)]*)\) -> \[([^\]]*)\]`)

type runOut struct {
	t       *wrun.Trace
	rec     *recorder
	stepOut []string // outcome class per step ("" for non-call steps)
}

func tailCallFuncs(p *wgen.Program) map[string]bool {
	out := map[string]bool{}
	nImp := uint32(len(p.Host))
	for i, f := range p.Mod.Funcs {
		for _, in := range wdis.Instrs(f.Body) {
			if strings.HasPrefix(in.Name, "return_call") {
				out[fmt.Sprintf("guest.%d", nImp+uint32(i))] = true
			}
		}
	}
	return out
}

func runWith(p *wgen.Program, script []wrun.Step, compiler bool, mode int, subsetSeed uint64, cache wazero.CompilationCache) *runOut {
	rec := &recorder{engine: map[bool]string{false: "interp", true: "compiler"}[compiler], all: mode == 1, tcFuncs: tailCallFuncs(p), counts: map[string]int{}}
	rec.listened = func(mod string, idx uint32) bool {
		if mode == 1 {
			return true
		}
		h := subsetSeed ^ uint64(idx)*0x9E3779B97F4A7C15
		if mod != "guest" {
			h ^= 0xabcdef
		}
		h ^= h >> 29
		h *= 0xBF58476D1CE4E5B9
		return (h>>17)&3 != 0 // ~75% of the functions
	}
	ctx := context.Background()
	opt := wrun.Options{Compiler: compiler}
	if mode != 0 {
		ctx = experimental.WithFunctionListenerFactory(ctx, rec)
		opt.OnReenter = func(enter bool) {
			if enter {
				rec.actBase = append(rec.actBase, len(rec.stack))
			} else if len(rec.actBase) > 0 {
				rec.actBase = rec.actBase[:len(rec.actBase)-1]
			}
		}
	}
	opt.Ctx = ctx
	if cache != nil {
		opt.RuntimeConfig = func(rc wazero.RuntimeConfig) wazero.RuntimeConfig { return rc.WithCompilationCache(cache) }
	}
	s := wrun.NewSession(opt, wrun.Features(p.Cfg))
	defer s.Close()
	in := s.Instantiate(p, "guest")
	rec.endStep() // start function activity must be closed too
	out := &runOut{t: in.T, rec: rec}
	for si, st := range script {
		rec.step = si + 1
		n0 := len(in.T.Events)
		in.Step(si, st)
		rec.endStep()
		oc := ""
		if st.Kind == "call" {
			for _, e := range in.T.Events[n0:] {
				if strings.HasPrefix(e, "call ") {
					if i := strings.Index(e, "-> "); i > 0 {
						oc = e[i+3:]
					}
				}
			}
		}
		out.stepOut = append(out.stepOut, oc)
	}
	return out
}

func child(mode string, in json.RawMessage) any {
	var lc lcase
	json.Unmarshal(in, &lc)
	r := core.NewRng(int64(lc.Seed), 9)
	cfg := wgen.DefaultConfig(r)
	cfg.CallHeavy = r.Chance(3, 4)
	cfg.TrapHeavy = r.Chance(1, 4)
	if cfg.HostFuncs == 0 {
		cfg.HostFuncs = 2
	}
	p := wgen.Generate(r, cfg)
	script := wrun.GenScript(r, p, 3+r.Intn(6))
	subsetSeed := r.U64()
	lr := lresult{Events: map[string]int{}}
	add := func(sig, detail string) {
		for _, f := range lr.Findings {
			if f.Sig == sig {
				return
			}
		}
		lr.Findings = append(lr.Findings, finding{sig, detail})
	}
	usesTC := p.OpsUsed["return_call"]+p.OpsUsed["return_call_indirect"] > 0

	if lc.Shared {
		sharedCase(p, script, &lr, add)
	}

	var streams [2][]ev
	var soverflow bool
	for e := 0; e < 2; e++ {
		compiler := e == 1
		eng := map[bool]string{false: "interp", true: "compiler"}[compiler]
		none := runWith(p, script, compiler, 0, 0, nil)
		for _, lmode := range []int{1, 2} {
			o := runWith(p, script, compiler, lmode, subsetSeed, nil)
			rec := o.rec
			set := map[int]string{1: "all", 2: "subset"}[lmode]
			for k, v := range rec.counts {
				lr.Events[k] += v
			}
			if rec.maxDepth > lr.MaxDepth {
				lr.MaxDepth = rec.maxDepth
			}
			lr.IterChk += rec.iterChk
			if o.t.Internal != "" {
				add("internal-failure:"+eng, o.t.Internal)
			}
			// qualify and report automaton violations
			for _, v := range rec.viols {
				q := ""
				if v.tc {
					q = ":tailcall-function-involved"
				}
				add(fmt.Sprintf("%s:%s%s", v.rule, eng, q), fmt.Sprintf("listeners=%s engine=%s\n%s\nstream tail:\n%s", set, eng, v.detail, tail(rec.events, 14)))
			}
			// stack overflow qualification: re-tag before-never-closed when the step overflowed
			for i, oc := range o.stepOut {
				if strings.Contains(oc, "stack overflow") {
					soverflow = true
					_ = i
				}
			}
			// guest results with vs without listeners
			if idx, d := wrun.Diff(none.t, o.t); idx >= 0 && !none.t.StackOverflow && !o.t.StackOverflow {
				add("guest-trace-differs-with-listeners:"+eng, fmt.Sprintf("listeners=%s (A = without, B = with)\n%s", set, d))
			}
			// top-level params/results and unwind depths
			checkTopLevel(p, script, o, &lr, eng, add)
			if lmode == 1 {
				checkHostLog(o, &lr, eng, add)
				streams[e] = rec.events
			}
		}
	}
	// cross-engine stream equality (all-functions set), except tail-call programs and stack exhaustion
	if !usesTC && !soverflow {
		lr.EngCmp++
		a, b := streams[0], streams[1]
		n := min(len(a), len(b))
		diff := -1
		for i := 0; i < n; i++ {
			if a[i].K != b[i].K || a[i].Key != b[i].Key || hexs(a[i].Vals) != hexs(b[i].Vals) {
				diff = i
				break
			}
		}
		if diff < 0 && len(a) != len(b) {
			diff = n
		}
		if diff >= 0 {
			ga, gb := "<end>", "<end>"
			if diff < len(a) {
				ga = a[diff].String()
			}
			if diff < len(b) {
				gb = b[diff].String()
			}
			add("event-streams-differ-between-engines:"+streamDiffKind(a, b, diff), fmt.Sprintf("event %d:\n interp:   %s\n compiler: %s\ninterp stream before it:\n%s", diff, ga, gb, tail(a[:min(diff, len(a))], 8)))
		}
	} else if soverflow {
		lr.Inconcl = "stack-exhaustion(engine comparison skipped)"
	}
	for _, st := range script {
		if st.Kind == "call" {
			lr.Calls++
		}
	}
	if len(lr.Findings) > 0 {
		lr.Bin = hex.EncodeToString(p.Bin)
	} else if len(streams[0]) > 0 {
		for _, e := range streams[0][:min(len(streams[0]), 8)] {
			lr.Sample = append(lr.Sample, e.String())
		}
	}
	return lr
}

func streamDiffKind(a, b []ev, i int) string {
	k := func(s []ev) string {
		if i >= len(s) {
			return "end"
		}
		return string(s[i].K)
	}
	ka, kb := k(a), k(b)
	if ka == kb && i < len(a) && i < len(b) {
		if a[i].Key != b[i].Key {
			return ka + ":different-function"
		}
		return ka + ":different-values"
	}
	return "interp=" + ka + ",compiler=" + kb
}

func tail(evs []ev, n int) string {
	lo := len(evs) - n
	if lo < 0 {
		lo = 0
	}
	var sb strings.Builder
	for _, e := range evs[lo:] {
		fmt.Fprintf(&sb, "  [step %d] %s\n", e.Step, e.String())
	}
	return sb.String()
}

// checkTopLevel: the first Before of a step that belongs to the called export
// must carry the call's arguments and its matching After the call's results.
func checkTopLevel(p *wgen.Program, script []wrun.Step, o *runOut, lr *lresult, eng string, add func(string, string)) {
	rec := o.rec
	for si, st := range script {
		if st.Kind != "call" {
			continue
		}
		k := fmt.Sprintf("guest.%d", p.FuncIndex[st.Fn])
		// events of this step
		var evs []ev
		for _, e := range rec.events {
			if e.Step == si+1 {
				evs = append(evs, e)
			}
		}
		// skip the __setfuel bracket (first B/A pair) if listened
		for len(evs) > 0 && strings.HasPrefix(evs[0].Key, "guest.") && evs[0].Key != k && isHelper(p, evs[0].Key) {
			evs = evs[1:]
		}
		if len(evs) == 0 || evs[0].K != 'B' || evs[0].Key != k {
			continue // function not listened (subset) — nothing to compare
		}
		lr.TopChk++
		want := canonArgs(p, st)
		if hexs(evs[0].Vals) != hexs(want) {
			add("toplevel-params-differ:"+eng, fmt.Sprintf("call %s(%s): Before carried (%s)", st.Fn, hexs(want), hexs(evs[0].Vals)))
		}
		// unwinding depth on failure: number of consecutive aborts at the end
		oc := o.stepOut[si]
		if !strings.HasPrefix(oc, "[") {
			n := 0
			for i := len(evs) - 1; i >= 0 && evs[i].K == 'X'; i-- {
				n++
			}
			if n > lr.Unwinds {
				lr.Unwinds = n
			}
			continue
		}
		// results: the last event of the step must be After of k with the call's results
		last := evs[len(evs)-1]
		if last.K == 'A' && last.Key == k {
			got := "[" + hexs(last.Vals) + "]"
			if got != oc {
				add("toplevel-results-differ:"+eng, fmt.Sprintf("call %s returned %s but After carried %s", st.Fn, oc, got))
			}
		}
	}
}

func isHelper(p *wgen.Program, key string) bool {
	var idx uint32
	fmt.Sscanf(key, "guest.%d", &idx)
	return idx >= uint32(len(p.Host)+len(p.Funcs))
}

func canonArgs(p *wgen.Program, st wrun.Step) []uint64 {
	var fi int
	fmt.Sscanf(st.Fn, "f%d", &fi)
	ts := p.Funcs[fi].Params
	out := append([]uint64(nil), st.Args...)
	j := 0
	for _, t := range ts {
		if j >= len(out) {
			break
		}
		switch t {
		case 0x7f, 0x7d:
			out[j] &= 0xffffffff
			j++
		case 0x7b:
			j += 2
		default:
			j++
		}
	}
	return out
}

// checkHostLog: with listeners on all functions, the brackets of the logging
// host functions must carry exactly what the host function saw and returned.
func checkHostLog(o *runOut, lr *lresult, eng string, add func(string, string)) {
	type hostCall struct{ name, args, res string }
	var logged []hostCall
	for _, e := range o.t.Events {
		if m := reHost.FindStringSubmatch(e); m != nil {
			logged = append(logged, hostCall{m[1], m[2], m[3]})
		}
	}
	// listener view: Before/After pairs of env.* functions that are "log" hosts, in order of Before
	type br struct {
		key       string
		args, res string
		closed    bool
	}
	var seen []*br
	var open []*br
	for _, e := range o.rec.events {
		if !strings.HasPrefix(e.Key, "env") {
			continue
		}
		switch e.K {
		case 'B':
			b := &br{key: e.Key, args: hexs(e.Vals)}
			seen = append(seen, b)
			open = append(open, b)
		case 'A', 'X':
			for i := len(open) - 1; i >= 0; i-- {
				if open[i].key == e.Key {
					if e.K == 'A' {
						open[i].res = hexs(e.Vals)
						open[i].closed = true
					}
					open = append(open[:i], open[i+1:]...)
					break
				}
			}
		}
	}
	// map env index -> host name via order: logging hosts are h0..hk at indexes 0..k
	li := 0
	for _, b := range seen {
		var idx int
		fmt.Sscanf(b.key[strings.LastIndexByte(b.key, '.')+1:], "%d", &idx)
		name := fmt.Sprintf("h%d", idx)
		// only logging hosts appear in `logged`
		if li < len(logged) && logged[li].name == name {
			lr.HostChk++
			if logged[li].args != b.args {
				add("host-function-params-differ:"+eng, fmt.Sprintf("host %s saw (%s) but Before carried (%s)", name, logged[li].args, b.args))
			}
			if b.closed && logged[li].res != b.res {
				add("host-function-results-differ:"+eng, fmt.Sprintf("host %s returned [%s] but After carried [%s]", name, logged[li].res, b.res))
			}
			li++
		}
	}
}

// sharedCase: two runtimes share a CompilationCache, each compiles the same
// binary with its own recorder; only B's instance is called: A's recorder must
// stay silent and B's must see B's calls.
func sharedCase(p *wgen.Program, script []wrun.Step, lr *lresult, add func(string, string)) {
	for _, compiler := range []bool{false, true} {
		eng := map[bool]string{false: "interp", true: "compiler"}[compiler]
		cache := wazero.NewCompilationCache()
		mk := func() (*recorder, *wrun.Session) {
			rec := &recorder{engine: eng, all: true, tcFuncs: map[string]bool{}, counts: map[string]int{}, listened: func(string, uint32) bool { return true }}
			ctx := experimental.WithFunctionListenerFactory(context.Background(), rec)
			s := wrun.NewSession(wrun.Options{Compiler: compiler, Ctx: ctx, RuntimeConfig: func(rc wazero.RuntimeConfig) wazero.RuntimeConfig {
				return rc.WithCompilationCache(cache)
			}}, wrun.Features(p.Cfg))
			return rec, s
		}
		recA, sA := mk()
		recB, sB := mk()
		inA := sA.Instantiate(p, "guest")
		nA := len(recA.events)
		inB := sB.Instantiate(p, "guest")
		for si, st := range script {
			inB.Step(si, st)
		}
		_ = inA
		ranCalls := 0
		for _, e := range inB.T.Events {
			if strings.HasPrefix(e, "call ") {
				ranCalls++
			}
		}
		if len(recA.events) > nA {
			add("shared-cache:events-of-runtime-B-delivered-to-runtime-A-listeners:"+eng,
				fmt.Sprintf("runtime A's recorder received %d events for calls made only on runtime B's instance; B's recorder received %d", len(recA.events)-nA, len(recB.events)))
		} else if ranCalls > 0 && len(recB.events) == 0 && inB.Mod != nil {
			add("shared-cache:no-events-for-runtime-B:"+eng, "runtime B's recorder received nothing")
		}
		sA.Close()
		sB.Close()
		cache.Close(context.Background())
	}
}
