package c20

// Cross-module listener scenario (child mode "cross").
//
// Two or three hand-built wasm modules plus a host module live in one runtime:
//
//	env  host module: h_lin (api.GoFunction), h_mod (api.GoModuleFunction, panics for y==99)
//	c    optional library imported by b (chain a -> b -> c); c_mul traps for x==13
//	b    library: 2..N exported functions with different signatures (multi-value, i64/f64/f32 mixes),
//	     one traps for a particular argument, some call local functions / host functions / c,
//	     optionally exports a funcref table holding its functions
//	a    entry module importing b's functions (and b's table): wrappers doing wasm->wasm import
//	     calls and call_indirect through b's table, re-exports of imports, optionally a callback
//	     that a's element segment stores into b's table (chain a -> b -> a)
//
// a and b get PRNG numbers of never-called pad functions and PRNG function order,
// so their local function indexes overlap only partly. The listener factory hands
// out a DISTINCT listener object per function definition and remembers the
// definition each object was created for. A tiny Go model of every function
// predicts the complete event stream (kind, definition, parameters / results),
// the result and the failure class of each top-level call.

import (
	"context"
	"encoding/hex"
	"encoding/json"
	"errors"
	"fmt"
	"math"
	"sort"
	"strings"

	"github.com/tetratelabs/wazero"
	"github.com/tetratelabs/wazero/api"
	"github.com/tetratelabs/wazero/experimental"
	"github.com/tetratelabs/wazero/verifharness/core"
	"github.com/tetratelabs/wazero/verifharness/wenc"
)

type xcase struct {
	Seed uint64 `json:"seed"`
}

type xfinding struct {
	Sig     string `json:"sig"`
	Detail  string `json:"detail"`
	Witness any    `json:"witness,omitempty"`
}

type xresult struct {
	Findings []xfinding     `json:"findings,omitempty"`
	Counts   map[string]int `json:"counts"`
	Shape    string         `json:"shape"`
	Sample   []string       `json:"sample,omitempty"`
}

// crossRun is the parent side: fixed case count from the tier, children decide,
// counters/violations are merged into the C20 evidence. Returns the number of
// evaluated cases and the number of cases that observed a cross-module After.
func crossRun(c *core.Ctx) (evals, nontrivial int64) {
	n := c.N(300, 6000)
	rng := core.NewRng(c.Seed, 2020)
	var cases []json.RawMessage
	for i := 0; i < n; i++ {
		cases = append(cases, core.J(xcase{Seed: rng.U64()}))
	}
	res := core.RunCases(c, "cross", cases, core.ChildOpts{Batch: 20, TimeoutS: 600})
	for _, r := range res {
		if r.Crash != nil {
			if r.Crash.Kind == "timeout" {
				c.Inconclusive("cross:watchdog")
				continue
			}
			c.Violate("cross-module:crash:"+r.Crash.Kind+":"+core.Trunc(strings.Join(strings.Fields(r.Crash.Detail), "_"), 80), r.Crash.Detail, map[string]any{"cross_case": cases[r.Index], "crash": r.Crash})
			continue
		}
		var xr xresult
		if json.Unmarshal(r.Out, &xr) != nil {
			c.Inconclusive("cross:bad-child-output")
			continue
		}
		evals++
		for k, v := range xr.Counts {
			c.Count("cross_"+k, int64(v))
		}
		c.Distinct("cross_shapes", xr.Shape)
		if xr.Counts["after_events_of_functions_outside_the_entry_module"] > 0 {
			nontrivial++
		}
		for _, f := range xr.Findings {
			c.Violate(f.Sig, f.Detail, map[string]any{"cross_case": cases[r.Index], "cross": f.Witness})
		}
		if len(xr.Sample) > 0 && r.Index%150 == 0 {
			c.Sample(map[string]any{"cross_case": cases[r.Index], "shape": xr.Shape, "event_stream_head": xr.Sample})
		}
	}
	c.Count("cross_cases_evaluated", evals)
	c.Count("cross_cases_with_cross_module_after", nontrivial)
	if evals > 0 && nontrivial == 0 {
		c.Inconclusive("cross:no-cross-module-after-event-observed")
	}
	c.Assume("cross-module scenario: the `mod` argument of Before/After of a wasm function may be the calling module (interpreter) or the module defining the function (compiler); for host functions it is the calling module; Abort may also carry the module the top-level call was started on")
	return
}

// ---------------------------------------------------------------------------
// world: functions, their Go models, module binaries

type xfn struct {
	inst, ns string // instance name, FunctionDefinition.ModuleName (name section / host module name)
	idx      uint32
	name     string
	params   []byte
	results  []byte
	host     bool
	sem      func(w *xworld, a []uint64) ([]uint64, string)
}

func (f *xfn) key() string { return fmt.Sprintf("%s#%d:%s", f.ns, f.idx, f.name) }

type xlocal struct {
	name            string
	params, results []byte
	body            func(m *xmod) []byte
	sem             func(w *xworld, a []uint64) ([]uint64, string)
	export          bool
}

type ximport struct {
	mod, name, local string
	params, results  []byte
}

type xmod struct {
	inst, ns string
	w        *wenc.Module
	imps     []ximport
	locals   []*xlocal
	index    map[string]uint32
	bin      []byte
}

func (m *xmod) ix(name string) uint32 {
	i, ok := m.index[name]
	if !ok {
		panic("cross: unknown function " + m.inst + "." + name)
	}
	return i
}

type xentry struct {
	Inst   string `json:"inst"`
	Export string `json:"export"`
	fn     *xfn
}

type xcall struct {
	Entry xentry   `json:"entry"`
	Args  []uint64 `json:"args"`
}

type xev struct {
	K      byte
	Owner  string // definition the receiving listener object was created for
	Key    string // definition passed with the event
	Mod    string // Name() of the mod argument
	Vals   []uint64
	It0    string // first / second iterator entry (Before only)
	It1    string
	Caller *xfn // model only
	Fn     *xfn // model only
}

func (e xev) String() string {
	switch e.K {
	case 'B':
		return fmt.Sprintf("Before %s(%s) mod=%s", e.Key, hexs(e.Vals), e.Mod)
	case 'A':
		return fmt.Sprintf("After  %s -> [%s] mod=%s", e.Key, hexs(e.Vals), e.Mod)
	}
	return fmt.Sprintf("Abort  %s mod=%s", e.Key, e.Mod)
}

type xworld struct {
	mods     []*xmod         // instantiation order: c?, b, a
	fns      map[string]*xfn // inst.name
	byKey    map[string]*xfn
	tab      [8]*xfn
	entries  []xentry
	script   []xcall
	hostN    int
	trapDiv  bool
	shape    string
	listened func(f *xfn) bool
	// model state during one top-level call
	chain []*xfn
	exp   []xev
}

func (w *xworld) fn(inst, name string) *xfn {
	f := w.fns[inst+"."+name]
	if f == nil {
		panic("cross: model references unknown function " + inst + "." + name)
	}
	return f
}

func xmask(ts []byte, v []uint64) []uint64 {
	out := make([]uint64, len(v))
	for i := range v {
		out[i] = v[i]
		if i < len(ts) && (ts[i] == wenc.I32 || ts[i] == wenc.F32) {
			out[i] &= 0xffffffff
		}
	}
	return out
}

// call is the model's call: records the expected events of listened functions.
func (w *xworld) call(f *xfn, args []uint64) ([]uint64, string) {
	var caller *xfn
	if len(w.chain) > 0 {
		caller = w.chain[len(w.chain)-1]
	}
	w.chain = append(w.chain, f)
	l := w.listened != nil && w.listened(f)
	args = xmask(f.params, args)
	if l {
		w.exp = append(w.exp, xev{K: 'B', Key: f.key(), Vals: args, Caller: caller, Fn: f})
	}
	res, trap := f.sem(w, args)
	w.chain = w.chain[:len(w.chain)-1]
	if trap != "" {
		if l {
			w.exp = append(w.exp, xev{K: 'X', Key: f.key(), Caller: caller, Fn: f})
		}
		return nil, trap
	}
	res = xmask(f.results, res)
	if l {
		w.exp = append(w.exp, xev{K: 'A', Key: f.key(), Vals: res, Caller: caller, Fn: f})
	}
	return res, ""
}

var (
	tI32 = []byte{wenc.I32}
	tI64 = []byte{wenc.I64}
)

func sig(ts ...byte) []byte { return ts }

const (
	opI32Eq   = 0x46
	opI64Eq   = 0x51
	opI32Add  = 0x6a
	opI32Mul  = 0x6c
	opI32DivU = 0x6e
	opI32Xor  = 0x73
	opI64Add  = 0x7c
	opI64Sub  = 0x7d
	opI64Mul  = 0x7e
	opF32Add  = 0x92
	opF64Add  = 0xa0
	opWrap    = 0xa7
	opExtU    = 0xad
	opF32CvtS = 0xb2
	opF64CvtS = 0xb9
)

const cMulK = 0x9E3779B97F4A7C15

func code() *wenc.Code { return &wenc.Code{} }

// pass builds a body that forwards all parameters to callee (given by emit).
func getAll(c *wenc.Code, n int) *wenc.Code {
	for i := 0; i < n; i++ {
		c.LocalGet(uint32(i))
	}
	return c
}

func xnameSection(mod string, names map[uint32]string) wenc.Custom {
	var d []byte
	var s0 []byte
	s0 = wenc.U32(s0, uint32(len(mod)))
	s0 = append(s0, mod...)
	d = append(d, 0)
	d = wenc.U32(d, uint32(len(s0)))
	d = append(d, s0...)
	var idxs []int
	for i := range names {
		idxs = append(idxs, int(i))
	}
	sort.Ints(idxs)
	var s1 []byte
	s1 = wenc.U32(s1, uint32(len(idxs)))
	for _, i := range idxs {
		s1 = wenc.U32(s1, uint32(i))
		n := names[uint32(i)]
		s1 = wenc.U32(s1, uint32(len(n)))
		s1 = append(s1, n...)
	}
	d = append(d, 1)
	d = wenc.U32(d, uint32(len(s1)))
	d = append(d, s1...)
	return wenc.Custom{Name: "name", Data: d}
}

// finish lays the module out: imports first, locals in PRNG order with pads
// interleaved, bodies emitted once all indexes are known.
func (m *xmod) finish(w *xworld, r *core.Rng, pads int, extra func(m *xmod)) {
	m.w = &wenc.Module{}
	m.index = map[string]uint32{}
	names := map[uint32]string{}
	for _, im := range m.imps {
		i := m.w.ImportFunc(im.mod, im.name, im.params, im.results)
		m.index[im.local] = i
		names[i] = im.local
	}
	for i := 0; i < pads; i++ {
		m.locals = append(m.locals, &xlocal{name: fmt.Sprintf("%s_pad%d", m.inst, i), params: tI32, results: tI32,
			body: func(*xmod) []byte { return code().LocalGet(0).End().B },
			sem:  func(w *xworld, a []uint64) ([]uint64, string) { return []uint64{a[0]}, "" }})
	}
	for i := len(m.locals) - 1; i > 0; i-- {
		j := r.Intn(i + 1)
		m.locals[i], m.locals[j] = m.locals[j], m.locals[i]
	}
	nImp := uint32(len(m.imps))
	for i, l := range m.locals {
		m.index[l.name] = nImp + uint32(i)
	}
	for _, l := range m.locals {
		i := m.w.AddFunc(l.params, l.results, nil, l.body(m))
		names[i] = l.name
		if l.export {
			m.w.ExportFunc(l.name, i)
		}
		f := &xfn{inst: m.inst, ns: m.ns, idx: i, name: l.name, params: l.params, results: l.results, sem: l.sem}
		w.fns[m.inst+"."+l.name] = f
		w.byKey[f.key()] = f
	}
	if extra != nil {
		extra(m)
	}
	m.w.Customs = append(m.w.Customs, xnameSection(m.ns, names))
	m.bin = m.w.Encode()
}

var (
	xI32Vals = []uint32{0, 1, 2, 5, 7, 99, 100, 0x7fffffff, 0x80000000, 0xffffffff, 0xfffffff9, 0x12345678}
	xI64Vals = []uint64{0, 1, 13, 7, 0xffffffff, 0x100000000, 0x7fffffffffffffff, 0x8000000000000000, 0xffffffffffffffff, 0x0123456789abcdef}
	xF64Vals = []float64{0, 1.5, -2.25, 1e300, -1e-300, 12345.678, math.MaxFloat64, -math.MaxFloat64, 5e-324, 9007199254740993}
	xF32Vals = []float32{0, 1.5, -3.25, 1e30, 16777216, -16777217, math.MaxFloat32, 1e-45}
)

func xarg(r *core.Rng, t byte) uint64 {
	switch t {
	case wenc.I32:
		switch r.Intn(8) {
		case 0:
			return 7
		case 1:
			return 0
		case 2:
			return 99
		case 3:
			return uint64(r.U32())
		}
		return uint64(xI32Vals[r.Intn(len(xI32Vals))])
	case wenc.I64:
		switch r.Intn(6) {
		case 0:
			return 13
		case 1:
			return r.U64()
		}
		return xI64Vals[r.Intn(len(xI64Vals))]
	case wenc.F64:
		return math.Float64bits(xF64Vals[r.Intn(len(xF64Vals))])
	case wenc.F32:
		return uint64(math.Float32bits(xF32Vals[r.Intn(len(xF32Vals))]))
	}
	return 0
}

func f64of(v uint64) float64 { return math.Float64frombits(v) }
func f32of(v uint64) float32 { return math.Float32frombits(uint32(v)) }

// xbuild derives the whole world from the case seed.
func xbuild(seed uint64) *xworld {
	r := core.NewRng(int64(seed), 77)
	w := &xworld{fns: map[string]*xfn{}, byKey: map[string]*xfn{}}
	w.hostN = 1 + r.Intn(2)
	hasC := r.Chance(1, 2)
	hasTab := r.Chance(2, 3)
	w.trapDiv = r.Bool()
	const slotK = 5

	// host functions
	hl := &xfn{inst: "env", ns: "env", idx: 0, name: "h_lin", params: tI32, results: tI32, host: true,
		sem: func(w *xworld, a []uint64) ([]uint64, string) { return []uint64{uint64(uint32(a[0])*3 + 1)}, "" }}
	w.fns["env.h_lin"], w.byKey[hl.key()] = hl, hl
	if w.hostN == 2 {
		hm := &xfn{inst: "env", ns: "env", idx: 1, name: "h_mod", params: sig(wenc.I64, wenc.I32), results: tI64, host: true,
			sem: func(w *xworld, a []uint64) ([]uint64, string) {
				if uint32(a[1]) == 99 {
					return nil, "host boom"
				}
				// + first byte of the CALLING module's name: h_mod is imported by "b" only, also when the
				// host entered through "a" (the host function must be handed its caller, whatever listeners exist)
				return []uint64{a[0] + uint64(uint32(a[1])) + uint64('b')}, ""
			}}
		w.fns["env.h_mod"], w.byKey[hm.key()] = hm, hm
	}

	// ---- module c
	if hasC {
		c := &xmod{inst: "c", ns: "modC"}
		c.locals = []*xlocal{
			{name: "c_mul", params: tI64, results: tI64, export: true,
				body: func(*xmod) []byte {
					return code().LocalGet(0).I64Const(13).Op(opI64Eq).If(0x40).Unreachable().End().
						LocalGet(0).I64Const(-0x61C8864680B583EB).Op(opI64Mul).I64Const(1).Op(opI64Add).End().B
				},
				sem: func(w *xworld, a []uint64) ([]uint64, string) {
					if a[0] == 13 {
						return nil, "unreachable"
					}
					return []uint64{a[0]*cMulK + 1}, ""
				}},
			{name: "c_swap", params: sig(wenc.I32, wenc.F64), results: sig(wenc.F64, wenc.I32), export: true,
				body: func(*xmod) []byte {
					return code().LocalGet(1).F64(1.5).Op(opF64Add).LocalGet(0).I32Const(0x55).Op(opI32Xor).End().B
				},
				sem: func(w *xworld, a []uint64) ([]uint64, string) {
					return []uint64{math.Float64bits(f64of(a[1]) + 1.5), uint64(uint32(a[0]) ^ 0x55)}, ""
				}},
		}
		c.finish(w, r, r.Intn(5), nil)
		w.mods = append(w.mods, c)
	}

	// ---- module b
	b := &xmod{inst: "b", ns: "modB"}
	b.imps = append(b.imps, ximport{"env", "h_lin", "h_lin", tI32, tI32})
	if w.hostN == 2 {
		b.imps = append(b.imps, ximport{"env", "h_mod", "h_mod", sig(wenc.I64, wenc.I32), tI64})
	}
	if hasC {
		b.imps = append(b.imps, ximport{"c", "c_mul", "c_mul", tI64, tI64})
		b.imps = append(b.imps, ximport{"c", "c_swap", "c_swap", sig(wenc.I32, wenc.F64), sig(wenc.F64, wenc.I32)})
	}
	cat := map[string]*xlocal{
		"b_add": {name: "b_add", params: sig(wenc.I32, wenc.I32), results: tI32, export: true,
			body: func(*xmod) []byte { return code().LocalGet(0).LocalGet(1).Op(opI32Add).End().B },
			sem: func(w *xworld, a []uint64) ([]uint64, string) {
				return []uint64{uint64(uint32(a[0]) + uint32(a[1]))}, ""
			}},
		"b_mv": {name: "b_mv", params: sig(wenc.I32, wenc.I64), results: sig(wenc.I64, wenc.I32), export: true,
			body: func(*xmod) []byte {
				return code().LocalGet(1).LocalGet(0).Op(opExtU).Op(opI64Add).LocalGet(0).LocalGet(1).Op(opWrap).Op(opI32Xor).End().B
			},
			sem: func(w *xworld, a []uint64) ([]uint64, string) {
				return []uint64{a[1] + uint64(uint32(a[0])), uint64(uint32(a[0]) ^ uint32(a[1]))}, ""
			}},
		"b_mix": {name: "b_mix", params: sig(wenc.I64, wenc.F64), results: sig(wenc.F64, wenc.I64), export: true,
			body: func(*xmod) []byte {
				return code().LocalGet(0).Op(opF64CvtS).LocalGet(1).Op(opF64Add).LocalGet(0).I64Const(7).Op(opI64Sub).End().B
			},
			sem: func(w *xworld, a []uint64) ([]uint64, string) {
				x := float64(int64(a[0]))
				return []uint64{math.Float64bits(x + f64of(a[1])), a[0] - 7}, ""
			}},
		"b_f32": {name: "b_f32", params: sig(wenc.F32, wenc.I32), results: sig(wenc.F32), export: true,
			body: func(*xmod) []byte { return code().LocalGet(0).LocalGet(1).Op(opF32CvtS).Op(opF32Add).End().B },
			sem: func(w *xworld, a []uint64) ([]uint64, string) {
				y := float32(int32(uint32(a[1])))
				s := float32(f32of(a[0]) + y)
				return []uint64{uint64(math.Float32bits(s))}, ""
			}},
		"b_trap": {name: "b_trap", params: tI32, results: tI32, export: true,
			body: func(*xmod) []byte {
				if w.trapDiv {
					return code().I32Const(1000).LocalGet(0).Op(opI32DivU).End().B
				}
				return code().LocalGet(0).I32Const(7).Op(opI32Eq).If(0x40).Unreachable().End().LocalGet(0).I32Const(100).Op(opI32Add).End().B
			},
			sem: func(w *xworld, a []uint64) ([]uint64, string) {
				x := uint32(a[0])
				if w.trapDiv {
					if x == 0 {
						return nil, "integer divide by zero"
					}
					return []uint64{uint64(1000 / x)}, ""
				}
				if x == 7 {
					return nil, "unreachable"
				}
				return []uint64{uint64(x + 100)}, ""
			}},
		"b_chain": {name: "b_chain", params: tI32, results: tI32, export: true,
			body: func(m *xmod) []byte {
				return code().LocalGet(0).I32Const(5).Call(m.ix("b_add")).Call(m.ix("h_lin")).I32Const(0x1234).Op(opI32Xor).End().B
			},
			sem: func(w *xworld, a []uint64) ([]uint64, string) {
				t, _ := w.call(w.fn("b", "b_add"), []uint64{a[0], 5})
				t, _ = w.call(w.fn("env", "h_lin"), t)
				return []uint64{uint64(uint32(t[0]) ^ 0x1234)}, ""
			}},
		"b_deep": {name: "b_deep", params: tI32, results: tI32, export: true,
			body: func(m *xmod) []byte {
				return code().LocalGet(0).Call(m.ix("b_trap")).I32Const(1).Op(opI32Add).End().B
			},
			sem: func(w *xworld, a []uint64) ([]uint64, string) {
				t, trap := w.call(w.fn("b", "b_trap"), a)
				if trap != "" {
					return nil, trap
				}
				return []uint64{uint64(uint32(t[0]) + 1)}, ""
			}},
		"b_host": {name: "b_host", params: sig(wenc.I64, wenc.I32), results: tI64, export: true,
			body: func(m *xmod) []byte { return code().LocalGet(0).LocalGet(1).Call(m.ix("h_mod")).End().B },
			sem:  func(w *xworld, a []uint64) ([]uint64, string) { return w.call(w.fn("env", "h_mod"), a) }},
		"b_viac": {name: "b_viac", params: tI64, results: tI64, export: true,
			body: func(m *xmod) []byte {
				return code().LocalGet(0).Call(m.ix("c_mul")).I64Const(3).Op(opI64Add).End().B
			},
			sem: func(w *xworld, a []uint64) ([]uint64, string) {
				t, trap := w.call(w.fn("c", "c_mul"), a)
				if trap != "" {
					return nil, trap
				}
				return []uint64{t[0] + 3}, ""
			}},
		"b_viac2": {name: "b_viac2", params: sig(wenc.I32, wenc.F64), results: sig(wenc.F64, wenc.I32), export: true,
			body: func(m *xmod) []byte { return code().LocalGet(0).LocalGet(1).Call(m.ix("c_swap")).End().B },
			sem:  func(w *xworld, a []uint64) ([]uint64, string) { return w.call(w.fn("c", "c_swap"), a) }},
		"b_viatab": {name: "b_viatab", params: tI32, results: tI32, export: true,
			body: func(m *xmod) []byte {
				return code().LocalGet(0).I32Const(slotK).CallIndirect(m.w.AddType(tI32, tI32), 0).I32Const(2).Op(opI32Add).End().B
			},
			sem: func(w *xworld, a []uint64) ([]uint64, string) {
				t, trap := w.call(w.tab[slotK], a)
				if trap != "" {
					return nil, trap
				}
				return []uint64{uint64(uint32(t[0]) + 2)}, ""
			}},
		"b_inc": {name: "b_inc", params: tI32, results: tI32, export: true,
			body: func(*xmod) []byte { return code().LocalGet(0).I32Const(1).Op(opI32Add).End().B },
			sem:  func(w *xworld, a []uint64) ([]uint64, string) { return []uint64{uint64(uint32(a[0]) + 1)}, "" }},
	}
	// PRNG subset of the catalogue, dependencies closed
	pool := []string{"b_add", "b_mv", "b_mix", "b_f32", "b_trap", "b_chain", "b_deep"}
	if w.hostN == 2 {
		pool = append(pool, "b_host")
	}
	if hasC {
		pool = append(pool, "b_viac", "b_viac2")
	}
	if hasTab {
		pool = append(pool, "b_viatab")
	}
	chosen := map[string]bool{}
	want := 2 + r.Intn(5)
	for len(chosen) < want {
		chosen[pool[r.Intn(len(pool))]] = true
	}
	if chosen["b_chain"] {
		chosen["b_add"] = true
	}
	if chosen["b_deep"] {
		chosen["b_trap"] = true
	}
	viatab := chosen["b_viatab"]
	if viatab {
		chosen["b_inc"] = true
	}
	var bNames []string
	for _, n := range append(pool, "b_inc") {
		if chosen[n] {
			bNames = append(bNames, n)
			b.locals = append(b.locals, cat[n])
		}
	}
	// table slots: b's exported functions at PRNG slots (slotK reserved)
	slotOf := map[string]int{}
	b.finish(w, r, r.Intn(7), func(m *xmod) {
		if !hasTab {
			return
		}
		m.w.Tables = append(m.w.Tables, wenc.TableType{Elem: wenc.FuncRef, Lim: wenc.Limits{Min: 8}})
		m.w.Exports = append(m.w.Exports, wenc.Export{Name: "tab", Kind: wenc.ExtTable, Idx: 0})
		free := []int{0, 1, 2, 3, 4, 6, 7}
		for i := len(free) - 1; i > 0; i-- {
			j := r.Intn(i + 1)
			free[i], free[j] = free[j], free[i]
		}
		for _, n := range bNames {
			if n == "b_inc" || len(free) == 0 {
				continue
			}
			if r.Chance(3, 4) {
				s := free[0]
				free = free[1:]
				slotOf[n] = s
				w.tab[s] = w.fn("b", n)
				m.w.Elems = append(m.w.Elems, wenc.Elem{Mode: 0, Offset: wenc.ConstI32(int32(s)), FuncIdx: []uint32{m.ix(n)}})
			}
		}
		if viatab {
			w.tab[slotK] = w.fn("b", "b_inc")
			m.w.Elems = append(m.w.Elems, wenc.Elem{Mode: 0, Offset: wenc.ConstI32(slotK), FuncIdx: []uint32{m.ix("b_inc")}})
		}
	})
	w.mods = append(w.mods, b)

	// ---- module a
	a := &xmod{inst: "a", ns: "modA"}
	var imported []string
	for _, n := range bNames {
		if r.Chance(3, 4) {
			imported = append(imported, n)
		}
	}
	if len(imported) == 0 {
		imported = append(imported, bNames[r.Intn(len(bNames))])
	}
	for i := len(imported) - 1; i > 0; i-- {
		j := r.Intn(i + 1)
		imported[i], imported[j] = imported[j], imported[i]
	}
	for _, n := range imported {
		a.imps = append(a.imps, ximport{"b", n, "imp_" + n, cat[n].params, cat[n].results})
	}
	a.locals = append(a.locals, &xlocal{name: "a_post", params: tI32, results: tI32, export: true,
		body: func(*xmod) []byte { return code().LocalGet(0).I32Const(1).Op(opI32Add).End().B },
		sem:  func(w *xworld, a []uint64) ([]uint64, string) { return []uint64{uint64(uint32(a[0]) + 1)}, "" }})
	for _, n := range imported {
		n := n
		post := r.Chance(1, 2)
		// early: a second, textually earlier return site that is never taken (guarded by a mutable global that stays
		// 0) between the cross-module call and the end of the function
		early := r.Chance(1, 2)
		np := len(cat[n].params)
		a.locals = append(a.locals, &xlocal{name: "a_w_" + n, params: cat[n].params, results: cat[n].results, export: true,
			body: func(m *xmod) []byte {
				c := getAll(code(), np).Call(m.ix("imp_" + n))
				if post {
					c.I32Const(1).Call(m.ix("a_post")).Drop()
				}
				if early {
					c.GlobalGet(0).If(0x40)
					for _, t := range cat[n].results {
						switch t {
						case wenc.I32:
							c.I32Const(0)
						case wenc.I64:
							c.I64Const(0)
						case wenc.F32:
							c.F32(0)
						default:
							c.F64(0)
						}
					}
					c.Return().End()
				}
				return c.End().B
			},
			sem: func(w *xworld, args []uint64) ([]uint64, string) {
				res, trap := w.call(w.fn("b", n), args)
				if trap != "" {
					return nil, trap
				}
				if post {
					w.call(w.fn("a", "a_post"), []uint64{1})
				}
				return res, ""
			}})
	}
	if hasTab {
		for _, n := range bNames {
			s, ok := slotOf[n]
			if !ok || !r.Chance(3, 4) {
				continue
			}
			n := n
			np := len(cat[n].params)
			a.locals = append(a.locals, &xlocal{name: "a_i_" + n, params: cat[n].params, results: cat[n].results, export: true,
				body: func(m *xmod) []byte {
					return getAll(code(), np).I32Const(int32(s)).CallIndirect(m.w.AddType(cat[n].params, cat[n].results), 0).End().B
				},
				sem: func(w *xworld, args []uint64) ([]uint64, string) { return w.call(w.tab[s], args) }})
		}
	}
	hasAdd := false
	for _, n := range imported {
		if n == "b_add" {
			hasAdd = true
		}
	}
	if hasAdd {
		a.locals = append(a.locals, &xlocal{name: "a_two", params: tI32, results: tI32, export: true,
			body: func(m *xmod) []byte {
				return code().LocalGet(0).I32Const(2).Call(m.ix("imp_b_add")).Call(m.ix("a_post")).LocalGet(0).Call(m.ix("imp_b_add")).End().B
			},
			sem: func(w *xworld, args []uint64) ([]uint64, string) {
				t, _ := w.call(w.fn("b", "b_add"), []uint64{args[0], 2})
				t, _ = w.call(w.fn("a", "a_post"), t)
				return w.call(w.fn("b", "b_add"), []uint64{t[0], args[0]})
			}})
	}
	cb := viatab && r.Chance(2, 3)
	if cb {
		a.locals = append(a.locals, &xlocal{name: "a_cb", params: tI32, results: tI32, export: true,
			body: func(*xmod) []byte {
				return code().LocalGet(0).I32Const(2).Op(opI32Mul).I32Const(1).Op(opI32Add).End().B
			},
			sem: func(w *xworld, a []uint64) ([]uint64, string) { return []uint64{uint64(uint32(a[0])*2 + 1)}, "" }})
	}
	var reexp []string
	a.finish(w, r, r.Intn(9), func(m *xmod) {
		m.w.Globals = append(m.w.Globals, wenc.Global{Type: wenc.GlobalType{Type: wenc.I32, Mutable: true}, Init: wenc.ConstI32(0)})
		if hasTab {
			m.w.Imports = append(m.w.Imports, wenc.Import{Module: "b", Name: "tab", Kind: wenc.ExtTable,
				Table: wenc.TableType{Elem: wenc.FuncRef, Lim: wenc.Limits{Min: 8}}})
		}
		if cb {
			m.w.Elems = append(m.w.Elems, wenc.Elem{Mode: 0, Offset: wenc.ConstI32(slotK), FuncIdx: []uint32{m.ix("a_cb")}})
			w.tab[slotK] = w.fn("a", "a_cb")
		}
		for _, n := range imported {
			if r.Chance(1, 3) {
				m.w.ExportFunc("re_"+n, m.ix("imp_"+n))
				reexp = append(reexp, n)
			}
		}
	})
	w.mods = append(w.mods, a)

	// entry points
	for _, m := range w.mods {
		for _, l := range m.locals {
			if l.export && !strings.Contains(l.name, "_pad") {
				w.entries = append(w.entries, xentry{Inst: m.inst, Export: l.name, fn: w.fn(m.inst, l.name)})
			}
		}
	}
	for _, n := range reexp {
		w.entries = append(w.entries, xentry{Inst: "a", Export: "re_" + n, fn: w.fn("b", n)})
	}
	// script: entries of a preferred
	var aEntries []xentry
	for _, e := range w.entries {
		if e.Inst == "a" {
			aEntries = append(aEntries, e)
		}
	}
	nCalls := 8 + r.Intn(7)
	for i := 0; i < nCalls; i++ {
		e := w.entries[r.Intn(len(w.entries))]
		if r.Chance(2, 3) {
			e = aEntries[r.Intn(len(aEntries))]
		}
		var args []uint64
		for _, t := range e.fn.params {
			args = append(args, xarg(r, t))
		}
		w.script = append(w.script, xcall{Entry: e, Args: args})
	}
	nl := func(inst string) int {
		for _, m := range w.mods {
			if m.inst == inst {
				return len(m.locals)
			}
		}
		return 0
	}
	w.shape = fmt.Sprintf("A%d/B%d/C%d/host%d/tab=%v/cb=%v", nl("a"), nl("b"), nl("c"), w.hostN, hasTab, cb)
	return w
}

// ---------------------------------------------------------------------------
// listener sets

var xmodes = []string{"all", "onlyB", "onlyA", "alt", "rand"}

func xlistened(mode string, seed uint64) func(f *xfn) bool {
	return func(f *xfn) bool {
		switch mode {
		case "all":
			return true
		case "onlyB":
			return f.inst == "b"
		case "onlyA":
			return f.inst == "a"
		case "alt":
			return (uint64(f.idx)+seed)&1 == 0
		}
		h := seed
		for _, ch := range []byte(f.key()) {
			h = (h ^ uint64(ch)) * 0x100000001b3
		}
		h ^= h >> 29
		h *= 0xBF58476D1CE4E5B9
		return (h>>20)%3 != 0
	}
}

// ---------------------------------------------------------------------------
// recorder: one listener object per definition

type xrec struct {
	w       *xworld
	events  []xev
	unknown []string // factory called with a definition that is not in the world
	objects int
}

type xobj struct {
	rec   *xrec
	owner string
}

func xdefKey(d api.FunctionDefinition) string {
	return fmt.Sprintf("%s#%d:%s", d.ModuleName(), d.Index(), d.Name())
}

func xmodName(m api.Module) string {
	if m == nil {
		return "<nil>"
	}
	return m.Name()
}

func (r *xrec) NewFunctionListener(d api.FunctionDefinition) experimental.FunctionListener {
	k := xdefKey(d)
	f := r.w.byKey[k]
	if f == nil {
		r.unknown = append(r.unknown, k)
		return nil
	}
	if !r.w.listened(f) {
		return nil
	}
	r.objects++
	return &xobj{rec: r, owner: k}
}

func (o *xobj) Before(ctx context.Context, mod api.Module, d api.FunctionDefinition, params []uint64, it experimental.StackIterator) {
	e := xev{K: 'B', Owner: o.owner, Key: xdefKey(d), Mod: xmodName(mod), Vals: canon(d.ParamTypes(), params), It0: "<end>", It1: "<end>"}
	if it != nil && it.Next() {
		e.It0 = xdefKey(it.Function().Definition())
		if it.Next() {
			e.It1 = xdefKey(it.Function().Definition())
		}
	}
	o.rec.events = append(o.rec.events, e)
}

func (o *xobj) After(ctx context.Context, mod api.Module, d api.FunctionDefinition, results []uint64) {
	o.rec.events = append(o.rec.events, xev{K: 'A', Owner: o.owner, Key: xdefKey(d), Mod: xmodName(mod), Vals: canon(d.ResultTypes(), results)})
}

func (o *xobj) Abort(ctx context.Context, mod api.Module, d api.FunctionDefinition, err error) {
	o.rec.events = append(o.rec.events, xev{K: 'X', Owner: o.owner, Key: xdefKey(d), Mod: xmodName(mod)})
}

// ---------------------------------------------------------------------------
// running

type xoutcome struct {
	res    []uint64
	err    string // "" = success
	panicv string // a Go panic escaped api.Function.Call
	events []xev
}

func (o xoutcome) String() string {
	if o.panicv != "" {
		return "PANIC " + o.panicv
	}
	if o.err != "" {
		return "error: " + core.Trunc(strings.Join(strings.Fields(o.err), " "), 200)
	}
	return "[" + hexs(o.res) + "]"
}

func xsafeCall(ctx context.Context, f api.Function, args []uint64) (o xoutcome) {
	defer func() {
		if v := recover(); v != nil {
			o.panicv = fmt.Sprint(v)
		}
	}()
	res, err := f.Call(ctx, args...)
	if err != nil {
		o.err = err.Error()
		if o.err == "" {
			o.err = "<empty error>"
		}
		return
	}
	o.res = res
	return
}

// xrun instantiates the world in a fresh runtime (no compilation cache) and
// runs the script. rec == nil: no listener factory.
func xrun(w *xworld, compiler bool, rec *xrec) (outs []xoutcome, fail string) {
	ctx := context.Background()
	if rec != nil {
		ctx = experimental.WithFunctionListenerFactory(ctx, rec)
	}
	cfg := wazero.NewRuntimeConfigInterpreter()
	if compiler {
		cfg = wazero.NewRuntimeConfigCompiler()
	}
	rt := wazero.NewRuntimeWithConfig(ctx, cfg)
	defer rt.Close(context.Background())
	hb := rt.NewHostModuleBuilder("env").NewFunctionBuilder().
		WithGoFunction(api.GoFunc(func(ctx context.Context, stack []uint64) {
			stack[0] = uint64(uint32(stack[0])*3 + 1)
		}), []api.ValueType{api.ValueTypeI32}, []api.ValueType{api.ValueTypeI32}).WithName("h_lin").Export("h_lin")
	if w.hostN == 2 {
		hb = hb.NewFunctionBuilder().
			WithGoModuleFunction(api.GoModuleFunc(func(ctx context.Context, m api.Module, stack []uint64) {
				if uint32(stack[1]) == 99 {
					panic(errors.New("host boom"))
				}
				stack[0] = stack[0] + uint64(uint32(stack[1])) + uint64(m.Name()[0])
			}), []api.ValueType{api.ValueTypeI64, api.ValueTypeI32}, []api.ValueType{api.ValueTypeI64}).WithName("h_mod").Export("h_mod")
	}
	if _, err := hb.Instantiate(ctx); err != nil {
		return nil, "env: " + err.Error()
	}
	insts := map[string]api.Module{}
	for _, m := range w.mods {
		in, err := rt.InstantiateWithConfig(ctx, m.bin, wazero.NewModuleConfig().WithName(m.inst))
		if err != nil {
			return nil, m.inst + ": " + err.Error()
		}
		insts[m.inst] = in
	}
	if rec != nil && len(rec.events) > 0 {
		return nil, fmt.Sprintf("events during instantiation without start function: %s", rec.events[0])
	}
	for _, c := range w.script {
		f := insts[c.Entry.Inst].ExportedFunction(c.Entry.Export)
		if f == nil {
			return nil, "missing export " + c.Entry.Inst + "." + c.Entry.Export
		}
		o := xsafeCall(ctx, f, c.Args)
		if rec != nil {
			o.events = rec.events
			rec.events = nil
		}
		outs = append(outs, o)
	}
	return outs, ""
}

func xtail(evs []xev, upto, n int) string {
	if upto > len(evs) {
		upto = len(evs)
	}
	lo := upto - n
	if lo < 0 {
		lo = 0
	}
	var sb strings.Builder
	for _, e := range evs[lo:upto] {
		sb.WriteString("  " + e.String())
		if e.Owner != "" && e.Owner != e.Key {
			sb.WriteString("   !! delivered to the listener object created for " + e.Owner)
		}
		sb.WriteString("\n")
	}
	return sb.String()
}

func xkinds(k byte) string {
	switch k {
	case 'B':
		return "before"
	case 'A':
		return "after"
	case 'X':
		return "abort"
	}
	return "end"
}

func isRuntimeErr(s string) bool {
	return strings.Contains(s, "runtime error") || strings.Contains(s, "nil pointer") || strings.Contains(s, "index out of range") || strings.Contains(s, "invalid memory address")
}

func crossChild(in json.RawMessage) any {
	var xc xcase
	json.Unmarshal(in, &xc)
	w := xbuild(xc.Seed)
	xr := xresult{Counts: map[string]int{}, Shape: w.shape}
	subsetSeed := core.NewRng(int64(xc.Seed), 78).U64()
	witness := func(extra map[string]any) map[string]any {
		wit := map[string]any{"shape": w.shape}
		for _, m := range w.mods {
			wit["module_"+m.inst+"_hex"] = hex.EncodeToString(m.bin)
			var fl []string
			for i, l := range m.locals {
				fl = append(fl, fmt.Sprintf("%d:%s", len(m.imps)+i, l.name))
			}
			wit["module_"+m.inst+"_local_functions"] = strings.Join(fl, " ")
		}
		for k, v := range extra {
			wit[k] = v
		}
		return wit
	}
	add := func(sig, detail string, extra map[string]any) {
		for _, f := range xr.Findings {
			if f.Sig == sig {
				return
			}
		}
		if len(xr.Findings) >= 12 {
			return
		}
		xr.Findings = append(xr.Findings, xfinding{sig, detail, witness(extra)})
	}

	for e := 0; e < 2; e++ {
		compiler := e == 1
		eng := map[bool]string{false: "interp", true: "compiler"}[compiler]
		// model outcome per call (independent of listeners)
		w.listened = nil
		type mout struct {
			res  []uint64
			trap string
		}
		var model []mout
		for _, c := range w.script {
			w.chain, w.exp = nil, nil
			res, trap := w.call(c.Entry.fn, c.Args)
			model = append(model, mout{res, trap})
		}
		base, fail := xrun(w, compiler, nil)
		if fail != "" {
			add("cross-module:instantiation-failed:"+eng, "without listeners: "+fail, nil)
			continue
		}
		for ci, c := range w.script {
			o, m := base[ci], model[ci]
			xr.Counts["calls_without_listeners"]++
			ok := o.panicv == "" && ((m.trap == "" && o.err == "" && hexs(xmask(c.Entry.fn.results, o.res)) == hexs(m.res)) ||
				(m.trap != "" && strings.Contains(o.err, m.trap)))
			if !ok {
				add("cross-module:result-without-listeners-differs-from-model:"+eng,
					fmt.Sprintf("%s.%s(%s): model %s / trap %q, wazero without listeners: %s", c.Entry.Inst, c.Entry.Export, hexs(c.Args), hexs(m.res), m.trap, o),
					map[string]any{"call": c})
			}
		}
		for _, mode := range xmodes {
			w.listened = xlistened(mode, subsetSeed)
			rec := &xrec{w: w}
			outs, fail := xrun(w, compiler, rec)
			if fail != "" {
				add("cross-module:instantiation-failed:"+eng, "listeners="+mode+": "+fail, nil)
				continue
			}
			xr.Counts["listener_objects"] += rec.objects
			xr.Counts["runs_mode_"+mode]++
			for _, k := range rec.unknown {
				add("cross-module:factory-called-with-unexpected-definition:"+eng, "NewFunctionListener got "+k+" which is not a function defined by any module of the scenario (ModuleName#Index:Name)", map[string]any{"listeners": mode})
			}
			for ci, c := range w.script {
				w.chain, w.exp = nil, nil
				mres, mtrap := w.call(c.Entry.fn, c.Args)
				xcheckCall(w, eng, mode, c, outs[ci], base[ci], mres, mtrap, w.exp, &xr, add)
			}
			if mode == "all" && e == 1 && len(xr.Sample) == 0 && len(outs) > 0 {
				for _, o := range outs {
					if len(o.events) >= 4 {
						for _, ev := range o.events[:min(len(o.events), 8)] {
							xr.Sample = append(xr.Sample, ev.String())
						}
						break
					}
				}
			}
		}
	}
	return xr
}

// xcheckCall decides one top-level call of one (engine, listener set) run.
func xcheckCall(w *xworld, eng, mode string, c xcall, o, base xoutcome, mres []uint64, mtrap string, exp []xev,
	xr *xresult, add func(string, string, map[string]any)) {
	xr.Counts["calls_with_listeners"]++
	call := fmt.Sprintf("%s.%s(%s)", c.Entry.Inst, c.Entry.Export, hexs(c.Args))
	head := fmt.Sprintf("engine=%s listeners=%s call %s\n", eng, mode, call)
	streams := func() string {
		var sb strings.Builder
		sb.WriteString("events received:\n" + xtail(o.events, len(o.events), 16))
		sb.WriteString("events expected by the model:\n" + xtail(exp, len(exp), 16))
		return sb.String()
	}
	extra := map[string]any{"call": c, "listeners": mode, "engine": eng}
	viol := func(sig, detail string) { add(sig+":"+eng, head+detail+"\n"+streams(), extra) }

	// (5) outcome: model, and the run without listeners
	failed := o.err != "" || o.panicv != ""
	outcomeOK := true
	switch {
	case o.panicv != "":
		outcomeOK = false
		viol("cross-module:go-panic-escaped-call", "a Go panic escaped api.Function.Call: "+o.panicv)
	case mtrap == "" && o.err != "":
		outcomeOK = false
		if isRuntimeErr(o.err) {
			viol("cross-module:call-failed-with-go-runtime-error", fmt.Sprintf("the call should return [%s] (it does without listeners: %s) but failed with a Go runtime error: %s", hexs(mres), base, o))
		} else {
			viol("cross-module:unexpected-call-error", fmt.Sprintf("the call should return [%s] but failed: %s", hexs(mres), o))
		}
	case mtrap != "" && o.err == "":
		outcomeOK = false
		viol("cross-module:expected-failure-did-not-happen", fmt.Sprintf("the call should fail with %q but returned %s", mtrap, o))
	case mtrap != "" && !strings.Contains(o.err, mtrap):
		outcomeOK = false
		if isRuntimeErr(o.err) {
			viol("cross-module:call-failed-with-go-runtime-error", fmt.Sprintf("the call should fail with %q but failed with a Go runtime error: %s", mtrap, o))
		} else {
			viol("cross-module:wrong-error", fmt.Sprintf("the call should fail with %q but failed with: %s", mtrap, o))
		}
	case mtrap == "" && hexs(xmask(c.Entry.fn.results, o.res)) != hexs(mres):
		outcomeOK = false
		viol("cross-module:toplevel-result-differs-from-model", fmt.Sprintf("returned %s, model [%s]", o, hexs(mres)))
	}
	if mtrap != "" {
		xr.Counts["failing_calls"]++
	}
	if outcomeOK && ((base.err == "") != (o.err == "") || base.panicv != o.panicv || hexs(xmask(c.Entry.fn.results, base.res)) != hexs(xmask(c.Entry.fn.results, o.res))) {
		viol("cross-module:guest-result-differs-with-listeners", fmt.Sprintf("without listeners: %s\nwith listeners:    %s", base, o))
	}

	// (1) every event is delivered to the object created for that definition; (2) bracket automaton
	// within one call only the first stream violation is reported: everything after it is a consequence
	reported := false
	sviol := func(sig, detail string) {
		if !reported {
			viol(sig, detail)
		}
		reported = true
	}
	var stack []string
	for i, e := range o.events {
		k := xkinds(e.K)
		xr.Counts["events_"+k+"_"+eng]++
		f := w.byKey[e.Key]
		if e.Owner != e.Key {
			sviol("cross-module:event-delivered-to-listener-of-other-function:"+k,
				fmt.Sprintf("event %d: %s was delivered to the listener object that the factory created for %s", i, e, e.Owner))
		}
		if f == nil {
			sviol("cross-module:event-with-unknown-definition:"+k, fmt.Sprintf("event %d: %s: no such function (ModuleName#Index:Name)", i, e))
		} else if !w.listened(f) {
			sviol("cross-module:event-for-function-without-listener:"+k, fmt.Sprintf("event %d: %s: the factory returned nil for this function", i, e))
		}
		if f != nil && e.K == 'A' && f.inst != c.Entry.fn.inst && !f.host {
			xr.Counts["after_events_of_functions_outside_the_entry_module"]++
		}
		switch e.K {
		case 'B':
			stack = append(stack, e.Key)
			if e.It0 != e.Key {
				sviol("cross-module:iterator-first-not-callee", fmt.Sprintf("event %d: %s: the stack iterator starts with %s", i, e, e.It0))
			}
		default:
			if e.K == 'X' && !failed {
				sviol("cross-module:abort-delivered-but-call-succeeded", fmt.Sprintf("event %d: %s but the top-level call returned %s", i, e, o))
			}
			if len(stack) == 0 {
				sviol("cross-module:"+k+"-without-open-before", fmt.Sprintf("event %d: %s with no open Before", i, e))
			} else if stack[len(stack)-1] != e.Key {
				open := false
				for _, s := range stack {
					open = open || s == e.Key
				}
				if open {
					sviol("cross-module:"+k+"-not-for-innermost-open-call", fmt.Sprintf("event %d: %s while the innermost open call is %s", i, e, stack[len(stack)-1]))
					for stack[len(stack)-1] != e.Key {
						stack = stack[:len(stack)-1]
					}
					stack = stack[:len(stack)-1]
				} else {
					sviol("cross-module:"+k+"-without-open-before", fmt.Sprintf("event %d: %s but no Before of it is open (open: %v)", i, e, stack))
				}
			} else {
				stack = stack[:len(stack)-1]
			}
		}
	}
	if len(stack) > 0 {
		sviol("cross-module:before-never-closed", fmt.Sprintf("%d Before events without After/Abort when the top-level call returned (%s); open: %v", len(stack), o, stack))
	}

	// (3) the stream is exactly the model's: kinds, definitions, params/results
	if !outcomeOK || reported {
		return // the stream necessarily differs; the violation already reported names the cause
	}
	n := min(len(o.events), len(exp))
	diff := -1
	for i := 0; i < n; i++ {
		g, x := o.events[i], exp[i]
		if g.K != x.K || g.Key != x.Key {
			diff = i
			viol(fmt.Sprintf("cross-module:event-stream-differs-from-model:got=%s,want=%s", xkinds(g.K), xkinds(x.K)),
				fmt.Sprintf("event %d: got %s, the model expects %s %s", i, g, xkinds(x.K), x.Key))
			break
		}
		if hexs(g.Vals) != hexs(x.Vals) {
			diff = i
			what := map[byte]string{'B': "before-params", 'A': "after-results"}[g.K]
			viol("cross-module:"+what+"-differ-from-model", fmt.Sprintf("event %d: got %s, the model expects (%s)", i, g, hexs(x.Vals)))
			break
		}
		xr.Counts["events_equal_to_model"]++
		// (4) mod argument and the iterator's second frame
		callerInst := ""
		if x.Caller != nil {
			callerInst = x.Caller.inst
		}
		okMod := false
		switch {
		case g.K == 'X': // both engines hand the module the top-level call was started on to every Abort
			okMod = g.Mod == x.Fn.inst || g.Mod == callerInst || g.Mod == c.Entry.fn.inst || g.Mod == c.Entry.Inst
		case x.Fn.host:
			okMod = g.Mod == callerInst
		default:
			okMod = g.Mod == x.Fn.inst || (callerInst != "" && g.Mod == callerInst)
		}
		if !okMod {
			what := "mod-argument-is-neither-calling-nor-defining-module:"
			if x.Fn.host && g.K != 'X' {
				what = "host-function-mod-argument-is-not-the-calling-module:"
			}
			viol("cross-module:"+what+xkinds(g.K),
				fmt.Sprintf("event %d: %s: function defined in instance %q, called from %q", i, g, x.Fn.inst, callerInst))
		} else if g.K != 'X' && !x.Fn.host && callerInst != "" && callerInst != x.Fn.inst {
			if g.Mod == callerInst {
				xr.Counts["crossmodule_event_mod_is_calling_module_"+eng]++
			} else {
				xr.Counts["crossmodule_event_mod_is_defining_module_"+eng]++
			}
		}
		if g.K == 'B' {
			want1 := "<end>"
			if x.Caller != nil {
				want1 = x.Caller.key()
			}
			xr.Counts["iterator_top2_checks"]++
			if g.It1 != want1 {
				viol("cross-module:iterator-second-frame-not-caller", fmt.Sprintf("event %d: %s: second iterator entry %s, caller is %s", i, g, g.It1, want1))
			}
		}
	}
	if diff < 0 && len(o.events) != len(exp) {
		gk, xk := byte(0), byte(0)
		if n < len(o.events) {
			gk = o.events[n].K
		}
		if n < len(exp) {
			xk = exp[n].K
		}
		viol(fmt.Sprintf("cross-module:event-stream-differs-from-model:got=%s,want=%s", xkinds(gk), xkinds(xk)),
			fmt.Sprintf("received %d events, the model expects %d", len(o.events), len(exp)))
	}
}

// GuestVisibleFinding is a finding of the cross-module scenario that concerns guest-visible behaviour only.
type GuestVisibleFinding struct {
	Sig, Detail string
	Witness     any
}

// CrossGuestVisible runs one cross-module case (2-3 wasm modules + host module, both engines, no listeners and five
// listener sets) and returns only what a guest or its caller can see: top-level results and errors that differ from
// the model / from the run without listeners, calls failing with Go runtime errors, panics escaping a call. C12 uses
// it for "function listeners attached do not change guest behaviour" with call chains that cross modules.
func CrossGuestVisible(seed uint64) (out []GuestVisibleFinding, calls int, shape string) {
	r := crossChild(core.J(xcase{Seed: seed})).(xresult)
	for _, f := range r.Findings {
		for _, k := range []string{"toplevel-result-differs-from-model", "guest-result-differs-with-listeners", "call-failed-with-go-runtime-error",
			"go-panic-escaped-call", "unexpected-call-error", "wrong-error", "expected-failure-did-not-happen"} {
			if strings.Contains(f.Sig, k) {
				out = append(out, GuestVisibleFinding{f.Sig, f.Detail, f.Witness})
				break
			}
		}
	}
	for k, v := range r.Counts {
		if strings.Contains(k, "calls") && !strings.Contains(k, "failing") {
			calls += v
		}
	}
	return out, calls, r.Shape
}
