// Package c18 decides C18 (default configuration exposes nothing of the host
// and runs reproducibly): PRNG scripts of 20-200 WASI calls are executed as a
// guest (wasiproxy) under an untouched wazero.NewModuleConfig() in several
// separately started processes with different host environments, on both
// engines and in three instances per engine and process. The byte-exact trace
// (result, every output region, every changed byte range, memory digest per
// call) must be the same everywhere; everything a call writes is searched for
// the host data planted in / known about each process.
package c18

import (
	"bufio"
	"bytes"
	"encoding/json"
	"fmt"
	"io"
	"os"
	"os/exec"
	"path/filepath"
	"regexp"
	"runtime"
	"sort"
	"strconv"
	"strings"
	"sync"
	"sync/atomic"
	"syscall"
	"time"

	"github.com/tetratelabs/wazero/verifharness/core"
	"github.com/tetratelabs/wazero/verifharness/wasiproxy"
)

var Prop = &core.Prop{ID: "C18", Run: run, Child: child}

// variant is one way of starting the child process.
type variant struct {
	ID        int      `json:"id"`
	Name      string   `json:"name"`
	Bin       string   `json:"bin"`
	Env       []string `json:"env"` // the complete environment
	Dir       string   `json:"dir"` // working directory ("" = the parent's)
	Args      []string `json:"extra_argv"`
	Stdin     string   `json:"stdin"` // devnull | file | pipe
	StdinPath string   `json:"stdin_path,omitempty"`
	stdinData string
	Batch     int  `json:"batch"`
	Procs     int  `json:"gomaxprocs"`
	Race      bool `json:"race"`
	UTS       bool `json:"own_uts_namespace"`
	planted   int
}

func canary(r *core.Rng, kind string, v, j int) string {
	return fmt.Sprintf("%s-%s-v%d-%d-%016x", canaryMarker, kind, v, j, r.U64())
}

var tzTable = []string{"", "Asia/Tokyo", "America/New_York", "Pacific/Chatham", "UTC", "Europe/London", "Australia/Lord_Howe", ":/etc/localtime"}

func buildVariants(c *core.Ctx, root string, n int, r *core.Rng) ([]*variant, error) {
	self, err := os.Executable()
	if err != nil {
		return nil, err
	}
	raceBin := os.Getenv("VCHECK_RACE_BIN")
	// can children get their own UTS namespace (then the host name is a planted canary too)?
	probe := exec.Command("/bin/true")
	probe.SysProcAttr = &syscall.SysProcAttr{Unshareflags: syscall.CLONE_NEWUTS}
	utsOK := probe.Run() == nil
	if !utsOK {
		c.Assume("no privilege for a UTS namespace: the host name is only searched for, not varied per process")
	}
	common := func(v *variant) []string {
		return []string{
			fmt.Sprintf("GOMAXPROCS=%d", v.Procs), "VCHECK_RLIMIT_AS=0",
			"VERIF_SEED=" + strconv.FormatInt(c.Seed, 10), "VERIF_TIER=" + c.Tier,
			fmt.Sprintf("VERIF_C18_VARIANT=%d", v.ID),
		}
	}
	var vs []*variant
	for k := 0; k < n; k++ {
		v := &variant{ID: k, Bin: self, Batch: []int{25, 10, 40, 16, 32, 7, 50, 20}[k%8], Procs: []int{2, 2, 1, 4, 2, 3, 1, 2}[k%8]}
		var cans []string
		for j := 0; j < 2+k%3; j++ {
			cans = append(cans, fmt.Sprintf("VERIF_CANARY_%d_%d=%s", k, j, canary(r, "env", k, j)))
		}
		v.planted += len(cans)
		if k == 0 {
			// as close to an ordinary start as it gets: inherited environment and
			// working directory, stdin = /dev/null
			v.Name = "inherited-env"
			v.Env = append(append(os.Environ(), cans...), common(v)...)
			v.Stdin = "devnull"
			vs = append(vs, v)
			continue
		}
		v.Name = fmt.Sprintf("custom-%d", k)
		base := filepath.Join(root, fmt.Sprintf("v%d", k))
		home := filepath.Join(base, canary(r, "home", k, 0))
		cwd := filepath.Join(base, canary(r, "cwd", k, 0), "sub")
		tmp := filepath.Join(base, "tmp")
		for _, d := range []string{home, cwd, tmp} {
			if err := os.MkdirAll(d, 0o755); err != nil {
				return nil, err
			}
		}
		v.Dir = cwd
		v.Env = append([]string{"PATH=/usr/local/bin:/usr/bin:/bin", "HOME=" + home, "PWD=" + cwd, "TMPDIR=" + tmp,
			"USER=" + canary(r, "user", k, 0), "LOGNAME=" + canary(r, "logname", k, 0), "HOSTNAME=" + canary(r, "hostname", k, 0),
			"LANG=" + []string{"C", "en_US.UTF-8", "ja_JP.UTF-8", "de_DE.UTF-8"}[k%4]}, cans...)
		v.planted += 5
		if utsOK {
			v.UTS = true
			v.Env = append(v.Env, "VERIF_C18_SETHOSTNAME="+canary(r, "utsname", k, 0))
			v.planted++
		}
		if tz := tzTable[k%len(tzTable)]; tz != "" {
			v.Env = append(v.Env, "TZ="+tz)
		}
		for j := 0; j < k; j++ {
			v.Args = append(v.Args, "--verif-argv-"+canary(r, "argv", k, j))
		}
		v.planted += len(v.Args)
		line := canary(r, "stdin", k, 0)
		v.stdinData = strings.Repeat(line+"\n", 64)
		v.Env = append(v.Env, "VERIF_CANARY_STDIN="+line)
		v.planted++
		if k == 2 {
			v.Stdin = "pipe"
		} else {
			v.Stdin = "file"
			v.StdinPath = filepath.Join(base, "stdin-"+canary(r, "stdinfile", k, 0))
			if err := os.WriteFile(v.StdinPath, []byte(v.stdinData), 0o644); err != nil {
				return nil, err
			}
		}
		if k == 1 {
			if raceBin != "" {
				v.Bin, v.Race, v.Name = raceBin, true, "custom-1-race"
				v.Env = append(v.Env, "GORACE=halt_on_error=0 exitcode=0")
			} else {
				c.Inconclusive("race-binary-missing")
			}
		}
		v.Env = append(v.Env, common(v)...)
		vs = append(vs, v)
	}
	return vs, nil
}

// ---------------------------------------------------------------------------
// supervisor (core.RunCases gives every child the same environment; here the
// environment, working directory, argv and stdin are the independent variable)

var (
	childSeq int64
	reFatal  = regexp.MustCompile(`(?m)^fatal error: (.*)$`)
	rePanic  = regexp.MustCompile(`(?m)^panic: (.*)$`)
)

type spawnStats struct {
	procs        int64
	markerInLogs []string
}

func spawn(c *core.Ctx, v *variant, cases []json.RawMessage, st *spawnStats) []core.CaseResult {
	res := make([]core.CaseResult, len(cases))
	for i := range res {
		res[i].Index = i
	}
	type job struct{ lo, hi int }
	jobs := make(chan job, len(cases)/v.Batch+2)
	for lo := 0; lo < len(cases); lo += v.Batch {
		hi := lo + v.Batch
		if hi > len(cases) {
			hi = len(cases)
		}
		jobs <- job{lo, hi}
	}
	close(jobs)
	var wg sync.WaitGroup
	var mu sync.Mutex
	for w := 0; w < runtime.NumCPU(); w++ {
		wg.Add(1)
		go func() {
			defer wg.Done()
			for j := range jobs {
				lo := j.lo
				for lo < j.hi {
					done, crash, marker := runChild(c, v, cases, lo, j.hi, res)
					atomic.AddInt64(&st.procs, 1)
					if marker != "" {
						mu.Lock()
						st.markerInLogs = append(st.markerInLogs, marker)
						mu.Unlock()
					}
					if crash == nil {
						break
					}
					if done < lo {
						done = lo
					}
					if done >= j.hi {
						done = j.hi - 1
					}
					res[done].Crash = crash
					if crash.Kind == "race" {
						break // results are complete, the reports are attributed to the batch
					}
					res[done].Out = nil
					lo = done + 1
				}
			}
		}()
	}
	wg.Wait()
	return res
}

func runChild(c *core.Ctx, v *variant, cases []json.RawMessage, lo, hi int, res []core.CaseResult) (journaled int, crash *core.Crash, marker string) {
	id := atomic.AddInt64(&childSeq, 1)
	dir := filepath.Join(c.Out, "children")
	os.MkdirAll(dir, 0o755)
	base := filepath.Join(dir, fmt.Sprintf("v%d-%d-%d", v.ID, os.Getpid(), id))
	in, out, jr, lg := base+".in", base+".out", base+".journal", base+".log"
	var buf bytes.Buffer
	for i := lo; i < hi; i++ {
		fmt.Fprintf(&buf, "%d\t%s\n", i, cases[i])
	}
	os.WriteFile(in, buf.Bytes(), 0o644)
	os.WriteFile(jr, []byte("-1"), 0o644)
	os.Remove(out)
	cmd := exec.Command(v.Bin, append([]string{"child", c.Prop, "script", in, out, jr}, v.Args...)...)
	cmd.Env = v.Env
	cmd.Dir = v.Dir
	var sf *os.File
	switch v.Stdin {
	case "file":
		sf, _ = os.Open(v.StdinPath)
		if sf != nil {
			cmd.Stdin = sf
		}
	case "pipe":
		cmd.Stdin = strings.NewReader(v.stdinData)
	}
	lf, _ := os.Create(lg)
	cmd.Stdout = lf
	cmd.Stderr = lf
	cmd.SysProcAttr = &syscall.SysProcAttr{Setpgid: true}
	if v.UTS {
		cmd.SysProcAttr.Unshareflags = syscall.CLONE_NEWUTS
	}
	const timeoutS = 900
	if err := cmd.Start(); err != nil {
		lf.Close()
		return lo, &core.Crash{Kind: "exit", Detail: "cannot start child: " + err.Error()}, ""
	}
	doneCh := make(chan error, 1)
	go func() { doneCh <- cmd.Wait() }()
	var err error
	timedOut := false
	select {
	case err = <-doneCh:
	case <-time.After(timeoutS * time.Second):
		timedOut = true
		cmd.Process.Signal(syscall.SIGQUIT)
		select {
		case err = <-doneCh:
		case <-time.After(10 * time.Second):
			syscall.Kill(-cmd.Process.Pid, syscall.SIGKILL)
			err = <-doneCh
		}
	}
	lf.Close()
	if sf != nil {
		sf.Close()
	}
	if f, e := os.Open(out); e == nil {
		sc := bufio.NewScanner(f)
		sc.Buffer(make([]byte, 1<<20), 1<<28)
		for sc.Scan() {
			line := sc.Bytes()
			t := bytes.IndexByte(line, '\t')
			if t < 0 {
				continue
			}
			i, e2 := strconv.Atoi(string(line[:t]))
			if e2 != nil || i < lo || i >= hi {
				continue
			}
			res[i].Out = append(json.RawMessage(nil), line[t+1:]...)
		}
		f.Close()
	}
	jb, _ := os.ReadFile(jr)
	journaled, _ = strconv.Atoi(strings.TrimSpace(string(jb)))
	logb := readCapped(lg, 8<<20)
	// "output is discarded": nothing the guest wrote may reach the real stdout/stderr
	if i := bytes.Index(logb, []byte(writeMarker)); i >= 0 {
		e := i + 80
		if e > len(logb) {
			e = len(logb)
		}
		marker = fmt.Sprintf("variant %s: %q", v.Name, logb[i:e])
	}
	if bytes.Contains(logb, []byte("WARNING: DATA RACE")) && !timedOut {
		allOut := true
		for i := lo; i < hi; i++ {
			if res[i].Out == nil {
				allOut = false
			}
		}
		if allOut {
			return hi - 1, &core.Crash{Kind: "race", Detail: core.Trunc(string(logb), 1500), Log: lg}, marker
		}
	}
	if err == nil && !timedOut {
		for i := lo; i < hi; i++ {
			if res[i].Out == nil {
				return i, &core.Crash{Kind: "nooutput", Detail: "child exited 0 without a result for this case", Log: lg}, marker
			}
		}
		for _, f := range []string{in, out, jr, lg} {
			os.Remove(f)
		}
		return journaled, nil, marker
	}
	cr := &core.Crash{Log: lg}
	switch {
	case timedOut:
		cr.Kind, cr.Detail = "timeout", fmt.Sprintf("watchdog %ds fired", timeoutS)
	case reFatal.Match(logb):
		cr.Kind, cr.Detail = "fatal", string(reFatal.FindSubmatch(logb)[1])
	case rePanic.Match(logb):
		cr.Kind, cr.Detail = "panic", core.Trunc(string(rePanic.FindSubmatch(logb)[1]), 300)
	default:
		cr.Kind, cr.Detail = "exit", fmt.Sprintf("%v", err)
	}
	return journaled, cr, marker
}

// readCapped reads at most max bytes of a child's log. (If the guest ever gets
// at the real stdout/stderr, fd_pwrite with a huge offset makes the log a
// sparse file of many GiB: never read it whole.)
func readCapped(path string, max int64) []byte {
	f, err := os.Open(path)
	if err != nil {
		return nil
	}
	defer f.Close()
	b, _ := io.ReadAll(io.LimitReader(f, max))
	return b
}

// ---------------------------------------------------------------------------
// parent

type cell struct {
	out   *scriptOut
	crash *core.Crash
}

func firstWords(s string, n int) string {
	f := strings.Fields(s)
	if len(f) > n {
		f = f[:n]
	}
	return strings.Join(f, "_")
}

func (v *variant) describe() map[string]any {
	return map[string]any{"id": v.ID, "name": v.Name, "dir": v.Dir, "extra_argv": v.Args, "stdin": v.Stdin, "stdin_path": v.StdinPath,
		"race": v.Race, "gomaxprocs": v.Procs, "own_uts_namespace_with_canary_hostname": v.UTS, "env": v.Env, "bin": v.Bin}
}

func run(c *core.Ctx) int {
	nScripts := c.N(1200, 10000)
	nVariants := c.N(6, 8)
	rng := core.NewRng(c.Seed, 18)
	sigs := wasiproxy.Signatures()

	root, err := os.MkdirTemp("", "c18-")
	if err != nil {
		fmt.Println("cannot create work dir:", err)
		return 2
	}
	defer os.RemoveAll(root)
	os.RemoveAll(filepath.Join(c.Out, "children"))
	variants, err := buildVariants(c, root, nVariants, rng.Split())
	if err != nil {
		fmt.Println("cannot prepare variants:", err)
		return 2
	}

	scripts := make([]scriptCase, nScripts)
	for i := range scripts {
		scripts[i] = scriptCase{ID: i, Seed: rng.U64(), N: 20 + rng.Intn(181)}
	}
	getCalls := func(id int) []wcall { return genScript(sigs, scripts[id].Seed, scripts[id].N) }

	// ---- run every script in every variant (variants start seconds apart) ----
	cells := make([][]cell, nVariants)
	st := &spawnStats{}
	startSeconds := map[int64]bool{}
	planted := 0

	// ---- real-sleep monitor: one probe process per variant, all at once (on a
	// broken tree the whole phase costs one watchdog period) ----
	{
		probeRes := make([][]core.CaseResult, len(variants))
		var wg sync.WaitGroup
		for vi, v := range variants {
			wg.Add(1)
			go func(vi int, v *variant) {
				defer wg.Done()
				probeRes[vi] = spawn(c, v, []json.RawMessage{core.J(scriptCase{ID: -1 - vi, Probe: "sleep"})}, st)
			}(vi, v)
		}
		wg.Wait()
		for vi, v := range variants {
			r := probeRes[vi][0]
			var so scriptOut
			if r.Crash != nil && r.Crash.Kind != "race" {
				if r.Crash.Kind == "timeout" {
					c.Inconclusive("real-sleep-probe:watchdog")
				} else {
					c.Violate("crash:real-sleep-probe:"+r.Crash.Kind+":"+firstWords(r.Crash.Detail, 6), r.Crash.Detail, map[string]any{"variant": v.describe(), "crash": r.Crash})
				}
				continue
			}
			if r.Out == nil || json.Unmarshal(r.Out, &so) != nil {
				c.Inconclusive("real-sleep-probe:bad-child-output")
				continue
			}
			c.Count("real_sleep_probe_processes", 1)
			c.Count("real_sleep_probes", int64(so.Traces))
			if n, ok := so.Probe["returned_at_once"].(float64); ok {
				c.Count("real_sleep_probes_returned_at_once", int64(n))
			}
			if m, ok := so.Probe["per_flavour"].(map[string]any); ok {
				for k, n := range m {
					c.Distinct("probe_ctx_flavours", k)
					if f, ok := n.(float64); ok {
						c.Count("real_sleep_probes_ctx_"+k, int64(f))
					}
				}
			}
			if m, ok := so.Probe["per_shape"].(map[string]any); ok {
				for k := range m {
					c.Distinct("probe_shapes", k)
				}
			}
			c.Extra(fmt.Sprintf("real_sleep_probe_variant_%d", vi), so.Probe)
			for _, k := range so.Inconcl {
				c.Inconclusive(k)
			}
			for _, f := range so.Findings {
				c.Violate(f.Sig, f.Detail, map[string]any{"variant": v.describe(), "finding": f,
					"replay": "instantiate the WASI proxy guest with wazero.NewModuleConfig(), call the exported poll_oneoff with the subscription bytes of finding.got.call under the named context flavour: it must return at once"})
			}
		}
	}

	for vi, v := range variants {
		if vi > 0 {
			time.Sleep(1100 * time.Millisecond) // different start second; the value itself is never used
		}
		planted += v.planted
		order := make([]int, nScripts)
		for i := range order {
			order[i] = i
		}
		pr := rng.Split()
		for i := len(order) - 1; i > 0; i-- { // per-variant order: a process never sees the same neighbours
			j := pr.Intn(i + 1)
			order[i], order[j] = order[j], order[i]
		}
		cases := make([]json.RawMessage, 0, nScripts)
		for _, si := range order {
			sc := scripts[si]
			sc.Stats = vi == 0
			cases = append(cases, core.J(sc))
		}
		before := st.procs
		res := spawn(c, v, cases, st)
		c.Count(fmt.Sprintf("processes_variant_%d_%s", vi, v.Name), st.procs-before)
		cells[vi] = make([]cell, nScripts)
		for _, r := range res {
			var so scriptOut
			ok := r.Out != nil && json.Unmarshal(r.Out, &so) == nil
			if r.Crash != nil {
				switch r.Crash.Kind {
				case "race":
					for key, rep := range core.RaceReports(readCapped(r.Crash.Log, 8<<20)) {
						c.Violate("race:"+strings.ReplaceAll(key, "github.com/tetratelabs/wazero", "wazero"), rep, map[string]any{"variant": v.describe(), "report": rep})
					}
					c.Count("race_reports", 1)
				case "timeout":
					c.Inconclusive("watchdog")
				default:
					c.Violate("crash:"+r.Crash.Kind+":"+firstWords(r.Crash.Detail, 6), r.Crash.Detail, map[string]any{"variant": v.describe(), "case": cases[r.Index], "crash": r.Crash})
				}
			}
			if !ok {
				if r.Crash == nil {
					c.Inconclusive("bad-child-output")
				}
				continue
			}
			if so.Host != nil {
				if s, ok := so.Host["start_unix_s"].(float64); ok {
					startSeconds[int64(s)] = true
				}
				if vi < 8 && so.ID >= 0 {
					delete(so.Host, "start_unix_s")
					c.Extra(fmt.Sprintf("host_seen_by_variant_%d", vi), so.Host)
				}
			}
			if so.ID < 0 {
				continue
			}
			if so.ID >= nScripts {
				continue
			}
			if so.GaveUp != "" {
				c.Inconclusive("child-gave-up:" + so.GaveUp)
				continue
			}
			cells[vi][so.ID] = cell{out: &so, crash: r.Crash}
		}
	}
	for _, m := range st.markerInLogs {
		c.Violate("default:stdio-write-reaches-host-stdio", "bytes written by the guest with fd_write showed up in the child's real stdout/stderr: "+m, map[string]any{"log_excerpt": m})
	}

	// ---- decide ----
	var evals int64
	detailBudget := map[string]int{}
	minNeedles, maxNeedles := 1<<30, 0
	skipped := map[string]bool{}
	for id := 0; id < nScripts; id++ {
		var present []int
		for vi := range variants {
			if cells[vi][id].out != nil {
				present = append(present, vi)
			}
		}
		if len(present) < nVariants {
			c.Inconclusive("script-not-run-in-all-processes")
		}
		if len(present) < 2 {
			continue
		}
		c.Count("scripts_compared", 1)
		groups := map[string][]int{}
		for _, vi := range present {
			so := cells[vi][id].out
			groups[so.Sha] = append(groups[so.Sha], vi)
			evals += int64(so.Traces)
			c.Count("traces", int64(so.Traces))
			c.Count("scan_bytes", so.ScanBytes)
			c.Distinct("exec_plans", so.Plan)
			c.Count("traces_config_"+so.Reuse, int64(so.Traces))
			c.Distinct("config_reuse_modes", so.Reuse)
			for k, n := range so.Shapes {
				c.Count("calls_shape_"+k, int64(n))
			}
			for k, n := range so.Ctx {
				c.Count("traces_ctx_"+k, int64(n))
			}
			c.Count("calls_slower_than_grace_period_but_returned_during_control", int64(so.SlowCalls))
			if so.Needles < minNeedles {
				minNeedles = so.Needles
			}
			if so.Needles > maxNeedles {
				maxNeedles = so.Needles
			}
			for _, s := range so.Skipped {
				skipped[s] = true
			}
			for k, n := range so.Asserts {
				c.Count("assert_"+k, int64(n))
			}
			for _, f := range so.Findings {
				w := map[string]any{"variant": variants[vi].describe(), "script": scripts[id], "finding": f, "plan": so.Plan}
				if f.Call >= 0 {
					calls := getCalls(id)
					if f.Call < len(calls) {
						w["call"] = calls[f.Call]
						w["minimal"] = minimise(c, variants[vi], id, calls, f, st)
					}
				}
				c.Violate(f.Sig, f.Detail, w)
			}
		}
		ref := cells[present[0]][id].out
		c.Count("calls_in_reference_traces", int64(ref.N))
		if ref.N >= 20 {
			c.Distinct("traces_sha", ref.Sha)
		}
		if ref.Stats != nil {
			for k, n := range ref.Stats {
				fn := k[:strings.IndexByte(k, ' ')]
				if i := strings.IndexByte(fn, '('); i >= 0 {
					fn = fn[:i]
				}
				c.Count("call_"+fn, int64(n))
				c.Distinct("functions", fn)
				c.Distinct("fn_results", k)
			}
			if id%211 == 0 {
				calls := getCalls(id)
				var names []string
				for i := range calls {
					if i < 12 {
						names = append(names, fmt.Sprintf("%s%v", calls[i].Fn, calls[i].Args))
					}
				}
				c.Sample(map[string]any{"script": scripts[id], "first_calls": names, "trace_sha": ref.Sha, "calls_executed": ref.N, "processes": len(present), "traces_per_process": ref.Traces})
			}
		}
		mismatch := len(groups) > 1
		if mismatch {
			c.Count("scripts_with_cross_process_mismatch", 1)
			decideMismatch(c, variants, scripts[id], getCalls(id), cells, groups, detailBudget, st)
		}
		// Time values found in random output. The fake random stream is the same in
		// every process, so a value that tracks the host clock cannot sit at the
		// same place of an unchanged trace in processes started seconds apart: a
		// candidate counts only if at least three processes report it for the same
		// call, offset and scaling AND (the scaling is seconds OR the script's
		// trace differs between processes). Everything else is chance.
		tcs := map[string][]int{}
		for _, vi := range present {
			for _, tc := range cells[vi][id].out.TimeCands {
				key := fmt.Sprintf("%d/%d/%s", tc.Call, tc.Off, tc.Scaling)
				tcs[key] = append(tcs[key], vi)
			}
		}
		for key, vis := range tcs {
			sc := key[strings.LastIndexByte(key, '/')+1:]
			if len(vis) >= 3 && (sc == "s-u64" || mismatch) {
				c.Violate("leak:time-"+sc+":random_get", "random_get output contains the host's current time in at least three processes at the same place",
					map[string]any{"processes": vis, "script": scripts[id], "call/offset/scaling": key})
			} else {
				c.Count("time_scan_random_candidates_dismissed_as_chance", int64(len(vis)))
			}
		}
	}

	// ---- coverage demands ----
	for _, s := range sigs {
		if c.Counter("call_"+s.Name) == 0 {
			c.Inconclusive("function-never-called:" + s.Name)
		}
	}
	for _, a := range []string{"args_sizes_get=0,0", "environ_sizes_get=0,0", "args_get-writes-nothing", "environ_get-writes-nothing",
		"prestat-fd>=3-EBADF", "stdin-EOF", "stdout/stderr-write-succeeds", "fd>2-never-succeeds", "path/sock-never-succeeds"} {
		if c.Counter("assert_"+a) == 0 {
			c.Inconclusive("assert-never-reached:" + a)
		}
	}
	if c.Counter("real_sleep_probes") == 0 {
		c.Inconclusive("real-sleep-probe-never-ran")
	}
	if c.DistinctN("probe_ctx_flavours") < len(flavours) || c.DistinctN("probe_shapes") < len(probeShapes) {
		c.Inconclusive("real-sleep-probe-flavour-or-shape-missing")
	}
	for _, sh := range callShapes {
		if sh == "" {
			sh = "flat"
		}
		if c.Counter("calls_shape_"+sh) == 0 {
			c.Inconclusive("call-shape-never-used:" + sh)
		}
	}
	if c.Counter("calls_shape_all_ones_pattern") == 0 {
		c.Inconclusive("all-ones-argument-pattern-never-used")
	}
	for _, m := range reuseModes {
		if c.Counter("traces_config_"+m) == 0 {
			c.Inconclusive("config-reuse-mode-never-reached:" + m)
		}
	}
	for _, f := range flavours {
		if c.Counter("traces_ctx_"+f.name) == 0 {
			c.Inconclusive("context-flavour-without-trace:" + f.name)
		}
	}
	if len(startSeconds) < 2 {
		c.Inconclusive("processes-not-started-at-different-seconds")
	}
	c.Count("processes_spawned", st.procs)
	c.Count("scripts", int64(nScripts))
	c.Count("process_variants", int64(nVariants))
	c.Count("canaries_planted", int64(planted))
	c.Extra("needles_per_process_min_max", []int{minNeedles, maxNeedles})
	c.Extra("distinct_process_start_seconds", len(startSeconds))
	var sk []string
	for s := range skipped {
		sk = append(sk, s)
	}
	sort.Strings(sk)
	c.Extra("needles_skipped_as_too_short", sk)
	var vd []any
	for _, v := range variants {
		d := v.describe()
		d["env"] = len(v.Env)
		vd = append(vd, d)
	}
	c.Extra("variants", vd)
	c.Extra("scan_rule", "every byte range a call changed in guest memory is searched for every needle (planted canaries: all contain the marker "+canaryMarker+
		"; every environment value >= 6 bytes, extra argv, host name, user name and home, cwd, executable path, pid and ppid as decimal ASCII) of >= 4 bytes; "+
		"ranges written by random_get only for needles >= 8 bytes. Time scan (host time now, +-1 day): only on what clock_*, *_filestat_get and random_get wrote; "+
		"u64 LE at every byte offset in s/ms/us/ns, plus u32 LE seconds at 4-aligned offsets for clock/filestat. A hit in random output is a violation only when >= 3 processes report it "+
		"for the same call, offset and scaling and (scaling is seconds or the script's trace also differs between processes); otherwise it is dismissed as chance and counted.")
	c.Extra("config_reuse_rule", "every instance has a default-valued ModuleConfig; per (process variant, script) one of: fresh NewModuleConfig().WithName(\"\") per instance; ONE untouched NewModuleConfig() value for the whole process, one instance at a time; "+
		"one base per script with base.WithName(unique) for all six instances derived before any instantiation; base instantiated first and every other config derived from it afterwards; one base value for all six instances, three alive at once per engine. Trace equality across instances/engines/processes decides.")
	c.Extra("call_shape_rule", "each script step reaches its WASI import through a PRNG-chosen guest call shape (same in every process/engine/instance): flat pass-through wrapper (1/2), or after a helper call with 8/16/24 all-ones i64 arguments or 12 all-ones f64 arguments, or from 3 nested guest frames, or both; "+
		"1/8 of the steps are preceded by fd_filestat_set_times(fd,-1,-1,0) / fd_advise(fd,-1,-1,0) / fd_seek(fd,-1,..). Counters calls_shape_* are calls of reference traces.")
	c.Extra("context_rule", "interpreter/A (reference trace) is called under context.Background(); the other five instances of a script in a process are called under value-only, WithCancel (never cancelled), WithTimeout(1h), WithDeadline(+50y) and value(WithCancel) contexts, rotated with variant and script; all six traces must be byte-identical. "+
		"Real-sleep probes: engines x 6 context flavours x 9 shapes (poll_oneoff clock relative/absolute, realtime/monotonic, with fd_write / fd_read subscriptions, two clocks; sched_yield) x timeouts of 1 hour and 1 year; verdict = subject not returned although its control (timeout 0) returned and >= 1000 further control calls completed in the process during a >= 30 s watchdog.")
	c.Assume("scripts have at most 200 calls, so the fake monotonic clock (1ms per reading) stays far below the current Unix time in any scaling")
	c.Assume("trace equality covers what the guest can observe: results, memory; the host-side error text of a recovered host-function panic is reduced to its first line with numbers masked")
	return c.Finish(evals, int64(c.DistinctN("traces_sha")),
		"evaluations = traces compared (script x process x engine x instance); a script is non-trivial if its reference trace has >= 20 executed calls; distinct = distinct sha256 of reference traces")
}

// decideMismatch turns a cross-process hash mismatch into a violation with a
// narrow signature by re-running the script with full traces in the two
// environments.
func decideMismatch(c *core.Ctx, variants []*variant, sc scriptCase, calls []wcall, cells [][]cell, groups map[string][]int, budget map[string]int, st *spawnStats) {
	// reference group = the largest (ties: the one containing the lowest variant)
	var shas []string
	for s := range groups {
		shas = append(shas, s)
	}
	sort.Slice(shas, func(i, j int) bool {
		a, b := groups[shas[i]], groups[shas[j]]
		if len(a) != len(b) {
			return len(a) > len(b)
		}
		return a[0] < b[0]
	})
	vr := groups[shas[0]][0]
	ro := cells[vr][sc.ID].out
	for _, s := range shas[1:] {
		vd := groups[s][0]
		do := cells[vd][sc.ID].out
		k := 0
		for k*8+8 <= len(ro.Chain) && k*8+8 <= len(do.Chain) && ro.Chain[k*8:k*8+8] == do.Chain[k*8:k*8+8] {
			k++
		}
		if k >= len(calls) {
			k = len(calls) - 1
		}
		tag := fnTag(&calls[k])
		if budget[tag] >= 3 {
			continue
		}
		budget[tag]++
		w := map[string]any{"script": sc, "first_differing_call_index": k, "call": calls[k],
			"process_a": variants[vr].describe(), "process_b": variants[vd].describe(),
			"groups": groups, "note": "replay: run the script (genScript(seed,n)) under wazero.NewModuleConfig() in two processes; calls after the index are irrelevant"}
		field := "trace"
		// full traces of both environments
		dsc := sc
		dsc.Detail = true
		ra := spawn(c, variants[vr], []json.RawMessage{core.J(dsc)}, st)
		time.Sleep(1100 * time.Millisecond) // the two processes start in different seconds, like the original ones
		rb := spawn(c, variants[vd], []json.RawMessage{core.J(dsc)}, st)
		var oa, ob scriptOut
		if ra[0].Out != nil && rb[0].Out != nil && json.Unmarshal(ra[0].Out, &oa) == nil && json.Unmarshal(rb[0].Out, &ob) == nil {
			for i := 0; i < len(oa.Detail) && i < len(ob.Detail); i++ {
				if d := firstRecDiff(&oa.Detail[i], &ob.Detail[i]); d != "" {
					field = d
					k = i
					tag = fnTag(&calls[k])
					w["first_differing_call_index"] = k
					w["call"] = calls[k]
					w["record_a"] = oa.Detail[i]
					w["record_b"] = ob.Detail[i]
					break
				}
			}
			if field == "trace" {
				w["rerun"] = "the difference did not show again when both processes were started once more"
			} else {
				// minimal reproducer: the differing call alone
				msc := scriptCase{ID: sc.ID, Calls: []wcall{calls[k]}, Detail: true}
				ma := spawn(c, variants[vr], []json.RawMessage{core.J(msc)}, st)
				time.Sleep(1100 * time.Millisecond)
				mb := spawn(c, variants[vd], []json.RawMessage{core.J(msc)}, st)
				var xa, xb scriptOut
				if ma[0].Out != nil && mb[0].Out != nil && json.Unmarshal(ma[0].Out, &xa) == nil && json.Unmarshal(mb[0].Out, &xb) == nil &&
					len(xa.Detail) == 1 && len(xb.Detail) == 1 && !recEqual(&xa.Detail[0], &xb.Detail[0]) {
					w["minimal"] = map[string]any{"script": "this single call as the first call of a fresh instance", "record_a": xa.Detail[0], "record_b": xb.Detail[0]}
				} else {
					w["minimal"] = fmt.Sprintf("needs the prefix: calls 0..%d of the script", k)
				}
			}
		}
		c.Violate(tag+":"+field+":differs-across-processes",
			fmt.Sprintf("script seed=%d n=%d: call %d (%s) gives a different %s in process variant %q than in %q", sc.Seed, sc.N, k, calls[k].Fn, field, variants[vd].Name, variants[vr].Name), w)
	}
}

// minimise checks whether the finding shows with the single call alone.
var minimiseBudget = map[string]int{}

func minimise(c *core.Ctx, v *variant, id int, calls []wcall, f finding, st *spawnStats) any {
	if minimiseBudget[f.Sig] >= 1 || strings.HasPrefix(f.Sig, "harness:") {
		return nil
	}
	minimiseBudget[f.Sig]++
	try := func(cs []wcall) bool {
		// same id: same context rotation and config reuse mode as the original run
		r := spawn(c, v, []json.RawMessage{core.J(scriptCase{ID: id, Calls: cs})}, st)
		var so scriptOut
		if r[0].Out == nil || json.Unmarshal(r[0].Out, &so) != nil {
			return false
		}
		for _, g := range so.Findings {
			if g.Sig == f.Sig {
				return true
			}
		}
		return false
	}
	if try([]wcall{calls[f.Call]}) {
		return map[string]any{"script": "this single call on fresh instances", "calls": []wcall{calls[f.Call]}}
	}
	// two calls of the same function (sequence-dependent findings)
	for i := f.Call - 1; i >= 0; i-- {
		if calls[i].Fn == calls[f.Call].Fn {
			if try([]wcall{calls[i], calls[f.Call]}) {
				return map[string]any{"script": "these two calls on fresh instances", "calls": []wcall{calls[i], calls[f.Call]}}
			}
			break
		}
	}
	return fmt.Sprintf("needs the prefix: calls 0..%d of the script", f.Call)
}
