package c18

import (
	"encoding/binary"
	"encoding/hex"
	"encoding/json"
	"strings"

	"github.com/tetratelabs/wazero/verifharness/core"
	"github.com/tetratelabs/wazero/verifharness/wasiproxy"
)

const (
	memSize = 65536 // the proxy guest has exactly one page (min 1, max 1)

	// writeMarker is part of every fd_write / fd_pwrite / sock_send payload; it
	// must never show up in the real stdout/stderr of a child process.
	writeMarker = "c18-guest-write-marker/"
)

// hexBytes marshals as a hex string (witnesses stay readable).
type hexBytes []byte

func (h hexBytes) MarshalJSON() ([]byte, error) { return json.Marshal(hex.EncodeToString(h)) }
func (h *hexBytes) UnmarshalJSON(b []byte) error {
	var s string
	if err := json.Unmarshal(b, &s); err != nil {
		return err
	}
	d, err := hex.DecodeString(s)
	*h = d
	return err
}

type memWrite struct {
	Off  uint32   `json:"off"`
	Data hexBytes `json:"data"`
	What string   `json:"what,omitempty"` // "in" (argument data) | "prefill" (pattern under an output region)
}

type region struct {
	Off  uint32 `json:"off"`
	Len  uint32 `json:"len"`
	Name string `json:"name,omitempty"`
}

// wcall is one WASI call of a script: raw arguments, the bytes the harness
// writes into guest memory before the call, and the regions the call may write
// (recorded in full in the trace).
type wcall struct {
	Fn    string     `json:"fn"`
	Shape string     `json:"shape,omitempty"` // call shape (see guest.go): "" flat wrapper, d8/d16/d24/df dirty stack, n3 nested, d24n3
	Args  []uint64   `json:"args"`
	In    []memWrite `json:"in,omitempty"`
	Out   []region   `json:"out,omitempty"`
	Class string     `json:"class,omitempty"` // clock | random | filestat | "" : selects the time scan rule
	Note  string     `json:"note,omitempty"`  // refinement used in signatures, e.g. clock id class

	// facts for the direct assertions
	FD      int64  `json:"fd"`                 // value of the (first) fd parameter, -1 if none
	Valid   bool   `json:"valid"`              // all pointers in range, argument shape is the well-formed one
	IOTotal uint32 `json:"io_total,omitempty"` // sum of iovec lengths
}

type gen struct {
	r    *core.Rng
	cur  uint32
	c    *wcall
	bad  bool // this call gets one out-of-range pointer
	badN int
}

var fdTable = []uint64{0, 0, 0, 1, 1, 2, 2, 3, 3, 3, 3, 4, 5, 7, 0xffffffff, 0x80000000, 100000}

func (g *gen) fd() uint64 {
	v := fdTable[g.r.Intn(len(fdTable))]
	if g.c.FD == -1 {
		g.c.FD = int64(v)
	}
	return v
}

func (g *gen) alloc(n uint32) uint32 {
	if g.r.Chance(1, 3) {
		g.cur += uint32(g.r.Intn(9))
	} else {
		g.cur = (g.cur + 7) &^ 7
	}
	p := g.cur
	g.cur += n
	return p
}

// in places argument data and returns its address.
func (g *gen) in(data []byte) uint32 {
	p := g.alloc(uint32(len(data)))
	if len(data) > 0 {
		g.c.In = append(g.c.In, memWrite{Off: p, Data: append([]byte(nil), data...), What: "in"})
	}
	return p
}

// out declares an output region of n bytes pre-filled with a PRNG pattern (so
// "not written" and "written with zeros" are different traces).
func (g *gen) out(n uint32, name string) uint32 {
	p := g.alloc(n)
	if g.bad {
		g.badN--
		if g.badN == 0 {
			g.bad = false
			g.c.Valid = false
			switch g.r.Intn(3) {
			case 0:
				return memSize - uint32(g.r.Intn(int(n)+1)) // crosses the end of memory (or exactly at it)
			case 1:
				return 0xfffffff0
			default:
				return memSize + uint32(g.r.Intn(4096))
			}
		}
	}
	if n > 0 {
		g.c.In = append(g.c.In, memWrite{Off: p, Data: g.r.Bytes(int(n)), What: "prefill"})
	}
	g.c.Out = append(g.c.Out, region{Off: p, Len: n, Name: name})
	return p
}

var clockIDs = []uint64{0, 0, 0, 1, 1, 1, 2, 3, 4, 5, 0xffffffff, 0x80000000, 1 << 16}

func clockNote(id uint64) string {
	switch id {
	case 0:
		return "realtime"
	case 1:
		return "monotonic"
	case 2:
		return "process_cputime"
	case 3:
		return "thread_cputime"
	}
	return "invalid-id"
}

var randomLens = []uint32{0, 1, 2, 3, 7, 8, 9, 15, 16, 17, 31, 32, 33, 64, 100, 255, 256, 257, 1000, 1024, 4096}

var pathTable = []string{"a", ".", "..", "", "etc/passwd", "/etc/passwd", "../../etc/hostname", "proc/self/environ",
	"dev/stdin", "tmp/x", "./a/b/", "home", "\x00", strings.Repeat("a", 300)}

var pollTimeouts = []uint64{0, 0, 1, 1000, 1000000, 20000000, 50000000}

func (g *gen) iovsOut() (ptr, n uint32) {
	n = uint32(g.r.Intn(5))
	buf := make([]byte, 8*n)
	total := uint32(0)
	for i := uint32(0); i < n; i++ {
		l := uint32(g.r.Intn(65))
		if g.r.Chance(1, 8) {
			l = 0
		}
		p := g.out(l, "iov-buf")
		binary.LittleEndian.PutUint32(buf[8*i:], p)
		binary.LittleEndian.PutUint32(buf[8*i+4:], l)
		total += l
	}
	g.c.IOTotal = total
	return g.in(buf), n
}

func (g *gen) iovsIn() (ptr, n uint32) {
	n = uint32(g.r.Intn(5))
	buf := make([]byte, 8*n)
	total := uint32(0)
	for i := uint32(0); i < n; i++ {
		var data []byte
		if i == 0 {
			data = append(data, writeMarker...)
		}
		data = append(data, g.r.Bytes(g.r.Intn(48))...)
		if g.r.Chance(1, 8) && i != 0 {
			data = nil
		}
		p := g.in(data)
		binary.LittleEndian.PutUint32(buf[8*i:], p)
		binary.LittleEndian.PutUint32(buf[8*i+4:], uint32(len(data)))
		total += uint32(len(data))
	}
	g.c.IOTotal = total
	return g.in(buf), n
}

func (g *gen) pathArg() (ptr, n uint64) {
	s := pathTable[g.r.Intn(len(pathTable))]
	return uint64(g.in([]byte(s))), uint64(len(s))
}

// genCall builds one call of fn with valid-ish arguments.
func genCall(r *core.Rng, s *wasiproxy.Sig) wcall {
	c := wcall{Fn: s.Name, FD: -1, Valid: true}
	g := &gen{r: r, c: &c}
	g.cur = 256 + uint32(r.Intn(30000))
	if r.Chance(1, 40) {
		g.bad = true
		g.badN = 1 + r.Intn(3)
	}
	a := func(v ...uint64) { c.Args = append(c.Args, v...) }
	small64 := func() uint64 {
		if r.Chance(1, 6) {
			return r.I64()
		}
		return uint64(r.Intn(5000))
	}
	switch s.Name {
	case "args_get", "environ_get":
		a(uint64(g.out(32, "ptrs")), uint64(g.out(64, "buf")))
	case "args_sizes_get", "environ_sizes_get":
		a(uint64(g.out(4, "count")), uint64(g.out(4, "buflen")))
	case "clock_res_get":
		id := clockIDs[r.Intn(len(clockIDs))]
		c.Class, c.Note = "clock", clockNote(id)
		a(id, uint64(g.out(8, "resolution")))
	case "clock_time_get":
		id := clockIDs[r.Intn(len(clockIDs))]
		c.Class, c.Note = "clock", clockNote(id)
		a(id, r.I64(), uint64(g.out(8, "timestamp")))
	case "random_get":
		l := randomLens[r.Intn(len(randomLens))]
		if r.Chance(1, 4) {
			l = uint32(r.Intn(600))
		}
		c.Class = "random"
		a(uint64(g.out(l, "random")), uint64(l))
	case "fd_advise":
		a(g.fd(), small64(), small64(), uint64(r.Intn(8)))
	case "fd_allocate":
		a(g.fd(), small64(), small64())
	case "fd_close":
		// stdio is closed only sometimes so that most of a script sees it open
		fd := g.fd()
		if fd <= 2 && !r.Chance(1, 4) {
			fd = 3 + uint64(r.Intn(4))
		}
		c.FD = int64(fd)
		a(fd)
	case "fd_datasync", "fd_sync":
		a(g.fd())
	case "fd_fdstat_get":
		a(g.fd(), uint64(g.out(24, "fdstat")))
	case "fd_fdstat_set_flags":
		fl := []uint64{0, 0, 1, 2, 4, 5, 8, 16, uint64(r.Intn(32))}
		a(g.fd(), fl[r.Intn(len(fl))])
	case "fd_fdstat_set_rights":
		a(g.fd(), r.I64(), r.I64())
	case "fd_filestat_get":
		c.Class = "filestat"
		a(g.fd(), uint64(g.out(64, "filestat")))
	case "fd_filestat_set_size":
		a(g.fd(), small64())
	case "fd_filestat_set_times":
		a(g.fd(), small64(), small64(), uint64(r.Intn(16)))
	case "fd_pread":
		fd := g.fd()
		p, n := g.iovsOut()
		a(fd, uint64(p), uint64(n), small64(), uint64(g.out(4, "nread")))
	case "fd_read":
		fd := g.fd()
		p, n := g.iovsOut()
		a(fd, uint64(p), uint64(n), uint64(g.out(4, "nread")))
	case "fd_pwrite":
		fd := g.fd()
		p, n := g.iovsIn()
		a(fd, uint64(p), uint64(n), small64(), uint64(g.out(4, "nwritten")))
	case "fd_write":
		fd := g.fd()
		if r.Chance(1, 2) {
			fd = 1 + uint64(r.Intn(2))
			c.FD = int64(fd)
		}
		p, n := g.iovsIn()
		a(fd, uint64(p), uint64(n), uint64(g.out(4, "nwritten")))
	case "fd_prestat_get":
		fd := g.fd()
		if r.Chance(1, 2) {
			fd = 3 + uint64(r.Intn(3))
			c.FD = int64(fd)
		}
		a(fd, uint64(g.out(8, "prestat")))
	case "fd_prestat_dir_name":
		fd := g.fd()
		if r.Chance(1, 2) {
			fd = 3 + uint64(r.Intn(3))
			c.FD = int64(fd)
		}
		l := uint32(r.Intn(33))
		a(fd, uint64(g.out(l, "dirname")), uint64(l))
	case "fd_readdir":
		l := uint32(r.Intn(257))
		a(g.fd(), uint64(g.out(l, "dirents")), uint64(l), uint64(r.Intn(4)), uint64(g.out(4, "bufused")))
	case "fd_renumber":
		fd := g.fd()
		to := uint64(r.Intn(10))
		if to == fd {
			to++ // fd_renumber(fd, fd) is C16's business
		}
		a(fd, to)
	case "fd_seek":
		a(g.fd(), small64(), uint64(r.Intn(4)), uint64(g.out(8, "newoffset")))
	case "fd_tell":
		a(g.fd(), uint64(g.out(8, "offset")))
	case "poll_oneoff":
		n := 1 + r.Intn(4)
		sub := make([]byte, 48*n)
		for i := 0; i < n; i++ {
			b := sub[48*i:]
			binary.LittleEndian.PutUint64(b, r.U64())
			k := r.Intn(20)
			switch {
			case k < 10: // clock
				b[8] = 0
				binary.LittleEndian.PutUint32(b[16:], uint32(r.Intn(4)))
				binary.LittleEndian.PutUint64(b[24:], pollTimeouts[r.Intn(len(pollTimeouts))])
				binary.LittleEndian.PutUint64(b[32:], r.I64())
				fl := uint16(0)
				if r.Chance(1, 10) {
					fl = uint16(1 + r.Intn(2))
				}
				binary.LittleEndian.PutUint16(b[40:], fl)
			case k < 16: // fd_read
				b[8] = 1
				fds := []uint32{0, 0, 0, 0, 1, 2, 3, 5}
				binary.LittleEndian.PutUint32(b[16:], fds[r.Intn(len(fds))])
			case k < 19: // fd_write
				b[8] = 2
				binary.LittleEndian.PutUint32(b[16:], uint32(r.Intn(5)))
			default:
				b[8] = byte(3 + r.Intn(200))
			}
		}
		a(uint64(g.in(sub)), uint64(g.out(uint32(32*n), "events")), uint64(n), uint64(g.out(4, "nevents")))
	case "proc_exit":
		codes := []uint64{0, 0, 1, 2, 3, 255, 0xffffffff}
		a(codes[r.Intn(len(codes))])
	case "proc_raise":
		a(uint64(r.Intn(32)))
	case "sched_yield":
	case "sock_accept":
		a(g.fd(), uint64(4*r.Intn(2)), uint64(g.out(4, "fd")))
	case "sock_recv":
		fd := g.fd()
		p, n := g.iovsOut()
		a(fd, uint64(p), uint64(n), uint64(r.Intn(4)), uint64(g.out(4, "ro_datalen")), uint64(g.out(2, "ro_flags")))
	case "sock_send":
		fd := g.fd()
		p, n := g.iovsIn()
		fl := uint64(0)
		if r.Chance(1, 8) {
			fl = 1
		}
		a(fd, uint64(p), uint64(n), fl, uint64(g.out(4, "so_datalen")))
	case "sock_shutdown":
		a(g.fd(), uint64(r.Intn(4)))
	default:
		// path_* and anything new: driven by the parameter names
		if strings.HasPrefix(s.Name, "path_filestat_get") {
			c.Class = "filestat"
		}
		pendingLen := uint64(0)
		for i, pn := range s.PNames {
			switch {
			case pn == "fd" || pn == "old_fd" || pn == "new_fd":
				a(g.fd())
			case pn == "path" || pn == "old_path" || pn == "new_path":
				p, l := g.pathArg()
				pendingLen = l
				a(p)
			case strings.HasSuffix(pn, "path_len"):
				a(pendingLen)
			case pn == "buf":
				l := uint32(r.Intn(65))
				pendingLen = uint64(l)
				a(uint64(g.out(l, "buf")))
			case pn == "buf_len":
				a(pendingLen)
			case pn == "result.filestat":
				a(uint64(g.out(64, "filestat")))
			case strings.HasPrefix(pn, "result."):
				a(uint64(g.out(4, pn)))
			case pn == "flags" || pn == "old_flags" || pn == "dirflags":
				a(uint64(r.Intn(2)))
			case pn == "oflags":
				a(uint64(r.Intn(16)))
			case pn == "fdflags":
				a(uint64(r.Intn(32)))
			case pn == "fst_flags":
				a(uint64(r.Intn(16)))
			case s.Params[i] == 0x7e: // i64: rights, times
				a(r.I64())
			default:
				a(uint64(r.Intn(64)))
			}
		}
	}
	if len(c.Args) != len(s.Params) {
		panic("c18 generator: wrong arity for " + s.Name)
	}
	return c
}

// fnWeights boosts the calls the property speaks about.
func fnWeight(name string) int {
	switch name {
	case "clock_time_get", "random_get":
		return 5
	case "poll_oneoff", "fd_read", "fd_write", "args_sizes_get", "environ_sizes_get", "args_get", "environ_get",
		"clock_res_get", "fd_prestat_get", "fd_filestat_get", "fd_fdstat_get":
		return 3
	case "proc_exit":
		return 0
	}
	return 1
}

// genScript derives a script of n calls from seed. It only depends on (seed, n)
// and the WASI signature list, so every process regenerates the same script.
func genScript(sigs []wasiproxy.Sig, seed uint64, n int) []wcall {
	r := core.NewRng(int64(seed), 1818)
	var pick []int
	exit := -1
	for i := range sigs {
		if sigs[i].Name == "proc_exit" {
			exit = i
		}
		for w := fnWeight(sigs[i].Name); w > 0; w-- {
			pick = append(pick, i)
		}
	}
	idx := map[string]*wasiproxy.Sig{}
	for i := range sigs {
		idx[sigs[i].Name] = &sigs[i]
	}
	withExit := exit >= 0 && r.Chance(1, 5)
	calls := make([]wcall, 0, n)
	for k := 0; k < n; k++ {
		if withExit && k == n-1 {
			calls = append(calls, genCall(r.Split(), &sigs[exit]))
			break
		}
		// script-level dirty-stack pattern: a WASI call carrying all-ones 64-bit
		// arguments right before the step
		if k < n-1 && r.Chance(1, 8) {
			calls = append(calls, allOnesCall(r.Split(), idx))
			k++
		}
		c := genCall(r.Split(), &sigs[pick[r.Intn(len(pick))]])
		if r.Chance(1, 2) {
			c.Shape = callShapes[1+r.Intn(len(callShapes)-1)]
		}
		calls = append(calls, c)
	}
	return calls
}

// allOnesCall is fd_filestat_set_times(fd,-1,-1,0), fd_advise(fd,-1,-1,0) or
// fd_seek(fd,-1,whence,ptr): 64-bit arguments with every bit set.
func allOnesCall(r *core.Rng, idx map[string]*wasiproxy.Sig) wcall {
	const ones = ^uint64(0)
	fd := uint64(r.Intn(4))
	c := wcall{FD: int64(fd), Valid: true, Note: "all-ones-args"}
	switch r.Intn(3) {
	case 0:
		c.Fn, c.Args = "fd_filestat_set_times", []uint64{fd, ones, ones, 0}
	case 1:
		c.Fn, c.Args = "fd_advise", []uint64{fd, ones, ones, 0}
	default:
		g := &gen{r: r, c: &c, cur: 256 + uint32(r.Intn(30000))}
		c.Fn = "fd_seek"
		c.Args = []uint64{fd, ones, uint64(r.Intn(3)), uint64(g.out(8, "newoffset"))}
	}
	if idx[c.Fn] == nil {
		c.Fn, c.Args, c.In, c.Out = "sched_yield", nil, nil, nil
	}
	if r.Chance(1, 3) {
		c.Shape = callShapes[1+r.Intn(len(callShapes)-1)]
	}
	return c
}
