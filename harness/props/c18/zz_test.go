package c18
import ("testing";"fmt";"sort")
func TestDump(t *testing.T){
 p:=getProc()
 agg:=map[string]int{}
 for s:=0;s<300;s++{
  so:=p.runScript(&scriptCase{ID:s,Seed:uint64(s)*77+1,N:150,Stats:true})
  for k,n:=range so.Stats{agg[k]+=n}
  for _,f:=range so.Findings{fmt.Println("FINDING",f.Sig,f.Detail)}
 }
 var ks []string; for k:=range agg{ks=append(ks,k)}; sort.Strings(ks)
 for _,k:=range ks{fmt.Println(agg[k],k)}
}
