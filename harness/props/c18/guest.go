package c18

import (
	"github.com/tetratelabs/wazero/verifharness/wasiproxy"
	"github.com/tetratelabs/wazero/verifharness/wenc"
)

// callShapes are the ways a script step reaches a WASI import. "" is the flat
// pass-through wrapper of wasiproxy. The others make the call with a "dirty"
// native/value stack, generically for every function of the signature table:
//
//	d8/d16/d24  first call a helper with 8/16/24 i64 arguments, all
//	            0xffffffffffffffff, then the import with the real arguments
//	df          the same with a helper taking 12 f64 arguments (all-ones NaN)
//	n3          the import is called from three nested guest frames
//	d24n3       d24 in the outermost frame, then three nested frames
//
// The export of function f in shape s is named f@s. Which shape a script step
// uses is decided by the script PRNG, so it is the same in every process,
// engine and instance.
var callShapes = []string{"", "d8", "d16", "d24", "df", "n3", "d24n3"}

func exportName(fn, shape string) string {
	if shape == "" {
		return fn
	}
	return fn + "@" + shape
}

// buildGuest returns the proxy guest (one page of memory, min = max = 1)
// extended with the dirty-stack call shapes.
func buildGuest(sigs []wasiproxy.Sig) []byte {
	m := wasiproxy.BuildModule(sigs, 1, 1)
	rep := func(t wenc.ValType, n int) []wenc.ValType {
		out := make([]wenc.ValType, n)
		for i := range out {
			out[i] = t
		}
		return out
	}
	// helpers: consume all their arguments so that they really are passed
	helper := func(t wenc.ValType, n int, xor byte) uint32 {
		c := &wenc.Code{}
		c.LocalGet(0)
		for i := 1; i < n; i++ {
			c.LocalGet(uint32(i)).Op(xor)
		}
		c.End()
		return m.AddFunc(rep(t, n), []wenc.ValType{t}, nil, c.B)
	}
	h := map[string]uint32{
		"d8":  helper(wenc.I64, 8, 0x85),  // i64.xor
		"d16": helper(wenc.I64, 16, 0x85), //
		"d24": helper(wenc.I64, 24, 0x85), //
		"df":  helper(wenc.F64, 12, 0xa0), // f64.add
	}
	dirty := func(c *wenc.Code, shape string) {
		switch shape {
		case "d8", "d16", "d24":
			n := map[string]int{"d8": 8, "d16": 16, "d24": 24}[shape]
			for i := 0; i < n; i++ {
				c.I64Const(-1)
			}
		case "df":
			for i := 0; i < 12; i++ {
				c.F64Const(0xffffffffffffffff)
			}
		}
		c.Call(h[shape]).Drop()
	}
	for i, s := range sigs {
		pass := func(target uint32, pre string) uint32 {
			c := &wenc.Code{}
			if pre != "" {
				dirty(c, pre)
			}
			for p := range s.Params {
				c.LocalGet(uint32(p))
			}
			c.Call(target).End()
			return m.AddFunc(s.Params, s.Results, nil, c.B)
		}
		imp := uint32(i)
		for _, sh := range []string{"d8", "d16", "d24", "df"} {
			m.ExportFunc(exportName(s.Name, sh), pass(imp, sh))
		}
		n1 := pass(imp, "")
		n2 := pass(n1, "")
		m.ExportFunc(exportName(s.Name, "n3"), pass(n2, ""))
		m.ExportFunc(exportName(s.Name, "d24n3"), pass(n2, "d24"))
	}
	return m.Encode()
}
